(* Tree::nullary / unary / binary / remap / apply of libfive/src/tree/tree.cpp,
   rule for rule and in the order of the C++ if / else-if ladders, on the arena.
   Every constructor returns the (possibly extended) arena and an identity. *)
From Coq Require Import List Arith Bool Lia.
From LF Require Import Base.Opcode Base.Num Base.Arena.
Import ListNotations.

Section Build.
  Context {num : Type} (O : ops num).
  Notation node := (node num).
  Notation arena := (arena num).

  (* static singletons of tree.cpp: X(), Y(), Z(), invalid(), one() *)
  Definition idX := 0. Definition idY := 1. Definition idZ := 2.
  Definition idInvalid := 3. Definition idOne := 4.
  Definition init_arena : arena :=
    [NNullary VAR_X; NNullary VAR_Y; NNullary VAR_Z; NInvalid; NConst (o_one O)].

  Definition mk_const (a : arena) (c : num) : arena * nat := push a (NConst c).

  Definition mk_nullary (a : arena) (op : opcode) : arena * nat :=
    match args op with
    | Some 0 =>
        match op with
        | VAR_X => (a, idX) | VAR_Y => (a, idY) | VAR_Z => (a, idZ)
        | _ => push a (NNullary op)
        end
    | _ => (a, idInvalid)
    end.

  Definition mk_var (a : arena) : arena * nat := mk_nullary a VAR_FREE.

  Definition mk_unary (a : arena) (op : opcode) (l : nat) : arena * nat :=
    match args op with
    | Some 1 =>
        match getn a l with
        | NConst c => push a (NConst (o_un O op c))     (* constant folding *)
        | nl =>
            match op with
            | OP_ABS =>
                match nl with
                | NUnary OP_ABS _ | NUnary OP_SQUARE _ => (a, l)
                | _ => push a (NUnary op l)
                end
            | OP_NEG =>
                match nl with
                | NUnary OP_NEG x => (a, x)
                | _ => push a (NUnary op l)
                end
            | _ => push a (NUnary op l)
            end
        end
    | _ => (a, idInvalid)
    end.

  Definition is_zero (c : num) := o_eqb O c (o_zero O).
  Definition is_one (c : num) := o_eqb O c (o_one O).
  Definition is_mone (c : num) := o_eqb O c (o_mone O).

  (* [fuel] bounds the ADD <-> SUB mutual recursion through operator+/-.
     Each recursive call strips one OP_NEG, so 3 always suffices for arenas
     built by these constructors; out of fuel the plain node is built (which is
     still semantically correct, so no theorem depends on the bound). *)
  Fixpoint mk_binary (fuel : nat) (a : arena) (op : opcode) (l r : nat) : arena * nat :=
    let dflt := push a (NBinary op l r) in
    let rec op' l' r' :=
      match fuel with
      | 0 => push a (NBinary op' l' r')
      | S f => mk_binary f a op' l' r'
      end in
    match args op with
    | Some 2 =>
        match getn a l, getn a r with
        | NConst c1, NConst c2 => push a (NConst (o_bin O op c1 c2))
        | nl, nr =>
            match op with
            | OP_DIV =>
                match nr with
                | NConst c => if is_one c then (a, l) else dflt
                | _ => dflt
                end
            | OP_ADD =>
                match nl with
                | NConst c => if is_zero c then (a, r) else dflt
                | _ =>
                  match nr with
                  | NConst c => if is_zero c then (a, l) else dflt
                  | _ =>
                    match nl with
                    | NUnary o x => if opcode_eqb o OP_NEG then rec OP_SUB r x else dflt
                    | _ =>
                      match nr with
                      | NUnary o x => if opcode_eqb o OP_NEG then rec OP_SUB l x else dflt
                      | _ => dflt
                      end
                    end
                  end
                end
            | OP_SUB =>
                match nl with
                | NConst c => if is_zero c then mk_unary a OP_NEG r else dflt
                | _ =>
                  match nr with
                  | NConst c => if is_zero c then (a, l) else dflt
                  | NUnary o x => if opcode_eqb o OP_NEG then rec OP_ADD l x else dflt
                  | _ => dflt
                  end
                end
            | OP_MUL =>
                match nl with
                | NConst c =>
                    if is_zero c then (a, l)
                    else if is_one c then (a, r)
                    else if is_mone c then mk_unary a OP_NEG r
                    else dflt
                | _ =>
                  match nr with
                  | NConst c =>
                      if is_zero c then (a, r)
                      else if is_one c then (a, l)
                      else if is_mone c then mk_unary a OP_NEG l
                      else dflt
                  | _ => if Nat.eqb l r then mk_unary a OP_SQUARE l else dflt
                  end
                end
            | OP_NTH_ROOT | OP_POW =>
                match nr with
                | NConst c => if is_one c then (a, l) else dflt
                | _ => dflt
                end
            | OP_MIN | OP_MAX => if Nat.eqb l r then (a, l) else dflt
            | _ => dflt
            end
        end
    | _ => (a, idInvalid)
    end.

  Definition binary_fuel := 8.
  Definition mk_bin (a : arena) (op : opcode) (l r : nat) := mk_binary binary_fuel a op l r.

  (* TreeData::compute_flags, recomputed bottom-up (a pure function of shape) *)
  Record flags := { f_remap : bool; f_oracle : bool; f_xyz : bool }.
  Definition f_none := {| f_remap := false; f_oracle := false; f_xyz := false |}.
  Definition f_or (p q : flags) :=
    {| f_remap := f_remap p || f_remap q; f_oracle := f_oracle p || f_oracle q;
       f_xyz := f_xyz p || f_xyz q |}.
  Definition getf (fs : list flags) (i : nat) := nth i fs f_none.
  Definition node_flags (fs : list flags) (n : node) : flags :=
    match n with
    | NConst _ => f_none
    | NNullary VAR_X | NNullary VAR_Y | NNullary VAR_Z =>
        {| f_remap := false; f_oracle := false; f_xyz := true |}
    | NNullary _ => f_none
    | NUnary _ x => getf fs x
    | NBinary _ x y => f_or (getf fs x) (getf fs y)
    | NOracle _ | NOracleT _ _ _ _ => {| f_remap := false; f_oracle := true; f_xyz := false |}
    | NRemap x y z t =>
        f_or {| f_remap := true; f_oracle := false; f_xyz := false |}
             (f_or (f_or (getf fs x) (getf fs y)) (f_or (getf fs z) (getf fs t)))
    | NApply v e t =>
        f_or {| f_remap := true; f_oracle := false; f_xyz := false |}
             (f_or (getf fs v) (f_or (getf fs e) (getf fs t)))
    | NInvalid => f_none
    end.
  Definition all_flags (a : arena) : list flags :=
    fold_left (fun fs n => fs ++ [node_flags fs n]) a [].
  Definition flags_of (a : arena) (i : nat) : flags := getf (all_flags a) i.

  (* Tree::remap *)
  Definition mk_remap (a : arena) (t x y z : nat) : arena * nat :=
    if Nat.eqb x idX && Nat.eqb y idY && Nat.eqb z idZ then (a, t)
    else
      let f := flags_of a t in
      if f_xyz f || f_oracle f then push a (NRemap x y z t) else (a, t).

  (* Tree::apply; None = ApplyException *)
  Definition mk_apply (a : arena) (t v e : nat) : option (arena * nat) :=
    match getn a v with
    | NNullary VAR_FREE => Some (push a (NApply v e t))
    | _ => None
    end.

End Build.
