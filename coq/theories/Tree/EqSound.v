(* Tree::eq is sound: two trees the deep-equality test calls equal denote the
   same function (corollary of cooptimize_sem). *)
From Coq Require Import Reals List Arith Lia.
From LF Require Import Base.Opcode Base.Num Base.Arena Base.Sem Base.RInst
  Tree.Build Tree.BuildSem Tree.Flatten Tree.FlattenSem Tree.Optimize Tree.OptimizeSem.

Section EqSound.
  Variable uf : opcode -> R -> R.
  Variable bf : opcode -> R -> R -> R.
  Hypothesis pow_1 : forall x, bf OP_POW x 1%R = x.
  Hypothesis root_1 : forall x, bf OP_NTH_ROOT x 1%R = x.
  Variable osem : nat -> R -> R -> R -> R.
  Notation O := (R_ops uf bf).

  Theorem eq_sound : forall (a : arena R) i j,
    arena_wf a -> base_ok O a -> i < length a -> j < length a -> noT a i -> noT a j ->
    snd (tree_eq O a i j) = true ->
    forall r, val O osem a i r = val O osem a j r.
  Proof.
    intros a i j Hwf Hb Hi Hj Hni Hnj Heq r.
    pose proof (cooptimize_sem uf bf pow_1 root_1 osem a i j Hwf Hb Hi Hj Hni Hnj) as H.
    unfold tree_eq in Heq.
    destruct (optimized_helper O a nil i) as [st1 i'].
    destruct (optimized_helper O (st_arena st1) (st_canon st1) j) as [st2 j'].
    cbn [snd] in Heq. apply Nat.eqb_eq in Heq. subst j'.
    destruct H as (_ & _ & _ & Hv). destruct (Hv r) as [H1 H2]. rewrite <- H1, <- H2. reflexivity.
  Qed.

  (* ... also for trees with transformed oracles anywhere ([good], FlattenSem.v) *)
  Theorem eq_sound_o : forall (a : arena R) i j,
    arena_wf a -> base_ok O a -> i < length a -> j < length a ->
    good O osem a i -> good O osem a j ->
    snd (tree_eq O a i j) = true ->
    forall r, val O osem a i r = val O osem a j r.
  Proof.
    intros a i j Hwf Hb Hi Hj Hni Hnj Heq r.
    pose proof (cooptimize_sem_o uf bf pow_1 root_1 osem a i j Hwf Hb Hi Hj Hni Hnj) as H.
    unfold tree_eq in Heq.
    destruct (optimized_helper O a nil i) as [st1 i'].
    destruct (optimized_helper O (st_arena st1) (st_canon st1) j) as [st2 j'].
    cbn [snd] in Heq. apply Nat.eqb_eq in Heq. subst j'.
    destruct H as (_ & _ & _ & Hv). destruct (Hv r) as [H1 H2]. rewrite <- H1, <- H2. reflexivity.
  Qed.
End EqSound.
