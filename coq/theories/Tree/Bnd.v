(* The level bound [bnd_of] of Optimize.v (an upper bound on the nesting depth of
   transformed oracles that flatten + optimise produce): bookkeeping, stability
   under arena extension, and what the constructors do to it. *)
From Coq Require Import List Arith Bool Lia.
From LF Require Import Base.Opcode Base.Num Base.Arena Tree.Build Tree.BuildSem Tree.Flatten
  Tree.Optimize.
Import ListNotations.

Section Bnd.
  Context {num : Type} (O : ops num).
  Notation node := (node num).
  Notation arena := (arena num).

  Lemma all_bnd_snoc (a : arena) (n : node) :
    all_bnd (a ++ [n]) = all_bnd a ++ [node_bnd (all_bnd a) n].
  Proof. unfold all_bnd; rewrite fold_left_app; reflexivity. Qed.

  Lemma all_bnd_length (a : arena) : length (all_bnd a) = length a.
  Proof.
    induction a as [|n a IH] using rev_ind; [reflexivity|].
    rewrite all_bnd_snoc, !app_length, IH; reflexivity.
  Qed.

  Lemma bnd_snoc_old (a : arena) (n : node) i : i < length a -> bnd_of (a ++ [n]) i = bnd_of a i.
  Proof.
    intros Hi; unfold bnd_of, getb. rewrite all_bnd_snoc.
    apply app_nth1; rewrite all_bnd_length; exact Hi.
  Qed.

  Lemma bnd_snoc_new (a : arena) (n : node) :
    bnd_of (a ++ [n]) (length a) = node_bnd (all_bnd a) n.
  Proof.
    unfold bnd_of, getb. rewrite all_bnd_snoc, app_nth2; rewrite all_bnd_length; [|lia].
    rewrite Nat.sub_diag; reflexivity.
  Qed.

  Lemma bnd_extends (a a' : arena) i : extends a a' -> i < length a -> bnd_of a' i = bnd_of a i.
  Proof.
    intros [b ->] Hi. induction b as [|n b IH] using rev_ind.
    - rewrite app_nil_r; reflexivity.
    - rewrite app_assoc, bnd_snoc_old; [exact IH | rewrite app_length; lia].
  Qed.

  Lemma node_bnd_ext len (n : node) bs bs' : node_wf len n ->
    (forall k, k < len -> getb bs k = getb bs' k) -> node_bnd bs n = node_bnd bs' n.
  Proof.
    intros Hw H. destruct n; cbn [node_bnd node_wf] in *; try reflexivity;
      repeat match goal with H0 : _ /\ _ |- _ => destruct H0 end;
      rewrite ?(H a) by assumption; rewrite ?(H b) by assumption;
      rewrite ?(H x) by assumption; rewrite ?(H y) by assumption;
      rewrite ?(H z) by assumption; rewrite ?(H u) by assumption;
      rewrite ?(H t) by assumption; rewrite ?(H e) by assumption; reflexivity.
  Qed.

  (* the bound of a node is its shape evaluated over the bounds of its children *)
  Lemma bnd_node (a : arena) : arena_wf a -> forall i, i < length a ->
    bnd_of a i = node_bnd (all_bnd a) (getn a i).
  Proof.
    induction a as [|n a IH] using rev_ind; intros Hwf i Hi; [simpl in Hi; lia|].
    apply arena_wf_snoc in Hwf. destruct Hwf as [Hwf Hn].
    rewrite app_length in Hi; simpl in Hi.
    assert (Hold : forall k, k < length a -> getb (all_bnd a) k = getb (all_bnd (a ++ [n])) k).
    { intros k Hk. symmetry. apply (bnd_snoc_old a n k Hk). }
    destruct (Nat.eq_dec i (length a)) as [->|Hne].
    - rewrite bnd_snoc_new, getn_snoc_new. apply (node_bnd_ext (length a)); assumption.
    - assert (Hi' : i < length a) by lia.
      rewrite bnd_snoc_old by exact Hi'. rewrite getn_app_old by exact Hi'.
      rewrite (IH Hwf i Hi'). apply (node_bnd_ext i).
      + apply arena_wf_nth; assumption.
      + intros k Hk. apply Hold. lia.
  Qed.

  Lemma bnd_unary (a : arena) i op x : arena_wf a -> i < length a -> getn a i = NUnary op x ->
    bnd_of a i = bnd_of a x.
  Proof. intros Hwf Hi Hn. rewrite (bnd_node a Hwf i Hi), Hn. reflexivity. Qed.

  Lemma bnd_binary (a : arena) i op x y : arena_wf a -> i < length a -> getn a i = NBinary op x y ->
    bnd_of a i = Nat.max (bnd_of a x) (bnd_of a y).
  Proof. intros Hwf Hi Hn. rewrite (bnd_node a Hwf i Hi), Hn. reflexivity. Qed.

  Lemma bnd_oracleT (a : arena) i x y z u : arena_wf a -> i < length a ->
    getn a i = NOracleT x y z u ->
    bnd_of a i = S (Nat.max (Nat.max (bnd_of a x) (bnd_of a y)) (bnd_of a z)).
  Proof. intros Hwf Hi Hn. rewrite (bnd_node a Hwf i Hi), Hn. reflexivity. Qed.

  Lemma bnd_oracle (a : arena) i k : arena_wf a -> i < length a -> getn a i = NOracle k ->
    bnd_of a i = 1.
  Proof. intros Hwf Hi Hn. rewrite (bnd_node a Hwf i Hi), Hn. reflexivity. Qed.

  Lemma bnd_remap (a : arena) i x y z t : arena_wf a -> i < length a -> getn a i = NRemap x y z t ->
    bnd_of a i = bnd_of a t + Nat.max (Nat.max (bnd_of a x) (bnd_of a y)) (bnd_of a z).
  Proof. intros Hwf Hi Hn. rewrite (bnd_node a Hwf i Hi), Hn. reflexivity. Qed.

  Lemma bnd_apply (a : arena) i v e t : arena_wf a -> i < length a -> getn a i = NApply v e t ->
    bnd_of a i = bnd_of a t + bnd_of a e.
  Proof. intros Hwf Hi Hn. rewrite (bnd_node a Hwf i Hi), Hn. reflexivity. Qed.

  (* result of a constructor, bounded by [M] *)
  Definition bres (res : arena * nat) (M : nat) : Prop := bnd_of (fst res) (snd res) <= M.

  Lemma bres_push (a : arena) n M : node_bnd (all_bnd a) n <= M -> bres (push a n) M.
  Proof. intros H. unfold bres, push; cbn [fst snd]. rewrite bnd_snoc_new. exact H. Qed.

  Lemma unary_bnd (a : arena) op l M : arena_wf a -> l < length a -> args op = Some 1 ->
    bnd_of a l <= M -> bres (mk_unary O a op l) M.
  Proof.
    intros Hwf Hl Hop HM. unfold mk_unary. rewrite Hop.
    assert (Hd : bres (push a (NUnary op l)) M) by (apply bres_push; exact HM).
    assert (Hs : bres (a, l) M) by exact HM.
    assert (Hk : forall o x, getn a l = NUnary o x -> bres (a, x) M).
    { intros o x Hn. unfold bres; cbn [fst snd]. rewrite <- (bnd_unary a l o x Hwf Hl Hn). exact HM. }
    destruct (getn a l) as [c|o|o x|o x y|k|x' y' z' t'|x y z t|v e t|] eqn:Hn.
    - apply bres_push. cbn [node_bnd]. lia.
    - destruct op; exact Hd.
    - destruct op; try exact Hd.
      + destruct o; try exact Hd. eapply Hk; reflexivity.
      + destruct o; try exact Hd; exact Hs.
    - destruct op; exact Hd.
    - destruct op; exact Hd.
    - destruct op; exact Hd.
    - destruct op; exact Hd.
    - destruct op; exact Hd.
    - destruct op; exact Hd.
  Qed.

  Lemma un_kid_bnd (a : arena) l o x M : arena_wf a -> l < length a -> getn a l = NUnary o x ->
    bnd_of a l <= M -> x < length a /\ bnd_of a x <= M.
  Proof.
    intros Hwf Hl Hn HM. pose proof (arena_wf_nth a l Hwf Hl) as Hw. rewrite Hn in Hw.
    cbn [node_wf] in Hw. split; [lia|]. rewrite <- (bnd_unary a l o x Hwf Hl Hn). exact HM.
  Qed.

  Lemma binary_bnd fuel : forall (a : arena) op l r M,
    arena_wf a -> l < length a -> r < length a -> args op = Some 2 ->
    bnd_of a l <= M -> bnd_of a r <= M -> bres (mk_binary O fuel a op l r) M.
  Proof.
    induction fuel as [|fuel IH]; intros a op l r M Hwf Hl Hr Hop Hpl Hpr.
    all: assert (Hpush : forall op' l' r', bnd_of a l' <= M -> bnd_of a r' <= M ->
                   bres (push a (NBinary op' l' r')) M)
           by (intros op' l' r' H1 H2; apply bres_push; cbn [node_bnd]; apply Nat.max_lub; assumption).
    all: assert (Hd : bres (push a (NBinary op l r)) M) by (apply Hpush; assumption).
    1: assert (Hrec : forall op' l' r', args op' = Some 2 -> l' < length a -> r' < length a ->
                 bnd_of a l' <= M -> bnd_of a r' <= M -> bres (push a (NBinary op' l' r')) M)
         by (intros; apply Hpush; assumption).
    2: assert (Hrec : forall op' l' r', args op' = Some 2 -> l' < length a -> r' < length a ->
                 bnd_of a l' <= M -> bnd_of a r' <= M -> bres (mk_binary O fuel a op' l' r') M)
         by (intros; apply IH; assumption).
    all: assert (Hsl : bres (a, l) M) by exact Hpl.
    all: assert (Hsr : bres (a, r) M) by exact Hpr.
    all: assert (Hul : forall o, args o = Some 1 -> bres (mk_unary O a o l) M)
           by (intros; apply unary_bnd; assumption).
    all: assert (Hur : forall o, args o = Some 1 -> bres (mk_unary O a o r) M)
           by (intros; apply unary_bnd; assumption).
    all: assert (Hkl : forall o x, getn a l = NUnary o x -> x < length a /\ bnd_of a x <= M)
           by (intros o x Hn; exact (un_kid_bnd a l o x M Hwf Hl Hn Hpl)).
    all: assert (Hkr : forall o x, getn a r = NUnary o x -> x < length a /\ bnd_of a x <= M)
           by (intros o x Hn; exact (un_kid_bnd a r o x M Hwf Hr Hn Hpr)).
    all: assert (Hc : forall c, bres (push a (NConst c)) M)
           by (intros c; apply bres_push; cbn [node_bnd]; lia).
    all: cbn [mk_binary]; rewrite Hop.
    all: destruct (getn a l) as [c1|o1|o1 x1|o1 x1 y1|k1|x1' y1' z1' t1'|x1 y1 z1 t1|v1 e1 t1|] eqn:Hnl;
         destruct (getn a r) as [c2|o2|o2 x2|o2 x2 y2|k2|x2' y2' z2' t2'|x2 y2 z2 t2|v2 e2 t2|] eqn:Hnr.
    all: try (apply Hc).
    all: destruct op; try discriminate Hop; try exact Hd.
    all: repeat match goal with
         | |- context [if ?c then _ else _] => destruct c eqn:?
         end; try exact Hd; try exact Hsl; try exact Hsr.
    all: try (apply Hul; reflexivity).
    all: try (apply Hur; reflexivity).
    all: try (destruct (Hkl _ _ eq_refl) as [? ?]; apply Hrec; auto; fail).
    all: try (destruct (Hkr _ _ eq_refl) as [? ?]; apply Hrec; auto; fail).
  Qed.

  Transparent mk_bin.
  Corollary bin_bnd (a : arena) op l r M :
    arena_wf a -> l < length a -> r < length a -> args op = Some 2 ->
    bnd_of a l <= M -> bnd_of a r <= M -> bres (mk_bin O a op l r) M.
  Proof. intros; unfold mk_bin; apply binary_bnd; assumption. Qed.
  Opaque mk_bin.

  Lemma remap_bnd (a : arena) t x y z :
    bres (mk_remap a t x y z)
         (bnd_of a t + Nat.max (Nat.max (bnd_of a x) (bnd_of a y)) (bnd_of a z)).
  Proof.
    unfold mk_remap.
    destruct (Nat.eqb x idX && Nat.eqb y idY && Nat.eqb z idZ);
      [unfold bres; cbn [fst snd]; lia|].
    destruct (f_xyz (flags_of a t) || f_oracle (flags_of a t)); [|unfold bres; cbn [fst snd]; lia].
    apply bres_push. cbn [node_bnd]. unfold bnd_of. lia.
  Qed.
End Bnd.
