(* The rule tables re-read from Tree::unary / Tree::binary (Gen/BuildRules_gen.v, produced by
   translate/gen_build.py) interpreted with the C++ control flow (Tree/BuildRules.v) ARE the
   hand-written constructors Build.mk_unary / Build.mk_binary: behavioural equality, for every
   number type, every arena, every opcode, every operand pair and every fuel. *)
From Coq Require Import List Arith Bool NArith.
From LF Require Import Base.Opcode Base.Num Base.Arena Tree.Build Tree.BuildRules Gen.BuildRules_gen.
Import ListNotations.

Section Agree.
  Context {num : Type} (O : ops num).

  Ltac split_ifs :=
    repeat match goal with
           | |- context [if ?b then _ else _] =>
               match type of b with bool => destruct b end
           end.

  Theorem unary_rules_from_source :
    forall (a : arena num) (op : opcode) (l : nat),
      interp_unary O unary_rules_gen a op l = mk_unary O a op l.
  Proof.
    intros a op l.
    unfold interp_unary, mk_unary, run_table, unary_rules_gen.
    destruct op; cbn; try reflexivity;
      destruct (getn a l) as [c|o|o x|o x y|k|x y z u|x y z t|v e t|]; cbn; try reflexivity;
      destruct o; reflexivity.
  Qed.

  (* one opcode, one fuel case: run the guards (the opcode is concrete), then the patterns
     (the two operand nodes are destructed), then decide the remaining boolean tests *)
  Ltac run_guards :=
    cbn [interp_binary mk_binary]; unfold run_table;
    cbn [fst snd run_rules guard_holds args negb Nat.eqb existsb opcode_eqb code N.eqb Pos.eqb orb
         run_result_bin].
  Ltac run_patterns :=
    cbn [is_const_node andb run_result_bin run_pats pat_match pick run_tests test_holds operand_id
         inner cst_is existsb cval].

  Theorem binary_rules_from_source :
    forall (fuel : nat) (a : arena num) (op : opcode) (l r : nat),
      interp_binary O unary_rules_gen binary_rules_gen fuel a op l r = mk_binary O fuel a op l r.
  Proof.
    induction fuel as [|f IH]; intros a op l r; unfold binary_rules_gen in *.
    - destruct op; run_guards; try reflexivity; run_patterns;
        destruct (getn a l) as [c|o|o x|o x y|k|x y z u|x y z t|v e t|];
        destruct (getn a r) as [c'|o'|o' x'|o' x' y'|k'|x' y' z' u'|x' y' z' t'|v' e' t'|];
        run_patterns; try reflexivity;
        rewrite ?orb_false_r, ?unary_rules_from_source;
        split_ifs; reflexivity.
    - destruct op; run_guards; try reflexivity; run_patterns;
        destruct (getn a l) as [c|o|o x|o x y|k|x y z u|x y z t|v e t|];
        destruct (getn a r) as [c'|o'|o' x'|o' x' y'|k'|x' y' z' u'|x' y' z' t'|v' e' t'|];
        run_patterns; try reflexivity;
        rewrite ?orb_false_r, ?unary_rules_from_source, ?IH;
        split_ifs; reflexivity.
  Qed.

  (* the public entry point of the model, Build.mk_bin *)
  Corollary mk_bin_from_source :
    forall (a : arena num) (op : opcode) (l r : nat),
      interp_binary O unary_rules_gen binary_rules_gen binary_fuel a op l r = mk_bin O a op l r.
  Proof. intros; apply binary_rules_from_source. Qed.
End Agree.

Print Assumptions unary_rules_from_source.
Print Assumptions binary_rules_from_source.
Print Assumptions mk_bin_from_source.
