(* C07 (first half): every simplification applied while building an expression
   yields a node denoting the mathematical definition of the operation.
   Proved for every number type satisfying the algebraic [laws] below (the reals
   satisfy them: RInst.v), for every arena, every opcode, every rule branch. *)
From Coq Require Import List Arith Bool Lia.
From LF Require Import Base.Opcode Base.Num Base.Arena Base.Sem Tree.Build.
Import ListNotations.

Section BuildSem.
  Context {num : Type} (O : ops num).
  Variable osem : nat -> num -> num -> num -> num.
  Notation node := (node num).
  Notation arena := (arena num).
  Notation env := (env num).
  Notation val := (val O osem).

  Record laws : Prop := {
    L_eqb : forall a b, o_eqb O a b = true -> a = b;
    L_add_0_l : forall x, o_add O (o_zero O) x = x;
    L_add_0_r : forall x, o_add O x (o_zero O) = x;
    L_add_neg_l : forall a b, o_add O (o_neg O a) b = o_sub O b a;
    L_add_neg_r : forall a b, o_add O a (o_neg O b) = o_sub O a b;
    L_sub_0_l : forall x, o_sub O (o_zero O) x = o_neg O x;
    L_sub_0_r : forall x, o_sub O x (o_zero O) = x;
    L_sub_neg_r : forall a b, o_sub O a (o_neg O b) = o_add O a b;
    L_mul_0_l : forall x, o_mul O (o_zero O) x = o_zero O;
    L_mul_0_r : forall x, o_mul O x (o_zero O) = o_zero O;
    L_mul_1_l : forall x, o_mul O (o_one O) x = x;
    L_mul_1_r : forall x, o_mul O x (o_one O) = x;
    L_mul_m1_l : forall x, o_mul O (o_mone O) x = o_neg O x;
    L_mul_m1_r : forall x, o_mul O x (o_mone O) = o_neg O x;
    L_mul_same : forall x, o_mul O x x = o_un O OP_SQUARE x;
    L_div_1 : forall x, o_div O x (o_one O) = x;
    L_pow_1 : forall x, o_bin O OP_POW x (o_one O) = x;
    L_root_1 : forall x, o_bin O OP_NTH_ROOT x (o_one O) = x;
    L_min_same : forall x, o_bin O OP_MIN x x = x;
    L_max_same : forall x, o_bin O OP_MAX x x = x;
    L_abs_abs : forall x, o_un O OP_ABS (o_un O OP_ABS x) = o_un O OP_ABS x;
    L_abs_square : forall x, o_un O OP_ABS (o_un O OP_SQUARE x) = o_un O OP_SQUARE x;
    L_neg_neg : forall x, o_neg O (o_neg O x) = x;
  }.
  Hypothesis LAWS : laws.
  Definition env0 : env := Build_env (o_zero O) (o_zero O) (o_zero O) (fun _ => o_zero O).

  Definition extends (a a' : arena) : Prop := exists b, a' = a ++ b.

  Lemma extends_refl a : extends a a. Proof. exists []; rewrite app_nil_r; reflexivity. Qed.
  Lemma extends_trans a b c : extends a b -> extends b c -> extends a c.
  Proof. intros [x ->] [y ->]; exists (x ++ y); rewrite app_assoc; reflexivity. Qed.
  Lemma extends_length a a' : extends a a' -> length a <= length a'.
  Proof. intros [b ->]; rewrite app_length; lia. Qed.
  Lemma extends_val a a' i r : extends a a' -> i < length a -> val a' i r = val a i r.
  Proof. intros [b ->] Hi; rewrite val_extend by exact Hi; reflexivity. Qed.
  Lemma extends_getn a a' i : extends a a' -> i < length a -> getn a' i = getn a i.
  Proof. intros [b ->] Hi; apply getn_app_old; exact Hi. Qed.

  (* the specification shared by all constructors *)
  Definition ok_result (a : arena) (res : arena * nat) (f : env -> num) : Prop :=
    extends a (fst res) /\ arena_wf (fst res) /\ snd res < length (fst res) /\
    (forall r, val (fst res) (snd res) r = f r).

  Lemma ok_weaken a res f g :
    ok_result a res f -> (forall r, f r = g r) -> ok_result a res g.
  Proof. intros (H1 & H2 & H3 & H4) Hfg; repeat split; auto; intros r; rewrite H4; apply Hfg. Qed.

  Lemma ok_same a i f :
    arena_wf a -> i < length a -> (forall r, val a i r = f r) -> ok_result a (a, i) f.
  Proof. intros; repeat split; simpl; auto using extends_refl. Qed.

  Lemma ok_push a n f :
    arena_wf a -> node_wf (length a) n ->
    (forall r, nodeval O osem (vals O osem a) (length a) n r = f r) ->
    ok_result a (push a n) f.
  Proof.
    intros Hwf Hn Hf; unfold push; repeat split; simpl.
    - exists [n]; reflexivity.
    - apply arena_wf_snoc; auto.
    - rewrite app_length; simpl; lia.
    - intros r; rewrite val_push; apply Hf.
  Qed.

  Lemma ok_trans a res f :
    forall a1, extends a a1 -> ok_result a1 res f -> ok_result a res f.
  Proof. intros a1 He (H1 & H2 & H3 & H4); repeat split; auto; eapply extends_trans; eauto. Qed.

  (* reading shapes *)
  Lemma val_const a i c r : i < length a -> getn a i = NConst c -> val a i r = c.
  Proof. intros Hi Hn; rewrite val_node by exact Hi; rewrite Hn; reflexivity. Qed.

  Lemma val_unary a i op x r : arena_wf a -> i < length a -> getn a i = NUnary op x ->
    x < i /\ val a i r = o_un O op (val a x r).
  Proof.
    intros Hwf Hi Hn. pose proof (arena_wf_nth a i Hwf Hi) as Hw; rewrite Hn in Hw; simpl in Hw.
    destruct Hw as [Hw _].
    split; [exact Hw|]. rewrite val_node by exact Hi; rewrite Hn; simpl.
    rewrite getv_vals_firstn by lia; reflexivity.
  Qed.

  Lemma shape_unary_args (a : arena) i op x : arena_wf a -> i < length a -> getn a i = NUnary op x -> args op = Some 1.
  Proof. intros Hwf Hi Hn. pose proof (arena_wf_nth a i Hwf Hi) as Hw; rewrite Hn in Hw; apply Hw. Qed.
  Lemma shape_binary_args (a : arena) i op x y : arena_wf a -> i < length a -> getn a i = NBinary op x y -> args op = Some 2.
  Proof. intros Hwf Hi Hn. pose proof (arena_wf_nth a i Hwf Hi) as Hw; rewrite Hn in Hw; apply Hw. Qed.

  Lemma val_binary a i op x y r : arena_wf a -> i < length a -> getn a i = NBinary op x y ->
    x < i /\ y < i /\ val a i r = o_bin O op (val a x r) (val a y r).
  Proof.
    intros Hwf Hi Hn. pose proof (arena_wf_nth a i Hwf Hi) as Hw; rewrite Hn in Hw; simpl in Hw.
    destruct Hw as (Hx & Hy & _). repeat split; auto.
    rewrite val_node by exact Hi; rewrite Hn; simpl.
    rewrite !getv_vals_firstn by lia; reflexivity.
  Qed.

  (* ---------------------------------------------------------------- *)
  (* base (singleton) invariant *)
  Definition base_ok (a : arena) : Prop := firstn 5 a = init_arena O.

  Lemma base_ok_extends a a' : base_ok a -> extends a a' -> base_ok a'.
  Proof.
    intros Hb [b ->]. unfold base_ok in *.
    assert (5 <= length a).
    { rewrite <- (firstn_skipn 5 a), app_length, Hb; simpl; lia. }
    rewrite firstn_app. replace (5 - length a) with 0 by lia.
    simpl; rewrite app_nil_r; exact Hb.
  Qed.

  Lemma base_ok_len a : base_ok a -> 5 <= length a.
  Proof. intros Hb; rewrite <- (firstn_skipn 5 a), app_length, Hb; simpl; lia. Qed.

  Lemma base_getn a i : base_ok a -> i < 5 -> getn a i = getn (init_arena O) i.
  Proof.
    intros Hb Hi. rewrite <- (firstn_skipn 5 a), Hb. apply getn_app_old; simpl; exact Hi.
  Qed.

  Lemma val_X a r : base_ok a -> val a idX r = ex r.
  Proof. intros Hb. pose proof (base_ok_len a Hb). rewrite val_node by (unfold idX; lia).
    rewrite (base_getn a idX Hb) by (unfold idX; lia). reflexivity. Qed.
  Lemma val_Y a r : base_ok a -> val a idY r = ey r.
  Proof. intros Hb. pose proof (base_ok_len a Hb). rewrite val_node by (unfold idY; lia).
    rewrite (base_getn a idY Hb) by (unfold idY; lia). reflexivity. Qed.
  Lemma val_Z a r : base_ok a -> val a idZ r = ez r.
  Proof. intros Hb. pose proof (base_ok_len a Hb). rewrite val_node by (unfold idZ; lia).
    rewrite (base_getn a idZ Hb) by (unfold idZ; lia). reflexivity. Qed.

  (* ---------------------------------------------------------------- *)
  Theorem const_sem a c : arena_wf a -> ok_result a (mk_const a c) (fun _ => c).
  Proof. intros; apply ok_push; simpl; auto. Qed.

  Theorem nullary_sem_x a : arena_wf a -> base_ok a -> ok_result a (mk_nullary a VAR_X) (fun r => ex r).
  Proof. intros Hwf Hb; simpl. pose proof (base_ok_len a Hb).
    apply ok_same; auto; [unfold idX; lia | intros; apply val_X; auto]. Qed.
  Theorem nullary_sem_y a : arena_wf a -> base_ok a -> ok_result a (mk_nullary a VAR_Y) (fun r => ey r).
  Proof. intros Hwf Hb; simpl. pose proof (base_ok_len a Hb).
    apply ok_same; auto; [unfold idY; lia | intros; apply val_Y; auto]. Qed.
  Theorem nullary_sem_z a : arena_wf a -> base_ok a -> ok_result a (mk_nullary a VAR_Z) (fun r => ez r).
  Proof. intros Hwf Hb; simpl. pose proof (base_ok_len a Hb).
    apply ok_same; auto; [unfold idZ; lia | intros; apply val_Z; auto]. Qed.
  (* a fresh free variable denotes "the value assigned to this very node" *)
  Theorem var_sem a : arena_wf a -> ok_result a (mk_var a) (fun r => ev r (length a)).
  Proof. intros; apply ok_push; simpl; auto. Qed.

  Theorem unary_sem a op l :
    arena_wf a -> l < length a -> args op = Some 1 ->
    ok_result a (mk_unary O a op l) (fun r => o_un O op (val a l r)).
  Proof.
    intros Hwf Hl Hop. unfold mk_unary. rewrite Hop.
    assert (Hd : ok_result a (push a (NUnary op l)) (fun r => o_un O op (val a l r))).
    { apply ok_push; simpl; auto. }
    destruct (getn a l) as [c|o|o x|o x y|k|x' y' z' t'|x y z t|v e t|] eqn:Hn.
    - apply ok_push; simpl; auto. intros r. rewrite (val_const a l c r Hl Hn); reflexivity.
    - destruct op; exact Hd.
    - destruct op; try exact Hd.
      + (* NEG *) destruct o; try exact Hd.
        destruct (val_unary a l OP_NEG x env0 Hwf Hl Hn) as [Hx _].
        apply ok_same; auto; [lia|]. intros r.
        destruct (val_unary a l OP_NEG x r Hwf Hl Hn) as [_ ->].
        symmetry; apply (L_neg_neg LAWS).
      + (* ABS *) destruct o; try exact Hd; (apply ok_same; auto; intros r;
        destruct (val_unary a l _ x r Hwf Hl Hn) as [_ ->]; symmetry).
        * apply (L_abs_square LAWS).
        * apply (L_abs_abs LAWS).
    - destruct op; exact Hd.
    - destruct op; exact Hd.
    - destruct op; exact Hd.
    - destruct op; exact Hd.
    - destruct op; exact Hd.
    - destruct op; exact Hd.
  Qed.

  Ltac law_rw :=
    repeat match goal with
    | H : o_eqb O ?c _ = true |- _ => apply (L_eqb LAWS) in H; subst c
    end.

  Theorem binary_sem fuel : forall a op l r,
    arena_wf a -> l < length a -> r < length a -> args op = Some 2 ->
    ok_result a (mk_binary O fuel a op l r) (fun e => o_bin O op (val a l e) (val a r e)).
  Proof.
    induction fuel as [|fuel IH]; intros a op l r Hwf Hl Hr Hop.
    all: assert (Hd : ok_result a (push a (NBinary op l r)) (fun e => o_bin O op (val a l e) (val a r e)))
      by (apply ok_push; simpl; auto).
    1: assert (Hrec : forall op' l' r', args op' = Some 2 -> l' < length a -> r' < length a ->
        ok_result a (push a (NBinary op' l' r'))
                  (fun e => o_bin O op' (val a l' e) (val a r' e)))
      by (intros op' l' r' Hop' Hl' Hr'; apply ok_push; simpl; auto).
    2: assert (Hrec : forall op' l' r', args op' = Some 2 -> l' < length a -> r' < length a ->
        ok_result a (mk_binary O fuel a op' l' r')
                  (fun e => o_bin O op' (val a l' e) (val a r' e)))
      by (intros op' l' r' Hop' Hl' Hr'; apply IH; auto).
    all: cbn [mk_binary]; rewrite Hop.
    all: destruct (getn a l) as [c1|o1|o1 x1|o1 x1 y1|k1|x1' y1' z1' t1'|x1 y1 z1 t1|v1 e1 t1|] eqn:Hnl;
         destruct (getn a r) as [c2|o2|o2 x2|o2 x2 y2|k2|x2' y2' z2' t2'|x2 y2 z2 t2|v2 e2 t2|] eqn:Hnr.
    all: try (apply ok_push; simpl; auto; intros e;
              rewrite (val_const a l c1 e Hl Hnl), (val_const a r c2 e Hr Hnr); reflexivity).
    all: destruct op; try discriminate Hop; try exact Hd.
    all: unfold is_zero, is_one, is_mone.
    all: repeat match goal with
         | |- context [if ?c then _ else _] => destruct c eqn:?
         end; try exact Hd.
    all: law_rw.
    all: try match goal with H : opcode_eqb _ _ = true |- _ => apply opcode_eqb_eq in H; subst end.
    all: try match goal with H : Nat.eqb _ _ = true |- _ => apply Nat.eqb_eq in H; subst end.
    all: try (apply ok_same; auto; intros e;
              repeat match goal with
              | H : getn ?a0 ?i = NConst ?c |- context [val ?a0 ?i ?e0] =>
                  rewrite (val_const a0 i c e0 ltac:(assumption) H)
              end;
              first [ symmetry; apply (L_add_0_l LAWS) | symmetry; apply (L_add_0_r LAWS)
                    | symmetry; apply (L_sub_0_r LAWS) | symmetry; apply (L_mul_0_l LAWS)
                    | symmetry; apply (L_mul_0_r LAWS) | symmetry; apply (L_mul_1_l LAWS)
                    | symmetry; apply (L_mul_1_r LAWS) | symmetry; apply (L_div_1 LAWS)
                    | symmetry; apply (L_pow_1 LAWS) | symmetry; apply (L_root_1 LAWS)
                    | symmetry; apply (L_min_same LAWS) | symmetry; apply (L_max_same LAWS) ]; fail).
    all: try (eapply ok_weaken; [apply unary_sem; auto|]; intros e; cbn beta;
              repeat match goal with
              | H : getn ?a0 ?i = NConst ?c |- context [val ?a0 ?i ?e0] =>
                  rewrite (val_const a0 i c e0 ltac:(assumption) H)
              end;
              first [ symmetry; apply (L_sub_0_l LAWS) | symmetry; apply (L_mul_m1_l LAWS)
                    | symmetry; apply (L_mul_m1_r LAWS) | symmetry; apply (L_mul_same LAWS) ]; fail).
    (* the ADD <-> SUB recursive cases *)
    all: try (match goal with
              | H : getn ?a0 ?i = NUnary OP_NEG ?x |- _ =>
                  let Hx := fresh "Hx" in
                  destruct (val_unary a0 i OP_NEG x
                              env0
                              ltac:(assumption) ltac:(assumption) H) as [Hx _];
                  eapply ok_weaken; [apply Hrec; [reflexivity | lia | lia] |];
                  let e := fresh "e" in
                  intros e; cbn beta;
                  destruct (val_unary a0 i OP_NEG x e ltac:(assumption) ltac:(assumption) H) as [_ ->];
                  first [ symmetry; apply (L_add_neg_l LAWS) | symmetry; apply (L_add_neg_r LAWS)
                        | symmetry; apply (L_sub_neg_r LAWS) ]
              end; fail).
  Qed.

  Corollary bin_sem a op l r :
    arena_wf a -> l < length a -> r < length a -> args op = Some 2 ->
    ok_result a (mk_bin O a op l r) (fun e => o_bin O op (val a l e) (val a r e)).
  Proof. intros; unfold mk_bin; apply binary_sem; assumption. Qed.

End BuildSem.
Global Opaque mk_bin.
