(* C07: flattening yields the same function: the environment-passing machine
   equals the mathematical meaning of remap (composition) and apply (lexically
   scoped substitution).  Stated for arenas whose nodes at or below the
   flattened id are not already-transformed oracles (see DESIGN.md, C07 gap:
   apply is not substituted inside the coordinate trees of a transformed
   oracle; that case is searched for on the implementation, not proved). *)
From Coq Require Import List Arith Bool Lia.
From LF Require Import Base.Opcode Base.Num Base.Arena Base.Sem Tree.Build Tree.BuildSem
  Tree.RemapSem Tree.Flatten.
Import ListNotations.

Section FlattenSem.
  Context {num : Type} (O : ops num).
  Variable osem : nat -> num -> num -> num -> num.
  Hypothesis LAWS : laws O.
  Notation node := (node num).
  Notation arena := (arena num).
  Notation env := (env num).
  Notation val := (val O osem).
  Notation ok_result := (ok_result O osem).

  (* environment in which the body is evaluated, given the outer one *)
  Definition menv (a : arena) (m : fenv) (r : env) : env :=
    {| ex := val a (fx m) r; ey := val a (fy m) r; ez := val a (fz m) r;
       ev := fun w => match lookup (fvars m) w with
                      | Some j => val a j r
                      | None => ev r w
                      end |}.

  Definition fenv_ok (a : arena) (m : fenv) : Prop :=
    fx m < length a /\ fy m < length a /\ fz m < length a /\
    forall w j, lookup (fvars m) w = Some j -> j < length a.

  Definition is_oracleT (n : node) : bool :=
    match n with NOracleT _ _ _ _ => true | _ => false end.
  Definition noT (a : arena) (i : nat) : Prop :=
    forall j, j <= i -> is_oracleT (getn a j) = false.

  Lemma fenv_ok_extends a a' m : fenv_ok a m -> extends a a' -> fenv_ok a' m.
  Proof.
    intros (H1 & H2 & H3 & H4) He. pose proof (extends_length a a' He).
    repeat split; try lia. intros w j Hl. specialize (H4 w j Hl). lia.
  Qed.

  Lemma menv_extends a a' m r : fenv_ok a m -> extends a a' ->
    env_eqv (menv a' m r) (menv a m r) /\ env_xyz (menv a' m r) (menv a m r).
  Proof.
    intros (H1 & H2 & H3 & H4) He. split.
    - intros w; simpl. destruct (lookup (fvars m) w) as [j|] eqn:Hl; [|reflexivity].
      apply (extends_val O osem); auto. eapply H4; eauto.
    - unfold env_xyz; simpl. rewrite !(extends_val O osem a a') by auto. auto.
  Qed.

  Lemma val_menv_extends a a' m r i : arena_wf a -> i < length a -> fenv_ok a m -> extends a a' ->
    val a i (menv a' m r) = val a i (menv a m r).
  Proof.
    intros Hwf Hi Hm He. destruct (menv_extends a a' m r Hm He). apply (val_ext O osem); auto.
  Qed.

  Lemma IH_transport a a1 m j res : arena_wf a -> j < length a -> fenv_ok a m -> extends a a1 ->
    ok_result a1 res (fun r => val a1 j (menv a1 m r)) ->
    ok_result a1 res (fun r => val a j (menv a m r)).
  Proof.
    intros Hwf Hj Hm He Hok. eapply ok_weaken; [exact Hok|]. intros r; cbn beta.
    rewrite (extends_val O osem a a1) by auto. apply val_menv_extends; auto.
  Qed.

  Lemma noT_extends a a1 j : extends a a1 -> j < length a -> noT a j -> noT a1 j.
  Proof. intros He Hj Hn k Hk. rewrite (extends_getn a a1) by (auto; lia). apply Hn; exact Hk. Qed.

  Lemma val_remap a i x y z t r : arena_wf a -> i < length a -> getn a i = NRemap x y z t ->
    val a i r = val a t (upd_xyz r (val a x r) (val a y r) (val a z r)).
  Proof.
    intros Hwf Hi Hn. pose proof (arena_wf_nth a i Hwf Hi) as Hw; rewrite Hn in Hw; simpl in Hw.
    rewrite val_node by exact Hi; rewrite Hn; simpl. rewrite !getv_vals_firstn by lia. reflexivity.
  Qed.

  Lemma val_apply a i v e t r : arena_wf a -> i < length a -> getn a i = NApply v e t ->
    val a i r = val a t (upd_var r v (val a e r)).
  Proof.
    intros Hwf Hi Hn. pose proof (arena_wf_nth a i Hwf Hi) as Hw; rewrite Hn in Hw; simpl in Hw.
    rewrite val_node by exact Hi; rewrite Hn; simpl. rewrite !getv_vals_firstn by lia. reflexivity.
  Qed.

  Theorem flat_sem : forall fuel a m i,
    i < fuel -> arena_wf a -> base_ok O a -> i < length a -> fenv_ok a m -> noT a i ->
    ok_result a (flat O fuel a m i) (fun r => val a i (menv a m r)).
  Proof.
    induction fuel as [|fuel IH]; intros a m i Hfuel Hwf Hb Hi Hm HnoT; [lia|].
    cbn [flat].
    pose proof (arena_wf_nth a i Hwf Hi) as Hnw.
    pose proof (HnoT i (le_n i)) as HnT.
    assert (HnoT' : forall j, j < i -> noT a j) by (intros j Hj k Hk; apply HnoT; lia).
    destruct (getn a i) as [c|o|o x|o x y|k|x y z u|x y z t|v e t|] eqn:Hn; simpl in Hnw.
    - (* constant *)
      apply ok_same; auto. intros r. rewrite !(val_const O osem a i c) by auto. reflexivity.
    - (* nullary *)
      destruct Hm as (Hmx & Hmy & Hmz & Hmv).
      destruct o; try (apply ok_same; auto; intros r; rewrite !(val_node O osem a i) by exact Hi; rewrite Hn; reflexivity).
      + destruct (lookup (fvars m) i) as [j|] eqn:Hl.
        * apply ok_same; auto; [eapply Hmv; eauto|]. intros r.
          rewrite (val_node O osem a i) by exact Hi. rewrite Hn. simpl. rewrite Hl. reflexivity.
        * apply ok_same; auto. intros r.
          rewrite !(val_node O osem a i) by exact Hi. rewrite Hn. simpl. rewrite Hl. reflexivity.
    - (* unary *)
      destruct Hnw as [Hxi Ha].
      assert (Hx : x < length a) by lia.
      specialize (IH a m x ltac:(lia) Hwf Hb Hx Hm (HnoT' x Hxi)).
      destruct (flat O fuel a m x) as [a1 x'] eqn:Hf. destruct IH as (He1 & Hwf1 & Hx' & Hv1); cbn [fst snd] in *.
      assert (Hval : forall r, val a i (menv a m r) = o_un O o (val a1 x' r)).
      { intros r. destruct (val_unary O osem a i o x (menv a m r) Hwf Hi Hn) as [_ ->]. rewrite Hv1; reflexivity. }
      destruct (Nat.eqb x' x) eqn:Hxx.
      + apply Nat.eqb_eq in Hxx; subst x'.
        repeat split; simpl; auto; [pose proof (extends_length _ _ He1); lia|].
        intros r. rewrite Hval. rewrite (extends_val O osem a a1) by auto.
        destruct (val_unary O osem a i o x r Hwf Hi Hn) as [_ ->].
        rewrite <- (extends_val O osem a a1 x r) by auto. reflexivity.
      + eapply ok_trans; [exact He1|]. eapply ok_weaken; [apply unary_sem; auto|].
        intros r; cbn beta. symmetry; apply Hval.
    - (* binary: rhs first, then lhs *)
      destruct Hnw as (Hxi & Hyi & Ha).
      assert (Hx : x < length a) by lia. assert (Hy : y < length a) by lia.
      pose proof (IH a m y ltac:(lia) Hwf Hb Hy Hm (HnoT' y Hyi)) as IHy.
      destruct (flat O fuel a m y) as [a1 y'] eqn:Hfy. destruct IHy as (He1 & Hwf1 & Hy' & Hv1); cbn [fst snd] in *.
      pose proof (base_ok_extends O a a1 Hb He1) as Hb1.
      pose proof (extends_length _ _ He1) as Hl1.
      pose proof (IH a1 m x ltac:(lia) Hwf1 Hb1 ltac:(lia) (fenv_ok_extends a a1 m Hm He1)
                     (noT_extends a a1 x He1 Hx (HnoT' x Hxi))) as IHx.
      apply (IH_transport a a1 m x _ Hwf Hx Hm He1) in IHx.
      destruct (flat O fuel a1 m x) as [a2 x'] eqn:Hfx. destruct IHx as (He2 & Hwf2 & Hx' & Hv2); cbn [fst snd] in *.
      pose proof (extends_length _ _ He2) as Hl2.
      assert (He02 : extends a a2) by (eapply extends_trans; eauto).
      assert (Hval : forall r, val a i (menv a m r) = o_bin O o (val a2 x' r) (val a2 y' r)).
      { intros r. destruct (val_binary O osem a i o x y (menv a m r) Hwf Hi Hn) as (_ & _ & ->).
        rewrite Hv2. rewrite (extends_val O osem a1 a2 y') by auto. rewrite Hv1. reflexivity. }
      destruct (Nat.eqb x' x && Nat.eqb y' y) eqn:Hxx.
      + apply andb_true_iff in Hxx; destruct Hxx as [H1 H2].
        apply Nat.eqb_eq in H1, H2; subst x' y'.
        repeat split; simpl; auto; [lia|].
        intros r. rewrite Hval. rewrite (extends_val O osem a a2 i) by auto.
        destruct (val_binary O osem a i o x y r Hwf Hi Hn) as (_ & _ & ->).
        rewrite !(extends_val O osem a a2) by auto. reflexivity.
      + eapply ok_trans; [exact He02|]. eapply ok_weaken; [apply bin_sem; auto; lia|].
        intros r; cbn beta. symmetry; apply Hval.
    - (* plain oracle: wrapped with the current coordinate trees *)
      destruct Hm as (Hmx & Hmy & Hmz & Hmv).
      apply ok_push; simpl; auto. intros r.
      change (getv O (vals O osem a) i) with (val a i).
      change (getv O (vals O osem a) (fx m)) with (val a (fx m)).
      change (getv O (vals O osem a) (fy m)) with (val a (fy m)).
      change (getv O (vals O osem a) (fz m)) with (val a (fz m)).
      rewrite !(val_node O osem a i) by exact Hi. rewrite Hn. reflexivity.
    - (* already-transformed oracle: excluded *)
      simpl in HnT; discriminate HnT.
    - (* remap *)
      destruct Hnw as (Hxi & Hyi & Hzi & Hti).
      assert (Hx : x < length a) by lia. assert (Hy : y < length a) by lia.
      assert (Hz : z < length a) by lia. assert (Ht : t < length a) by lia.
      pose proof (IH a m x ltac:(lia) Hwf Hb Hx Hm (HnoT' x Hxi)) as IHx.
      destruct (flat O fuel a m x) as [a1 x'] eqn:Hfx. destruct IHx as (He1 & Hwf1 & Hx' & Hv1); cbn [fst snd] in *.
      pose proof (base_ok_extends O a a1 Hb He1) as Hb1.
      pose proof (extends_length _ _ He1) as Hl1.
      pose proof (IH a1 m y ltac:(lia) Hwf1 Hb1 ltac:(lia) (fenv_ok_extends a a1 m Hm He1)
                     (noT_extends a a1 y He1 Hy (HnoT' y Hyi))) as IHy.
      apply (IH_transport a a1 m y _ Hwf Hy Hm He1) in IHy.
      destruct (flat O fuel a1 m y) as [a2 y'] eqn:Hfy. destruct IHy as (He2 & Hwf2 & Hy' & Hv2); cbn [fst snd] in *.
      pose proof (extends_length _ _ He2) as Hl2.
      assert (He02 : extends a a2) by (eapply extends_trans; eauto).
      pose proof (base_ok_extends O a a2 Hb He02) as Hb2.
      pose proof (IH a2 m z ltac:(lia) Hwf2 Hb2 ltac:(lia) (fenv_ok_extends a a2 m Hm He02)
                     (noT_extends a a2 z He02 Hz (HnoT' z Hzi))) as IHz.
      apply (IH_transport a a2 m z _ Hwf Hz Hm He02) in IHz.
      destruct (flat O fuel a2 m z) as [a3 z'] eqn:Hfz. destruct IHz as (He3 & Hwf3 & Hz' & Hv3); cbn [fst snd] in *.
      pose proof (extends_length _ _ He3) as Hl3.
      assert (He03 : extends a a3) by (eapply extends_trans; eauto).
      assert (He13 : extends a1 a3) by (eapply extends_trans; eauto).
      pose proof (base_ok_extends O a a3 Hb He03) as Hb3.
      set (m' := {| fx := x'; fy := y'; fz := z'; fvars := fvars m |}).
      assert (Hm' : fenv_ok a3 m').
      { destruct Hm as (Hmx & Hmy & Hmz & Hmv). repeat split; simpl; try lia.
        intros w j Hl. specialize (Hmv w j Hl). lia. }
      pose proof (IH a3 m' t ltac:(lia) Hwf3 Hb3 ltac:(lia) Hm'
                     (noT_extends a a3 t He03 Ht (HnoT' t Hti))) as IHt.
      eapply ok_trans; [exact He03|]. eapply ok_weaken; [exact IHt|].
      intros r; cbn beta.
      rewrite (val_remap a i x y z t) by auto.
      rewrite (extends_val O osem a a3 t) by auto.
      apply (val_ext O osem); auto.
      + intros w; simpl. destruct (lookup (fvars m) w) as [j|] eqn:Hl; [|reflexivity].
        destruct Hm as (_ & _ & _ & Hmv). apply (extends_val O osem); auto. eapply Hmv; eauto.
      + unfold env_xyz; simpl. repeat split.
        * rewrite (extends_val O osem a1 a3 x') by auto. apply Hv1.
        * rewrite (extends_val O osem a2 a3 y') by auto. apply Hv2.
        * apply Hv3.
    - (* apply *)
      destruct Hnw as (Hvi & Hei & Hti).
      assert (He : e < length a) by lia. assert (Ht : t < length a) by lia.
      pose proof (IH a m e ltac:(lia) Hwf Hb He Hm (HnoT' e Hei)) as IHe.
      destruct (flat O fuel a m e) as [a1 e'] eqn:Hfe. destruct IHe as (He1 & Hwf1 & He' & Hv1); cbn [fst snd] in *.
      pose proof (base_ok_extends O a a1 Hb He1) as Hb1.
      pose proof (extends_length _ _ He1) as Hl1.
      set (m' := {| fx := fx m; fy := fy m; fz := fz m; fvars := (v, e') :: fvars m |}).
      assert (Hm' : fenv_ok a1 m').
      { destruct Hm as (Hmx & Hmy & Hmz & Hmv). repeat split; simpl; try lia.
        intros w j. destruct (Nat.eqb w v); [intros H; inversion H; subst; lia|].
        intros Hl. specialize (Hmv w j Hl). lia. }
      pose proof (IH a1 m' t ltac:(lia) Hwf1 Hb1 ltac:(lia) Hm'
                     (noT_extends a a1 t He1 Ht (HnoT' t Hti))) as IHt.
      eapply ok_trans; [exact He1|]. eapply ok_weaken; [exact IHt|].
      intros r; cbn beta.
      rewrite (val_apply a i v e t) by auto.
      rewrite (extends_val O osem a a1 t) by auto.
      destruct Hm as (Hmx & Hmy & Hmz & Hmv).
      apply (val_ext O osem); auto.
      + intros w; simpl. destruct (Nat.eqb w v); [apply Hv1|].
        destruct (lookup (fvars m) w) as [j|] eqn:Hl; [|reflexivity].
        apply (extends_val O osem); auto. eapply Hmv; eauto.
      + unfold env_xyz; simpl. rewrite !(extends_val O osem a a1) by auto. auto.
    - (* invalid *)
      apply ok_same; auto. intros r. rewrite !(val_node O osem a i) by exact Hi. rewrite Hn. reflexivity.
  Qed.

  (* Tree::flatten *)
  Theorem flatten_sem a i :
    arena_wf a -> base_ok O a -> i < length a -> noT a i ->
    ok_result a (flatten O a i) (fun r => val a i r).
  Proof.
    intros Hwf Hb Hi HnoT. unfold flatten.
    destruct (f_remap (flags_of a i)); [|apply ok_same; auto].
    pose proof (base_ok_len O a Hb) as Hl.
    eapply ok_weaken.
    - apply flat_sem; auto. unfold fenv_ok, fenv0, idX, idY, idZ; simpl.
      repeat split; try lia. intros w j H; discriminate H.
    - intros r; cbn beta. apply (val_ext O osem); auto.
      + intros w; reflexivity.
      + unfold env_xyz; simpl. rewrite (val_X O osem), (val_Y O osem), (val_Z O osem) by exact Hb. auto.
  Qed.

End FlattenSem.
