(* C07: flattening yields the same function: the environment-passing machine
   equals the mathematical meaning of remap (composition) and apply (lexically
   scoped substitution).  Stated for arenas whose nodes at or below the
   flattened id are not already-transformed oracles (see DESIGN.md, C07 gap:
   apply is not substituted inside the coordinate trees of a transformed
   oracle; that case is searched for on the implementation, not proved). *)
From Coq Require Import List Arith Bool Lia.
From LF Require Import Base.Opcode Base.Num Base.Arena Base.Sem Tree.Build Tree.BuildSem
  Tree.RemapSem Tree.Flatten.
Import ListNotations.

Section FlattenSem.
  Context {num : Type} (O : ops num).
  Variable osem : nat -> num -> num -> num -> num.
  Hypothesis LAWS : laws O.
  Notation node := (node num).
  Notation arena := (arena num).
  Notation env := (env num).
  Notation val := (val O osem).
  Notation ok_result := (ok_result O osem).

  (* environment in which the body is evaluated, given the outer one *)
  Definition menv (a : arena) (m : fenv) (r : env) : env :=
    {| ex := val a (fx m) r; ey := val a (fy m) r; ez := val a (fz m) r;
       ev := fun w => match lookup (fvars m) w with
                      | Some j => val a j r
                      | None => ev r w
                      end |}.

  Definition fenv_ok (a : arena) (m : fenv) : Prop :=
    fx m < length a /\ fy m < length a /\ fz m < length a /\
    forall w j, lookup (fvars m) w = Some j -> j < length a.

  Definition is_oracleT (n : node) : bool :=
    match n with NOracleT _ _ _ _ => true | _ => false end.
  Definition noT (a : arena) (i : nat) : Prop :=
    forall j, j <= i -> is_oracleT (getn a j) = false.

  Lemma fenv_ok_extends a a' m : fenv_ok a m -> extends a a' -> fenv_ok a' m.
  Proof.
    intros (H1 & H2 & H3 & H4) He. pose proof (extends_length a a' He).
    repeat split; try lia. intros w j Hl. specialize (H4 w j Hl). lia.
  Qed.

  Lemma menv_extends a a' m r : fenv_ok a m -> extends a a' ->
    env_eqv (menv a' m r) (menv a m r) /\ env_xyz (menv a' m r) (menv a m r).
  Proof.
    intros (H1 & H2 & H3 & H4) He. split.
    - intros w; simpl. destruct (lookup (fvars m) w) as [j|] eqn:Hl; [|reflexivity].
      apply (extends_val O osem); auto. eapply H4; eauto.
    - unfold env_xyz; simpl. rewrite !(extends_val O osem a a') by auto. auto.
  Qed.

  Lemma val_menv_extends a a' m r i : arena_wf a -> i < length a -> fenv_ok a m -> extends a a' ->
    val a i (menv a' m r) = val a i (menv a m r).
  Proof.
    intros Hwf Hi Hm He. destruct (menv_extends a a' m r Hm He). apply (val_ext O osem); auto.
  Qed.

  Lemma IH_transport a a1 m j res : arena_wf a -> j < length a -> fenv_ok a m -> extends a a1 ->
    ok_result a1 res (fun r => val a1 j (menv a1 m r)) ->
    ok_result a1 res (fun r => val a j (menv a m r)).
  Proof.
    intros Hwf Hj Hm He Hok. eapply ok_weaken; [exact Hok|]. intros r; cbn beta.
    rewrite (extends_val O osem a a1) by auto. apply val_menv_extends; auto.
  Qed.

  Lemma noT_extends a a1 j : extends a a1 -> j < length a -> noT a j -> noT a1 j.
  Proof. intros He Hj Hn k Hk. rewrite (extends_getn a a1) by (auto; lia). apply Hn; exact Hk. Qed.

  Lemma val_remap a i x y z t r : arena_wf a -> i < length a -> getn a i = NRemap x y z t ->
    val a i r = val a t (upd_xyz r (val a x r) (val a y r) (val a z r)).
  Proof.
    intros Hwf Hi Hn. pose proof (arena_wf_nth a i Hwf Hi) as Hw; rewrite Hn in Hw; simpl in Hw.
    rewrite val_node by exact Hi; rewrite Hn; simpl. rewrite !getv_vals_firstn by lia. reflexivity.
  Qed.

  Lemma val_apply a i v e t r : arena_wf a -> i < length a -> getn a i = NApply v e t ->
    val a i r = val a t (upd_var r v (val a e r)).
  Proof.
    intros Hwf Hi Hn. pose proof (arena_wf_nth a i Hwf Hi) as Hw; rewrite Hn in Hw; simpl in Hw.
    rewrite val_node by exact Hi; rewrite Hn; simpl. rewrite !getv_vals_firstn by lia. reflexivity.
  Qed.

  Lemma val_oracleT_f a i x y z u r : arena_wf a -> i < length a -> getn a i = NOracleT x y z u ->
    val a i r = val a u (upd_xyz r (val a x r) (val a y r) (val a z r)).
  Proof.
    intros Hwf Hi Hn. pose proof (arena_wf_nth a i Hwf Hi) as Hw; rewrite Hn in Hw; simpl in Hw.
    rewrite val_node by exact Hi; rewrite Hn; simpl. rewrite !getv_vals_firstn by lia. reflexivity.
  Qed.

  Theorem flat_sem : forall fuel a m i,
    i < fuel -> arena_wf a -> base_ok O a -> i < length a -> fenv_ok a m -> noT a i ->
    ok_result a (flat O fuel a m i) (fun r => val a i (menv a m r)).
  Proof.
    induction fuel as [|fuel IH]; intros a m i Hfuel Hwf Hb Hi Hm HnoT; [lia|].
    cbn [flat].
    pose proof (arena_wf_nth a i Hwf Hi) as Hnw.
    pose proof (HnoT i (le_n i)) as HnT.
    assert (HnoT' : forall j, j < i -> noT a j) by (intros j Hj k Hk; apply HnoT; lia).
    destruct (getn a i) as [c|o|o x|o x y|k|x y z u|x y z t|v e t|] eqn:Hn; simpl in Hnw.
    - (* constant *)
      apply ok_same; auto. intros r. rewrite !(val_const O osem a i c) by auto. reflexivity.
    - (* nullary *)
      destruct Hm as (Hmx & Hmy & Hmz & Hmv).
      destruct o; try (apply ok_same; auto; intros r; rewrite !(val_node O osem a i) by exact Hi; rewrite Hn; reflexivity).
      + destruct (lookup (fvars m) i) as [j|] eqn:Hl.
        * apply ok_same; auto; [eapply Hmv; eauto|]. intros r.
          rewrite (val_node O osem a i) by exact Hi. rewrite Hn. simpl. rewrite Hl. reflexivity.
        * apply ok_same; auto. intros r.
          rewrite !(val_node O osem a i) by exact Hi. rewrite Hn. simpl. rewrite Hl. reflexivity.
    - (* unary *)
      destruct Hnw as [Hxi Ha].
      assert (Hx : x < length a) by lia.
      specialize (IH a m x ltac:(lia) Hwf Hb Hx Hm (HnoT' x Hxi)).
      destruct (flat O fuel a m x) as [a1 x'] eqn:Hf. destruct IH as (He1 & Hwf1 & Hx' & Hv1); cbn [fst snd] in *.
      assert (Hval : forall r, val a i (menv a m r) = o_un O o (val a1 x' r)).
      { intros r. destruct (val_unary O osem a i o x (menv a m r) Hwf Hi Hn) as [_ ->]. rewrite Hv1; reflexivity. }
      destruct (Nat.eqb x' x) eqn:Hxx.
      + apply Nat.eqb_eq in Hxx; subst x'.
        repeat split; simpl; auto; [pose proof (extends_length _ _ He1); lia|].
        intros r. rewrite Hval. rewrite (extends_val O osem a a1) by auto.
        destruct (val_unary O osem a i o x r Hwf Hi Hn) as [_ ->].
        rewrite <- (extends_val O osem a a1 x r) by auto. reflexivity.
      + eapply ok_trans; [exact He1|]. eapply ok_weaken; [apply unary_sem; auto|].
        intros r; cbn beta. symmetry; apply Hval.
    - (* binary: rhs first, then lhs *)
      destruct Hnw as (Hxi & Hyi & Ha).
      assert (Hx : x < length a) by lia. assert (Hy : y < length a) by lia.
      pose proof (IH a m y ltac:(lia) Hwf Hb Hy Hm (HnoT' y Hyi)) as IHy.
      destruct (flat O fuel a m y) as [a1 y'] eqn:Hfy. destruct IHy as (He1 & Hwf1 & Hy' & Hv1); cbn [fst snd] in *.
      pose proof (base_ok_extends O a a1 Hb He1) as Hb1.
      pose proof (extends_length _ _ He1) as Hl1.
      pose proof (IH a1 m x ltac:(lia) Hwf1 Hb1 ltac:(lia) (fenv_ok_extends a a1 m Hm He1)
                     (noT_extends a a1 x He1 Hx (HnoT' x Hxi))) as IHx.
      apply (IH_transport a a1 m x _ Hwf Hx Hm He1) in IHx.
      destruct (flat O fuel a1 m x) as [a2 x'] eqn:Hfx. destruct IHx as (He2 & Hwf2 & Hx' & Hv2); cbn [fst snd] in *.
      pose proof (extends_length _ _ He2) as Hl2.
      assert (He02 : extends a a2) by (eapply extends_trans; eauto).
      assert (Hval : forall r, val a i (menv a m r) = o_bin O o (val a2 x' r) (val a2 y' r)).
      { intros r. destruct (val_binary O osem a i o x y (menv a m r) Hwf Hi Hn) as (_ & _ & ->).
        rewrite Hv2. rewrite (extends_val O osem a1 a2 y') by auto. rewrite Hv1. reflexivity. }
      destruct (Nat.eqb x' x && Nat.eqb y' y) eqn:Hxx.
      + apply andb_true_iff in Hxx; destruct Hxx as [H1 H2].
        apply Nat.eqb_eq in H1, H2; subst x' y'.
        repeat split; simpl; auto; [lia|].
        intros r. rewrite Hval. rewrite (extends_val O osem a a2 i) by auto.
        destruct (val_binary O osem a i o x y r Hwf Hi Hn) as (_ & _ & ->).
        rewrite !(extends_val O osem a a2) by auto. reflexivity.
      + eapply ok_trans; [exact He02|]. eapply ok_weaken; [apply bin_sem; auto; lia|].
        intros r; cbn beta. symmetry; apply Hval.
    - (* plain oracle: wrapped with the current coordinate trees *)
      destruct Hm as (Hmx & Hmy & Hmz & Hmv).
      apply ok_push; simpl; auto. intros r.
      change (getv O (vals O osem a) i) with (val a i).
      change (getv O (vals O osem a) (fx m)) with (val a (fx m)).
      change (getv O (vals O osem a) (fy m)) with (val a (fy m)).
      change (getv O (vals O osem a) (fz m)) with (val a (fz m)).
      rewrite !(val_node O osem a i) by exact Hi. rewrite Hn. reflexivity.
    - (* already-transformed oracle: excluded *)
      simpl in HnT; discriminate HnT.
    - (* remap *)
      destruct Hnw as (Hxi & Hyi & Hzi & Hti).
      assert (Hx : x < length a) by lia. assert (Hy : y < length a) by lia.
      assert (Hz : z < length a) by lia. assert (Ht : t < length a) by lia.
      pose proof (IH a m x ltac:(lia) Hwf Hb Hx Hm (HnoT' x Hxi)) as IHx.
      destruct (flat O fuel a m x) as [a1 x'] eqn:Hfx. destruct IHx as (He1 & Hwf1 & Hx' & Hv1); cbn [fst snd] in *.
      pose proof (base_ok_extends O a a1 Hb He1) as Hb1.
      pose proof (extends_length _ _ He1) as Hl1.
      pose proof (IH a1 m y ltac:(lia) Hwf1 Hb1 ltac:(lia) (fenv_ok_extends a a1 m Hm He1)
                     (noT_extends a a1 y He1 Hy (HnoT' y Hyi))) as IHy.
      apply (IH_transport a a1 m y _ Hwf Hy Hm He1) in IHy.
      destruct (flat O fuel a1 m y) as [a2 y'] eqn:Hfy. destruct IHy as (He2 & Hwf2 & Hy' & Hv2); cbn [fst snd] in *.
      pose proof (extends_length _ _ He2) as Hl2.
      assert (He02 : extends a a2) by (eapply extends_trans; eauto).
      pose proof (base_ok_extends O a a2 Hb He02) as Hb2.
      pose proof (IH a2 m z ltac:(lia) Hwf2 Hb2 ltac:(lia) (fenv_ok_extends a a2 m Hm He02)
                     (noT_extends a a2 z He02 Hz (HnoT' z Hzi))) as IHz.
      apply (IH_transport a a2 m z _ Hwf Hz Hm He02) in IHz.
      destruct (flat O fuel a2 m z) as [a3 z'] eqn:Hfz. destruct IHz as (He3 & Hwf3 & Hz' & Hv3); cbn [fst snd] in *.
      pose proof (extends_length _ _ He3) as Hl3.
      assert (He03 : extends a a3) by (eapply extends_trans; eauto).
      assert (He13 : extends a1 a3) by (eapply extends_trans; eauto).
      pose proof (base_ok_extends O a a3 Hb He03) as Hb3.
      set (m' := {| fx := x'; fy := y'; fz := z'; fvars := fvars m |}).
      assert (Hm' : fenv_ok a3 m').
      { destruct Hm as (Hmx & Hmy & Hmz & Hmv). repeat split; simpl; try lia.
        intros w j Hl. specialize (Hmv w j Hl). lia. }
      pose proof (IH a3 m' t ltac:(lia) Hwf3 Hb3 ltac:(lia) Hm'
                     (noT_extends a a3 t He03 Ht (HnoT' t Hti))) as IHt.
      eapply ok_trans; [exact He03|]. eapply ok_weaken; [exact IHt|].
      intros r; cbn beta.
      rewrite (val_remap a i x y z t) by auto.
      rewrite (extends_val O osem a a3 t) by auto.
      apply (val_ext O osem); auto.
      + intros w; simpl. destruct (lookup (fvars m) w) as [j|] eqn:Hl; [|reflexivity].
        destruct Hm as (_ & _ & _ & Hmv). apply (extends_val O osem); auto. eapply Hmv; eauto.
      + unfold env_xyz; simpl. repeat split.
        * rewrite (extends_val O osem a1 a3 x') by auto. apply Hv1.
        * rewrite (extends_val O osem a2 a3 y') by auto. apply Hv2.
        * apply Hv3.
    - (* apply *)
      destruct Hnw as (Hvi & Hei & Hti).
      assert (He : e < length a) by lia. assert (Ht : t < length a) by lia.
      pose proof (IH a m e ltac:(lia) Hwf Hb He Hm (HnoT' e Hei)) as IHe.
      destruct (flat O fuel a m e) as [a1 e'] eqn:Hfe. destruct IHe as (He1 & Hwf1 & He' & Hv1); cbn [fst snd] in *.
      pose proof (base_ok_extends O a a1 Hb He1) as Hb1.
      pose proof (extends_length _ _ He1) as Hl1.
      set (m' := {| fx := fx m; fy := fy m; fz := fz m; fvars := (v, e') :: fvars m |}).
      assert (Hm' : fenv_ok a1 m').
      { destruct Hm as (Hmx & Hmy & Hmz & Hmv). repeat split; simpl; try lia.
        intros w j. destruct (Nat.eqb w v); [intros H; inversion H; subst; lia|].
        intros Hl. specialize (Hmv w j Hl). lia. }
      pose proof (IH a1 m' t ltac:(lia) Hwf1 Hb1 ltac:(lia) Hm'
                     (noT_extends a a1 t He1 Ht (HnoT' t Hti))) as IHt.
      eapply ok_trans; [exact He1|]. eapply ok_weaken; [exact IHt|].
      intros r; cbn beta.
      rewrite (val_apply a i v e t) by auto.
      rewrite (extends_val O osem a a1 t) by auto.
      destruct Hm as (Hmx & Hmy & Hmz & Hmv).
      apply (val_ext O osem); auto.
      + intros w; simpl. destruct (Nat.eqb w v); [apply Hv1|].
        destruct (lookup (fvars m) w) as [j|] eqn:Hl; [|reflexivity].
        apply (extends_val O osem); auto. eapply Hmv; eauto.
      + unfold env_xyz; simpl. rewrite !(extends_val O osem a a1) by auto. auto.
    - (* invalid *)
      apply ok_same; auto. intros r. rewrite !(val_node O osem a i) by exact Hi. rewrite Hn. reflexivity.
  Qed.

  (* Tree::flatten *)
  Theorem flatten_sem a i :
    arena_wf a -> base_ok O a -> i < length a -> noT a i ->
    ok_result a (flatten O a i) (fun r => val a i r).
  Proof.
    intros Hwf Hb Hi HnoT. unfold flatten.
    destruct (f_remap (flags_of a i)); [|apply ok_same; auto].
    pose proof (base_ok_len O a Hb) as Hl.
    eapply ok_weaken.
    - apply flat_sem; auto. unfold fenv_ok, fenv0, idX, idY, idZ; simpl.
      repeat split; try lia. intros w j H; discriminate H.
    - intros r; cbn beta. apply (val_ext O osem); auto.
      + intros w; reflexivity.
      + unfold env_xyz; simpl. rewrite (val_X O osem), (val_Y O osem), (val_Z O osem) by exact Hb. auto.
  Qed.

  (* ---------------------------------------------------------------- *)
  (* Flattening trees that already hold transformed oracles.

     TransformedOracleClause::remap composes the coordinate trees with the
     current coordinate maps (lazily) but does NOT substitute applied variables
     inside them.  [good a i]: below every apply node reachable from [i]
     (through ALL child links, the components of transformed oracles included)
     the transformed oracles have components that do not depend on the free
     variables ([closedT]).  No condition at all when no apply node is
     reachable, or when no transformed oracle lies below an apply ([noT]). *)
  Definition napp (n : node) : Prop := match n with NApply _ _ _ => False | _ => True end.

  Definition akids (n : node) : list nat :=
    match n with
    | NUnary _ x => [x]
    | NBinary _ x y => [x; y]
    | NOracleT x y z u => [x; y; z; u]
    | NRemap x y z t => [x; y; z; t]
    | NApply v e t => [v; e; t]
    | _ => []
    end.

  Inductive areach (a : arena) (root : nat) : nat -> Prop :=
  | ar_root : areach a root root
  | ar_kid n k : areach a root n -> In k (akids (getn a n)) -> areach a root k.

  Lemma akids_wf : forall len (n : node) k, node_wf len n -> In k (akids n) -> k < len.
  Proof. intros len n k; destruct n; simpl; intuition lia. Qed.

  Lemma akid_lt (a : arena) j k : arena_wf a -> j < length a -> In k (akids (getn a j)) -> k < j.
  Proof. intros Hwf Hj. apply akids_wf. apply arena_wf_nth; assumption. Qed.

  Lemma areach_le a i m : arena_wf a -> i < length a -> areach a i m -> m <= i.
  Proof.
    intros Hwf Hi. induction 1 as [|n k Hn IH Hk]; [lia|].
    pose proof (akid_lt a n k Hwf ltac:(lia) Hk). lia.
  Qed.

  Lemma areach_trans a r n m : areach a r n -> areach a n m -> areach a r m.
  Proof. intros H1 H2; induction H2; [exact H1 | econstructor; eauto]. Qed.

  Lemma areach_inv a r m : areach a r m ->
    m = r \/ exists k, In k (akids (getn a r)) /\ areach a k m.
  Proof.
    induction 1 as [|n k Hn IH Hk]; [left; reflexivity|]. right.
    destruct IH as [->|(k0 & Hk0 & Hr)].
    - exists k; split; [exact Hk | constructor].
    - exists k0; split; [exact Hk0 | econstructor; eauto].
  Qed.

  Lemma areach_extends a a' i m : arena_wf a -> extends a a' -> i < length a ->
    areach a' i m -> areach a i m.
  Proof.
    intros Hwf He Hi. induction 1 as [|n k Hn IH Hk]; [constructor|].
    pose proof (areach_le a i n Hwf Hi IH) as Hle.
    rewrite (extends_getn a a' n He) in Hk by lia. econstructor; eauto.
  Qed.

  (* [val a j] does not depend on the free-variable assignment *)
  Definition indep (a : arena) (j : nat) : Prop :=
    forall r r', env_xyz r r' -> val a j r = val a j r'.
  (* every transformed oracle at or below [i] has closed components *)
  Definition closedT (a : arena) (i : nat) : Prop :=
    forall k x y z u, k <= i -> getn a k = NOracleT x y z u ->
      indep a x /\ indep a y /\ indep a z /\ indep a u.
  Definition good (a : arena) (i : nat) : Prop :=
    forall m v e t, areach a i m -> getn a m = NApply v e t -> closedT a t.

  Lemma indep_extends a a' j : extends a a' -> j < length a -> indep a j -> indep a' j.
  Proof. intros He Hj H r r' Hx. rewrite !(extends_val O osem a a') by auto. apply H; exact Hx. Qed.

  Lemma closedT_extends a a' i : arena_wf a -> extends a a' -> i < length a ->
    closedT a i -> closedT a' i.
  Proof.
    intros Hwf He Hi H k x y z u Hk Hn.
    rewrite (extends_getn a a' k He) in Hn by lia.
    pose proof (arena_wf_nth a k Hwf ltac:(lia)) as Hw. rewrite Hn in Hw. cbn [node_wf] in Hw.
    destruct (H k x y z u Hk Hn) as (H1 & H2 & H3 & H4).
    repeat split; apply (indep_extends a a'); auto; lia.
  Qed.

  Lemma closedT_le a i k : k <= i -> closedT a i -> closedT a k.
  Proof. intros Hk H j x y z u Hj. apply H. lia. Qed.

  Lemma closedT_noT a i : noT a i -> closedT a i.
  Proof. intros H k x y z u Hk Hn. specialize (H k Hk). rewrite Hn in H. discriminate H. Qed.

  Lemma good_kid a j k : good a j -> In k (akids (getn a j)) -> good a k.
  Proof.
    intros H Hk m v e t Hm. apply H. eapply areach_trans; [|exact Hm].
    econstructor; [constructor | exact Hk].
  Qed.

  Lemma good_intro a j :
    (forall v e t, getn a j = NApply v e t -> closedT a t) ->
    (forall k, In k (akids (getn a j)) -> good a k) -> good a j.
  Proof.
    intros H1 H2 m v e t Hm Hn. destruct (areach_inv a j m Hm) as [->|(k & Hk & Hr)].
    - eapply H1; eauto.
    - eapply (H2 k Hk); eauto.
  Qed.

  Lemma good_ext a a' i : arena_wf a -> extends a a' -> i < length a -> good a i -> good a' i.
  Proof.
    intros Hwf He Hi H m v e t Hm Hn.
    pose proof (areach_extends a a' i m Hwf He Hi Hm) as Hm'.
    pose proof (areach_le a i m Hwf Hi Hm') as Hle.
    rewrite (extends_getn a a' m He) in Hn by lia.
    pose proof (arena_wf_nth a m Hwf ltac:(lia)) as Hw. rewrite Hn in Hw. cbn [node_wf] in Hw.
    apply (closedT_extends a a'); auto; [lia|]. eapply H; eauto.
  Qed.

  Lemma good_noT a i : arena_wf a -> i < length a -> noT a i -> good a i.
  Proof.
    intros Hwf Hi H m v e t Hm Hn. pose proof (areach_le a i m Hwf Hi Hm) as Hle.
    pose proof (arena_wf_nth a m Hwf ltac:(lia)) as Hw. rewrite Hn in Hw. cbn [node_wf] in Hw.
    apply closedT_noT. intros j Hj. apply H. lia.
  Qed.

  Lemma ext_snoc1 (a : arena) n : extends a (a ++ [n]).
  Proof. exists [n]; reflexivity. Qed.

  Lemma good_push a n : arena_wf a -> node_wf (length a) n -> napp n ->
    (forall k, In k (akids n) -> good a k) -> good (a ++ [n]) (length a).
  Proof.
    intros Hwf Hn Hna Hk. apply good_intro; rewrite getn_snoc_new.
    - intros v e t E. rewrite E in Hna. destruct Hna.
    - intros k Hin. apply (good_ext a (a ++ [n])); auto using ext_snoc1.
      eapply akids_wf; eauto.
  Qed.

  (* what every constructor guarantees, [good] version *)
  Definition gr (a : arena) (res : arena * nat) : Prop :=
    extends a (fst res) /\ arena_wf (fst res) /\ snd res < length (fst res) /\
    good (fst res) (snd res).

  Lemma gr_same a j : arena_wf a -> j < length a -> good a j -> gr a (a, j).
  Proof. intros; split; [apply extends_refl|]; cbn [fst snd]; auto. Qed.

  Lemma gr_trans a a1 res : extends a a1 -> gr a1 res -> gr a res.
  Proof. intros He (H1 & H2 & H3 & H4). split; [eapply extends_trans; eauto|]. auto. Qed.

  Lemma gr_push a n : arena_wf a -> node_wf (length a) n -> napp n ->
    (forall k, In k (akids n) -> good a k) -> gr a (push a n).
  Proof.
    intros Hwf Hn Hna Hk. unfold push, gr; cbn [fst snd].
    split; [apply ext_snoc1|]. split; [apply arena_wf_snoc; auto|].
    split; [rewrite app_length; simpl; lia | apply good_push; assumption].
  Qed.

  Lemma gr_push_const a c : arena_wf a -> gr a (push a (NConst c)).
  Proof. intros Hwf. apply gr_push; [exact Hwf | exact I | exact I | intros k []]. Qed.

  Lemma gr_push_unary a op x : arena_wf a -> x < length a -> args op = Some 1 -> good a x ->
    gr a (push a (NUnary op x)).
  Proof.
    intros Hwf Hx Hop Hp. apply gr_push; [exact Hwf | split; assumption | exact I|].
    intros k [<-|[]]; exact Hp.
  Qed.

  Lemma gr_push_binary a op x y : arena_wf a -> x < length a -> y < length a ->
    args op = Some 2 -> good a x -> good a y -> gr a (push a (NBinary op x y)).
  Proof.
    intros Hwf Hx Hy Hop Hpx Hpy. apply gr_push; [exact Hwf | repeat split; assumption | exact I|].
    intros k [<-|[<-|[]]]; assumption.
  Qed.

  Lemma unary_gr a op l : arena_wf a -> l < length a -> args op = Some 1 -> good a l ->
    gr a (mk_unary O a op l).
  Proof.
    intros Hwf Hl Hop Hp. unfold mk_unary. rewrite Hop.
    assert (Hd : gr a (push a (NUnary op l))) by (apply gr_push_unary; assumption).
    assert (Hs : gr a (a, l)) by (apply gr_same; assumption).
    assert (Hk : forall k, In k (akids (getn a l)) -> gr a (a, k)).
    { intros k Hk. apply gr_same; [exact Hwf | | eapply good_kid; eauto].
      pose proof (akid_lt a l k Hwf Hl Hk). lia. }
    destruct (getn a l) as [c|o|o x|o x y|k|x' y' z' t'|x y z t|v e t|] eqn:Hn.
    - apply gr_push_const; exact Hwf.
    - destruct op; exact Hd.
    - destruct op; try exact Hd.
      + destruct o; try exact Hd. apply Hk; left; reflexivity.
      + destruct o; try exact Hd; exact Hs.
    - destruct op; exact Hd.
    - destruct op; exact Hd.
    - destruct op; exact Hd.
    - destruct op; exact Hd.
    - destruct op; exact Hd.
    - destruct op; exact Hd.
  Qed.

  Lemma binary_gr fuel : forall a op l r,
    arena_wf a -> l < length a -> r < length a -> args op = Some 2 -> good a l -> good a r ->
    gr a (mk_binary O fuel a op l r).
  Proof.
    induction fuel as [|fuel IH]; intros a op l r Hwf Hl Hr Hop Hpl Hpr.
    all: assert (Hd : gr a (push a (NBinary op l r))) by (apply gr_push_binary; assumption).
    1: assert (Hrec : forall op' l' r', args op' = Some 2 -> l' < length a -> r' < length a ->
                 good a l' -> good a r' -> gr a (push a (NBinary op' l' r')))
         by (intros; apply gr_push_binary; assumption).
    2: assert (Hrec : forall op' l' r', args op' = Some 2 -> l' < length a -> r' < length a ->
                 good a l' -> good a r' -> gr a (mk_binary O fuel a op' l' r'))
         by (intros; apply IH; assumption).
    all: assert (Hsl : gr a (a, l)) by (apply gr_same; assumption).
    all: assert (Hsr : gr a (a, r)) by (apply gr_same; assumption).
    all: assert (Hul : forall o, args o = Some 1 -> gr a (mk_unary O a o l))
           by (intros; apply unary_gr; assumption).
    all: assert (Hur : forall o, args o = Some 1 -> gr a (mk_unary O a o r))
           by (intros; apply unary_gr; assumption).
    all: assert (Hkl : forall k, In k (akids (getn a l)) -> k < length a /\ good a k)
           by (intros k Hk; split; [pose proof (akid_lt a l k Hwf Hl Hk); lia | exact (good_kid a l k Hpl Hk)]).
    all: assert (Hkr : forall k, In k (akids (getn a r)) -> k < length a /\ good a k)
           by (intros k Hk; split; [pose proof (akid_lt a r k Hwf Hr Hk); lia | exact (good_kid a r k Hpr Hk)]).
    all: cbn [mk_binary]; rewrite Hop.
    all: destruct (getn a l) as [c1|o1|o1 x1|o1 x1 y1|k1|x1' y1' z1' t1'|x1 y1 z1 t1|v1 e1 t1|] eqn:Hnl;
         destruct (getn a r) as [c2|o2|o2 x2|o2 x2 y2|k2|x2' y2' z2' t2'|x2 y2 z2 t2|v2 e2 t2|] eqn:Hnr.
    all: try (apply gr_push_const; exact Hwf).
    all: destruct op; try discriminate Hop; try exact Hd.
    all: repeat match goal with
         | |- context [if ?c then _ else _] => destruct c eqn:?
         end; try exact Hd; try exact Hsl; try exact Hsr.
    all: try (apply Hul; reflexivity).
    all: try (apply Hur; reflexivity).
    all: try (destruct (Hkl _ (or_introl eq_refl)) as [? ?]; apply Hrec; auto; fail).
    all: try (destruct (Hkr _ (or_introl eq_refl)) as [? ?]; apply Hrec; auto; fail).
  Qed.

  Transparent mk_bin.
  Corollary bin_gr a op l r :
    arena_wf a -> l < length a -> r < length a -> args op = Some 2 -> good a l -> good a r ->
    gr a (mk_bin O a op l r).
  Proof. intros; unfold mk_bin; apply binary_gr; assumption. Qed.
  Opaque mk_bin.

  Lemma remap_gr a t x y z : arena_wf a ->
    t < length a -> x < length a -> y < length a -> z < length a ->
    good a t -> good a x -> good a y -> good a z -> gr a (mk_remap a t x y z).
  Proof.
    intros Hwf Ht Hx Hy Hz Gt Gx Gy Gz. unfold mk_remap.
    destruct (Nat.eqb x idX && Nat.eqb y idY && Nat.eqb z idZ); [apply gr_same; assumption|].
    destruct (f_xyz (flags_of a t) || f_oracle (flags_of a t)); [|apply gr_same; assumption].
    apply gr_push; [exact Hwf | cbn [node_wf]; auto | exact I|].
    intros k [<-|[<-|[<-|[<-|[]]]]]; assumption.
  Qed.

  Definition lg (a : arena) (j : nat) : Prop := j < length a /\ good a j.

  Lemma lg_extends a a' j : arena_wf a -> extends a a' -> lg a j -> lg a' j.
  Proof.
    intros Hwf He [H1 H2]. pose proof (extends_length a a' He).
    split; [lia | eapply good_ext; eauto].
  Qed.

  Definition fenv_gd (a : arena) (m : fenv) : Prop :=
    lg a (fx m) /\ lg a (fy m) /\ lg a (fz m) /\
    forall w j, lookup (fvars m) w = Some j -> lg a j.

  Lemma fenv_gd_extends a a' m : arena_wf a -> extends a a' -> fenv_gd a m -> fenv_gd a' m.
  Proof.
    intros Hwf He (H1 & H2 & H3 & H4).
    split; [|split; [|split]]; try (eapply lg_extends; eauto; fail).
    intros w j Hl. eapply lg_extends; eauto.
  Qed.

  (* what flat returns satisfies [good] again: the optimiser traverses it and
     flattens the coordinate trees of its transformed oracles *)
  Theorem flat_gr : forall fuel a m i,
    i < fuel -> arena_wf a -> i < length a -> fenv_gd a m -> good a i ->
    gr a (flat O fuel a m i).
  Proof.
    induction fuel as [|fuel IH]; intros a m i Hfuel Hwf Hi Hm Hg; [lia|].
    cbn [flat].
    pose proof (arena_wf_nth a i Hwf Hi) as Hnw.
    pose proof (good_kid a i) as Hks. specialize (Hks).
    destruct (getn a i) as [c|o|o x|o x y|k|x y z u|x y z t|v e t|] eqn:Hn;
      cbn [akids node_wf] in *.
    - apply gr_same; auto.
    - destruct Hm as ((Hx1 & Hx2) & (Hy1 & Hy2) & (Hz1 & Hz2) & Hmv).
      destruct o; try (apply gr_same; assumption).
      destruct (lookup (fvars m) i) as [j|] eqn:Hl.
      + destruct (Hmv i j Hl). apply gr_same; assumption.
      + apply gr_same; auto.
    - (* unary *)
      destruct Hnw as [Hxi Ha].
      assert (Hx : x < length a) by lia.
      pose proof (IH a m x ltac:(lia) Hwf Hx Hm (Hks x Hg (or_introl eq_refl))) as IHx.
      destruct (flat O fuel a m x) as [a1 x'].
      destruct IHx as (He1 & Hwf1 & Hx' & Hp1); cbn [fst snd] in *.
      pose proof (extends_length _ _ He1) as Hl1.
      eapply gr_trans; [exact He1|].
      destruct (Nat.eqb x' x) eqn:Hxx.
      + apply gr_same; [exact Hwf1 | lia | exact (good_ext a a1 i Hwf He1 Hi Hg)].
      + apply unary_gr; assumption.
    - (* binary *)
      destruct Hnw as (Hxi & Hyi & Ha).
      assert (Hx : x < length a) by lia. assert (Hy : y < length a) by lia.
      pose proof (IH a m y ltac:(lia) Hwf Hy Hm (Hks y Hg (or_intror (or_introl eq_refl)))) as IHy.
      destruct (flat O fuel a m y) as [a1 y'].
      destruct IHy as (He1 & Hwf1 & Hy' & Hp1); cbn [fst snd] in *.
      pose proof (extends_length _ _ He1) as Hl1.
      pose proof (IH a1 m x ltac:(lia) Hwf1 ltac:(lia) (fenv_gd_extends a a1 m Hwf He1 Hm)
                    (good_ext a a1 x Hwf He1 Hx (Hks x Hg (or_introl eq_refl)))) as IHx.
      destruct (flat O fuel a1 m x) as [a2 x'].
      destruct IHx as (He2 & Hwf2 & Hx' & Hp2); cbn [fst snd] in *.
      pose proof (extends_length _ _ He2) as Hl2.
      assert (He02 : extends a a2) by (eapply extends_trans; eauto).
      assert (Hpy : good a2 y') by exact (good_ext a1 a2 y' Hwf1 He2 Hy' Hp1).
      eapply gr_trans; [exact He02|].
      destruct (Nat.eqb x' x && Nat.eqb y' y) eqn:Hxx.
      + apply gr_same; [exact Hwf2 | lia | exact (good_ext a a2 i Hwf He02 Hi Hg)].
      + apply bin_gr; auto; lia.
    - (* plain oracle *)
      destruct Hm as ((Hx1 & Hx2) & (Hy1 & Hy2) & (Hz1 & Hz2) & Hmv).
      apply gr_push; [exact Hwf | cbn [node_wf]; auto | exact I|].
      intros j [<-|[<-|[<-|[<-|[]]]]]; assumption.
    - (* transformed oracle *)
      destruct Hnw as (Hxi & Hyi & Hzi & Hui).
      destruct Hm as ((Hx1 & Hx2) & (Hy1 & Hy2) & (Hz1 & Hz2) & Hmv).
      assert (Gx : good a x) by (apply Hks; simpl; auto).
      assert (Gy : good a y) by (apply Hks; simpl; auto).
      assert (Gz : good a z) by (apply Hks; simpl; auto).
      assert (Gu : good a u) by (apply Hks; simpl; auto).
      pose proof (remap_gr a x (fx m) (fy m) (fz m) Hwf ltac:(lia) Hx1 Hy1 Hz1 Gx Hx2 Hy2 Hz2) as R1.
      destruct (mk_remap a x (fx m) (fy m) (fz m)) as [a1 x'].
      destruct R1 as (He1 & Hwf1 & Hx' & Gx'); cbn [fst snd] in *.
      pose proof (extends_length _ _ He1) as Hl1.
      assert (E1 : forall j, j < length a -> good a j -> good a1 j)
        by (intros j Hj Hgj; exact (good_ext a a1 j Hwf He1 Hj Hgj)).
      pose proof (remap_gr a1 y (fx m) (fy m) (fz m) Hwf1 ltac:(lia) ltac:(lia) ltac:(lia) ltac:(lia)
                    (E1 y ltac:(lia) Gy) (E1 _ Hx1 Hx2) (E1 _ Hy1 Hy2) (E1 _ Hz1 Hz2)) as R2.
      destruct (mk_remap a1 y (fx m) (fy m) (fz m)) as [a2 y'].
      destruct R2 as (He2 & Hwf2 & Hy' & Gy'); cbn [fst snd] in *.
      pose proof (extends_length _ _ He2) as Hl2.
      assert (He02 : extends a a2) by (eapply extends_trans; eauto).
      assert (E2 : forall j, j < length a -> good a j -> good a2 j)
        by (intros j Hj Hgj; exact (good_ext a a2 j Hwf He02 Hj Hgj)).
      pose proof (remap_gr a2 z (fx m) (fy m) (fz m) Hwf2 ltac:(lia) ltac:(lia) ltac:(lia) ltac:(lia)
                    (E2 z ltac:(lia) Gz) (E2 _ Hx1 Hx2) (E2 _ Hy1 Hy2) (E2 _ Hz1 Hz2)) as R3.
      destruct (mk_remap a2 z (fx m) (fy m) (fz m)) as [a3 z'].
      destruct R3 as (He3 & Hwf3 & Hz' & Gz'); cbn [fst snd] in *.
      pose proof (extends_length _ _ He3) as Hl3.
      assert (He03 : extends a a3) by (eapply extends_trans; eauto).
      assert (He13 : extends a1 a3) by (eapply extends_trans; eauto).
      eapply gr_trans; [exact He03|].
      apply gr_push; [exact Hwf3 | cbn [node_wf]; lia | exact I|].
      intros j [<-|[<-|[<-|[<-|[]]]]].
      + eapply good_ext; [exact Hwf1 | exact He13 | exact Hx' | exact Gx'].
      + eapply good_ext; [exact Hwf2 | exact He3 | exact Hy' | exact Gy'].
      + exact Gz'.
      + eapply good_ext; [exact Hwf | exact He03 | lia | exact Gu].
    - (* remap *)
      destruct Hnw as (Hxi & Hyi & Hzi & Hti).
      assert (Hx : x < length a) by lia. assert (Hy : y < length a) by lia.
      assert (Hz : z < length a) by lia. assert (Ht : t < length a) by lia.
      assert (Sx : good a x) by (apply Hks; simpl; auto).
      assert (Sy : good a y) by (apply Hks; simpl; auto).
      assert (Sz : good a z) by (apply Hks; simpl; auto).
      assert (St : good a t) by (apply Hks; simpl; auto).
      pose proof (IH a m x ltac:(lia) Hwf Hx Hm Sx) as IHx.
      destruct (flat O fuel a m x) as [a1 x'].
      destruct IHx as (He1 & Hwf1 & Hx' & Hp1); cbn [fst snd] in *.
      pose proof (extends_length _ _ He1) as Hl1.
      pose proof (IH a1 m y ltac:(lia) Hwf1 ltac:(lia) (fenv_gd_extends a a1 m Hwf He1 Hm)
                    (good_ext a a1 y Hwf He1 Hy Sy)) as IHy.
      destruct (flat O fuel a1 m y) as [a2 y'].
      destruct IHy as (He2 & Hwf2 & Hy' & Hp2); cbn [fst snd] in *.
      pose proof (extends_length _ _ He2) as Hl2.
      assert (He02 : extends a a2) by (eapply extends_trans; eauto).
      pose proof (IH a2 m z ltac:(lia) Hwf2 ltac:(lia) (fenv_gd_extends a a2 m Hwf He02 Hm)
                    (good_ext a a2 z Hwf He02 Hz Sz)) as IHz.
      destruct (flat O fuel a2 m z) as [a3 z'].
      destruct IHz as (He3 & Hwf3 & Hz' & Hp3); cbn [fst snd] in *.
      pose proof (extends_length _ _ He3) as Hl3.
      assert (He03 : extends a a3) by (eapply extends_trans; eauto).
      assert (He13 : extends a1 a3) by (eapply extends_trans; eauto).
      set (m' := {| fx := x'; fy := y'; fz := z'; fvars := fvars m |}).
      assert (Hm' : fenv_gd a3 m').
      { destruct (fenv_gd_extends a a3 m Hwf He03 Hm) as (_ & _ & _ & Hmv).
        split; [|split; [|split]]; cbn [m' fx fy fz fvars].
        - apply (lg_extends a1 a3); auto. split; assumption.
        - apply (lg_extends a2 a3); auto. split; assumption.
        - split; assumption.
        - exact Hmv. }
      eapply gr_trans; [exact He03|].
      apply IH; auto; try lia. exact (good_ext a a3 t Hwf He03 Ht St).
    - (* apply *)
      destruct Hnw as (Hvi & Hei & Hti).
      assert (He : e < length a) by lia. assert (Ht : t < length a) by lia.
      assert (Se : good a e) by (apply Hks; simpl; auto).
      assert (St : good a t) by (apply Hks; simpl; auto).
      pose proof (IH a m e ltac:(lia) Hwf He Hm Se) as IHe.
      destruct (flat O fuel a m e) as [a1 e'].
      destruct IHe as (He1 & Hwf1 & He' & Hp1); cbn [fst snd] in *.
      pose proof (extends_length _ _ He1) as Hl1.
      set (m' := {| fx := fx m; fy := fy m; fz := fz m; fvars := (v, e') :: fvars m |}).
      assert (Hm' : fenv_gd a1 m').
      { destruct (fenv_gd_extends a a1 m Hwf He1 Hm) as (H1 & H2 & H3 & Hmv).
        split; [|split; [|split]]; cbn [m' fx fy fz fvars]; auto.
        intros w j. cbn [lookup]. destruct (Nat.eqb w v).
        - intros H; inversion H; subst. split; assumption.
        - apply Hmv. }
      eapply gr_trans; [exact He1|].
      apply IH; auto; try lia. exact (good_ext a a1 t Hwf He1 Ht St).
    - apply gr_same; auto.
  Qed.

  Lemma fenv0_gd a : arena_wf a -> base_ok O a -> fenv_gd a fenv0.
  Proof.
    intros Hwf Hb. pose proof (base_ok_len O a Hb) as Hl.
    assert (H : forall j, j < 3 -> lg a j).
    { intros j Hj. split; [lia|]. apply good_intro; rewrite (base_getn O a j Hb) by lia;
        destruct j as [|[|[|j]]]; try lia; cbn; try (intros; discriminate); intros k []. }
    split; [|split; [|split]]; cbn [fenv0 fx fy fz fvars]; try (apply H; unfold idX, idY, idZ; lia).
    intros w j Hw; discriminate Hw.
  Qed.

  Theorem flatten_gr a i : arena_wf a -> base_ok O a -> i < length a -> good a i ->
    gr a (flatten O a i).
  Proof.
    intros Hwf Hb Hi Hg. unfold flatten. destruct (f_remap (flags_of a i)).
    - apply flat_gr; auto. apply fenv0_gd; assumption.
    - apply gr_same; assumption.
  Qed.

  (* evaluating a closed-or-unbound component in the body environment *)
  Lemma comp_menv a m j r : arena_wf a -> j < length a -> (fvars m = [] \/ indep a j) ->
    val a j (menv a m r) = val a j (upd_xyz r (val a (fx m) r) (val a (fy m) r) (val a (fz m) r)).
  Proof.
    intros Hwf Hj [E|Hin].
    - apply (val_ext O osem); auto.
      + intros w. cbn [menv upd_xyz ev]. rewrite E. reflexivity.
      + unfold env_xyz; cbn [menv upd_xyz ex ey ez]. auto.
    - apply Hin. unfold env_xyz; cbn [menv upd_xyz ex ey ez]. auto.
  Qed.

  Lemma comp_menv_xyz a m j r X Y Z : arena_wf a -> j < length a -> (fvars m = [] \/ indep a j) ->
    val a j (upd_xyz (menv a m r) X Y Z) = val a j (upd_xyz r X Y Z).
  Proof.
    intros Hwf Hj [E|Hin].
    - apply (val_ext O osem); auto.
      + intros w. cbn [menv upd_xyz ev]. rewrite E. reflexivity.
      + unfold env_xyz; cbn [upd_xyz ex ey ez]. auto.
    - apply Hin. unfold env_xyz; cbn [upd_xyz ex ey ez]. auto.
  Qed.

  Definition fstate_ok (a : arena) (m : fenv) (i : nat) : Prop :=
    good a i /\ (fvars m = [] \/ closedT a i).

  Lemma fstate_step a a1 m j i : arena_wf a -> extends a a1 -> i < length a ->
    In j (akids (getn a i)) -> fstate_ok a m i -> fstate_ok a1 m j.
  Proof.
    intros Hwf He Hi Hj [Ha Hc]. pose proof (akid_lt a i j Hwf Hi Hj) as Hlt.
    split; [apply (good_ext a a1); auto; [lia | eapply good_kid; eauto]|].
    destruct Hc as [E|Hc]; [left; exact E|right].
    apply (closedT_extends a a1); auto; [lia|].
    apply (closedT_le a i j); [lia | exact Hc].
  Qed.

  Theorem flat_sem_o : forall fuel a m i,
    i < fuel -> arena_wf a -> base_ok O a -> i < length a -> fenv_ok a m -> fstate_ok a m i ->
    ok_result a (flat O fuel a m i) (fun r => val a i (menv a m r)).
  Proof.
    induction fuel as [|fuel IH]; intros a m i Hfuel Hwf Hb Hi Hm Hfs; [lia|].
    cbn [flat].
    pose proof (arena_wf_nth a i Hwf Hi) as Hnw.
    assert (Hfs' : forall a1 j, extends a a1 -> In j (akids (getn a i)) -> fstate_ok a1 m j)
      by (intros a1 j He0 Hj; eapply fstate_step; eauto).
    destruct (getn a i) as [c|o|o x|o x y|k|x y z u|x y z t|v e t|] eqn:Hn; simpl in Hnw.
    - (* constant *)
      apply ok_same; auto. intros r. rewrite !(val_const O osem a i c) by auto. reflexivity.
    - (* nullary *)
      destruct Hm as (Hmx & Hmy & Hmz & Hmv).
      destruct o; try (apply ok_same; auto; intros r; rewrite !(val_node O osem a i) by exact Hi; rewrite Hn; reflexivity).
      + destruct (lookup (fvars m) i) as [j|] eqn:Hl.
        * apply ok_same; auto; [eapply Hmv; eauto|]. intros r.
          rewrite (val_node O osem a i) by exact Hi. rewrite Hn. simpl. rewrite Hl. reflexivity.
        * apply ok_same; auto. intros r.
          rewrite !(val_node O osem a i) by exact Hi. rewrite Hn. simpl. rewrite Hl. reflexivity.
    - (* unary *)
      destruct Hnw as [Hxi Ha].
      assert (Hx : x < length a) by lia.
      specialize (IH a m x ltac:(lia) Hwf Hb Hx Hm (Hfs' a x (extends_refl a) ltac:(simpl; auto))).
      destruct (flat O fuel a m x) as [a1 x'] eqn:Hf. destruct IH as (He1 & Hwf1 & Hx' & Hv1); cbn [fst snd] in *.
      assert (Hval : forall r, val a i (menv a m r) = o_un O o (val a1 x' r)).
      { intros r. destruct (val_unary O osem a i o x (menv a m r) Hwf Hi Hn) as [_ ->]. rewrite Hv1; reflexivity. }
      destruct (Nat.eqb x' x) eqn:Hxx.
      + apply Nat.eqb_eq in Hxx; subst x'.
        repeat split; simpl; auto; [pose proof (extends_length _ _ He1); lia|].
        intros r. rewrite Hval. rewrite (extends_val O osem a a1) by auto.
        destruct (val_unary O osem a i o x r Hwf Hi Hn) as [_ ->].
        rewrite <- (extends_val O osem a a1 x r) by auto. reflexivity.
      + eapply ok_trans; [exact He1|]. eapply ok_weaken; [apply unary_sem; auto|].
        intros r; cbn beta. symmetry; apply Hval.
    - (* binary: rhs first, then lhs *)
      destruct Hnw as (Hxi & Hyi & Ha).
      assert (Hx : x < length a) by lia. assert (Hy : y < length a) by lia.
      pose proof (IH a m y ltac:(lia) Hwf Hb Hy Hm (Hfs' a y (extends_refl a) ltac:(simpl; auto))) as IHy.
      destruct (flat O fuel a m y) as [a1 y'] eqn:Hfy. destruct IHy as (He1 & Hwf1 & Hy' & Hv1); cbn [fst snd] in *.
      pose proof (base_ok_extends O a a1 Hb He1) as Hb1.
      pose proof (extends_length _ _ He1) as Hl1.
      pose proof (IH a1 m x ltac:(lia) Hwf1 Hb1 ltac:(lia) (fenv_ok_extends a a1 m Hm He1)
                     (Hfs' a1 x He1 ltac:(simpl; auto))) as IHx.
      apply (IH_transport a a1 m x _ Hwf Hx Hm He1) in IHx.
      destruct (flat O fuel a1 m x) as [a2 x'] eqn:Hfx. destruct IHx as (He2 & Hwf2 & Hx' & Hv2); cbn [fst snd] in *.
      pose proof (extends_length _ _ He2) as Hl2.
      assert (He02 : extends a a2) by (eapply extends_trans; eauto).
      assert (Hval : forall r, val a i (menv a m r) = o_bin O o (val a2 x' r) (val a2 y' r)).
      { intros r. destruct (val_binary O osem a i o x y (menv a m r) Hwf Hi Hn) as (_ & _ & ->).
        rewrite Hv2. rewrite (extends_val O osem a1 a2 y') by auto. rewrite Hv1. reflexivity. }
      destruct (Nat.eqb x' x && Nat.eqb y' y) eqn:Hxx.
      + apply andb_true_iff in Hxx; destruct Hxx as [H1 H2].
        apply Nat.eqb_eq in H1, H2; subst x' y'.
        repeat split; simpl; auto; [lia|].
        intros r. rewrite Hval. rewrite (extends_val O osem a a2 i) by auto.
        destruct (val_binary O osem a i o x y r Hwf Hi Hn) as (_ & _ & ->).
        rewrite !(extends_val O osem a a2) by auto. reflexivity.
      + eapply ok_trans; [exact He02|]. eapply ok_weaken; [apply bin_sem; auto; lia|].
        intros r; cbn beta. symmetry; apply Hval.
    - (* plain oracle: wrapped with the current coordinate trees *)
      destruct Hm as (Hmx & Hmy & Hmz & Hmv).
      apply ok_push; simpl; auto. intros r.
      change (getv O (vals O osem a) i) with (val a i).
      change (getv O (vals O osem a) (fx m)) with (val a (fx m)).
      change (getv O (vals O osem a) (fy m)) with (val a (fy m)).
      change (getv O (vals O osem a) (fz m)) with (val a (fz m)).
      rewrite !(val_node O osem a i) by exact Hi. rewrite Hn. reflexivity.
    - (* already-transformed oracle: TransformedOracleClause::remap composes the
         coordinate trees with the current coordinate maps, lazily *)
      destruct Hnw as (Hxi & Hyi & Hzi & Hui).
      assert (Hx : x < length a) by lia. assert (Hy : y < length a) by lia.
      assert (Hz : z < length a) by lia. assert (Hu : u < length a) by lia.
      destruct Hm as (Hmx & Hmy & Hmz & Hmv).
      assert (Hcl : forall j, (j = x \/ j = y \/ j = z \/ j = u) -> fvars m = [] \/ indep a j).
      { intros j Hj. destruct Hfs as [_ [E|Hc]]; [left; exact E|right].
        destruct (Hc i x y z u (le_n i) Hn) as (H1 & H2 & H3 & H4).
        destruct Hj as [->|[->|[->| ->]]]; assumption. }
      pose proof (remap_sem O osem a x (fx m) (fy m) (fz m) Hwf Hb Hx Hmx Hmy Hmz) as R1.
      destruct (mk_remap a x (fx m) (fy m) (fz m)) as [a1 x'].
      destruct R1 as (He1 & Hwf1 & Hx' & Hv1); cbn [fst snd] in *.
      pose proof (extends_length _ _ He1) as Hl1.
      pose proof (remap_sem O osem a1 y (fx m) (fy m) (fz m) Hwf1 (base_ok_extends O a a1 Hb He1)
                    ltac:(lia) ltac:(lia) ltac:(lia) ltac:(lia)) as R2.
      destruct (mk_remap a1 y (fx m) (fy m) (fz m)) as [a2 y'].
      destruct R2 as (He2 & Hwf2 & Hy' & Hv2); cbn [fst snd] in *.
      pose proof (extends_length _ _ He2) as Hl2.
      assert (He02 : extends a a2) by (eapply extends_trans; eauto).
      pose proof (remap_sem O osem a2 z (fx m) (fy m) (fz m) Hwf2 (base_ok_extends O a a2 Hb He02)
                    ltac:(lia) ltac:(lia) ltac:(lia) ltac:(lia)) as R3.
      destruct (mk_remap a2 z (fx m) (fy m) (fz m)) as [a3 z'].
      destruct R3 as (He3 & Hwf3 & Hz' & Hv3); cbn [fst snd] in *.
      pose proof (extends_length _ _ He3) as Hl3.
      assert (He03 : extends a a3) by (eapply extends_trans; eauto).
      assert (He13 : extends a1 a3) by (eapply extends_trans; eauto).
      eapply ok_trans; [exact He03|].
      apply ok_push; [exact Hwf3 | cbn [node_wf]; lia|].
      intros r. cbn [nodeval].
      change (getv O (vals O osem a3) u) with (val a3 u).
      change (getv O (vals O osem a3) x') with (val a3 x').
      change (getv O (vals O osem a3) y') with (val a3 y').
      change (getv O (vals O osem a3) z') with (val a3 z').
      rewrite Hv3, (extends_val O osem a2 a3 y' r He3 Hy'), Hv2,
              (extends_val O osem a1 a3 x' r He13 Hx'), Hv1.
      rewrite !(extends_val O osem a2 a3) by first [assumption | lia].
      rewrite !(extends_val O osem a1 a2) by first [assumption | lia].
      rewrite !(extends_val O osem a a1) by first [assumption | lia].
      rewrite (val_oracleT_f a i x y z u (menv a m r) Hwf Hi Hn).
      rewrite (comp_menv_xyz a m u r) by auto.
      rewrite !(comp_menv a m) by auto. reflexivity.
    - (* remap *)
      destruct Hnw as (Hxi & Hyi & Hzi & Hti).
      assert (Hx : x < length a) by lia. assert (Hy : y < length a) by lia.
      assert (Hz : z < length a) by lia. assert (Ht : t < length a) by lia.
      pose proof (IH a m x ltac:(lia) Hwf Hb Hx Hm (Hfs' a x (extends_refl a) ltac:(simpl; auto))) as IHx.
      destruct (flat O fuel a m x) as [a1 x'] eqn:Hfx. destruct IHx as (He1 & Hwf1 & Hx' & Hv1); cbn [fst snd] in *.
      pose proof (base_ok_extends O a a1 Hb He1) as Hb1.
      pose proof (extends_length _ _ He1) as Hl1.
      pose proof (IH a1 m y ltac:(lia) Hwf1 Hb1 ltac:(lia) (fenv_ok_extends a a1 m Hm He1)
                     (Hfs' a1 y He1 ltac:(simpl; auto))) as IHy.
      apply (IH_transport a a1 m y _ Hwf Hy Hm He1) in IHy.
      destruct (flat O fuel a1 m y) as [a2 y'] eqn:Hfy. destruct IHy as (He2 & Hwf2 & Hy' & Hv2); cbn [fst snd] in *.
      pose proof (extends_length _ _ He2) as Hl2.
      assert (He02 : extends a a2) by (eapply extends_trans; eauto).
      pose proof (base_ok_extends O a a2 Hb He02) as Hb2.
      pose proof (IH a2 m z ltac:(lia) Hwf2 Hb2 ltac:(lia) (fenv_ok_extends a a2 m Hm He02)
                     (Hfs' a2 z He02 ltac:(simpl; auto))) as IHz.
      apply (IH_transport a a2 m z _ Hwf Hz Hm He02) in IHz.
      destruct (flat O fuel a2 m z) as [a3 z'] eqn:Hfz. destruct IHz as (He3 & Hwf3 & Hz' & Hv3); cbn [fst snd] in *.
      pose proof (extends_length _ _ He3) as Hl3.
      assert (He03 : extends a a3) by (eapply extends_trans; eauto).
      assert (He13 : extends a1 a3) by (eapply extends_trans; eauto).
      pose proof (base_ok_extends O a a3 Hb He03) as Hb3.
      set (m' := {| fx := x'; fy := y'; fz := z'; fvars := fvars m |}).
      assert (Hm' : fenv_ok a3 m').
      { destruct Hm as (Hmx & Hmy & Hmz & Hmv). repeat split; simpl; try lia.
        intros w j Hl. specialize (Hmv w j Hl). lia. }
      assert (Hfs3 : fstate_ok a3 m' t) by (apply (Hfs' a3 t He03); simpl; auto).
      pose proof (IH a3 m' t ltac:(lia) Hwf3 Hb3 ltac:(lia) Hm' Hfs3) as IHt.
      eapply ok_trans; [exact He03|]. eapply ok_weaken; [exact IHt|].
      intros r; cbn beta.
      rewrite (val_remap a i x y z t) by auto.
      rewrite (extends_val O osem a a3 t) by auto.
      apply (val_ext O osem); auto.
      + intros w; simpl. destruct (lookup (fvars m) w) as [j|] eqn:Hl; [|reflexivity].
        destruct Hm as (_ & _ & _ & Hmv). apply (extends_val O osem); auto. eapply Hmv; eauto.
      + unfold env_xyz; simpl. repeat split.
        * rewrite (extends_val O osem a1 a3 x') by auto. apply Hv1.
        * rewrite (extends_val O osem a2 a3 y') by auto. apply Hv2.
        * apply Hv3.
    - (* apply *)
      destruct Hnw as (Hvi & Hei & Hti).
      assert (He : e < length a) by lia. assert (Ht : t < length a) by lia.
      pose proof (IH a m e ltac:(lia) Hwf Hb He Hm (Hfs' a e (extends_refl a) ltac:(simpl; auto))) as IHe.
      destruct (flat O fuel a m e) as [a1 e'] eqn:Hfe. destruct IHe as (He1 & Hwf1 & He' & Hv1); cbn [fst snd] in *.
      pose proof (base_ok_extends O a a1 Hb He1) as Hb1.
      pose proof (extends_length _ _ He1) as Hl1.
      set (m' := {| fx := fx m; fy := fy m; fz := fz m; fvars := (v, e') :: fvars m |}).
      assert (Hm' : fenv_ok a1 m').
      { destruct Hm as (Hmx & Hmy & Hmz & Hmv). repeat split; simpl; try lia.
        intros w j. destruct (Nat.eqb w v); [intros H; inversion H; subst; lia|].
        intros Hl. specialize (Hmv w j Hl). lia. }
      assert (Hfs1 : fstate_ok a1 m' t).
      { destruct Hfs as [Hap _]. split.
        - apply (good_ext a a1); auto. apply (good_kid a i); [exact Hap | rewrite Hn; simpl; auto].
        - right. apply (closedT_extends a a1); auto. apply (Hap i v e t (ar_root a i) Hn). }
      pose proof (IH a1 m' t ltac:(lia) Hwf1 Hb1 ltac:(lia) Hm' Hfs1) as IHt.
      eapply ok_trans; [exact He1|]. eapply ok_weaken; [exact IHt|].
      intros r; cbn beta.
      rewrite (val_apply a i v e t) by auto.
      rewrite (extends_val O osem a a1 t) by auto.
      destruct Hm as (Hmx & Hmy & Hmz & Hmv).
      apply (val_ext O osem); auto.
      + intros w; simpl. destruct (Nat.eqb w v); [apply Hv1|].
        destruct (lookup (fvars m) w) as [j|] eqn:Hl; [|reflexivity].
        apply (extends_val O osem); auto. eapply Hmv; eauto.
      + unfold env_xyz; simpl. rewrite !(extends_val O osem a a1) by auto. auto.
    - (* invalid *)
      apply ok_same; auto. intros r. rewrite !(val_node O osem a i) by exact Hi. rewrite Hn. reflexivity.
  Qed.

  (* Tree::flatten on any well-formed source, transformed oracles included *)
  Theorem flatten_sem_o a i :
    arena_wf a -> base_ok O a -> i < length a -> good a i ->
    ok_result a (flatten O a i) (fun r => val a i r).
  Proof.
    intros Hwf Hb Hi Hap. unfold flatten.
    destruct (f_remap (flags_of a i)); [|apply ok_same; auto].
    pose proof (base_ok_len O a Hb) as Hl.
    eapply ok_weaken.
    - apply flat_sem_o; auto.
      + unfold fenv_ok, fenv0, idX, idY, idZ; simpl.
        repeat split; try lia. intros w j H; discriminate H.
      + split; [exact Hap | left; reflexivity].
    - intros r; cbn beta. apply (val_ext O osem); auto.
      + intros w; reflexivity.
      + unfold env_xyz; simpl. rewrite (val_X O osem), (val_Y O osem), (val_Z O osem) by exact Hb. auto.
  Qed.

End FlattenSem.
