(* C07: Tree::remap denotes composition with the coordinate maps and
   Tree::apply denotes lexically scoped substitution, including the shortcuts
   (identity remap; remap of a tree without X/Y/Z/oracle returns the tree). *)
From Coq Require Import List Arith Bool Lia.
From LF Require Import Base.Opcode Base.Num Base.Arena Base.Sem Tree.Build Tree.BuildSem.
Import ListNotations.

Section RemapSem.
  Context {num : Type} (O : ops num).
  Variable osem : nat -> num -> num -> num -> num.
  Notation node := (node num).
  Notation arena := (arena num).
  Notation env := (env num).
  Notation val := (val O osem).
  Notation ok_result := (ok_result O osem).

  (* --- flags bookkeeping ------------------------------------------------ *)
  Lemma all_flags_snoc (a : arena) (n : node) : all_flags (a ++ [n]) = all_flags a ++ [node_flags (all_flags a) n].
  Proof. unfold all_flags; rewrite fold_left_app; reflexivity. Qed.

  Lemma all_flags_length (a : arena) : length (all_flags a) = length a.
  Proof.
    induction a as [|n a IH] using rev_ind; [reflexivity|].
    rewrite all_flags_snoc, !app_length, IH; reflexivity.
  Qed.

  Lemma flags_of_snoc_old (a : arena) (n : node) i : i < length a -> flags_of (a ++ [n]) i = flags_of a i.
  Proof.
    intros Hi; unfold flags_of, getf. rewrite all_flags_snoc.
    apply app_nth1; rewrite all_flags_length; exact Hi.
  Qed.

  Lemma flags_of_snoc_new (a : arena) (n : node) :
    flags_of (a ++ [n]) (length a) = node_flags (all_flags a) n.
  Proof.
    unfold flags_of, getf. rewrite all_flags_snoc, app_nth2; rewrite all_flags_length; [|lia].
    rewrite Nat.sub_diag; reflexivity.
  Qed.

  (* --- environments ----------------------------------------------------- *)
  Definition env_eqv (r r' : env) : Prop := forall w, ev r w = ev r' w.
  Definition env_xyz (r r' : env) : Prop := ex r = ex r' /\ ey r = ey r' /\ ez r = ez r'.
  Definition blind (f : flags) : bool := negb (f_xyz f || f_oracle f).

  Lemma blind_or p q : blind (f_or p q) = blind p && blind q.
  Proof. unfold blind, f_or; simpl. destruct (f_xyz p), (f_xyz q), (f_oracle p), (f_oracle q); reflexivity. Qed.

  (* a value depends only on the free-variable assignment and, unless the
     flags say the node is blind to them, on the three coordinates *)
  Lemma val_ext_gen (a : arena) : arena_wf a ->
    forall i, i < length a -> forall r r',
      env_eqv r r' -> (blind (flags_of a i) = true \/ env_xyz r r') ->
      val a i r = val a i r'.
  Proof.
    induction a as [|n a IH] using rev_ind; intros Hwf i Hi r r' Hv Hx; [simpl in Hi; lia|].
    apply arena_wf_snoc in Hwf. destruct Hwf as [Hwf Hn].
    rewrite app_length in Hi; simpl in Hi.
    destruct (Nat.eq_dec i (length a)) as [->|Hne].
    - rewrite !val_push. rewrite flags_of_snoc_new in Hx.
      assert (IH' : forall j, j < length a -> forall s s', env_eqv s s' ->
                 (blind (flags_of a j) = true \/ env_xyz s s') -> val a j s = val a j s')
        by (intros; apply IH; auto).
      destruct n as [c|o|o x|o x y|k|x y z t|x y z t|v e t|]; simpl in *.
      + reflexivity.
      + destruct o; try reflexivity.
        * destruct Hx as [Hx|Hx]; [discriminate Hx | apply Hx].
        * destruct Hx as [Hx|Hx]; [discriminate Hx | apply Hx].
        * destruct Hx as [Hx|Hx]; [discriminate Hx | apply Hx].
        * apply Hv.
      + f_equal. apply IH'; auto. apply Hn.
      + destruct Hn as (Hn1 & Hn2 & _).
        assert (Hb : blind (f_or (getf (all_flags a) x) (getf (all_flags a) y)) = true \/ env_xyz r r') by exact Hx.
        rewrite blind_or in Hb.
        f_equal; apply IH'; auto; destruct Hb as [Hb|Hb]; auto; apply andb_true_iff in Hb; left; apply Hb.
      + destruct Hx as [Hx|Hx]; [discriminate Hx|]. destruct Hx as (-> & -> & ->). reflexivity.
      + destruct Hn as (Hx1 & Hy1 & Hz1 & Ht1).
        destruct Hx as [Hx|Hx]; [discriminate Hx|].
        assert (Ex : val a x r = val a x r') by (apply IH'; auto).
        assert (Ey : val a y r = val a y r') by (apply IH'; auto).
        assert (Ez : val a z r = val a z r') by (apply IH'; auto).
        unfold val in Ex, Ey, Ez. rewrite Ex, Ey, Ez.
        apply IH'; auto. right; repeat split; reflexivity.
      + destruct Hn as (Hx1 & Hy1 & Hz1 & Ht1).
        rewrite !blind_or in Hx.
        assert (Hb : (blind (getf (all_flags a) x) = true /\ blind (getf (all_flags a) y) = true /\
                      blind (getf (all_flags a) z) = true /\ blind (getf (all_flags a) t) = true)
                     \/ env_xyz r r').
        { destruct Hx as [Hx|Hx]; [left|right; exact Hx].
          simpl in Hx. repeat (apply andb_true_iff in Hx; destruct Hx as [? Hx]).
          repeat match goal with H : _ && _ = true |- _ => apply andb_true_iff in H; destruct H end.
          auto. }
        assert (Ex : val a x r = val a x r') by (apply IH'; auto; destruct Hb as [Hb|Hb]; [left; apply Hb|auto]).
        assert (Ey : val a y r = val a y r') by (apply IH'; auto; destruct Hb as [Hb|Hb]; [left; apply Hb|auto]).
        assert (Ez : val a z r = val a z r') by (apply IH'; auto; destruct Hb as [Hb|Hb]; [left; apply Hb|auto]).
        unfold val in Ex, Ey, Ez. rewrite Ex, Ey, Ez.
        apply IH'; auto. right; repeat split; reflexivity.
      + destruct Hn as (Hv1 & He1 & Ht1).
        rewrite !blind_or in Hx.
        assert (Hb : (blind (getf (all_flags a) e) = true /\ blind (getf (all_flags a) t) = true)
                     \/ env_xyz r r').
        { destruct Hx as [Hx|Hx]; [left|right; exact Hx].
          simpl in Hx.
          repeat match goal with H : _ && _ = true |- _ => apply andb_true_iff in H; destruct H end.
          auto. }
        assert (Ee : val a e r = val a e r') by (apply IH'; auto; destruct Hb as [Hb|Hb]; [left; apply Hb|auto]).
        unfold val in Ee. rewrite Ee.
        apply IH'; auto.
        * intros w; simpl. destruct (Nat.eqb w v); [reflexivity | apply Hv].
        * destruct Hb as [Hb|Hb]; [left; apply Hb | right; exact Hb].
      + reflexivity.
    - assert (Hi' : i < length a) by lia.
      rewrite !val_extend by exact Hi'. apply IH; auto.
      rewrite flags_of_snoc_old in Hx by exact Hi'. exact Hx.
  Qed.

  Lemma val_ext a i r r' : arena_wf a -> i < length a ->
    env_eqv r r' -> env_xyz r r' -> val a i r = val a i r'.
  Proof. intros; apply val_ext_gen; auto. Qed.

  Lemma val_blind a i r r' : arena_wf a -> i < length a ->
    blind (flags_of a i) = true -> env_eqv r r' -> val a i r = val a i r'.
  Proof. intros; apply val_ext_gen; auto. Qed.

  (* --- Tree::remap ------------------------------------------------------ *)
  Theorem remap_sem a t x y z :
    arena_wf a -> base_ok O a ->
    t < length a -> x < length a -> y < length a -> z < length a ->
    ok_result a (mk_remap a t x y z)
      (fun r => val a t (upd_xyz r (val a x r) (val a y r) (val a z r))).
  Proof.
    intros Hwf Hb Ht Hx Hy Hz. unfold mk_remap.
    destruct (Nat.eqb x idX && Nat.eqb y idY && Nat.eqb z idZ) eqn:Hid.
    - (* identity remap is skipped *)
      repeat (apply andb_true_iff in Hid; destruct Hid as [Hid ?]).
      repeat match goal with H : Nat.eqb _ _ = true |- _ => apply Nat.eqb_eq in H; subst end.
      apply ok_same; auto. intros r. apply val_ext; auto.
      + intros w; reflexivity.
      + unfold env_xyz; simpl. rewrite (val_X O osem), (val_Y O osem), (val_Z O osem) by exact Hb. auto.
    - destruct (f_xyz (flags_of a t) || f_oracle (flags_of a t)) eqn:Hf.
      + apply ok_push; simpl; auto.
      + apply ok_same; auto. intros r. apply val_blind; auto.
        * unfold blind; rewrite Hf; reflexivity.
        * intros w; reflexivity.
  Qed.

  (* --- Tree::apply ------------------------------------------------------ *)
  Theorem apply_sem a t v e res :
    arena_wf a -> t < length a -> v < length a -> e < length a ->
    mk_apply a t v e = Some res ->
    getn a v = NNullary VAR_FREE /\
    ok_result a res (fun r => val a t (upd_var r v (val a e r))).
  Proof.
    intros Hwf Ht Hv He. unfold mk_apply.
    destruct (getn a v) as [c|o|o x|o x y|k|x0 y0 z0 t0|x y z t'|v' e' t'|] eqn:Hn; try discriminate.
    destruct o; try discriminate. intros H; inversion H; subst res; clear H.
    split; [reflexivity|]. apply ok_push; simpl; auto.
  Qed.

End RemapSem.
