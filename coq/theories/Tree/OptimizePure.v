(* Purity of what the rewriting passes return: the node returned by
   Tree::flatten / Tree::optimized only REACHES (through [kids], the links
   walk() follows) plain nodes: constants, free variables, the three canonical
   axis nodes, unary and binary operations ([pure_at] of Eval/DeckSem.v).  This
   is what the deck / tape theorem needs, so it composes with the semantic
   theorems of FlattenSem.v and OptimizeSem.v.

   Purely structural: parametric in the number type and in [ops]; no law of
   the operations is used ("Closed under the global context").

   Main statements
   - [unary_reach_pure], [binary_reach_pure], [bin_reach_pure]: the smart
     constructors applied to pure-reaching arguments return a pure-reaching
     node ([rp]).
   - [flat_reach_pure], [flatten_rp], [flatten_reach_pure] (1): under
     [src_ok a i] (every node reachable from i through ANY child link is a
     constant, a free variable, a canonical axis, unary, binary, remap or
     apply) the result of flatten is pure-reaching.
   - Section OptPure (2): ONE induction over opt_tree / opt_other / opt_affine /
     opt_comm ([opt_all_pr], [opt_tree_pr]), parametric in
       [ob] (oracle nodes admitted?), [vb] (free variables admitted?), [fl] (the value
       of the out-of-fuel flag, which nothing here changes), [M] (a level bound),
       [cp] / [coord] / [coord_pr] (precondition and specification of the call
       Tree::optimized_helper makes on the components of a transformed oracle).
     Traversed nodes satisfy [tp] (admissible along walk()'s links, components of
     transformed oracles satisfy [cp]); results satisfy [hp ob vb] = hereditarily
     admissible, THROUGH the coordinate trees of transformed oracles ([okids]), whose
     underlying node is a user oracle ([plain_at]).  The canonical map is only required
     to hold live nodes of admissible local shape with [key = key_of target]
     ([canon_pr]): Up{} uniq's the ORIGINAL node before it knows whether a child
     changed, so targets need not be optimised; [key_same_hp] shows that a target found
     through an equal key is as good as the node looked up.
   - Section OptPureFree: the instance [ob = false] gives back the former statements
     [opt_reach_pure], [optimized_helper_pr], [optimized_reach_pure] (3),
     [optimized_reach_pure_full] (also extends / arena_wf / base_ok / liveness of the
     result, to chain with deck_correct_topo) and [optimized_full_flag_src].
     The instance with oracles is OptimizePureO.v. *)
From Coq Require Import List Arith Bool Lia Permutation.
From LF Require Import Base.Opcode Base.Num Base.Arena Tree.Build Tree.BuildSem
  Tree.RemapSem Tree.Flatten Tree.Optimize Eval.Deck Eval.DeckSem Tree.ReachShape Tree.Bnd.
Import ListNotations.

(* the reachability relation of walk(): follow [kids] *)
Inductive reach {num} (a : arena num) (root : nat) : nat -> Prop :=
| reach_root : reach a root root
| reach_kid n k : reach a root n -> In k (kids (getn a n)) -> reach a root k.

(* ------------------------------------------------------------------ *)
Section Pure.
  Context {num : Type} (O : ops num).
  Notation node := (node num).
  Notation arena := (arena num).
  Notation ost := (@ost num).

  Definition pshape (m : nat) (n : node) : Prop :=
    match n with
    | NConst _ => True
    | NNullary VAR_X => m = idX
    | NNullary VAR_Y => m = idY
    | NNullary VAR_Z => m = idZ
    | NNullary VAR_FREE => True
    | NUnary _ _ => True
    | NBinary _ _ _ => True
    | _ => False
    end.

  Lemma pshape_pure_at (a : arena) m : pshape m (getn a m) <-> pure_at a m.
  Proof. unfold pure_at, pshape. reflexivity. Qed.

  Lemma kids_wf : forall len (n : node) k, node_wf len n -> In k (kids n) -> k < len.
  Proof. intros len n k; destruct n; simpl; intuition lia. Qed.

  (* pure-reaching *)
  Definition pr (a : arena) (j : nat) : Prop := all_ok kids (fun _ => pshape) a j.

  Lemma reach_greach (a : arena) r m : reach a r m <-> greach kids a r m.
  Proof. split; induction 1; econstructor; eauto. Qed.

  Lemma pr_spec a j : pr a j <-> forall m, reach a j m -> pure_at a m.
  Proof.
    unfold pr, all_ok. split; intros H m Hm.
    - apply pshape_pure_at, H, reach_greach, Hm.
    - apply pshape_pure_at, H, reach_greach, Hm.
  Qed.

  Lemma pr_unfold a j : pr a j <-> pshape j (getn a j) /\ forall k, In k (kids (getn a j)) -> pr a k.
  Proof. apply all_unfold. Qed.

  Lemma pr_kid a j k : pr a j -> In k (kids (getn a j)) -> pr a k.
  Proof. apply all_kid. Qed.

  Lemma pr_extends a a' j : arena_wf a -> extends a a' -> j < length a -> pr a j -> pr a' j.
  Proof.
    intros Hwf He Hj.
    apply (all_extends kids (fun _ => pshape) kids_wf (fun _ _ _ _ _ _ H => H) a a' Hwf He j Hj).
  Qed.

  Lemma pr_const a j c : getn a j = NConst c -> pr a j.
  Proof. intros H. apply pr_unfold. rewrite H. split; [exact I | intros k []]. Qed.

  Lemma pr_var a j : getn a j = NNullary VAR_FREE -> pr a j.
  Proof. intros H. apply pr_unfold. rewrite H. split; [exact I | intros k []]. Qed.

  Lemma pr_unary a j op x : getn a j = NUnary op x -> pr a x -> pr a j.
  Proof.
    intros H Hx. apply pr_unfold. rewrite H. split; [exact I|].
    intros k [<-|[]]; exact Hx.
  Qed.

  Lemma pr_binary a j op x y : getn a j = NBinary op x y -> pr a x -> pr a y -> pr a j.
  Proof.
    intros H Hx Hy. apply pr_unfold. rewrite H. split; [exact I|].
    intros k [<-|[<-|[]]]; assumption.
  Qed.

  (* what every constructor guarantees *)
  Definition rp (a : arena) (res : arena * nat) : Prop :=
    extends a (fst res) /\ arena_wf (fst res) /\ snd res < length (fst res) /\
    pr (fst res) (snd res).

  Lemma rp_same a j : arena_wf a -> j < length a -> pr a j -> rp a (a, j).
  Proof. intros; split; [apply extends_refl|]; cbn [fst snd]; auto. Qed.

  Lemma rp_trans a a1 res : extends a a1 -> rp a1 res -> rp a res.
  Proof.
    intros He (H1 & H2 & H3 & H4). split; [eapply extends_trans; eauto|]. auto.
  Qed.

  Lemma ext_snoc (a : arena) n : extends a (a ++ [n]).
  Proof. exists [n]; reflexivity. Qed.

  Lemma rp_push a n : arena_wf a -> node_wf (length a) n ->
    pr (a ++ [n]) (length a) -> rp a (push a n).
  Proof.
    intros Hwf Hn Hp. unfold push, rp; cbn [fst snd].
    split; [apply ext_snoc|]. split; [apply arena_wf_snoc; auto|].
    split; [rewrite app_length; simpl; lia | exact Hp].
  Qed.

  Lemma rp_push_const a c : arena_wf a -> rp a (push a (NConst c)).
  Proof.
    intros Hwf. apply rp_push; [exact Hwf | exact I|].
    eapply pr_const. apply getn_snoc_new.
  Qed.

  Lemma rp_push_unary a op x : arena_wf a -> x < length a -> args op = Some 1 -> pr a x ->
    rp a (push a (NUnary op x)).
  Proof.
    intros Hwf Hx Hop Hp. apply rp_push; [exact Hwf | split; assumption|].
    eapply pr_unary; [apply getn_snoc_new|]. eapply pr_extends; eauto using ext_snoc.
  Qed.

  Lemma rp_push_binary a op x y : arena_wf a -> x < length a -> y < length a ->
    args op = Some 2 -> pr a x -> pr a y -> rp a (push a (NBinary op x y)).
  Proof.
    intros Hwf Hx Hy Hop Hpx Hpy. apply rp_push; [exact Hwf | repeat split; assumption|].
    eapply pr_binary; [apply getn_snoc_new| |]; eapply pr_extends; eauto using ext_snoc.
  Qed.

  Lemma kid_lt (a : arena) j k : arena_wf a -> j < length a -> In k (kids (getn a j)) -> k < j.
  Proof. intros Hwf Hj. apply kids_wf. apply arena_wf_nth; assumption. Qed.

  (* Tree::unary *)
  Lemma unary_reach_pure a op l : arena_wf a -> l < length a -> args op = Some 1 -> pr a l ->
    rp a (mk_unary O a op l).
  Proof.
    intros Hwf Hl Hop Hp. unfold mk_unary. rewrite Hop.
    assert (Hd : rp a (push a (NUnary op l))) by (apply rp_push_unary; assumption).
    assert (Hs : rp a (a, l)) by (apply rp_same; assumption).
    assert (Hk : forall k, In k (kids (getn a l)) -> rp a (a, k)).
    { intros k Hk. apply rp_same; [exact Hwf | | eapply pr_kid; eauto].
      pose proof (kid_lt a l k Hwf Hl Hk). lia. }
    destruct (getn a l) as [c|o|o x|o x y|k|x' y' z' t'|x y z t|v e t|] eqn:Hn.
    - apply rp_push_const; exact Hwf.
    - destruct op; exact Hd.
    - destruct op; try exact Hd.
      + destruct o; try exact Hd. apply Hk; left; reflexivity.
      + destruct o; try exact Hd; exact Hs.
    - destruct op; exact Hd.
    - destruct op; exact Hd.
    - destruct op; exact Hd.
    - destruct op; exact Hd.
    - destruct op; exact Hd.
    - destruct op; exact Hd.
  Qed.

  (* Tree::binary *)
  Lemma binary_reach_pure fuel : forall a op l r,
    arena_wf a -> l < length a -> r < length a -> args op = Some 2 -> pr a l -> pr a r ->
    rp a (mk_binary O fuel a op l r).
  Proof.
    induction fuel as [|fuel IH]; intros a op l r Hwf Hl Hr Hop Hpl Hpr.
    all: assert (Hd : rp a (push a (NBinary op l r))) by (apply rp_push_binary; assumption).
    1: assert (Hrec : forall op' l' r', args op' = Some 2 -> l' < length a -> r' < length a ->
                 pr a l' -> pr a r' -> rp a (push a (NBinary op' l' r')))
         by (intros; apply rp_push_binary; assumption).
    2: assert (Hrec : forall op' l' r', args op' = Some 2 -> l' < length a -> r' < length a ->
                 pr a l' -> pr a r' -> rp a (mk_binary O fuel a op' l' r'))
         by (intros; apply IH; assumption).
    all: assert (Hsl : rp a (a, l)) by (apply rp_same; assumption).
    all: assert (Hsr : rp a (a, r)) by (apply rp_same; assumption).
    all: assert (Hul : forall o, args o = Some 1 -> rp a (mk_unary O a o l))
           by (intros; apply unary_reach_pure; assumption).
    all: assert (Hur : forall o, args o = Some 1 -> rp a (mk_unary O a o r))
           by (intros; apply unary_reach_pure; assumption).
    all: assert (Hkl : forall k, In k (kids (getn a l)) -> k < length a /\ pr a k)
           by (intros k Hk; split; [pose proof (kid_lt a l k Hwf Hl Hk); lia | exact (pr_kid a l k Hpl Hk)]).
    all: assert (Hkr : forall k, In k (kids (getn a r)) -> k < length a /\ pr a k)
           by (intros k Hk; split; [pose proof (kid_lt a r k Hwf Hr Hk); lia | exact (pr_kid a r k Hpr Hk)]).
    all: cbn [mk_binary]; rewrite Hop.
    all: destruct (getn a l) as [c1|o1|o1 x1|o1 x1 y1|k1|x1' y1' z1' t1'|x1 y1 z1 t1|v1 e1 t1|] eqn:Hnl;
         destruct (getn a r) as [c2|o2|o2 x2|o2 x2 y2|k2|x2' y2' z2' t2'|x2 y2 z2 t2|v2 e2 t2|] eqn:Hnr.
    all: try (apply rp_push_const; exact Hwf).
    all: destruct op; try discriminate Hop; try exact Hd.
    all: repeat match goal with
         | |- context [if ?c then _ else _] => destruct c eqn:?
         end; try exact Hd; try exact Hsl; try exact Hsr.
    all: try (apply Hul; reflexivity).
    all: try (apply Hur; reflexivity).
    all: try (destruct (Hkl _ (or_introl eq_refl)) as [? ?]; apply Hrec; auto; fail).
    all: try (destruct (Hkr _ (or_introl eq_refl)) as [? ?]; apply Hrec; auto; fail).
  Qed.

  Transparent mk_bin.
  Corollary bin_reach_pure a op l r :
    arena_wf a -> l < length a -> r < length a -> args op = Some 2 -> pr a l -> pr a r ->
    rp a (mk_bin O a op l r).
  Proof. intros; unfold mk_bin; apply binary_reach_pure; assumption. Qed.
  Opaque mk_bin.

  (* ---------------------------------------------------------------- *)
  (* Tree::flatten *)

  (* source trees: all child links are followed *)
  Definition skids (n : node) : list nat :=
    match n with
    | NUnary _ x => [x]
    | NBinary _ x y => [x; y]
    | NRemap x y z t => [x; y; z; t]
    | NApply v e t => [v; e; t]
    | _ => []
    end.

  Definition sshape (m : nat) (n : node) : Prop :=
    match n with
    | NConst _ => True
    | NNullary VAR_X => m = idX
    | NNullary VAR_Y => m = idY
    | NNullary VAR_Z => m = idZ
    | NNullary VAR_FREE => True
    | NUnary _ _ | NBinary _ _ _ | NRemap _ _ _ _ | NApply _ _ _ => True
    | _ => False
    end.

  Definition sreach (a : arena) (root m : nat) : Prop := greach skids a root m.

  (* every node reachable from [i] through any child link is a constant, a
     free variable, a canonical axis, a unary / binary operation, a remap or
     an apply: no oracle, no invalid node, no stray axis node *)
  Definition src_ok (a : arena) (i : nat) : Prop :=
    forall m, sreach a i m -> sshape m (getn a m).

  Lemma skids_wf : forall len (n : node) k, node_wf len n -> In k (skids n) -> k < len.
  Proof. intros len n k; destruct n; simpl; intuition lia. Qed.

  Lemma src_unfold a j :
    src_ok a j <-> sshape j (getn a j) /\ forall k, In k (skids (getn a j)) -> src_ok a k.
  Proof. apply (all_unfold skids (fun _ => sshape)). Qed.

  Lemma src_extends a a' j : arena_wf a -> extends a a' -> j < length a ->
    (src_ok a j <-> src_ok a' j).
  Proof.
    intros Hwf He Hj. split.
    - apply (all_extends skids (fun _ => sshape) skids_wf (fun _ _ _ _ _ _ H => H) a a' Hwf He j Hj).
    - apply (all_extends_inv skids (fun _ => sshape) skids_wf (fun _ _ _ _ _ _ H => H) a a' Hwf He j Hj).
  Qed.

  Definition lp (a : arena) (j : nat) : Prop := j < length a /\ pr a j.

  Lemma lp_extends a a' j : arena_wf a -> extends a a' -> lp a j -> lp a' j.
  Proof.
    intros Hwf He [H1 H2]. pose proof (extends_length a a' He).
    split; [lia | eapply pr_extends; eauto].
  Qed.

  Definition fenv_pr (a : arena) (m : fenv) : Prop :=
    lp a (fx m) /\ lp a (fy m) /\ lp a (fz m) /\
    forall w j, lookup (fvars m) w = Some j -> lp a j.

  Lemma fenv_pr_extends a a' m : arena_wf a -> extends a a' -> fenv_pr a m -> fenv_pr a' m.
  Proof.
    intros Hwf He (H1 & H2 & H3 & H4).
    split; [|split; [|split]]; try (eapply lp_extends; eauto; fail).
    intros w j Hl. eapply lp_extends; eauto.
  Qed.
End Pure.


(* ------------------------------------------------------------------ *)
Section FlattenPure.
  Context {num : Type} (O : ops num).
  Notation node := (node num).
  Notation arena := (arena num).
  Notation rp := (rp (num:=num)).

  Theorem flat_reach_pure : forall fuel a m i,
    i < fuel -> arena_wf a -> base_ok O a -> i < length a -> fenv_pr a m -> src_ok a i ->
    rp a (flat O fuel a m i).
  Proof.
    induction fuel as [|fuel IH]; intros a m i Hfuel Hwf Hb Hi Hm Hsrc; [lia|].
    cbn [flat].
    pose proof (arena_wf_nth a i Hwf Hi) as Hnw.
    apply src_unfold in Hsrc. destruct Hsrc as [Hsh Hks].
    destruct (getn a i) as [c|o|o x|o x y|k|x y z u|x y z t|v e t|] eqn:Hn;
      cbn [sshape skids node_wf] in *; try contradiction.
    - (* constant *)
      apply rp_same; auto. eapply pr_const; eauto.
    - (* nullary *)
      destruct Hm as ((Hx1 & Hx2) & (Hy1 & Hy2) & (Hz1 & Hz2) & Hmv).
      destruct o; try contradiction; try (apply rp_same; assumption).
      destruct (lookup (fvars m) i) as [j|] eqn:Hl.
      + destruct (Hmv i j Hl). apply rp_same; assumption.
      + apply rp_same; auto. apply pr_var; exact Hn.
    - (* unary *)
      destruct Hnw as [Hxi Ha].
      assert (Hx : x < length a) by lia.
      pose proof (IH a m x ltac:(lia) Hwf Hb Hx Hm (Hks x (or_introl eq_refl))) as IHx.
      destruct (flat O fuel a m x) as [a1 x'].
      destruct IHx as (He1 & Hwf1 & Hx' & Hp1); cbn [fst snd] in *.
      pose proof (extends_length _ _ He1) as Hl1.
      eapply rp_trans; [exact He1|].
      destruct (Nat.eqb x' x) eqn:Hxx.
      + apply Nat.eqb_eq in Hxx; subst x'. apply rp_same; [exact Hwf1 | lia |].
        eapply pr_unary; [|exact Hp1]. rewrite (extends_getn a a1 i He1 Hi). exact Hn.
      + apply unary_reach_pure; assumption.
    - (* binary *)
      destruct Hnw as (Hxi & Hyi & Ha).
      assert (Hx : x < length a) by lia. assert (Hy : y < length a) by lia.
      pose proof (IH a m y ltac:(lia) Hwf Hb Hy Hm (Hks y (or_intror (or_introl eq_refl)))) as IHy.
      destruct (flat O fuel a m y) as [a1 y'].
      destruct IHy as (He1 & Hwf1 & Hy' & Hp1); cbn [fst snd] in *.
      pose proof (base_ok_extends O a a1 Hb He1) as Hb1.
      pose proof (extends_length _ _ He1) as Hl1.
      pose proof (IH a1 m x ltac:(lia) Hwf1 Hb1 ltac:(lia) (fenv_pr_extends a a1 m Hwf He1 Hm)
                    (proj1 (src_extends a a1 x Hwf He1 Hx) (Hks x (or_introl eq_refl)))) as IHx.
      destruct (flat O fuel a1 m x) as [a2 x'].
      destruct IHx as (He2 & Hwf2 & Hx' & Hp2); cbn [fst snd] in *.
      pose proof (extends_length _ _ He2) as Hl2.
      assert (He02 : extends a a2) by (eapply extends_trans; eauto).
      assert (Hpy : pr a2 y') by exact (pr_extends a1 a2 y' Hwf1 He2 Hy' Hp1).
      eapply rp_trans; [exact He02|].
      destruct (Nat.eqb x' x && Nat.eqb y' y) eqn:Hxx.
      + apply andb_true_iff in Hxx; destruct Hxx as [H1 H2].
        apply Nat.eqb_eq in H1, H2; subst x' y'. apply rp_same; [exact Hwf2 | lia |].
        eapply pr_binary; [|exact Hp2|exact Hpy]. rewrite (extends_getn a a2 i He02 Hi). exact Hn.
      + apply bin_reach_pure; auto; lia.
    - (* remap *)
      destruct Hnw as (Hxi & Hyi & Hzi & Hti).
      assert (Hx : x < length a) by lia. assert (Hy : y < length a) by lia.
      assert (Hz : z < length a) by lia. assert (Ht : t < length a) by lia.
      assert (Sx : src_ok a x) by (apply Hks; simpl; auto).
      assert (Sy : src_ok a y) by (apply Hks; simpl; auto).
      assert (Sz : src_ok a z) by (apply Hks; simpl; auto).
      assert (St : src_ok a t) by (apply Hks; simpl; auto).
      pose proof (IH a m x ltac:(lia) Hwf Hb Hx Hm Sx) as IHx.
      destruct (flat O fuel a m x) as [a1 x'].
      destruct IHx as (He1 & Hwf1 & Hx' & Hp1); cbn [fst snd] in *.
      pose proof (base_ok_extends O a a1 Hb He1) as Hb1.
      pose proof (extends_length _ _ He1) as Hl1.
      pose proof (IH a1 m y ltac:(lia) Hwf1 Hb1 ltac:(lia) (fenv_pr_extends a a1 m Hwf He1 Hm)
                    (proj1 (src_extends a a1 y Hwf He1 Hy) Sy)) as IHy.
      destruct (flat O fuel a1 m y) as [a2 y'].
      destruct IHy as (He2 & Hwf2 & Hy' & Hp2); cbn [fst snd] in *.
      pose proof (extends_length _ _ He2) as Hl2.
      assert (He02 : extends a a2) by (eapply extends_trans; eauto).
      pose proof (base_ok_extends O a a2 Hb He02) as Hb2.
      pose proof (IH a2 m z ltac:(lia) Hwf2 Hb2 ltac:(lia) (fenv_pr_extends a a2 m Hwf He02 Hm)
                    (proj1 (src_extends a a2 z Hwf He02 Hz) Sz)) as IHz.
      destruct (flat O fuel a2 m z) as [a3 z'].
      destruct IHz as (He3 & Hwf3 & Hz' & Hp3); cbn [fst snd] in *.
      pose proof (extends_length _ _ He3) as Hl3.
      assert (He03 : extends a a3) by (eapply extends_trans; eauto).
      assert (He13 : extends a1 a3) by (eapply extends_trans; eauto).
      pose proof (base_ok_extends O a a3 Hb He03) as Hb3.
      set (m' := {| fx := x'; fy := y'; fz := z'; fvars := fvars m |}).
      assert (Hm' : fenv_pr a3 m').
      { destruct (fenv_pr_extends a a3 m Hwf He03 Hm) as (_ & _ & _ & Hmv).
        split; [|split; [|split]]; cbn [m' fx fy fz fvars].
        - apply (lp_extends a1 a3); auto. split; assumption.
        - apply (lp_extends a2 a3); auto. split; assumption.
        - split; assumption.
        - exact Hmv. }
      eapply rp_trans; [exact He03|].
      apply IH; auto; try lia. apply (src_extends a a3 t Hwf He03 Ht); exact St.
    - (* apply *)
      destruct Hnw as (Hvi & Hei & Hti).
      assert (He : e < length a) by lia. assert (Ht : t < length a) by lia.
      assert (Se : src_ok a e) by (apply Hks; simpl; auto).
      assert (St : src_ok a t) by (apply Hks; simpl; auto).
      pose proof (IH a m e ltac:(lia) Hwf Hb He Hm Se) as IHe.
      destruct (flat O fuel a m e) as [a1 e'].
      destruct IHe as (He1 & Hwf1 & He' & Hp1); cbn [fst snd] in *.
      pose proof (base_ok_extends O a a1 Hb He1) as Hb1.
      pose proof (extends_length _ _ He1) as Hl1.
      set (m' := {| fx := fx m; fy := fy m; fz := fz m; fvars := (v, e') :: fvars m |}).
      assert (Hm' : fenv_pr a1 m').
      { destruct (fenv_pr_extends a a1 m Hwf He1 Hm) as (H1 & H2 & H3 & Hmv).
        split; [|split; [|split]]; cbn [m' fx fy fz fvars]; auto.
        intros w j. cbn [lookup]. destruct (Nat.eqb w v).
        - intros H; inversion H; subst. split; assumption.
        - apply Hmv. }
      eapply rp_trans; [exact He1|].
      apply IH; auto; try lia. apply (src_extends a a1 t Hwf He1 Ht); exact St.
  Qed.

  (* a handle whose remap flag is clear reaches no remap / apply *)
  Lemma noremap_pr : forall a : arena, arena_wf a -> forall i, i < length a ->
    f_remap (flags_of a i) = false -> src_ok a i -> pr a i.
  Proof.
    induction a as [|n a IH] using rev_ind; intros Hwf i Hi Hf Hs; [simpl in Hi; lia|].
    apply arena_wf_snoc in Hwf. destruct Hwf as [Hwf Hn].
    rewrite app_length in Hi; simpl in Hi.
    assert (Hext : extends a (a ++ [n])) by apply ext_snoc.
    assert (Hold : forall j, j < length a -> f_remap (flags_of a j) = false ->
                             src_ok (a ++ [n]) j -> pr (a ++ [n]) j).
    { intros j Hj Hfj Hsj. apply (pr_extends a (a ++ [n]) j Hwf Hext Hj). apply IH; auto.
      apply (src_extends a (a ++ [n]) j Hwf Hext Hj); exact Hsj. }
    destruct (Nat.eq_dec i (length a)) as [->|Hne].
    - rewrite flags_of_snoc_new in Hf. apply src_unfold in Hs. rewrite getn_snoc_new in Hs.
      destruct Hs as [Hsh Hks].
      destruct n as [c|o|o x|o x y|k|x y z u|x y z t|v e t|];
        cbn [sshape skids node_flags node_wf] in *; try contradiction.
      + eapply pr_const; apply getn_snoc_new.
      + apply pr_unfold. rewrite getn_snoc_new. split; [|intros k []].
        destruct o; try contradiction; cbn; auto.
      + eapply pr_unary; [apply getn_snoc_new|].
        apply Hold; [lia | exact Hf | apply Hks; left; reflexivity].
      + cbn in Hf. apply orb_false_iff in Hf. destruct Hf as [Hf1 Hf2].
        eapply pr_binary; [apply getn_snoc_new| |]; apply Hold; try lia; auto;
          apply Hks; simpl; auto.
      + cbn in Hf. discriminate Hf.
      + cbn in Hf. discriminate Hf.
    - rewrite flags_of_snoc_old in Hf by lia. apply Hold; auto; lia.
  Qed.

  Lemma fenv0_pr a : arena_wf a -> base_ok O a -> fenv_pr a fenv0.
  Proof.
    intros Hwf Hb. pose proof (base_ok_len O a Hb) as Hl.
    assert (H : forall j, j < 3 -> lp a j).
    { intros j Hj. split; [lia|]. apply pr_unfold. rewrite (base_getn O a j Hb) by lia.
      destruct j as [|[|[|j]]]; [| | |lia]; (split; [reflexivity | intros k []]). }
    split; [|split; [|split]]; cbn [fenv0 fx fy fz fvars]; try (apply H; unfold idX, idY, idZ; lia).
    intros w j Hw; discriminate Hw.
  Qed.

  Theorem flatten_rp a i : arena_wf a -> base_ok O a -> i < length a -> src_ok a i ->
    rp a (flatten O a i).
  Proof.
    intros Hwf Hb Hi Hs. unfold flatten. destruct (f_remap (flags_of a i)) eqn:Hf.
    - apply flat_reach_pure; auto. apply fenv0_pr; assumption.
    - apply rp_same; auto. apply noremap_pr; assumption.
  Qed.

  (* 1. what Tree::flatten returns only reaches plain nodes *)
  Theorem flatten_reach_pure a i : arena_wf a -> base_ok O a -> i < length a -> src_ok a i ->
    let '(a', j) := flatten O a i in forall m, reach a' j m -> pure_at a' m.
  Proof.
    intros Hwf Hb Hi Hs. pose proof (flatten_rp a i Hwf Hb Hi Hs) as H.
    destruct (flatten O a i) as [a' j]. destruct H as (_ & _ & _ & H). apply pr_spec; exact H.
  Qed.
End FlattenPure.

(* ------------------------------------------------------------------ *)
(* insertion sort is a permutation (any comparison) *)
Section SortPermP.
  Context {A : Type} (lt : A -> A -> bool).
  Lemma insert_permP x l : Permutation (insert lt x l) (x :: l).
  Proof.
    induction l as [|y r IH]; simpl; [reflexivity|].
    destruct (lt x y); [reflexivity|].
    eapply perm_trans; [apply perm_skip; exact IH | apply perm_swap].
  Qed.
  Lemma isort_permP l : Permutation (isort lt l) l.
  Proof.
    induction l as [|x l IH]; simpl; [constructor|].
    eapply perm_trans; [apply insert_permP | apply perm_skip; exact IH].
  Qed.
End SortPermP.

Lemma dedup_cons2P x y r : dedup_adjacent (x :: y :: r) =
  if Nat.eqb x y then dedup_adjacent (y :: r) else x :: dedup_adjacent (y :: r).
Proof. reflexivity. Qed.

Lemma dedup_nonemptyP l : dedup_adjacent l = [] -> l = [].
Proof.
  induction l as [|x r IH]; [reflexivity|].
  destruct r as [|y r']; [discriminate|].
  rewrite dedup_cons2P. destruct (Nat.eqb x y); [|discriminate].
  intros H; apply IH in H; discriminate H.
Qed.

Lemma dedup_Forall (P : nat -> Prop) l : Forall P l -> Forall P (dedup_adjacent l).
Proof.
  induction l as [|x t IH]; intros H; [exact H|].
  destruct t as [|y t']; [exact H|]. rewrite dedup_cons2P.
  inversion H as [|x' t'' Hx Ht]; subst. destruct (Nat.eqb x y); [apply IH; exact Ht|].
  constructor; [exact Hx | apply IH; exact Ht].
Qed.

(* ------------------------------------------------------------------ *)
Section OptPure.
  Context {num : Type} (O : ops num).
  Notation node := (node num).
  Notation arena := (arena num).
  Notation ost := (@ost num).

  (* [ob]: are oracle nodes admitted?  [ob = false] gives back the pure-reaching
     predicate [pr]; [ob = true] is what the optimiser returns for sources with
     oracles: plain nodes, user oracles and transformed oracles whose four
     components are again of this kind (hereditarily: [okids] follows them) *)
  Variable ob : bool.
  (* [vb]: are free variables admitted? *)
  Variable vb : bool.
  (* the value of the out-of-fuel flag, which nothing here changes *)
  Variable fl : bool.

  Definition okids (n : node) : list nat :=
    match n with
    | NUnary _ x => [x]
    | NBinary _ x y => [x; y]
    | NOracleT x y z u => [x; y; z; u]
    | _ => []
    end.

  (* the underlying oracle of a transformed oracle is a plain (user) oracle, as
     flatten produces them *)
  Definition plain_at (a : arena) (u : nat) : Prop := exists k, getn a u = NOracle k.

  Definition oshape (a : arena) (m : nat) (n : node) : Prop :=
    match n with
    | NConst _ => True
    | NNullary VAR_X => m = idX
    | NNullary VAR_Y => m = idY
    | NNullary VAR_Z => m = idZ
    | NNullary VAR_FREE => vb = true
    | NUnary _ _ => True
    | NBinary _ _ _ => True
    | NOracle _ => ob = true
    | NOracleT _ _ _ u => ob = true /\ plain_at a u
    | _ => False
    end.

  Lemma plain_extends a a' u : extends a a' -> u < length a -> plain_at a u -> plain_at a' u.
  Proof. intros He Hu [k Hk]. exists k. rewrite (extends_getn a a' u He Hu). exact Hk. Qed.

  Lemma oshape_ext : forall a a' m, arena_wf a -> extends a a' -> m < length a ->
    oshape a m (getn a m) -> oshape a' m (getn a m).
  Proof.
    intros a a' m Hwf He Hm. pose proof (arena_wf_nth a m Hwf Hm) as Hw.
    destruct (getn a m); cbn [oshape node_wf] in *; auto.
    intros [H1 H2]. split; [exact H1|]. apply (plain_extends a a'); auto. lia.
  Qed.

  Lemma okids_wf : forall len (n : node) k, node_wf len n -> In k (okids n) -> k < len.
  Proof. intros len n k; destruct n; simpl; intuition lia. Qed.

  Lemma kids_okids (n : node) : incl (kids n) (okids n).
  Proof. intros q Hq. destruct n; simpl in *; auto. Qed.

  (* hereditarily admissible *)
  Definition hp (a : arena) (j : nat) : Prop := all_ok okids oshape a j.

  Lemma hp_unfold a j :
    hp a j <-> oshape a j (getn a j) /\ forall k, In k (okids (getn a j)) -> hp a k.
  Proof. apply all_unfold. Qed.

  Lemma hp_kid a j k : hp a j -> In k (okids (getn a j)) -> hp a k.
  Proof. apply all_kid. Qed.

  Lemma hp_extends a a' j : arena_wf a -> extends a a' -> j < length a -> hp a j -> hp a' j.
  Proof. intros Hwf He Hj. apply (all_extends okids oshape okids_wf oshape_ext a a' Hwf He j Hj). Qed.

  Lemma hp_unary a j op x : getn a j = NUnary op x -> hp a x -> hp a j.
  Proof.
    intros H Hx. apply hp_unfold. rewrite H. split; [exact I|]. intros k [<-|[]]; exact Hx.
  Qed.

  Lemma hp_binary a j op x y : getn a j = NBinary op x y -> hp a x -> hp a y -> hp a j.
  Proof.
    intros H Hx Hy. apply hp_unfold. rewrite H. split; [exact I|].
    intros k [<-|[<-|[]]]; assumption.
  Qed.

  Lemma hp_leaf a j : oshape a j (getn a j) -> okids (getn a j) = [] -> hp a j.
  Proof. intros Hs Hk. apply hp_unfold. split; [exact Hs|]. rewrite Hk. intros k []. Qed.

  (* live, admissible, and within the level bound [M] *)
  Definition lph (M : nat) (a : arena) (j : nat) : Prop :=
    j < length a /\ hp a j /\ bnd_of a j <= M.

  Lemma lph_extends M a a' j : arena_wf a -> extends a a' -> lph M a j -> lph M a' j.
  Proof.
    intros Hwf He (H1 & H2 & H3). pose proof (extends_length a a' He).
    split; [lia|]. split; [eapply hp_extends; eauto|]. rewrite (bnd_extends a a' j He H1). exact H3.
  Qed.

  (* what the constructors return *)
  Definition rph (M : nat) (a : arena) (res : arena * nat) : Prop :=
    extends a (fst res) /\ arena_wf (fst res) /\ lph M (fst res) (snd res).

  Lemma rph_of M a res : grp okids oshape a res -> bres res M -> rph M a res.
  Proof. intros (H1 & H2 & H3 & H4) Hb. split; [exact H1|]. split; [exact H2|]. split; [exact H3|]. split; assumption. Qed.

  Lemma unary_rph M a op l : arena_wf a -> lph M a l -> args op = Some 1 ->
    rph M a (mk_unary O a op l).
  Proof.
    intros Hwf (Hl & Hp & Hb) Hop. apply rph_of.
    - apply (unary_grp O okids oshape okids_wf oshape_ext); auto; try (intros; exact I); intros; reflexivity.
    - apply unary_bnd; assumption.
  Qed.

  Lemma bin_rph M a op l r : arena_wf a -> lph M a l -> lph M a r -> args op = Some 2 ->
    rph M a (mk_bin O a op l r).
  Proof.
    intros Hwf (Hl & Hpl & Hbl) (Hr & Hpr & Hbr) Hop. apply rph_of.
    - apply (bin_grp O okids oshape okids_wf oshape_ext); auto; try (intros; exact I); intros; reflexivity.
    - apply bin_bnd; assumption.
  Qed.

  Lemma const_rph M a c : arena_wf a -> rph M a (push a (NConst c)).
  Proof.
    intros Hwf. apply rph_of.
    - apply (grp_push_const okids oshape); auto; try (intros; exact I); intros; reflexivity.
    - apply bres_push. cbn [node_bnd]. lia.
  Qed.

  (* ---------------------------------------------------------------- *)
  (* what the optimiser TRAVERSES: through [kids] (oracles are leaves) only
     admissible nodes, and every transformed oracle met has components that
     satisfy [cp], the precondition of [coord] *)
  Variable cp : arena -> nat -> Prop.
  Hypothesis cp_ext : forall a a' j, arena_wf a -> extends a a' -> j < length a -> cp a j -> cp a' j.

  Definition kp (a : arena) (j : nat) : Prop := all_ok kids oshape a j.
  Definition tp (a : arena) (j : nat) : Prop :=
    kp a j /\
    forall m x y z u, greach kids a j m -> getn a m = NOracleT x y z u ->
      cp a x /\ cp a y /\ cp a z /\ cp a u.
  Definition lpt (M : nat) (a : arena) (j : nat) : Prop :=
    j < length a /\ tp a j /\ bnd_of a j <= M.

  Lemma tp_kid a j k : tp a j -> In k (kids (getn a j)) -> tp a k.
  Proof.
    intros [H1 H2] Hk. split; [eapply all_kid; eauto|].
    intros m x y z u Hm. apply H2. eapply greach_trans; [|exact Hm].
    econstructor; [constructor | exact Hk].
  Qed.

  Lemma kreach_le (a : arena) j m : arena_wf a -> j < length a -> greach kids a j m -> m <= j.
  Proof.
    intros Hwf Hj. induction 1 as [|n k Hn IH Hk]; [lia|].
    pose proof (kids_wf n (getn a n) k (arena_wf_nth a n Hwf ltac:(lia)) Hk). lia.
  Qed.

  Lemma kreach_ext (a a' : arena) j m : arena_wf a -> extends a a' -> j < length a ->
    greach kids a' j m -> greach kids a j m.
  Proof.
    intros Hwf He Hj. induction 1 as [|n k Hn IH Hk]; [constructor|].
    pose proof (kreach_le a j n Hwf Hj IH).
    rewrite (extends_getn a a' n He) in Hk by lia. econstructor; eauto.
  Qed.

  Lemma tp_extends a a' j : arena_wf a -> extends a a' -> j < length a -> tp a j -> tp a' j.
  Proof.
    intros Hwf He Hj [H1 H2]. split.
    - apply (all_extends kids oshape kids_wf oshape_ext a a' Hwf He j Hj). exact H1.
    - intros m x y z u Hm Hn. pose proof (kreach_ext a a' j m Hwf He Hj Hm) as Hm'.
      pose proof (kreach_le a j m Hwf Hj Hm') as Hle.
      rewrite (extends_getn a a' m He) in Hn by lia.
      pose proof (arena_wf_nth a m Hwf ltac:(lia)) as Hw. rewrite Hn in Hw. cbn [node_wf] in Hw.
      destruct (H2 m x y z u Hm' Hn) as (C1 & C2 & C3 & C4).
      repeat split; apply (cp_ext a a'); auto; lia.
  Qed.

  Lemma tp_shape a j : tp a j -> oshape a j (getn a j).
  Proof. intros [H _]. apply H. constructor. Qed.

  Lemma lpt_extends M a a' j : arena_wf a -> extends a a' -> lpt M a j -> lpt M a' j.
  Proof.
    intros Hwf He (H1 & H2 & H3). pose proof (extends_length a a' He).
    split; [lia|]. split; [eapply tp_extends; eauto|]. rewrite (bnd_extends a a' j He H1). exact H3.
  Qed.

  Lemma kid_lpt M (a : arena) i k : arena_wf a -> lpt M a i -> In k (kids (getn a i)) ->
    k < i /\ lpt M a k.
  Proof.
    intros Hwf (Hi & Hp & Hb) Hk.
    pose proof (kids_wf i (getn a i) k (arena_wf_nth a i Hwf Hi) Hk) as Hlt.
    split; [exact Hlt|]. split; [lia|]. split; [eapply tp_kid; eauto|].
    destruct (getn a i) as [c|o|o x|o x y|g|x y z u|x y z t|v e t|] eqn:Hn;
      cbn [kids] in Hk; try contradiction.
    - destruct Hk as [<-|[]]. rewrite <- (bnd_unary a i o x Hwf Hi Hn). exact Hb.
    - rewrite (bnd_binary a i o x y Hwf Hi Hn) in Hb. destruct Hk as [<-|[<-|[]]]; lia.
  Qed.

  (* a traversed leaf is admissible as it stands *)
  Lemma lpt_leaf M a i : lpt M a i -> okids (getn a i) = [] -> lph M a i.
  Proof.
    intros (Hi & Hp & Hb) Hk. split; [exact Hi|]. split; [|exact Hb].
    apply hp_leaf; [apply tp_shape; exact Hp | exact Hk].
  Qed.

  (* ---------------------------------------------------------------- *)
  (* the canonical map: every entry [(k, j)] was inserted by [uniq] for the live
     node [j] of admissible LOCAL shape, with [k = key_of j].  (Targets need not be
     admissible all the way down: Up{} uniq's the ORIGINAL node before it knows
     whether a child changed; such an entry can only be found again through a
     node with the same key, i.e. the same children.) *)
  Definition canon_pr (a : arena) (c : @canon num) : Prop :=
    Forall (fun p => snd p < length a /\ oshape a (snd p) (getn a (snd p)) /\
                     fst p = key_of O a (snd p)) c.

  Definition st_pr (st : ost) : Prop :=
    arena_wf (st_arena st) /\ base_ok O (st_arena st) /\ canon_pr (st_arena st) (st_canon st) /\
    st_oof st = fl.

  Definition orp (M : nat) (a : arena) (res : ost * nat) : Prop :=
    st_pr (fst res) /\ extends a (st_arena (fst res)) /\ lph M (st_arena (fst res)) (snd res).

  Lemma st_pr_wf st : st_pr st -> arena_wf (st_arena st).
  Proof. intros H; apply H. Qed.

  Lemma orp_trans M a a1 res : extends a a1 -> orp M a1 res -> orp M a res.
  Proof. intros He (H1 & H2 & H3). split; [exact H1|]. split; [eapply extends_trans; eauto | exact H3]. Qed.

  Lemma key_of_extends (a a' : arena) i : extends a a' -> i < length a ->
    key_of O a' i = key_of O a i.
  Proof. intros He Hi. unfold key_of. rewrite (extends_getn a a' i He Hi). reflexivity. Qed.

  Lemma canon_pr_extends a a' c : arena_wf a -> extends a a' -> canon_pr a c -> canon_pr a' c.
  Proof.
    intros Hwf He. pose proof (extends_length a a' He). apply Forall_impl. intros p (H1 & H2 & H3).
    split; [lia|]. rewrite (key_of_extends a a' _ He H1).
    split; [|exact H3]. rewrite (extends_getn a a' _ He H1). apply oshape_ext; assumption.
  Qed.

  Lemma canon_find_in c k j : canon_find O c k = Some j ->
    exists k', In (k', j) c /\ key_eqb O k k' = true.
  Proof.
    induction c as [|[k' j'] c IH]; simpl; [discriminate|].
    destruct (key_eqb O k k') eqn:E.
    - intros H; inversion H; subst. exists k'; auto.
    - intros H. destruct (IH H) as (k'' & Hin & Hk). exists k''; auto.
  Qed.

  (* two live nodes with equal keys: the same node, the same shape, or two constants *)
  Lemma key_same_node (a : arena) i j :
    key_eqb O (key_of O a i) (key_of O a j) = true ->
    j = i \/ getn a j = getn a i \/
    (exists c c', getn a i = NConst c /\ getn a j = NConst c').
  Proof.
    unfold key_of.
    destruct (getn a i) as [c|o|o x|o x y|g|x y z u|x y z t|v e t|] eqn:Ei;
      destruct (getn a j) as [c'|o'|o' x'|o' x' y'|g'|x' y' z' u'|x' y' z' t'|v' e' t'|] eqn:Ej;
      try (intros _; right; right; exists c, c'; split; reflexivity);
      repeat match goal with
             | |- context [o_isnan O ?q] => destruct (o_isnan O q)
             end;
      try (match type of Ei with _ = NNullary _ => destruct o end);
      try (match type of Ej with _ = NNullary _ => destruct o' end);
      cbn [key_eqb]; intros Hk; try discriminate Hk.
    all: try (right; left; reflexivity).
    all: repeat match goal with H : _ && _ = true |- _ => apply andb_true_iff in H; destruct H end.
    all: repeat match goal with H : opcode_eqb _ _ = true |- _ => apply opcode_eqb_eq in H end.
    all: repeat match goal with H : Nat.eqb _ _ = true |- _ => apply Nat.eqb_eq in H end.
    all: subst; try (right; left; reflexivity); try (left; reflexivity).
  Qed.

  Lemma key_same_hp (a : arena) i j : arena_wf a -> i < length a -> j < length a ->
    key_eqb O (key_of O a i) (key_of O a j) = true ->
    oshape a j (getn a j) -> hp a i -> hp a j /\ bnd_of a j = bnd_of a i.
  Proof.
    intros Hwf Hi Hj Hk Hs Hp.
    destruct (key_same_node a i j Hk) as [->|[E|(c & c' & E1 & E2)]].
    - split; [exact Hp | reflexivity].
    - split.
      + apply hp_unfold. split; [exact Hs|]. rewrite E. apply hp_unfold in Hp. apply Hp.
      + rewrite (bnd_node a Hwf j Hj), (bnd_node a Hwf i Hi), E. reflexivity.
    - split.
      + apply hp_leaf; [exact Hs | rewrite E2; reflexivity].
      + rewrite (bnd_node a Hwf j Hj), (bnd_node a Hwf i Hi), E1, E2. reflexivity.
  Qed.

  (* the deduplicator: always keeps the state invariant; returns an admissible node
     whenever it is given one *)
  Lemma uniq_st st i : st_pr st -> i < length (st_arena st) ->
    oshape (st_arena st) i (getn (st_arena st) i) ->
    st_pr (fst (uniq O st i)) /\ st_arena (fst (uniq O st i)) = st_arena st /\
    snd (uniq O st i) < length (st_arena st) /\
    (hp (st_arena st) i ->
     hp (st_arena st) (snd (uniq O st i)) /\
     bnd_of (st_arena st) (snd (uniq O st i)) = bnd_of (st_arena st) i).
  Proof.
    intros (Hwf & Hb & Hc & Ho) Hi Hs. unfold uniq.
    destruct (canon_find O (st_canon st) (key_of O (st_arena st) i)) as [j|] eqn:Hf.
    - destruct (canon_find_in _ _ _ Hf) as (k' & Hin & Hk).
      pose proof Hc as Hc'. unfold canon_pr in Hc'. rewrite Forall_forall in Hc'.
      destruct (Hc' _ Hin) as (Hj & Hsj & Hkj). cbn [fst snd] in *. subst k'.
      split; [split; [exact Hwf | split; [exact Hb | split; [exact Hc | exact Ho]]]|].
      split; [reflexivity|]. split; [exact Hj|].
      intros Hp. apply (key_same_hp _ i j); assumption.
    - cbn [fst snd st_arena st_canon st_oof].
      split.
      + split; [exact Hwf|]. split; [exact Hb|]. cbn [st_arena st_canon st_oof].
        split; [|exact Ho]. constructor; [|exact Hc]. cbn [fst snd]. auto.
      + split; [reflexivity|]. split; [exact Hi|]. intros Hp. auto.
  Qed.

  Lemma uniq_pr M st i : st_pr st -> lph M (st_arena st) i -> orp M (st_arena st) (uniq O st i).
  Proof.
    intros Hst (Hi & Hp & Hb).
    assert (Hs : oshape (st_arena st) i (getn (st_arena st) i)) by (apply hp_unfold in Hp; apply Hp).
    destruct (uniq_st st i Hst Hi Hs) as (H1 & H2 & H4 & H5).
    destruct (H5 Hp) as [H6 H7].
    split; [exact H1|]. split; [rewrite H2; apply extends_refl|].
    rewrite H2. split; [exact H4|]. split; [exact H6 | lia].
  Qed.

  Lemma lift_uniq_pr M st res : st_pr st -> rph M (st_arena st) res ->
    orp M (st_arena st) (lift_uniq O st res).
  Proof.
    intros (Hwf & Hb & Hc & Ho) (He & Hwf' & Hl). unfold lift_uniq.
    set (st' := {| st_arena := fst res; st_canon := st_canon st; st_oof := st_oof st |}).
    assert (Hok : st_pr st').
    { split; [exact Hwf'|]. split; [|split]; cbn [st' st_arena st_canon st_oof].
      - eapply base_ok_extends; eauto.
      - exact (canon_pr_extends _ _ _ Hwf He Hc).
      - exact Ho. }
    eapply orp_trans; [exact He|].
    apply (uniq_pr M st' (snd res) Hok). exact Hl.
  Qed.

  Lemma bin_uniq_pr M st op l r : st_pr st -> lph M (st_arena st) l -> lph M (st_arena st) r ->
    args op = Some 2 ->
    orp M (st_arena st) (lift_uniq O st (mk_bin O (st_arena st) op l r)).
  Proof.
    intros Hst Hl Hr Hop. apply lift_uniq_pr; [exact Hst|].
    apply bin_rph; auto. apply Hst.
  Qed.

  Lemma un_uniq_pr M st op l : st_pr st -> lph M (st_arena st) l -> args op = Some 1 ->
    orp M (st_arena st) (lift_uniq O st (mk_unary O (st_arena st) op l)).
  Proof.
    intros Hst Hl Hop. apply lift_uniq_pr; [exact Hst|].
    apply unary_rph; auto. apply Hst.
  Qed.

  Lemma const_uniq_pr M st c : st_pr st -> orp M (st_arena st) (mk_const_uniq O st c).
  Proof.
    intros Hst. unfold mk_const_uniq, mk_const. apply lift_uniq_pr; [exact Hst|].
    apply const_rph. apply Hst.
  Qed.

  (* ---------------------------------------------------------------- *)
  (* from here on the level bound [M] is fixed *)
  Section WithM.
  Variable M : nat.
  Notation lp := (lph M).
  Notation lpt := (lpt M).
  Notation orp := (orp M).
  Notation lp_extends := (lph_extends M).
  Notation lpt_extends := (lpt_extends M).
  Notation kid_lpt := (kid_lpt M).
  Notation uniq_pr := (uniq_pr M).
  Notation lift_uniq_pr := (lift_uniq_pr M).
  Notation bin_uniq_pr := (bin_uniq_pr M).
  Notation un_uniq_pr := (un_uniq_pr M).
  Notation const_uniq_pr := (const_uniq_pr M).

  Definition ids_pr (a : arena) (l : list nat) : Prop := Forall (lp a) l.

  Lemma ids_pr_extends a a' l : arena_wf a -> extends a a' -> ids_pr a l -> ids_pr a' l.
  Proof. intros Hwf He. apply Forall_impl. intros j. apply lp_extends; assumption. Qed.

  Lemma fold_bin_pr op : args op = Some 2 -> forall g st x,
    st_pr st -> lp (st_arena st) x -> ids_pr (st_arena st) g ->
    orp (st_arena st)
      (fold_left (fun (acc : ost * nat) b =>
                    lift_uniq O (fst acc) (mk_bin O (st_arena (fst acc)) op (snd acc) b))
                 g (st, x)).
  Proof.
    intros Hop. induction g as [|b g IH]; intros st x Hst Hx Hg.
    - cbn [fold_left]. split; [exact Hst|]. cbn [fst snd]. split; [apply extends_refl | exact Hx].
    - cbn [fold_left fst snd]. inversion Hg as [|b' g' Hb Hg']; subst.
      pose proof (bin_uniq_pr st op x b Hst Hx Hb Hop) as H1.
      destruct (lift_uniq O st (mk_bin O (st_arena st) op x b)) as [st1 t1].
      destruct H1 as (Hst1 & He1 & Ht1); cbn [fst snd] in *.
      eapply orp_trans; [exact He1|]. apply IH; auto.
      eapply ids_pr_extends; eauto. apply Hst.
  Qed.

  Lemma fold_comm_pr st op l : st_pr st -> args op = Some 2 -> ids_pr (st_arena st) l -> l <> [] ->
    orp (st_arena st) (fold_comm O st op l).
  Proof.
    intros Hst Hop Hl Hne. unfold fold_comm.
    pose proof (isort_permP Nat.ltb l) as Hp.
    set (s := isort Nat.ltb l) in *.
    set (s' := if is_idempotent op then dedup_adjacent s else s).
    assert (Hs : ids_pr (st_arena st) s)
      by (eapply Permutation_Forall; [apply Permutation_sym; exact Hp | exact Hl]).
    assert (Hs' : ids_pr (st_arena st) s').
    { unfold s'. destruct (is_idempotent op); [apply dedup_Forall|]; exact Hs. }
    assert (Hne' : s' <> []).
    { unfold s'. intros E. assert (Es : s = []).
      { destruct (is_idempotent op); [apply dedup_nonemptyP in E|]; exact E. }
      rewrite Es in Hp. apply Permutation_nil in Hp. contradiction. }
    clearbody s'. destruct s' as [|x t]; [congruence|].
    inversion Hs'; subst. apply fold_bin_pr; auto.
  Qed.

  (* affine maps *)
  Definition amap_pr (a : arena) (m : list (nat * num)) : Prop := Forall (fun p => lp a (fst p)) m.

  Lemma amap_pr_extends a a' m : arena_wf a -> extends a a' -> amap_pr a m -> amap_pr a' m.
  Proof. intros Hwf He. apply Forall_impl. intros p. apply lp_extends; assumption. Qed.

  Lemma amap_add_pr a m n s : amap_pr a m -> lp a n -> amap_pr a (amap_add O m n s).
  Proof.
    intros Hm Hn. induction m as [|[n' c] m IH]; cbn [amap_add].
    - constructor; [exact Hn | constructor].
    - inversion Hm as [|p m' Hp Hm']; subst. destruct (Nat.eqb n n').
      + constructor; [exact Hp | exact Hm'].
      + constructor; [exact Hp | apply IH; exact Hm'].
  Qed.

  Lemma one_lp a : arena_wf a -> base_ok O a -> lp a idOne.
  Proof.
    intros Hwf Hb. pose proof (base_ok_len O a Hb).
    assert (Hl : idOne < length a) by (unfold idOne; lia).
    assert (Hg : getn a idOne = NConst (o_one O))
      by (rewrite (base_getn O a idOne Hb) by (unfold idOne; lia); reflexivity).
    split; [exact Hl|]. split.
    - apply hp_leaf; rewrite Hg; [exact I | reflexivity].
    - rewrite (bnd_node a Hwf idOne Hl), Hg. cbn [node_bnd]. lia.
  Qed.

  Lemma add_term_pr st m n s : st_pr st -> amap_pr (st_arena st) m -> lp (st_arena st) n ->
    amap_pr (st_arena st) (add_term O st m n s).
  Proof.
    intros (Hwf & Hb & Hc) Hm Hn. unfold add_term.
    destruct (getn (st_arena st) n); try (apply amap_add_pr; assumption).
    apply amap_add_pr; [assumption | apply one_lp; [exact Hwf | exact Hb]].
  Qed.

  Lemma span_mult_pr a m : forall l g rest, span_mult O m l = (g, rest) ->
    length rest <= length l /\ (amap_pr a l -> ids_pr a g /\ amap_pr a rest).
  Proof.
    induction l as [|[n c] l IH]; intros g rest H; cbn [span_mult] in H.
    - inversion H; subst. split; [lia|]. intros _; split; constructor.
    - destruct (o_eqb O c m).
      + destruct (span_mult O m l) as [g' rest'] eqn:Hs. inversion H; subst.
        destruct (IH g' rest eq_refl) as (H2 & H3). split; [cbn [length]; lia|].
        intros Hl. inversion Hl as [|p l' Hp Hl']; subst. destruct (H3 Hl') as [G1 G2].
        split; [constructor; [exact Hp | exact G1] | exact G2].
      + inversion H; subst. split; [lia|]. intros Hl; split; [constructor | exact Hl].
  Qed.

  Definition scale_termP (st : ost) (t : nat) (m : num) : ost * nat :=
    if o_eqb O m (o_one O) then (st, t)
    else if Nat.eqb t idOne then mk_const_uniq O st m
    else let '(st', cm) := mk_const_uniq O st m in
         lift_uniq O st' (mk_bin O (st_arena st') OP_MUL t cm).

  Lemma scale_term_pr st t m : st_pr st -> lp (st_arena st) t ->
    orp (st_arena st) (scale_termP st t m).
  Proof.
    intros Hst Ht. unfold scale_termP.
    destruct (o_eqb O m (o_one O)).
    - split; [exact Hst|]. cbn [fst snd]. split; [apply extends_refl | exact Ht].
    - destruct (Nat.eqb t idOne); [apply const_uniq_pr; exact Hst|].
      pose proof (const_uniq_pr st m Hst) as H1.
      destruct (mk_const_uniq O st m) as [st' cm].
      destruct H1 as (Hst' & He & Hcm); cbn [fst snd] in *.
      eapply orp_trans; [exact He|]. apply bin_uniq_pr; auto.
      eapply lp_extends; eauto. apply Hst.
  Qed.

  Definition oid_pr (a : arena) (o : option nat) : Prop :=
    match o with Some i => lp a i | None => True end.

  Definition add_outP (st : ost) (out : option nat) (t : nat) : ost * option nat :=
    match out with
    | Some o => let '(s', o') := lift_uniq O st (mk_bin O (st_arena st) OP_ADD o t) in (s', Some o')
    | None => (st, Some t)
    end.

  Definition oorp (a : arena) (res : ost * option nat) : Prop :=
    st_pr (fst res) /\ extends a (st_arena (fst res)) /\ oid_pr (st_arena (fst res)) (snd res).

  Lemma add_out_pr st out t : st_pr st -> oid_pr (st_arena st) out -> lp (st_arena st) t ->
    oorp (st_arena st) (add_outP st out t).
  Proof.
    intros Hst Ho Ht. unfold add_outP. destruct out as [o|]; cbn [oid_pr] in *.
    - pose proof (bin_uniq_pr st OP_ADD o t Hst Ho Ht eq_refl) as H1.
      destruct (lift_uniq O st (mk_bin O (st_arena st) OP_ADD o t)) as [s' o'].
      destruct H1 as (H1 & H2 & H3); cbn [fst snd] in *.
      split; [exact H1|]. cbn [fst snd oid_pr]. split; [exact H2 | exact H3].
    - split; [exact Hst|]. cbn [fst snd oid_pr]. split; [apply extends_refl | exact Ht].
  Qed.

  Lemma collapse_SP f st n m t out :
    collapse O (S f) st ((n, m) :: t) out =
    let (g, rest) := span_mult O m t in
    let '(st1, t1) :=
      fold_left (fun (acc : ost * nat) b =>
                   lift_uniq O (fst acc) (mk_bin O (st_arena (fst acc)) OP_ADD (snd acc) b))
                g (st, n) in
    let '(st2, t2) := scale_termP st1 t1 m in
    let '(st3, o3) := add_outP st2 out t2 in
    collapse O f st3 rest o3.
  Proof. reflexivity. Qed.

  Lemma collapse_pr : forall fuel st l out,
    st_pr st -> amap_pr (st_arena st) l -> oid_pr (st_arena st) out -> length l <= fuel ->
    oorp (st_arena st) (collapse O fuel st l out).
  Proof.
    induction fuel as [|fuel IH]; intros st l out Hst Hl Ho Hlen.
    - cbn [collapse]. split; [exact Hst|]. cbn [fst snd]. split; [apply extends_refl | exact Ho].
    - destruct l as [|[n m] t].
      + cbn [collapse]. split; [exact Hst|]. cbn [fst snd]. split; [apply extends_refl | exact Ho].
      + rewrite collapse_SP. inversion Hl as [|p t' Hn Ht]; subst; cbn [fst] in Hn.
        destruct (span_mult O m t) as [g rest] eqn:Hsp.
        destruct (span_mult_pr (st_arena st) m t g rest Hsp) as (Hlr & Hok).
        destruct (Hok Ht) as [Hg Hrest].
        pose proof (fold_bin_pr OP_ADD eq_refl g st n Hst Hn Hg) as H1.
        destruct (fold_left _ g (st, n)) as [st1 t1].
        destruct H1 as (Hst1 & He1 & Ht1); cbn [fst snd] in *.
        pose proof (scale_term_pr st1 t1 m Hst1 Ht1) as H2.
        destruct (scale_termP st1 t1 m) as [st2 t2].
        destruct H2 as (Hst2 & He2 & Ht2); cbn [fst snd] in *.
        assert (He02 : extends (st_arena st) (st_arena st2)) by (eapply extends_trans; eauto).
        assert (Ho2 : oid_pr (st_arena st2) out).
        { destruct out; cbn [oid_pr] in *; [|exact I]. eapply lp_extends; eauto. apply Hst. }
        pose proof (add_out_pr st2 out t2 Hst2 Ho2 Ht2) as H3.
        destruct (add_outP st2 out t2) as [st3 o3].
        destruct H3 as (Hst3 & He3 & Ho3); cbn [fst snd] in *.
        assert (He03 : extends (st_arena st) (st_arena st3)) by (eapply extends_trans; eauto).
        assert (Hrest3 : amap_pr (st_arena st3) rest)
          by (eapply amap_pr_extends; eauto; apply Hst).
        cbn [length] in Hlen.
        pose proof (IH st3 rest o3 Hst3 Hrest3 Ho3 ltac:(lia)) as H4.
        destruct H4 as (Hst4 & He4 & Ho4).
        split; [exact Hst4|]. split; [eapply extends_trans; eauto | exact Ho4].
  Qed.

  Lemma collapse_side_pr st l : st_pr st -> amap_pr (st_arena st) l ->
    orp (st_arena st) (collapse_side O st l).
  Proof.
    intros Hst Hl. unfold collapse_side.
    pose proof (collapse_pr (length l) st l None Hst Hl I (le_n _)) as H.
    destruct (collapse O (length l) st l None) as [st1 o].
    destruct H as (H1 & H2 & H3); cbn [fst snd] in *.
    destruct o as [i|]; cbn [oid_pr] in *.
    - split; [exact H1|]. cbn [fst snd]. split; [exact H2 | exact H3].
    - eapply orp_trans; [exact H2|]. apply const_uniq_pr; exact H1.
  Qed.

  Lemma amap_pr_filter a P (m : list (nat * num)) : amap_pr a m -> amap_pr a (filter P m).
  Proof.
    unfold amap_pr. rewrite !Forall_forall. intros H p Hp. apply filter_In in Hp. apply H, Hp.
  Qed.

  Lemma amap_pr_map a (g : num -> num) (m : list (nat * num)) : amap_pr a m ->
    amap_pr a (map (fun p => (fst p, g (snd p))) m).
  Proof.
    unfold amap_pr. rewrite !Forall_forall. intros H p Hp. apply in_map_iff in Hp.
    destruct Hp as (q & <- & Hq). cbn [fst]. apply H, Hq.
  Qed.

  Lemma rebuild_affine_pr st m : st_pr st -> amap_pr (st_arena st) m ->
    orp (st_arena st) (rebuild_affine O st m).
  Proof.
    intros Hst Hm. unfold rebuild_affine.
    match goal with
    | |- context [isort (term_lt O) (filter ?P m)] => set (pos := filter P m)
    end.
    match goal with
    | |- context [isort (term_lt O) (map ?g (filter ?P m))] => set (neg := map g (filter P m))
    end.
    assert (Hpos : amap_pr (st_arena st) pos) by (apply amap_pr_filter; exact Hm).
    assert (Hneg : amap_pr (st_arena st) neg)
      by (apply (amap_pr_map _ (o_neg O)), amap_pr_filter; exact Hm).
    pose proof (isort_permP (term_lt O) pos) as Pp. pose proof (isort_permP (term_lt O) neg) as Pn.
    set (spos := isort (term_lt O) pos) in *. set (sneg := isort (term_lt O) neg) in *.
    assert (Hspos : amap_pr (st_arena st) spos)
      by (eapply Permutation_Forall; [apply Permutation_sym; exact Pp | exact Hpos]).
    assert (Hsneg : amap_pr (st_arena st) sneg)
      by (eapply Permutation_Forall; [apply Permutation_sym; exact Pn | exact Hneg]).
    pose proof (collapse_side_pr st spos Hst Hspos) as H1.
    destruct (collapse_side O st spos) as [st1 p].
    destruct H1 as (Hst1 & He1 & Hp); cbn [fst snd] in *.
    pose proof (collapse_side_pr st1 sneg Hst1
                  (amap_pr_extends _ _ _ (st_pr_wf st Hst) He1 Hsneg)) as H2.
    destruct (collapse_side O st1 sneg) as [st2 n].
    destruct H2 as (Hst2 & He2 & Hn); cbn [fst snd] in *.
    eapply orp_trans; [eapply extends_trans; eauto|].
    apply bin_uniq_pr; auto. eapply lp_extends; eauto. apply Hst1.
  Qed.

  (* ---------------------------------------------------------------- *)
  (* the children [classify] hands out are children of the node *)
  Lemma classify_kids (a : arena) i :
    match classify a i with
    | CAffNeg x => In x (kids (getn a i))
    | CAffAdd x y | CAffSub x y => In x (kids (getn a i)) /\ In y (kids (getn a i))
    | CAffMulL _ y => In y (kids (getn a i))
    | CAffMulR x _ | CAffDiv x _ => In x (kids (getn a i))
    | CComm op x y => args op = Some 2 /\ In x (kids (getn a i)) /\ In y (kids (getn a i))
    | COther => True
    end.
  Proof.
    unfold classify.
    destruct (getn a i) as [c|o|o x|o x y|k|x y z u|x y z t|v e t|]; try exact I.
    - destruct o; try exact I. simpl; auto.
    - destruct o; try exact I; try (simpl; auto; fail).
      + destruct (getn a x); try (simpl; auto; fail);
          destruct (getn a y); simpl; auto.
      + destruct (getn a y); try exact I. simpl; auto.
  Qed.

  (* [coord]: Tree::optimized_helper on a component of a transformed oracle; its result
     is admissible, within the bound of the component it was given, in an extended
     arena, with the state invariant (out-of-fuel flag included) preserved *)
  Variable coord : ost -> nat -> ost * nat.
  Hypothesis coord_pr : forall st c, st_pr st -> c < length (st_arena st) -> cp (st_arena st) c ->
    st_pr (fst (coord st c)) /\ extends (st_arena st) (st_arena (fst (coord st c))) /\
    snd (coord st c) < length (st_arena (fst (coord st c))) /\
    hp (st_arena (fst (coord st c))) (snd (coord st c)) /\
    bnd_of (st_arena (fst (coord st c))) (snd (coord st c)) <= bnd_of (st_arena st) c /\
    (plain_at (st_arena st) c -> snd (coord st c) = c).
  Notation opt_tree := (opt_tree O coord).
  Notation opt_other := (opt_other O coord).
  Notation opt_affine := (opt_affine O coord).
  Notation opt_comm := (opt_comm O coord).

  (* unfolding equations *)
  Lemma opt_tree_SP f st i :
    opt_tree (S f) st i =
    match classify (st_arena st) i with
    | CAffNeg _ | CAffAdd _ _ | CAffSub _ _ | CAffMulL _ _ | CAffMulR _ _ | CAffDiv _ _ =>
        let '(st1, m) := opt_affine f st (o_one O) i [] in
        rebuild_affine O st1 m
    | CComm op _ _ =>
        let '(st1, l) := opt_comm f st op i [] in
        fold_comm O st1 op l
    | COther => opt_other f st i
    end.
  Proof. reflexivity. Qed.

  Lemma opt_other_SP f st i :
    opt_other (S f) st i =
    match getn (st_arena st) i with
    | NUnary op x =>
        let '(st1, x') := opt_tree f st x in
        let '(st2, self) := uniq O st1 i in
        if Nat.eqb x' x then (st2, self)
        else lift_uniq O st2 (mk_unary O (st_arena st2) op x')
    | NBinary op x y =>
        let '(st1, y') := opt_tree f st y in
        let '(st2, x') := opt_tree f st1 x in
        let '(st3, self) := uniq O st2 i in
        if Nat.eqb x' x && Nat.eqb y' y then (st3, self)
        else lift_uniq O st3 (mk_bin O (st_arena st3) op x' y')
    | NOracleT x y z u =>
        let '(st0, self) := uniq O st i in
        let '(st1, u') := coord st0 u in
        let '(st2, x') := coord st1 x in
        let '(st3, y') := coord st2 y in
        let '(st4, z') := coord st3 z in
        lift_uniq O st4 (push (st_arena st4) (NOracleT x' y' z' u'))
    | _ => uniq O st i
    end.
  Proof. reflexivity. Qed.

  Lemma opt_affine_SP f st s i m :
    opt_affine (S f) st s i m =
    match classify (st_arena st) i with
    | CAffNeg x => opt_affine f st (o_neg O s) x m
    | CAffAdd x y =>
        let '(st1, m1) := opt_affine f st s y m in
        opt_affine f st1 s x m1
    | CAffSub x y =>
        let '(st1, m1) := opt_affine f st (o_neg O s) y m in
        opt_affine f st1 s x m1
    | CAffMulL c y => opt_affine f st (o_mul O c s) y m
    | CAffMulR x c => opt_affine f st (o_mul O c s) x m
    | CAffDiv x c => opt_affine f st (o_div O s c) x m
    | CComm op _ _ =>
        let '(st1, l) := opt_comm f st op i [] in
        let '(st2, n) := fold_comm O st1 op l in
        (st2, add_term O st2 m n s)
    | COther =>
        let '(st1, n) := opt_other f st i in
        (st1, add_term O st1 m n s)
    end.
  Proof. reflexivity. Qed.

  Lemma opt_comm_SP f st op i l :
    opt_comm (S f) st op i l =
    match classify (st_arena st) i with
    | CComm op' x y =>
        if opcode_eqb op' op then
          let '(st1, l1) := opt_comm f st op y l in
          opt_comm f st1 op x l1
        else
          let '(st1, n) := opt_tree f st i in (st1, l ++ [n])
    | _ =>
        let '(st1, n) := opt_tree f st i in (st1, l ++ [n])
    end.
  Proof. reflexivity. Qed.

  (* a plain oracle is returned as it is *)
  Lemma key_uniq_plain (a : arena) i j k : getn a i = NOracle k ->
    key_eqb O (key_of O a i) (key_of O a j) = true -> j = i.
  Proof.
    intros Hn. unfold key_of. rewrite Hn.
    destruct (getn a j) as [c'|o'|o' x'|o' x' y'|g'|x' y' z' u'|x' y' z' t'|v' e' t'|];
      try (destruct (o_isnan O c')); try (destruct o'); cbn [key_eqb]; intros Hk;
      try discriminate Hk; apply Nat.eqb_eq in Hk; symmetry; exact Hk.
  Qed.

  Lemma uniq_plain st c : st_pr st -> plain_at (st_arena st) c -> snd (uniq O st c) = c.
  Proof.
    intros (Hwf & Hb & Hc & Ho) [k Hk]. unfold uniq.
    destruct (canon_find O (st_canon st) (key_of O (st_arena st) c)) as [j|] eqn:Hf; [|reflexivity].
    destruct (canon_find_in _ _ _ Hf) as (k' & Hin & Hke).
    unfold canon_pr in Hc. rewrite Forall_forall in Hc.
    destruct (Hc _ Hin) as (_ & _ & Hkj). cbn [fst snd] in *. subst k'.
    apply (key_uniq_plain _ c j k Hk Hke).
  Qed.

  Lemma opt_tree_plain f st c : plain_at (st_arena st) c ->
    opt_tree (S (S f)) st c = uniq O st c.
  Proof.
    intros [k Hk]. rewrite opt_tree_SP. unfold classify. rewrite Hk.
    rewrite opt_other_SP, Hk. reflexivity.
  Qed.

  (* the four invariants *)
  Definition arp (a : arena) (res : ost * list (nat * num)) : Prop :=
    st_pr (fst res) /\ extends a (st_arena (fst res)) /\ amap_pr (st_arena (fst res)) (snd res).

  Definition crp (a : arena) (l : list nat) (res : ost * list nat) : Prop :=
    st_pr (fst res) /\ extends a (st_arena (fst res)) /\
    exists l2, snd res = l ++ l2 /\ l2 <> [] /\ ids_pr (st_arena (fst res)) l2.

  Definition cfuel (fuel : nat) (op : opcode) (a : arena) (i : nat) : Prop :=
    ((exists x y, classify a i = CComm op x y) /\ 4 * i + 1 <= fuel) \/ 4 * i + 4 <= fuel.

  Definition Q_tree (fuel : nat) : Prop := forall st i,
    st_pr st -> lpt (st_arena st) i -> 4 * i + 3 <= fuel ->
    orp (st_arena st) (opt_tree fuel st i).
  Definition Q_other (fuel : nat) : Prop := forall st i,
    st_pr st -> lpt (st_arena st) i -> 4 * i + 1 <= fuel ->
    orp (st_arena st) (opt_other fuel st i).
  Definition Q_aff (fuel : nat) : Prop := forall st s i m,
    st_pr st -> lpt (st_arena st) i -> amap_pr (st_arena st) m -> 4 * i + 2 <= fuel ->
    arp (st_arena st) (opt_affine fuel st s i m).
  Definition Q_comm (fuel : nat) : Prop := forall st op i l,
    st_pr st -> lpt (st_arena st) i -> args op = Some 2 -> cfuel fuel op (st_arena st) i ->
    crp (st_arena st) l (opt_comm fuel st op i l).

  Lemma arp_trans a a1 res : extends a a1 -> arp a1 res -> arp a res.
  Proof. intros He (H1 & H2 & H3). split; [exact H1|]. split; [eapply extends_trans; eauto | exact H3]. Qed.

  Lemma aff_then_rebuild_pr f st i : Q_aff f -> st_pr st -> lpt (st_arena st) i -> 4 * i + 2 <= f ->
    orp (st_arena st)
      (let '(st1, m) := opt_affine f st (o_one O) i [] in rebuild_affine O st1 m).
  Proof.
    intros QA Hst Hi Hf. pose proof (QA st (o_one O) i [] Hst Hi (Forall_nil _) Hf) as H1.
    destruct (opt_affine f st (o_one O) i []) as [st1 m].
    destruct H1 as (Hst1 & He1 & Hm); cbn [fst snd] in *.
    eapply orp_trans; [exact He1|]. apply rebuild_affine_pr; assumption.
  Qed.

  Lemma comm_then_fold_pr f st op i x y : Q_comm f -> st_pr st -> lpt (st_arena st) i ->
    classify (st_arena st) i = CComm op x y -> args op = Some 2 -> 4 * i + 1 <= f ->
    orp (st_arena st) (let '(st1, l) := opt_comm f st op i [] in fold_comm O st1 op l).
  Proof.
    intros QC Hst Hi Ec Hop Hf.
    assert (Hcf : cfuel f op (st_arena st) i) by (left; split; [exists x, y; exact Ec | exact Hf]).
    pose proof (QC st op i [] Hst Hi Hop Hcf) as H1.
    destruct (opt_comm f st op i []) as [st1 l].
    destruct H1 as (Hst1 & He1 & l2 & Hl & Hne & Hids); cbn [fst snd app] in *. subst l.
    eapply orp_trans; [exact He1|]. apply fold_comm_pr; assumption.
  Qed.

  Lemma tree_step_pr f : Q_aff f -> Q_comm f -> Q_other f -> Q_tree (S f).
  Proof.
    intros QA QC QO st i Hst Hi Hf. rewrite opt_tree_SP.
    pose proof (classify_kids (st_arena st) i) as Hc. revert Hc.
    destruct (classify (st_arena st) i) as [x|x y|x y|c y|x c|x c|op x y|] eqn:Ec; intros Hc;
      try (apply aff_then_rebuild_pr; [exact QA | exact Hst | exact Hi | lia]).
    - destruct Hc as (Hop & _). eapply comm_then_fold_pr; eauto. lia.
    - apply QO; auto. lia.
  Qed.

  (* pushing a transformed oracle over admissible components *)
  Lemma oracleT_rph a x y z u bx by_ bz bu : arena_wf a -> ob = true -> plain_at a u ->
    lph bx a x -> lph by_ a y -> lph bz a z -> lph bu a u ->
    S (Nat.max (Nat.max bx by_) bz) <= M ->
    rph M a (push a (NOracleT x y z u)).
  Proof.
    intros Hwf Hb Hpl (Hx & Px & Bx) (Hy & Py & By) (Hz & Pz & Bz) (Hu & Pu & Bu) HM.
    apply rph_of.
    - apply (grp_push_node okids oshape okids_wf oshape_ext); [exact Hwf | cbn [node_wf]; auto | |].
      + cbn [oshape]. split; [exact Hb|]. apply (plain_extends a); [apply gext_snoc | exact Hu | exact Hpl].
      + intros k [<-|[<-|[<-|[<-|[]]]]]; assumption.
    - apply bres_push. cbn [node_bnd]. unfold bnd_of in Bx, By, Bz. lia.
  Qed.

  Lemma other_step_pr f : Q_tree f -> Q_other (S f).
  Proof.
    intros QT st i Hst Hi Hf. rewrite opt_other_SP.
    pose proof (st_pr_wf st Hst) as Hwf.
    pose proof (kid_lpt (st_arena st) i) as Hk.
    pose proof Hi as (Hil & Htp & Hbi).
    pose proof (tp_shape _ _ Htp) as Hsh.
    pose proof (arena_wf_nth _ i Hwf Hil) as Hnw.
    destruct (getn (st_arena st) i) as [c|o0|o0 x|o0 x y|k|x y z u|x y z t|v e t|] eqn:Hn;
      try (apply uniq_pr; [exact Hst | apply (lpt_leaf M); [exact Hi | rewrite Hn; reflexivity]]; fail);
      cbn [oshape node_wf] in *; try contradiction.
    - (* unary *)
      destruct (Hk x Hwf Hi (or_introl eq_refl)) as [Hxi Hx].
      destruct Hnw as [_ Hop].
      pose proof (QT st x Hst Hx ltac:(lia)) as H1.
      destruct (opt_tree f st x) as [st1 x'].
      destruct H1 as (Hst1 & He1 & Hx'); cbn [fst snd] in *.
      pose proof (extends_length _ _ He1) as Hl1.
      assert (Hg1 : getn (st_arena st1) i = NUnary o0 x) by (rewrite (extends_getn _ _ i He1 Hil); exact Hn).
      assert (Hs1 : oshape (st_arena st1) i (getn (st_arena st1) i)) by (rewrite Hg1; exact I).
      pose proof (uniq_st st1 i Hst1 ltac:(lia) Hs1) as H2.
      destruct (uniq O st1 i) as [st2 self]. cbn [fst snd] in H2.
      destruct H2 as (Hst2 & E2 & Hself & Hhp).
      eapply orp_trans; [exact He1|].
      destruct (Nat.eqb x' x) eqn:Hxx.
      + apply Nat.eqb_eq in Hxx. subst x'.
        assert (Hpi : hp (st_arena st1) i) by (eapply hp_unary; [exact Hg1 | apply Hx']).
        destruct (Hhp Hpi) as [G1 G2].
        split; [exact Hst2|]. cbn [fst snd]. rewrite E2. split; [apply extends_refl|].
        split; [exact Hself|]. split; [exact G1|].
        rewrite G2, (bnd_extends _ _ i He1 Hil). exact Hbi.
      + pose proof (un_uniq_pr st2 o0 x' Hst2) as H3. rewrite E2 in H3 |- *. apply H3; auto.
    - (* binary *)
      destruct (Hk x Hwf Hi (or_introl eq_refl)) as [Hxi Hx].
      destruct (Hk y Hwf Hi (or_intror (or_introl eq_refl))) as [Hyi Hy].
      destruct Hnw as (_ & _ & Hop).
      pose proof (QT st y Hst Hy ltac:(lia)) as H1.
      destruct (opt_tree f st y) as [st1 y'].
      destruct H1 as (Hst1 & He1 & Hy'); cbn [fst snd] in *.
      pose proof (QT st1 x Hst1 (lpt_extends _ _ x Hwf He1 Hx) ltac:(lia)) as H2.
      destruct (opt_tree f st1 x) as [st2 x'].
      destruct H2 as (Hst2 & He2 & Hx'); cbn [fst snd] in *.
      assert (He02 : extends (st_arena st) (st_arena st2)) by (eapply extends_trans; eauto).
      pose proof (extends_length _ _ He02) as Hl2.
      assert (Hg2 : getn (st_arena st2) i = NBinary o0 x y) by (rewrite (extends_getn _ _ i He02 Hil); exact Hn).
      assert (Hs2 : oshape (st_arena st2) i (getn (st_arena st2) i)) by (rewrite Hg2; exact I).
      pose proof (uniq_st st2 i Hst2 ltac:(lia) Hs2) as H3.
      destruct (uniq O st2 i) as [st3 self]. cbn [fst snd] in H3.
      destruct H3 as (Hst3 & E3 & Hself & Hhp).
      pose proof (lp_extends _ _ y' (st_pr_wf _ Hst1) He2 Hy') as Hy2.
      eapply orp_trans; [exact He02|].
      destruct (Nat.eqb x' x && Nat.eqb y' y) eqn:Hxx.
      + apply andb_true_iff in Hxx. destruct Hxx as [E1 E2'].
        apply Nat.eqb_eq in E1, E2'. subst x' y'.
        assert (Hpi : hp (st_arena st2) i) by (eapply hp_binary; [exact Hg2 | apply Hx' | apply Hy2]).
        destruct (Hhp Hpi) as [G1 G2].
        split; [exact Hst3|]. cbn [fst snd]. rewrite E3. split; [apply extends_refl|].
        split; [exact Hself|]. split; [exact G1|].
        rewrite G2, (bnd_extends _ _ i He02 Hil). exact Hbi.
      + pose proof (bin_uniq_pr st3 o0 x' y' Hst3) as H4. rewrite E3 in H4 |- *. apply H4; auto.
    - (* transformed oracle: the four components go through [coord] *)
      destruct Hnw as (Hxi & Hyi & Hzi & Hui).
      destruct (proj2 Htp i x y z u (greach_root _ _ _) Hn) as (Cx & Cy & Cz & Cu).
      pose proof (bnd_oracleT _ i x y z u Hwf Hil Hn) as Hbn.
      assert (Hs0 : oshape (st_arena st) i (getn (st_arena st) i)) by (rewrite Hn; exact Hsh).
      destruct Hsh as [Hob Hpl].
      pose proof (uniq_st st i Hst Hil Hs0) as H0.
      destruct (uniq O st i) as [st0 self]. cbn [fst snd] in H0.
      destruct H0 as (Hst0 & E0 & _ & _).
      pose proof (coord_pr st0 u Hst0) as H1. rewrite E0 in H1.
      specialize (H1 ltac:(lia) Cu).
      destruct (coord st0 u) as [st1 u']. cbn [fst snd] in H1.
      destruct H1 as (Hst1 & He1 & Hu' & Pu & Bu & Eu). specialize (Eu Hpl). subst u'.
      pose proof (extends_length _ _ He1) as Hl1.
      pose proof (coord_pr st1 x Hst1 ltac:(lia) (cp_ext _ _ x Hwf He1 ltac:(lia) Cx)) as H2.
      destruct (coord st1 x) as [st2 x']. cbn [fst snd] in H2.
      destruct H2 as (Hst2 & He2 & Hx' & Px & Bx & _).
      pose proof (extends_length _ _ He2) as Hl2.
      assert (He02 : extends (st_arena st) (st_arena st2)) by (eapply extends_trans; eauto).
      pose proof (coord_pr st2 y Hst2 ltac:(lia) (cp_ext _ _ y Hwf He02 ltac:(lia) Cy)) as H3.
      destruct (coord st2 y) as [st3 y']. cbn [fst snd] in H3.
      destruct H3 as (Hst3 & He3 & Hy' & Py & By & _).
      pose proof (extends_length _ _ He3) as Hl3.
      assert (He03 : extends (st_arena st) (st_arena st3)) by (eapply extends_trans; eauto).
      pose proof (coord_pr st3 z Hst3 ltac:(lia) (cp_ext _ _ z Hwf He03 ltac:(lia) Cz)) as H4.
      destruct (coord st3 z) as [st4 z']. cbn [fst snd] in H4.
      destruct H4 as (Hst4 & He4 & Hz' & Pz & Bz & _).
      pose proof (extends_length _ _ He4) as Hl4.
      assert (He04 : extends (st_arena st) (st_arena st4)) by (eapply extends_trans; eauto).
      assert (He14 : extends (st_arena st1) (st_arena st4))
        by (eapply extends_trans; [|exact He4]; eapply extends_trans; eauto).
      assert (He24 : extends (st_arena st2) (st_arena st4)) by (eapply extends_trans; eauto).
      rewrite (bnd_extends _ _ x He1) in Bx by lia.
      rewrite (bnd_extends _ _ y He02) in By by lia.
      rewrite (bnd_extends _ _ z He03) in Bz by lia.
      eapply orp_trans; [exact He04|].
      apply lift_uniq_pr; [exact Hst4|].
      apply (oracleT_rph _ x' y' z' u (bnd_of (st_arena st) x) (bnd_of (st_arena st) y)
                         (bnd_of (st_arena st) z) (bnd_of (st_arena st) u));
        [apply Hst4 | exact Hob | apply (plain_extends (st_arena st)); [exact He04 | lia | exact Hpl]
         | | | | | lia].
      + apply (lph_extends _ (st_arena st2)); [apply Hst2 | exact He24|]. repeat split; assumption.
      + apply (lph_extends _ (st_arena st3)); [apply Hst3 | exact He4|]. repeat split; assumption.
      + repeat split; assumption.
      + apply (lph_extends _ (st_arena st1)); [apply Hst1 | exact He14|]. repeat split; assumption.
  Qed.

  Lemma aff_two_pr f st s1 s2 x y m : Q_aff f -> st_pr st ->
    lpt (st_arena st) x -> lpt (st_arena st) y -> amap_pr (st_arena st) m ->
    4 * x + 2 <= f -> 4 * y + 2 <= f ->
    arp (st_arena st) (let '(st1, m1) := opt_affine f st s2 y m in opt_affine f st1 s1 x m1).
  Proof.
    intros QA Hst Hx Hy Hm Hfx Hfy.
    pose proof (QA st s2 y m Hst Hy Hm Hfy) as H1.
    destruct (opt_affine f st s2 y m) as [st1 m1].
    destruct H1 as (Hst1 & He1 & Hm1); cbn [fst snd] in *.
    eapply arp_trans; [exact He1|]. apply QA; auto.
    exact (lpt_extends _ _ x (st_pr_wf _ Hst) He1 Hx).
  Qed.

  Lemma aff_step_pr f : Q_aff f -> Q_comm f -> Q_other f -> Q_aff (S f).
  Proof.
    intros QA QC QO st s i m Hst Hi Hm Hf. rewrite opt_affine_SP.
    pose proof (st_pr_wf st Hst) as Hwf.
    pose proof (kid_lpt (st_arena st) i) as Hk.
    pose proof (classify_kids (st_arena st) i) as Hc. revert Hc.
    destruct (classify (st_arena st) i) as [x|x y|x y|c y|x c|x c|op x y|] eqn:Ec; intros Hc.
    - destruct (Hk x Hwf Hi Hc). apply QA; auto; lia.
    - destruct Hc as [Hx Hy]. destruct (Hk x Hwf Hi Hx). destruct (Hk y Hwf Hi Hy).
      apply aff_two_pr; auto; lia.
    - destruct Hc as [Hx Hy]. destruct (Hk x Hwf Hi Hx). destruct (Hk y Hwf Hi Hy).
      apply aff_two_pr; auto; lia.
    - destruct (Hk y Hwf Hi Hc). apply QA; auto; lia.
    - destruct (Hk x Hwf Hi Hc). apply QA; auto; lia.
    - destruct (Hk x Hwf Hi Hc). apply QA; auto; lia.
    - destruct Hc as (Hop & _).
      pose proof (comm_then_fold_pr f st op i x y QC Hst Hi Ec Hop ltac:(lia)) as H1.
      destruct (opt_comm f st op i []) as [st1 l].
      destruct (fold_comm O st1 op l) as [st2 n].
      destruct H1 as (Hst2 & He2 & Hn); cbn [fst snd] in *.
      split; [exact Hst2|]. cbn [fst snd]. split; [exact He2|].
      apply add_term_pr; auto. exact (amap_pr_extends _ _ m Hwf He2 Hm).
    - pose proof (QO st i Hst Hi ltac:(lia)) as H1.
      destruct (opt_other f st i) as [st1 n].
      destruct H1 as (Hst1 & He1 & Hn); cbn [fst snd] in *.
      split; [exact Hst1|]. cbn [fst snd]. split; [exact He1|].
      apply add_term_pr; auto. exact (amap_pr_extends _ _ m Hwf He1 Hm).
  Qed.

  Lemma comm_leaf_pr f st i l : Q_tree f -> st_pr st -> lpt (st_arena st) i -> 4 * i + 3 <= f ->
    crp (st_arena st) l (let '(st1, n) := opt_tree f st i in (st1, l ++ [n])).
  Proof.
    intros QT Hst Hi Hf. pose proof (QT st i Hst Hi Hf) as H1.
    destruct (opt_tree f st i) as [st1 n].
    destruct H1 as (Hst1 & He1 & Hn); cbn [fst snd] in *.
    split; [exact Hst1|]. cbn [fst snd]. split; [exact He1|].
    exists [n]. split; [reflexivity|]. split; [discriminate|]. constructor; [exact Hn | constructor].
  Qed.

  Lemma comm_step_pr f : Q_tree f -> Q_comm f -> Q_comm (S f).
  Proof.
    intros QT QC st op i l Hst Hi Hop Hcf. rewrite opt_comm_SP.
    pose proof (st_pr_wf st Hst) as Hwf.
    pose proof (kid_lpt (st_arena st) i) as Hk.
    pose proof (classify_kids (st_arena st) i) as Hc. revert Hc.
    assert (Hleaf : (forall x y, classify (st_arena st) i <> CComm op x y) ->
                    crp (st_arena st) l (let '(st1, n) := opt_tree f st i in (st1, l ++ [n]))).
    { intros Hne. apply comm_leaf_pr; auto. destruct Hcf as [[(x & y & E) _]|H]; [|lia].
      exfalso; eapply Hne; eauto. }
    destruct (classify (st_arena st) i) as [x|x y|x y|c y|x c|x c|op' x y|] eqn:Ec; intros Hc;
      try (apply Hleaf; intros; discriminate).
    destruct (opcode_eqb op' op) eqn:Eo.
    - apply opcode_eqb_eq in Eo; subst op'.
      destruct Hc as (_ & Hx & Hy).
      destruct (Hk x Hwf Hi Hx) as [Hxi Hxp]. destruct (Hk y Hwf Hi Hy) as [Hyi Hyp].
      assert (Hf : 4 * i <= f) by (destruct Hcf as [[_ H]|H]; lia).
      assert (Hcy : cfuel f op (st_arena st) y) by (right; lia).
      pose proof (QC st op y l Hst Hyp Hop Hcy) as H1.
      destruct (opt_comm f st op y l) as [st1 l1].
      destruct H1 as (Hst1 & He1 & ly & Hl1 & Hney & Hidy); cbn [fst snd] in *.
      assert (Hcx : cfuel f op (st_arena st1) x) by (right; lia).
      pose proof (QC st1 op x l1 Hst1 (lpt_extends _ _ x Hwf He1 Hxp) Hop Hcx) as H2.
      destruct (opt_comm f st1 op x l1) as [st2 l2'].
      destruct H2 as (Hst2 & He2 & lx & Hl2 & Hnex & Hidx); cbn [fst snd] in *.
      split; [exact Hst2|]. cbn [fst snd]. split; [eapply extends_trans; eauto|].
      exists (ly ++ lx). split; [subst; rewrite app_assoc; reflexivity|].
      split; [intros E; apply app_eq_nil in E; destruct E; contradiction|].
      apply Forall_app; split; [|exact Hidx].
      exact (ids_pr_extends _ _ ly (st_pr_wf _ Hst1) He2 Hidy).
    - apply Hleaf. intros x0 y0 E. inversion E; subst. rewrite opcode_eqb_refl in Eo. discriminate.
  Qed.

  Theorem opt_all_pr : forall fuel, Q_tree fuel /\ Q_other fuel /\ Q_aff fuel /\ Q_comm fuel.
  Proof.
    induction fuel as [|f (QT & QO & QA & QC)].
    - split; [|split; [|split]].
      + intros st i _ _ H; lia.
      + intros st i _ _ H; lia.
      + intros st s i m _ _ _ H; lia.
      + intros st op i l _ _ _ [[_ H]|H]; lia.
    - split; [|split; [|split]].
      + apply tree_step_pr; assumption.
      + apply other_step_pr; assumption.
      + apply aff_step_pr; assumption.
      + apply comm_step_pr; assumption.
  Qed.

  Theorem opt_tree_pr : forall fuel st i,
    st_pr st -> lpt (st_arena st) i -> 4 * i + 3 <= fuel ->
    orp (st_arena st) (opt_tree fuel st i).
  Proof. intros fuel. apply (opt_all_pr fuel). Qed.
  End WithM.
End OptPure.

(* ------------------------------------------------------------------ *)
(* the oracle-free instance ([b = false]): pure-reaching in, pure-reaching out *)
Section OptPureFree.
  Context {num : Type} (O : ops num).
  Notation node := (node num).
  Notation arena := (arena num).
  Notation ost := (@ost num).

  Lemma pshape_oshape (a : arena) m (n : node) : pshape m n <-> oshape false true a m n.
  Proof.
    destruct n as [c|o|o x|o x y|k|x y z u|x y z t|v e t|]; cbn; try tauto.
    - destruct o; tauto.
    - split; [contradiction | discriminate].
    - split; [contradiction | intros [H _]; discriminate H].
  Qed.

  Lemma pr_kp (a : arena) j : pr a j -> kp false true a j.
  Proof.
    apply (all_ok_change kids kids (fun _ => pshape) (oshape false true)).
    intros a0 m n H. split; [apply pshape_oshape; exact H | apply incl_refl].
  Qed.

  Lemma hp_pr (a : arena) j : hp false true a j -> pr a j.
  Proof.
    apply (all_ok_change okids kids (oshape false true) (fun _ => pshape)).
    intros a0 m n H. split; [apply (pshape_oshape a0); exact H | apply kids_okids].
  Qed.

  (* no transformed oracle is ever met: [coord] is never called *)
  Definition cp0 : arena -> nat -> Prop := fun _ _ => False.

  Lemma pr_tp (a : arena) j : pr a j -> tp false true cp0 a j.
  Proof.
    intros H. split; [apply pr_kp; exact H|].
    intros m x y z u Hm Hn. exfalso.
    pose proof (pr_kp a j H m Hm) as Hs. rewrite Hn in Hs. destruct Hs as [Hs _]. discriminate Hs.
  Qed.

  (* 2. the node returned by opt_tree only reaches plain nodes *)
  Theorem opt_reach_pure : forall coord fuel st i,
    st_pr O false true (st_oof st) st -> i < length (st_arena st) ->
    (forall m, reach (st_arena st) i m -> pure_at (st_arena st) m) ->
    4 * i + 3 <= fuel ->
    let '(st', j) := opt_tree O coord fuel st i in
    st_pr O false true (st_oof st) st' /\ extends (st_arena st) (st_arena st') /\ j < length (st_arena st') /\
    forall m, reach (st_arena st') j m -> pure_at (st_arena st') m.
  Proof.
    intros coord fuel st i Hst Hi Hp Hf.
    assert (Hlp : lpt false true cp0 (bnd_of (st_arena st) i) (st_arena st) i).
    { split; [exact Hi|]. split; [apply pr_tp; apply pr_spec; exact Hp | lia]. }
    pose proof (opt_tree_pr O false true (st_oof st) cp0 (fun _ _ _ _ _ _ H => H)
                  (bnd_of (st_arena st) i) coord
                  (fun st0 c _ _ (F : cp0 (st_arena st0) c) => match F with end)
                  fuel st i Hst Hlp Hf) as H.
    destruct (opt_tree O coord fuel st i) as [st' j].
    destruct H as (H1 & H2 & H3 & H4 & _); cbn [fst snd] in *.
    split; [exact H1|]. split; [exact H2|]. split; [exact H3|]. apply pr_spec. apply hp_pr. exact H4.
  Qed.

  (* Tree::optimized_helper on a state, any [coord] *)
  Lemma helper_with_pr coord st i :
    st_pr O false true (st_oof st) st -> i < length (st_arena st) -> src_ok (st_arena st) i ->
    let res := helper_with O coord st i in
    st_pr O false true (st_oof st) (fst res) /\ extends (st_arena st) (st_arena (fst res)) /\
    lp (st_arena (fst res)) (snd res).
  Proof.
    intros Hst Hi Hs. destruct Hst as (Hwf & Hb & Hc & Ho). unfold helper_with.
    pose proof (flatten_rp O _ i Hwf Hb Hi Hs) as H1.
    destruct (flatten O (st_arena st) i) as [a1 j].
    destruct H1 as (He1 & Hwf1 & Hj & Hp1); cbn [fst snd] in *.
    set (st1 := {| st_arena := a1; st_canon := st_canon st; st_oof := st_oof st |}).
    assert (Hst1 : st_pr O false true (st_oof st) st1).
    { split; [exact Hwf1|]. split; [|split]; cbn [st1 st_arena st_canon st_oof].
      - eapply base_ok_extends; eauto.
      - exact (canon_pr_extends O false true _ _ _ Hwf He1 Hc).
      - reflexivity. }
    assert (Hf : 4 * j + 3 <= opt_fuel j) by (unfold opt_fuel; lia).
    pose proof (opt_reach_pure coord (opt_fuel j) st1 j Hst1 Hj (proj1 (pr_spec a1 j) Hp1) Hf) as H2.
    destruct (opt_tree O coord (opt_fuel j) st1 j) as [st' j'].
    cbn [st1 st_arena st_oof] in H2. destruct H2 as (G1 & G2 & G3 & G4). cbn [fst snd].
    split; [exact G1|]. split; [eapply extends_trans; eauto|].
    split; [exact G3 | apply pr_spec; exact G4].
  Qed.

  Theorem optimized_helper_pr a c i :
    arena_wf a -> base_ok O a -> canon_pr O false true a c -> i < length a -> src_ok a i ->
    let res := optimized_helper O a c i in
    st_pr O false true false (fst res) /\ extends a (st_arena (fst res)) /\
    lp (st_arena (fst res)) (snd res).
  Proof.
    intros Hwf Hb Hc Hi Hs. unfold optimized_helper, optimized_helper_lvl.
    apply (helper_with_pr (coord_lvl O (lvl_fuel a i))
             {| st_arena := a; st_canon := c; st_oof := false |}); auto.
    split; [exact Hwf|]. split; [exact Hb|]. split; [exact Hc | reflexivity].
  Qed.

  (* 3. Tree::optimized *)
  Theorem optimized_reach_pure a i :
    arena_wf a -> base_ok O a -> i < length a -> src_ok a i ->
    let '(a', j) := optimized O a i in forall m, reach a' j m -> pure_at a' m.
  Proof.
    intros Hwf Hb Hi Hs. unfold optimized, optimized_full.
    pose proof (optimized_helper_pr a [] i Hwf Hb (Forall_nil _) Hi Hs) as H.
    destruct (optimized_helper O a [] i) as [st j].
    destruct H as (_ & _ & _ & H); cbn [fst snd] in *. apply pr_spec; exact H.
  Qed.

  (* with the side facts needed to chain with the deck theorem *)
  Theorem optimized_reach_pure_full a i :
    arena_wf a -> base_ok O a -> i < length a -> src_ok a i ->
    let '(a', j) := optimized O a i in
    extends a a' /\ arena_wf a' /\ base_ok O a' /\ j < length a' /\
    forall m, reach a' j m -> pure_at a' m.
  Proof.
    intros Hwf Hb Hi Hs. unfold optimized, optimized_full.
    pose proof (optimized_helper_pr a [] i Hwf Hb (Forall_nil _) Hi Hs) as H.
    destruct (optimized_helper O a [] i) as [st j].
    destruct H as ((H1 & H2 & _) & H3 & H4 & H5); cbn [fst snd] in *.
    split; [exact H3|]. split; [exact H1|]. split; [exact H2|]. split; [exact H4|].
    apply pr_spec; exact H5.
  Qed.

  (* the flag is never raised on oracle-free sources *)
  Theorem optimized_full_flag_src a i :
    arena_wf a -> base_ok O a -> i < length a -> src_ok a i ->
    snd (optimized_full O a i) = false.
  Proof.
    intros Hwf Hb Hi Hs. unfold optimized_full.
    pose proof (optimized_helper_pr a [] i Hwf Hb (Forall_nil _) Hi Hs) as H.
    destruct (optimized_helper O a [] i) as [st j]. cbn [fst snd] in *.
    destruct H as ((_ & _ & _ & Ho) & _). exact Ho.
  Qed.
End OptPureFree.

Print Assumptions flatten_reach_pure.
Print Assumptions opt_reach_pure.
Print Assumptions optimized_reach_pure_full.
