(* Reachability along an arbitrary child function, "every reachable node has a
   given shape" ([all_ok]), and what the smart constructors Tree::unary /
   Tree::binary guarantee for ANY such predicate whose shape admits constants,
   unary and binary nodes (Section Shape): used for the pure-reaching predicate
   of OptimizePure.v, the oracle-allowing variants of OptimizePureO.v and, with
   the trivial shape, for the purely structural facts (extends / well-formed /
   live result). *)
From Coq Require Import List Arith Bool Lia.
From LF Require Import Base.Opcode Base.Num Base.Arena Tree.Build Tree.BuildSem.
Import ListNotations.

(* ------------------------------------------------------------------ *)
(* reachability along an arbitrary child function, and "every reachable
   node has a given shape" *)
Section Reach.
  Context {num : Type}.
  Notation node := (node num).
  Notation arena := (arena num).
  Variable kf : node -> list nat.
  (* the shape of node [m] may mention the OLDER nodes of the arena *)
  Variable shape : arena -> nat -> node -> Prop.
  Hypothesis kf_wf : forall len n k, node_wf len n -> In k (kf n) -> k < len.
  Hypothesis sh_ext : forall a a' m, arena_wf a -> extends a a' -> m < length a ->
    shape a m (getn a m) -> shape a' m (getn a m).

  Inductive greach (a : arena) (root : nat) : nat -> Prop :=
  | greach_root : greach a root root
  | greach_kid n k : greach a root n -> In k (kf (getn a n)) -> greach a root k.

  Definition all_ok (a : arena) (j : nat) : Prop := forall m, greach a j m -> shape a m (getn a m).

  Lemma greach_trans a r n m : greach a r n -> greach a n m -> greach a r m.
  Proof. intros H1 H2; induction H2; [exact H1 | econstructor; eauto]. Qed.

  Lemma greach_inv a r m : greach a r m ->
    m = r \/ exists k, In k (kf (getn a r)) /\ greach a k m.
  Proof.
    induction 1 as [|n k Hn IH Hk]; [left; reflexivity|]. right.
    destruct IH as [->|(k0 & Hk0 & Hr)].
    - exists k; split; [exact Hk | constructor].
    - exists k0; split; [exact Hk0 | econstructor; eauto].
  Qed.

  Lemma all_unfold a j :
    all_ok a j <-> shape a j (getn a j) /\ forall k, In k (kf (getn a j)) -> all_ok a k.
  Proof.
    split.
    - intros H; split; [apply H; constructor|].
      intros k Hk m Hm. apply H. eapply greach_trans; [|exact Hm].
      econstructor; [constructor | exact Hk].
    - intros [H1 H2] m Hm. destruct (greach_inv a j m Hm) as [->|(k & Hk & Hr)]; [exact H1|].
      apply (H2 k Hk); exact Hr.
  Qed.

  Lemma all_kid a j k : all_ok a j -> In k (kf (getn a j)) -> all_ok a k.
  Proof. intros H; apply (proj1 (all_unfold a j) H). Qed.

  Lemma greach_le (a : arena) j m : arena_wf a -> j < length a -> greach a j m -> m <= j.
  Proof.
    intros Hwf Hj. induction 1 as [|n k Hn IH Hk]; [lia|].
    pose proof (kf_wf n (getn a n) k (arena_wf_nth a n Hwf ltac:(lia)) Hk). lia.
  Qed.

  Lemma greach_ext (a a' : arena) j m : arena_wf a -> extends a a' -> j < length a ->
    greach a' j m -> greach a j m.
  Proof.
    intros Hwf He Hj. induction 1 as [|n k Hn IH Hk]; [constructor|].
    pose proof (greach_le a j n Hwf Hj IH).
    rewrite (extends_getn a a' n He) in Hk by lia. econstructor; eauto.
  Qed.

  Lemma all_extends a a' : arena_wf a -> extends a a' ->
    forall j, j < length a -> all_ok a j -> all_ok a' j.
  Proof.
    intros Hwf He j Hj H m Hm.
    pose proof (greach_ext a a' j m Hwf He Hj Hm) as Hm'.
    pose proof (greach_le a j m Hwf Hj Hm') as Hle.
    rewrite (extends_getn a a' m He) by lia. apply sh_ext; [exact Hwf | exact He | lia|]. apply H; exact Hm'.
  Qed.

  Lemma greach_ext_fwd (a a' : arena) j m : arena_wf a -> extends a a' -> j < length a ->
    greach a j m -> greach a' j m.
  Proof.
    intros Hwf He Hj. induction 1 as [|n k Hn IH Hk]; [constructor|].
    pose proof (greach_le a j n Hwf Hj Hn).
    econstructor; [exact IH|]. rewrite (extends_getn a a' n He) by lia. exact Hk.
  Qed.

  Lemma all_extends_inv
        (sh_inv : forall a a' m, arena_wf a -> extends a a' -> m < length a ->
                    shape a' m (getn a m) -> shape a m (getn a m)) a a' :
    arena_wf a -> extends a a' -> forall j, j < length a -> all_ok a' j -> all_ok a j.
  Proof.
    intros Hwf He j Hj H m Hm.
    pose proof (greach_le a j m Hwf Hj Hm) as Hle.
    apply (sh_inv a a'); [exact Hwf | exact He | lia|].
    rewrite <- (extends_getn a a' m He) by lia. apply H. apply (greach_ext_fwd a a'); assumption.
  Qed.
End Reach.


(* ------------------------------------------------------------------ *)
Section Shape.
  Context {num : Type} (O : ops num).
  Notation node := (node num).
  Notation arena := (arena num).
  Variable kf : node -> list nat.
  Variable shape : arena -> nat -> node -> Prop.
  Hypothesis kf_wf : forall len n k, node_wf len n -> In k (kf n) -> k < len.
  Hypothesis sh_ext : forall a a' m, arena_wf a -> extends a a' -> m < length a ->
    shape a m (getn a m) -> shape a' m (getn a m).
  Hypothesis sh_const : forall a m c, shape a m (NConst c).
  Hypothesis kf_const : forall c, kf (NConst c) = [].
  Hypothesis sh_un : forall a m op x, shape a m (NUnary op x).
  Hypothesis kf_un : forall op x, kf (NUnary op x) = [x].
  Hypothesis sh_bin : forall a m op x y, shape a m (NBinary op x y).
  Hypothesis kf_bin : forall op x y, kf (NBinary op x y) = [x; y].
  Notation ak := (all_ok kf shape).

  Lemma ak_unfold a j : ak a j <-> shape a j (getn a j) /\ forall k, In k (kf (getn a j)) -> ak a k.
  Proof. apply all_unfold. Qed.

  Lemma ak_kid a j k : ak a j -> In k (kf (getn a j)) -> ak a k.
  Proof. apply all_kid. Qed.

  Lemma ak_extends a a' j : arena_wf a -> extends a a' -> j < length a -> ak a j -> ak a' j.
  Proof. intros Hwf He Hj. apply (all_extends kf shape kf_wf sh_ext a a' Hwf He j Hj). Qed.

  Lemma ak_const a j c : getn a j = NConst c -> ak a j.
  Proof. intros H. apply ak_unfold. rewrite H, kf_const. split; [apply sh_const | intros k []]. Qed.

  Lemma ak_unary a j op x : getn a j = NUnary op x -> ak a x -> ak a j.
  Proof.
    intros H Hx. apply ak_unfold. rewrite H, kf_un. split; [apply sh_un|].
    intros k [<-|[]]; exact Hx.
  Qed.

  Lemma ak_binary a j op x y : getn a j = NBinary op x y -> ak a x -> ak a y -> ak a j.
  Proof.
    intros H Hx Hy. apply ak_unfold. rewrite H, kf_bin. split; [apply sh_bin|].
    intros k [<-|[<-|[]]]; assumption.
  Qed.

  (* what every constructor guarantees *)
  Definition grp (a : arena) (res : arena * nat) : Prop :=
    extends a (fst res) /\ arena_wf (fst res) /\ snd res < length (fst res) /\
    ak (fst res) (snd res).

  Lemma grp_same a j : arena_wf a -> j < length a -> ak a j -> grp a (a, j).
  Proof. intros; split; [apply extends_refl|]; cbn [fst snd]; auto. Qed.

  Lemma grp_trans a a1 res : extends a a1 -> grp a1 res -> grp a res.
  Proof.
    intros He (H1 & H2 & H3 & H4). split; [eapply extends_trans; eauto|]. auto.
  Qed.

  Lemma gext_snoc (a : arena) n : extends a (a ++ [n]).
  Proof. exists [n]; reflexivity. Qed.

  Lemma grp_push a n : arena_wf a -> node_wf (length a) n ->
    ak (a ++ [n]) (length a) -> grp a (push a n).
  Proof.
    intros Hwf Hn Hp. unfold push, grp; cbn [fst snd].
    split; [apply gext_snoc|]. split; [apply arena_wf_snoc; auto|].
    split; [rewrite app_length; simpl; lia | exact Hp].
  Qed.

  (* pushing a node of admissible shape over admissible children *)
  Lemma grp_push_node a n : arena_wf a -> node_wf (length a) n -> shape (a ++ [n]) (length a) n ->
    (forall k, In k (kf n) -> ak a k) -> grp a (push a n).
  Proof.
    intros Hwf Hn Hs Hk. apply grp_push; [exact Hwf | exact Hn|].
    apply ak_unfold. rewrite getn_snoc_new. split; [exact Hs|].
    intros k Hin. apply (ak_extends a (a ++ [n])); auto using gext_snoc.
    eapply kf_wf; eauto.
  Qed.

  Lemma grp_push_const a c : arena_wf a -> grp a (push a (NConst c)).
  Proof.
    intros Hwf. apply grp_push; [exact Hwf | exact I|].
    eapply ak_const. apply getn_snoc_new.
  Qed.

  Lemma grp_push_unary a op x : arena_wf a -> x < length a -> args op = Some 1 -> ak a x ->
    grp a (push a (NUnary op x)).
  Proof.
    intros Hwf Hx Hop Hp. apply grp_push; [exact Hwf | split; assumption|].
    eapply ak_unary; [apply getn_snoc_new|]. eapply ak_extends; eauto using gext_snoc.
  Qed.

  Lemma grp_push_binary a op x y : arena_wf a -> x < length a -> y < length a ->
    args op = Some 2 -> ak a x -> ak a y -> grp a (push a (NBinary op x y)).
  Proof.
    intros Hwf Hx Hy Hop Hpx Hpy. apply grp_push; [exact Hwf | repeat split; assumption|].
    eapply ak_binary; [apply getn_snoc_new| |]; eapply ak_extends; eauto using gext_snoc.
  Qed.

  Lemma gkid_lt (a : arena) j k : arena_wf a -> j < length a -> In k (kf (getn a j)) -> k < j.
  Proof. intros Hwf Hj. apply kf_wf. apply arena_wf_nth; assumption. Qed.

  Lemma un_kid (a : arena) l o x : arena_wf a -> l < length a -> getn a l = NUnary o x -> ak a l ->
    x < length a /\ ak a x.
  Proof.
    intros Hwf Hl Hn Hp.
    assert (Hin : In x (kf (getn a l))) by (rewrite Hn, kf_un; left; reflexivity).
    split; [pose proof (gkid_lt a l x Hwf Hl Hin); lia | eapply ak_kid; eauto].
  Qed.

  (* Tree::unary *)
  Lemma unary_grp a op l : arena_wf a -> l < length a -> args op = Some 1 -> ak a l ->
    grp a (mk_unary O a op l).
  Proof.
    intros Hwf Hl Hop Hp. unfold mk_unary. rewrite Hop.
    assert (Hd : grp a (push a (NUnary op l))) by (apply grp_push_unary; assumption).
    assert (Hs : grp a (a, l)) by (apply grp_same; assumption).
    assert (Hk : forall o x, getn a l = NUnary o x -> grp a (a, x)).
    { intros o x Hn. destruct (un_kid a l o x Hwf Hl Hn Hp). apply grp_same; assumption. }
    destruct (getn a l) as [c|o|o x|o x y|k|x' y' z' t'|x y z t|v e t|] eqn:Hn.
    - apply grp_push_const; exact Hwf.
    - destruct op; exact Hd.
    - destruct op; try exact Hd.
      + destruct o; try exact Hd. eapply Hk; reflexivity.
      + destruct o; try exact Hd; exact Hs.
    - destruct op; exact Hd.
    - destruct op; exact Hd.
    - destruct op; exact Hd.
    - destruct op; exact Hd.
    - destruct op; exact Hd.
    - destruct op; exact Hd.
  Qed.

  (* Tree::binary *)
  Lemma binary_grp fuel : forall a op l r,
    arena_wf a -> l < length a -> r < length a -> args op = Some 2 -> ak a l -> ak a r ->
    grp a (mk_binary O fuel a op l r).
  Proof.
    induction fuel as [|fuel IH]; intros a op l r Hwf Hl Hr Hop Hpl Hpr.
    all: assert (Hd : grp a (push a (NBinary op l r))) by (apply grp_push_binary; assumption).
    1: assert (Hrec : forall op' l' r', args op' = Some 2 -> l' < length a -> r' < length a ->
                 ak a l' -> ak a r' -> grp a (push a (NBinary op' l' r')))
         by (intros; apply grp_push_binary; assumption).
    2: assert (Hrec : forall op' l' r', args op' = Some 2 -> l' < length a -> r' < length a ->
                 ak a l' -> ak a r' -> grp a (mk_binary O fuel a op' l' r'))
         by (intros; apply IH; assumption).
    all: assert (Hsl : grp a (a, l)) by (apply grp_same; assumption).
    all: assert (Hsr : grp a (a, r)) by (apply grp_same; assumption).
    all: assert (Hul : forall o, args o = Some 1 -> grp a (mk_unary O a o l))
           by (intros; apply unary_grp; assumption).
    all: assert (Hur : forall o, args o = Some 1 -> grp a (mk_unary O a o r))
           by (intros; apply unary_grp; assumption).
    all: assert (Hkl : forall o x, getn a l = NUnary o x -> x < length a /\ ak a x)
           by (intros o x Hn; exact (un_kid a l o x Hwf Hl Hn Hpl)).
    all: assert (Hkr : forall o x, getn a r = NUnary o x -> x < length a /\ ak a x)
           by (intros o x Hn; exact (un_kid a r o x Hwf Hr Hn Hpr)).
    all: cbn [mk_binary]; rewrite Hop.
    all: destruct (getn a l) as [c1|o1|o1 x1|o1 x1 y1|k1|x1' y1' z1' t1'|x1 y1 z1 t1|v1 e1 t1|] eqn:Hnl;
         destruct (getn a r) as [c2|o2|o2 x2|o2 x2 y2|k2|x2' y2' z2' t2'|x2 y2 z2 t2|v2 e2 t2|] eqn:Hnr.
    all: try (apply grp_push_const; exact Hwf).
    all: destruct op; try discriminate Hop; try exact Hd.
    all: repeat match goal with
         | |- context [if ?c then _ else _] => destruct c eqn:?
         end; try exact Hd; try exact Hsl; try exact Hsr.
    all: try (apply Hul; reflexivity).
    all: try (apply Hur; reflexivity).
    all: try (destruct (Hkl _ _ eq_refl) as [? ?]; apply Hrec; auto; fail).
    all: try (destruct (Hkr _ _ eq_refl) as [? ?]; apply Hrec; auto; fail).
  Qed.

  Transparent mk_bin.
  Corollary bin_grp a op l r :
    arena_wf a -> l < length a -> r < length a -> args op = Some 2 -> ak a l -> ak a r ->
    grp a (mk_bin O a op l r).
  Proof. intros; unfold mk_bin; apply binary_grp; assumption. Qed.
  Opaque mk_bin.
End Shape.

(* two shape predicates: weaker shape, fewer links *)
Section Change.
  Context {num : Type}.
  Notation node := (node num).
  Notation arena := (arena num).
  Variables kf1 kf2 : node -> list nat.
  Variables shape1 shape2 : arena -> nat -> node -> Prop.
  Hypothesis sh12 : forall a m n, shape1 a m n -> shape2 a m n /\ incl (kf2 n) (kf1 n).

  Lemma all_ok_change (a : arena) j : all_ok kf1 shape1 a j -> all_ok kf2 shape2 a j.
  Proof.
    intros H.
    assert (G : forall m, greach kf2 a j m -> greach kf1 a j m).
    { induction 1 as [|n k Hn IH Hk]; [constructor|].
      econstructor; [exact IH|]. apply (proj2 (sh12 a n (getn a n) (H n IH))). exact Hk. }
    intros m Hm. apply (sh12 a m (getn a m)). apply H. apply G. exact Hm.
  Qed.
End Change.
