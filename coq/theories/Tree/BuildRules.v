(* Vocabulary and interpreter of the rule tables that translate/gen_build.py extracts from
   Tree::unary / Tree::binary of libfive/src/tree/tree.cpp (Gen/BuildRules_gen.v).

   A table is the C++ function as data:
     if (G1) B1 else if (G2) B2 ... ; return <final>;
   where a body is either one return or one nested if / else-if chain of PATTERNS
     if (auto v = get_if<T>(side.ptr)) { TESTS } else if ((v = ...)) { TESTS } else if (lhs.id() == rhs.id()) ...
   and TESTS is an if / else-if chain over the bound v (or a bare return).
   The interpreter executes a table with C++ control flow: the first guard that holds owns the
   call; inside it the first pattern that matches owns it; inside that the first test that holds
   returns; a path that returns nothing reaches the final return.  In particular a matched
   pattern whose tests all fail does NOT try the later patterns. *)
From Coq Require Import List Arith Bool.
From LF Require Import Base.Opcode Base.Num Base.Arena Tree.Build.
Import ListNotations.

Inductive side := L | R.
Inductive cst := C0 | C1 | CM1.                       (* the literals 0, 1, -1 *)
Inductive operand := OLhs | ORhs | OInner.            (* lhs, rhs, v->lhs *)
Inductive pat :=
| PConst (s : side)                                   (* v = std::get_if<TreeConstant>(s.ptr) *)
| PUnary (s : side)                                   (* v = std::get_if<TreeUnaryOp>(s.ptr) *)
| PSameId.                                            (* lhs.id() == rhs.id() *)
Inductive test :=
| TValueIs (c : cst)                                  (* v->value == c *)
| TOpIn (os : list opcode)                            (* v->op == o1 || v->op == o2 ... *)
| TTrue.                                              (* body is a bare return *)
Inductive result :=
| RRet (x : operand)                                  (* return x *)
| RUn (o : opcode) (x : operand)                      (* return -x / square(x): Tree::unary(o, x) *)
| RBin (o : opcode) (x y : operand)                   (* return x - y / x + y: Tree::binary(o, x, y) *)
| RFold                                               (* evaluate the constant node, return Tree(value) *)
| RInvalid                                            (* return invalid() *)
| RDefault.                                           (* return Tree(new Data(Tree{Unary,Binary}Op {op, lhs[, rhs]})) *)
Inductive guard :=
| GArityNot (n : nat)                                 (* Opcode::args(op) != n *)
| GConst (s : side)                                   (* std::get_if<TreeConstant>(s.ptr) *)
| GBothConst                                          (* lhs->op() == CONSTANT && rhs->op() == CONSTANT *)
| GOpIn (os : list opcode).                           (* op == o1 || op == o2 ... *)
Inductive body :=
| BRet (r : result)
| BChain (c : list (pat * list (test * result))).
Definition table : Type := list (guard * body) * result.

Section Interp.
  Context {num : Type} (O : ops num).
  Notation node := (node num).
  Notation arena := (arena num).

  Definition pick (s : side) (l r : nat) := match s with L => l | R => r end.
  Definition cst_is (k : cst) (c : num) : bool :=
    match k with C0 => is_zero O c | C1 => is_one O c | CM1 => is_mone O c end.
  Definition is_const_node (n : node) := match n with NConst _ => true | _ => false end.
  Definition cval (n : node) : num := match n with NConst c => c | _ => o_zero O end.

  (* the node bound to v; PSameId binds nothing (NInvalid as a placeholder) *)
  Definition pat_match (a : arena) (l r : nat) (p : pat) : option node :=
    match p with
    | PConst s => match getn a (pick s l r) with NConst c => Some (NConst c) | _ => None end
    | PUnary s => match getn a (pick s l r) with NUnary o x => Some (NUnary o x) | _ => None end
    | PSameId => if Nat.eqb l r then Some NInvalid else None
    end.
  Definition test_holds (v : node) (t : test) : bool :=
    match t, v with
    | TTrue, _ => true
    | TValueIs k, NConst c => cst_is k c
    | TOpIn os, NUnary o _ => existsb (opcode_eqb o) os
    | _, _ => false
    end.
  Definition guard_holds (a : arena) (op : opcode) (l r : nat) (g : guard) : bool :=
    match g with
    | GArityNot n => negb (match args op with Some k => Nat.eqb k n | None => false end)
    | GConst s => is_const_node (getn a (pick s l r))
    | GBothConst => is_const_node (getn a l) && is_const_node (getn a r)
    | GOpIn os => existsb (opcode_eqb op) os
    end.

  Section Engine.
    Variable run : node -> result -> arena * nat.     (* executes one return statement *)
    Variables (a : arena) (op : opcode) (l r : nat).

    Fixpoint run_tests (v : node) (ts : list (test * result)) : option (arena * nat) :=
      match ts with
      | [] => None
      | (t, res) :: ts' => if test_holds v t then Some (run v res) else run_tests v ts'
      end.
    Fixpoint run_pats (ps : list (pat * list (test * result))) : option (arena * nat) :=
      match ps with
      | [] => None
      | (p, ts) :: ps' =>
          match pat_match a l r p with
          | Some v => run_tests v ts
          | None => run_pats ps'
          end
      end.
    Fixpoint run_rules (rs : list (guard * body)) : option (arena * nat) :=
      match rs with
      | [] => None
      | (g, b) :: rs' =>
          if guard_holds a op l r g
          then match b with BRet res => Some (run NInvalid res) | BChain c => run_pats c end
          else run_rules rs'
      end.
    Definition run_table (t : table) : arena * nat :=
      match run_rules (fst t) with Some x => x | None => run NInvalid (snd t) end.
  End Engine.

  Definition inner (v : node) : nat := match v with NUnary _ x => x | _ => idInvalid end.
  Definition operand_id (l r : nat) (v : node) (x : operand) : nat :=
    match x with OLhs => l | ORhs => r | OInner => inner v end.

  (* Tree::unary as a table; only lhs exists, so the engine runs with r := l and a result that
     mentions rhs or calls Tree::unary / Tree::binary is answered with invalid *)
  Definition run_result_un (a : arena) (op : opcode) (l : nat) (v : node) (res : result) : arena * nat :=
    match res with
    | RRet ORhs => (a, idInvalid)
    | RRet x => (a, operand_id l l v x)
    | RFold => push a (NConst (o_un O op (cval (getn a l))))
    | RDefault => push a (NUnary op l)
    | RInvalid | RUn _ _ | RBin _ _ _ => (a, idInvalid)
    end.
  Definition interp_unary (ut : table) (a : arena) (op : opcode) (l : nat) : arena * nat :=
    run_table (run_result_un a op l) a op l l ut.

  Definition run_result_bin (un : arena -> opcode -> nat -> arena * nat)
      (rec : opcode -> nat -> nat -> arena * nat)
      (a : arena) (op : opcode) (l r : nat) (v : node) (res : result) : arena * nat :=
    match res with
    | RRet x => (a, operand_id l r v x)
    | RUn o x => un a o (operand_id l r v x)
    | RBin o x y => rec o (operand_id l r v x) (operand_id l r v y)
    | RFold => push a (NConst (o_bin O op (cval (getn a l)) (cval (getn a r))))
    | RInvalid => (a, idInvalid)
    | RDefault => push a (NBinary op l r)
    end.

  (* Tree::binary as a table; the nested Tree::unary calls run the unary TABLE, the nested
     Tree::binary calls (operator+ / operator-) recurse with the fuel of Build.mk_binary *)
  Fixpoint interp_binary (ut bt : table) (fuel : nat) (a : arena) (op : opcode) (l r : nat)
      : arena * nat :=
    let rec op' l' r' :=
      match fuel with
      | 0 => push a (NBinary op' l' r')
      | S f => interp_binary ut bt f a op' l' r'
      end in
    run_table (run_result_bin (interp_unary ut) rec a op l r) a op l r bt.
End Interp.
