(* Extraction of the uniform-grid dual-contouring models (C03, C10).  ExtrOcamlBasic only. *)
From Coq Require Import Extraction ExtrOcamlBasic.
From LF Require Import Render.DCGrid Render.DCGridSem Render.DCGrid2 Render.DCGrid2Sem Render.Contours.
Extraction Language OCaml.
Extraction "gmodel.ml" dc_mesh DCGridSem.ins_of DCGridSem.edges_of
  contour_soup DCGrid2Sem.filled_in DCGrid2Sem.edges_of DCGrid2Sem.canon_idx DCGrid2Sem.renum collect.
