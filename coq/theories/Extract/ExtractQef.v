(* Extraction of the QEF bounded-search model. *)
From Coq Require Import Extraction ExtrOcamlBasic.
From LF Require Import Render.Qef.
Extraction Language OCaml.
Extraction "qmodel.ml" bounded_search dimension contains.
