(* Extraction of the contour welding model (C10).  ExtrOcamlBasic only. *)
From Coq Require Import Extraction ExtrOcamlBasic.
From LF Require Import Render.Contours.
Extraction Language OCaml.
Extraction "cmodel.ml" collect.
