(* Extraction of the uniform-grid simplex-mesher model (C03).  ExtrOcamlBasic only.
   sgmodel.ml: simplex_gtets (the 16 tets of a lattice edge over doubled points), enc (vertex
   numbering of the box), simplex_tets, simplex_complex, all_edges, mesh / simplex_mesh (the
   triangles), ins_of (inside set from a list of doubled points). *)
From Coq Require Import Extraction ExtrOcamlBasic.
From LF Require Import Render.DCGrid Render.MarchTet Render.SimplexGrid Render.SimplexGridSem.
Extraction Language OCaml.
Extraction "sgmodel.ml" subvs simplex_gtets enc enc_tet simplex_tets simplex_complex all_edges
  mesh simplex_mesh SimplexGridSem.ins_of.
