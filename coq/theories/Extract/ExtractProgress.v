(* Extraction of the progress accounting model (C20).  ExtrOcamlBasic only. *)
From Coq Require Import Extraction ExtrOcamlBasic.
From LF Require Import Render.Progress.
Extraction Language OCaml.
Extraction "pmodel.ml" total_ticks announced live walk_ticks pool_ticks reset_ticks num_blocks.
