(* Extraction of the solver control-flow model. *)
From Coq Require Import Extraction ExtrOcamlBasic.
From LF Require Import Misc.Solver.
Extraction Language OCaml.
Extraction "smodel.ml" find_root.
