(* Extraction of the adaptive-octree dual-contouring model (C03 / C04).  ExtrOcamlBasic only. *)
From Coq Require Import Extraction ExtrOcamlBasic.
From LF Require Import Render.OctTree.
Extraction Language OCaml.
Extraction "otmodel.ml" ocollect mesh_walk oconsistentb oboundary_clearb otree_eqb oheight oclosed_meshb.
