(* Extraction of the interval model (flag logic / case splits of interval.hpp). *)
From Coq Require Import Extraction ExtrOcamlBasic.
From LF Require Import Base.Opcode Interval.IntervalModel.
Extraction Language OCaml.
Extraction "imodel.ml" all_opcodes ieval_un ieval_bin state_of mk.
