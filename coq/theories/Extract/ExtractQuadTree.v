(* Extraction of the adaptive-quadtree contouring model (C10).  ExtrOcamlBasic only. *)
From Coq Require Import Extraction ExtrOcamlBasic.
From LF Require Import Render.QuadTree.
Extraction Language OCaml.
Extraction "qtmodel.ml" QuadTree.collect contour_walk consistentb boundary_clearb qtree_eqb height.
