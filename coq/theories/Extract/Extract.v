(* Extraction of the executable models for the correspondence checks.
   ExtrOcamlBasic only; numbers stay abstract (the driver passes an [ops]
   record), nat / N / positive stay the ordinary extracted inductives. *)
From Coq Require Import Extraction ExtrOcamlBasic.
From LF Require Import Base.Opcode Base.Num Base.Arena Tree.Build Tree.Flatten.

Extraction Language OCaml.
Set Extraction Output Directory ".".
