(* Extraction of the executable models for the correspondence checks.
   ExtrOcamlBasic only; numbers stay abstract (the driver passes an [ops]
   record), nat / N / positive stay the ordinary extracted inductives.
   Run with the output directory as cwd (Coq 8.16 has no output-dir option). *)
From Coq Require Import Extraction ExtrOcamlBasic.
From LF Require Import Base.Opcode Base.Num Base.Arena Tree.Build Tree.Flatten
  Tree.Optimize Eval.Deck Eval.Push Serial.Codec Conc.Refcount Eval.Deriv Eval.DerivEval Stdlib.SExpr Gen.Stdlib_gen Eval.OracleEval Eval.GetBase.

Extraction Language OCaml.
Extraction "model.ml"
  all_opcodes code of_code args is_commutative is_idempotent
  init_arena mk_const mk_nullary mk_var mk_unary mk_bin mk_remap mk_apply
  flags_of flatten optimized optimized_full optimized_helper lvl_fuel bnd_of tree_eq
  walk mk_deck init_slots set_point eval_tape tape_value
  tape_push keep_point keep_interval
  serialize deserialize
  rc_spec live_count rstep drop alloc
  deriv_at var_partial
  build std_dispatch
  evaluator oracle_obj jac_mul
  get_base_idx in_level box_in_level.
