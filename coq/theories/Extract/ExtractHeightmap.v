(* Extraction of the voxel-view split model. *)
From Coq Require Import Extraction ExtrOcamlBasic.
From LF Require Import Render.Heightmap.
Extraction Language OCaml.
Extraction "vmodel.ml" split partition voxels.
