(* C14: static tables and singletons that are initialised once and only read afterwards.

   libfive has two kinds of such shared state:
     (a) function-local statics with an initialiser (`static auto x = Tree(...)` in Tree::X()):
         C++11 "magic statics" -- the initialiser runs exactly once, other threads block until
         it has finished, afterwards the object is only read;
     (b) the namespace-scope table `static std::string opcode_names[N]`, filled inside
         `std::call_once(built, []{...})` in buildNames() and only read afterwards (every
         reader calls buildNames() first).
   Both are the same protocol: a once-flag  Fresh | Running tid | Done  guarding the fill.
   The defect that was repaired (and two seeded regressions) had the form "unguarded
   check-then-fill":  if (table[0].empty()) { fill the table }  run by several threads.

   The model: a table of [n] cells holding [option V]; the intended content is [f].
   Non-atomic accesses take TWO steps (Begin.. / End..), so that two accesses can overlap; the
   state keeps the set of in-flight accesses and a sticky [race] bit that is set when an access
   to a cell begins while ANOTHER thread has an in-flight access to the same cell and at least
   one of the two is a write.  Threads are chosen by an arbitrary scheduler: [step s t] is the
   move of thread [t] ([None] = not enabled: finished, or blocked on a running initialiser),
   [run s sch] follows a schedule (a list of thread ids).  Any number of threads: the per-thread
   programs are a function [tid -> list instr]; a thread that does not exist has program [].

   This file: definitions and decidable checkers only.  Proofs: Conc/OnceInitSem.v. *)
From Coq Require Import List Arith Bool Lia.
Import ListNotations.

Definition V := nat.
Definition tid := nat.

Inductive once := Fresh | Running (t : tid) | Done.

Inductive instr :=
| BeginW (i : nat)                          (* start of a non-atomic write of cell i *)
| EndW (i : nat) (v : V)                    (* ... the store becomes visible, the access ends *)
| BeginR (i : nat)                          (* start of a non-atomic read of cell i *)
| EndR (i : nat) (onNone : list instr)      (* ... the value is observed (and logged); if the
                                               cell was empty, [onNone] is run next *)
| Once (body : list instr)                  (* call_once / magic static: enter *)
| OnceExit.                                 (* the initialiser returns: flag := Done *)

(* an in-flight access: (thread, cell, is-a-write) *)
Definition access := (tid * nat * bool)%type.

Record state := mk {
  cells : nat -> option V;                  (* the shared table *)
  infl  : list access;                      (* accesses begun and not yet ended *)
  flag  : once;                             (* the once-flag *)
  race  : bool;                             (* a data race has happened (sticky) *)
  obs   : list (tid * nat * option V);      (* what each completed read saw, newest first *)
  wlog  : list (tid * nat);                 (* ghost: every write begun, newest first *)
  prog  : tid -> list instr                 (* what each thread still has to do *)
}.

Definition upd {A} (g : nat -> A) (k : nat) (a : A) : nat -> A :=
  fun j => if Nat.eqb j k then a else g j.

(* does an access (t, i, w) that begins now overlap a conflicting one of another thread? *)
Definition conflict (t : tid) (i : nat) (w : bool) (l : list access) : bool :=
  existsb (fun e => match e with
                    | (u, j, w') => negb (Nat.eqb u t) && Nat.eqb j i && (w || w')
                    end) l.

Definition same_access (a b : access) : bool :=
  match a, b with
  | (u, j, w), (u', j', w') => Nat.eqb u u' && Nat.eqb j j' && Bool.eqb w w'
  end.
Definition retire (a : access) (l : list access) : list access :=
  filter (fun e => negb (same_access e a)) l.

Definition step (s : state) (t : tid) : option state :=
  match prog s t with
  | [] => None
  | BeginW i :: r =>
      Some (mk (cells s) ((t, i, true) :: infl s) (flag s)
               (race s || conflict t i true (infl s)) (obs s) ((t, i) :: wlog s)
               (upd (prog s) t r))
  | EndW i v :: r =>
      Some (mk (upd (cells s) i (Some v)) (retire (t, i, true) (infl s)) (flag s)
               (race s) (obs s) (wlog s) (upd (prog s) t r))
  | BeginR i :: r =>
      Some (mk (cells s) ((t, i, false) :: infl s) (flag s)
               (race s || conflict t i false (infl s)) (obs s) (wlog s)
               (upd (prog s) t r))
  | EndR i k :: r =>
      Some (mk (cells s) (retire (t, i, false) (infl s)) (flag s)
               (race s) ((t, i, cells s i) :: obs s) (wlog s)
               (upd (prog s) t (match cells s i with None => k ++ r | Some _ => r end)))
  | Once body :: r =>
      match flag s with
      | Fresh =>                             (* t becomes the initialiser *)
          Some (mk (cells s) (infl s) (Running t) (race s) (obs s) (wlog s)
                   (upd (prog s) t (body ++ OnceExit :: r)))
      | Running _ => None                    (* t blocks until the initialiser has finished *)
      | Done =>                              (* pass through *)
          Some (mk (cells s) (infl s) Done (race s) (obs s) (wlog s) (upd (prog s) t r))
      end
  | OnceExit :: r =>
      match flag s with
      | Running u =>
          if Nat.eqb u t
          then Some (mk (cells s) (infl s) Done (race s) (obs s) (wlog s) (upd (prog s) t r))
          else None
      | _ => None
      end
  end.

(* follow a schedule; [None] if the schedule picks a thread that is not enabled *)
Fixpoint run (s : state) (sch : list tid) : option state :=
  match sch with
  | [] => Some s
  | t :: r => match step s t with Some s' => run s' r | None => None end
  end.

Definition reachable (s0 s : state) : Prop := exists sch, run s0 sch = Some s.

Definition init (progs : tid -> list instr) : state :=
  mk (fun _ => None) [] Fresh false [] [] progs.

Section Programs.
  Context (n : nat) (f : nat -> V).          (* table size, intended content *)

  (* write cells k, k+1, ..., k+c-1 in order *)
  Fixpoint fill (k c : nat) : list instr :=
    match c with
    | 0 => []
    | S c' => BeginW k :: EndW k (f k) :: fill (S k) c'
    end.

  Fixpoint reads (l : list nat) : list instr :=
    match l with
    | [] => []
    | i :: r => BeginR i :: EndR i [] :: reads r
    end.

  (* buildNames(); then read:  call_once(flag, fill); reads *)
  Definition guarded (l : list nat) : list instr := Once (fill 0 n) :: reads l.

  (* if (table[0].empty()) fill;  then read *)
  Definition unguarded (l : list nat) : list instr :=
    BeginR 0 :: EndR 0 (fill 0 n) :: reads l.

  (* N threads; thread t reads the cells [rd t] after the initialisation protocol *)
  Definition guarded_init (N : nat) (rd : tid -> list nat) : state :=
    init (fun t => if Nat.ltb t N then guarded (rd t) else []).
  Definition unguarded_init (N : nat) (rd : tid -> list nat) : state :=
    init (fun t => if Nat.ltb t N then unguarded (rd t) else []).

  (* ---- decidable checkers ---- *)
  Definition option_eqb (a b : option V) : bool :=
    match a, b with
    | Some x, Some y => Nat.eqb x y
    | None, None => true
    | _, _ => false
    end.
  (* every logged observation is the intended content *)
  Definition obs_okb (s : state) : bool :=
    forallb (fun o => match o with (_, i, v) => Nat.ltb i n && option_eqb v (Some (f i)) end)
            (obs s).
  (* the table is completely filled with the intended content *)
  Definition table_okb (s : state) : bool :=
    forallb (fun i => option_eqb (cells s i) (Some (f i))) (seq 0 n).
  (* all writes were begun by one thread, no cell twice *)
  Definition single_writerb (s : state) : bool :=
    match wlog s with
    | [] => true
    | (t, _) :: _ =>
        forallb (fun e => Nat.eqb (fst e) t) (wlog s) &&
        (fix nodup (l : list nat) : bool :=
           match l with
           | [] => true
           | x :: r => negb (existsb (Nat.eqb x) r) && nodup r
           end) (map snd (wlog s))
    end.
End Programs.

(* what thread [u] observed, oldest first: (cell, content) *)
Definition seen (u : tid) (ob : list (tid * nat * option V)) : list (nat * option V) :=
  rev (map (fun o => (snd (fst o), snd o)) (filter (fun o => Nat.eqb (fst (fst o)) u) ob)).

Definition enabledb (s : state) (t : tid) : bool :=
  match step s t with Some _ => true | None => false end.
Definition finishedb (N : nat) (s : state) : bool :=
  forallb (fun t => match prog s t with [] => true | _ => false end) (seq 0 N).
