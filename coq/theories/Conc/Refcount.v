(* The intrusive reference counting of libfive::Tree (tree.hpp / tree.cpp):
   mechanism (allocation of a node holding child handles, handle copy, the
   explicit work-list destructor Tree::~Tree) and specification (a node is alive
   iff it is reachable from a client handle or a static singleton; its count is
   #handles + #parent edges + #statics). *)
From Coq Require Import List Arith Bool Lia.
From LF Require Import Base.Opcode Base.Num Base.Arena Eval.Deck.
Import ListNotations.

Section Mechanism.
  (* the heap: child handles owned by each node, its refcount, and whether the
     node has been deleted *)
  Record cell := { c_kids : list nat; c_rc : nat; c_alive : bool }.
  Definition heap := list cell.
  Definition dead : cell := {| c_kids := []; c_rc := 0; c_alive := false |}.
  Definition hget (h : heap) (n : nat) : cell := nth n h dead.
  Definition hset (h : heap) (n : nat) (c : cell) : heap := upd h n (fun _ => c).

  Definition inc (h : heap) (n : nat) : heap :=
    let c := hget h n in hset h n {| c_kids := c_kids c; c_rc := S (c_rc c); c_alive := c_alive c |}.
  Definition dec (h : heap) (n : nat) : heap :=
    let c := hget h n in hset h n {| c_kids := c_kids c; c_rc := pred (c_rc c); c_alive := c_alive c |}.

  (* new Data(...) holding copies of the child handles, then Tree(ptr): rc = 1 *)
  Definition alloc (h : heap) (kids : list nat) : heap * nat :=
    let h1 := fold_left inc kids h in
    (h1 ++ [{| c_kids := kids; c_rc := 1; c_alive := true |}], length h1).

  (* delete t after moving its children out *)
  Definition free (h : heap) (n : nat) : heap :=
    hset h n {| c_kids := []; c_rc := 0; c_alive := false |}.

  (* the while loop of Tree::~Tree; [root] is the node whose count the caller
     already decremented to zero *)
  Fixpoint drop_loop (fuel : nat) (h : heap) (root : nat) (todo : list nat) : heap :=
    match fuel with
    | 0 => h
    | S f =>
      match todo with
      | [] => h
      | t :: rest =>
          if Nat.eqb t root then
            drop_loop f (free h t) root (rev (c_kids (hget h t)) ++ rest)
          else
            let h1 := dec h t in
            if Nat.eqb (c_rc (hget h1 t)) 0 then
              drop_loop f (free h1 t) root (rev (c_kids (hget h1 t)) ++ rest)
            else drop_loop f h1 root rest
      end
    end.

  (* Tree::~Tree on a handle to n *)
  Definition drop (fuel : nat) (h : heap) (n : nat) : heap :=
    let h1 := dec h n in
    if Nat.eqb (c_rc (hget h1 n)) 0 then drop_loop fuel h1 n [n] else h1.

  (* client-visible operations on a pool of handles *)
  Inductive rop :=
  | RAlloc (kids : list nat)      (* indices into the handle pool *)
  | RCopy (i : nat)               (* copy handle i *)
  | RDrop (i : nat).              (* destroy handle i *)

  Record rstate := { r_heap : heap; r_handles : list (option nat); r_statics : list nat }.

  Definition hnd (s : rstate) (i : nat) : option nat := nth i (r_handles s) None.

  Definition rstep (fuel : nat) (s : rstate) (o : rop) : rstate :=
    match o with
    | RAlloc ks =>
        let ids := map (hnd s) ks in
        if forallb (fun x => match x with Some _ => true | None => false end) ids then
          let kids := flat_map (fun x => match x with Some n => [n] | None => [] end) ids in
          let (h1, n) := alloc (r_heap s) kids in
          {| r_heap := h1; r_handles := r_handles s ++ [Some n]; r_statics := r_statics s |}
        else s
    | RCopy i =>
        match hnd s i with
        | Some n => {| r_heap := inc (r_heap s) n; r_handles := r_handles s ++ [Some n];
                       r_statics := r_statics s |}
        | None => s
        end
    | RDrop i =>
        match hnd s i with
        | Some n => {| r_heap := drop fuel (r_heap s) n;
                       r_handles := upd (r_handles s) i (fun _ => None);
                       r_statics := r_statics s |}
        | None => s
        end
    end.
End Mechanism.

Section Spec.
  Context {num : Type}.
  Notation arena := (arena num).

  (* every owned child handle of a node (walk() follows only unary/binary kids;
     ownership also covers remap / apply / transformed-oracle children) *)
  Definition owned (n : node num) : list nat :=
    match n with
    | NUnary _ x => [x]
    | NBinary _ x y => [x; y]
    | NRemap x y z t => [x; y; z; t]
    | NApply v e t => [v; e; t]
    | NOracleT x y z u => [u; x; y; z]
    | _ => []
    end.

  (* reachability from a set of roots, in descending id order *)
  Fixpoint mark_pass (k : nat) (a : arena) (m : list bool) : list bool :=
    match k with
    | 0 => m
    | S j =>
        if nth j m false
        then mark_pass j a (fold_left (fun r c => upd r c (fun _ => true)) (owned (getn a j)) m)
        else mark_pass j a m
    end.
  Definition live_set (a : arena) (roots : list nat) : list bool :=
    mark_pass (length a) a
      (fold_left (fun r c => upd r c (fun _ => true)) roots (repeat false (length a))).

  Definition count_occ_nat (l : list nat) (n : nat) : nat := length (filter (Nat.eqb n) l).

  (* expected refcount of node n *)
  Definition rc_spec (a : arena) (handles statics : list nat) (n : nat) : nat :=
    let live := live_set a (handles ++ statics) in
    count_occ_nat handles n + count_occ_nat statics n +
    fold_left (fun acc j => if nth j live false then acc + count_occ_nat (owned (getn a j)) n else acc)
              (seq 0 (length a)) 0.

  Definition live_count (a : arena) (handles statics : list nat) : nat :=
    length (filter (fun b => b) (live_set a (handles ++ statics))).
End Spec.
