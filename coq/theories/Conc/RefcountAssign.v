(* Copy-assignment of a Tree handle, [t = other], on the reference-counting
   model of Conc/Refcount.v.

   The source [other] need not be a member of the client's handle pool: in the
   idiom [t = t->lhs();] it is a Tree member stored INSIDE the node that [t]
   itself owns; all the model knows about it is its target node [c].

   Two orders are modelled:
     - [assign_good]: libfive's  Tree(other.ptr, true, flags)  followed by a
       move-assignment; the temporary that ends up holding the OLD value of [t]
       is destroyed last.  Retain [c], then run ~Tree() on the old node.
     - [assign_bad]: the destroy-then-placement-new idiom
         this->~Tree(); new (this) Tree(other);
       ~Tree() on the old node first, then retain the source's node.

   Results
     1. [assign_good_preserves_inv]     the good order preserves [Inv], the
                                        destructor never touches a dead cell,
                                        and no handle dangles afterwards;
     2. [assign_bad_refuted]            a 2-cell state satisfying [Inv] in which
                                        the bad order leaves the handle pointing
                                        to a deleted cell (whose count it has
                                        just incremented) and breaks [Inv];
        [assign_bad_source_freed]       in general: when [t] is the last owner
                                        of its node, the bad order deletes that
                                        node (the storage of [other]) before
                                        [other] is read;
     3. [assign_orders_agree_when_shared] when the old node has another owner
                                        (count >= 2) the two orders compute the
                                        same heap, for every [c] (also [c = n]),
                                        with no invariant or fuel hypothesis. *)
From Coq Require Import List Arith Bool Lia.
From LF Require Import Eval.Deck Conc.Refcount Conc.RefcountSem.
Import ListNotations.

(* ------------------------------------------------------------------ *)
(** * The two orders                                                   *)
(* ------------------------------------------------------------------ *)

(* t = other, where other points to node c: the correct order (libfive:
   Tree(other.ptr, true, flags) then move-assign; the temporary holding the
   OLD value is destroyed last) *)
Definition assign_good (fuel : nat) (h : heap) (n c : nat) : heap := drop fuel (inc h c) n.

(* the destroy-then-copy order: ~Tree() on the old value first, then retain
   the source's node *)
Definition assign_bad (fuel : nat) (h : heap) (n c : nat) : heap := inc (drop fuel h n) c.

(* state level: handle i (holding Some n) is overwritten with Some c; c is
   required (by the theorems) to be alive in [r_heap s] *)
Definition rassign_good (fuel : nat) (s : rstate) (i c : nat) : rstate :=
  match hnd s i with
  | Some n => {| r_heap := assign_good fuel (r_heap s) n c;
                 r_handles := upd (r_handles s) i (fun _ => Some c);
                 r_statics := r_statics s |}
  | None => s
  end.

Definition rassign_bad (fuel : nat) (s : rstate) (i c : nat) : rstate :=
  match hnd s i with
  | Some n => {| r_heap := assign_bad fuel (r_heap s) n c;
                 r_handles := upd (r_handles s) i (fun _ => Some c);
                 r_statics := r_statics s |}
  | None => s
  end.

(* ------------------------------------------------------------------ *)
(** * 1. The good order preserves the invariant                        *)
(* ------------------------------------------------------------------ *)

(* overwriting a [Some n] entry of the pool with [Some c] *)
Lemma cnt_somes_assign (l : list (option nat)) i n c m :
  nth i l None = Some n ->
  cnt m (somes (upd l i (fun _ => Some c))) + (if n =? m then 1 else 0)
  = cnt m (somes l) + (if c =? m then 1 else 0).
Proof.
  revert i; induction l as [|x r IH]; intros [|i] H; simpl in *; try discriminate.
  - subst; simpl. lia.
  - unfold somes in *; simpl. rewrite !cnt_app. specialize (IH _ H). lia.
Qed.

Lemma assign_ext s i n c m :
  hnd s i = Some n ->
  ext {| r_heap := r_heap s; r_handles := upd (r_handles s) i (fun _ => Some c);
         r_statics := r_statics s |} m + (if n =? m then 1 else 0)
  = ext s m + (if c =? m then 1 else 0).
Proof.
  intros Hi. unfold ext, handles_of. cbn [r_handles r_statics].
  pose proof (cnt_somes_assign (r_handles s) i n c m Hi). lia.
Qed.

(* retaining an alive node on behalf of a reference that is not (yet) in the
   pool: one more external reference to c *)
Lemma retain_GInv h e c :
  GInv h e -> live h c = true ->
  GInv (inc h c) (fun m => e m + if c =? m then 1 else 0).
Proof.
  intros G Hc. rewrite inc_setrc.
  eapply GInv_setrc; [exact G|exact Hc| | |].
  - intros m Hm. destruct (Nat.eqb_spec c m); [congruence|lia].
  - rewrite Nat.eqb_refl. rewrite (g_rc G c Hc). lia.
  - lia.
Qed.

Lemma hnd_In_handles s j m : hnd s j = Some m -> In m (handles_of s).
Proof. intros H. unfold hnd in H. unfold handles_of. eapply nth_somes_In; eauto. Qed.

(* the heap-level statement, with the instrumented destructor *)
Lemma assign_good_state_ok fuel s i n c :
  GInv (r_heap s) (ext s) -> fuel_ok fuel s -> hnd s i = Some n ->
  live (r_heap s) c = true ->
  exists log,
    drop_i fuel (inc (r_heap s) c) n = Done (assign_good fuel (r_heap s) n c) log /\
    (forall f2, edges (r_heap s) < f2 ->
       assign_good f2 (r_heap s) n c = assign_good fuel (r_heap s) n c) /\
    GInv (assign_good fuel (r_heap s) n c)
         (ext {| r_heap := assign_good fuel (r_heap s) n c;
                 r_handles := upd (r_handles s) i (fun _ => Some c);
                 r_statics := r_statics s |}) /\
    Post (inc (r_heap s) c) (assign_good fuel (r_heap s) n c) log.
Proof.
  intros G Hf Hi Hc.
  assert (En : ext s n > 0).
  { apply ext_pos, in_or_app; left. eapply hnd_In_handles; eauto. }
  pose proof (retain_GInv _ _ _ G Hc) as G1.
  assert (En1 : (fun m => ext s m + if c =? m then 1 else 0) n > 0) by (cbv beta; lia).
  assert (Hf1 : edges (inc (r_heap s) c) < fuel).
  { rewrite inc_setrc, setrc_edges. exact Hf. }
  destruct (@drop_ok fuel (inc (r_heap s) c) _ n G1 En1 Hf1) as [log [A [B [C D]]]].
  exists log. unfold assign_good. split; [exact A|]. split; [|split; [|exact D]].
  - intros f2 Hf2. apply B. rewrite inc_setrc, setrc_edges. exact Hf2.
  - eapply GInv_ext; [|exact C]. intros m. cbv beta.
    pose proof (assign_ext s i n c m Hi) as E.
    unfold ext, handles_of in *. cbn [r_handles r_statics] in *.
    destruct (Nat.eqb_spec n m) as [->|Hnm]; lia.
Qed.

(** ** Theorem 1 *)
Theorem assign_good_preserves_inv fuel s i n c :
  Inv s -> fuel_ok fuel s -> hnd s i = Some n ->
  live (r_heap s) c = true ->
  let s' := rassign_good fuel s i c in
  Inv s' /\
  (* the assigned handle now points to c, and c is alive *)
  hnd s' i = Some c /\ live (r_heap s') c = true /\
  (* every live handle (the assigned one and all the others) points to an alive cell *)
  (forall j m, hnd s' j = Some m -> live (r_heap s') m = true) /\
  (* the other handles are unchanged *)
  (forall j, j <> i -> hnd s' j = hnd s j) /\
  (* the destructor of the old value never touches a deleted cell, never
     underflows a count and does not run out of fuel *)
  (exists log, drop_i fuel (inc (r_heap s) c) n = Done (r_heap s') log).
Proof.
  intros I Hf Hi Hc. apply Inv_GInv in I.
  destruct (@assign_good_state_ok fuel s i n c I Hf Hi Hc) as [log [A [_ [G _]]]].
  unfold rassign_good. rewrite Hi. cbv zeta.
  set (s' := {| r_heap := assign_good fuel (r_heap s) n c;
                r_handles := upd (r_handles s) i (fun _ => Some c);
                r_statics := r_statics s |}) in *.
  assert (I' : Inv s') by (apply Inv_GInv; exact G).
  assert (Hil : i < length (r_handles s)).
  { unfold hnd in Hi. destruct (lt_dec i (length (r_handles s))); auto.
    rewrite nth_overflow in Hi by lia. discriminate. }
  assert (Hi' : hnd s' i = Some c).
  { unfold hnd, s'. cbn [r_handles]. rewrite nth_upd, Nat.eqb_refl.
    destruct (Nat.ltb_spec i (length (r_handles s))); [reflexivity|lia]. }
  assert (Hall : forall j m, hnd s' j = Some m -> live (r_heap s') m = true).
  { intros j m Hj. apply (inv_handles I'). eapply hnd_In_handles; eauto. }
  split; [exact I'|]. split; [exact Hi'|]. split; [eapply Hall; eauto|].
  split; [exact Hall|]. split.
  - intros j Hj. unfold hnd, s'. cbn [r_handles]. rewrite nth_upd.
    destruct (Nat.eqb_spec i j); [congruence|reflexivity].
  - exists log. exact A.
Qed.

(* the motivating instance [t = t->lhs()]: the source is a child handle stored
   in the very node that t owns *)
Corollary assign_good_from_child fuel s i n c :
  Inv s -> fuel_ok fuel s -> hnd s i = Some n ->
  In c (c_kids (hget (r_heap s) n)) ->
  let s' := rassign_good fuel s i c in
  Inv s' /\ hnd s' i = Some c /\ live (r_heap s') c = true /\
  (forall j m, hnd s' j = Some m -> live (r_heap s') m = true).
Proof.
  intros I Hf Hi Hk.
  assert (Hn : live (r_heap s) n = true).
  { apply (inv_handles I). eapply hnd_In_handles; eauto. }
  assert (Hc : live (r_heap s) c = true) by (apply (inv_kids I n c Hn Hk)).
  destruct (@assign_good_preserves_inv fuel s i n c I Hf Hi Hc) as [A [B [C [D _]]]].
  cbv zeta. auto.
Qed.

(* ------------------------------------------------------------------ *)
(** * 3. The two orders agree when the old node is shared              *)
(* ------------------------------------------------------------------ *)

Lemma heap_ext (h1 h2 : heap) :
  length h1 = length h2 -> (forall m, hget h1 m = hget h2 m) -> h1 = h2.
Proof.
  intros L E. apply (nth_ext h1 h2 dead dead L). intros m _. apply E.
Qed.

Lemma hget_inc h c m :
  hget (inc h c) m =
  if (c =? m) && (m <? length h)
  then {| c_kids := c_kids (hget h m); c_rc := S (c_rc (hget h m)); c_alive := c_alive (hget h m) |}
  else hget h m.
Proof.
  unfold inc. rewrite hget_hset.
  destruct (Nat.eqb_spec c m); simpl; auto. subst. reflexivity.
Qed.

Lemma hget_dec h c m :
  hget (dec h c) m =
  if (c =? m) && (m <? length h)
  then {| c_kids := c_kids (hget h m); c_rc := pred (c_rc (hget h m)); c_alive := c_alive (hget h m) |}
  else hget h m.
Proof.
  unfold dec. rewrite hget_hset.
  destruct (Nat.eqb_spec c m); simpl; auto. subst. reflexivity.
Qed.

Lemma inc_length h c : length (inc h c) = length h.
Proof. rewrite inc_setrc. apply setrc_length. Qed.
Lemma dec_length h c : length (dec h c) = length h.
Proof. rewrite dec_setrc. apply setrc_length. Qed.

(* retain and release commute, on different cells and (when the count is
   positive) on the same cell *)
Lemma inc_dec_comm h n c :
  (n = c -> c_rc (hget h n) > 0) ->
  inc (dec h n) c = dec (inc h c) n.
Proof.
  intros Hp. apply heap_ext.
  - rewrite inc_length, !dec_length, inc_length. reflexivity.
  - intros m. rewrite hget_inc, !hget_dec, hget_inc, dec_length, inc_length.
    destruct (Nat.eqb_spec c m) as [Ecm|Ecm], (Nat.eqb_spec n m) as [Enm|Enm],
             (m <? length h); cbn [andb c_kids c_rc c_alive]; try reflexivity.
    subst. f_equal. specialize (Hp eq_refl). lia.
Qed.

(* a handle whose node has another owner: ~Tree() only decrements *)
Lemma drop_shared fuel h n : 2 <= c_rc (hget h n) -> drop fuel h n = dec h n.
Proof.
  intros H. unfold drop.
  assert (Hl : n < length h).
  { destruct (lt_dec n (length h)); auto. rewrite hget_out in H by lia. simpl in H. lia. }
  rewrite dec_setrc, setrc_rc_same by auto.
  destruct (Nat.eqb_spec (pred (c_rc (hget h n))) 0); [lia|reflexivity].
Qed.

(** ** Theorem 3 (heap level): no invariant, no fuel condition, any c *)
Theorem assign_orders_agree_heap fuel h n c :
  2 <= c_rc (hget h n) ->
  assign_good fuel h n c = assign_bad fuel h n c.
Proof.
  intros H. unfold assign_good, assign_bad.
  assert (H' : 2 <= c_rc (hget (inc h c) n)).
  { rewrite hget_inc. destruct ((c =? n) && (n <? length h)); simpl; lia. }
  rewrite (drop_shared fuel _ _ H), (drop_shared fuel _ _ H').
  symmetry. apply inc_dec_comm. intros _. lia.
Qed.

(** ** Theorem 3 (state level) *)
Theorem assign_orders_agree_when_shared fuel s i n c :
  hnd s i = Some n ->
  2 <= c_rc (hget (r_heap s) n) ->
  rassign_good fuel s i c = rassign_bad fuel s i c /\
  r_heap (rassign_good fuel s i c) = inc (dec (r_heap s) n) c.
Proof.
  intros Hi H. unfold rassign_good, rassign_bad. rewrite Hi.
  rewrite (assign_orders_agree_heap fuel _ _ c H). split; [reflexivity|].
  cbn [r_heap]. unfold assign_bad. rewrite (drop_shared fuel _ _ H). reflexivity.
Qed.

(* under [Inv], "the count is >= 2" is "n has another owner": a second handle,
   a singleton, or a parent node *)
Corollary assign_orders_agree_other_owner fuel s i n c :
  Inv s -> hnd s i = Some n ->
  2 <= cnt n (handles_of s) + cnt n (r_statics s) + parents (r_heap s) n ->
  rassign_good fuel s i c = rassign_bad fuel s i c.
Proof.
  intros I Hi H.
  assert (Hn : live (r_heap s) n = true).
  { apply (inv_handles I). eapply hnd_In_handles; eauto. }
  apply (assign_orders_agree_when_shared fuel s i n c Hi).
  rewrite (inv_rc I n Hn). exact H.
Qed.

(* ------------------------------------------------------------------ *)
(** * 2. The destroy-then-copy order is refuted                        *)
(* ------------------------------------------------------------------ *)

(* in general: if handle i is the LAST owner of its node n, then ~Tree() deletes
   n; the source [other] of [t = t->lhs()] is a member of that deleted node, so
   the bad order reads it after it has been freed *)
Theorem assign_bad_source_freed fuel s i n :
  Inv s -> fuel_ok fuel s -> hnd s i = Some n ->
  c_rc (hget (r_heap s) n) = 1 ->
  live (drop fuel (r_heap s) n) n = false.
Proof.
  intros I Hf Hi H1.
  assert (Hn : live (r_heap s) n = true).
  { apply (inv_handles I). eapply hnd_In_handles; eauto. }
  pose proof (inv_rc I n Hn) as Hrc.
  assert (Hh : cnt n (handles_of s) > 0).
  { apply cnt_pos_In. eapply hnd_In_handles; eauto. }
  assert (Hp : parents (r_heap s) n = 0) by lia.
  apply Inv_GInv in I.
  destruct (@drop_state_ok fuel s i n I Hf Hi) as [log [_ [_ [G P]]]].
  destruct (live (drop fuel (r_heap s) n) n) eqn:L; auto. exfalso.
  destruct (p_live P n L) as [_ [_ Hle]].
  pose proof (g_pos G n L) as Hpos.
  pose proof (g_rc G n L) as Hrc'.
  pose proof (drop_ext s i n Hi) as E. rewrite Nat.eqb_refl in E.
  assert (E0 : ext s n = 1) by (unfold ext; lia).
  change (r_heap {| r_heap := drop fuel (r_heap s) n;
                    r_handles := upd (r_handles s) i (fun _ => None);
                    r_statics := r_statics s |}) with (drop fuel (r_heap s) n) in *.
  assert (Hpar : parents (drop fuel (r_heap s) n) n > 0).
  { unfold ext, handles_of in *. cbn [r_handles r_statics] in *. lia. }
  destruct (parents_pos _ _ Hpar) as [k [Lk Hk]].
  destruct (p_live P k Lk) as [Lk0 [Kk _]]. rewrite Kk in Hk.
  pose proof (parents_ge (r_heap s) k n Lk0) as Hge.
  apply cnt_pos_In in Hk. lia.
Qed.

(* node 0: a leaf whose only owner is node 1; node 1: a unary node over 0 whose
   only owner is handle 0; no singletons *)
Definition walk_state : rstate :=
  {| r_heap := [ {| c_kids := [];  c_rc := 1; c_alive := true |};
                 {| c_kids := [0]; c_rc := 1; c_alive := true |} ];
     r_handles := [Some 1];
     r_statics := [] |}.

Lemma walk_state_cases n : n = 0 \/ n = 1 \/ 2 <= n.
Proof. lia. Qed.

Lemma walk_state_inv : Inv walk_state.
Proof.
  assert (Hout : forall n, 2 <= n -> hget (r_heap walk_state) n = dead).
  { intros n Hn. apply hget_out. simpl. lia. }
  split.
  - intros n Hn. simpl in Hn. destruct Hn as [<-|[]]. split; [simpl; lia|reflexivity].
  - intros n [].
  - intros i k Hi Hk. destruct (walk_state_cases i) as [->|[->|Hge]].
    + simpl in Hk. contradiction.
    + simpl in Hk. destruct Hk as [<-|[]]. split; [simpl; lia|reflexivity].
    + unfold live in Hi. rewrite Hout in Hi by auto. discriminate.
  - intros n Hn. destruct (walk_state_cases n) as [->|[->|Hge]].
    + reflexivity.
    + reflexivity.
    + unfold live in Hn. rewrite Hout in Hn by auto. discriminate.
  - intros n Hn. destruct (walk_state_cases n) as [->|[->|Hge]].
    + discriminate.
    + discriminate.
    + rewrite Hout by auto. auto.
  - intros i k Hi Hk. destruct (walk_state_cases i) as [->|[->|Hge]].
    + simpl in Hk. contradiction.
    + simpl in Hk. destruct Hk as [<-|[]]. lia.
    + unfold live in Hi. rewrite Hout in Hi by auto. discriminate.
  - intros n Hn. destruct (walk_state_cases n) as [->|[->|Hge]].
    + simpl. lia.
    + simpl. lia.
    + unfold live in Hn. rewrite Hout in Hn by auto. discriminate.
Qed.

(** ** Theorem 2 *)
Theorem assign_bad_refuted :
  let s := walk_state in
  (* the state is legal, handle 0 is the sole owner of node 1, and the source of
     the assignment is the child handle stored in node 1 *)
  Inv s /\ fuel_ok 10 s /\ hnd s 0 = Some 1 /\
  c_rc (hget (r_heap s) 1) = 1 /\
  In 0 (c_kids (hget (r_heap s) 1)) /\ live (r_heap s) 0 = true /\
  (* destroy-then-copy: the old value's destructor deletes node 1 (the storage
     of the source handle) and its child 0 before the source is retained ... *)
  live (drop 10 (r_heap s) 1) 1 = false /\
  live (drop 10 (r_heap s) 1) 0 = false /\
  (* ... so the handle ends up pointing to a deleted cell whose count was
     nevertheless incremented: a use after free; the invariant is broken *)
  (let sb := rassign_bad 10 s 0 0 in
   hnd sb 0 = Some 0 /\
   c_alive (hget (r_heap sb) 0) = false /\
   c_rc (hget (r_heap sb) 0) = 1 /\
   ~ Inv sb) /\
  (* copy-then-destroy on the same state: the handle points to the alive leaf,
     which it now owns alone; node 1 is deleted; the invariant holds *)
  (let sg := rassign_good 10 s 0 0 in
   hnd sg 0 = Some 0 /\
   c_alive (hget (r_heap sg) 0) = true /\
   c_rc (hget (r_heap sg) 0) = 1 /\
   live (r_heap sg) 1 = false /\
   Inv sg).
Proof.
  cbv zeta.
  assert (F : fuel_ok 10 walk_state) by (unfold fuel_ok; vm_compute; lia).
  split; [exact walk_state_inv|]. split; [exact F|].
  split; [reflexivity|]. split; [reflexivity|].
  split; [simpl; auto|]. split; [reflexivity|].
  split; [vm_compute; reflexivity|]. split; [vm_compute; reflexivity|].
  split.
  - split; [vm_compute; reflexivity|]. split; [vm_compute; reflexivity|].
    split; [vm_compute; reflexivity|].
    intros I.
    assert (Hin : In 0 (handles_of (rassign_bad 10 walk_state 0 0))) by (vm_compute; auto).
    destruct (inv_handles I 0 Hin) as [_ L]. vm_compute in L. discriminate.
  - split; [vm_compute; reflexivity|]. split; [vm_compute; reflexivity|].
    split; [vm_compute; reflexivity|]. split; [vm_compute; reflexivity|].
    apply (@assign_good_preserves_inv 10 walk_state 0 1 0 walk_state_inv F eq_refl eq_refl).
Qed.
