(* C14: reference counts of a shared expression node under concurrent copying / destruction.

   data.hpp: TreeData::refcount is a std::atomic<uint32_t>; copying a Tree does
   fetch_add(1), destroying one does fetch_sub(1) and frees the node when it held the last
   reference.  Each atomic read-modify-write is ONE step of the interleaving semantics below;
   the non-atomic variant (load, then store) is there to show what atomicity buys. *)
From Coq Require Import List Arith Bool Lia.
Import ListNotations.

Inductive rop := Inc | Dec.

Record rstate := { rc : nat;            (* the counter *)
                   frees : nat;         (* how many times the node was freed *)
                   uaf : bool }.        (* a reference operation touched a freed node *)

Definition rstep (s : rstate) (o : rop) : rstate :=
  match o with
  | Inc => {| rc := S (rc s); frees := frees s; uaf := uaf s || Nat.eqb (rc s) 0 |}
  | Dec =>
      match rc s with
      | 0 => {| rc := 0; frees := frees s; uaf := true |}
      | 1 => {| rc := 0; frees := S (frees s); uaf := uaf s |}
      | S n => {| rc := n; frees := frees s; uaf := uaf s |}
      end
  end.
Definition rrun (s : rstate) (l : list rop) : rstate := fold_left rstep l s.

(* all interleavings of the threads' programs (each thread's own order is kept) *)
Inductive shuffle : list (list rop) -> list rop -> Prop :=
| shuffle_nil ths : Forall (fun t => t = []) ths -> shuffle ths []
| shuffle_cons pre o t post l :
    shuffle (pre ++ t :: post) l -> shuffle (pre ++ (o :: t) :: post) (o :: l).

(* a thread that starts owning [k] references and only ever copies a reference it holds and
   destroys references it holds: [owned] never goes negative, and it copies only while owning one *)
Fixpoint thread_ok (k : nat) (t : list rop) : Prop :=
  match t with
  | [] => True
  | Inc :: r => 0 < k /\ thread_ok (S k) r
  | Dec :: r => 0 < k /\ thread_ok (pred k) r
  end.
(* references a thread still owns at the end *)
Fixpoint owned_after (k : nat) (t : list rop) : nat :=
  match t with
  | [] => k
  | Inc :: r => owned_after (S k) r
  | Dec :: r => owned_after (pred k) r
  end.

Definition sum (l : list nat) : nat := fold_right plus 0 l.

(* ---- without atomicity: a copy is a load followed by a store of (loaded + 1) ---- *)
Inductive nop := NLoad (tid : nat) | NStoreInc (tid : nat) | NDec.
Record nstate := { n_rc : nat; n_frees : nat; n_uaf : bool; n_reg : nat -> nat }.   (* per-thread register *)
Definition nstep (s : nstate) (o : nop) : nstate :=
  match o with
  | NLoad t => {| n_rc := n_rc s; n_frees := n_frees s; n_uaf := n_uaf s || Nat.eqb (n_rc s) 0;
                  n_reg := fun u => if Nat.eqb u t then n_rc s else n_reg s u |}
  | NStoreInc t => {| n_rc := S (n_reg s t); n_frees := n_frees s; n_uaf := n_uaf s; n_reg := n_reg s |}
  | NDec =>
      match n_rc s with
      | 0 => {| n_rc := 0; n_frees := n_frees s; n_uaf := true; n_reg := n_reg s |}
      | 1 => {| n_rc := 0; n_frees := S (n_frees s); n_uaf := n_uaf s; n_reg := n_reg s |}
      | S n => {| n_rc := n; n_frees := n_frees s; n_uaf := n_uaf s; n_reg := n_reg s |}
      end
  end.
Definition nrun (s : nstate) (l : list nop) : nstate := fold_left nstep l s.

(* ---- decision taken from a SECOND read: the destructor decrements atomically but decides
   "was I the last owner?" by loading the counter again (instead of using the value the
   decrement returned) ---- *)
Inductive dop := DInc | DDecOnly | DCheck.
Definition dstep (s : rstate) (o : dop) : rstate :=
  match o with
  | DInc => {| rc := S (rc s); frees := frees s; uaf := uaf s || Nat.eqb (rc s) 0 |}
  | DDecOnly => {| rc := pred (rc s); frees := frees s; uaf := uaf s || Nat.eqb (rc s) 0 |}
  | DCheck => (* load; free when it reads zero; loading from a node somebody already freed is a use after free *)
      {| rc := rc s; frees := if Nat.eqb (rc s) 0 then S (frees s) else frees s;
         uaf := uaf s || negb (Nat.eqb (frees s) 0) |}
  end.
Definition drun (s : rstate) (l : list dop) : rstate := fold_left dstep l s.
Inductive dshuffle : list (list dop) -> list dop -> Prop :=
| dshuffle_nil ths : Forall (fun t => t = []) ths -> dshuffle ths []
| dshuffle_cons pre o t post l :
    dshuffle (pre ++ t :: post) l -> dshuffle (pre ++ (o :: t) :: post) (o :: l).
(* the atomic program a re-reading program stands for *)
Definition dmerge (t : list dop) : list rop :=
  flat_map (fun o => match o with DInc => [Inc] | DDecOnly => [Dec] | DCheck => [] end) t.
