(* C12: the calling thread's floating-point environment.  A libfive call is a
   tree of sub-calls that bottoms out in primitives (one per opcode, evaluator
   kind and input class, plus Boost's interval primitives); each primitive has
   an effect on the environment.  The theorem lifts "every primitive of the
   table restores the environment" -- a finite fact validated against the
   implementation on every run -- to every call tree and every history. *)
From Coq Require Import List Arith Bool.
Import ListNotations.

Section FpEnv.
  (* rounding mode, control bits (MXCSR control part, x87 control word) *)
  Record fpenv := { rnd : nat; mxcsr_ctl : nat; x87_cw : nat }.

  Variable prim : Type.                       (* the primitives *)
  Variable eff : prim -> fpenv -> fpenv.      (* what each does to the environment *)

  (* a call: a primitive, or a sequence / repetition of sub-calls (clauses of a tape,
     points of a batch, cells of a render, iterations of the solver, oracle nesting) *)
  Inductive call :=
  | Skip
  | Prim (p : prim)
  | Seq (c1 c2 : call)
  | Rep (n : nat) (c : call).

  Fixpoint exec (c : call) (e : fpenv) : fpenv :=
    match c with
    | Skip => e
    | Prim p => eff p e
    | Seq c1 c2 => exec c2 (exec c1 e)
    | Rep n c' => Nat.iter n (exec c') e
    end.

  Fixpoint uses (c : call) (p : prim) : Prop :=
    match c with
    | Skip => False
    | Prim q => q = p
    | Seq c1 c2 => uses c1 p \/ uses c2 p
    | Rep _ c' => uses c' p
    end.

  Definition preserving (p : prim) : Prop := forall e, eff p e = e.

  Lemma exec_preserved : forall c,
    (forall p, uses c p -> preserving p) -> forall e, exec c e = e.
  Proof.
    induction c as [|p|c1 IH1 c2 IH2|n c' IH]; intros H e; simpl.
    - reflexivity.
    - apply H. reflexivity.
    - rewrite IH1 by (intros p Hp; apply H; left; exact Hp).
      apply IH2. intros p Hp; apply H; right; exact Hp.
    - simpl in H. induction n as [|n IHn]; simpl; [reflexivity|]. rewrite IHn. apply IH. exact H.
  Qed.

  (* histories: any finite sequence of calls on one thread *)
  Theorem env_preserved : forall (history : list call),
    (forall c p, In c history -> uses c p -> preserving p) ->
    forall e, fold_left (fun e' c => exec c e') history e = e.
  Proof.
    induction history as [|c h IH]; intros H e; simpl; [reflexivity|].
    rewrite exec_preserved by (intros p Hp; eapply H; [left; reflexivity | exact Hp]).
    apply IH. intros c' p Hc Hp. eapply H; [right; exact Hc | exact Hp].
  Qed.

  (* conversely one leaking primitive on the path is enough to leak: the premise
     cannot be weakened *)
  Theorem leak_propagates : forall p e, eff p e <> e -> exec (Seq Skip (Prim p)) e <> e.
  Proof. intros p e H; simpl; exact H. Qed.
End FpEnv.
