(* C14, "no OTHER shared mutable state": the policy against which the inventory of objects with
   static storage duration and of `mutable` members (Gen/Statics_gen.v, regenerated from
   libfive/src/{tree,eval,oracle} and include/libfive/{tree,eval,oracle} by translate/gen_statics.py
   on every run) is checked by the kernel.

   Every object must be shared through one of the disciplines for which the development has a
   theorem over ALL interleavings:
     - never written after the language initialised it        (SConst, SThreadLocal: not shared at all)
     - an atomic counter / flag                                 (SAtomic, SOnceFlag, SMutableMember true:
                                                                 Conc/ThreadsSem.v, one step per RMW)
     - initialised exactly once, read-only afterwards           (SLocalInit _ true with no reference handed
                                                                 out: C++11 magic static;  STable true true:
                                                                 std::call_once, every reader builds first:
                                                                 Conc/OnceInitSem.v once_no_race,
                                                                 once_reads_initialised)
   or be listed, with its reason, in [allow].  An unguarded check-then-fill table (the defect repaired
   in f5e79d3, the seeded changes C14_2 / C14_3) is STable false _ or SLocalInit _ false. *)
From Coq Require Import List String Bool.
From LF Require Import Gen.Statics_gen.
Import ListNotations.
Local Open Scope string_scope.

(* objects accepted by name: file, name, why *)
Definition allow : list (string * string * string) :=
  [ ("include/libfive/oracle/oracle_clause.hpp", "m",
     "registry of oracle (de)serialisers: written by the REGISTER_ORACLE_CLAUSE installer objects during static initialisation (and by explicit install<T>() calls of the embedding program), read by Archive (de)serialisation; not touched by copying, destroying, printing, optimising or building evaluators");
    ("include/libfive/tree/tree.hpp", "ptr",
     "the handle's own pointer (mutable so that the destructor can steal children): a Tree handle is a value owned by one thread; what threads share are the nodes, whose only mutable member is the atomic refcount") ].

Definition allowed (o : sobj) : bool :=
  existsb (fun a => String.eqb (fst (fst a)) (s_file o) && String.eqb (snd (fst a)) (s_name o)) allow.

Definition kind_ok (k : skind) : bool :=
  match k with
  | SConst | SAtomic | SOnceFlag | SThreadLocal => true
  | SLocalInit returns_reference only_returned => only_returned && negb returns_reference
  | STable writes_only_in_call_once readers_build_first => writes_only_in_call_once && readers_build_first
  | SMutableMember atomic => atomic
  | SOther => false
  end.

Definition sobj_ok (o : sobj) : bool := kind_ok (s_kind o) || allowed o.

(* which protocol covers an accepted kind *)
Inductive discipline := Immutable | AtomicRMW | InitOnce | ByName.
Definition discipline_of (o : sobj) : discipline :=
  match s_kind o with
  | SConst | SThreadLocal => Immutable
  | SAtomic | SOnceFlag => AtomicRMW
  | SMutableMember true => AtomicRMW
  | SLocalInit false true => InitOnce
  | STable true true => InitOnce
  | _ => ByName
  end.

Definition has (file name : string) (p : skind -> bool) : bool :=
  existsb (fun o => String.eqb (s_file o) file && String.eqb (s_name o) name && p (s_kind o)) statics_gen.

(* the inventory as the source stands satisfies the policy *)
Lemma statics_disciplined : forallb sobj_ok statics_gen = true.
Proof. vm_compute. reflexivity. Qed.

Lemma statics_disciplined_each : forall o, In o statics_gen -> sobj_ok o = true.
Proof. apply forallb_forall. exact statics_disciplined. Qed.

(* only objects accepted by name fall outside the three proved disciplines, and each is in [allow] *)
Lemma statics_by_name_are_listed :
  forall o, In o statics_gen -> discipline_of o = ByName -> allowed o = true.
Proof.
  assert (H : forallb (fun o => match discipline_of o with ByName => allowed o | _ => true end) statics_gen = true)
    by (vm_compute; reflexivity).
  intros o Ho E. rewrite forallb_forall in H. specialize (H o Ho). rewrite E in H. exact H.
Qed.

(* the scanner sees the objects the property's anchors name (non-vacuity of the inventory):
   the atomic reference count, the X / Y / Z / one / invalid singletons, the opcode name table
   with its once-flag *)
Definition inventory_sees_anchors : Prop :=
  has "include/libfive/tree/data.hpp" "refcount" (fun k => match k with SMutableMember true => true | _ => false end) = true /\
  has "src/tree/tree.cpp" "x" (fun k => match k with SLocalInit false true => true | _ => false end) = true /\
  has "src/tree/tree.cpp" "y" (fun k => match k with SLocalInit false true => true | _ => false end) = true /\
  has "src/tree/tree.cpp" "z" (fun k => match k with SLocalInit false true => true | _ => false end) = true /\
  has "src/tree/tree.cpp" "o" (fun k => match k with SLocalInit false true => true | _ => false end) = true /\
  has "src/tree/tree.cpp" "i" (fun k => match k with SLocalInit false true => true | _ => false end) = true /\
  has "src/tree/opcode.cpp" "opcode_names" (fun k => match k with STable true true => true | _ => false end) = true /\
  has "src/tree/opcode.cpp" "built" (fun k => match k with SOnceFlag => true | _ => false end) = true /\
  40 <= files_scanned.
Lemma statics_inventory_sees_anchors : inventory_sees_anchors.
Proof. unfold inventory_sees_anchors. vm_compute. repeat split; try reflexivity. repeat constructor. Qed.

(* the policy is not vacuous: the shapes of the repaired defect and of the seeded regressions are rejected *)
Lemma statics_policy_rejects_unguarded :
  kind_ok (STable false false) = false /\ kind_ok (STable false true) = false /\
  kind_ok (SLocalInit false false) = false /\ kind_ok (SLocalInit true true) = false /\
  kind_ok (SMutableMember false) = false /\ kind_ok SOther = false.
Proof. repeat split. Qed.
