(* C14: semantics of the initialise-once model of Conc/OnceInit.v.

   Everything in part 1 is stated for EVERY table size [n], intended content [f], number of
   threads [N], per-thread read targets [rd] (all < n) and EVERY schedule [sch] that the
   scheduler can follow from [guarded_init n f N rd] (run ... sch = Some s), i.e. for every
   reachable state of the guarded programs.

   Definitions
     idle p                      p = [] or p = guarded n f l  (thread has not entered yet)
     reading p                   p = reads l  or  p = EndR i [] :: reads l   (cells < n)
     writer t k                  the write log of an initialiser t that began cells 0..k-1
     Inv n f s                   the invariant, by the state of the once-flag (see below)

   1. guarded programs
     step_inv, run_inv, init_inv the invariant holds initially and is kept by every move
     once_no_race                race s = false
     once_reads_initialised      every logged observation (t, i, o) has i < n, o = Some (f i)
     once_single_initialiser     all writes begun were begun by one thread, no cell twice
     once_writer_shape           (stronger) wlog s = writer t0 k for some t0, k <= n
     once_progress               a thread that is not finished is enabled, or waits for a
                                 running initialiser (another thread) who is enabled
     once_no_deadlock            some thread unfinished -> some thread enabled
     once_finished_table         when the flag is Done the table is completely filled
     step_pend, run_pend         (seen so far) ++ (reads still to do) is constant per thread
     once_observations_prefix    ... = rd t at every reachable state
     once_observations_complete  a finished thread t has seen exactly
                                 map (fun i => (i, Some (f i))) (rd t), in program order
     once_same_as_alone          ... which is what it sees in any complete run of its program
                                 alone (N = 1)
     once_checkers               the decidable checkers agree: race = false, obs_okb = true,
                                 table_okb = true once the flag is Done
   2. the unguarded check-then-fill is refuted by computation
     unguarded_refuted           a schedule of two threads with a race and a torn read
     unguarded_two_writers       a schedule in which both threads fill the table
   3. non-vacuity
     once_example                a 3-thread guarded run to completion, results as claimed
     once_example_blocked        while the initialiser runs, the others are not enabled
     once_example_alone          thread 0 of the example alone: complete run, same observations *)
From Coq Require Import List Arith Bool Lia.
From LF Require Import Conc.OnceInit.
Import ListNotations.

Lemma upd_eq {A} (g : nat -> A) k a : upd g k a k = a.
Proof. unfold upd. now rewrite Nat.eqb_refl. Qed.
Lemma upd_neq {A} (g : nat -> A) k a j : j <> k -> upd g k a j = g j.
Proof. unfold upd. intros H. apply Nat.eqb_neq in H. now rewrite H. Qed.

Lemma conflict_reads t i il :
  Forall (fun e : access => snd e = false) il -> conflict t i false il = false.
Proof.
  induction 1 as [|[[u j] w] il Hw _ IH]; simpl; [reflexivity|].
  simpl in Hw. subst w. rewrite IH. now rewrite andb_false_r.
Qed.

Lemma retire_Forall (P : access -> Prop) a il : Forall P il -> Forall P (retire a il).
Proof.
  rewrite !Forall_forall. intros H x Hx. apply filter_In in Hx. now apply H.
Qed.

Lemma retire_single a : retire a [a] = [].
Proof.
  destruct a as [[u j] w]. unfold retire; simpl.
  rewrite !Nat.eqb_refl, eqb_reflx. reflexivity.
Qed.

(* reads a program still has to complete *)
Fixpoint pend (p : list instr) : list nat :=
  match p with
  | [] => []
  | EndR i _ :: r => i :: pend r
  | _ :: r => pend r
  end.
Lemma pend_app p q : pend (p ++ q) = pend p ++ pend q.
Proof. induction p as [|[] p IH]; simpl; rewrite ?IH; reflexivity. Qed.
Lemma pend_fill f k c : pend (fill f k c) = [].
Proof. revert k; induction c; simpl; auto. Qed.
Lemma pend_reads l : pend (reads l) = l.
Proof. induction l; simpl; f_equal; auto. Qed.

Lemma seen_cons u t i v ob :
  seen u ((t, i, v) :: ob) = if Nat.eqb t u then seen u ob ++ [(i, v)] else seen u ob.
Proof. unfold seen; simpl. destruct (Nat.eqb t u); reflexivity. Qed.
Lemma seen_In u ob i o : In (i, o) (seen u ob) -> In (u, i, o) ob.
Proof.
  unfold seen. rewrite <- in_rev, in_map_iff. intros ([[t j] v] & He & Hin).
  apply filter_In in Hin. destruct Hin as [Hin Ht]. simpl in *.
  apply Nat.eqb_eq in Ht. inversion He; subst. exact Hin.
Qed.
Lemma pairs_determined {A B} (g : A -> B) (l : list (A * B)) :
  (forall a b, In (a, b) l -> b = g a) -> l = map (fun a => (a, g a)) (map fst l).
Proof.
  induction l as [|[a b] l IH]; simpl; intros H; [reflexivity|].
  rewrite (H a b) by auto. f_equal. apply IH. intros; apply H; auto.
Qed.

Section Guarded.
  Context (n : nat) (f : nat -> V).
  Notation lt_n := (Forall (fun i => i < n)).

  Definition idle (p : list instr) : Prop :=
    p = [] \/ exists l, lt_n l /\ p = guarded n f l.
  Definition reading (p : list instr) : Prop :=
    exists l, lt_n l /\ (p = reads l \/ exists i, i < n /\ p = EndR i [] :: reads l).
  Definition writer (t : tid) (k : nat) : list (tid * nat) :=
    map (fun j => (t, j)) (rev (seq 0 k)).

  Definition Inv (s : state) : Prop :=
    race s = false /\
    match flag s with
    | Fresh =>
        (forall u, idle (prog s u)) /\ infl s = [] /\ obs s = [] /\ wlog s = []
    | Running t =>
        (forall u, u <> t -> idle (prog s u)) /\ obs s = [] /\
        exists k l, k <= n /\ lt_n l /\ (forall i, i < k -> cells s i = Some (f i)) /\
          ((prog s t = fill f k (n - k) ++ OnceExit :: reads l /\
            infl s = [] /\ wlog s = writer t k) \/
           (k < n /\
            prog s t = EndW k (f k) :: fill f (S k) (n - S k) ++ OnceExit :: reads l /\
            infl s = [(t, k, true)] /\ wlog s = writer t (S k)))
    | Done =>
        (forall u, idle (prog s u) \/ reading (prog s u)) /\
        Forall (fun e : access => snd e = false) (infl s) /\
        (forall i, i < n -> cells s i = Some (f i)) /\
        Forall (fun o : tid * nat * option V =>
                  snd (fst o) < n /\ snd o = Some (f (snd (fst o)))) (obs s) /\
        exists t, wlog s = writer t n
    end.

  Lemma step_inv s t s' : Inv s -> step s t = Some s' -> Inv s'.
  Proof.
    destruct s as [c il fl rc ob wl pr]. unfold Inv, step; simpl.
    intros [Hr H] Hs. subst rc.
    destruct fl as [|t0|].
    - (* Fresh: only Once can move, the mover becomes the initialiser *)
      destruct H as (Hid & -> & -> & ->).
      destruct (Hid t) as [He | (l & Hl & He)]; rewrite He in Hs; simpl in Hs; [discriminate|].
      inversion Hs; subst s'; clear Hs; simpl.
      split; [reflexivity|]. split.
      { intros u Hu. rewrite upd_neq by assumption. apply Hid. }
      split; [reflexivity|].
      exists 0, l. split; [lia|]. split; [assumption|]. split; [intros; lia|].
      left. rewrite upd_eq, Nat.sub_0_r. auto.
    - (* Running t0: only t0 can move *)
      destruct H as (Hid & -> & k & l & Hk & Hl & Hc & H).
      destruct (Nat.eq_dec t t0) as [->|Hne].
      2:{ destruct (Hid t Hne) as [He | (l' & Hl' & He)]; rewrite He in Hs; simpl in Hs;
          discriminate. }
      destruct H as [(Hp & -> & ->) | (Hkn & Hp & -> & ->)]; rewrite Hp in Hs.
      + destruct (Nat.eq_dec k n) as [->|Hkn].
        * (* OnceExit *)
          rewrite Nat.sub_diag in Hs. simpl in Hs. rewrite Nat.eqb_refl in Hs.
          inversion Hs; subst s'; clear Hs; simpl.
          split; [reflexivity|]. split.
          { intros u. destruct (Nat.eq_dec u t0) as [->|Hu].
            - rewrite upd_eq. right. exists l. auto.
            - rewrite upd_neq by assumption. left. auto. }
          split; [constructor|]. split; [assumption|]. split; [constructor|].
          exists t0; reflexivity.
        * (* BeginW k *)
          replace (n - k) with (S (n - S k)) in Hs by lia. simpl in Hs.
          inversion Hs; subst s'; clear Hs; simpl.
          split; [reflexivity|]. split.
          { intros u Hu. rewrite upd_neq by assumption. auto. }
          split; [reflexivity|].
          exists k, l. split; [assumption|]. split; [assumption|]. split; [assumption|].
          right. rewrite upd_eq. split; [lia|]. split; [reflexivity|]. split; [reflexivity|].
          unfold writer. rewrite seq_S, rev_app_distr. reflexivity.
      + (* EndW k *)
        simpl in Hs. inversion Hs; subst s'; clear Hs; simpl.
        split; [reflexivity|]. split.
        { intros u Hu. rewrite upd_neq by assumption. auto. }
        split; [reflexivity|].
        exists (S k), l. split; [lia|]. split; [assumption|]. split.
        { intros i Hi. destruct (Nat.eq_dec i k) as [->|Hik].
          - apply upd_eq.
          - rewrite upd_neq by assumption. apply Hc. lia. }
        left. rewrite upd_eq, !Nat.eqb_refl. simpl. auto.
    - (* Done: pass through, or read *)
      destruct H as (Hth & Hil & Hc & Hob & t1 & ->).
      assert (Hothers : forall p, reading p ->
                forall u, idle (upd pr t p u) \/ reading (upd pr t p u)).
      { intros p Hp u. destruct (Nat.eq_dec u t) as [->|Hu].
        - rewrite upd_eq. now right.
        - rewrite upd_neq by assumption. apply Hth. }
      destruct (Hth t) as [[He | (l & Hl & He)] | (l & Hl & [He | (i & Hi & He)])];
        rewrite He in Hs; simpl in Hs.
      + discriminate.
      + inversion Hs; subst s'; clear Hs; simpl.
        split; [reflexivity|]. split; [apply Hothers; exists l; auto|].
        split; [assumption|]. split; [assumption|]. split; [assumption|]. now exists t1.
      + destruct l as [|i l]; simpl in Hs; [discriminate|].
        inversion Hl; subst.
        inversion Hs; subst s'; clear Hs; simpl.
        split; [now apply conflict_reads|].
        split; [apply Hothers; exists l; split; [assumption|]; right; exists i; auto|].
        split; [constructor; [reflexivity|assumption]|].
        split; [assumption|]. split; [assumption|]. now exists t1.
      + rewrite (Hc i Hi) in Hs.
        inversion Hs; subst s'; clear Hs; simpl.
        split; [reflexivity|]. split; [apply Hothers; exists l; auto|].
        split; [now apply retire_Forall|]. split; [assumption|].
        split; [constructor; [simpl; auto|assumption]|]. now exists t1.
  Qed.

  Lemma run_inv sch : forall s s', Inv s -> run s sch = Some s' -> Inv s'.
  Proof.
    induction sch as [|t sch IH]; simpl; intros s s' HI Hr.
    - now inversion Hr; subst.
    - destruct (step s t) as [s1|] eqn:Hs; [|discriminate].
      eapply IH; [|exact Hr]. eapply step_inv; eassumption.
  Qed.

  Lemma init_inv N rd : (forall t, lt_n (rd t)) -> Inv (guarded_init n f N rd).
  Proof.
    intros Hrd. unfold Inv, guarded_init, init; simpl.
    split; [reflexivity|]. split; [|auto].
    intros u. destruct (u <? N); [right; exists (rd u); auto | now left].
  Qed.

  Lemma reach_inv N rd sch s :
    (forall t, lt_n (rd t)) -> run (guarded_init n f N rd) sch = Some s -> Inv s.
  Proof. intros Hrd Hr. eapply run_inv; [apply init_inv; exact Hrd | exact Hr]. Qed.

  (* bookkeeping: what a thread has seen so far ++ what it still has to read never changes *)
  Lemma step_pend s t s' : Inv s -> step s t = Some s' ->
    forall u, map fst (seen u (obs s')) ++ pend (prog s' u) =
              map fst (seen u (obs s)) ++ pend (prog s u).
  Proof.
    destruct s as [c il fl rc ob wl pr]. unfold Inv, step; simpl.
    intros [Hr H] Hs u.
    assert (Hfin : forall p ob', s' = mk (cells s') (infl s') (flag s') (race s') ob' (wlog s')
                                         (upd pr t p) ->
              (u = t -> map fst (seen t ob') ++ pend p = map fst (seen t ob) ++ pend (pr t)) ->
              (u <> t -> seen u ob' = seen u ob) ->
              map fst (seen u (obs s')) ++ pend (prog s' u) =
              map fst (seen u ob) ++ pend (pr u)).
    { intros p ob' -> H1 H2; simpl. destruct (Nat.eq_dec u t) as [->|Hu].
      - rewrite upd_eq. auto.
      - rewrite upd_neq, H2 by assumption. reflexivity. }
    destruct fl as [|t0|].
    - destruct H as (Hid & -> & -> & ->).
      destruct (Hid t) as [He | (l & Hl & He)]; rewrite He in Hs; simpl in Hs; [discriminate|].
      inversion Hs; subst s'; clear Hs; simpl in *.
      eapply Hfin; [reflexivity| |reflexivity].
      intros _. rewrite He. simpl. now rewrite pend_app, pend_fill.
    - destruct H as (Hid & -> & k & l & Hk & Hl & Hc & H).
      destruct (Nat.eq_dec t t0) as [->|Hne].
      2:{ destruct (Hid t Hne) as [He | (l' & Hl' & He)]; rewrite He in Hs; simpl in Hs;
          discriminate. }
      destruct H as [(Hp & -> & ->) | (Hkn & Hp & -> & ->)]; rewrite Hp in Hs.
      + destruct (Nat.eq_dec k n) as [->|Hkn].
        * rewrite Nat.sub_diag in Hs. simpl in Hs. rewrite Nat.eqb_refl in Hs.
          inversion Hs; subst s'; clear Hs; simpl in *.
          eapply Hfin; [reflexivity| |reflexivity].
          intros _. rewrite Hp, Nat.sub_diag. reflexivity.
        * replace (n - k) with (S (n - S k)) in Hs by lia. simpl in Hs.
          inversion Hs; subst s'; clear Hs; simpl in *.
          eapply Hfin; [reflexivity| |reflexivity].
          intros _. rewrite Hp. replace (n - k) with (S (n - S k)) by lia. reflexivity.
      + simpl in Hs. inversion Hs; subst s'; clear Hs; simpl in *.
        eapply Hfin; [reflexivity| |reflexivity].
        intros _. rewrite Hp. reflexivity.
    - destruct H as (Hth & Hil & Hc & Hob & t1 & ->).
      destruct (Hth t) as [[He | (l & Hl & He)] | (l & Hl & [He | (i & Hi & He)])];
        rewrite He in Hs; simpl in Hs.
      + discriminate.
      + inversion Hs; subst s'; clear Hs; simpl in *.
        eapply Hfin; [reflexivity| |reflexivity].
        intros _. rewrite He. reflexivity.
      + destruct l as [|i l]; simpl in Hs; [discriminate|].
        inversion Hs; subst s'; clear Hs; simpl in *.
        eapply Hfin; [reflexivity| |reflexivity].
        intros _. rewrite He. reflexivity.
      + rewrite (Hc i Hi) in Hs.
        inversion Hs; subst s'; clear Hs; simpl in *.
        eapply Hfin; [reflexivity| |].
        * intros _. rewrite He, seen_cons, Nat.eqb_refl, map_app, <- app_assoc. reflexivity.
        * intros Hu. rewrite seen_cons. apply not_eq_sym, Nat.eqb_neq in Hu. now rewrite Hu.
  Qed.

  Lemma run_pend sch : forall s s', Inv s -> run s sch = Some s' ->
    forall u, map fst (seen u (obs s')) ++ pend (prog s' u) =
              map fst (seen u (obs s)) ++ pend (prog s u).
  Proof.
    induction sch as [|t sch IH]; simpl; intros s s' HI Hr u.
    - now inversion Hr; subst.
    - destruct (step s t) as [s1|] eqn:Hs; [|discriminate].
      rewrite (IH s1 s' (step_inv s t s1 HI Hs) Hr u). eapply step_pend; eassumption.
  Qed.

  (* consequences of the invariant *)
  Lemma inv_writer s : Inv s -> exists t0 k, k <= n /\ wlog s = writer t0 k.
  Proof.
    unfold Inv. intros [_ H]. destruct (flag s) as [|t0|].
    - destruct H as (_ & _ & _ & ->). exists 0, 0. split; [lia|reflexivity].
    - destruct H as (_ & _ & k & l & Hk & _ & _ & [(_ & _ & ->) | (Hkn & _ & _ & ->)]).
      + exists t0, k. auto.
      + exists t0, (S k). split; [lia|reflexivity].
    - destruct H as (_ & _ & _ & _ & t1 & ->). exists t1, n. auto.
  Qed.

  Lemma inv_obs s : Inv s ->
    forall t i o, In (t, i, o) (obs s) -> i < n /\ o = Some (f i).
  Proof.
    unfold Inv. intros [_ H] t i o Hin. destruct (flag s).
    - destruct H as (_ & _ & Ho & _). rewrite Ho in Hin. destruct Hin.
    - destruct H as (_ & Ho & _). rewrite Ho in Hin. destruct Hin.
    - destruct H as (_ & _ & _ & Ho & _). rewrite Forall_forall in Ho.
      apply (Ho _ Hin).
  Qed.

  Lemma inv_progress s : Inv s -> forall t, prog s t <> [] ->
    (exists s', step s t = Some s') \/
    (exists t0 s', flag s = Running t0 /\ t0 <> t /\ step s t0 = Some s').
  Proof.
    destruct s as [c il fl rc ob wl pr]. unfold Inv; simpl.
    intros [_ H] t Ht.
    destruct fl as [|t0|].
    - destruct H as (Hid & _). left.
      destruct (Hid t) as [He | (l & _ & He)]; [contradiction|].
      unfold step; simpl. rewrite He; simpl. eexists; reflexivity.
    - destruct H as (Hid & _ & k & l & Hk & _ & _ & H).
      assert (Hen : exists s', step (mk c il (Running t0) rc ob wl pr) t0 = Some s').
      { unfold step; simpl.
        destruct H as [(Hp & _) | (Hkn & Hp & _)]; rewrite Hp.
        - destruct (Nat.eq_dec k n) as [->|Hkn].
          + rewrite Nat.sub_diag; simpl. rewrite Nat.eqb_refl. eexists; reflexivity.
          + replace (n - k) with (S (n - S k)) by lia. simpl. eexists; reflexivity.
        - eexists; reflexivity. }
      destruct Hen as [s' Hs'].
      destruct (Nat.eq_dec t t0) as [->|Hne].
      + left. eauto.
      + right. exists t0, s'. auto.
    - destruct H as (Hth & _ & Hc & _). left. unfold step; simpl.
      destruct (Hth t) as [[He | (l & _ & He)] | (l & _ & [He | (i & Hi & He)])].
      + contradiction.
      + rewrite He; simpl. eexists; reflexivity.
      + destruct l as [|i l]; [contradiction|]. rewrite He; simpl. eexists; reflexivity.
      + rewrite He; simpl. eexists; reflexivity.
  Qed.

  Lemma inv_done_table s : Inv s -> flag s = Done ->
    forall i, i < n -> cells s i = Some (f i).
  Proof. unfold Inv. intros [_ H] Hf. rewrite Hf in H. apply H. Qed.

  Lemma writer_In t0 k u i : In (u, i) (writer t0 k) -> u = t0 /\ i < k.
  Proof.
    unfold writer. rewrite in_map_iff. intros (j & Hj & Hin).
    inversion Hj; subst. apply in_rev, in_seq in Hin. split; [reflexivity|lia].
  Qed.
  Lemma writer_snd t0 k : map snd (writer t0 k) = rev (seq 0 k).
  Proof. unfold writer. rewrite map_map. simpl. apply map_id. Qed.
  Lemma writer_NoDup t0 k : NoDup (map snd (writer t0 k)).
  Proof.
    rewrite writer_snd. apply NoDup_rev, seq_NoDup.
  Qed.
End Guarded.

(* ------------------------------------------------------------------ *)
(* 1. the guarded programs, every number of threads, every schedule   *)

Definition in_range (n : nat) (rd : tid -> list nat) : Prop :=
  forall t, Forall (fun i => i < n) (rd t).

Theorem once_no_race : forall n f N rd sch s,
  in_range n rd -> run (guarded_init n f N rd) sch = Some s -> race s = false.
Proof. intros n f N rd sch s Hrd Hr. exact (proj1 (reach_inv n f N rd sch s Hrd Hr)). Qed.

Theorem once_reads_initialised : forall n f N rd sch s,
  in_range n rd -> run (guarded_init n f N rd) sch = Some s ->
  forall t i o, In (t, i, o) (obs s) -> i < n /\ o = Some (f i).
Proof.
  intros n f N rd sch s Hrd Hr. apply inv_obs. exact (reach_inv n f N rd sch s Hrd Hr).
Qed.

Theorem once_writer_shape : forall n f N rd sch s,
  in_range n rd -> run (guarded_init n f N rd) sch = Some s ->
  exists t0 k, k <= n /\ wlog s = writer t0 k.
Proof.
  intros n f N rd sch s Hrd Hr. apply (inv_writer n f). exact (reach_inv n f N rd sch s Hrd Hr).
Qed.

(* all writes ever begun were begun by ONE thread, and no cell was written twice *)
Theorem once_single_initialiser : forall n f N rd sch s,
  in_range n rd -> run (guarded_init n f N rd) sch = Some s ->
  (exists t0, forall u i, In (u, i) (wlog s) -> u = t0 /\ i < n) /\
  NoDup (map snd (wlog s)).
Proof.
  intros n f N rd sch s Hrd Hr.
  destruct (once_writer_shape n f N rd sch s Hrd Hr) as (t0 & k & Hk & ->).
  split; [|apply writer_NoDup].
  exists t0. intros u i Hin. apply writer_In in Hin. split; [tauto|lia].
Qed.

(* a thread that has not finished can move, or it waits for a running initialiser -- another
   thread -- who can move *)
Theorem once_progress : forall n f N rd sch s,
  in_range n rd -> run (guarded_init n f N rd) sch = Some s ->
  forall t, prog s t <> [] ->
  (exists s', step s t = Some s') \/
  (exists t0 s', flag s = Running t0 /\ t0 <> t /\ step s t0 = Some s').
Proof.
  intros n f N rd sch s Hrd Hr. apply (inv_progress n f).
  exact (reach_inv n f N rd sch s Hrd Hr).
Qed.

Theorem once_no_deadlock : forall n f N rd sch s,
  in_range n rd -> run (guarded_init n f N rd) sch = Some s ->
  (exists t, prog s t <> []) -> exists u s', step s u = Some s'.
Proof.
  intros n f N rd sch s Hrd Hr [t Ht].
  destruct (once_progress n f N rd sch s Hrd Hr t Ht) as [[s' H] | (t0 & s' & _ & _ & H)];
    eauto.
Qed.

Theorem once_finished_table : forall n f N rd sch s,
  in_range n rd -> run (guarded_init n f N rd) sch = Some s ->
  flag s = Done -> forall i, i < n -> cells s i = Some (f i).
Proof.
  intros n f N rd sch s Hrd Hr. apply inv_done_table.
  exact (reach_inv n f N rd sch s Hrd Hr).
Qed.

(* "each thread observes the same results as if it ran alone": at any moment, what thread t has
   seen so far, followed by the reads it still has to do, is exactly its list of read targets *)
Theorem once_observations_prefix : forall n f N rd sch s,
  in_range n rd -> run (guarded_init n f N rd) sch = Some s ->
  forall t, t < N ->
  seen t (obs s) = map (fun i => (i, Some (f i))) (map fst (seen t (obs s))) /\
  map fst (seen t (obs s)) ++ pend (prog s t) = rd t.
Proof.
  intros n f N rd sch s Hrd Hr t Ht. split.
  - apply (pairs_determined (fun i => Some (f i))). intros a b Hin. apply seen_In in Hin.
    apply (once_reads_initialised n f N rd sch s Hrd Hr) in Hin. tauto.
  - pose proof (run_pend n f sch _ _ (init_inv n f N rd Hrd) Hr t) as H.
    unfold guarded_init, init in H; simpl in H.
    apply Nat.ltb_lt in Ht. rewrite Ht in H. simpl in H. rewrite pend_reads in H. exact H.
Qed.

(* a thread that has finished has seen exactly the intended content of the cells it read, in
   its own program order, whatever the other threads and the scheduler did *)
Theorem once_observations_complete : forall n f N rd sch s,
  in_range n rd -> run (guarded_init n f N rd) sch = Some s ->
  forall t, t < N -> prog s t = [] ->
  seen t (obs s) = map (fun i => (i, Some (f i))) (rd t).
Proof.
  intros n f N rd sch s Hrd Hr t Ht Hfin.
  destruct (once_observations_prefix n f N rd sch s Hrd Hr t Ht) as [H1 H2].
  rewrite Hfin, app_nil_r in H2. rewrite H1, H2. reflexivity.
Qed.

(* ... in particular the same as in ANY complete run of that thread's program alone *)
Theorem once_same_as_alone : forall n f N rd sch s t,
  in_range n rd -> run (guarded_init n f N rd) sch = Some s -> t < N -> prog s t = [] ->
  forall sch1 s1, run (guarded_init n f 1 (fun _ => rd t)) sch1 = Some s1 -> prog s1 0 = [] ->
  seen t (obs s) = seen 0 (obs s1).
Proof.
  intros n f N rd sch s t Hrd Hr Ht Hfin sch1 s1 Hr1 Hfin1.
  rewrite (once_observations_complete n f N rd sch s Hrd Hr t Ht Hfin).
  assert (Hrd1 : in_range n (fun _ : tid => rd t)) by (intros _; apply Hrd).
  rewrite (once_observations_complete n f 1 _ sch1 s1 Hrd1 Hr1 0 (Nat.lt_0_1) Hfin1).
  reflexivity.
Qed.

(* the decidable checkers of OnceInit.v agree *)
Theorem once_checkers : forall n f N rd sch s,
  in_range n rd -> run (guarded_init n f N rd) sch = Some s ->
  race s = false /\ obs_okb n f s = true /\ (flag s = Done -> table_okb n f s = true).
Proof.
  intros n f N rd sch s Hrd Hr. split; [eapply once_no_race; eassumption|]. split.
  - unfold obs_okb. apply forallb_forall. intros [[t i] o] Hin.
    apply (once_reads_initialised n f N rd sch s Hrd Hr) in Hin. destruct Hin as [Hi ->].
    apply Nat.ltb_lt in Hi. rewrite Hi. simpl. apply Nat.eqb_refl.
  - intros Hd. unfold table_okb. apply forallb_forall. intros i Hin. apply in_seq in Hin.
    rewrite (once_finished_table n f N rd sch s Hrd Hr Hd i) by lia. simpl. apply Nat.eqb_refl.
Qed.

(* ------------------------------------------------------------------ *)
(* 2. the unguarded check-then-fill                                   *)

Definition f10 (i : nat) : V := 10 + i.

(* thread 0 finds cell 0 empty and starts filling; thread 1 then finds cell 0 filled, skips
   the fill and reads cell 1 while thread 0 is still writing it *)
Definition torn_schedule : list tid := [0; 0; 0; 0; 1; 1; 0; 1; 1; 0].
Definition torn_reads (t : tid) : list nat := if Nat.eqb t 1 then [1] else [].

Theorem unguarded_refuted :
  in_range 2 torn_reads /\
  exists s, run (unguarded_init 2 f10 2 torn_reads) torn_schedule = Some s /\
    race s = true /\
    In (1, 0, Some (f10 0)) (obs s) /\            (* thread 1 saw cell 0 filled ... *)
    In (1, 1, None) (obs s) /\                    (* ... and then cell 1 empty *)
    obs_okb 2 f10 s = false /\
    finishedb 2 s = true.
Proof.
  split.
  { intros t. unfold torn_reads. destruct (Nat.eqb t 1); repeat constructor. }
  eexists. split; [vm_compute; reflexivity|].
  vm_compute. repeat split; auto.
Qed.

(* both threads find cell 0 empty, both fill *)
Definition both_schedule : list tid := [0; 1; 0; 1; 0; 1; 0; 1; 0; 1; 0; 1].

Theorem unguarded_two_writers :
  exists s, run (unguarded_init 2 f10 2 (fun _ => [])) both_schedule = Some s /\
    race s = true /\
    In (0, 0) (wlog s) /\ In (1, 0) (wlog s) /\   (* cell 0 written by both threads *)
    single_writerb s = false /\
    finishedb 2 s = true.
Proof.
  eexists. split; [vm_compute; reflexivity|].
  vm_compute. repeat split; auto.
Qed.

(* ------------------------------------------------------------------ *)
(* 3. non-vacuity: a concrete guarded run                             *)

Definition ex_reads (t : tid) : list nat :=
  match t with 0 => [1; 0] | 1 => [2] | 2 => [0; 2] | _ => [] end.
(* thread 1 wins the race for the flag; threads 0 and 2 enter after it is Done and their
   reads interleave *)
Definition ex_schedule : list tid :=
  [1; 1; 1; 1; 1; 1; 1; 1; 0; 2; 0; 2; 1; 0; 1; 2; 0; 2; 0; 2].

Theorem once_example :
  in_range 3 ex_reads /\
  exists s, run (guarded_init 3 f10 3 ex_reads) ex_schedule = Some s /\
    finishedb 3 s = true /\
    race s = false /\
    flag s = Done /\
    obs s = [(2, 2, Some 12); (0, 0, Some 10); (2, 0, Some 10);
             (1, 2, Some 12); (0, 1, Some 11)] /\
    wlog s = [(1, 2); (1, 1); (1, 0)] /\
    seen 0 (obs s) = [(1, Some 11); (0, Some 10)] /\
    seen 1 (obs s) = [(2, Some 12)] /\
    seen 2 (obs s) = [(0, Some 10); (2, Some 12)] /\
    obs_okb 3 f10 s = true /\ table_okb 3 f10 s = true /\ single_writerb s = true /\
    infl s = [].
Proof.
  split.
  { intros t. unfold ex_reads. destruct t as [|[|[|t]]]; repeat constructor. }
  eexists. split; [vm_compute; reflexivity|].
  vm_compute. repeat split; auto.
Qed.

(* while the initialiser (thread 1) is running, threads 0 and 2 are blocked, thread 1 is not *)
Theorem once_example_blocked :
  exists s, run (guarded_init 3 f10 3 ex_reads) [1; 1; 1] = Some s /\
    flag s = Running 1 /\
    enabledb s 0 = false /\ enabledb s 2 = false /\ enabledb s 1 = true /\
    run s [0] = None.
Proof.
  eexists. split; [vm_compute; reflexivity|].
  vm_compute. repeat split; auto.
Qed.

(* thread 0 of the example alone: a complete run exists, and it sees the same *)
Theorem once_example_alone :
  exists s1, run (guarded_init 3 f10 1 (fun _ => ex_reads 0)) (repeat 0 12) = Some s1 /\
    prog s1 0 = [] /\ seen 0 (obs s1) = [(1, Some 11); (0, Some 10)].
Proof.
  eexists. split; [vm_compute; reflexivity|]. vm_compute. auto.
Qed.

Print Assumptions once_no_race.
Print Assumptions once_reads_initialised.
Print Assumptions once_single_initialiser.
Print Assumptions once_writer_shape.
Print Assumptions once_progress.
Print Assumptions once_no_deadlock.
Print Assumptions once_finished_table.
Print Assumptions once_observations_prefix.
Print Assumptions once_observations_complete.
Print Assumptions once_same_as_alone.
Print Assumptions once_checkers.
Print Assumptions once_example_alone.
Print Assumptions unguarded_refuted.
Print Assumptions unguarded_two_writers.
Print Assumptions once_example.
Print Assumptions once_example_blocked.
