(* C13: the work-list destructor Tree::~Tree moves EVERY child handle out of a node before deleting it.
   Gen/TreeDtor_gen.v (translate/gen_dtor.py, regenerated on every run) lists, from data.hpp, the members of type Tree of
   every alternative of the node variant and, from tree.cpp, the members the destructor's get_if ladder pushes on its work
   list; the translator also checks the skeleton by shape (`if (--ptr->refcount) return;`, the guard
   `t == ptr || !--t->refcount` - decision taken from the decrement's own result -, `delete t` last, the constructor's
   `d->refcount++`).  The model's [drop_loop] (Conc/Refcount.v) continues with ALL kids of a freed node: that is the code's
   behaviour exactly when the two tables agree, which the kernel checks here.  A member that is not stolen would be destroyed
   by the node's own (recursive) destructor: unbounded native stack on deep chains - the seeded change C13. *)
From Coq Require Import List String Bool Arith.
From LF Require Import Gen.TreeDtor_gen.
Import ListNotations.
Local Open Scope string_scope.

Fixpoint lookup (k : string) (l : list (string * list string)) : option (list string) :=
  match l with
  | [] => None
  | (k', v) :: r => if String.eqb k k' then Some v else lookup k r
  end.

Fixpoint list_eqb (a b : list string) : bool :=
  match a, b with
  | [], [] => true
  | x :: a', y :: b' => String.eqb x y && list_eqb a' b'
  | _, _ => false
  end.

Lemma list_eqb_eq a b : list_eqb a b = true -> a = b.
Proof.
  revert b; induction a as [|x a IH]; destruct b as [|y b]; cbn; try discriminate; [reflexivity|].
  intros H. apply andb_true_iff in H. destruct H as [H1 H2]. apply String.eqb_eq in H1. rewrite H1, (IH b H2). reflexivity.
Qed.

(* an alternative with Tree members is handled by the ladder and all its members are stolen, in declaration order;
   an alternative without Tree members needs no arm; the ladder names no unknown alternative and no alternative twice *)
Definition alt_ok (e : string * list string) : bool :=
  match snd e, lookup (fst e) dtor_stolen_gen with
  | [], None => true
  | [], Some s => list_eqb s []
  | fs, Some s => list_eqb s fs
  | _ :: _, None => false
  end.
Definition ladder_ok : bool :=
  forallb (fun e => match lookup (fst e) node_tree_fields_gen with Some _ => true | None => false end) dtor_stolen_gen
  && Nat.eqb (List.length (nodup string_dec (map fst dtor_stolen_gen))) (List.length dtor_stolen_gen).

Lemma dtor_tables_ok : forallb alt_ok node_tree_fields_gen && ladder_ok = true.
Proof. vm_compute. reflexivity. Qed.

Theorem destructor_steals_every_child :
  forall alt fs, In (alt, fs) node_tree_fields_gen -> fs <> [] ->
  exists s, lookup alt dtor_stolen_gen = Some s /\ s = fs.
Proof.
  intros alt fs Hin Hne.
  pose proof dtor_tables_ok as H. apply andb_true_iff in H. destruct H as [H _].
  rewrite forallb_forall in H. specialize (H (alt, fs) Hin). unfold alt_ok in H. cbn [fst snd] in H.
  destruct fs as [|f fs]; [contradiction Hne; reflexivity|].
  destruct (lookup alt dtor_stolen_gen) as [s|]; [|discriminate].
  exists s. split; [reflexivity | apply list_eqb_eq; exact H].
Qed.

(* the tables are the expected shape: the four alternatives with children, the arities the model's [owned] uses *)
Definition dtor_tables_shape : Prop :=
  lookup "TreeUnaryOp" dtor_stolen_gen = Some ["lhs"] /\
  lookup "TreeBinaryOp" dtor_stolen_gen = Some ["lhs"; "rhs"] /\
  lookup "TreeRemap" dtor_stolen_gen = Some ["x"; "y"; "z"; "t"] /\
  lookup "TreeApply" dtor_stolen_gen = Some ["target"; "value"; "t"] /\
  List.length node_tree_fields_gen = 8.
Lemma dtor_tables_shape_ok : dtor_tables_shape.
Proof. unfold dtor_tables_shape. vm_compute. repeat split; reflexivity. Qed.
