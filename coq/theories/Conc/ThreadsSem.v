(* C14: semantics of the concurrent reference-count model of Conc/Threads.v.

   Everything below is stated "for all [l] with [shuffle ths l]", i.e. for ALL interleavings
   of ANY number of threads.  [init ks] is the initial state
   {| rc := sum ks; frees := 0; uaf := false |}; hypotheses are always
   [Forall2 thread_ok ks ths] (which implies [length ks = length ths], see [thread_ok_length])
   and [0 < sum ks] (somebody owns the node at the start).

   Definitions
     map2                        zip-with (not in the 8.16 standard library)
     init ks                     the initial state
     Inv ks s                    rc s = sum ks /\ uaf s = false /\
                                 frees s = (if sum ks =? 0 then 1 else 0)
     atomize                     non-atomic program -> atomic program (a Load/StoreInc pair
                                 becomes one Inc)
     nshuffle                    [shuffle] for non-atomic programs

   shuffle sanity
     shuffle_perm                shuffle ths l -> Permutation l (concat ths)
     shuffle_length              shuffle ths l -> length l = sum (map (@length rop) ths)
     shuffle_all_nil             shuffle ths l -> Forall (fun t => t = []) ths -> l = []
     shuffle_split               every prefix/suffix of an interleaving is an interleaving of
                                 per-thread prefixes/suffixes: ths = map2 app done rest,
                                 shuffle done (firstn n l), shuffle rest (skipn n l)
     shuffle_not_unique          a 2-thread program with two different interleavings

   1. invariant
     inv_step                    one step of any thread that is allowed to move preserves Inv
     inv_run                     (inductive form) shuffle ths l -> Forall2 thread_ok ks ths ->
                                 Inv ks s -> Inv (map2 owned_after ks ths) (rrun s l)
     prefix_invariant_gen        the same at every prefix, with the per-thread progress
     prefix_invariant            from [init ks]: at every prefix [firstn n l] there is a
                                 per-thread progress [done] with owned_now = map2 owned_after ks done,
                                 rc = sum owned_now, uaf = false, (0 < sum owned_now -> frees = 0),
                                 (sum owned_now = 0 -> frees = 1)
     no_use_after_free           uaf (rrun (init ks) l) = false
     freed_at_most_once          frees (rrun (init ks) l) <= 1
     rc_final                    rc (rrun (init ks) l) = sum (map2 owned_after ks ths)
     freed_iff_all_released      frees (rrun (init ks) l) = 1 <-> sum (map2 owned_after ks ths) = 0
     still_alive                 0 < sum (map2 owned_after ks ths) -> frees = 0 /\ rc = that sum
     freed_prefix_is_all         frees (rrun (init ks) (firstn n l)) = 1 -> firstn n l = l
     freed_by_last_dec           l = l1 ++ o :: l2 -> frees (rrun (init ks) (l1 ++ [o])) = 1 ->
                                 l2 = [] /\ o = Dec
     never_freed_early           l = l1 ++ o :: l2 -> frees (rrun (init ks) l1) = 0
     hypotheses are needed:
     no_owner_refuted            with sum ks = 0 (and vacuous thread_ok) nothing is ever freed although
                                 everything is released: [0 < sum ks] is needed for freed_iff_all_released
     thread_ok_needed_refuted    a thread that destroys more than it owns gives a use-after-free
     three_threads_safe          Example: three owners, two of which copy; every interleaving frees
                                 the node exactly once, with no use-after-free

   3. without atomicity
     nonatomic_refuted           from n_rc = 1: two non-atomic copies and three destroys, interleaved
                                 Load0 Load1 Store0 Store1 Dec Dec Dec: n_uaf = true (n_frees = 1);
                                 the SAME interleaving with atomic Inc is safe
     nonatomic_refuted_owned     the same with every thread owning the reference it copies (n_rc = 3,
                                 thread_ok holds): the non-atomic interleaving has a use-after-free,
                                 while its atomic programs are safe in EVERY interleaving (theorem 1)
     nonatomic_leak              the other failure of a lost update: all references released, the
                                 node is never freed (n_rc = 3 at the end, n_frees = 0)
*)
From Coq Require Import List Arith Bool Lia Permutation.
From LF Require Import Conc.Threads.
Import ListNotations.

Fixpoint map2 {A B C} (f : A -> B -> C) (la : list A) (lb : list B) : list C :=
  match la, lb with
  | a :: la', b :: lb' => f a b :: map2 f la' lb'
  | _, _ => []
  end.

Definition init (ks : list nat) : rstate := {| rc := sum ks; frees := 0; uaf := false |}.

Definition Inv (ks : list nat) (s : rstate) : Prop :=
  rc s = sum ks /\ uaf s = false /\ frees s = (if Nat.eqb (sum ks) 0 then 1 else 0).

(* ---------- small facts ---------- *)

Lemma sum_app a b : sum (a ++ b) = sum a + sum b.
Proof. induction a; simpl; [reflexivity|]. unfold sum in *; simpl; lia. Qed.

Lemma sum_cons a l : sum (a :: l) = a + sum l.
Proof. reflexivity. Qed.

Lemma map2_app {A B C} (f : A -> B -> C) a a' b b' :
  length a = length b -> map2 f (a ++ a') (b ++ b') = map2 f a b ++ map2 f a' b'.
Proof.
  revert b; induction a; intros [|y b] H; simpl in *; try discriminate; [reflexivity|].
  f_equal. apply IHa. lia.
Qed.

Lemma map2_length {A B C} (f : A -> B -> C) a b :
  length a = length b -> length (map2 f a b) = length a.
Proof. revert b; induction a; intros [|y b] H; simpl in *; try discriminate; auto. Qed.

Lemma rrun_app s l1 l2 : rrun s (l1 ++ l2) = rrun (rrun s l1) l2.
Proof. apply fold_left_app. Qed.

Lemma Forall2_len {A B} (R : A -> B -> Prop) la lb : Forall2 R la lb -> length la = length lb.
Proof. induction 1; simpl; auto. Qed.

Lemma thread_ok_length ks ths : Forall2 thread_ok ks ths -> length ks = length ths.
Proof. apply Forall2_len. Qed.

Lemma thread_ok_app d : forall k r,
  thread_ok k (d ++ r) -> thread_ok k d /\ thread_ok (owned_after k d) r.
Proof.
  induction d as [|[] d IH]; intros k r H; simpl in *; auto;
    destruct H as [Hk H]; apply IH in H; tauto.
Qed.

Lemma owned_after_app d : forall k r,
  owned_after k (d ++ r) = owned_after (owned_after k d) r.
Proof. induction d as [|[] d IH]; intros; simpl; auto. Qed.

Lemma thread_ok_zero t : thread_ok 0 t -> t = [].
Proof. destruct t as [|[] t]; simpl; auto; lia. Qed.

Lemma map2_owned_nil ths : forall ks,
  Forall (fun t => t = []) ths -> length ks = length ths -> map2 owned_after ks ths = ks.
Proof.
  induction ths; intros [|k ks] HF HL; simpl in *; try discriminate; auto.
  inversion HF; subst. simpl. f_equal. apply IHths; auto.
Qed.

(* ---------- shuffle sanity ---------- *)

Lemma concat_all_nil {A} (ths : list (list A)) : Forall (fun t => t = []) ths -> concat ths = [].
Proof. induction 1; simpl; subst; auto. Qed.

Lemma shuffle_perm ths l : shuffle ths l -> Permutation l (concat ths).
Proof.
  induction 1.
  - rewrite concat_all_nil; auto.
  - rewrite concat_app in *. simpl in *.
    apply Permutation_cons_app. exact IHshuffle.
Qed.

Lemma length_concat (ths : list (list rop)) : length (concat ths) = sum (map (@length rop) ths).
Proof. induction ths; simpl; auto. rewrite app_length, IHths. reflexivity. Qed.

Lemma shuffle_length ths l : shuffle ths l -> length l = sum (map (@length rop) ths).
Proof.
  intros H. rewrite (Permutation_length (shuffle_perm _ _ H)). apply length_concat.
Qed.

Lemma shuffle_all_nil ths l : shuffle ths l -> Forall (fun t => t = []) ths -> l = [].
Proof.
  intros H HF. inversion H; subst; auto.
  apply Forall_elt in HF. discriminate.
Qed.

Lemma map2_app_split : forall (pre : list (list rop)) t post done rest,
  length done = length rest -> map2 (@app rop) done rest = pre ++ t :: post ->
  exists dpre d dpost rpre r rpost,
    done = dpre ++ d :: dpost /\ rest = rpre ++ r :: rpost /\
    length dpre = length rpre /\ length dpost = length rpost /\
    pre = map2 (@app rop) dpre rpre /\ t = d ++ r /\ post = map2 (@app rop) dpost rpost.
Proof.
  induction pre as [|p pre IH]; intros t post [|d done] [|r rest] HL HE; simpl in *;
    try discriminate.
  - inversion HE; subst. exists [], d, done, [], r, rest. simpl. repeat split; auto.
  - inversion HE; subst. apply IH in H1; [|lia].
    destruct H1 as (dpre & d' & dpost & rpre & r' & rpost & -> & -> & L1 & L2 & -> & -> & ->).
    exists (d :: dpre), d', dpost, (r :: rpre), r', rpost. simpl. repeat split; auto.
Qed.

Lemma map2_app_nil_l (ths : list (list rop)) :
  map2 (@app rop) (map (fun _ => []) ths) ths = ths.
Proof. induction ths; simpl; congruence. Qed.

Lemma map2_app_all_nil (ths : list (list rop)) :
  Forall (fun t => t = []) ths -> map2 (@app rop) ths ths = ths.
Proof. induction 1; simpl; subst; auto. simpl. congruence. Qed.

Lemma shuffle_split ths l : shuffle ths l -> forall n, exists done rest,
  length done = length ths /\ length rest = length ths /\
  ths = map2 (@app rop) done rest /\
  shuffle done (firstn n l) /\ shuffle rest (skipn n l).
Proof.
  induction 1 as [ths HF | pre o t post l H IH]; intros n.
  - exists ths, ths. rewrite firstn_nil, skipn_nil.
    repeat split; auto; try (constructor; auto). symmetry; apply map2_app_all_nil; auto.
  - destruct n as [|n].
    + exists (map (fun _ => []) (pre ++ (o :: t) :: post)), (pre ++ (o :: t) :: post).
      simpl firstn; simpl skipn. rewrite map_length, map2_app_nil_l.
      repeat split; auto.
      * constructor. apply Forall_forall. intros x Hx. apply in_map_iff in Hx.
        destruct Hx as (? & ? & ?); auto.
      * constructor; auto.
    + destruct (IH n) as (done & rest & L1 & L2 & E & S1 & S2).
      symmetry in E. apply map2_app_split in E; [|lia].
      destruct E as (dpre & d & dpost & rpre & r & rpost & -> & -> & La & Lb & -> & -> & ->).
      exists (dpre ++ (o :: d) :: dpost), (rpre ++ r :: rpost).
      rewrite !app_length in *. simpl in *.
      repeat split; try lia.
      * rewrite map2_app by auto. reflexivity.
      * constructor. exact S1.
      * exact S2.
Qed.

Example shuffle_not_unique :
  shuffle [[Inc]; [Dec]] [Inc; Dec] /\ shuffle [[Inc]; [Dec]] [Dec; Inc] /\
  [Inc; Dec] <> [Dec; Inc].
Proof.
  split; [|split; [|discriminate]].
  - apply (shuffle_cons [] Inc [] [[Dec]]). apply (shuffle_cons [[]] Dec [] []).
    constructor. repeat constructor.
  - apply (shuffle_cons [[Inc]] Dec [] []). apply (shuffle_cons [] Inc [] [[]]).
    constructor. repeat constructor.
Qed.

(* ---------- 1. the invariant ---------- *)

Lemma Inv_init ks : 0 < sum ks -> Inv ks (init ks).
Proof.
  intros H. unfold Inv, init; simpl. repeat split; auto.
  destruct (Nat.eqb_spec (sum ks) 0); auto; lia.
Qed.

Lemma inv_step ks pre o t post s :
  Forall2 thread_ok ks (pre ++ (o :: t) :: post) -> Inv ks s ->
  exists ks', Forall2 thread_ok ks' (pre ++ t :: post) /\ Inv ks' (rstep s o) /\
    map2 owned_after ks (pre ++ (o :: t) :: post) = map2 owned_after ks' (pre ++ t :: post).
Proof.
  intros HF (Hrc & Hu & Hf).
  apply Forall2_app_inv_r in HF as (kpre & krest & Hpre & Hrest & ->).
  inversion Hrest as [|k th kpost tl Hk Hpost]; subst.
  assert (Hlen := Forall2_len _ _ _ Hpre).
  rewrite sum_app, sum_cons in *.
  destruct o; simpl in Hk; destruct Hk as [Hpos Hk].
  - exists (kpre ++ S k :: kpost). split; [apply Forall2_app; auto|]. split.
    + unfold Inv, rstep; simpl. rewrite sum_app, sum_cons, Hu.
      destruct (Nat.eqb_spec (sum kpre + (k + sum kpost)) 0); [lia|].
      repeat split; try lia.
      * destruct (Nat.eqb_spec (rc s) 0); [lia|reflexivity].
      * rewrite Hf. destruct (Nat.eqb_spec (sum kpre + (S k + sum kpost)) 0); [lia|reflexivity].
    + rewrite !map2_app by auto. reflexivity.
  - exists (kpre ++ pred k :: kpost). split; [apply Forall2_app; auto|]. split.
    + unfold Inv, rstep. rewrite sum_app, sum_cons.
      destruct (Nat.eqb_spec (sum kpre + (k + sum kpost)) 0); [lia|].
      destruct (rc s) as [|[|m]] eqn:E; simpl; [lia| |].
      * repeat split; auto; try lia.
        rewrite Hf. destruct (Nat.eqb_spec (sum kpre + (pred k + sum kpost)) 0); lia.
      * repeat split; auto; try lia.
        rewrite Hf. destruct (Nat.eqb_spec (sum kpre + (pred k + sum kpost)) 0); lia.
    + rewrite !map2_app by auto. reflexivity.
Qed.

Lemma inv_run ths l : shuffle ths l -> forall ks s,
  Forall2 thread_ok ks ths -> Inv ks s -> Inv (map2 owned_after ks ths) (rrun s l).
Proof.
  induction 1 as [ths HF | pre o t post l H IH]; intros ks s Hok HI.
  - rewrite map2_owned_nil; auto. eapply Forall2_len; eauto.
  - destruct (inv_step _ _ _ _ _ _ Hok HI) as (ks' & Hok' & HI' & E).
    rewrite E. simpl. apply IH; auto.
Qed.

Lemma thread_ok_split done : forall ks rest,
  length done = length rest ->
  Forall2 thread_ok ks (map2 (@app rop) done rest) ->
  Forall2 thread_ok ks done /\ Forall2 thread_ok (map2 owned_after ks done) rest /\
  map2 owned_after ks (map2 (@app rop) done rest) =
    map2 owned_after (map2 owned_after ks done) rest.
Proof.
  induction done as [|d done IH]; intros ks [|r rest] HL HF; simpl in *; try discriminate.
  - inversion HF; subst. simpl. auto.
  - inversion HF as [|k ? ks' ? Hk Hks]; subst.
    apply thread_ok_app in Hk. destruct Hk as [Hd Hr].
    destruct (IH ks' rest) as (A & B & C); auto.
    simpl. repeat split; auto. rewrite owned_after_app, C. reflexivity.
Qed.

(* At every prefix of every interleaving: the threads have progressed through [done], still
   have [rest] to do, and the state satisfies the invariant for what they own NOW. *)
Theorem prefix_invariant_gen ths ks l n s0 :
  Forall2 thread_ok ks ths -> Inv ks s0 -> shuffle ths l ->
  exists done rest,
    length done = length ths /\ length rest = length ths /\
    ths = map2 (@app rop) done rest /\
    shuffle done (firstn n l) /\ shuffle rest (skipn n l) /\
    let owned_now := map2 owned_after ks done in
    Inv owned_now (rrun s0 (firstn n l)) /\
    Forall2 thread_ok owned_now rest /\
    map2 owned_after owned_now rest = map2 owned_after ks ths.
Proof.
  intros Hok HI HS.
  destruct (shuffle_split _ _ HS n) as (done & rest & L1 & L2 & E & S1 & S2).
  subst ths.
  destruct (thread_ok_split done ks rest) as (A & B & C); [lia|auto|].
  pose proof (inv_run _ _ S1 ks s0 A HI) as (I1 & I2 & I3).
  exists done, rest. repeat split; auto.
Qed.

Theorem prefix_invariant ths ks l n :
  Forall2 thread_ok ks ths -> 0 < sum ks -> shuffle ths l ->
  exists done rest,
    length done = length ths /\ length rest = length ths /\
    ths = map2 (@app rop) done rest /\
    shuffle done (firstn n l) /\ shuffle rest (skipn n l) /\
    let owned_now := map2 owned_after ks done in
    let s := rrun (init ks) (firstn n l) in
    rc s = sum owned_now /\ uaf s = false /\
    (0 < sum owned_now -> frees s = 0) /\ (sum owned_now = 0 -> frees s = 1).
Proof.
  intros Hok Hpos HS.
  destruct (prefix_invariant_gen ths ks l n (init ks) Hok (Inv_init _ Hpos) HS)
    as (done & rest & L1 & L2 & E & S1 & S2 & (Hrc & Hu & Hf) & _).
  exists done, rest. repeat split; auto; intros Hs; rewrite Hf;
    destruct (Nat.eqb_spec (sum (map2 owned_after ks done)) 0); auto; lia.
Qed.

Section Main.
  Variables (ths : list (list rop)) (ks : list nat) (l : list rop).
  Hypothesis Hok : Forall2 thread_ok ks ths.
  Hypothesis Hpos : 0 < sum ks.
  Hypothesis HS : shuffle ths l.

  Lemma final_inv : Inv (map2 owned_after ks ths) (rrun (init ks) l).
  Proof. apply inv_run; auto. apply Inv_init; auto. Qed.

  Theorem no_use_after_free : uaf (rrun (init ks) l) = false.
  Proof. apply final_inv. Qed.

  Theorem rc_final : rc (rrun (init ks) l) = sum (map2 owned_after ks ths).
  Proof. apply final_inv. Qed.

  Theorem freed_at_most_once : frees (rrun (init ks) l) <= 1.
  Proof.
    destruct final_inv as (_ & _ & ->).
    destruct (sum (map2 owned_after ks ths) =? 0); lia.
  Qed.

  Theorem freed_iff_all_released :
    frees (rrun (init ks) l) = 1 <-> sum (map2 owned_after ks ths) = 0.
  Proof.
    destruct final_inv as (_ & _ & ->).
    destruct (Nat.eqb_spec (sum (map2 owned_after ks ths)) 0); split; auto; try lia; discriminate.
  Qed.

  Theorem still_alive :
    0 < sum (map2 owned_after ks ths) ->
    frees (rrun (init ks) l) = 0 /\ rc (rrun (init ks) l) = sum (map2 owned_after ks ths).
  Proof.
    intros H. destruct final_inv as (-> & _ & ->). split; auto.
    destruct (Nat.eqb_spec (sum (map2 owned_after ks ths)) 0); auto; lia.
  Qed.

  Lemma all_released_rest_nil : forall now rest,
    sum now = 0 -> Forall2 thread_ok now rest -> Forall (fun t => t = []) rest.
  Proof.
    intros now rest Hs HF. induction HF as [|k t now' rest' Hk HF IH]; constructor.
    - rewrite sum_cons in Hs. assert (k = 0) by lia. subst. apply thread_ok_zero; auto.
    - apply IH. rewrite sum_cons in Hs. lia.
  Qed.

  (* once the node has been freed nothing follows: the freeing step ends the interleaving *)
  Theorem freed_prefix_is_all n :
    frees (rrun (init ks) (firstn n l)) = 1 -> firstn n l = l.
  Proof.
    intros Hfr.
    destruct (prefix_invariant_gen ths ks l n (init ks) Hok (Inv_init _ Hpos) HS)
      as (done & rest & L1 & L2 & E & S1 & S2 & (Hrc & Hu & Hf) & Hrest & _).
    rewrite Hf in Hfr.
    destruct (Nat.eqb_spec (sum (map2 owned_after ks done)) 0) as [Hz|]; [|discriminate].
    assert (Hnil : skipn n l = []).
    { eapply shuffle_all_nil; eauto. eapply all_released_rest_nil; eauto. }
    rewrite <- (firstn_skipn n l) at 2. rewrite Hnil, app_nil_r. reflexivity.
  Qed.

  Theorem freed_by_last_dec l1 o l2 :
    l = l1 ++ o :: l2 -> frees (rrun (init ks) (l1 ++ [o])) = 1 -> l2 = [] /\ o = Dec.
  Proof.
    intros El Hfr.
    assert (Ef : firstn (S (length l1)) l = l1 ++ [o]).
    { subst l. replace (l1 ++ o :: l2) with ((l1 ++ [o]) ++ l2) by (rewrite <- app_assoc; reflexivity).
      replace (S (length l1)) with (length (l1 ++ [o]) + 0) by (rewrite app_length; simpl; lia).
      rewrite firstn_app_2. simpl. apply app_nil_r. }
    assert (Hl2 : l2 = []).
    { pose proof (freed_prefix_is_all (S (length l1))) as H. rewrite Ef in H.
      specialize (H Hfr). subst l.
      replace (l1 ++ o :: l2) with ((l1 ++ [o]) ++ l2) in H by (rewrite <- app_assoc; reflexivity).
      rewrite <- (app_nil_r (l1 ++ [o])) in H at 1.
      apply app_inv_head in H. auto. }
    split; auto.
    destruct o; auto. exfalso.
    rewrite rrun_app in Hfr. simpl in Hfr.
    (* an Inc never frees: the state before it would already have frees = 1, with a step following *)
    pose proof (freed_prefix_is_all (length l1)) as H.
    assert (Ef1 : firstn (length l1) l = l1).
    { subst l. replace (length l1) with (length l1 + 0) by lia. rewrite firstn_app_2. simpl.
      apply app_nil_r. }
    rewrite Ef1 in H. specialize (H Hfr). subst l.
    rewrite <- (app_nil_r l1) in H at 1. apply app_inv_head in H. discriminate.
  Qed.

  Theorem never_freed_early l1 o l2 :
    l = l1 ++ o :: l2 -> frees (rrun (init ks) l1) = 0.
  Proof.
    intros El.
    assert (Ef1 : firstn (length l1) l = l1).
    { subst l. replace (length l1) with (length l1 + 0) by lia. rewrite firstn_app_2. simpl.
      apply app_nil_r. }
    destruct (prefix_invariant_gen ths ks l (length l1) (init ks) Hok (Inv_init _ Hpos) HS)
      as (done & rest & L1 & L2 & E & S1 & S2 & (Hrc & Hu & Hf) & Hrest & _).
    rewrite Ef1 in *. rewrite Hf.
    destruct (Nat.eqb_spec (sum (map2 owned_after ks done)) 0) as [Hz|]; auto.
    exfalso.
    assert (Hfr : frees (rrun (init ks) (firstn (length l1) l)) = 1).
    { rewrite Ef1, Hf. destruct (Nat.eqb_spec (sum (map2 owned_after ks done)) 0); auto; lia. }
    apply freed_prefix_is_all in Hfr. rewrite Ef1 in Hfr. subst l.
    rewrite <- (app_nil_r l1) in Hfr at 1. apply app_inv_head in Hfr. discriminate.
  Qed.
End Main.

(* ---------- the hypotheses are needed ---------- *)

(* nobody owns the node: everything is (vacuously) released but it is never freed *)
Example no_owner_refuted :
  let ths := [[]; []] in let ks := [0; 0] in
  Forall2 thread_ok ks ths /\ shuffle ths [] /\
  sum (map2 owned_after ks ths) = 0 /\ frees (rrun (init ks) []) = 0.
Proof. repeat split; repeat constructor. Qed.

(* a thread that destroys a reference it does not own *)
Example thread_ok_needed_refuted :
  let ths := [[Dec; Dec]; [Inc; Dec]] in let ks := [1; 1] in
  0 < sum ks /\ shuffle ths [Dec; Dec; Inc; Dec] /\ ~ Forall2 thread_ok ks ths /\
  uaf (rrun (init ks) [Dec; Dec; Inc; Dec]) = true.
Proof.
  simpl. repeat split.
  - unfold sum; simpl; lia.
  - apply (shuffle_cons [] Dec [Dec] [[Inc; Dec]]). apply (shuffle_cons [] Dec [] [[Inc; Dec]]).
    apply (shuffle_cons [[]] Inc [Dec] []). apply (shuffle_cons [[]] Dec [] []).
    constructor. repeat constructor.
  - intros H. inversion H as [|? ? ? ? H1 _]; subst. simpl in H1. lia.
Qed.

(* ---------- a concrete 3-thread instance ---------- *)

Definition ex_ths : list (list rop) := [[Inc; Dec; Dec]; [Inc; Dec; Dec]; [Dec]].
Definition ex_ks : list nat := [1; 1; 1].

Lemma ex_ok : Forall2 thread_ok ex_ks ex_ths.
Proof. repeat constructor; simpl; lia. Qed.

Example three_threads_safe : forall l, shuffle ex_ths l ->
  uaf (rrun (init ex_ks) l) = false /\ frees (rrun (init ex_ks) l) = 1 /\
  rc (rrun (init ex_ks) l) = 0 /\ length l = 7.
Proof.
  intros l HS.
  assert (Hpos : 0 < sum ex_ks) by (vm_compute; lia).
  repeat split.
  - exact (no_use_after_free _ _ _ ex_ok Hpos HS).
  - apply (freed_iff_all_released _ _ _ ex_ok Hpos HS). reflexivity.
  - rewrite (rc_final _ _ _ ex_ok Hpos HS). reflexivity.
  - rewrite (shuffle_length _ _ HS). reflexivity.
Qed.

(* ---------- 3. without atomicity ---------- *)

Inductive nshuffle : list (list nop) -> list nop -> Prop :=
| nshuffle_nil ths : Forall (fun t => t = []) ths -> nshuffle ths []
| nshuffle_cons pre o t post l :
    nshuffle (pre ++ t :: post) l -> nshuffle (pre ++ (o :: t) :: post) (o :: l).

(* the atomic program: a load/store-incremented pair is ONE fetch_add *)
Fixpoint atomize (l : list nop) : list rop :=
  match l with
  | [] => []
  | NLoad _ :: r => atomize r
  | NStoreInc _ :: r => Inc :: atomize r
  | NDec :: r => Dec :: atomize r
  end.

Definition ninit (n : nat) : nstate :=
  {| n_rc := n; n_frees := 0; n_uaf := false; n_reg := fun _ => 0 |}.

Ltac nsh pre o t post := apply (nshuffle_cons pre o t post); simpl.

(* the literal scenario: one owner, two threads copying its reference non-atomically *)
Definition na_ths : list (list nop) :=
  [[NLoad 0; NStoreInc 0; NDec]; [NLoad 1; NStoreInc 1; NDec]; [NDec]].
Definition na_bad : list nop :=
  [NLoad 0; NLoad 1; NStoreInc 0; NStoreInc 1; NDec; NDec; NDec].

Theorem nonatomic_refuted :
  nshuffle na_ths na_bad /\
  n_uaf (nrun (ninit 1) na_bad) = true /\ n_frees (nrun (ninit 1) na_bad) = 1 /\
  (* both copies were based on the same stale value: the counter only reached 2, not 3 *)
  n_rc (nrun (ninit 1) (firstn 4 na_bad)) = 2 /\
  (* the same interleaving with atomic copies *)
  atomize na_bad = [Inc; Inc; Dec; Dec; Dec] /\
  uaf (rrun (init [1]) (atomize na_bad)) = false /\
  frees (rrun (init [1]) (atomize na_bad)) = 1.
Proof.
  split; [|vm_compute; repeat split; reflexivity].
  unfold na_ths, na_bad.
  nsh (@nil (list nop)) (NLoad 0) [NStoreInc 0; NDec] [[NLoad 1; NStoreInc 1; NDec]; [NDec]].
  nsh [[NStoreInc 0; NDec]] (NLoad 1) [NStoreInc 1; NDec] [[NDec]].
  nsh (@nil (list nop)) (NStoreInc 0) [NDec] [[NStoreInc 1; NDec]; [NDec]].
  nsh [[NDec]] (NStoreInc 1) [NDec] [[NDec]].
  nsh (@nil (list nop)) NDec (@nil nop) [[NDec]; [NDec]].
  nsh [@nil nop] NDec (@nil nop) [[NDec]].
  nsh [@nil nop; @nil nop] NDec (@nil nop) (@nil (list nop)).
  constructor. repeat constructor.
Qed.

(* the same with every thread owning the reference it copies, so that theorem 1 applies to
   the atomic programs: they are [ex_ths] with ownerships [ex_ks] *)
Definition nao_ths : list (list nop) :=
  [[NLoad 0; NStoreInc 0; NDec; NDec]; [NLoad 1; NStoreInc 1; NDec; NDec]; [NDec]].
Definition nao_bad : list nop :=
  [NLoad 0; NLoad 1; NStoreInc 0; NStoreInc 1; NDec; NDec; NDec; NDec; NDec].
Definition nao_leak : list nop :=
  [NLoad 0; NStoreInc 0; NLoad 1; NDec; NDec; NDec; NStoreInc 1; NDec; NDec].

Theorem nonatomic_refuted_owned :
  nshuffle nao_ths nao_bad /\
  n_uaf (nrun (ninit 3) nao_bad) = true /\ n_frees (nrun (ninit 3) nao_bad) = 1 /\
  map atomize nao_ths = ex_ths /\ Forall2 thread_ok ex_ks ex_ths /\ sum ex_ks = 3 /\
  (forall l, shuffle ex_ths l ->
     uaf (rrun (init ex_ks) l) = false /\ frees (rrun (init ex_ks) l) = 1).
Proof.
  split; [|split; [reflexivity|split; [reflexivity|split; [reflexivity|split;
    [exact ex_ok|split; [reflexivity|]]]]]].
  - unfold nao_ths, nao_bad.
    nsh (@nil (list nop)) (NLoad 0) [NStoreInc 0; NDec; NDec] [[NLoad 1; NStoreInc 1; NDec; NDec]; [NDec]].
    nsh [[NStoreInc 0; NDec; NDec]] (NLoad 1) [NStoreInc 1; NDec; NDec] [[NDec]].
    nsh (@nil (list nop)) (NStoreInc 0) [NDec; NDec] [[NStoreInc 1; NDec; NDec]; [NDec]].
    nsh [[NDec; NDec]] (NStoreInc 1) [NDec; NDec] [[NDec]].
    nsh (@nil (list nop)) NDec [NDec] [[NDec; NDec]; [NDec]].
    nsh (@nil (list nop)) NDec (@nil nop) [[NDec; NDec]; [NDec]].
    nsh [@nil nop] NDec [NDec] [[NDec]].
    nsh [@nil nop] NDec (@nil nop) [[NDec]].
    nsh [@nil nop; @nil nop] NDec (@nil nop) (@nil (list nop)).
    constructor. repeat constructor.
  - intros l HS. destruct (three_threads_safe l HS) as (A & B & _). auto.
Qed.

(* the other face of a lost update: a stale store RAISES the counter after the others have
   released; everything is released, the node is never freed *)
Theorem nonatomic_leak :
  nshuffle nao_ths nao_leak /\
  n_frees (nrun (ninit 3) nao_leak) = 0 /\ n_rc (nrun (ninit 3) nao_leak) = 3 /\
  n_uaf (nrun (ninit 3) nao_leak) = false /\
  sum (map2 owned_after ex_ks (map atomize nao_ths)) = 0.
Proof.
  split; [|vm_compute; repeat split; reflexivity].
  unfold nao_ths, nao_leak.
  nsh (@nil (list nop)) (NLoad 0) [NStoreInc 0; NDec; NDec] [[NLoad 1; NStoreInc 1; NDec; NDec]; [NDec]].
  nsh (@nil (list nop)) (NStoreInc 0) [NDec; NDec] [[NLoad 1; NStoreInc 1; NDec; NDec]; [NDec]].
  nsh [[NDec; NDec]] (NLoad 1) [NStoreInc 1; NDec; NDec] [[NDec]].
  nsh (@nil (list nop)) NDec [NDec] [[NStoreInc 1; NDec; NDec]; [NDec]].
  nsh (@nil (list nop)) NDec (@nil nop) [[NStoreInc 1; NDec; NDec]; [NDec]].
  nsh [@nil nop; [NStoreInc 1; NDec; NDec]] NDec (@nil nop) (@nil (list nop)).
  nsh [@nil nop] (NStoreInc 1) [NDec; NDec] [@nil nop].
  nsh [@nil nop] NDec [NDec] [@nil nop].
  nsh [@nil nop] NDec (@nil nop) [@nil nop].
  constructor. repeat constructor.
Qed.

(* ---- the "decrement, then read again" destructor is refuted: two owners, each releasing its
   reference; when both decrements come before both re-reads, both read zero and both free ---- *)
Definition reread_ths : list (list dop) := [[DDecOnly; DCheck]; [DDecOnly; DCheck]].
Definition reread_bad : list dop := [DDecOnly; DDecOnly; DCheck; DCheck].
Theorem reread_refuted :
  dshuffle reread_ths reread_bad /\
  frees (drun (init [1; 1]) reread_bad) = 2 /\ uaf (drun (init [1; 1]) reread_bad) = true /\
  map dmerge reread_ths = [[Dec]; [Dec]] /\ Forall2 thread_ok [1; 1] [[Dec]; [Dec]] /\
  (forall l, shuffle [[Dec]; [Dec]] l -> frees (rrun (init [1; 1]) l) = 1 /\ uaf (rrun (init [1; 1]) l) = false).
Proof.
  split.
  { unfold reread_ths, reread_bad.
    apply (dshuffle_cons [] DDecOnly [DCheck] [[DDecOnly; DCheck]]); cbn [app].
    apply (dshuffle_cons [[DCheck]] DDecOnly [DCheck] []); cbn [app].
    apply (dshuffle_cons [] DCheck [] [[DCheck]]); cbn [app].
    apply (dshuffle_cons [[]] DCheck [] []); cbn [app].
    apply dshuffle_nil. repeat constructor. }
  split; [vm_compute; reflexivity|]. split; [vm_compute; reflexivity|].
  split; [reflexivity|].
  assert (Hok : Forall2 thread_ok [1; 1] [[Dec]; [Dec]]) by (repeat constructor; cbn; lia).
  split; [exact Hok|].
  intros l HS. split.
  - apply (freed_iff_all_released [[Dec]; [Dec]] [1; 1] l Hok); [cbn; lia | exact HS | reflexivity].
  - apply (no_use_after_free [[Dec]; [Dec]] [1; 1] l Hok); [cbn; lia | exact HS].
Qed.
