(* C12, the operations of the class Interval: what each control-flow path through each operation
   does to the calling thread's rounding mode, from the event table regenerated from interval.hpp
   (Gen/IntervalEnv_gen.v, translate/gen_fpenv.py).

   Meaning of the events.  Boost's interval primitives run under the rounding policy
   save_state<rounded_transc_std<float>> chosen in interval.hpp: they switch the mode while they work and
   put it back before they return - except the primitives listed in [leaky], which were OBSERVED to
   return with the mode changed (the defect repaired in 2362704; the run-time sweep of check/props/c12.py
   validates this classification on every run: every opcode x evaluator kind x input class x mode).  A
   leaky primitive may leave ANY mode behind ([leak], universally quantified).  `std::fegetround` saves
   the current mode in a local, `std::fesetround(local)` puts it back. *)
From Coq Require Import List String Bool Arith.
From LF Require Import Gen.IntervalEnv_gen.
Import ListNotations.
Local Open Scope string_scope.

Definition leaky (n : string) : bool := String.eqb n "nth_root".

Section Run.
  Variable mode : Type.
  Variable leak : string -> mode -> mode.       (* whatever a leaky primitive leaves behind *)
  Variable stale : mode.                        (* what a function-local STATIC save holds: the mode of the first call ever *)

  Record st := { cur : mode; saved : option mode }.

  Definition exec_ev (s : st) (e : ev) : st :=
    match e with
    | EvSave => {| cur := cur s; saved := Some (cur s) |}
    | EvSaveStale => {| cur := cur s; saved := Some stale |}
    | EvRestore => {| cur := match saved s with Some m => m | None => cur s end; saved := saved s |}
    | EvPrim n => if leaky n then {| cur := leak n (cur s); saved := saved s |} else s
    end.
  Definition run_path (m : mode) (p : list ev) : mode := cur (fold_left exec_ev p {| cur := m; saved := None |}).
End Run.

(* symbolic execution: is the current mode certainly the entry mode? what does the saved slot hold? *)
Inductive sv := SvNone | SvClean | SvDirty.
Definition sym_ev (s : bool * sv) (e : ev) : bool * sv :=
  let '(dirty, sv0) := s in
  match e with
  | EvSave => (dirty, if dirty then SvDirty else SvClean)
  | EvSaveStale => (dirty, SvDirty)
  | EvRestore => (match sv0 with SvClean => false | SvDirty => true | SvNone => dirty end, sv0)
  | EvPrim n => (dirty || leaky n, sv0)
  end.
Definition path_ok (p : list ev) : bool := negb (fst (fold_left sym_ev p (false, SvNone))).

Lemma sym_sound (mode : Type) (leak : string -> mode -> mode) (stale m : mode) :
  forall p s d v,
    (d = false -> cur mode s = m) ->
    (v = SvClean -> saved mode s = Some m) ->
    (v = SvNone -> saved mode s = None) ->
    fst (fold_left sym_ev p (d, v)) = false ->
    cur mode (fold_left (exec_ev mode leak stale) p s) = m.
Proof.
  induction p as [|e p IH]; intros s d v Hd Hv Hn H; cbn [fold_left] in *.
  - apply Hd. exact H.
  - destruct e as [| | |n]; cbn [sym_ev exec_ev] in *.
    + apply (IH _ d (if d then SvDirty else SvClean)); cbn [cur saved]; auto.
      * destruct d; intros E; [discriminate|]. rewrite Hd; reflexivity.
      * destruct d; discriminate.
    + apply (IH _ d SvDirty); cbn [cur saved]; auto; discriminate.
    + apply (IH _ (match v with SvClean => false | SvDirty => true | SvNone => d end) v); cbn [cur saved]; auto.
      destruct v.
      * intros E. rewrite (Hn eq_refl). apply Hd. exact E.
      * intros _. rewrite (Hv eq_refl). reflexivity.
      * discriminate.
    + destruct (leaky n) eqn:L.
      * apply (IH _ (d || true) v); cbn [cur saved]; auto.
        rewrite orb_true_r. discriminate.
      * rewrite orb_false_r in H. apply (IH _ d v); auto.
Qed.

Theorem path_ok_sound (mode : Type) (leak : string -> mode -> mode) (stale : mode) (p : list ev) :
  path_ok p = true -> forall m, run_path mode leak stale m p = m.
Proof.
  unfold path_ok, run_path. intros H m. apply negb_true_iff in H.
  apply (sym_sound mode leak stale m p _ false SvNone); cbn [cur saved]; auto; discriminate.
Qed.

(* every path of every operation, as the header stands *)
Definition all_paths : list (string * list ev) :=
  flat_map (fun o => map (fun p => (fst o, p)) (snd o)) interval_paths_gen.

Lemma interval_paths_ok : forallb (fun op => path_ok (snd op)) all_paths = true.
Proof. vm_compute. reflexivity. Qed.

Theorem interval_ops_restore_mode :
  forall op p, In (op, p) all_paths ->
  forall (mode : Type) (leak : string -> mode -> mode) (stale m : mode), run_path mode leak stale m p = m.
Proof.
  intros op p Hin mode leak stale m. apply path_ok_sound.
  pose proof interval_paths_ok as H. rewrite forallb_forall in H. exact (H (op, p) Hin).
Qed.

(* non-vacuity: the table has the operations, 30+ paths, and nth_root's path is the bracketed leaky call *)
Definition paths_nonvacuous : Prop :=
  25 <= List.length interval_paths_gen /\ 30 <= List.length all_paths /\ interval_paths_count = List.length all_paths /\
  In ("nth_root", [EvSave; EvPrim "nth_root"; EvRestore]) all_paths /\
  existsb (fun op => existsb (fun e => match e with EvPrim n => leaky n | _ => false end) (snd op)) all_paths = true.
Lemma interval_paths_nonvacuous : paths_nonvacuous.
Proof.
  unfold paths_nonvacuous.
  split; [vm_compute; repeat constructor|].
  split; [vm_compute; repeat constructor|].
  split; [vm_compute; reflexivity|].
  split; [|vm_compute; reflexivity].
  vm_compute. repeat (first [left; reflexivity | right]).
Qed.

(* the bracket is needed: the same call without its restore (the code before the repair), or with a
   return between the call and the restore, leaves the caller in whatever mode the primitive left *)
Definition unbracketed_leaks_stmt : Prop :=
  path_ok [EvPrim "nth_root"] = false /\ path_ok [EvSave; EvPrim "nth_root"] = false /\
  path_ok [EvPrim "nth_root"; EvSave; EvRestore] = false /\
  path_ok [EvSaveStale; EvPrim "nth_root"; EvRestore] = false /\
  (forall (mode : Type) (m m' : mode), m' <> m ->
    run_path mode (fun _ _ => m') m m [EvSave; EvPrim "nth_root"] <> m) /\
  (* a mode saved once in a function-local static is put back into a caller that came in with another mode *)
  (forall (mode : Type) (m first : mode), first <> m ->
    run_path mode (fun _ x => x) first m [EvSaveStale; EvPrim "nth_root"; EvRestore] <> m).
Theorem unbracketed_leaks : unbracketed_leaks_stmt.
Proof.
  unfold unbracketed_leaks_stmt.
  repeat split; try reflexivity.
  - intros mode m m' H. cbn. exact H.
  - intros mode m first H. cbn. exact H.
Qed.

(* scope of the table: no file of libfive/src, libfive/include, libfive/stdlib other than interval.hpp names a Boost
   interval primitive or a rounding-mode / FP-environment setter (so the operations above are the only places where the
   rounding mode is touched on purpose; what the compiler and libm do is the run-time sweep's business) *)
Lemma no_foreign_fpenv_sites : fpenv_foreign_sites = [] /\ 100 <= fpenv_files_scanned.
Proof. split; [reflexivity | vm_compute; repeat constructor]. Qed.
