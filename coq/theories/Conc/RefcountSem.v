(* Semantics of the intrusive reference counting model of Conc/Refcount.v
   (libfive::Tree, Tree::~Tree work-list destructor).

   Contents
     1. list / heap access lemmas
     2. the counting invariant [GInv h e] relative to an arbitrary external
        reference count [e : nat -> nat], and its preservation by inc / dec /
        free / alloc
     3. the instrumented destructor [drop_loop_i] / [drop_i] (detects every
        access to a deleted cell, count underflow, double delete, and fuel
        exhaustion) and the main loop theorem [loop_ok], [drop_ok]
     4. the client-level invariant [Inv], [rstep_inv], [run_inv]
     5. no_use_after_free, args_untouched, alive_iff_reachable, leak_free,
        destructor_terminates / drop_fuel_irrelevant
     6. a concrete 5-cell example with sharing. *)
From Coq Require Import List Arith Bool Lia.
From LF Require Import Eval.Deck Conc.Refcount.
Import ListNotations.

Set Implicit Arguments.

(* ------------------------------------------------------------------ *)
(** * 1. Lists, [upd], counting                                        *)
(* ------------------------------------------------------------------ *)

Lemma upd_length {A} (l : list A) i f : length (upd l i f) = length l.
Proof. revert i; induction l; intros [|i]; simpl; auto. Qed.

Lemma nth_upd {A} (l : list A) i j f d :
  nth j (upd l i f) d =
  if (i =? j) && (j <? length l) then f (nth j l d) else nth j l d.
Proof.
  revert i j; induction l as [|x r IH]; intros i j.
  - destruct i; simpl; rewrite andb_false_r; reflexivity.
  - destruct i as [|i], j as [|j]; simpl; auto.
    rewrite IH. reflexivity.
Qed.

Lemma upd_out {A} (l : list A) i f : length l <= i -> upd l i f = l.
Proof.
  revert i; induction l as [|x r IH]; intros [|i] H; simpl in *; auto; try lia.
  f_equal. apply IH. lia.
Qed.

Lemma upd_upd {A} (l : list A) i (a b : A) :
  upd (upd l i (fun _ => a)) i (fun _ => b) = upd l i (fun _ => b).
Proof. revert i; induction l; intros [|i]; simpl; auto. f_equal; auto. Qed.

(* number of occurrences *)
Fixpoint cnt (n : nat) (l : list nat) : nat :=
  match l with
  | [] => 0
  | x :: r => (if x =? n then 1 else 0) + cnt n r
  end.

Lemma cnt_app n a b : cnt n (a ++ b) = cnt n a + cnt n b.
Proof. induction a; simpl; lia. Qed.

Lemma cnt_rev n l : cnt n (rev l) = cnt n l.
Proof. induction l; simpl; auto. rewrite cnt_app; simpl; lia. Qed.

Lemma cnt_pos_In n l : cnt n l > 0 <-> In n l.
Proof.
  induction l as [|x r IH]; simpl; [split; [lia|tauto]|].
  destruct (Nat.eqb_spec x n); split; intros H; auto; try lia.
  - right; apply IH; lia.
  - destruct H; [contradiction|]. apply IH in H. lia.
Qed.

Lemma cnt_zero_notin n l : ~ In n l -> cnt n l = 0.
Proof. intros H. destruct (cnt n l) eqn:E; auto. exfalso; apply H, cnt_pos_In; lia. Qed.

Lemma NoDup_app_intro {A} (l1 l2 : list A) :
  NoDup l1 -> NoDup l2 -> (forall x, In x l1 -> ~ In x l2) -> NoDup (l1 ++ l2).
Proof.
  induction l1 as [|a l1 IH]; simpl; intros H1 H2 H; auto.
  inversion H1; subst. constructor.
  - rewrite in_app_iff. intros [?|?]; [contradiction|]. eapply H; eauto.
  - apply IH; auto.
Qed.

(* the [Some] entries of a handle pool *)
Definition somes (l : list (option nat)) : list nat :=
  flat_map (fun x => match x with Some n => [n] | None => [] end) l.

Lemma somes_app a b : somes (a ++ b) = somes a ++ somes b.
Proof. apply flat_map_app. Qed.

Lemma somes_length l : length (somes l) <= length l.
Proof. induction l as [|[x|] r IH]; simpl; lia. Qed.

Lemma nth_somes_In (l : list (option nat)) i n : nth i l None = Some n -> In n (somes l).
Proof.
  revert i; induction l as [|x r IH]; intros [|i] H; simpl in *; try discriminate.
  - subst; simpl; auto.
  - apply in_or_app; right; eauto.
Qed.

Lemma cnt_somes_upd (l : list (option nat)) i n m :
  nth i l None = Some n ->
  cnt m (somes (upd l i (fun _ => None))) + (if n =? m then 1 else 0) = cnt m (somes l).
Proof.
  revert i; induction l as [|x r IH]; intros [|i] H; simpl in *; try discriminate.
  - subst; simpl. lia.
  - unfold somes in *; simpl. rewrite !cnt_app. specialize (IH _ H). lia.
Qed.

(* ------------------------------------------------------------------ *)
(** * 2. Heap access                                                   *)
(* ------------------------------------------------------------------ *)

Definition live (h : heap) (n : nat) : bool := c_alive (hget h n).

Lemma live_lt h n : live h n = true -> n < length h.
Proof.
  unfold live, hget; intros H. destruct (lt_dec n (length h)); auto.
  rewrite nth_overflow in H by lia. discriminate.
Qed.

Lemma hget_out h n : length h <= n -> hget h n = dead.
Proof. intros; unfold hget; apply nth_overflow; auto. Qed.

Lemma hset_length h n c : length (hset h n c) = length h.
Proof. apply upd_length. Qed.

Lemma hget_hset h n c m :
  hget (hset h n c) m = if (n =? m) && (m <? length h) then c else hget h m.
Proof. unfold hget, hset. apply nth_upd. Qed.

Lemma hget_hset_same h n c : n < length h -> hget (hset h n c) n = c.
Proof.
  intros H. rewrite hget_hset, Nat.eqb_refl.
  destruct (Nat.ltb_spec n (length h)); auto; lia.
Qed.

Lemma hget_hset_other h n c m : n <> m -> hget (hset h n c) m = hget h m.
Proof.
  intros H. rewrite hget_hset. destruct (Nat.eqb_spec n m); auto; contradiction.
Qed.

Lemma hset_hset h n a b : hset (hset h n a) n b = hset h n b.
Proof. apply upd_upd. Qed.

Lemma hget_app_lt (h : heap) c n : n < length h -> hget (h ++ [c]) n = hget h n.
Proof. intros; unfold hget; apply app_nth1; auto. Qed.

Lemma hget_app_eq (h : heap) c : hget (h ++ [c]) (length h) = c.
Proof. unfold hget. rewrite app_nth2, Nat.sub_diag by lia. reflexivity. Qed.

Lemma hget_app_gt (h : heap) c n : length h < n -> hget (h ++ [c]) n = dead.
Proof. intros; apply hget_out. rewrite app_length; simpl; lia. Qed.

(* sums over the heap *)
Fixpoint hsum (g : cell -> nat) (h : heap) : nat :=
  match h with
  | [] => 0
  | c :: r => g c + hsum g r
  end.

Lemma hsum_app g a b : hsum g (a ++ b) = hsum g a + hsum g b.
Proof. induction a; simpl; lia. Qed.

Lemma hsum_upd g (h : heap) i f :
  i < length h ->
  hsum g (upd h i f) + g (nth i h dead) = hsum g h + g (f (nth i h dead)).
Proof.
  revert i; induction h as [|c r IH]; intros [|i] H; simpl in *; try lia.
  specialize (IH i ltac:(lia)). lia.
Qed.

Lemma hsum_hset g h n c :
  n < length h -> hsum g (hset h n c) + g (hget h n) = hsum g h + g c.
Proof. intros H. unfold hset, hget. apply (hsum_upd g h (fun _ => c) H). Qed.

Lemma hsum_ge g (h : heap) i : i < length h -> g (nth i h dead) <= hsum g h.
Proof.
  revert i; induction h as [|c r IH]; intros [|i] H; simpl in *; try lia.
  specialize (IH i ltac:(lia)). lia.
Qed.

Lemma hsum_pos g (h : heap) :
  hsum g h > 0 -> exists i, i < length h /\ g (nth i h dead) > 0.
Proof.
  induction h as [|c r IH]; simpl; intros H; [lia|].
  destruct (g c) eqn:E.
  - destruct IH as [i [Hi Hg]]; [lia|]. exists (S i); split; [lia|auto].
  - exists 0; split; [lia|]. simpl. lia.
Qed.

(* parent edges into n, edges, alive cells *)
Definition contrib (n : nat) (c : cell) : nat := if c_alive c then cnt n (c_kids c) else 0.
Definition parents (h : heap) (n : nat) : nat := hsum (contrib n) h.
Definition ecount (c : cell) : nat := if c_alive c then length (c_kids c) else 0.
Definition edges (h : heap) : nat := hsum ecount h.
Definition acount (c : cell) : nat := if c_alive c then 1 else 0.
Definition alive_cells (h : heap) : nat := hsum acount h.

(* [g] depends only on the shape (kids, alive) of a cell, not on its count *)
Definition shape_only (g : cell -> nat) : Prop :=
  forall c c', c_alive c = c_alive c' -> c_kids c = c_kids c' -> g c = g c'.

Lemma shape_contrib n : shape_only (contrib n).
Proof. intros c c' H1 H2; unfold contrib; rewrite H1, H2; reflexivity. Qed.
Lemma shape_ecount : shape_only ecount.
Proof. intros c c' H1 H2; unfold ecount; rewrite H1, H2; reflexivity. Qed.
Lemma shape_acount : shape_only acount.
Proof. intros c c' H1 H2; unfold acount; rewrite H1; reflexivity. Qed.

Lemma parents_pos h n :
  parents h n > 0 -> exists i, live h i = true /\ In n (c_kids (hget h i)).
Proof.
  intros H. apply hsum_pos in H. destruct H as [i [Hi Hg]].
  exists i. unfold live, hget. unfold contrib in Hg.
  destruct (c_alive (nth i h dead)); [|lia].
  split; auto. apply cnt_pos_In; auto.
Qed.

Lemma parents_ge h i n :
  live h i = true -> cnt n (c_kids (hget h i)) <= parents h n.
Proof.
  intros H. pose proof (live_lt _ _ H) as Hi.
  pose proof (hsum_ge (contrib n) h Hi) as Hg.
  unfold contrib at 1 in Hg. unfold live, hget in *. rewrite H in Hg. exact Hg.
Qed.

(* changing only the count of a cell *)
Definition setrc (h : heap) (t r : nat) : heap :=
  hset h t {| c_kids := c_kids (hget h t); c_rc := r; c_alive := c_alive (hget h t) |}.

Lemma inc_setrc h t : inc h t = setrc h t (S (c_rc (hget h t))).
Proof. reflexivity. Qed.
Lemma dec_setrc h t : dec h t = setrc h t (pred (c_rc (hget h t))).
Proof. reflexivity. Qed.

Lemma setrc_length h t r : length (setrc h t r) = length h.
Proof. apply hset_length. Qed.

Lemma setrc_live h t r m : live (setrc h t r) m = live h m.
Proof.
  unfold live, setrc. rewrite hget_hset.
  destruct (Nat.eqb_spec t m); simpl; auto.
  destruct (m <? length h); subst; auto.
Qed.

Lemma setrc_kids h t r m : c_kids (hget (setrc h t r) m) = c_kids (hget h m).
Proof.
  unfold setrc. rewrite hget_hset.
  destruct (Nat.eqb_spec t m); simpl; auto.
  destruct (m <? length h); subst; auto.
Qed.

Lemma setrc_rc h t r m :
  c_rc (hget (setrc h t r) m) = if (t =? m) && (m <? length h) then r else c_rc (hget h m).
Proof.
  unfold setrc. rewrite hget_hset.
  destruct ((t =? m) && (m <? length h)); auto.
Qed.

Lemma setrc_rc_same h t r : t < length h -> c_rc (hget (setrc h t r) t) = r.
Proof.
  intros H. rewrite setrc_rc, Nat.eqb_refl.
  destruct (Nat.ltb_spec t (length h)); auto; lia.
Qed.

Lemma setrc_rc_other h t r m : t <> m -> c_rc (hget (setrc h t r) m) = c_rc (hget h m).
Proof.
  intros H. rewrite setrc_rc. destruct (Nat.eqb_spec t m); auto; contradiction.
Qed.

Lemma setrc_hsum g h t r : shape_only g -> hsum g (setrc h t r) = hsum g h.
Proof.
  intros Hg. destruct (lt_dec t (length h)) as [Hl|Hl].
  - pose proof (hsum_hset g h
      {| c_kids := c_kids (hget h t); c_rc := r; c_alive := c_alive (hget h t) |} Hl) as E.
    fold (setrc h t r) in E.
    rewrite (Hg (hget h t) {| c_kids := c_kids (hget h t); c_rc := r;
                              c_alive := c_alive (hget h t) |}) in E by reflexivity.
    lia.
  - unfold setrc, hset. rewrite upd_out by lia. reflexivity.
Qed.

Lemma setrc_parents h t r n : parents (setrc h t r) n = parents h n.
Proof. apply setrc_hsum, shape_contrib. Qed.
Lemma setrc_edges h t r : edges (setrc h t r) = edges h.
Proof. apply setrc_hsum, shape_ecount. Qed.
Lemma setrc_alive_cells h t r : alive_cells (setrc h t r) = alive_cells h.
Proof. apply setrc_hsum, shape_acount. Qed.

(* free *)
Lemma free_setrc h t r : free (setrc h t r) t = free h t.
Proof. unfold free, setrc. apply hset_hset. Qed.

Lemma free_length h t : length (free h t) = length h.
Proof. apply hset_length. Qed.

Lemma free_same h t : t < length h -> hget (free h t) t = dead.
Proof. intros; unfold free; rewrite hget_hset_same; auto. Qed.

Lemma free_other h t m : t <> m -> hget (free h t) m = hget h m.
Proof. intros; unfold free; rewrite hget_hset_other; auto. Qed.

Lemma free_live_same h t : live (free h t) t = false.
Proof.
  unfold live. destruct (lt_dec t (length h)).
  - rewrite free_same; auto.
  - rewrite hget_out; auto. rewrite free_length; lia.
Qed.

Lemma free_parents h t n :
  live h t = true -> parents (free h t) n + cnt n (c_kids (hget h t)) = parents h n.
Proof.
  intros H. pose proof (live_lt _ _ H) as Hl.
  pose proof (hsum_hset (contrib n) h {| c_kids := []; c_rc := 0; c_alive := false |} Hl) as E.
  unfold contrib at 2 4 in E. unfold live in H. rewrite H in E. simpl in E.
  unfold parents, free. lia.
Qed.

Lemma free_edges h t :
  live h t = true -> edges (free h t) + length (c_kids (hget h t)) = edges h.
Proof.
  intros H. pose proof (live_lt _ _ H) as Hl.
  pose proof (hsum_hset ecount h {| c_kids := []; c_rc := 0; c_alive := false |} Hl) as E.
  unfold ecount at 2 4 in E. unfold live in H. rewrite H in E. simpl in E.
  unfold edges, free. lia.
Qed.

Lemma free_alive_cells h t :
  live h t = true -> alive_cells (free h t) + 1 = alive_cells h.
Proof.
  intros H. pose proof (live_lt _ _ H) as Hl.
  pose proof (hsum_hset acount h {| c_kids := []; c_rc := 0; c_alive := false |} Hl) as E.
  unfold acount at 2 4 in E. unfold live in H. rewrite H in E. simpl in E.
  unfold alive_cells, free. lia.
Qed.

(* ------------------------------------------------------------------ *)
(** * 3. The counting invariant, relative to an external count [e]     *)
(* ------------------------------------------------------------------ *)

(* [e n] = number of references to cell n held outside the heap (client
   handles, static singletons, pending entries of the destructor's stack). *)
Record GInv (h : heap) (e : nat -> nat) : Prop := {
  g_ext  : forall n, e n > 0 -> live h n = true;
  g_kid  : forall i k, live h i = true -> In k (c_kids (hget h i)) ->
                       k < i /\ live h k = true;
  g_rc   : forall n, live h n = true -> c_rc (hget h n) = e n + parents h n;
  g_dead : forall n, live h n = false -> c_rc (hget h n) = 0 /\ c_kids (hget h n) = [];
  g_pos  : forall n, live h n = true -> c_rc (hget h n) > 0
}.

Lemma GInv_ext h e e' : (forall n, e n = e' n) -> GInv h e -> GInv h e'.
Proof.
  intros E [A B C D P]. split; auto.
  - intros n; rewrite <- E; auto.
  - intros n; rewrite <- E; auto.
Qed.

(* a cell that is not alive has no references at all *)
Lemma GInv_notlive h e n :
  GInv h e -> live h n = false -> e n = 0 /\ parents h n = 0.
Proof.
  intros G H. split.
  - destruct (e n) eqn:E; auto. rewrite (g_ext G n) in H by lia. discriminate.
  - destruct (parents h n) eqn:E; auto.
    destruct (@parents_pos h n) as [i [Hi Hk]]; [lia|].
    destruct (g_kid G i n Hi Hk) as [_ L]. congruence.
Qed.

Lemma GInv_setrc h e e' t r :
  GInv h e -> live h t = true ->
  (forall n, n <> t -> e' n = e n) ->
  r = e' t + parents h t -> r > 0 ->
  GInv (setrc h t r) e'.
Proof.
  intros G Ht E Hr Hp. pose proof (live_lt _ _ Ht) as Hl. split.
  - intros n Hn. rewrite setrc_live. destruct (Nat.eq_dec n t); [subst; auto|].
    apply (g_ext G). rewrite <- E; auto.
  - intros i k. rewrite !setrc_live, setrc_kids. apply (g_kid G).
  - intros n. rewrite setrc_live, setrc_parents. intros Hn.
    destruct (Nat.eq_dec t n).
    + subst. rewrite setrc_rc_same; auto.
    + rewrite setrc_rc_other, E; auto. apply (g_rc G); auto.
  - intros n. rewrite setrc_live, setrc_kids. intros Hn.
    rewrite setrc_rc_other by congruence. apply (g_dead G); auto.
  - intros n. rewrite setrc_live. intros Hn.
    destruct (Nat.eq_dec t n).
    + subst. rewrite setrc_rc_same; auto.
    + rewrite setrc_rc_other; auto. apply (g_pos G); auto.
Qed.

(* releasing the last reference to t: its child handles become external *)
Lemma GInv_free h e t :
  GInv h e -> live h t = true -> e t = 1 -> parents h t = 0 ->
  GInv (free h t) (fun n => (if t =? n then 0 else e n) + cnt n (c_kids (hget h t))).
Proof.
  intros G Ht Et Pt. pose proof (live_lt _ _ Ht) as Hl.
  assert (Hnk : forall i, live h i = true -> ~ In t (c_kids (hget h i))).
  { intros i Hi Hin. pose proof (parents_ge h i t Hi) as Hg.
    apply cnt_pos_In in Hin. lia. }
  assert (Hlive : forall m, m <> t -> live (free h t) m = live h m).
  { intros m Hm. unfold live. rewrite free_other; auto. }
  split.
  - intros n Hn. destruct (Nat.eqb_spec t n).
    + subst n. exfalso.
      assert (cnt t (c_kids (hget h t)) > 0) by lia.
      apply cnt_pos_In in H. apply (g_kid G t t Ht) in H. lia.
    + rewrite Hlive by auto.
      destruct (e n) eqn:En; [|apply (g_ext G); lia].
      assert (Hin : In n (c_kids (hget h t))) by (apply cnt_pos_In; lia).
      apply (g_kid G t n Ht Hin).
  - intros i k Hi. destruct (Nat.eq_dec i t).
    { subst. rewrite free_live_same in Hi. discriminate. }
    rewrite Hlive in Hi by auto. rewrite free_other by auto. intros Hk.
    destruct (g_kid G i k Hi Hk) as [Hlt Hlk]. split; auto.
    rewrite Hlive; auto. intros ->. apply (Hnk i Hi Hk).
  - intros n Hn. destruct (Nat.eqb_spec t n).
    { subst. rewrite free_live_same in Hn. discriminate. }
    rewrite Hlive in Hn by auto. rewrite free_other by auto.
    rewrite (g_rc G n Hn). pose proof (free_parents h t n Ht). lia.
  - intros n Hn. destruct (Nat.eq_dec t n).
    + subst. rewrite free_same; auto.
    + rewrite Hlive in Hn by auto. rewrite free_other by auto. apply (g_dead G); auto.
  - intros n Hn. destruct (Nat.eq_dec t n).
    { subst. rewrite free_live_same in Hn. discriminate. }
    rewrite Hlive in Hn by auto. rewrite free_other by auto. apply (g_pos G); auto.
Qed.

(* fold_left inc *)
Lemma incs_length ks : forall h, length (fold_left inc ks h) = length h.
Proof. induction ks; simpl; intros; auto. rewrite IHks, inc_setrc, setrc_length. auto. Qed.

Lemma incs_live ks : forall h m, live (fold_left inc ks h) m = live h m.
Proof. induction ks; simpl; intros; auto. rewrite IHks, inc_setrc, setrc_live. auto. Qed.

Lemma incs_kids ks : forall h m,
  c_kids (hget (fold_left inc ks h) m) = c_kids (hget h m).
Proof. induction ks; simpl; intros; auto. rewrite IHks, inc_setrc, setrc_kids. auto. Qed.

Lemma incs_hsum g ks : shape_only g -> forall h, hsum g (fold_left inc ks h) = hsum g h.
Proof.
  intros Hg. induction ks; simpl; intros; auto.
  rewrite IHks, inc_setrc, setrc_hsum; auto.
Qed.

Lemma incs_rc_mono ks : forall h m,
  c_rc (hget h m) <= c_rc (hget (fold_left inc ks h) m).
Proof.
  induction ks as [|k ks IH]; simpl; intros; auto.
  eapply Nat.le_trans; [|apply IH]. rewrite inc_setrc, setrc_rc.
  destruct (Nat.eqb_spec k m); simpl; auto. subst.
  destruct (m <? length h); lia.
Qed.

Lemma incs_rc ks : forall h m,
  (forall k, In k ks -> k < length h) ->
  c_rc (hget (fold_left inc ks h) m) = c_rc (hget h m) + cnt m ks.
Proof.
  induction ks as [|k ks IH]; simpl; intros h m H; [lia|].
  rewrite IH.
  - rewrite inc_setrc. destruct (Nat.eqb_spec k m).
    + subst. rewrite setrc_rc_same by auto. lia.
    + rewrite setrc_rc_other by auto. lia.
  - intros k' Hk'. rewrite inc_setrc, setrc_length. auto.
Qed.

Lemma GInv_alloc h e ks :
  GInv h e -> (forall k, In k ks -> e k > 0) ->
  snd (alloc h ks) = length h /\
  GInv (fst (alloc h ks)) (fun m => e m + if length h =? m then 1 else 0).
Proof.
  intros G Hks. unfold alloc. simpl. rewrite incs_length. split; auto.
  set (h1 := fold_left inc ks h).
  set (c := {| c_kids := ks; c_rc := 1; c_alive := true |}).
  assert (L1 : length h1 = length h) by apply incs_length.
  assert (Hkl : forall k, In k ks -> live h k = true) by (intros; apply (g_ext G); auto).
  assert (Hklt : forall k, In k ks -> k < length h) by (intros; apply live_lt; auto).
  assert (Hlt : forall m, m < length h -> hget (h1 ++ [c]) m = hget h1 m).
  { intros; apply hget_app_lt; lia. }
  assert (Heq : hget (h1 ++ [c]) (length h) = c).
  { rewrite <- L1. apply hget_app_eq. }
  assert (Hgt : forall m, length h < m -> hget (h1 ++ [c]) m = dead).
  { intros; apply hget_app_gt; lia. }
  assert (Hlive : forall m, m < length h -> live (h1 ++ [c]) m = live h m).
  { intros m Hm. unfold live at 1. rewrite Hlt by auto. apply incs_live. }
  assert (Hpar : forall n, parents (h1 ++ [c]) n = parents h n + cnt n ks).
  { intros n. unfold parents. rewrite hsum_app. unfold h1.
    rewrite incs_hsum by apply shape_contrib. simpl. unfold contrib at 2. simpl. lia. }
  assert (Hnew : live h (length h) = false).
  { destruct (live h (length h)) eqn:E; auto. apply live_lt in E. lia. }
  assert (Hcases : forall m, m < length h \/ m = length h \/ length h < m) by (intros; lia).
  split.
  - intros n Hn. destruct (Nat.eqb_spec (length h) n).
    + subst. unfold live. rewrite Heq. reflexivity.
    + assert (live h n = true) by (apply (g_ext G); lia).
      rewrite Hlive; auto. apply live_lt; auto.
  - intros i k Hi Hk. destruct (Hcases i) as [Hc|[Hc|Hc]].
    + rewrite Hlive in Hi by auto. rewrite Hlt in Hk by auto.
      unfold h1 in Hk. rewrite incs_kids in Hk.
      destruct (g_kid G i k Hi Hk) as [Hlt' Hlk]. split; auto.
      rewrite Hlive; auto. lia.
    + subst i. rewrite Heq in Hk. simpl in Hk.
      split; auto. rewrite Hlive; auto.
    + unfold live in Hi. rewrite Hgt in Hi by auto. discriminate.
  - intros n Hn. rewrite Hpar. destruct (Hcases n) as [Hc|[Hc|Hc]].
    + rewrite Hlive in Hn by auto. rewrite Hlt by auto. unfold h1.
      rewrite incs_rc by auto. rewrite (g_rc G n Hn).
      destruct (Nat.eqb_spec (length h) n); lia.
    + subst n. rewrite Heq. simpl. rewrite Nat.eqb_refl.
      destruct (GInv_notlive (length h) G Hnew) as [E0 P0]. rewrite E0, P0.
      rewrite cnt_zero_notin; auto. intros Hin. apply Hklt in Hin. lia.
    + unfold live in Hn. rewrite Hgt in Hn by auto. discriminate.
  - intros n Hn. destruct (Hcases n) as [Hc|[Hc|Hc]].
    + rewrite Hlive in Hn by auto. rewrite Hlt by auto. unfold h1.
      rewrite incs_rc, incs_kids by auto.
      destruct (g_dead G n Hn) as [R K]. rewrite R, K. split; auto.
      rewrite cnt_zero_notin; auto. intros Hin. apply Hkl in Hin. congruence.
    + subst n. unfold live in Hn. rewrite Heq in Hn. discriminate.
    + rewrite Hgt by auto. auto.
  - intros n Hn. destruct (Hcases n) as [Hc|[Hc|Hc]].
    + rewrite Hlive in Hn by auto. rewrite Hlt by auto.
      pose proof (incs_rc_mono ks h n). pose proof (g_pos G n Hn). unfold h1. lia.
    + subst n. rewrite Heq. simpl. lia.
    + unfold live in Hn. rewrite Hgt in Hn by auto. discriminate.
Qed.

(* ------------------------------------------------------------------ *)
(** * 4. The instrumented destructor                                   *)
(* ------------------------------------------------------------------ *)

(* Outcome of an instrumented run: normal completion (final heap and the list
   of deleted cells in deletion order), fuel exhausted with a non-empty stack,
   or an illegal access: reading a field of / decrementing / deleting a cell
   that has already been deleted, or decrementing a count that is 0. *)
Inductive outcome :=
| Done (h : heap) (log : list nat)
| OutOfFuel
| UseAfterFree.

Definition logc (t : nat) (o : outcome) : outcome :=
  match o with Done h l => Done h (t :: l) | x => x end.

(* guard: the cell is alive (every t->field access and every delete t) *)
Definition guard (b : bool) (k : outcome) : outcome := if b then k else UseAfterFree.

Fixpoint drop_loop_i (fuel : nat) (h : heap) (root : nat) (todo : list nat) : outcome :=
  match todo with
  | [] => Done h []
  | t :: rest =>
    match fuel with
    | 0 => OutOfFuel
    | S f =>
      if Nat.eqb t root then
        (* reads t->kids, then delete t *)
        guard (live h t)
          (logc t (drop_loop_i f (free h t) root (rev (c_kids (hget h t)) ++ rest)))
      else
        (* --t->refcount : t must be alive with a positive count *)
        guard (live h t && (0 <? c_rc (hget h t)))
          (let h1 := dec h t in
           (* reads t->refcount *)
           guard (live h1 t)
             (if Nat.eqb (c_rc (hget h1 t)) 0 then
                (* reads t->kids, then delete t *)
                guard (live h1 t)
                  (logc t (drop_loop_i f (free h1 t) root (rev (c_kids (hget h1 t)) ++ rest)))
              else drop_loop_i f h1 root rest))
    end
  end.

Definition drop_i (fuel : nat) (h : heap) (n : nat) : outcome :=
  guard (live h n && (0 <? c_rc (hget h n)))
    (let h1 := dec h n in
     guard (live h1 n)
       (if Nat.eqb (c_rc (hget h1 n)) 0 then drop_loop_i fuel h1 n [n] else Done h1 [])).

(* whenever the instrumented run completes it computes the model's heap *)
Lemma drop_loop_i_sound fuel : forall h root todo h' log,
  drop_loop_i fuel h root todo = Done h' log -> drop_loop fuel h root todo = h'.
Proof.
  induction fuel as [|f IH]; intros h root todo h' log H.
  - destruct todo; simpl in *; [inversion H; auto|discriminate].
  - destruct todo as [|t rest]; simpl in *; [inversion H; auto|].
    unfold guard in H.
    destruct (t =? root).
    + destruct (live h t); [|discriminate].
      destruct (drop_loop_i f (free h t) root (rev (c_kids (hget h t)) ++ rest)) eqn:E;
        simpl in H; try discriminate.
      inversion H; subst. eapply IH; eauto.
    + destruct (live h t && (0 <? c_rc (hget h t))); [|discriminate].
      destruct (live (dec h t) t); [|discriminate].
      destruct (c_rc (hget (dec h t) t) =? 0).
      * destruct (drop_loop_i f (free (dec h t) t) root
                    (rev (c_kids (hget (dec h t) t)) ++ rest)) eqn:E;
          simpl in H; try discriminate.
        inversion H; subst. eapply IH; eauto.
      * eapply IH; eauto.
Qed.

Lemma drop_i_sound fuel h n h' log :
  drop_i fuel h n = Done h' log -> drop fuel h n = h'.
Proof.
  unfold drop_i, drop, guard. intros H.
  destruct (live h n && (0 <? c_rc (hget h n))); [|discriminate].
  destruct (live (dec h n) n); [|discriminate].
  destruct (c_rc (hget (dec h n) n) =? 0).
  - eapply drop_loop_i_sound; eauto.
  - inversion H; auto.
Qed.

(* what a (partial) run of the destructor does to the heap *)
Record Post (h h' : heap) (log : list nat) : Prop := {
  p_len   : length h' = length h;
  p_nodup : NoDup log;
  p_log   : forall n, In n log -> live h n = true /\ live h' n = false;
  p_live  : forall n, live h' n = true ->
              live h n = true /\ c_kids (hget h' n) = c_kids (hget h n) /\
              c_rc (hget h' n) <= c_rc (hget h n);
  p_freed : forall n, live h n = true -> live h' n = false -> In n log;
  p_edges : edges h' <= edges h;
  p_cells : alive_cells h' + length log = alive_cells h
}.

Lemma Post_refl h : Post h h [].
Proof.
  split; simpl; auto; try tauto.
  - constructor.
  - intros; congruence.
Qed.

Lemma Post_trans h h1 h2 l1 l2 :
  Post h h1 l1 -> Post h1 h2 l2 -> Post h h2 (l1 ++ l2).
Proof.
  intros A B. split.
  - rewrite (p_len B), (p_len A); auto.
  - apply NoDup_app_intro; [apply (p_nodup A)|apply (p_nodup B)|].
    intros x Hx Hy. apply (p_log A) in Hx. apply (p_log B) in Hy.
    destruct Hx, Hy. congruence.
  - intros n Hn. apply in_app_or in Hn. destruct Hn as [Hn|Hn].
    + destruct (p_log A n Hn) as [L1 L2]. split; auto.
      destruct (live h2 n) eqn:E; auto.
      apply (p_live B) in E. destruct E. congruence.
    + destruct (p_log B n Hn) as [L1 L2]. split; auto.
      apply (p_live A) in L1. tauto.
  - intros n Hn. destruct (p_live B n Hn) as [L1 [K1 R1]].
    destruct (p_live A n L1) as [L0 [K0 R0]].
    split; auto. split; [congruence|lia].
  - intros n L0 L2. apply in_or_app. destruct (live h1 n) eqn:E.
    + right. apply (p_freed B); auto.
    + left. apply (p_freed A); auto.
  - pose proof (p_edges A); pose proof (p_edges B); lia.
  - rewrite app_length. pose proof (p_cells A); pose proof (p_cells B); lia.
Qed.

Lemma Post_setrc h t r : r <= c_rc (hget h t) -> Post h (setrc h t r) [].
Proof.
  intros Hr. split; simpl; try tauto.
  - apply setrc_length.
  - constructor.
  - intros n. rewrite setrc_live, setrc_kids, setrc_rc. intros Hn. split; auto. split; auto.
    destruct (Nat.eqb_spec t n); simpl; auto. subst.
    destruct (n <? length h); auto.
  - intros n. rewrite setrc_live. congruence.
  - rewrite setrc_edges; auto.
  - rewrite setrc_alive_cells; auto.
Qed.

Lemma Post_free h t : live h t = true -> Post h (free h t) [t].
Proof.
  intros Ht. split.
  - apply free_length.
  - constructor; [simpl; tauto|constructor].
  - intros n [<-|[]]. split; auto. apply free_live_same.
  - intros n Hn. destruct (Nat.eq_dec t n).
    + subst. rewrite free_live_same in Hn. discriminate.
    + unfold live in *. rewrite free_other in * by auto. auto.
  - intros n L0 L1. destruct (Nat.eq_dec t n); [left; auto|].
    unfold live in *. rewrite free_other in L1 by auto. congruence.
  - pose proof (free_edges h t Ht). lia.
  - pose proof (free_alive_cells h t Ht). simpl. lia.
Qed.

(* The loop theorem.  Each pending entry of [todo] is one outstanding reference;
   [root] has already been deleted. *)
Lemma loop_ok fuel : forall h root todo e,
  GInv h (fun n => cnt n todo + e n) ->
  live h root = false ->
  length todo + edges h <= fuel ->
  exists h' log,
    drop_loop_i fuel h root todo = Done h' log /\
    (forall f2, length todo + edges h <= f2 -> drop_loop f2 h root todo = h') /\
    GInv h' e /\ Post h h' log.
Proof.
  induction fuel as [|f IH]; intros h root todo e G Hroot Hfuel.
  - destruct todo; simpl in Hfuel; [|lia].
    exists h, []. split; [reflexivity|]. split; [intros [|f2] _; reflexivity|].
    split; [|apply Post_refl]. eapply GInv_ext; [|exact G]. intros; reflexivity.
  - destruct todo as [|t rest].
    { exists h, []. split; [reflexivity|]. split; [intros [|f2] _; reflexivity|].
      split; [|apply Post_refl]. eapply GInv_ext; [|exact G]. intros; reflexivity. }
    assert (Ht : live h t = true).
    { apply (g_ext G). simpl. rewrite Nat.eqb_refl. lia. }
    pose proof (live_lt _ _ Ht) as Hl.
    assert (Hne : (t =? root) = false).
    { apply Nat.eqb_neq. intros ->. congruence. }
    pose proof (g_rc G t Ht) as Hrc. simpl in Hrc. rewrite Nat.eqb_refl in Hrc.
    assert (Hdrc : c_rc (hget (dec h t) t) = pred (c_rc (hget h t))).
    { rewrite dec_setrc. apply setrc_rc_same; auto. }
    assert (Hdk : c_kids (hget (dec h t) t) = c_kids (hget h t)).
    { rewrite dec_setrc. apply setrc_kids. }
    assert (Hdl : live (dec h t) t = true).
    { rewrite dec_setrc, setrc_live; auto. }
    assert (Hdf : free (dec h t) t = free h t).
    { rewrite dec_setrc. apply free_setrc. }
    assert (Hguard : live h t && (0 <? c_rc (hget h t)) = true).
    { rewrite Ht. simpl. apply Nat.ltb_lt. lia. }
    destruct (c_rc (hget (dec h t) t) =? 0) eqn:Ez.
    + (* last reference: delete t, push its kids *)
      apply Nat.eqb_eq in Ez.
      assert (Et : cnt t rest + e t = 0) by lia.
      assert (Pt : parents h t = 0) by lia.
      assert (G2 : GInv (free h t)
                     (fun n => cnt n (rev (c_kids (hget h t)) ++ rest) + e n)).
      { eapply GInv_ext; [|apply (GInv_free t G Ht)].
        - intros n. simpl. rewrite cnt_app, cnt_rev.
          destruct (Nat.eqb_spec t n); [subst; lia|lia].
        - simpl. rewrite Nat.eqb_refl. lia.
        - exact Pt. }
      assert (Hroot2 : live (free h t) root = false).
      { unfold live. rewrite free_other; auto. apply Nat.eqb_neq; auto. }
      pose proof (free_edges h t Ht) as Hed.
      assert (Hfuel2 : length (rev (c_kids (hget h t)) ++ rest) + edges (free h t) <= f).
      { rewrite app_length, rev_length. simpl in Hfuel. lia. }
      destruct (IH _ _ _ _ G2 Hroot2 Hfuel2) as [h' [log [Hi [Hf [G' P']]]]].
      exists h', (t :: log). split; [|split; [|split]].
      * cbn [drop_loop_i]. rewrite Hne, Hguard. unfold guard at 1. cbv zeta.
        rewrite Hdl. unfold guard. rewrite Ez, Nat.eqb_refl, Hdf, Hdk, Hi. reflexivity.
      * intros [|f2] Hf2; [simpl in Hf2; lia|].
        cbn [drop_loop]. rewrite Hne. cbv zeta.
        rewrite Ez, Nat.eqb_refl, Hdf, Hdk. apply Hf.
        rewrite app_length, rev_length. simpl in Hf2. lia.
      * exact G'.
      * apply (Post_trans (Post_free h t Ht) P').
    + (* other references remain *)
      apply Nat.eqb_neq in Ez.
      assert (G2 : GInv (dec h t) (fun n => cnt n rest + e n)).
      { rewrite dec_setrc. eapply GInv_setrc; [exact G|exact Ht| | |].
        - intros n Hn. simpl. destruct (Nat.eqb_spec t n); [congruence|lia].
        - lia.
        - lia. }
      assert (Hroot2 : live (dec h t) root = false).
      { rewrite dec_setrc, setrc_live; auto. }
      assert (Hed : edges (dec h t) = edges h) by (rewrite dec_setrc; apply setrc_edges).
      assert (Hfuel2 : length rest + edges (dec h t) <= f) by (simpl in Hfuel; lia).
      destruct (IH _ _ _ _ G2 Hroot2 Hfuel2) as [h' [log [Hi [Hf [G' P']]]]].
      exists h', log. split; [|split; [|split]].
      * cbn [drop_loop_i]. rewrite Hne, Hguard. unfold guard at 1. cbv zeta.
        rewrite Hdl. unfold guard.
        destruct (Nat.eqb_spec (c_rc (hget (dec h t) t)) 0); [contradiction|]. exact Hi.
      * intros [|f2] Hf2; [simpl in Hf2; lia|].
        cbn [drop_loop]. rewrite Hne. cbv zeta.
        destruct (Nat.eqb_spec (c_rc (hget (dec h t) t)) 0); [contradiction|].
        apply Hf. simpl in Hf2. lia.
      * exact G'.
      * change log with ([] ++ log). eapply Post_trans; [|exact P'].
        rewrite dec_setrc. apply Post_setrc. lia.
Qed.

(* Tree::~Tree on one handle to n, where [e] counts all external references
   including the one being destroyed *)
Lemma drop_ok fuel h e n :
  GInv h e -> e n > 0 -> edges h < fuel ->
  exists log,
    drop_i fuel h n = Done (drop fuel h n) log /\
    (forall f2, edges h < f2 -> drop f2 h n = drop fuel h n) /\
    GInv (drop fuel h n) (fun m => e m - if n =? m then 1 else 0) /\
    Post h (drop fuel h n) log.
Proof.
  intros G En Hfuel.
  assert (Ht : live h n = true) by (apply (g_ext G); auto).
  pose proof (live_lt _ _ Ht) as Hl.
  pose proof (g_rc G n Ht) as Hrc.
  assert (Hdrc : c_rc (hget (dec h n) n) = pred (c_rc (hget h n))).
  { rewrite dec_setrc. apply setrc_rc_same; auto. }
  assert (Hdk : c_kids (hget (dec h n) n) = c_kids (hget h n)).
  { rewrite dec_setrc. apply setrc_kids. }
  assert (Hdl : live (dec h n) n = true).
  { rewrite dec_setrc, setrc_live; auto. }
  assert (Hdf : free (dec h n) n = free h n).
  { rewrite dec_setrc. apply free_setrc. }
  assert (Hguard : live h n && (0 <? c_rc (hget h n)) = true).
  { rewrite Ht. simpl. apply Nat.ltb_lt. lia. }
  unfold drop, drop_i. rewrite Hguard. unfold guard at 1. cbv zeta.
  rewrite Hdl. unfold guard at 1.
  destruct (c_rc (hget (dec h n) n) =? 0) eqn:Ez.
  - apply Nat.eqb_eq in Ez.
    assert (Et : e n = 1) by lia.
    assert (Pt : parents h n = 0) by lia.
    destruct fuel as [|f]; [lia|].
    set (e' := fun m => e m - if n =? m then 1 else 0).
    assert (G2 : GInv (free h n)
                   (fun m => cnt m (rev (c_kids (hget h n)) ++ []) + e' m)).
    { eapply GInv_ext; [|apply (GInv_free n G Ht Et Pt)].
      intros m. simpl. rewrite cnt_app, cnt_rev. simpl. unfold e'.
      destruct (Nat.eqb_spec n m); [subst; lia|lia]. }
    pose proof (free_live_same h n) as Hroot2.
    pose proof (free_edges h n Ht) as Hed.
    assert (Hfuel2 : length (rev (c_kids (hget h n)) ++ []) + edges (free h n) <= f).
    { rewrite app_length, rev_length. simpl. lia. }
    destruct (@loop_ok f (free h n) n (rev (c_kids (hget h n)) ++ []) e' G2 Hroot2 Hfuel2) as [h' [log [Hi [Hf [G' P']]]]].
    assert (Hres : drop_loop (S f) (dec h n) n [n] = h').
    { cbn [drop_loop]. rewrite Nat.eqb_refl, Hdf, Hdk. apply Hf. lia. }
    rewrite Hres.
    exists (n :: log). split; [|split; [|split]].
    + cbn [drop_loop_i]. rewrite Nat.eqb_refl, Hdl. unfold guard.
      rewrite Hdf, Hdk, Hi. reflexivity.
    + intros [|f2] Hf2; [lia|].
      cbn [drop_loop]. rewrite Nat.eqb_refl, Hdf, Hdk. apply Hf.
      rewrite app_length, rev_length. simpl. lia.
    + exact G'.
    + apply (Post_trans (Post_free h n Ht) P').
  - apply Nat.eqb_neq in Ez.
    exists []. split; [reflexivity|]. split; [reflexivity|]. split.
    + rewrite dec_setrc. eapply GInv_setrc; [exact G|exact Ht| | |].
      * intros m Hm. destruct (Nat.eqb_spec n m); [congruence|lia].
      * rewrite Nat.eqb_refl. lia.
      * lia.
    + rewrite dec_setrc. apply Post_setrc. lia.
Qed.

(* ------------------------------------------------------------------ *)
(** * 5. The client-level invariant                                    *)
(* ------------------------------------------------------------------ *)

Definition handles_of (s : rstate) : list nat := somes (r_handles s).

(* external references of a client state: handles and static singletons *)
Definition ext (s : rstate) (n : nat) : nat := cnt n (handles_of s) + cnt n (r_statics s).

Record Inv (s : rstate) : Prop := {
  (* (i) no dangling reference *)
  inv_handles : forall n, In n (handles_of s) ->
                  n < length (r_heap s) /\ live (r_heap s) n = true;
  inv_statics : forall n, In n (r_statics s) ->
                  n < length (r_heap s) /\ live (r_heap s) n = true;
  inv_kids    : forall i k, live (r_heap s) i = true -> In k (c_kids (hget (r_heap s) i)) ->
                  k < length (r_heap s) /\ live (r_heap s) k = true;
  (* (ii) the count is exactly the number of owners *)
  inv_rc      : forall n, live (r_heap s) n = true ->
                  c_rc (hget (r_heap s) n) =
                  cnt n (handles_of s) + cnt n (r_statics s) + parents (r_heap s) n;
  (* (iii) deleted cells are empty *)
  inv_dead    : forall n, live (r_heap s) n = false ->
                  c_rc (hget (r_heap s) n) = 0 /\ c_kids (hget (r_heap s) n) = [];
  (* (iv) nodes only reference older nodes *)
  inv_acyclic : forall i k, live (r_heap s) i = true -> In k (c_kids (hget (r_heap s) i)) ->
                  k < i;
  (* (v) an alive cell has a positive count (needed for leak freedom) *)
  inv_pos     : forall n, live (r_heap s) n = true -> c_rc (hget (r_heap s) n) > 0
}.

Lemma ext_pos s n : ext s n > 0 <-> In n (handles_of s ++ r_statics s).
Proof.
  unfold ext. rewrite in_app_iff, <- !cnt_pos_In. lia.
Qed.

Lemma Inv_GInv s : Inv s <-> GInv (r_heap s) (ext s).
Proof.
  split.
  - intros [A B C D E F P]. split; auto.
    + intros n Hn. apply ext_pos, in_app_or in Hn. destruct Hn as [Hn|Hn].
      * apply A; auto.
      * apply B; auto.
    + intros i k Hi Hk. split; [eapply F; eauto|eapply C; eauto].
  - intros G. split.
    + intros n Hn. assert (live (r_heap s) n = true).
      { apply (g_ext G), ext_pos, in_or_app; auto. }
      split; auto. apply live_lt; auto.
    + intros n Hn. assert (live (r_heap s) n = true).
      { apply (g_ext G), ext_pos, in_or_app; auto. }
      split; auto. apply live_lt; auto.
    + intros i k Hi Hk. destruct (g_kid G i k Hi Hk). split; auto. apply live_lt; auto.
    + intros n Hn. apply (g_rc G n Hn).
    + apply (g_dead G).
    + intros i k Hi Hk. apply (g_kid G i k Hi Hk).
    + apply (g_pos G).
Qed.

(* an explicit sufficient bound on the destructor's fuel *)
Definition fuel_ok (fuel : nat) (s : rstate) : Prop := edges (r_heap s) < fuel.

(* the user's coarser bound also suffices *)
Lemma fuel_ok_coarse fuel s :
  alive_cells (r_heap s) + edges (r_heap s) + 1 <= fuel -> fuel_ok fuel s.
Proof. unfold fuel_ok; lia. Qed.

Definition all_some (ids : list (option nat)) : bool :=
  forallb (fun x => match x with Some _ => true | None => false end) ids.

Lemma rstep_alloc fuel s ks :
  rstep fuel s (RAlloc ks) =
  if all_some (map (hnd s) ks) then
    {| r_heap := fst (alloc (r_heap s) (somes (map (hnd s) ks)));
       r_handles := r_handles s ++ [Some (snd (alloc (r_heap s) (somes (map (hnd s) ks))))];
       r_statics := r_statics s |}
  else s.
Proof. reflexivity. Qed.

Lemma kids_ext s ks k : In k (somes (map (hnd s) ks)) -> ext s k > 0.
Proof.
  intros H. unfold somes in H. apply in_flat_map in H. destruct H as [x [Hx Hk]].
  destruct x as [n|]; simpl in Hk; [|contradiction]. destruct Hk as [->|[]].
  apply in_map_iff in Hx. destruct Hx as [i [Hi _]].
  apply ext_pos, in_or_app. left. unfold hnd in Hi. eapply nth_somes_In; eauto.
Qed.

Lemma alloc_GInv s ks :
  GInv (r_heap s) (ext s) ->
  GInv (fst (alloc (r_heap s) (somes (map (hnd s) ks))))
       (ext {| r_heap := fst (alloc (r_heap s) (somes (map (hnd s) ks)));
               r_handles := r_handles s ++ [Some (snd (alloc (r_heap s) (somes (map (hnd s) ks))))];
               r_statics := r_statics s |}).
Proof.
  intros G.
  destruct (GInv_alloc (somes (map (hnd s) ks)) G (@kids_ext s ks)) as [E G'].
  eapply GInv_ext; [|exact G'].
  intros m. unfold ext, handles_of. cbn [r_handles r_statics].
  rewrite somes_app, cnt_app, E. simpl. lia.
Qed.

Lemma copy_GInv s i n :
  GInv (r_heap s) (ext s) -> hnd s i = Some n ->
  GInv (inc (r_heap s) n)
       (ext {| r_heap := inc (r_heap s) n; r_handles := r_handles s ++ [Some n];
               r_statics := r_statics s |}).
Proof.
  intros G Hi.
  assert (En : ext s n > 0).
  { apply ext_pos, in_or_app; left. eapply nth_somes_In; eauto. }
  assert (Ht : live (r_heap s) n = true) by (apply (g_ext G); auto).
  rewrite inc_setrc. eapply GInv_setrc; [exact G|exact Ht| | |].
  - intros m Hm. unfold ext, handles_of. cbn [r_handles r_statics].
    rewrite somes_app, cnt_app. simpl. destruct (Nat.eqb_spec n m); [congruence|lia].
  - unfold ext at 1, handles_of. cbn [r_handles r_statics].
    rewrite somes_app, cnt_app. simpl. rewrite Nat.eqb_refl.
    rewrite (g_rc G n Ht). unfold ext, handles_of. lia.
  - lia.
Qed.

Lemma drop_ext s i n m :
  hnd s i = Some n ->
  ext {| r_heap := r_heap s; r_handles := upd (r_handles s) i (fun _ => None);
         r_statics := r_statics s |} m
  = ext s m - (if n =? m then 1 else 0).
Proof.
  intros Hi. unfold ext, handles_of. cbn [r_handles r_statics].
  pose proof (cnt_somes_upd (r_handles s) i m Hi). lia.
Qed.

Lemma drop_state_ok fuel s i n :
  GInv (r_heap s) (ext s) -> fuel_ok fuel s -> hnd s i = Some n ->
  exists log,
    drop_i fuel (r_heap s) n = Done (drop fuel (r_heap s) n) log /\
    (forall f2, edges (r_heap s) < f2 -> drop f2 (r_heap s) n = drop fuel (r_heap s) n) /\
    GInv (drop fuel (r_heap s) n)
         (ext {| r_heap := drop fuel (r_heap s) n;
                 r_handles := upd (r_handles s) i (fun _ => None);
                 r_statics := r_statics s |}) /\
    Post (r_heap s) (drop fuel (r_heap s) n) log.
Proof.
  intros G Hf Hi.
  assert (En : ext s n > 0).
  { apply ext_pos, in_or_app; left. eapply nth_somes_In; eauto. }
  destruct (drop_ok n G En Hf) as [log [A [B [C D]]]].
  exists log. split; auto. split; auto. split; auto.
  eapply GInv_ext; [|exact C]. intros m. symmetry.
  exact (drop_ext s i m Hi).
Qed.

(** ** Goal 1: the invariant is preserved *)
Theorem rstep_inv fuel s o : Inv s -> fuel_ok fuel s -> Inv (rstep fuel s o).
Proof.
  intros I Hf. destruct o as [ks|i|i].
  - rewrite rstep_alloc. destruct (all_some (map (hnd s) ks)); auto.
    apply Inv_GInv. cbn [r_heap]. apply alloc_GInv. apply Inv_GInv; auto.
  - simpl. destruct (hnd s i) as [n|] eqn:Hi; auto.
    apply Inv_GInv. cbn [r_heap]. apply copy_GInv with (i := i); auto. apply Inv_GInv; auto.
  - simpl. destruct (hnd s i) as [n|] eqn:Hi; auto.
    apply Inv_GInv. cbn [r_heap].
    destruct (@drop_state_ok fuel s i n) as [log [_ [_ [G _]]]]; auto.
    apply Inv_GInv; auto.
Qed.

(* initial states *)
Definition empty_state : rstate := {| r_heap := []; r_handles := []; r_statics := [] |}.

Lemma hget_nil n : hget [] n = dead.
Proof. unfold hget. destruct n; reflexivity. Qed.

Theorem Inv_empty : Inv empty_state.
Proof.
  split; simpl; try tauto; intros; unfold live in *;
    try rewrite hget_nil in *; simpl in *; try discriminate; auto.
Qed.

(* `static Tree x = ...;` : handle i is moved to static storage and is never
   destroyed *)
Definition make_static (s : rstate) (i : nat) : rstate :=
  match hnd s i with
  | Some n => {| r_heap := r_heap s; r_handles := upd (r_handles s) i (fun _ => None);
                 r_statics := n :: r_statics s |}
  | None => s
  end.

Theorem make_static_inv s i : Inv s -> Inv (make_static s i).
Proof.
  intros I. unfold make_static. destruct (hnd s i) as [n|] eqn:Hi; auto.
  apply Inv_GInv. apply Inv_GInv in I. cbn [r_heap].
  eapply GInv_ext; [|exact I].
  intros m. unfold ext, handles_of. cbn [r_handles r_statics].
  pose proof (cnt_somes_upd (r_handles s) i m Hi). simpl. lia.
Qed.

(* the initial state of a program with k leaf singletons *)
Definition leaf1 : cell := {| c_kids := []; c_rc := 1; c_alive := true |}.
Definition init_statics (k : nat) : rstate :=
  {| r_heap := repeat leaf1 k; r_handles := []; r_statics := seq 0 k |}.

Lemma hsum_repeat g c k : hsum g (repeat c k) = k * g c.
Proof. induction k; simpl; lia. Qed.

Lemma hget_repeat c k n : n < k -> hget (repeat c k) n = c.
Proof. intros H. unfold hget. revert n H; induction k; intros [|n] H; simpl; auto; try lia. apply IHk; lia. Qed.

Lemma cnt_seq n a k : cnt n (seq a k) = if (a <=? n) && (n <? a + k) then 1 else 0.
Proof.
  revert a; induction k as [|k IH]; intros a; simpl.
  - destruct (Nat.leb_spec a n), (Nat.ltb_spec n (a + 0)); simpl; auto; lia.
  - rewrite IH.
    destruct (Nat.eqb_spec a n), (Nat.leb_spec a n), (Nat.leb_spec (S a) n),
      (Nat.ltb_spec n (S a + k)), (Nat.ltb_spec n (a + S k)); simpl; lia.
Qed.

Theorem Inv_init_statics k : Inv (init_statics k).
Proof.
  apply Inv_GInv. unfold init_statics, ext, handles_of. cbn [r_heap r_handles r_statics].
  assert (Hlive : forall n, live (repeat leaf1 k) n = (n <? k)).
  { intros n. unfold live. destruct (Nat.ltb_spec n k).
    - rewrite hget_repeat; auto.
    - rewrite hget_out; auto. rewrite repeat_length; auto. }
  assert (Hpar : forall n, parents (repeat leaf1 k) n = 0).
  { intros n. unfold parents. rewrite hsum_repeat. unfold contrib; simpl. lia. }
  split.
  - intros n. rewrite Hlive, cnt_seq.
    change (0 <=? n) with true. change (0 + k) with k. change (somes []) with (@nil nat). cbn [andb cnt].
    destruct (n <? k); auto. lia.
  - intros i n. rewrite Hlive. intros Hi. apply Nat.ltb_lt in Hi.
    rewrite hget_repeat by auto. simpl. tauto.
  - intros n. rewrite Hlive, Hpar, cnt_seq. intros Hn. apply Nat.ltb_lt in Hn as Hn'.
    rewrite hget_repeat by auto.
    change (0 <=? n) with true. change (0 + k) with k. change (somes []) with (@nil nat). cbn [andb cnt].
    rewrite Hn. reflexivity.
  - intros n. rewrite Hlive. intros Hn. apply Nat.ltb_ge in Hn.
    rewrite hget_out by (rewrite repeat_length; auto). auto.
  - intros n. rewrite Hlive. intros Hn. apply Nat.ltb_lt in Hn.
    rewrite hget_repeat by auto. simpl. lia.
Qed.

(* cost of an operation in new edges *)
Definition op_cost (o : rop) : nat := match o with RAlloc ks => length ks | _ => 0 end.
Definition ops_cost (ops : list rop) : nat := fold_right (fun o a => op_cost o + a) 0 ops.

Lemma alloc_edges h ks : edges (fst (alloc h ks)) = edges h + length ks.
Proof.
  unfold alloc. simpl. unfold edges. rewrite hsum_app.
  rewrite incs_hsum by apply shape_ecount. unfold ecount; simpl. lia.
Qed.

Lemma rstep_edges fuel s o :
  Inv s -> fuel_ok fuel s ->
  edges (r_heap (rstep fuel s o)) <= edges (r_heap s) + op_cost o.
Proof.
  intros I Hf. destruct o as [ks|i|i].
  - rewrite rstep_alloc. destruct (all_some (map (hnd s) ks)); [|lia].
    cbn [r_heap]. rewrite alloc_edges. simpl.
    pose proof (somes_length (map (hnd s) ks)). rewrite map_length in H. lia.
  - simpl. destruct (hnd s i) as [n|] eqn:Hi; simpl; [|lia].
    rewrite inc_setrc, setrc_edges. lia.
  - simpl. destruct (hnd s i) as [n|] eqn:Hi; simpl; [|lia].
    destruct (@drop_state_ok fuel s i n) as [log [_ [_ [_ P]]]]; auto.
    { apply Inv_GInv; auto. }
    pose proof (p_edges P). lia.
Qed.

Definition run (fuel : nat) (s : rstate) (ops : list rop) : rstate :=
  fold_left (rstep fuel) ops s.

Theorem run_inv fuel ops : forall s,
  Inv s -> edges (r_heap s) + ops_cost ops < fuel ->
  Inv (run fuel s ops) /\ edges (r_heap (run fuel s ops)) <= edges (r_heap s) + ops_cost ops.
Proof.
  induction ops as [|o ops IH]; intros s I Hf; simpl in *.
  - split; auto. lia.
  - assert (F : fuel_ok fuel s) by (unfold fuel_ok; lia).
    pose proof (rstep_inv o I F) as I'.
    pose proof (rstep_edges o I F) as E'.
    destruct (IH (rstep fuel s o) I') as [A B]; [lia|].
    split; auto. unfold run in *. lia.
Qed.

Corollary reachable_inv fuel ops :
  ops_cost ops < fuel -> Inv (run fuel empty_state ops).
Proof. intros H. apply run_inv; [apply Inv_empty|simpl; lia]. Qed.

(* ------------------------------------------------------------------ *)
(** * 6. Consequences                                                  *)
(* ------------------------------------------------------------------ *)

(** ** Goal 2: no use after free, no double delete *)
Theorem no_use_after_free fuel s i n :
  Inv s -> fuel_ok fuel s -> hnd s i = Some n ->
  exists log,
    (* the instrumented destructor never touches a deleted cell, never
       underflows a count, does not run out of fuel, and computes the model's heap *)
    drop_i fuel (r_heap s) n = Done (drop fuel (r_heap s) n) log /\
    (* no cell is deleted twice; exactly the deleted cells change liveness *)
    NoDup log /\
    (forall m, In m log <->
               live (r_heap s) m = true /\ live (drop fuel (r_heap s) n) m = false) /\
    alive_cells (drop fuel (r_heap s) n) + length log = alive_cells (r_heap s).
Proof.
  intros I Hf Hi. apply Inv_GInv in I.
  destruct (drop_state_ok i I Hf Hi) as [log [A [_ [_ P]]]].
  exists log. split; auto. split; [apply (p_nodup P)|]. split; [|apply (p_cells P)].
  intros m. split.
  - apply (p_log P).
  - intros [L1 L2]. apply (p_freed P); auto.
Qed.

(** ** Goal 3: arguments are untouched *)
Theorem alloc_copy_untouched fuel s o :
  match o with RDrop _ => False | _ => True end ->
  length (r_heap s) <= length (r_heap (rstep fuel s o)) /\
  forall n, n < length (r_heap s) ->
    live (r_heap (rstep fuel s o)) n = live (r_heap s) n /\
    c_kids (hget (r_heap (rstep fuel s o)) n) = c_kids (hget (r_heap s) n) /\
    c_rc (hget (r_heap s) n) <= c_rc (hget (r_heap (rstep fuel s o)) n).
Proof.
  intros Ho. destruct o as [ks|i|i]; [| |contradiction].
  - rewrite rstep_alloc. destruct (all_some (map (hnd s) ks)); [|split; auto].
    cbn [r_heap]. unfold alloc. cbn [fst]. rewrite app_length, incs_length. split; [lia|].
    intros n Hn. unfold live. rewrite hget_app_lt by (rewrite incs_length; auto).
    split; [apply incs_live|]. split; [apply incs_kids|apply incs_rc_mono].
  - simpl. destruct (hnd s i) as [n|]; [|split; auto]. cbn [r_heap].
    rewrite inc_setrc, setrc_length. split; auto. intros m Hm.
    rewrite setrc_live, setrc_kids, setrc_rc. split; auto. split; auto.
    destruct (Nat.eqb_spec n m); simpl; auto. subst.
    destruct (m <? length (r_heap s)); auto.
Qed.

(* reachability through child handles *)
Inductive reach (h : heap) (roots : list nat) : nat -> Prop :=
| reach_root n : In n roots -> reach h roots n
| reach_kid m k : reach h roots m -> In k (c_kids (hget h m)) -> reach h roots k.

Theorem drop_untouched fuel s i n :
  Inv s -> fuel_ok fuel s -> hnd s i = Some n ->
  let s' := rstep fuel s (RDrop i) in
  forall m, reach (r_heap s) (handles_of s' ++ r_statics s') m ->
    live (r_heap s') m = true /\
    c_kids (hget (r_heap s') m) = c_kids (hget (r_heap s) m).
Proof.
  intros I Hf Hi. apply Inv_GInv in I.
  destruct (drop_state_ok i I Hf Hi) as [log [_ [_ [G P]]]].
  simpl. rewrite Hi. cbn [r_heap r_handles r_statics].
  set (s' := {| r_heap := drop fuel (r_heap s) n;
                r_handles := upd (r_handles s) i (fun _ => None);
                r_statics := r_statics s |}) in *.
  change (handles_of s' ++ r_statics s') with
    (somes (upd (r_handles s) i (fun _ => None)) ++ r_statics s) in *.
  intros m R. induction R as [m Hm|m k R IH Hk].
  - assert (L : live (drop fuel (r_heap s) n) m = true).
    { apply (g_ext G). apply ext_pos. exact Hm. }
    split; auto. apply (p_live P m L).
  - destruct IH as [L K]. rewrite <- K in Hk.
    destruct (g_kid G m k L Hk) as [_ Lk]. split; auto. apply (p_live P k Lk).
Qed.

(** ** Goal 4: alive iff reachable; leak freedom *)
Lemma reach_live h e roots n :
  GInv h e -> (forall r, In r roots -> e r > 0) -> reach h roots n -> live h n = true.
Proof.
  intros G Hr R. induction R as [n Hn|m k R IH Hk].
  - apply (g_ext G); auto.
  - apply (g_kid G m k IH Hk).
Qed.

Lemma live_reach h e roots :
  GInv h e -> (forall r, e r > 0 -> In r roots) ->
  forall n, live h n = true -> reach h roots n.
Proof.
  intros G Hr.
  assert (H : forall d n, length h - n <= d -> live h n = true -> reach h roots n).
  { induction d as [|d IH]; intros n Hd Hn.
    - apply live_lt in Hn. lia.
    - pose proof (g_pos G n Hn) as Hp. pose proof (g_rc G n Hn) as Hc.
      destruct (e n) eqn:En.
      + destruct (@parents_pos h n) as [i [Hi Hk]]; [lia|].
        destruct (g_kid G i n Hi Hk) as [Hlt _].
        apply reach_kid with (m := i); auto. apply IH; auto.
        apply live_lt in Hi. lia.
      + apply reach_root, Hr. lia. }
  intros n. apply (H (length h - n)). lia.
Qed.

Theorem alive_iff_reachable s n :
  Inv s ->
  (live (r_heap s) n = true <-> reach (r_heap s) (handles_of s ++ r_statics s) n).
Proof.
  intros I. apply Inv_GInv in I. split.
  - intros L. eapply live_reach; [exact I| |exact L]. intros r. apply ext_pos.
  - intros R. eapply reach_live; [exact I| |exact R]. intros r. apply ext_pos.
Qed.

Theorem leak_free s n :
  Inv s -> handles_of s = [] ->
  live (r_heap s) n = true -> reach (r_heap s) (r_statics s) n.
Proof.
  intros I H L. apply (alive_iff_reachable n I) in L. rewrite H in L. exact L.
Qed.

(* in every state reachable from the empty one / from k leaf singletons *)
Corollary alive_iff_reachable_run fuel s0 ops n :
  Inv s0 -> edges (r_heap s0) + ops_cost ops < fuel ->
  let s := run fuel s0 ops in
  (live (r_heap s) n = true <-> reach (r_heap s) (handles_of s ++ r_statics s) n).
Proof. intros I H. apply alive_iff_reachable. apply run_inv; auto. Qed.

(* a program without singletons that destroys every handle frees everything *)
Corollary no_statics_all_freed s n :
  Inv s -> handles_of s = [] -> r_statics s = [] -> live (r_heap s) n = false.
Proof.
  intros I H1 H2. destruct (live (r_heap s) n) eqn:L; auto.
  apply (leak_free n I H1) in L. rewrite H2 in L.
  exfalso. induction L; auto.
Qed.

(** ** Goal 5: termination of the destructor *)
Theorem destructor_terminates fuel s i n :
  Inv s -> hnd s i = Some n ->
  alive_cells (r_heap s) + edges (r_heap s) + 1 <= fuel ->
  (exists log, drop_i fuel (r_heap s) n = Done (drop fuel (r_heap s) n) log).
Proof.
  intros I Hi Hf. apply fuel_ok_coarse in Hf.
  destruct (@no_use_after_free fuel s i n I Hf Hi) as [log [A _]]. eauto.
Qed.

(* the sharper bound: one iteration for the root plus one per edge *)
Theorem destructor_terminates_edges s i n :
  Inv s -> hnd s i = Some n ->
  let fuel := edges (r_heap s) + 1 in
  (exists log, drop_i fuel (r_heap s) n = Done (drop fuel (r_heap s) n) log).
Proof.
  intros I Hi fuel.
  assert (Hf : fuel_ok fuel s) by (unfold fuel_ok, fuel; lia).
  destruct (@no_use_after_free fuel s i n I Hf Hi) as [log [A _]]. eauto.
Qed.

Theorem drop_fuel_irrelevant s i n f1 f2 :
  Inv s -> hnd s i = Some n ->
  edges (r_heap s) < f1 -> edges (r_heap s) < f2 ->
  drop f1 (r_heap s) n = drop f2 (r_heap s) n.
Proof.
  intros I Hi H1 H2. apply Inv_GInv in I.
  destruct (@drop_state_ok f2 s i n I H2 Hi) as [log [_ [B _]]].
  apply B; auto.
Qed.

Corollary rstep_fuel_irrelevant s o f1 f2 :
  Inv s -> fuel_ok f1 s -> fuel_ok f2 s -> rstep f1 s o = rstep f2 s o.
Proof.
  intros I H1 H2. destruct o as [ks|i|i]; try reflexivity.
  simpl. destruct (hnd s i) as [n|] eqn:Hi; auto.
  rewrite (@drop_fuel_irrelevant s i n f1 f2 I Hi H1 H2). reflexivity.
Qed.

(* ------------------------------------------------------------------ *)
(** * 7. Examples                                                      *)
(* ------------------------------------------------------------------ *)

(* x ; y ; b = x*x (duplicate kid) ; u = -b ; c = b+y ; then the handles to
   x, y, b are destroyed: b is shared by u and c *)
Definition ex_ops : list rop :=
  [RAlloc []; RAlloc []; RAlloc [0; 0]; RAlloc [2]; RAlloc [2; 1];
   RDrop 0; RDrop 1; RDrop 2].
Definition ex_state : rstate := run 10 empty_state ex_ops.

Example ex_state_eq :
  ex_state =
  {| r_heap := [ {| c_kids := [];     c_rc := 2; c_alive := true |};
                 {| c_kids := [];     c_rc := 1; c_alive := true |};
                 {| c_kids := [0; 0]; c_rc := 2; c_alive := true |};
                 {| c_kids := [2];    c_rc := 1; c_alive := true |};
                 {| c_kids := [2; 1]; c_rc := 1; c_alive := true |} ];
     r_handles := [None; None; None; Some 3; Some 4];
     r_statics := [] |}.
Proof. vm_compute. reflexivity. Qed.

Example ex_inv : Inv ex_state.
Proof. apply reachable_inv. vm_compute. lia. Qed.

(* destroying u keeps the shared node b alive (still owned by c) *)
Example ex_drop_u :
  r_heap (run 10 ex_state [RDrop 3]) =
  [ {| c_kids := [];     c_rc := 2; c_alive := true |};
    {| c_kids := [];     c_rc := 1; c_alive := true |};
    {| c_kids := [0; 0]; c_rc := 1; c_alive := true |};
    dead;
    {| c_kids := [2; 1]; c_rc := 1; c_alive := true |} ].
Proof. vm_compute. reflexivity. Qed.

(* destroying both remaining handles, in either order, deletes everything *)
Example ex_drop_all_1 : r_heap (run 10 ex_state [RDrop 3; RDrop 4]) = repeat dead 5.
Proof. vm_compute. reflexivity. Qed.
Example ex_drop_all_2 : r_heap (run 10 ex_state [RDrop 4; RDrop 3]) = repeat dead 5.
Proof. vm_compute. reflexivity. Qed.

(* the instrumented runs, with their deletion logs; the duplicate kid 0 is
   popped twice and deleted at the second pop *)
Example ex_drop_i_1 :
  drop_i 10 (r_heap ex_state) 4 =
  Done (r_heap (run 10 ex_state [RDrop 4])) [4; 1].
Proof. vm_compute. reflexivity. Qed.
Example ex_drop_i_2 :
  drop_i 10 (r_heap (run 10 ex_state [RDrop 4])) 3 = Done (repeat dead 5) [3; 2; 0].
Proof. vm_compute. reflexivity. Qed.

(* the fuel hypothesis of [rstep_inv] is necessary: with fuel 1 the loop stops
   after deleting the root, and its child keeps a count nobody owns *)
Example fuel_needed :
  let s := run 10 empty_state [RAlloc []; RAlloc [0]; RDrop 0] in
  Inv s /\ ~ Inv (rstep 1 s (RDrop 1)).
Proof.
  split.
  - apply reachable_inv. vm_compute. lia.
  - intros I. pose proof (inv_rc I 0 eq_refl) as H. vm_compute in H. discriminate.
Qed.

(* clause (v) of [Inv] is necessary for leak freedom: clauses (i)-(iv) alone
   allow an alive cell that nobody owns *)
Example pos_needed :
  let s := {| r_heap := [ {| c_kids := []; c_rc := 0; c_alive := true |} ];
              r_handles := []; r_statics := [] |} in
  (forall n, live (r_heap s) n = true ->
             c_rc (hget (r_heap s) n) =
             cnt n (handles_of s) + cnt n (r_statics s) + parents (r_heap s) n) /\
  live (r_heap s) 0 = true /\ ~ reach (r_heap s) (handles_of s ++ r_statics s) 0.
Proof.
  split; [|split].
  - intros [|n]; [reflexivity|]. unfold live, hget. simpl. destruct n; discriminate.
  - reflexivity.
  - intros R. simpl in R.
    assert (H : forall n, reach [ {| c_kids := []; c_rc := 0; c_alive := true |} ] [] n -> False).
    { intros n R'. induction R'; auto. }
    eapply H; eauto.
Qed.
