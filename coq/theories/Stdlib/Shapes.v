(* The in-scope functions of libfive/stdlib/stdlib_impl.cpp as functions of a point,
   formula for formula.  Tree-level composition (remap = composition with the
   coordinate maps, min / max / neg) is what C07 proves about Tree::remap and the
   constructors; here [t.remap(X, Y, Z)] is written [fun p => t (X p, Y p, Z p)].
   Parametric in the number type: extracted with doubles for the numeric tie,
   instantiated with R for the theorems. *)
From Coq Require Import List.
From LF Require Import Base.Opcode Base.Num.

Section Shapes.
  Context {num : Type} (O : ops num).
  Notation "a +. b" := (o_add O a b) (at level 50, left associativity).
  Notation "a -. b" := (o_sub O a b) (at level 50, left associativity).
  Notation "a *. b" := (o_mul O a b) (at level 40, left associativity).
  Notation "a /. b" := (o_div O a b) (at level 40, left associativity).
  Definition zero := o_zero O.
  Definition two := o_one O +. o_one O.
  Definition nmin a b := o_bin O OP_MIN a b.
  Definition nmax a b := o_bin O OP_MAX a b.
  Definition nneg a := o_neg O a.
  Definition nabs a := o_un O OP_ABS a.
  Definition nsqrt a := o_un O OP_SQRT a.
  Definition nsq a := o_un O OP_SQUARE a.
  Definition ncos a := o_un O OP_COS a.
  Definition nsin a := o_un O OP_SIN a.

  Definition pt := (num * num * num)%type.
  Definition px (p : pt) := fst (fst p). Definition py (p : pt) := snd (fst p). Definition pz (p : pt) := snd p.
  Definition shape := pt -> num.

  (* csg *)
  Definition union (a b : shape) : shape := fun p => nmin (a p) (b p).
  Definition intersection (a b : shape) : shape := fun p => nmax (a p) (b p).
  Definition inverse (a : shape) : shape := fun p => nneg (a p).
  Definition difference (a b : shape) : shape := intersection a (inverse b).

  (* transforms *)
  Definition move (t : shape) (o : pt) : shape := fun p => t (px p -. px o, py p -. py o, pz p -. pz o).
  Definition reflect_x (t : shape) x0 : shape := fun p => t (two *. x0 -. px p, py p, pz p).
  Definition reflect_y (t : shape) y0 : shape := fun p => t (px p, two *. y0 -. py p, pz p).
  Definition reflect_z (t : shape) z0 : shape := fun p => t (px p, py p, two *. z0 -. pz p).
  Definition reflect_xy (t : shape) : shape := fun p => t (py p, px p, pz p).
  Definition reflect_yz (t : shape) : shape := fun p => t (px p, pz p, py p).
  Definition reflect_xz (t : shape) : shape := fun p => t (pz p, py p, px p).
  Definition symmetric_x (t : shape) : shape := fun p => t (nabs (px p), py p, pz p).
  Definition symmetric_y (t : shape) : shape := fun p => t (px p, nabs (py p), pz p).
  Definition symmetric_z (t : shape) : shape := fun p => t (px p, py p, nabs (pz p)).
  Definition scale_x (t : shape) sx x0 : shape := fun p => t (x0 +. (px p -. x0) /. sx, py p, pz p).
  Definition scale_y (t : shape) sy y0 : shape := fun p => t (px p, y0 +. (py p -. y0) /. sy, pz p).
  Definition scale_z (t : shape) sz z0 : shape := fun p => t (px p, py p, z0 +. (pz p -. z0) /. sz).
  Definition scale_xyz (t : shape) (s c : pt) : shape :=
    fun p => t (px c +. (px p -. px c) /. px s, py c +. (py p -. py c) /. py s, pz c +. (pz p -. pz c) /. pz s).
  Definition negp (c : pt) : pt := (nneg (px c), nneg (py c), nneg (pz c)).
  Definition rotate_x (t : shape) angle (c : pt) : shape :=
    let t1 := move t (negp c) in
    move (fun p => t1 (px p, ncos angle *. py p +. nsin angle *. pz p,
                             nneg (nsin angle) *. py p +. ncos angle *. pz p)) c.
  Definition rotate_y (t : shape) angle (c : pt) : shape :=
    let t1 := move t (negp c) in
    move (fun p => t1 (ncos angle *. px p +. nsin angle *. pz p, py p,
                             nneg (nsin angle) *. px p +. ncos angle *. pz p)) c.
  Definition rotate_z (t : shape) angle (c : pt) : shape :=
    let t1 := move t (negp c) in
    move (fun p => t1 (ncos angle *. px p +. nsin angle *. py p,
                             nneg (nsin angle) *. px p +. ncos angle *. py p, pz p)) c.

  (* shapes *)
  Definition extrude_z (t : shape) zmin zmax : shape :=
    fun p => nmax (t p) (nmax (zmin -. pz p) (pz p -. zmax)).
  Definition circle r cx cy : shape :=
    move (fun p => nsqrt (px p *. px p +. py p *. py p) -. r) (cx, cy, zero).
  Definition rectangle ax ay bx by_ : shape :=
    fun p => nmax (nmax (ax -. px p) (px p -. bx)) (nmax (ay -. py p) (py p -. by_)).
  Definition rectangle_centered_exact sx sy cx cy : shape :=
    move (fun p =>
            let dx := nabs (px p) -. sx /. two in
            let dy := nabs (py p) -. sy /. two in
            nmin (nmax dx dy) zero +. nsqrt (nsq (nmax dx zero) +. nsq (nmax dy zero))) (cx, cy, zero).
  Definition rectangle_exact ax ay bx by_ : shape :=
    rectangle_centered_exact (bx -. ax) (by_ -. ay) ((ax +. bx) /. two) ((ay +. by_) /. two).
  Definition box_mitered (a b : pt) : shape :=
    extrude_z (rectangle (px a) (py a) (px b) (py b)) (pz a) (pz b).
  Definition box_mitered_centered (size c : pt) : shape :=
    box_mitered (px c -. px size /. two, py c -. py size /. two, pz c -. pz size /. two)
                (px c +. px size /. two, py c +. py size /. two, pz c +. pz size /. two).
  Definition box_exact_centered (size c : pt) : shape :=
    fun p =>
      let dx := nabs (px p -. px c) -. px size /. two in
      let dy := nabs (py p -. py c) -. py size /. two in
      let dz := nabs (pz p -. pz c) -. pz size /. two in
      nmin zero (nmax dx (nmax dy dz)) +. nsqrt (nsq (nmax dx zero) +. nsq (nmax dy zero) +. nsq (nmax dz zero)).
  Definition box_exact (a b : pt) : shape :=
    box_exact_centered (px b -. px a, py b -. py a, pz b -. pz a)
                       ((px a +. px b) /. two, (py a +. py b) /. two, (pz a +. pz b) /. two).
  Definition sphere r (c : pt) : shape :=
    move (fun p => nsqrt (nsq (px p) +. nsq (py p) +. nsq (pz p)) -. r) c.
  Definition half_space (nrm point : pt) : shape :=
    fun p => (px p -. px point) *. px nrm +. (py p -. py point) *. py nrm +. (pz p -. pz point) *. pz nrm.
  Definition cylinder_z r h (base : pt) : shape :=
    extrude_z (circle r (px base) (py base)) (pz base) (pz base +. h).
  Definition cone_ang_z angle height (base : pt) : shape :=
    move (fun p => nmax (nneg (pz p))
                        (ncos angle *. nsqrt (nsq (px p) +. nsq (py p)) +. nsin angle *. pz p -. height)) base.
  Definition cone_z radius height (base : pt) : shape :=
    cone_ang_z (o_bin O OP_ATAN2 radius height) height base.
  Definition torus_z ro ri (c : pt) : shape :=
    move (fun p => nsqrt (nsq (ro -. nsqrt (nsq (px p) +. nsq (py p))) +. nsq (pz p)) -. ri) c.
End Shapes.
