(* Meaning of the two ROUNDED shapes of the generated standard library (Gen/Stdlib_gen.v):
   [s_rounded_rectangle] (a union of two rectangles and four corner circles) and
   [s_rounded_box] ([offset (box_exact (a + v) (b - v)) rho]).  Continues StdSem.v / StdGeom.v
   (same conventions: D, inside, indep, ex/ey/ez r; primes = parameter values at r).

   Pure real geometry (no terms)
     clampc p lo hi := Rmax lo (Rmin p hi)        p clamped to [lo, hi]   (corner form)
     rr_union x y a1 a2 b1 b2 rho                 the six open pieces of the rounded rectangle
     rr_geom  x y a1 a2 b1 b2 rho                 dist^2 ((x,y), inner rectangle) < rho^2
     rr_union_geom      0 < rho, a_i + 2 rho <= b_i -> (rr_union <-> rr_geom)
                        (the seams between the open pieces are covered by the discs)
     rr_union_zero      rho = 0: rr_union is the open rectangle (a1,b1) x (a2,b2) ...
     rr_geom_zero       ... and rr_geom is empty: 0 < rho cannot be weakened to 0 <= rho
     clampc_sq          lo <= hi -> (p - clampc p lo hi)^2 = (max (|p - mid| - half) 0)^2
     clampc_in, clampc_far   the clamped point is in [lo, hi] and is the nearest point of it

   Shapes (Section StdRoundedR)
     rounded_rectangle_union     indep rad -> 0 <= rad' -> inside <-> rr_union      (no domain hypothesis)
     rounded_rectangle_geom      indep rad -> 0 < rad' -> a_i' + 2 rad' <= b_i' -> inside <-> rr_geom
     rounded_rectangle_inside    both, packaged (the C18 statement)
     rounded_rectangle_geom_zero_radius_refuted   the geometric form is FALSE at rad' = 0
     rounded_rectangle_corner_matters   a = (-1,-2), b = (3,1), rad = 1/2, point (2.8,-1.8): inside,
                        in the disc about (b1 - rad, a2 + rad) only; not in the disc about
                        (b1 - rad, a1 + rad)   (so a shape with that corner mis-centred differs)
     rounded_box_rho             the rounding radius rho = fr' * min (dx, dy, dz) / 2
     rounded_box_sem             D = boxfield (excesses w.r.t. the inner box [a+rho, b-rho]) - rho
                                 (NO independence hypothesis: nothing is evaluated at a moved point)
     rounded_box_inside_gen      a_i' <= b_i', 0 <= fr' <= 1 ->
                                 inside <-> strictly inside the inner box \/ dist^2 (p, inner box) < rho^2
     rounded_box_inside          a_i' < b_i', 0 < fr' <= 1 -> inside <-> dist^2 (p, inner box) < rho^2
     rounded_box_inside_zero_refuted   ... FALSE at fr' = 0 (the shape is the open box, the rhs is empty)
     rounded_box_exact           a_i' <= b_i', fr' <= 1, p not strictly inside the inner box ->
                                 D = sqrt (dist^2 (p, clamp p)) - rho
     rounded_box_exact_dist      ... and D + rho is the Euclidean distance to the closed inner box
                                 (attained, and a lower bound for every point of the inner box)
   No axioms beyond the classical reals. *)
From Coq Require Import Reals Lra Lia List Bool Arith Psatz.
From LF Require Import Base.Opcode Base.Num Base.Arena Base.Sem Tree.Build Tree.BuildSem
  Stdlib.SExpr Gen.Stdlib_gen Eval.DerivSem Stdlib.StdSem Stdlib.StdGeom.
Local Open Scope R_scope.

(* ------------------------------------------------------------------ *)
(* pure geometry                                                       *)
(* ------------------------------------------------------------------ *)
Definition clampc (p lo hi : R) : R := Rmax lo (Rmin p hi).

(* the six OPEN pieces, in the order of the C++ source: two rectangles, four discs *)
Definition rr_union (x y a1 a2 b1 b2 rho : R) : Prop :=
  (a1 < x < b1 /\ a2 + rho < y < b2 - rho) \/
  (a1 + rho < x < b1 - rho /\ a2 < y < b2) \/
  (x - (a1 + rho)) ^ 2 + (y - (a2 + rho)) ^ 2 < rho ^ 2 \/
  (x - (b1 - rho)) ^ 2 + (y - (b2 - rho)) ^ 2 < rho ^ 2 \/
  (x - (a1 + rho)) ^ 2 + (y - (b2 - rho)) ^ 2 < rho ^ 2 \/
  (x - (b1 - rho)) ^ 2 + (y - (a2 + rho)) ^ 2 < rho ^ 2.

(* distance < rho from the inner rectangle [a1+rho, b1-rho] x [a2+rho, b2-rho] *)
Definition rr_geom (x y a1 a2 b1 b2 rho : R) : Prop :=
  (x - clampc x (a1 + rho) (b1 - rho)) ^ 2 + (y - clampc y (a2 + rho) (b2 - rho)) ^ 2 < rho ^ 2.

Lemma rr_union_to_geom x y a1 a2 b1 b2 rho :
  0 < rho -> a1 + 2 * rho <= b1 -> a2 + 2 * rho <= b2 ->
  rr_union x y a1 a2 b1 b2 rho -> rr_geom x y a1 a2 b1 b2 rho.
Proof.
  unfold rr_union, rr_geom, clampc. intros Hr H1 H2 HU.
  destruct HU as [U|[U|[U|[U|[U|U]]]]]; revert U; rcases nra.
Qed.

Lemma rr_geom_to_union x y a1 a2 b1 b2 rho :
  0 < rho -> a1 + 2 * rho <= b1 -> a2 + 2 * rho <= b2 ->
  rr_geom x y a1 a2 b1 b2 rho -> rr_union x y a1 a2 b1 b2 rho.
Proof.
  unfold rr_union, rr_geom, clampc. intros Hr H1 H2 G.
  destruct (Rlt_dec (a2 + rho) y) as [Y1|Y1]; [destruct (Rlt_dec y (b2 - rho)) as [Y2|Y2]|].
  - (* strictly between the horizontal seams: the wide rectangle *)
    left. revert G. rcases nra.
  - (* upper band *)
    destruct (Rlt_dec (a1 + rho) x) as [X1|X1]; [destruct (Rlt_dec x (b1 - rho)) as [X2|X2]|].
    + right; left. revert G. rcases nra.
    + right; right; right; left. revert G. rcases nra.
    + right; right; right; right; left. revert G. rcases nra.
  - (* lower band *)
    destruct (Rlt_dec (a1 + rho) x) as [X1|X1]; [destruct (Rlt_dec x (b1 - rho)) as [X2|X2]|].
    + right; left. revert G. rcases nra.
    + right; right; right; right; right. revert G. rcases nra.
    + right; right; left. revert G. rcases nra.
Qed.

Theorem rr_union_geom x y a1 a2 b1 b2 rho :
  0 < rho -> a1 + 2 * rho <= b1 -> a2 + 2 * rho <= b2 ->
  (rr_union x y a1 a2 b1 b2 rho <-> rr_geom x y a1 a2 b1 b2 rho).
Proof. intros; split; [apply rr_union_to_geom | apply rr_geom_to_union]; assumption. Qed.

(* at radius 0 the union is the plain open rectangle, while nothing is at distance < 0 *)
Lemma rr_union_zero x y a1 a2 b1 b2 :
  rr_union x y a1 a2 b1 b2 0 <-> a1 < x < b1 /\ a2 < y < b2.
Proof.
  unfold rr_union. split; [|intros; left; lra].
  intros [U|[U|[U|[U|[U|U]]]]]; try lra; exfalso;
    match type of U with (?u) ^ 2 + (?v) ^ 2 < _ =>
      pose proof (pow2_ge_0 u); pose proof (pow2_ge_0 v); lra end.
Qed.
Lemma rr_geom_zero x y a1 a2 b1 b2 : ~ rr_geom x y a1 a2 b1 b2 0.
Proof.
  unfold rr_geom. intros G.
  pose proof (pow2_ge_0 (x - clampc x (a1 + 0) (b1 - 0))).
  pose proof (pow2_ge_0 (y - clampc y (a2 + 0) (b2 - 0))). lra.
Qed.

(* clamping in corner form against the per-axis excess of the exact box field *)
Lemma clampc_sq p lo hi : lo <= hi ->
  (p - clampc p lo hi) * (p - clampc p lo hi) =
  Rmax (Rabs (p - (lo + hi) / 2) - (hi - lo) / 2) 0 * Rmax (Rabs (p - (lo + hi) / 2) - (hi - lo) / 2) 0.
Proof. unfold clampc. rcases nra. Qed.
Lemma clampc_in p lo hi : lo <= hi -> lo <= clampc p lo hi <= hi.
Proof. unfold clampc. rcases lra. Qed.
Lemma clampc_far p lo hi q : lo <= hi -> lo <= q <= hi ->
  (p - clampc p lo hi) * (p - clampc p lo hi) <= (p - q) * (p - q).
Proof.
  unfold clampc. intros Hlh [Q1 Q2]. pose proof (Rle_0_sqr (p - q)) as Hs. unfold Rsqr in Hs.
  rcases nra.
Qed.
Lemma exc_corner_neg p lo hi : Rabs (p - (lo + hi) / 2) - (hi - lo) / 2 < 0 <-> lo < p < hi.
Proof. rewrite Rabs_sub_lt_iff. lra. Qed.

(* the rounding radius of rounded_box: fraction * smallest side / 2 *)
Lemma rbox_rho_le fr d1 d2 d3 : 0 <= d1 -> 0 <= d2 -> 0 <= d3 -> fr <= 1 ->
  let rho := fr * Rmin d1 (Rmin d2 d3) / 2 in 2 * rho <= d1 /\ 2 * rho <= d2 /\ 2 * rho <= d3.
Proof. cbv zeta. rcases ltac:(repeat split; nra). Qed.
Lemma rbox_rho_nonneg fr d1 d2 d3 : 0 <= d1 -> 0 <= d2 -> 0 <= d3 -> 0 <= fr ->
  0 <= fr * Rmin d1 (Rmin d2 d3) / 2.
Proof. rcases nra. Qed.
Lemma rbox_rho_pos fr d1 d2 d3 : 0 < d1 -> 0 < d2 -> 0 < d3 -> 0 < fr ->
  0 < fr * Rmin d1 (Rmin d2 d3) / 2.
Proof. rcases nra. Qed.

(* ------------------------------------------------------------------ *)
(* the generated shapes                                                *)
(* ------------------------------------------------------------------ *)
Section StdRoundedR.
  Variable osem : nat -> R -> R -> R -> R.
  Variable a : arena R.
  Notation env := (env R).
  Notation D := (denote RD osem a).
  Notation inside := (inside osem a).
  Notation indep := (indep osem a).

  Ltac sden :=
    cbn [denote v2x v2y v3x v3y v3z o_un o_bin RD RD_un RD_bin o_ofnat o_zero o_one o_add].

  (* ---- rounded_rectangle ---- *)
  Theorem rounded_rectangle_union a1 a2 b1 b2 rad r : indep rad -> 0 <= D rad r ->
    (inside (s_rounded_rectangle RD (V2 a1 a2) (V2 b1 b2) rad) r <->
     rr_union (ex r) (ey r) (D a1 r) (D a2 r) (D b1 r) (D b2 r) (D rad r)).
  Proof.
    intros Hi Hr. unfold s_rounded_rectangle; cbn [v2x v2y].
    rewrite !union_inside, !rectangle_inside, !circle_inside by assumption.
    sden. unfold rr_union. tauto.
  Qed.

  Theorem rounded_rectangle_geom a1 a2 b1 b2 rad r : indep rad -> 0 < D rad r ->
    D a1 r + 2 * D rad r <= D b1 r -> D a2 r + 2 * D rad r <= D b2 r ->
    (inside (s_rounded_rectangle RD (V2 a1 a2) (V2 b1 b2) rad) r <->
     rr_geom (ex r) (ey r) (D a1 r) (D a2 r) (D b1 r) (D b2 r) (D rad r)).
  Proof.
    intros Hi Hr H1 H2. rewrite rounded_rectangle_union by (assumption || lra).
    apply rr_union_geom; assumption.
  Qed.

  (* the C18 statement, written out: the exact union for every radius >= 0, and for a positive
     radius on the documented domain the set of points at distance < rad from the inner
     rectangle [a1 + rad, b1 - rad] x [a2 + rad, b2 - rad] *)
  Theorem rounded_rectangle_inside a1 a2 b1 b2 rad r : indep rad -> 0 <= D rad r ->
    let x := ex r in let y := ey r in let rho := D rad r in
    let A1 := D a1 r + rho in let B1 := D b1 r - rho in
    let A2 := D a2 r + rho in let B2 := D b2 r - rho in
    (inside (s_rounded_rectangle RD (V2 a1 a2) (V2 b1 b2) rad) r <->
       (D a1 r < x < D b1 r /\ A2 < y < B2) \/
       (A1 < x < B1 /\ D a2 r < y < D b2 r) \/
       (x - A1) ^ 2 + (y - A2) ^ 2 < rho ^ 2 \/
       (x - B1) ^ 2 + (y - B2) ^ 2 < rho ^ 2 \/
       (x - A1) ^ 2 + (y - B2) ^ 2 < rho ^ 2 \/
       (x - B1) ^ 2 + (y - A2) ^ 2 < rho ^ 2) /\
    (0 < rho -> D a1 r + 2 * rho <= D b1 r -> D a2 r + 2 * rho <= D b2 r ->
     (inside (s_rounded_rectangle RD (V2 a1 a2) (V2 b1 b2) rad) r <->
      (x - Rmax A1 (Rmin x B1)) ^ 2 + (y - Rmax A2 (Rmin y B2)) ^ 2 < rho ^ 2)).
  Proof.
    intros Hi Hr. cbv zeta. split.
    - exact (rounded_rectangle_union a1 a2 b1 b2 rad r Hi Hr).
    - intros Hp H1 H2. exact (rounded_rectangle_geom a1 a2 b1 b2 rad r Hi Hp H1 H2).
  Qed.

  (* 0 < rad cannot be weakened to 0 <= rad in the geometric form: at rad = 0 the shape is the
     open rectangle, while no point is at distance < 0 from anything.
     Witness: a = (0,0), b = (1,1), rad = 0, point (1/2, 1/2). *)
  Lemma rounded_rectangle_geom_zero_radius_refuted :
    ~ (forall a1 a2 b1 b2 rad r, indep rad -> 0 <= D rad r ->
         D a1 r + 2 * D rad r <= D b1 r -> D a2 r + 2 * D rad r <= D b2 r ->
         (inside (s_rounded_rectangle RD (V2 a1 a2) (V2 b1 b2) rad) r <->
          rr_geom (ex r) (ey r) (D a1 r) (D a2 r) (D b1 r) (D b2 r) (D rad r))).
  Proof.
    intros H.
    specialize (H (SC 0) (SC 0) (SC 1) (SC 1) (SC 0)
                  {| ex := 1 / 2; ey := 1 / 2; ez := 0; ev := fun _ => 0 |} (indep_SC osem a 0)).
    cbn [denote ex ey] in H.
    assert (G : ~ rr_geom (1 / 2) (1 / 2) 0 0 1 1 0) by apply rr_geom_zero.
    apply G, H; try lra.
    rewrite rounded_rectangle_union by (try apply indep_SC; cbn [denote]; lra).
    cbn [denote ex ey]. apply rr_union_zero. lra.
  Qed.

  (* the fourth corner circle really is centred at (b1 - rad, a2 + rad):
     a = (-1,-2), b = (3,1), rad = 1/2, point (2.8, -1.8) = (14/5, -9/5).
     The point is inside the shape, it is in NONE of the other five pieces, and it is not in
     the disc of the same radius about (b1 - rad, a1 + rad) = (5/2, -1/2).  Hence a
     rounded_rectangle whose last circle is centred at (b.x - r, a.x + r) -- one mistyped
     coordinate -- does not contain this point and is a different shape; any such variant
     contradicts [rounded_rectangle_inside]. *)
  Lemma rounded_rectangle_corner_matters :
    let r := {| ex := 14 / 5; ey := - 9 / 5; ez := 0; ev := fun _ => 0 |} in
    let a1 := -1 in let a2 := -2 in let b1 := 3 in let b2 := 1 in let rad := 1 / 2 in
    inside (s_rounded_rectangle RD (V2 (SC a1) (SC a2)) (V2 (SC b1) (SC b2)) (SC rad)) r /\
    (* only the disc about (b1 - rad, a2 + rad) contains it *)
    (ex r - (b1 - rad)) ^ 2 + (ey r - (a2 + rad)) ^ 2 < rad ^ 2 /\
    ~ (a1 < ex r < b1 /\ a2 + rad < ey r < b2 - rad) /\
    ~ (a1 + rad < ex r < b1 - rad /\ a2 < ey r < b2) /\
    ~ (ex r - (a1 + rad)) ^ 2 + (ey r - (a2 + rad)) ^ 2 < rad ^ 2 /\
    ~ (ex r - (b1 - rad)) ^ 2 + (ey r - (b2 - rad)) ^ 2 < rad ^ 2 /\
    ~ (ex r - (a1 + rad)) ^ 2 + (ey r - (b2 - rad)) ^ 2 < rad ^ 2 /\
    (* the mis-centred disc (b1 - rad, a1 + rad) does not *)
    ~ (ex r - (b1 - rad)) ^ 2 + (ey r - (a1 + rad)) ^ 2 < rad ^ 2.
  Proof.
    cbv zeta. split.
    - apply (rounded_rectangle_geom (SC (-1)) (SC (-2)) (SC 3) (SC 1) (SC (1 / 2)));
        try apply indep_SC; cbn [denote ex ey]; try lra.
      unfold rr_geom, clampc. rcases nra.
    - cbn [ex ey]. repeat split; lra.
  Qed.

  (* ---- rounded_box ---- *)
  Definition rounded_box_rho (a1 a2 a3 b1 b2 b3 fr : sx R) (r : env) : R :=
    D fr r * Rmin (D b1 r - D a1 r) (Rmin (D b2 r - D a2 r) (D b3 r - D a3 r)) / 2.

  (* no independence hypothesis: the exact box reads its parameters at r itself *)
  Theorem rounded_box_sem a1 a2 a3 b1 b2 b3 fr r :
    let rho := rounded_box_rho a1 a2 a3 b1 b2 b3 fr r in
    let A1 := D a1 r + rho in let B1 := D b1 r - rho in
    let A2 := D a2 r + rho in let B2 := D b2 r - rho in
    let A3 := D a3 r + rho in let B3 := D b3 r - rho in
    D (s_rounded_box RD (V3 a1 a2 a3) (V3 b1 b2 b3) fr) r =
    boxfield (Rabs (ex r - (A1 + B1) / 2) - (B1 - A1) / 2)
             (Rabs (ey r - (A2 + B2) / 2) - (B2 - A2) / 2)
             (Rabs (ez r - (A3 + B3) / 2) - (B3 - A3) / 2) - rho.
  Proof.
    cbv zeta. unfold s_rounded_box, s_op_sub_V3_V3, s_op_add_V3_V3, rounded_box_rho; cbn [v3x v3y v3z].
    rewrite offset_sem, box_exact_sem. sden. replace (1 + 1) with 2 by lra. reflexivity.
  Qed.

  (* general form (fraction 0 allowed): strictly inside the inner box, or closer than rho to it *)
  Theorem rounded_box_inside_gen a1 a2 a3 b1 b2 b3 fr r :
    D a1 r <= D b1 r -> D a2 r <= D b2 r -> D a3 r <= D b3 r -> 0 <= D fr r <= 1 ->
    let x := ex r in let y := ey r in let z := ez r in
    let rho := D fr r * Rmin (D b1 r - D a1 r) (Rmin (D b2 r - D a2 r) (D b3 r - D a3 r)) / 2 in
    let A1 := D a1 r + rho in let B1 := D b1 r - rho in
    let A2 := D a2 r + rho in let B2 := D b2 r - rho in
    let A3 := D a3 r + rho in let B3 := D b3 r - rho in
    (inside (s_rounded_box RD (V3 a1 a2 a3) (V3 b1 b2 b3) fr) r <->
     (A1 < x < B1 /\ A2 < y < B2 /\ A3 < z < B3) \/
     (x - Rmax A1 (Rmin x B1)) ^ 2 + (y - Rmax A2 (Rmin y B2)) ^ 2 + (z - Rmax A3 (Rmin z B3)) ^ 2
       < rho ^ 2).
  Proof.
    intros H1 H2 H3 [Hf0 Hf1]. cbv zeta. unfold inside.
    pose proof (rounded_box_sem a1 a2 a3 b1 b2 b3 fr r) as E. cbv zeta in E.
    unfold rounded_box_rho in E. rewrite E; clear E.
    destruct (rbox_rho_le (D fr r) (D b1 r - D a1 r) (D b2 r - D a2 r) (D b3 r - D a3 r))
      as (L1 & L2 & L3); try lra.
    pose proof (rbox_rho_nonneg (D fr r) (D b1 r - D a1 r) (D b2 r - D a2 r) (D b3 r - D a3 r)
                  ltac:(lra) ltac:(lra) ltac:(lra) Hf0) as Hr.
    set (rho := D fr r * Rmin (D b1 r - D a1 r) (Rmin (D b2 r - D a2 r) (D b3 r - D a3 r)) / 2) in *.
    set (A1 := D a1 r + rho). set (B1 := D b1 r - rho).
    set (A2 := D a2 r + rho). set (B2 := D b2 r - rho).
    set (A3 := D a3 r + rho). set (B3 := D b3 r - rho).
    assert (AB1 : A1 <= B1) by (unfold A1, B1; lra).
    assert (AB2 : A2 <= B2) by (unfold A2, B2; lra).
    assert (AB3 : A3 <= B3) by (unfold A3, B3; lra).
    fold (clampc (ex r) A1 B1). fold (clampc (ey r) A2 B2). fold (clampc (ez r) A3 B3).
    pose proof (clampc_sq (ex r) A1 B1 AB1) as S1.
    pose proof (clampc_sq (ey r) A2 B2 AB2) as S2.
    pose proof (clampc_sq (ez r) A3 B3 AB3) as S3.
    pose proof (exc_corner_neg (ex r) A1 B1) as N1.
    pose proof (exc_corner_neg (ey r) A2 B2) as N2.
    pose proof (exc_corner_neg (ez r) A3 B3) as N3.
    set (e1 := Rabs (ex r - (A1 + B1) / 2) - (B1 - A1) / 2) in *.
    set (e2 := Rabs (ey r - (A2 + B2) / 2) - (B2 - A2) / 2) in *.
    set (e3 := Rabs (ez r - (A3 + B3) / 2) - (B3 - A3) / 2) in *.
    destruct (Rlt_dec e1 0) as [G1|G1]; [destruct (Rlt_dec e2 0) as [G2|G2];
      [destruct (Rlt_dec e3 0) as [G3|G3]|]|].
    - (* strictly inside the inner box *)
      assert (boxfield e1 e2 e3 < 0) by (apply boxfield_neg; tauto).
      split; [intros _; left; tauto | intros _; lra].
    - rewrite boxfield_outside_val by lra. rewrite <- S1, <- S2, <- S3.
      match goal with |- sqrt ?u - _ < 0 <-> _ =>
        assert (Hu : 0 <= u) by apply sumsq_nonneg; pose proof (sqrt_lt_sq u rho Hu Hr) as Q end.
      split; [intros Hv; right; lra | intros [Hv|Hv]; [lra | lra]].
    - rewrite boxfield_outside_val by lra. rewrite <- S1, <- S2, <- S3.
      match goal with |- sqrt ?u - _ < 0 <-> _ =>
        assert (Hu : 0 <= u) by apply sumsq_nonneg; pose proof (sqrt_lt_sq u rho Hu Hr) as Q end.
      split; [intros Hv; right; lra | intros [Hv|Hv]; [lra | lra]].
    - rewrite boxfield_outside_val by lra. rewrite <- S1, <- S2, <- S3.
      match goal with |- sqrt ?u - _ < 0 <-> _ =>
        assert (Hu : 0 <= u) by apply sumsq_nonneg; pose proof (sqrt_lt_sq u rho Hu Hr) as Q end.
      split; [intros Hv; right; lra | intros [Hv|Hv]; [lra | lra]].
  Qed.

  (* the documented set: for a positive fraction, the points closer than rho to the inner box *)
  Theorem rounded_box_inside a1 a2 a3 b1 b2 b3 fr r :
    D a1 r < D b1 r -> D a2 r < D b2 r -> D a3 r < D b3 r -> 0 < D fr r <= 1 ->
    let x := ex r in let y := ey r in let z := ez r in
    let rho := D fr r * Rmin (D b1 r - D a1 r) (Rmin (D b2 r - D a2 r) (D b3 r - D a3 r)) / 2 in
    let A1 := D a1 r + rho in let B1 := D b1 r - rho in
    let A2 := D a2 r + rho in let B2 := D b2 r - rho in
    let A3 := D a3 r + rho in let B3 := D b3 r - rho in
    (inside (s_rounded_box RD (V3 a1 a2 a3) (V3 b1 b2 b3) fr) r <->
     (x - Rmax A1 (Rmin x B1)) ^ 2 + (y - Rmax A2 (Rmin y B2)) ^ 2 + (z - Rmax A3 (Rmin z B3)) ^ 2
       < rho ^ 2).
  Proof.
    intros H1 H2 H3 [Hf0 Hf1]. cbv zeta.
    pose proof (rounded_box_inside_gen a1 a2 a3 b1 b2 b3 fr r ltac:(lra) ltac:(lra) ltac:(lra)
                  ltac:(lra)) as G. cbv zeta in G. rewrite G; clear G.
    pose proof (rbox_rho_pos (D fr r) (D b1 r - D a1 r) (D b2 r - D a2 r) (D b3 r - D a3 r)
                  ltac:(lra) ltac:(lra) ltac:(lra) Hf0) as Hr.
    set (rho := D fr r * Rmin (D b1 r - D a1 r) (Rmin (D b2 r - D a2 r) (D b3 r - D a3 r)) / 2) in *.
    split; [|intros; right; assumption].
    intros [(I1 & I2 & I3)|G]; [|exact G].
    rewrite (Rmin_left (ex r)), (Rmin_left (ey r)), (Rmin_left (ez r)) by lra.
    rewrite (Rmax_right _ (ex r)), (Rmax_right _ (ey r)), (Rmax_right _ (ez r)) by lra.
    nra.
  Qed.

  (* 0 < fraction cannot be weakened to 0 <= fraction: at fraction 0 the shape is the exact box
     (a, b) itself.  Witness: unit cube, fraction 0, its centre. *)
  Lemma rounded_box_inside_zero_refuted :
    ~ (forall a1 a2 a3 b1 b2 b3 fr r,
         D a1 r < D b1 r -> D a2 r < D b2 r -> D a3 r < D b3 r -> 0 <= D fr r <= 1 ->
         let x := ex r in let y := ey r in let z := ez r in
         let rho := D fr r * Rmin (D b1 r - D a1 r) (Rmin (D b2 r - D a2 r) (D b3 r - D a3 r)) / 2 in
         let A1 := D a1 r + rho in let B1 := D b1 r - rho in
         let A2 := D a2 r + rho in let B2 := D b2 r - rho in
         let A3 := D a3 r + rho in let B3 := D b3 r - rho in
         (inside (s_rounded_box RD (V3 a1 a2 a3) (V3 b1 b2 b3) fr) r <->
          (x - Rmax A1 (Rmin x B1)) ^ 2 + (y - Rmax A2 (Rmin y B2)) ^ 2 + (z - Rmax A3 (Rmin z B3)) ^ 2
            < rho ^ 2)).
  Proof.
    intros H.
    specialize (H (SC 0) (SC 0) (SC 0) (SC 1) (SC 1) (SC 1) (SC 0)
                  {| ex := 1 / 2; ey := 1 / 2; ez := 1 / 2; ev := fun _ => 0 |}).
    pose proof (rounded_box_inside_gen (SC 0) (SC 0) (SC 0) (SC 1) (SC 1) (SC 1) (SC 0)
                  {| ex := 1 / 2; ey := 1 / 2; ez := 1 / 2; ev := fun _ => 0 |}) as G.
    cbn [denote ex ey ez] in H, G. cbv zeta in H, G.
    assert (I : inside (s_rounded_box RD (V3 (SC 0) (SC 0) (SC 0)) (V3 (SC 1) (SC 1) (SC 1)) (SC 0))
                  {| ex := 1 / 2; ey := 1 / 2; ez := 1 / 2; ev := fun _ => 0 |}).
    { apply G; lra. }
    apply H in I; try lra.
    replace (0 * Rmin (1 - 0) (Rmin (1 - 0) (1 - 0)) / 2) with 0 in I by (unfold Rdiv; ring).
    revert I.
    match goal with |- ?u ^ 2 + ?v ^ 2 + ?w ^ 2 < _ -> _ =>
      pose proof (pow2_ge_0 u); pose proof (pow2_ge_0 v); pose proof (pow2_ge_0 w) end. lra.
  Qed.

  (* exactness: outside (or on the boundary of) the inner box, the value is the Euclidean
     distance to the inner box minus rho, i.e. the signed distance to the rounded surface
     { q : dist (q, inner box) = rho }.  Only fraction <= 1 is used (so that the inner box is
     non-empty); for a negative fraction rho < 0 and the formula still holds. *)
  Theorem rounded_box_exact a1 a2 a3 b1 b2 b3 fr r :
    D a1 r <= D b1 r -> D a2 r <= D b2 r -> D a3 r <= D b3 r -> D fr r <= 1 ->
    let x := ex r in let y := ey r in let z := ez r in
    let rho := D fr r * Rmin (D b1 r - D a1 r) (Rmin (D b2 r - D a2 r) (D b3 r - D a3 r)) / 2 in
    let A1 := D a1 r + rho in let B1 := D b1 r - rho in
    let A2 := D a2 r + rho in let B2 := D b2 r - rho in
    let A3 := D a3 r + rho in let B3 := D b3 r - rho in
    ~ (A1 < x < B1 /\ A2 < y < B2 /\ A3 < z < B3) ->
    D (s_rounded_box RD (V3 a1 a2 a3) (V3 b1 b2 b3) fr) r =
    sqrt ((x - Rmax A1 (Rmin x B1)) ^ 2 + (y - Rmax A2 (Rmin y B2)) ^ 2 + (z - Rmax A3 (Rmin z B3)) ^ 2)
    - rho.
  Proof.
    intros H1 H2 H3 Hf1. cbv zeta.
    pose proof (rounded_box_sem a1 a2 a3 b1 b2 b3 fr r) as E. cbv zeta in E.
    unfold rounded_box_rho in E. rewrite E; clear E.
    destruct (rbox_rho_le (D fr r) (D b1 r - D a1 r) (D b2 r - D a2 r) (D b3 r - D a3 r))
      as (L1 & L2 & L3); try lra.
    set (rho := D fr r * Rmin (D b1 r - D a1 r) (Rmin (D b2 r - D a2 r) (D b3 r - D a3 r)) / 2) in *.
    set (A1 := D a1 r + rho). set (B1 := D b1 r - rho).
    set (A2 := D a2 r + rho). set (B2 := D b2 r - rho).
    set (A3 := D a3 r + rho). set (B3 := D b3 r - rho).
    assert (AB1 : A1 <= B1) by (unfold A1, B1; lra).
    assert (AB2 : A2 <= B2) by (unfold A2, B2; lra).
    assert (AB3 : A3 <= B3) by (unfold A3, B3; lra).
    intros Hout.
    fold (clampc (ex r) A1 B1). fold (clampc (ey r) A2 B2). fold (clampc (ez r) A3 B3).
    rewrite boxfield_outside_val
      by (rewrite (exc_corner_neg (ex r) A1 B1), (exc_corner_neg (ey r) A2 B2),
                  (exc_corner_neg (ez r) A3 B3); exact Hout).
    rewrite <- (clampc_sq (ex r) A1 B1 AB1), <- (clampc_sq (ey r) A2 B2 AB2),
            <- (clampc_sq (ez r) A3 B3 AB3).
    f_equal. f_equal. ring.
  Qed.

  (* ... and that value + rho is the distance to the closed inner box: attained by a point
     of the inner box and a lower bound for all of them *)
  Theorem rounded_box_exact_dist a1 a2 a3 b1 b2 b3 fr r :
    D a1 r <= D b1 r -> D a2 r <= D b2 r -> D a3 r <= D b3 r -> D fr r <= 1 ->
    let rho := D fr r * Rmin (D b1 r - D a1 r) (Rmin (D b2 r - D a2 r) (D b3 r - D a3 r)) / 2 in
    let A1 := D a1 r + rho in let B1 := D b1 r - rho in
    let A2 := D a2 r + rho in let B2 := D b2 r - rho in
    let A3 := D a3 r + rho in let B3 := D b3 r - rho in
    let inner q := A1 <= px q <= B1 /\ A2 <= py q <= B2 /\ A3 <= pz q <= B3 in
    let v := D (s_rounded_box RD (V3 a1 a2 a3) (V3 b1 b2 b3) fr) r in
    ~ (A1 < ex r < B1 /\ A2 < ey r < B2 /\ A3 < ez r < B3) ->
    0 <= v + rho /\
    (exists q, inner q /\ dist2 (pos r) q = (v + rho) * (v + rho)) /\
    (forall q, inner q -> (v + rho) * (v + rho) <= dist2 (pos r) q).
  Proof.
    intros H1 H2 H3 Hf1. cbv zeta. intros Hout.
    pose proof (rounded_box_exact a1 a2 a3 b1 b2 b3 fr r H1 H2 H3 Hf1) as E. cbv zeta in E.
    rewrite (E Hout); clear E.
    destruct (rbox_rho_le (D fr r) (D b1 r - D a1 r) (D b2 r - D a2 r) (D b3 r - D a3 r))
      as (L1 & L2 & L3); try lra.
    set (rho := D fr r * Rmin (D b1 r - D a1 r) (Rmin (D b2 r - D a2 r) (D b3 r - D a3 r)) / 2) in *.
    set (A1 := D a1 r + rho) in *. set (B1 := D b1 r - rho) in *.
    set (A2 := D a2 r + rho) in *. set (B2 := D b2 r - rho) in *.
    set (A3 := D a3 r + rho) in *. set (B3 := D b3 r - rho) in *.
    assert (AB1 : A1 <= B1) by (unfold A1, B1; lra).
    assert (AB2 : A2 <= B2) by (unfold A2, B2; lra).
    assert (AB3 : A3 <= B3) by (unfold A3, B3; lra).
    fold (clampc (ex r) A1 B1). fold (clampc (ey r) A2 B2). fold (clampc (ez r) A3 B3).
    set (c1 := clampc (ex r) A1 B1). set (c2 := clampc (ey r) A2 B2). set (c3 := clampc (ez r) A3 B3).
    set (u := (ex r - c1) ^ 2 + (ey r - c2) ^ 2 + (ez r - c3) ^ 2).
    assert (Hu : 0 <= u) by (unfold u; repeat apply Rplus_le_le_0_compat; apply pow2_ge_0).
    replace (sqrt u - rho + rho) with (sqrt u) by ring. rewrite sqrt_sqrt by exact Hu.
    split; [apply sqrt_pos|]. split.
    - exists (c1, c2, c3). unfold dist2, pos, px, py, pz; cbn [fst snd].
      pose proof (clampc_in (ex r) A1 B1 AB1) as I1. pose proof (clampc_in (ey r) A2 B2 AB2) as I2.
      pose proof (clampc_in (ez r) A3 B3 AB3) as I3. fold c1 in I1. fold c2 in I2. fold c3 in I3.
      split; [tauto | ]. unfold u; ring.
    - intros [[q1 q2] q3]. unfold dist2, pos, px, py, pz; cbn [fst snd]. intros (Q1 & Q2 & Q3).
      pose proof (clampc_far (ex r) A1 B1 q1 AB1 Q1) as K1.
      pose proof (clampc_far (ey r) A2 B2 q2 AB2 Q2) as K2.
      pose proof (clampc_far (ez r) A3 B3 q3 AB3 Q3) as K3. fold c1 in K1. fold c2 in K2. fold c3 in K3.
      unfold u. lra.
  Qed.
End StdRoundedR.
