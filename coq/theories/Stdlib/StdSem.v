(* Meaning of the generated standard library of shapes (Gen/Stdlib_gen.v, produced from
   libfive/stdlib/stdlib_impl.cpp).  Every theorem is about the generated constants
   [s_union], [s_move], [s_sphere], ... themselves.  B4 (exact distance fields) is in StdGeom.v.

   Conventions (Section StdR; osem and the arena [a] are arbitrary):
     D e r          := denote RD osem a e r        value of term e at environment r (RD = reals)
     inside e r     := D e r < 0                   outside e r := 0 < D e r
     at3 r x y z    := upd_xyz r x y z             (notation; "at" is a Coq keyword)
     atp r p        := at3 r (px p) (py p) (pz p)  pos r := (ex r, ey r, ez r)     pt := R*R*R
     indep p        := forall r x y z, D p (at3 r x y z) = D p r     position-independent term
   Shape arguments t, s of CSG operations and transforms are arbitrary terms.  A hypothesis
   [indep p] is stated only for the parameters that the generated term really evaluates at a
   moved point (e.g. the radius of [s_circle], which sits under the [s_move]); parameters read
   at r itself (offsets of [s_move], all parameters of [s_rectangle], [s_box_exact], ...)
   need no hypothesis, so the theorems are stronger than "all parameters position independent".

   PART A (generic in num, O, osem)
     handles_ok_mono      handles_ok is monotone in the arena length
     denote_extends       extending the arena does not change the meaning of a term
     build_denote         laws O -> arena_wf a -> base_ok O a -> handles_ok (length a) e ->
                          ok_result O osem a (build O e a) (fun r => denote O osem a e r):
                          building a term through the Tree constructors (with all their
                          simplification rules) yields a node whose value is the term's meaning
     RD_laws              the real instance RD satisfies the algebraic laws
     build_denote_R       build_denote at RD

   PART B helpers
     Rmin_lt_iff Rmin_gt_iff Rmax_lt_iff Rmax_gt_iff sqrt_lt_sq Rabs_lt_iff Rabs_sub_lt_iff
     indep_SC indep_SU indep_SB indep_SH   constants / operators on independent terms / handles
                                            of nodes blind to X,Y,Z are position independent
     mrot_x/y/z th c p    the point map written in s_rotate_*: translate by -c, matrix, back
     mrot_*_isometry      dist2 (mrot th c p) (mrot th c q) = dist2 p q        (rigid motion)
     mrot_*_fix           mrot th c c = c                                      (fixes the centre)
     mrot_*_inv, _inv'    mrot th c (mrot (-th) c p) = p and conversely        (inverse = -angle)

   B1 CSG
     union_inside / union_outside                inside <-> \/ ;  outside <-> /\
     intersection_inside / intersection_outside  inside <-> /\ ;  outside <-> \/
     inverse_inside / inverse_outside            swaps inside and outside
     difference_inside / difference_outside      inside s /\ outside t ; outside s \/ inside t
     offset_sem                                  D (s_offset s o) r = D s r - D o r
     offset_inside                               inside <-> D s r < D o r

   B2 transforms (value-level equality *_sem, corollary *_inside)
     move_sem, move_inside      D (s_move t (V3 ox oy oz)) r = D t (at3 r (x - ox') (y - oy') (z - oz'))
     move_maps                  the solid is translated by +offset (offsets independent)
     move_move_sem              nested moves add up (inner offsets independent)
     reflect_x/y/z_sem,_inside  coordinate c |-> 2 * x0' - c
     reflect_xy/yz/xz_sem,_inside   coordinate swaps
     symmetric_x/y/z_sem,_inside    coordinate |-> Rabs coordinate
     scale_x/y/z_sem, scale_xyz_sem, *_inside   coordinate c |-> x0' + (c - x0') / s'   (no hypothesis)
     scale_x/y/z_maps, scale_xyz_maps   for s' <> 0 the solid is carried by c |-> x0' + (c - x0') * s'
     scale_x_maps_zero_refuted  ... and this fails for s' = 0 (t = X, s = 0, x0 = 0, c = -1)
     rotate_x/y/z_sem,_inside   D (s_rotate_x t ang (V3 c)) r = D t (atp r (mrot_x ang' c' (pos r)))
     rotate_x/y/z_maps          the solid is carried by mrot (-ang') c' (the inverse rigid motion)

   B3 primitives (x y z = ex r, ey r, ez r; primes = parameter values at r)
     circle_sem           indep rad -> D = sqrt ((x-cx')^2 + (y-cy')^2) - rad'
     circle_inside        indep rad -> 0 <= rad' -> inside <-> (x-cx')^2 + (y-cy')^2 < rad'^2
     circle_inside_negative_radius_refuted   the sign hypothesis is needed (rad = -1 at the centre)
     sphere_sem, sphere_inside               same in 3D
     rectangle_inside     inside <-> ax' < x < bx' /\ ay' < y < by'
     extrude_z_inside     inside <-> inside t r /\ zmin' < z < zmax'
     box_mitered_inside   three strict componentwise bounds
     box_mitered_centered_inside   |x-cx'| < sx'/2 /\ |y-cy'| < sy'/2 /\ |z-cz'| < sz'/2
     cylinder_z_inside    indep rad -> 0 <= rad' -> disc /\ bz' < z < bz' + h'
     half_space_sem, half_space_inside   D = (p - point) . normal
     torus_z_sem, torus_z_inside         D = sqrt ((ro' - sqrt (dx^2+dy^2))^2 + dz^2) - ri'; 0 <= ri'
     cone_ang_z_sem       D = Rmax (-(z-bz')) (cos ang' * rho + sin ang' * ((z-bz') - h'))
     cone_ang_z_inside    0 < cos ang' -> inside <-> bz' < z /\ rho < tan ang' * (h' - (z - bz'))
     cone_z_inside        0 < height' -> inside <-> bz' < z /\ rho < radius' * (1 - (z-bz')/height')
                          (no sign condition on radius' is needed)
     cone_z_negative_height_refuted   0 < height' cannot be dropped (radius 1, height -1: atan2
                          gives 3 PI / 4, negative cosine, the cone opens the other way)
     boxfield, rectfield  the real functions computed by the exact box / rectangle terms
     boxfield_neg, rectfield_neg       negative iff every per-axis excess is negative
     box_exact_centered_sem, box_exact_sem, rectangle_centered_exact_sem, rectangle_exact_sem
                          D = boxfield / rectfield of the per-axis excesses |p_i - c_i| - h_i
     box_exact_centered_inside   inside <-> |x-cx'| < sx'/2 /\ ...      (no hypothesis at all)
     box_exact_inside            inside <-> ax' < x < bx' /\ ...        (no hypothesis at all)
     rectangle_centered_exact_inside, rectangle_exact_inside   2D, sizes / corners independent

   Hypotheses that differ from the informal statement:
     * radius hypotheses are 0 <= rad' instead of 0 < rad' (weaker, both sides false at 0);
     * cone_z only needs 0 < height';
     * the exact boxes need no positivity of the size for inside-ness (an empty open box has
       an everywhere non-negative field); positivity is only used in B4 (StdGeom.v).
   No axioms beyond the classical reals / functional extensionality of the libraries. *)
From Coq Require Import Reals Lra Lia List Bool Arith Psatz.
From LF Require Import Base.Opcode Base.Num Base.Arena Base.Sem Tree.Build Tree.BuildSem
  Tree.RemapSem Stdlib.SExpr Gen.Stdlib_gen Eval.DerivSem.
Import ListNotations.

(* ================================================================== *)
(* PART A                                                              *)
(* ================================================================== *)
Section BuildDenote.
  Context {num : Type} (O : ops num).
  Variable osem : nat -> num -> num -> num -> num.
  Notation arena := (arena num).
  Notation env := (env num).
  Notation val := (val O osem).
  Notation ok_result := (ok_result O osem).
  Notation denote := (denote O osem).
  Notation build := (build O).
  Hypothesis LAWS : laws O.

  Lemma handles_ok_mono n m (e : sx num) : n <= m -> handles_ok n e -> handles_ok m e.
  Proof.
    intros Hnm; induction e; cbn [handles_ok]; try tauto.
    intros H; lia.
  Qed.

  (* meaning of a term only reads the handles it mentions: extending the arena keeps it *)
  Lemma denote_extends (a a' : arena) (e : sx num) :
    extends a a' -> handles_ok (length a) e -> forall r, denote a' e r = denote a e r.
  Proof.
    intros He; induction e; cbn [handles_ok denote]; intros H r; try reflexivity.
    - apply (extends_val O osem); assumption.
    - rewrite IHe by tauto; reflexivity.
    - rewrite IHe1, IHe2 by tauto; reflexivity.
    - rewrite IHe2, IHe3, IHe4, IHe1 by tauto; reflexivity.
  Qed.

  Theorem build_denote : forall (e : sx num) (a : arena),
    arena_wf a -> base_ok O a -> handles_ok (length a) e ->
    ok_result a (build e a) (fun r => denote a e r).
  Proof.
    induction e; intros a Hwf Hb Hh; cbn [build denote handles_ok] in *.
    - apply ok_same; auto.
    - apply nullary_sem_x; auto.
    - apply nullary_sem_y; auto.
    - apply nullary_sem_z; auto.
    - apply const_sem; auto.
    - destruct Hh as [Hop Hh].
      specialize (IHe a Hwf Hb Hh). destruct (build e a) as [a1 i1].
      destruct IHe as (E1 & W1 & L1 & V1); cbn [fst snd] in *.
      eapply ok_trans; [exact E1|].
      eapply ok_weaken; [apply unary_sem; auto|].
      intros r; cbn beta. rewrite V1; reflexivity.
    - destruct Hh as (Hop & Hh1 & Hh2).
      specialize (IHe1 a Hwf Hb Hh1). destruct (build e1 a) as [a1 i1].
      destruct IHe1 as (E1 & W1 & L1 & V1); cbn [fst snd] in *.
      pose proof (base_ok_extends O a a1 Hb E1) as B1.
      pose proof (extends_length a a1 E1) as Len1.
      specialize (IHe2 a1 W1 B1 (handles_ok_mono _ _ _ Len1 Hh2)).
      destruct (build e2 a1) as [a2 i2].
      destruct IHe2 as (E2 & W2 & L2 & V2); cbn [fst snd] in *.
      pose proof (extends_length a1 a2 E2) as Len2.
      eapply ok_trans; [eapply extends_trans; [exact E1|exact E2]|].
      eapply ok_weaken; [apply bin_sem; auto; lia|].
      intros r; cbn beta.
      rewrite (extends_val O osem a1 a2 i1 r E2 L1), V1, V2.
      rewrite (denote_extends a a1 e2 E1 Hh2). reflexivity.
    - destruct Hh as (Hh1 & Hh2 & Hh3 & Hh4).
      specialize (IHe1 a Hwf Hb Hh1). destruct (build e1 a) as [a0 it].
      destruct IHe1 as (E0 & W0 & L0 & V0); cbn [fst snd] in *.
      pose proof (base_ok_extends O a a0 Hb E0) as B0.
      pose proof (extends_length a a0 E0) as Len0.
      specialize (IHe2 a0 W0 B0 (handles_ok_mono _ _ _ Len0 Hh2)).
      destruct (build e2 a0) as [a1 ix].
      destruct IHe2 as (E1 & W1 & L1 & V1); cbn [fst snd] in *.
      pose proof (base_ok_extends O a0 a1 B0 E1) as B1.
      pose proof (extends_length a0 a1 E1) as Len1.
      assert (E01 : extends a a1) by (eapply extends_trans; eauto).
      specialize (IHe3 a1 W1 B1 (handles_ok_mono (length a) (length a1) _ ltac:(lia) Hh3)).
      destruct (build e3 a1) as [a2 iy].
      destruct IHe3 as (E2 & W2 & L2 & V2); cbn [fst snd] in *.
      pose proof (base_ok_extends O a1 a2 B1 E2) as B2.
      pose proof (extends_length a1 a2 E2) as Len2.
      assert (E02 : extends a a2) by (eapply extends_trans; eauto).
      specialize (IHe4 a2 W2 B2 (handles_ok_mono (length a) (length a2) _ ltac:(lia) Hh4)).
      destruct (build e4 a2) as [a3 iz].
      destruct IHe4 as (E3 & W3 & L3 & V3); cbn [fst snd] in *.
      pose proof (base_ok_extends O a2 a3 B2 E3) as B3.
      pose proof (extends_length a2 a3 E3) as Len3.
      assert (E03 : extends a a3) by (eapply extends_trans; eauto).
      assert (E13 : extends a1 a3) by (eapply extends_trans; eauto).
      assert (E023 : extends a0 a3) by (eapply extends_trans; [exact E1|exact E13]).
      eapply ok_trans; [exact E03|].
      eapply ok_weaken; [apply remap_sem; auto; lia|].
      intros r; cbn beta.
      rewrite (extends_val O osem a0 a3 it _ E023 L0), V0.
      rewrite (extends_val O osem a1 a3 ix r E13 L1), V1.
      rewrite (extends_val O osem a2 a3 iy r E3 L2), V2.
      rewrite V3.
      rewrite (denote_extends a a0 e2 E0 Hh2), (denote_extends a a1 e3 E01 Hh3),
              (denote_extends a a2 e4 E02 Hh4).
      reflexivity.
  Qed.
End BuildDenote.

(* ================================================================== *)
(* the real instance satisfies the laws                                *)
(* ================================================================== *)
Local Open Scope R_scope.

Theorem RD_laws : laws RD.
Proof.
  constructor; unfold o_add, o_sub, o_mul, o_div, o_neg, o_mone, o_neg;
    cbn [o_un o_bin o_zero o_one o_eqb RD RD_un RD_bin]; intros.
  - destruct (Req_EM_T a b); [auto | discriminate].
  - lra. - lra. - lra. - lra. - lra. - lra. - lra. - lra. - lra. - lra. - lra. - lra. - lra.
  - reflexivity.
  - unfold Rdiv; rewrite Rinv_1; lra.
  - change 1 with (IZR 1). rewrite Rpow_IZR. simpl. lra.
  - unfold Rnth_root. rewrite Rinv_1.
    destruct (Rlt_dec 0 x) as [Hx|Hx]; [apply Rpower_1; exact Hx|].
    destruct (Req_EM_T x 0) as [E|E]; [symmetry; exact E|].
    rewrite Rpower_1 by lra. lra.
  - unfold Rmin; destruct (Rle_dec x x); reflexivity.
  - unfold Rmax; destruct (Rle_dec x x); reflexivity.
  - apply Rabs_Rabsolu.
  - apply Rabs_pos_eq. nra.
  - lra.
Qed.

Corollary build_denote_R (osem : nat -> R -> R -> R -> R) (e : sx R) (a : arena R) :
  arena_wf a -> base_ok RD a -> handles_ok (length a) e ->
  ok_result RD osem a (build RD e a) (fun r => denote RD osem a e r).
Proof. apply build_denote. exact RD_laws. Qed.

(* ================================================================== *)
(* PART B: meaning of the operations over the reals                    *)
(* ================================================================== *)

(* --- real-number helpers ------------------------------------------- *)
Lemma Rmin_lt_iff a b c : Rmin a b < c <-> a < c \/ b < c.
Proof. unfold Rmin; destruct (Rle_dec a b); lra. Qed.
Lemma Rmin_gt_iff a b c : c < Rmin a b <-> c < a /\ c < b.
Proof. unfold Rmin; destruct (Rle_dec a b); lra. Qed.
Lemma Rmax_lt_iff a b c : Rmax a b < c <-> a < c /\ b < c.
Proof. unfold Rmax; destruct (Rle_dec a b); lra. Qed.
Lemma Rmax_gt_iff a b c : c < Rmax a b <-> c < a \/ c < b.
Proof. unfold Rmax; destruct (Rle_dec a b); lra. Qed.

Lemma sqrt_lt_sq u c : 0 <= u -> 0 <= c -> (sqrt u < c <-> u < c * c).
Proof.
  intros Hu Hc. pose proof (sqrt_pos u) as Hp. pose proof (sqrt_sqrt u Hu) as Hs.
  split; intros H; [nra|].
  destruct (Rlt_dec (sqrt u) c) as [|N]; [assumption|]. exfalso. nra.
Qed.

Lemma Rabs_lt_iff u h : Rabs u < h <-> - h < u < h.
Proof. unfold Rabs; destruct (Rcase_abs u); lra. Qed.

Lemma Rabs_sub_lt_iff u h : Rabs u - h < 0 <-> - h < u < h.
Proof. unfold Rabs; destruct (Rcase_abs u); lra. Qed.

Lemma rot2_norm s c u v : s * s + c * c = 1 ->
  (c * u + s * v) * (c * u + s * v) + (- s * u + c * v) * (- s * u + c * v) = u * u + v * v.
Proof. intros H. transitivity ((s * s + c * c) * (u * u + v * v)); [ring | rewrite H; ring]. Qed.

Lemma sin_cos_1 x : sin x * sin x + cos x * cos x = 1.
Proof. pose proof (sin2_cos2 x) as H; unfold Rsqr in H; exact H. Qed.

(* points of R^3 *)
Definition pt : Type := (R * R * R)%type.
Definition px (p : pt) : R := fst (fst p).
Definition py (p : pt) : R := snd (fst p).
Definition pz (p : pt) : R := snd p.
Definition dist2 (p q : pt) : R :=
  (px p - px q) * (px p - px q) + (py p - py q) * (py p - py q) + (pz p - pz q) * (pz p - pz q).

(* the coordinate maps written in the generated rotate_x/y/z terms:
   translate by -c, apply the matrix, translate back *)
Definition mrot_x (th : R) (c p : pt) : pt :=
  (px p,
   py c + (cos th * (py p - py c) + sin th * (pz p - pz c)),
   pz c + (- sin th * (py p - py c) + cos th * (pz p - pz c))).
Definition mrot_y (th : R) (c p : pt) : pt :=
  (px c + (cos th * (px p - px c) + sin th * (pz p - pz c)),
   py p,
   pz c + (- sin th * (px p - px c) + cos th * (pz p - pz c))).
Definition mrot_z (th : R) (c p : pt) : pt :=
  (px c + (cos th * (px p - px c) + sin th * (py p - py c)),
   py c + (- sin th * (px p - px c) + cos th * (py p - py c)),
   pz p).

Ltac pt_unfold := unfold dist2, mrot_x, mrot_y, mrot_z, px, py, pz; cbn [fst snd].

(* close a polynomial identity that holds modulo si*si + co*co = 1 *)
Ltac by_sc H si co K :=
  apply Rminus_diag_uniq;
  match goal with |- ?A = 0 =>
    transitivity ((si * si + co * co - 1) * K); [ring | rewrite H; ring] end.

Theorem mrot_x_isometry th c p q : dist2 (mrot_x th c p) (mrot_x th c q) = dist2 p q.
Proof.
  destruct p as [[x y] z], q as [[x' y'] z'], c as [[cx cy] cz]; pt_unfold.
  pose proof (sin_cos_1 th) as H. revert H. generalize (sin th) (cos th). intros si co H.
  by_sc H si co ((y - y') * (y - y') + (z - z') * (z - z')).
Qed.
Theorem mrot_y_isometry th c p q : dist2 (mrot_y th c p) (mrot_y th c q) = dist2 p q.
Proof.
  destruct p as [[x y] z], q as [[x' y'] z'], c as [[cx cy] cz]; pt_unfold.
  pose proof (sin_cos_1 th) as H. revert H. generalize (sin th) (cos th). intros si co H.
  by_sc H si co ((x - x') * (x - x') + (z - z') * (z - z')).
Qed.
Theorem mrot_z_isometry th c p q : dist2 (mrot_z th c p) (mrot_z th c q) = dist2 p q.
Proof.
  destruct p as [[x y] z], q as [[x' y'] z'], c as [[cx cy] cz]; pt_unfold.
  pose proof (sin_cos_1 th) as H. revert H. generalize (sin th) (cos th). intros si co H.
  by_sc H si co ((x - x') * (x - x') + (y - y') * (y - y')).
Qed.

Theorem mrot_x_fix th c : mrot_x th c c = c.
Proof. destruct c as [[cx cy] cz]; pt_unfold. repeat f_equal; ring. Qed.
Theorem mrot_y_fix th c : mrot_y th c c = c.
Proof. destruct c as [[cx cy] cz]; pt_unfold. repeat f_equal; ring. Qed.
Theorem mrot_z_fix th c : mrot_z th c c = c.
Proof. destruct c as [[cx cy] cz]; pt_unfold. repeat f_equal; ring. Qed.

(* the inverse is the rotation by the opposite angle (both orders) *)
Theorem mrot_x_inv th c p : mrot_x th c (mrot_x (- th) c p) = p.
Proof.
  destruct p as [[x y] z], c as [[cx cy] cz]; pt_unfold. rewrite cos_neg, sin_neg.
  pose proof (sin_cos_1 th) as H. revert H. generalize (sin th) (cos th). intros si co H.
  repeat f_equal.
  - by_sc H si co (y - cy).
  - by_sc H si co (z - cz).
Qed.
Theorem mrot_y_inv th c p : mrot_y th c (mrot_y (- th) c p) = p.
Proof.
  destruct p as [[x y] z], c as [[cx cy] cz]; pt_unfold. rewrite cos_neg, sin_neg.
  pose proof (sin_cos_1 th) as H. revert H. generalize (sin th) (cos th). intros si co H.
  repeat f_equal.
  - by_sc H si co (x - cx).
  - by_sc H si co (z - cz).
Qed.
Theorem mrot_z_inv th c p : mrot_z th c (mrot_z (- th) c p) = p.
Proof.
  destruct p as [[x y] z], c as [[cx cy] cz]; pt_unfold. rewrite cos_neg, sin_neg.
  pose proof (sin_cos_1 th) as H. revert H. generalize (sin th) (cos th). intros si co H.
  repeat f_equal.
  - by_sc H si co (x - cx).
  - by_sc H si co (y - cy).
Qed.
Theorem mrot_x_inv' th c p : mrot_x (- th) c (mrot_x th c p) = p.
Proof. rewrite <- (Ropp_involutive th) at 2. apply mrot_x_inv. Qed.
Theorem mrot_y_inv' th c p : mrot_y (- th) c (mrot_y th c p) = p.
Proof. rewrite <- (Ropp_involutive th) at 2. apply mrot_y_inv. Qed.
Theorem mrot_z_inv' th c p : mrot_z (- th) c (mrot_z th c p) = p.
Proof. rewrite <- (Ropp_involutive th) at 2. apply mrot_z_inv. Qed.

Section StdR.
  Variable osem : nat -> R -> R -> R -> R.
  Variable a : arena R.
  Notation env := (env R).
  Notation sx := (sx R).
  Notation D := (denote RD osem a).
  Notation at3 := (@upd_xyz R).

  Definition inside (e : sx) (r : env) : Prop := D e r < 0.
  Definition outside (e : sx) (r : env) : Prop := 0 < D e r.
  Definition atp (r : env) (p : pt) : env := at3 r (px p) (py p) (pz p).
  Definition pos (r : env) : pt := (ex r, ey r, ez r).

  (* position-independent parameter terms *)
  Definition indep (p : sx) : Prop := forall r x y z, D p (at3 r x y z) = D p r.

  Lemma indep_SC c : indep (SC c).
  Proof. intros r x y z; reflexivity. Qed.
  Lemma indep_SU op p : indep p -> indep (SU op p).
  Proof. intros H r x y z; cbn [denote]; rewrite H; reflexivity. Qed.
  Lemma indep_SB op p q : indep p -> indep q -> indep (SB op p q).
  Proof. intros Hp Hq r x y z; cbn [denote]; rewrite Hp, Hq; reflexivity. Qed.
  (* a handle whose node is blind to X/Y/Z (free variables, constants, ...) *)
  Lemma indep_SH i : arena_wf a -> (i < length a)%nat -> blind (flags_of a i) = true -> indep (SH i).
  Proof.
    intros Hwf Hi Hb r x y z; cbn [denote]. apply val_blind; auto. intros w; reflexivity.
  Qed.

  Lemma ex_at r x y z : ex (at3 r x y z) = x. Proof. reflexivity. Qed.
  Lemma ey_at r x y z : ey (at3 r x y z) = y. Proof. reflexivity. Qed.
  Lemma ez_at r x y z : ez (at3 r x y z) = z. Proof. reflexivity. Qed.
  Lemma at_at r x y z x' y' z' : at3 (at3 r x y z) x' y' z' = at3 r x' y' z'.
  Proof. reflexivity. Qed.
  Lemma at_eq (t : sx) r x y z x' y' z' :
    x = x' -> y = y' -> z = z' -> D t (at3 r x y z) = D t (at3 r x' y' z').
  Proof. intros -> -> ->; reflexivity. Qed.
  Lemma at_self (t : sx) r : D t (at3 r (ex r) (ey r) (ez r)) = D t r.
  Proof. destruct r; reflexivity. Qed.
  Lemma inside_eq e r e' r' : D e r = D e' r' -> (inside e r <-> inside e' r').
  Proof. unfold inside; intros ->; tauto. Qed.
  Lemma outside_eq e r e' r' : D e r = D e' r' -> (outside e r <-> outside e' r').
  Proof. unfold outside; intros ->; tauto. Qed.

  Ltac sden :=
    cbn [denote v2x v2y v3x v3y v3z o_un o_bin RD RD_un RD_bin o_ofnat o_zero o_one o_add];
    rewrite ?ex_at, ?ey_at, ?ez_at, ?at_at.
  Ltac ind :=
    unfold indep in *;
    repeat match goal with
           | H : forall r x y z, denote RD osem a ?p (upd_xyz r x y z) = _ |- _ => progress rewrite ?H
           end.

  (* ---------------------------------------------------------------- *)
  (* B1: CSG                                                           *)
  (* ---------------------------------------------------------------- *)
  Theorem union_inside s t r : inside (s_union s t) r <-> inside s r \/ inside t r.
  Proof. unfold inside, s_union; sden. apply Rmin_lt_iff. Qed.
  Theorem union_outside s t r : outside (s_union s t) r <-> outside s r /\ outside t r.
  Proof. unfold outside, s_union; sden. apply Rmin_gt_iff. Qed.
  Theorem intersection_inside s t r : inside (s_intersection s t) r <-> inside s r /\ inside t r.
  Proof. unfold inside, s_intersection; sden. apply Rmax_lt_iff. Qed.
  Theorem intersection_outside s t r : outside (s_intersection s t) r <-> outside s r \/ outside t r.
  Proof. unfold outside, s_intersection; sden. apply Rmax_gt_iff. Qed.
  Theorem inverse_inside s r : inside (s_inverse s) r <-> outside s r.
  Proof. unfold inside, outside, s_inverse; sden. lra. Qed.
  Theorem inverse_outside s r : outside (s_inverse s) r <-> inside s r.
  Proof. unfold inside, outside, s_inverse; sden. lra. Qed.
  Theorem difference_inside s t r : inside (s_difference s t) r <-> inside s r /\ outside t r.
  Proof. unfold s_difference. rewrite intersection_inside, inverse_inside. tauto. Qed.
  Theorem difference_outside s t r : outside (s_difference s t) r <-> outside s r \/ inside t r.
  Proof. unfold s_difference. rewrite intersection_outside, inverse_outside. tauto. Qed.
  Theorem offset_sem s o r : D (s_offset s o) r = D s r - D o r.
  Proof. reflexivity. Qed.
  (* consequence: offsetting by a positive amount grows the solid *)
  Corollary offset_inside s o r : inside (s_offset s o) r <-> D s r < D o r.
  Proof. unfold inside; rewrite offset_sem; lra. Qed.

  (* ---------------------------------------------------------------- *)
  (* B2: transforms as point maps                                      *)
  (* ---------------------------------------------------------------- *)
  Theorem move_sem t ox oy oz r :
    D (s_move t (V3 ox oy oz)) r = D t (at3 r (ex r - D ox r) (ey r - D oy r) (ez r - D oz r)).
  Proof. reflexivity. Qed.
  Corollary move_inside t ox oy oz r :
    inside (s_move t (V3 ox oy oz)) r <->
    inside t (at3 r (ex r - D ox r) (ey r - D oy r) (ez r - D oz r)).
  Proof. apply inside_eq, move_sem. Qed.
  (* the solid is translated BY the offset *)
  Corollary move_maps t ox oy oz r x y z : indep ox -> indep oy -> indep oz ->
    (inside (s_move t (V3 ox oy oz)) (at3 r (x + D ox r) (y + D oy r) (z + D oz r)) <->
     inside t (at3 r x y z)).
  Proof.
    intros. apply inside_eq. rewrite move_sem; sden; ind. apply at_eq; ring.
  Qed.
  (* composition: nested moves add up *)
  Theorem move_move_sem t o1x o1y o1z o2x o2y o2z r : indep o1x -> indep o1y -> indep o1z ->
    D (s_move (s_move t (V3 o1x o1y o1z)) (V3 o2x o2y o2z)) r =
    D t (at3 r (ex r - D o2x r - D o1x r) (ey r - D o2y r - D o1y r) (ez r - D o2z r - D o1z r)).
  Proof. intros. rewrite !move_sem; sden; ind. reflexivity. Qed.

  Theorem reflect_x_sem t x0 r :
    D (s_reflect_x RD t x0) r = D t (at3 r (2 * D x0 r - ex r) (ey r) (ez r)).
  Proof. unfold s_reflect_x; sden. apply at_eq; ring. Qed.
  Theorem reflect_y_sem t y0 r :
    D (s_reflect_y RD t y0) r = D t (at3 r (ex r) (2 * D y0 r - ey r) (ez r)).
  Proof. unfold s_reflect_y; sden. apply at_eq; ring. Qed.
  Theorem reflect_z_sem t z0 r :
    D (s_reflect_z RD t z0) r = D t (at3 r (ex r) (ey r) (2 * D z0 r - ez r)).
  Proof. unfold s_reflect_z; sden. apply at_eq; ring. Qed.
  Corollary reflect_x_inside t x0 r :
    inside (s_reflect_x RD t x0) r <-> inside t (at3 r (2 * D x0 r - ex r) (ey r) (ez r)).
  Proof. apply inside_eq, reflect_x_sem. Qed.
  Corollary reflect_y_inside t y0 r :
    inside (s_reflect_y RD t y0) r <-> inside t (at3 r (ex r) (2 * D y0 r - ey r) (ez r)).
  Proof. apply inside_eq, reflect_y_sem. Qed.
  Corollary reflect_z_inside t z0 r :
    inside (s_reflect_z RD t z0) r <-> inside t (at3 r (ex r) (ey r) (2 * D z0 r - ez r)).
  Proof. apply inside_eq, reflect_z_sem. Qed.

  Theorem reflect_xy_sem t r : D (s_reflect_xy t) r = D t (at3 r (ey r) (ex r) (ez r)).
  Proof. reflexivity. Qed.
  Theorem reflect_yz_sem t r : D (s_reflect_yz t) r = D t (at3 r (ex r) (ez r) (ey r)).
  Proof. reflexivity. Qed.
  Theorem reflect_xz_sem t r : D (s_reflect_xz t) r = D t (at3 r (ez r) (ey r) (ex r)).
  Proof. reflexivity. Qed.
  Corollary reflect_xy_inside t r : inside (s_reflect_xy t) r <-> inside t (at3 r (ey r) (ex r) (ez r)).
  Proof. apply inside_eq, reflect_xy_sem. Qed.
  Corollary reflect_yz_inside t r : inside (s_reflect_yz t) r <-> inside t (at3 r (ex r) (ez r) (ey r)).
  Proof. apply inside_eq, reflect_yz_sem. Qed.
  Corollary reflect_xz_inside t r : inside (s_reflect_xz t) r <-> inside t (at3 r (ez r) (ey r) (ex r)).
  Proof. apply inside_eq, reflect_xz_sem. Qed.

  Theorem symmetric_x_sem t r : D (s_symmetric_x t) r = D t (at3 r (Rabs (ex r)) (ey r) (ez r)).
  Proof. reflexivity. Qed.
  Theorem symmetric_y_sem t r : D (s_symmetric_y t) r = D t (at3 r (ex r) (Rabs (ey r)) (ez r)).
  Proof. reflexivity. Qed.
  Theorem symmetric_z_sem t r : D (s_symmetric_z t) r = D t (at3 r (ex r) (ey r) (Rabs (ez r))).
  Proof. reflexivity. Qed.
  Corollary symmetric_x_inside t r : inside (s_symmetric_x t) r <-> inside t (at3 r (Rabs (ex r)) (ey r) (ez r)).
  Proof. apply inside_eq, symmetric_x_sem. Qed.
  Corollary symmetric_y_inside t r : inside (s_symmetric_y t) r <-> inside t (at3 r (ex r) (Rabs (ey r)) (ez r)).
  Proof. apply inside_eq, symmetric_y_sem. Qed.
  Corollary symmetric_z_inside t r : inside (s_symmetric_z t) r <-> inside t (at3 r (ex r) (ey r) (Rabs (ez r))).
  Proof. apply inside_eq, symmetric_z_sem. Qed.

  Theorem scale_x_sem t s x0 r :
    D (s_scale_x t s x0) r = D t (at3 r (D x0 r + (ex r - D x0 r) / D s r) (ey r) (ez r)).
  Proof. reflexivity. Qed.
  Theorem scale_y_sem t s y0 r :
    D (s_scale_y t s y0) r = D t (at3 r (ex r) (D y0 r + (ey r - D y0 r) / D s r) (ez r)).
  Proof. reflexivity. Qed.
  Theorem scale_z_sem t s z0 r :
    D (s_scale_z t s z0) r = D t (at3 r (ex r) (ey r) (D z0 r + (ez r - D z0 r) / D s r)).
  Proof. reflexivity. Qed.
  Theorem scale_xyz_sem t s1 s2 s3 c1 c2 c3 r :
    D (s_scale_xyz t (V3 s1 s2 s3) (V3 c1 c2 c3)) r =
    D t (at3 r (D c1 r + (ex r - D c1 r) / D s1 r) (D c2 r + (ey r - D c2 r) / D s2 r)
              (D c3 r + (ez r - D c3 r) / D s3 r)).
  Proof. reflexivity. Qed.
  Corollary scale_x_inside t s x0 r :
    inside (s_scale_x t s x0) r <-> inside t (at3 r (D x0 r + (ex r - D x0 r) / D s r) (ey r) (ez r)).
  Proof. apply inside_eq, scale_x_sem. Qed.
  Corollary scale_y_inside t s y0 r :
    inside (s_scale_y t s y0) r <-> inside t (at3 r (ex r) (D y0 r + (ey r - D y0 r) / D s r) (ez r)).
  Proof. apply inside_eq, scale_y_sem. Qed.
  Corollary scale_z_inside t s z0 r :
    inside (s_scale_z t s z0) r <-> inside t (at3 r (ex r) (ey r) (D z0 r + (ez r - D z0 r) / D s r)).
  Proof. apply inside_eq, scale_z_sem. Qed.
  Corollary scale_xyz_inside t s1 s2 s3 c1 c2 c3 r :
    inside (s_scale_xyz t (V3 s1 s2 s3) (V3 c1 c2 c3)) r <->
    inside t (at3 r (D c1 r + (ex r - D c1 r) / D s1 r) (D c2 r + (ey r - D c2 r) / D s2 r)
                   (D c3 r + (ez r - D c3 r) / D s3 r)).
  Proof. apply inside_eq, scale_xyz_sem. Qed.

  (* the solid is mapped by the documented map  c |-> x0 + (c - x0) * s  (s <> 0) *)
  Theorem scale_x_maps t s x0 r c y z : indep s -> indep x0 -> D s r <> 0 ->
    (inside (s_scale_x t s x0) (at3 r (D x0 r + (c - D x0 r) * D s r) y z) <-> inside t (at3 r c y z)).
  Proof. intros Hs H0 Hn. apply inside_eq. rewrite scale_x_sem; sden; ind. apply at_eq; try reflexivity. field; exact Hn. Qed.
  (* the hypothesis s <> 0 cannot be dropped: t := X, s := 0, x0 := 0, c := -1 *)
  Lemma scale_x_maps_zero_refuted :
    ~ (forall t s x0 r c y z, indep s -> indep x0 ->
         (inside (s_scale_x t s x0) (at3 r (D x0 r + (c - D x0 r) * D s r) y z) <->
          inside t (at3 r c y z))).
  Proof.
    intros H.
    specialize (H SX (SC 0) (SC 0) {| ex := 0; ey := 0; ez := 0; ev := fun _ => 0 |} (-1) 0 0
                  (indep_SC 0) (indep_SC 0)).
    unfold inside in H. rewrite scale_x_sem in H. cbn [denote ex ey ez upd_xyz] in H.
    destruct H as [_ H].
    assert (E : 0 + (0 + (-1 - 0) * 0 - 0) / 0 = 0) by (unfold Rdiv; ring).
    rewrite E in H. lra.
  Qed.

  Theorem scale_y_maps t s y0 r x c z : indep s -> indep y0 -> D s r <> 0 ->
    (inside (s_scale_y t s y0) (at3 r x (D y0 r + (c - D y0 r) * D s r) z) <-> inside t (at3 r x c z)).
  Proof. intros Hs H0 Hn. apply inside_eq. rewrite scale_y_sem; sden; ind. apply at_eq; try reflexivity. field; exact Hn. Qed.
  Theorem scale_z_maps t s z0 r x y c : indep s -> indep z0 -> D s r <> 0 ->
    (inside (s_scale_z t s z0) (at3 r x y (D z0 r + (c - D z0 r) * D s r)) <-> inside t (at3 r x y c)).
  Proof. intros Hs H0 Hn. apply inside_eq. rewrite scale_z_sem; sden; ind. apply at_eq; try reflexivity. field; exact Hn. Qed.
  Theorem scale_xyz_maps t s1 s2 s3 c1 c2 c3 r x y z :
    indep s1 -> indep s2 -> indep s3 -> indep c1 -> indep c2 -> indep c3 ->
    D s1 r <> 0 -> D s2 r <> 0 -> D s3 r <> 0 ->
    (inside (s_scale_xyz t (V3 s1 s2 s3) (V3 c1 c2 c3))
        (at3 r (D c1 r + (x - D c1 r) * D s1 r) (D c2 r + (y - D c2 r) * D s2 r)
               (D c3 r + (z - D c3 r) * D s3 r)) <->
     inside t (at3 r x y z)).
  Proof.
    intros. apply inside_eq. rewrite scale_xyz_sem; sden; ind. apply at_eq; field; assumption.
  Qed.

  (* rotations *)
  Theorem rotate_x_sem t ang cx cy cz r : indep ang -> indep cx -> indep cy -> indep cz ->
    D (s_rotate_x t ang (V3 cx cy cz)) r =
    D t (atp r (mrot_x (D ang r) (D cx r, D cy r, D cz r) (pos r))).
  Proof.
    intros. unfold s_rotate_x, s_move, atp, pos, mrot_x, px, py, pz; cbn [fst snd]; sden; ind.
    apply at_eq; ring.
  Qed.
  Theorem rotate_y_sem t ang cx cy cz r : indep ang -> indep cx -> indep cy -> indep cz ->
    D (s_rotate_y t ang (V3 cx cy cz)) r =
    D t (atp r (mrot_y (D ang r) (D cx r, D cy r, D cz r) (pos r))).
  Proof.
    intros. unfold s_rotate_y, s_move, atp, pos, mrot_y, px, py, pz; cbn [fst snd]; sden; ind.
    apply at_eq; ring.
  Qed.
  Theorem rotate_z_sem t ang cx cy cz r : indep ang -> indep cx -> indep cy -> indep cz ->
    D (s_rotate_z t ang (V3 cx cy cz)) r =
    D t (atp r (mrot_z (D ang r) (D cx r, D cy r, D cz r) (pos r))).
  Proof.
    intros. unfold s_rotate_z, s_move, atp, pos, mrot_z, px, py, pz; cbn [fst snd]; sden; ind.
    apply at_eq; ring.
  Qed.
  Corollary rotate_x_inside t ang cx cy cz r : indep ang -> indep cx -> indep cy -> indep cz ->
    (inside (s_rotate_x t ang (V3 cx cy cz)) r <->
     inside t (atp r (mrot_x (D ang r) (D cx r, D cy r, D cz r) (pos r)))).
  Proof. intros; apply inside_eq, rotate_x_sem; assumption. Qed.
  Corollary rotate_y_inside t ang cx cy cz r : indep ang -> indep cx -> indep cy -> indep cz ->
    (inside (s_rotate_y t ang (V3 cx cy cz)) r <->
     inside t (atp r (mrot_y (D ang r) (D cx r, D cy r, D cz r) (pos r)))).
  Proof. intros; apply inside_eq, rotate_y_sem; assumption. Qed.
  Corollary rotate_z_inside t ang cx cy cz r : indep ang -> indep cx -> indep cy -> indep cz ->
    (inside (s_rotate_z t ang (V3 cx cy cz)) r <->
     inside t (atp r (mrot_z (D ang r) (D cx r, D cy r, D cz r) (pos r)))).
  Proof. intros; apply inside_eq, rotate_z_sem; assumption. Qed.

  Lemma pos_atp r p : pos (atp r p) = p.
  Proof. destruct p as [[x y] z]; reflexivity. Qed.
  Lemma D_atp_indep p r q : indep p -> D p (atp r q) = D p r.
  Proof. intros H; apply H. Qed.
  Lemma atp_atp r p q : atp (atp r p) q = atp r q.
  Proof. reflexivity. Qed.

  (* the solid is carried by the inverse of the map in the term = rotation by the
     opposite angle about the centre *)
  Theorem rotate_x_maps t ang cx cy cz r p : indep ang -> indep cx -> indep cy -> indep cz ->
    (inside (s_rotate_x t ang (V3 cx cy cz)) (atp r (mrot_x (- D ang r) (D cx r, D cy r, D cz r) p)) <->
     inside t (atp r p)).
  Proof.
    intros. apply inside_eq. rewrite rotate_x_sem by assumption.
    rewrite pos_atp, (D_atp_indep ang), (D_atp_indep cx), (D_atp_indep cy), (D_atp_indep cz), atp_atp, mrot_x_inv by assumption. reflexivity.
  Qed.
  Theorem rotate_y_maps t ang cx cy cz r p : indep ang -> indep cx -> indep cy -> indep cz ->
    (inside (s_rotate_y t ang (V3 cx cy cz)) (atp r (mrot_y (- D ang r) (D cx r, D cy r, D cz r) p)) <->
     inside t (atp r p)).
  Proof.
    intros. apply inside_eq. rewrite rotate_y_sem by assumption.
    rewrite pos_atp, (D_atp_indep ang), (D_atp_indep cx), (D_atp_indep cy), (D_atp_indep cz), atp_atp, mrot_y_inv by assumption. reflexivity.
  Qed.
  Theorem rotate_z_maps t ang cx cy cz r p : indep ang -> indep cx -> indep cy -> indep cz ->
    (inside (s_rotate_z t ang (V3 cx cy cz)) (atp r (mrot_z (- D ang r) (D cx r, D cy r, D cz r) p)) <->
     inside t (atp r p)).
  Proof.
    intros. apply inside_eq. rewrite rotate_z_sem by assumption.
    rewrite pos_atp, (D_atp_indep ang), (D_atp_indep cx), (D_atp_indep cy), (D_atp_indep cz), atp_atp, mrot_z_inv by assumption. reflexivity.
  Qed.

  (* ---------------------------------------------------------------- *)
  (* B3: primitive shapes                                              *)
  (* ---------------------------------------------------------------- *)
  Theorem circle_sem rad cx cy r : indep rad ->
    D (s_circle RD rad (V2 cx cy)) r =
    sqrt ((ex r - D cx r) ^ 2 + (ey r - D cy r) ^ 2) - D rad r.
  Proof.
    intros. unfold s_circle, s_move; sden; ind. f_equal. f_equal. ring.
  Qed.
  Theorem circle_inside rad cx cy r : indep rad -> 0 <= D rad r ->
    (inside (s_circle RD rad (V2 cx cy)) r <->
     (ex r - D cx r) ^ 2 + (ey r - D cy r) ^ 2 < (D rad r) ^ 2).
  Proof.
    intros Hi Hr. unfold inside. rewrite circle_sem by assumption.
    set (u := (ex r - D cx r) ^ 2 + (ey r - D cy r) ^ 2).
    assert (0 <= u) by (unfold u; repeat apply Rplus_le_le_0_compat; apply pow2_ge_0).
    pose proof (sqrt_lt_sq u (D rad r) H Hr). lra.
  Qed.

  (* the sign hypothesis on the radius cannot be dropped: radius -1, centre 0, at the origin *)
  Lemma circle_inside_negative_radius_refuted :
    ~ (forall rad cx cy r, indep rad ->
         (inside (s_circle RD rad (V2 cx cy)) r <->
          (ex r - D cx r) ^ 2 + (ey r - D cy r) ^ 2 < (D rad r) ^ 2)).
  Proof.
    intros H.
    specialize (H (SC (-1)) (SC 0) (SC 0) {| ex := 0; ey := 0; ez := 0; ev := fun _ => 0 |}
                  (indep_SC (-1))).
    unfold inside in H. rewrite circle_sem in H by apply indep_SC.
    cbn [denote ex ey] in H. destruct H as [_ H].
    match type of H with _ -> sqrt ?u - _ < 0 => pose proof (sqrt_pos u) end.
    assert ((0 - 0) ^ 2 + (0 - 0) ^ 2 < (-1) ^ 2) by lra. specialize (H H1). lra.
  Qed.

  Theorem sphere_sem rad cx cy cz r : indep rad ->
    D (s_sphere rad (V3 cx cy cz)) r =
    sqrt ((ex r - D cx r) ^ 2 + (ey r - D cy r) ^ 2 + (ez r - D cz r) ^ 2) - D rad r.
  Proof.
    intros. unfold s_sphere, s_move; sden; ind. f_equal. f_equal. ring.
  Qed.
  Theorem sphere_inside rad cx cy cz r : indep rad -> 0 <= D rad r ->
    (inside (s_sphere rad (V3 cx cy cz)) r <->
     (ex r - D cx r) ^ 2 + (ey r - D cy r) ^ 2 + (ez r - D cz r) ^ 2 < (D rad r) ^ 2).
  Proof.
    intros Hi Hr. unfold inside. rewrite sphere_sem by assumption.
    set (u := (ex r - D cx r) ^ 2 + (ey r - D cy r) ^ 2 + (ez r - D cz r) ^ 2).
    assert (0 <= u) by (unfold u; repeat apply Rplus_le_le_0_compat; apply pow2_ge_0).
    pose proof (sqrt_lt_sq u (D rad r) H Hr). lra.
  Qed.

  Theorem rectangle_inside a1 a2 b1 b2 r :
    inside (s_rectangle (V2 a1 a2) (V2 b1 b2)) r <->
    D a1 r < ex r < D b1 r /\ D a2 r < ey r < D b2 r.
  Proof. unfold inside, s_rectangle; sden. rewrite !Rmax_lt_iff. lra. Qed.

  Theorem extrude_z_inside t zmin zmax r :
    inside (s_extrude_z t zmin zmax) r <-> inside t r /\ D zmin r < ez r < D zmax r.
  Proof. unfold inside, s_extrude_z; sden. rewrite !Rmax_lt_iff. lra. Qed.

  Theorem box_mitered_inside a1 a2 a3 b1 b2 b3 r :
    inside (s_box_mitered (V3 a1 a2 a3) (V3 b1 b2 b3)) r <->
    D a1 r < ex r < D b1 r /\ D a2 r < ey r < D b2 r /\ D a3 r < ez r < D b3 r.
  Proof.
    unfold s_box_mitered; cbn [v3x v3y v3z]. rewrite extrude_z_inside, rectangle_inside. tauto.
  Qed.

  Theorem box_mitered_centered_inside s1 s2 s3 c1 c2 c3 r :
    inside (s_box_mitered_centered RD (V3 s1 s2 s3) (V3 c1 c2 c3)) r <->
    Rabs (ex r - D c1 r) < D s1 r / 2 /\ Rabs (ey r - D c2 r) < D s2 r / 2 /\
    Rabs (ez r - D c3 r) < D s3 r / 2.
  Proof.
    unfold s_box_mitered_centered, s_op_sub_V3_V3, s_op_add_V3_V3, s_op_div_V3_T; cbn [v3x v3y v3z].
    rewrite box_mitered_inside; sden. rewrite !Rabs_lt_iff. lra.
  Qed.

  Theorem cylinder_z_inside rad h b1 b2 b3 r : indep rad -> 0 <= D rad r ->
    (inside (s_cylinder_z RD rad h (V3 b1 b2 b3)) r <->
     (ex r - D b1 r) ^ 2 + (ey r - D b2 r) ^ 2 < (D rad r) ^ 2 /\
     D b3 r < ez r < D b3 r + D h r).
  Proof.
    intros. unfold s_cylinder_z; cbn [v3x v3y v3z].
    rewrite extrude_z_inside, circle_inside by assumption. sden. tauto.
  Qed.

  Theorem half_space_sem n1 n2 n3 p1 p2 p3 r :
    D (s_half_space (V3 n1 n2 n3) (V3 p1 p2 p3)) r =
    (ex r - D p1 r) * D n1 r + (ey r - D p2 r) * D n2 r + (ez r - D p3 r) * D n3 r.
  Proof. reflexivity. Qed.
  Corollary half_space_inside n1 n2 n3 p1 p2 p3 r :
    inside (s_half_space (V3 n1 n2 n3) (V3 p1 p2 p3)) r <->
    (ex r - D p1 r) * D n1 r + (ey r - D p2 r) * D n2 r + (ez r - D p3 r) * D n3 r < 0.
  Proof. unfold inside; rewrite half_space_sem; tauto. Qed.

  Theorem torus_z_sem ro ri c1 c2 c3 r : indep ro -> indep ri ->
    D (s_torus_z ro ri (V3 c1 c2 c3)) r =
    sqrt ((D ro r - sqrt ((ex r - D c1 r) ^ 2 + (ey r - D c2 r) ^ 2)) ^ 2 + (ez r - D c3 r) ^ 2)
    - D ri r.
  Proof.
    intros. unfold s_torus_z, s_move; sden; ind. f_equal. f_equal.
    replace ((ex r - D c1 r) ^ 2 + (ey r - D c2 r) ^ 2)
      with ((ex r - D c1 r) * (ex r - D c1 r) + (ey r - D c2 r) * (ey r - D c2 r)) by ring.
    ring.
  Qed.
  Theorem torus_z_inside ro ri c1 c2 c3 r : indep ro -> indep ri -> 0 <= D ri r ->
    (inside (s_torus_z ro ri (V3 c1 c2 c3)) r <->
     (D ro r - sqrt ((ex r - D c1 r) ^ 2 + (ey r - D c2 r) ^ 2)) ^ 2 + (ez r - D c3 r) ^ 2
       < (D ri r) ^ 2).
  Proof.
    intros Ho Hi Hr. unfold inside. rewrite torus_z_sem by assumption.
    set (u := (D ro r - sqrt ((ex r - D c1 r) ^ 2 + (ey r - D c2 r) ^ 2)) ^ 2 + (ez r - D c3 r) ^ 2).
    assert (0 <= u) by (unfold u; repeat apply Rplus_le_le_0_compat; apply pow2_ge_0).
    pose proof (sqrt_lt_sq u (D ri r) H Hr). lra.
  Qed.

  Theorem cone_ang_z_sem ang h b1 b2 b3 r : indep ang -> indep h ->
    D (s_cone_ang_z ang h (V3 b1 b2 b3)) r =
    Rmax (- (ez r - D b3 r))
         (cos (D ang r) * sqrt ((ex r - D b1 r) ^ 2 + (ey r - D b2 r) ^ 2)
          + sin (D ang r) * ((ez r - D b3 r) - D h r)).
  Proof.
    intros. unfold s_cone_ang_z, s_move; sden; ind. f_equal. f_equal. f_equal. f_equal. ring.
  Qed.
  Theorem cone_ang_z_inside ang h b1 b2 b3 r : indep ang -> indep h -> 0 < cos (D ang r) ->
    (inside (s_cone_ang_z ang h (V3 b1 b2 b3)) r <->
     D b3 r < ez r /\
     sqrt ((ex r - D b1 r) ^ 2 + (ey r - D b2 r) ^ 2)
       < tan (D ang r) * (D h r - (ez r - D b3 r))).
  Proof.
    intros Ha Hh Hc. unfold inside. rewrite cone_ang_z_sem by assumption.
    rewrite Rmax_lt_iff. unfold tan.
    set (rho := sqrt ((ex r - D b1 r) ^ 2 + (ey r - D b2 r) ^ 2)).
    set (w := D h r - (ez r - D b3 r)).
    replace (ez r - D b3 r - D h r) with (- w) by (unfold w; ring).
    set (k := sin (D ang r) / cos (D ang r) * w).
    assert (E : k * cos (D ang r) = sin (D ang r) * w) by (unfold k; field; lra).
    generalize dependent (cos (D ang r)). generalize dependent (sin (D ang r)). intros si k co Hc E.
    split; intros [H1 H2]; (split; [lra|nra]).
  Qed.

  Theorem cone_z_inside radius height b1 b2 b3 r : indep radius -> indep height -> 0 < D height r ->
    (inside (s_cone_z radius height (V3 b1 b2 b3)) r <->
     D b3 r < ez r /\
     sqrt ((ex r - D b1 r) ^ 2 + (ey r - D b2 r) ^ 2)
       < D radius r * (1 - (ez r - D b3 r) / D height r)).
  Proof.
    intros Hr Hh Hp. unfold s_cone_z.
    assert (Ea : D (SB OP_ATAN2 radius height) r = atan (D radius r / D height r)).
    { cbn [denote o_bin RD RD_bin]. unfold Ratan2. destruct (Rlt_dec 0 (D height r)); [reflexivity|contradiction]. }
    rewrite cone_ang_z_inside; [| apply indep_SB; assumption | assumption |].
    - rewrite Ea, tan_atan.
      replace (D radius r / D height r * (D height r - (ez r - D b3 r)))
        with (D radius r * (1 - (ez r - D b3 r) / D height r)) by (field; lra).
      tauto.
    - rewrite Ea. pose proof (atan_bound (D radius r / D height r)). apply cos_gt_0; lra.
  Qed.

  (* the hypothesis 0 < height cannot be dropped: radius 1, height -1, base 0, point (0,0,1):
     atan2 1 (-1) = 3 PI / 4 has negative cosine and the cone opens the other way *)
  Lemma cone_z_negative_height_refuted :
    ~ (forall radius height b1 b2 b3 r, indep radius -> indep height ->
         (inside (s_cone_z radius height (V3 b1 b2 b3)) r <->
          D b3 r < ez r /\
          sqrt ((ex r - D b1 r) ^ 2 + (ey r - D b2 r) ^ 2)
            < D radius r * (1 - (ez r - D b3 r) / D height r))).
  Proof.
    intros H.
    specialize (H (SC 1) (SC (-1)) (SC 0) (SC 0) (SC 0) {| ex := 0; ey := 0; ez := 1; ev := fun _ => 0 |}
                  (indep_SC 1) (indep_SC (-1))).
    unfold inside, s_cone_z in H.
    rewrite cone_ang_z_sem in H by (try apply indep_SB; apply indep_SC).
    cbn [denote ex ey ez o_bin RD RD_bin] in H. destruct H as [_ H].
    assert (Ea : Ratan2 1 (-1) = atan (-1) + PI).
    { unfold Ratan2. destruct (Rlt_dec 0 (-1)); [lra|]. destruct (Rlt_dec (-1) 0); [|lra].
      destruct (Rle_dec 0 1); [|lra]. f_equal. f_equal. field. }
    rewrite Ea in H.
    replace ((0 - 0) ^ 2 + (0 - 0) ^ 2) with 0 in H by ring. rewrite sqrt_0 in H.
    assert (Hs : 0 < sin (atan (-1) + PI)).
    { pose proof (atan_bound (-1)) as B. pose proof PI_RGT_0.
      assert (atan (-1) < 0) by (rewrite <- atan_0; apply atan_increasing; lra).
      apply sin_gt_0; lra. }
    assert (P : 0 < 1 /\ 0 < 1 * (1 - (1 - 0) / -1)) by (split; [lra|]; replace ((1 - 0) / -1) with (-1) by field; lra).
    specialize (H P). rewrite Rmax_lt_iff in H. destruct H as [_ H]. nra.
  Qed.

  (* exact boxes: the common real function *)
  Definition boxfield (dx dy dz : R) : R :=
    Rmin 0 (Rmax dx (Rmax dy dz))
    + sqrt (Rmax dx 0 * Rmax dx 0 + Rmax dy 0 * Rmax dy 0 + Rmax dz 0 * Rmax dz 0).
  Definition rectfield (dx dy : R) : R :=
    Rmin (Rmax dx dy) 0 + sqrt (Rmax dx 0 * Rmax dx 0 + Rmax dy 0 * Rmax dy 0).

  Lemma boxfield_neg dx dy dz : boxfield dx dy dz < 0 <-> dx < 0 /\ dy < 0 /\ dz < 0.
  Proof.
    unfold boxfield. split.
    - intros H.
      destruct (Rlt_dec dx 0) as [Hx|Hx]; [destruct (Rlt_dec dy 0) as [Hy|Hy];
        [destruct (Rlt_dec dz 0) as [Hz|Hz]; [tauto|]|]|]; exfalso;
      (match type of H with _ + sqrt ?u < 0 => pose proof (sqrt_pos u) as Hs end);
      (assert (0 <= Rmin 0 (Rmax dx (Rmax dy dz))); [|lra]);
      unfold Rmin, Rmax; repeat destruct (Rle_dec _ _); lra.
    - intros (Hx & Hy & Hz).
      rewrite (Rmax_right dx 0), (Rmax_right dy 0), (Rmax_right dz 0) by lra.
      replace (0 * 0 + 0 * 0 + 0 * 0) with 0 by ring. rewrite sqrt_0.
      unfold Rmin, Rmax; repeat destruct (Rle_dec _ _); lra.
  Qed.
  Lemma rectfield_neg dx dy : rectfield dx dy < 0 <-> dx < 0 /\ dy < 0.
  Proof.
    unfold rectfield. split.
    - intros H.
      destruct (Rlt_dec dx 0) as [Hx|Hx]; [destruct (Rlt_dec dy 0) as [Hy|Hy]; [tauto|]|]; exfalso;
      (match type of H with _ + sqrt ?u < 0 => pose proof (sqrt_pos u) as Hs end);
      (assert (0 <= Rmin (Rmax dx dy) 0); [|lra]);
      unfold Rmin, Rmax; repeat destruct (Rle_dec _ _); lra.
    - intros (Hx & Hy).
      rewrite (Rmax_right dx 0), (Rmax_right dy 0) by lra.
      replace (0 * 0 + 0 * 0) with 0 by ring. rewrite sqrt_0.
      unfold Rmin, Rmax; repeat destruct (Rle_dec _ _); lra.
  Qed.

  Theorem box_exact_centered_sem s1 s2 s3 c1 c2 c3 r :
    D (s_box_exact_centered RD (V3 s1 s2 s3) (V3 c1 c2 c3)) r =
    boxfield (Rabs (ex r - D c1 r) - D s1 r / 2) (Rabs (ey r - D c2 r) - D s2 r / 2)
             (Rabs (ez r - D c3 r) - D s3 r / 2).
  Proof.
    unfold s_box_exact_centered, boxfield; sden. replace (1 + 1) with 2 by lra. reflexivity.
  Qed.
  Theorem box_exact_centered_inside s1 s2 s3 c1 c2 c3 r :
    inside (s_box_exact_centered RD (V3 s1 s2 s3) (V3 c1 c2 c3)) r <->
    Rabs (ex r - D c1 r) < D s1 r / 2 /\ Rabs (ey r - D c2 r) < D s2 r / 2 /\
    Rabs (ez r - D c3 r) < D s3 r / 2.
  Proof. unfold inside. rewrite box_exact_centered_sem, boxfield_neg. lra. Qed.

  Theorem box_exact_sem a1 a2 a3 b1 b2 b3 r :
    D (s_box_exact RD (V3 a1 a2 a3) (V3 b1 b2 b3)) r =
    boxfield (Rabs (ex r - (D a1 r + D b1 r) / 2) - (D b1 r - D a1 r) / 2)
             (Rabs (ey r - (D a2 r + D b2 r) / 2) - (D b2 r - D a2 r) / 2)
             (Rabs (ez r - (D a3 r + D b3 r) / 2) - (D b3 r - D a3 r) / 2).
  Proof.
    unfold s_box_exact, s_op_sub_V3_V3, s_op_add_V3_V3, s_op_div_V3_T; cbn [v3x v3y v3z].
    rewrite box_exact_centered_sem; sden. replace (1 + 1) with 2 by lra. reflexivity.
  Qed.
  Theorem box_exact_inside a1 a2 a3 b1 b2 b3 r :
    inside (s_box_exact RD (V3 a1 a2 a3) (V3 b1 b2 b3)) r <->
    D a1 r < ex r < D b1 r /\ D a2 r < ey r < D b2 r /\ D a3 r < ez r < D b3 r.
  Proof. unfold inside. rewrite box_exact_sem, boxfield_neg, !Rabs_sub_lt_iff. lra. Qed.

  Theorem rectangle_centered_exact_sem s1 s2 c1 c2 r : indep s1 -> indep s2 ->
    D (s_rectangle_centered_exact RD (V2 s1 s2) (V2 c1 c2)) r =
    rectfield (Rabs (ex r - D c1 r) - D s1 r / 2) (Rabs (ey r - D c2 r) - D s2 r / 2).
  Proof.
    intros. unfold s_rectangle_centered_exact, s_move, rectfield; sden; ind.
    replace (1 + 1) with 2 by lra. reflexivity.
  Qed.
  Theorem rectangle_centered_exact_inside s1 s2 c1 c2 r : indep s1 -> indep s2 ->
    (inside (s_rectangle_centered_exact RD (V2 s1 s2) (V2 c1 c2)) r <->
     Rabs (ex r - D c1 r) < D s1 r / 2 /\ Rabs (ey r - D c2 r) < D s2 r / 2).
  Proof. intros. unfold inside. rewrite rectangle_centered_exact_sem, rectfield_neg by assumption. lra. Qed.

  Theorem rectangle_exact_sem a1 a2 b1 b2 r : indep a1 -> indep a2 -> indep b1 -> indep b2 ->
    D (s_rectangle_exact RD (V2 a1 a2) (V2 b1 b2)) r =
    rectfield (Rabs (ex r - (D a1 r + D b1 r) / 2) - (D b1 r - D a1 r) / 2)
              (Rabs (ey r - (D a2 r + D b2 r) / 2) - (D b2 r - D a2 r) / 2).
  Proof.
    intros. unfold s_rectangle_exact, s_op_sub_V2_V2, s_op_add_V2_V2, s_op_div_V2_T; cbn [v2x v2y].
    rewrite rectangle_centered_exact_sem by (apply indep_SB; assumption).
    sden. replace (1 + 1) with 2 by lra. reflexivity.
  Qed.
  Theorem rectangle_exact_inside a1 a2 b1 b2 r : indep a1 -> indep a2 -> indep b1 -> indep b2 ->
    (inside (s_rectangle_exact RD (V2 a1 a2) (V2 b1 b2)) r <->
     D a1 r < ex r < D b1 r /\ D a2 r < ey r < D b2 r).
  Proof.
    intros. unfold inside. rewrite rectangle_exact_sem, rectfield_neg, !Rabs_sub_lt_iff by assumption. lra.
  Qed.
End StdR.
