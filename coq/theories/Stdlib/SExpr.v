(* The vocabulary in which translate/gen_stdlib.py re-states
   libfive/stdlib/stdlib_impl.cpp: a C++ function taking and returning Trees
   becomes a Coq function taking and returning [sx] terms.

     SH i          an already-built Tree handle (arena id)
     SX SY SZ      Tree::X() Tree::Y() Tree::Z()
     SC c          Tree(float) (implicit conversion of a C++ literal)
     SU op e       Tree::unary(op, e)        (-e, sqrt(e), abs(e), ...)
     SB op a b     Tree::binary(op, a, b)    (a + b, min(a, b), ...)
     SR t x y z    t.remap(x, y, z)

   [build] runs the term through the constructors of Tree/Build.v (the same
   ones C07 ties to tree.cpp), [denote] is its meaning at an environment. *)
From Coq Require Import List Arith.
From LF Require Import Base.Opcode Base.Num Base.Arena Base.Sem Tree.Build.
Import ListNotations.

Section SExpr.
  Context {num : Type}.
  Notation arena := (arena num).
  Notation env := (@env num).

  Inductive sx : Type :=
  | SH (i : nat)
  | SX | SY | SZ
  | SC (c : num)
  | SU (op : opcode) (e : sx)
  | SB (op : opcode) (a b : sx)
  | SR (t x y z : sx).

  Record vec2 := V2 { v2x : sx; v2y : sx }.
  Record vec3 := V3 { v3x : sx; v3y : sx; v3z : sx }.

  Variable O : ops num.

  (* integer literals of the C++ source: 0, 1, 2, ... as repeated sums of one *)
  Fixpoint o_ofnat (n : nat) : num :=
    match n with
    | 0 => o_zero O
    | 1 => o_one O
    | S m => o_add O (o_ofnat m) (o_one O)
    end.

  Variable osem : nat -> num -> num -> num -> num.

  (* meaning; handles are read from the arena [a] *)
  Fixpoint denote (a : arena) (e : sx) (r : env) : num :=
    match e with
    | SH i => val O osem a i r
    | SX => ex r | SY => ey r | SZ => ez r
    | SC c => c
    | SU op e1 => o_un O op (denote a e1 r)
    | SB op e1 e2 => o_bin O op (denote a e1 r) (denote a e2 r)
    | SR t x y z => denote a t (upd_xyz r (denote a x r) (denote a y r) (denote a z r))
    end.

  (* construction, operands first (C++ evaluates arguments before the call;
     the order among them is unspecified and invisible in the resulting DAG) *)
  Fixpoint build (e : sx) (a : arena) : arena * nat :=
    match e with
    | SH i => (a, i)
    | SX => mk_nullary a VAR_X
    | SY => mk_nullary a VAR_Y
    | SZ => mk_nullary a VAR_Z
    | SC c => mk_const a c
    | SU op e1 => let '(a1, i1) := build e1 a in mk_unary O a1 op i1
    | SB op e1 e2 =>
        let '(a1, i1) := build e1 a in
        let '(a2, i2) := build e2 a1 in
        mk_bin O a2 op i1 i2
    | SR t x y z =>
        let '(a0, it) := build t a in
        let '(a1, ix) := build x a0 in
        let '(a2, iy) := build y a1 in
        let '(a3, iz) := build z a2 in
        mk_remap a3 it ix iy iz
    end.

  (* every handle mentioned is a live node of the arena *)
  Fixpoint handles_ok (n : nat) (e : sx) : Prop :=
    match e with
    | SH i => i < n
    | SX | SY | SZ | SC _ => True
    | SU op e1 => args op = Some 1 /\ handles_ok n e1
    | SB op e1 e2 => args op = Some 2 /\ handles_ok n e1 /\ handles_ok n e2
    | SR t x y z => handles_ok n t /\ handles_ok n x /\ handles_ok n y /\ handles_ok n z
    end.
End SExpr.
Arguments sx : clear implicits.
Arguments vec2 : clear implicits.
Arguments vec3 : clear implicits.
