(* B4: the exact variants of the generated standard library are Euclidean signed distance
   fields.  Continues StdSem.v (same conventions: D, inside, indep, pos r, pt, dist2).

   Pure geometry
     rcases (Ltac), Rabs_cases Rmax_cases Rmin_cases    case-split automation
     clamp, coord_far, coord_near, coord_escape          one coordinate of a box
     in_open_box c h p / in_closed_box c h p             |p_i - c_i| < h_i   /   <= h_i
     exc c h p := |p - c| - h                            per-axis excess
     bdist c h p := boxfield (exc ..x) (exc ..y) (exc ..z)
     bdist_outside   0 <= h_i, p not in the open box ->
                       0 <= bdist /\ (exists q in the closed box, dist2 p q = bdist^2)
                       /\ (forall q in the closed box, bdist^2 <= dist2 p q)
                     i.e. bdist is the Euclidean distance from p to the closed box
     bdist_inside    p in the open box ->
                       bdist = max of the three excesses = - (min of the six face distances) < 0
                       /\ (forall q not in the open box, bdist^2 <= dist2 p q)
                       /\ (exists q on the boundary, dist2 p q = bdist^2)
                     i.e. bdist is minus the distance from p to the complement
     dist p q := sqrt (dist2 p q);  cs3 (Cauchy-Schwarz), tri3, dist_triangle (triangle inequality)
     sphere_dist_lower      dist q c = rad -> |dist p c - rad| <= dist p q
     sphere_dist_attained   0 <= rad -> exists q, dist q c = rad /\ dist p q = |dist p c - rad|
     sphere_dist2_lower     squared form
     pt2, dist2_2, in_open_rect, in_closed_rect, rdist, rdist_outside, rdist_inside   2D analogue

   Shapes (Section StdGeomR)
     box_exact_centered_dist       D (s_box_exact_centered RD size c) r = bdist c' (size'/2) (pos r)
     box_exact_centered_outside    0 <= size' -> ~ inside -> distance to the closed box (as above)
     box_exact_centered_inside_dist  inside -> D = max excess = - min face distance, distance to
                                   the complement, attained on the boundary
     box_exact_dist, box_exact_outside (a' <= b'), box_exact_inside_dist   same for the corner form
     sphere_dist_sem               D (s_sphere rad c) r = dist (pos r) c' - rad'
     sphere_exact_lower            every point q of the sphere has dist (pos r) q >= |D|
     sphere_exact_attained         0 <= rad' -> some point of the sphere attains |D|
     rectangle_centered_exact_dist, rectangle_exact_dist, rectangle_centered_exact_outside,
     rectangle_centered_exact_inside_dist      2D (optional part, done for the centered form;
                                   rectangle_exact is reduced to rdist by rectangle_exact_dist, to
                                   which rdist_outside / rdist_inside apply directly)
   Nothing in B4 is left partial. *)
From Coq Require Import Reals Lra Lia List Bool Arith Psatz.
From LF Require Import Base.Opcode Base.Num Base.Arena Base.Sem Tree.Build Tree.BuildSem
  Stdlib.SExpr Gen.Stdlib_gen Eval.DerivSem Stdlib.StdSem.
Local Open Scope R_scope.

Lemma Rabs_cases x : (x < 0 /\ Rabs x = - x) \/ (0 <= x /\ Rabs x = x).
Proof. unfold Rabs; destruct (Rcase_abs x); lra. Qed.
Lemma Rmax_cases x y : (x <= y /\ Rmax x y = y) \/ (y < x /\ Rmax x y = x).
Proof. unfold Rmax; destruct (Rle_dec x y); lra. Qed.
Lemma Rmin_cases x y : (x <= y /\ Rmin x y = x) \/ (y < x /\ Rmin x y = y).
Proof. unfold Rmin; destruct (Rle_dec x y); lra. Qed.
(* abstract every Rabs / Rmax / Rmin of the goal by a variable constrained by its case split *)
Ltac rabstract :=
  repeat match goal with
  | |- context [Rabs ?x] => generalize (Rabs_cases x); generalize (Rabs x); intro
  | |- context [Rmax ?x ?y] => generalize (Rmax_cases x y); generalize (Rmax x y); intro
  | |- context [Rmin ?x ?y] => generalize (Rmin_cases x y); generalize (Rmin x y); intro
  end.
Ltac rcases tac :=
  rabstract; intros;
  repeat match goal with H : _ \/ _ |- _ => destruct H end;
  repeat match goal with H : _ /\ _ |- _ => destruct H end; subst; tac.

(* ------------------------------------------------------------------ *)
(* one coordinate of a box                                             *)
(* ------------------------------------------------------------------ *)
Definition clamp (p c h : R) : R := Rmax (c - h) (Rmin p (c + h)).

Lemma coord_far p c h q : 0 <= h -> Rabs (q - c) <= h ->
  Rmax (Rabs (p - c) - h) 0 * Rmax (Rabs (p - c) - h) 0 <= (p - q) * (p - q).
Proof.
  pose proof (Rle_0_sqr (p - q)) as Hs. unfold Rsqr in Hs. rcases nra.
Qed.

Lemma coord_near p c h : 0 <= h ->
  Rabs (clamp p c h - c) <= h /\
  (p - clamp p c h) * (p - clamp p c h) = Rmax (Rabs (p - c) - h) 0 * Rmax (Rabs (p - c) - h) 0.
Proof. unfold clamp. rcases ltac:(split; nra). Qed.

(* coordinate strictly inside, some other point not strictly inside *)
Lemma coord_escape p c h q : Rabs (p - c) < h -> h <= Rabs (q - c) ->
  (Rabs (p - c) - h) * (Rabs (p - c) - h) <= (p - q) * (p - q).
Proof. rcases nra. Qed.

(* ------------------------------------------------------------------ *)
(* boxes in R^3                                                        *)
(* ------------------------------------------------------------------ *)
Definition in_open_box (c h p : pt) : Prop :=
  Rabs (px p - px c) < px h /\ Rabs (py p - py c) < py h /\ Rabs (pz p - pz c) < pz h.
Definition in_closed_box (c h p : pt) : Prop :=
  Rabs (px p - px c) <= px h /\ Rabs (py p - py c) <= py h /\ Rabs (pz p - pz c) <= pz h.
(* signed per-axis excess *)
Definition exc (c h p : R) : R := Rabs (p - c) - h.
Definition bdist (c h p : pt) : R :=
  boxfield (exc (px c) (px h) (px p)) (exc (py c) (py h) (py p)) (exc (pz c) (pz h) (pz p)).

Lemma in_open_box_exc c h p :
  in_open_box c h p <->
  exc (px c) (px h) (px p) < 0 /\ exc (py c) (py h) (py p) < 0 /\ exc (pz c) (pz h) (pz p) < 0.
Proof. unfold in_open_box, exc. lra. Qed.

Lemma boxfield_inside_val dx dy dz : dx < 0 -> dy < 0 -> dz < 0 ->
  boxfield dx dy dz = Rmax dx (Rmax dy dz).
Proof.
  intros Hx Hy Hz. unfold boxfield.
  rewrite (Rmax_right dx 0), (Rmax_right dy 0), (Rmax_right dz 0) by lra.
  replace (0 * 0 + 0 * 0 + 0 * 0) with 0 by ring. rewrite sqrt_0.
  unfold Rmin, Rmax; repeat destruct (Rle_dec _ _); lra.
Qed.

Lemma boxfield_outside_val dx dy dz : ~ (dx < 0 /\ dy < 0 /\ dz < 0) ->
  boxfield dx dy dz = sqrt (Rmax dx 0 * Rmax dx 0 + Rmax dy 0 * Rmax dy 0 + Rmax dz 0 * Rmax dz 0).
Proof.
  intros H. unfold boxfield.
  assert (E : Rmin 0 (Rmax dx (Rmax dy dz)) = 0); [|rewrite E; ring].
  unfold Rmin, Rmax; repeat destruct (Rle_dec _ _); lra.
Qed.

Lemma sumsq_nonneg x y z : 0 <= x * x + y * y + z * z.
Proof. nra. Qed.

(* OUTSIDE (or on the boundary): the value is the Euclidean distance to the closed box *)
Theorem bdist_outside c h p : 0 <= px h -> 0 <= py h -> 0 <= pz h -> ~ in_open_box c h p ->
  0 <= bdist c h p /\
  (exists q, in_closed_box c h q /\ dist2 p q = bdist c h p * bdist c h p) /\
  (forall q, in_closed_box c h q -> bdist c h p * bdist c h p <= dist2 p q).
Proof.
  intros Hx Hy Hz Hout. rewrite in_open_box_exc in Hout. unfold bdist.
  rewrite boxfield_outside_val by exact Hout.
  split; [apply sqrt_pos|]. rewrite sqrt_sqrt by apply sumsq_nonneg. unfold exc.
  split.
  - exists (clamp (px p) (px c) (px h), clamp (py p) (py c) (py h), clamp (pz p) (pz c) (pz h)).
    destruct (coord_near (px p) (px c) (px h) Hx) as [Bx Ex].
    destruct (coord_near (py p) (py c) (py h) Hy) as [By Ey].
    destruct (coord_near (pz p) (pz c) (pz h) Hz) as [Bz Ez].
    unfold in_closed_box, dist2, px, py, pz in *; cbn [fst snd] in *.
    split; [tauto|]. rewrite Ex, Ey, Ez. reflexivity.
  - intros q (Qx & Qy & Qz). unfold dist2.
    pose proof (coord_far (px p) (px c) (px h) (px q) Hx Qx).
    pose proof (coord_far (py p) (py c) (py h) (py q) Hy Qy).
    pose proof (coord_far (pz p) (pz c) (pz h) (pz q) Hz Qz). lra.
Qed.

(* the six face distances of a point of the box *)
Lemma face_min u h : Rmin (h - u) (h + u) = h - Rabs u.
Proof. unfold Rmin, Rabs; destruct (Rle_dec _ _), (Rcase_abs u); lra. Qed.

(* INSIDE: the value is minus the distance to the nearest face = minus the distance to the
   complement of the open box *)
Theorem bdist_inside c h p : in_open_box c h p ->
  bdist c h p = Rmax (exc (px c) (px h) (px p)) (Rmax (exc (py c) (py h) (py p)) (exc (pz c) (pz h) (pz p))) /\
  bdist c h p = - Rmin (Rmin (px h - (px p - px c)) (px h + (px p - px c)))
                   (Rmin (Rmin (py h - (py p - py c)) (py h + (py p - py c)))
                         (Rmin (pz h - (pz p - pz c)) (pz h + (pz p - pz c)))) /\
  bdist c h p < 0 /\
  (forall q, ~ in_open_box c h q -> bdist c h p * bdist c h p <= dist2 p q) /\
  (exists q, in_closed_box c h q /\ ~ in_open_box c h q /\ dist2 p q = bdist c h p * bdist c h p).
Proof.
  intros Hin. pose proof Hin as Hin'. rewrite in_open_box_exc in Hin'. destruct Hin' as (Hx & Hy & Hz).
  assert (Ev : bdist c h p = Rmax (exc (px c) (px h) (px p))
                 (Rmax (exc (py c) (py h) (py p)) (exc (pz c) (pz h) (pz p))))
    by (unfold bdist; apply boxfield_inside_val; assumption).
  split; [exact Ev|]. split.
  { rewrite Ev, !face_min. unfold exc, Rmax, Rmin. repeat destruct (Rle_dec _ _); lra. }
  split.
  { rewrite Ev. unfold Rmax; repeat destruct (Rle_dec _ _); lra. }
  rewrite Ev. destruct Hin as (Ix & Iy & Iz). split.
  - intros q Hq. unfold in_open_box in Hq.
    assert (Hq' : px h <= Rabs (px q - px c) \/ py h <= Rabs (py q - py c) \/ pz h <= Rabs (pz q - pz c)) by lra.
    unfold dist2.
    pose proof (Rle_0_sqr (px p - px q)) as Sx. pose proof (Rle_0_sqr (py p - py q)) as Sy.
    pose proof (Rle_0_sqr (pz p - pz q)) as Sz. unfold Rsqr in *.
    destruct Hq' as [Q|[Q|Q]].
    + pose proof (coord_escape _ _ _ _ Ix Q) as E. fold (exc (px c) (px h) (px p)) in E.
      unfold Rmax; repeat destruct (Rle_dec _ _); nra.
    + pose proof (coord_escape _ _ _ _ Iy Q) as E. fold (exc (py c) (py h) (py p)) in E.
      unfold Rmax; repeat destruct (Rle_dec _ _); nra.
    + pose proof (coord_escape _ _ _ _ Iz Q) as E. fold (exc (pz c) (pz h) (pz p)) in E.
      unfold Rmax; repeat destruct (Rle_dec _ _); nra.
  - (* push the coordinate of largest excess onto its nearer face *)
    set (face := fun (pc cc hh : R) => if Rle_dec cc pc then cc + hh else cc - hh).
    assert (Hface : forall pc cc hh, Rabs (pc - cc) < hh ->
               Rabs (face pc cc hh - cc) = hh /\
               (pc - face pc cc hh) * (pc - face pc cc hh) = exc cc hh pc * exc cc hh pc).
    { intros pc cc hh. unfold face, exc, Rabs.
      destruct (Rle_dec cc pc), (Rcase_abs (pc - cc)); intros;
        repeat match goal with |- context [Rcase_abs ?x] => destruct (Rcase_abs x) end; split; nra. }
    destruct (Hface _ _ _ Ix) as [Fx Gx], (Hface _ _ _ Iy) as [Fy Gy], (Hface _ _ _ Iz) as [Fz Gz].
    clear Hface. clear Ev.
    destruct p as [[x y] z], c as [[cx cy] cz], h as [[hx hy] hz].
    unfold in_closed_box, in_open_box, dist2, px, py, pz in *; cbn [fst snd] in *.
    set (M := Rmax (exc cx hx x) (Rmax (exc cy hy y) (exc cz hz z))).
    assert (HM : M = exc cx hx x \/ M = exc cy hy y \/ M = exc cz hz z)
      by (unfold M, Rmax; repeat destruct (Rle_dec _ _); auto).
    destruct HM as [HM|[HM|HM]]; rewrite HM.
    + exists (face x cx hx, y, z); cbn [fst snd].
      split; [lra|]. split; [lra|]. rewrite <- Gx. ring.
    + exists (x, face y cy hy, z); cbn [fst snd].
      split; [lra|]. split; [lra|]. rewrite <- Gy. ring.
    + exists (x, y, face z cz hz); cbn [fst snd].
      split; [lra|]. split; [lra|]. rewrite <- Gz. ring.
Qed.

(* ------------------------------------------------------------------ *)
(* Euclidean distance in R^3, triangle inequality                      *)
(* ------------------------------------------------------------------ *)
Definition dist (p q : pt) : R := sqrt (dist2 p q).

Lemma dist2_nonneg p q : 0 <= dist2 p q.
Proof. unfold dist2. apply sumsq_nonneg. Qed.
Lemma dist2_sym p q : dist2 p q = dist2 q p.
Proof. unfold dist2; ring. Qed.
Lemma dist_sym p q : dist p q = dist q p.
Proof. unfold dist; rewrite dist2_sym; reflexivity. Qed.
Lemma dist_nonneg p q : 0 <= dist p q.
Proof. apply sqrt_pos. Qed.
Lemma dist_sqr p q : dist p q * dist p q = dist2 p q.
Proof. apply sqrt_sqrt, dist2_nonneg. Qed.

(* Cauchy-Schwarz *)
Lemma cs3 a1 a2 a3 b1 b2 b3 :
  a1 * b1 + a2 * b2 + a3 * b3
  <= sqrt (a1 * a1 + a2 * a2 + a3 * a3) * sqrt (b1 * b1 + b2 * b2 + b3 * b3).
Proof.
  set (A := a1 * a1 + a2 * a2 + a3 * a3). set (B := b1 * b1 + b2 * b2 + b3 * b3).
  set (P := a1 * b1 + a2 * b2 + a3 * b3).
  assert (HA : 0 <= A) by apply sumsq_nonneg. assert (HB : 0 <= B) by apply sumsq_nonneg.
  assert (HP : P * P <= A * B).
  { assert (E : A * B - P * P =
               (a1 * b2 - a2 * b1) * (a1 * b2 - a2 * b1) + (a1 * b3 - a3 * b1) * (a1 * b3 - a3 * b1)
               + (a2 * b3 - a3 * b2) * (a2 * b3 - a3 * b2)) by (unfold A, B, P; ring).
    pose proof (sumsq_nonneg (a1 * b2 - a2 * b1) (a1 * b3 - a3 * b1) (a2 * b3 - a3 * b2)). lra. }
  rewrite <- sqrt_mult by assumption.
  destruct (Rle_dec P 0) as [Hn|Hn].
  - pose proof (sqrt_pos (A * B)). lra.
  - rewrite <- (sqrt_square P) by lra. apply sqrt_le_1_alt. exact HP.
Qed.

Lemma tri3 a1 a2 a3 b1 b2 b3 :
  sqrt ((a1 + b1) * (a1 + b1) + (a2 + b2) * (a2 + b2) + (a3 + b3) * (a3 + b3))
  <= sqrt (a1 * a1 + a2 * a2 + a3 * a3) + sqrt (b1 * b1 + b2 * b2 + b3 * b3).
Proof.
  pose proof (cs3 a1 a2 a3 b1 b2 b3) as CS.
  set (A := a1 * a1 + a2 * a2 + a3 * a3) in *. set (B := b1 * b1 + b2 * b2 + b3 * b3) in *.
  assert (HA : 0 <= A) by apply sumsq_nonneg. assert (HB : 0 <= B) by apply sumsq_nonneg.
  pose proof (sqrt_pos A) as PA. pose proof (sqrt_pos B) as PB.
  pose proof (sqrt_sqrt A HA) as SA. pose proof (sqrt_sqrt B HB) as SB.
  rewrite <- (sqrt_square (sqrt A + sqrt B)) by lra.
  apply sqrt_le_1_alt.
  replace ((a1 + b1) * (a1 + b1) + (a2 + b2) * (a2 + b2) + (a3 + b3) * (a3 + b3))
    with (A + 2 * (a1 * b1 + a2 * b2 + a3 * b3) + B) by (unfold A, B; ring).
  nra.
Qed.

Theorem dist_triangle p q c : dist p c <= dist p q + dist q c.
Proof.
  unfold dist, dist2.
  replace ((px p - px c) * (px p - px c) + (py p - py c) * (py p - py c) + (pz p - pz c) * (pz p - pz c))
    with (((px p - px q) + (px q - px c)) * ((px p - px q) + (px q - px c))
          + ((py p - py q) + (py q - py c)) * ((py p - py q) + (py q - py c))
          + ((pz p - pz q) + (pz q - pz c)) * ((pz p - pz q) + (pz q - pz c))) by ring.
  apply tri3.
Qed.

(* ------------------------------------------------------------------ *)
(* the sphere field  dist(p,c) - rad  is the signed distance to the sphere *)
(* ------------------------------------------------------------------ *)
Theorem sphere_dist_lower p c rad q : dist q c = rad -> Rabs (dist p c - rad) <= dist p q.
Proof.
  intros <-. pose proof (dist_triangle p q c). pose proof (dist_triangle q p c).
  rewrite (dist_sym q p) in *. unfold Rabs; destruct (Rcase_abs _); lra.
Qed.

Lemma sumsq_zero x y z : x * x + y * y + z * z = 0 -> x = 0 /\ y = 0 /\ z = 0.
Proof.
  intros H. pose proof (Rle_0_sqr x). pose proof (Rle_0_sqr y). pose proof (Rle_0_sqr z).
  unfold Rsqr in *.
  repeat split; apply Rsqr_0_uniq; unfold Rsqr; lra.
Qed.

Theorem sphere_dist_attained p c rad : 0 <= rad ->
  exists q, dist q c = rad /\ dist p q = Rabs (dist p c - rad).
Proof.
  intros Hr. destruct p as [[x y] z], c as [[cx cy] cz].
  destruct (Req_dec (dist (x, y, z) (cx, cy, cz)) 0) as [H0|Hn].
  - (* p = c: any point of the sphere *)
    rewrite H0. unfold dist in H0. apply sqrt_eq_0 in H0; [|apply dist2_nonneg].
    unfold dist2, px, py, pz in H0; cbn [fst snd] in H0.
    apply sumsq_zero in H0. destruct H0 as (Ex & Ey & Ez).
    assert (x = cx) by lra. assert (y = cy) by lra. assert (z = cz) by lra. subst x y z.
    exists (cx + rad, cy, cz). unfold dist, dist2, px, py, pz; cbn [fst snd].
    replace (0 - rad) with (- rad) by ring. rewrite Rabs_Ropp, (Rabs_pos_eq rad Hr).
    split.
    + replace ((cx + rad - cx) * (cx + rad - cx) + (cy - cy) * (cy - cy) + (cz - cz) * (cz - cz))
        with (rad * rad) by ring. apply sqrt_square; exact Hr.
    + replace ((cx - (cx + rad)) * (cx - (cx + rad)) + (cy - cy) * (cy - cy) + (cz - cz) * (cz - cz))
        with (rad * rad) by ring. apply sqrt_square; exact Hr.
  - set (n := dist (x, y, z) (cx, cy, cz)) in *.
    assert (Hp : 0 < n) by (pose proof (dist_nonneg (x, y, z) (cx, cy, cz)); fold n in H; lra).
    set (k := rad / n).
    assert (Hk : 0 <= k) by (unfold k; apply Rmult_le_pos; [exact Hr | left; apply Rinv_0_lt_compat; exact Hp]).
    exists (cx + k * (x - cx), cy + k * (y - cy), cz + k * (z - cz)).
    split.
    + unfold dist. 
      replace (dist2 (cx + k * (x - cx), cy + k * (y - cy), cz + k * (z - cz)) (cx, cy, cz))
        with (k * k * dist2 (x, y, z) (cx, cy, cz)) by (unfold dist2, px, py, pz; cbn [fst snd]; ring).
      rewrite sqrt_mult; [| apply (Rle_0_sqr k) | apply dist2_nonneg].
      rewrite sqrt_square by exact Hk. fold (dist (x, y, z) (cx, cy, cz)). fold n.
      unfold k; field; lra.
    + unfold dist at 1.
      replace (dist2 (x, y, z) (cx + k * (x - cx), cy + k * (y - cy), cz + k * (z - cz)))
        with ((1 - k) * (1 - k) * dist2 (x, y, z) (cx, cy, cz)) by (unfold dist2, px, py, pz; cbn [fst snd]; ring).
      rewrite sqrt_mult; [| apply (Rle_0_sqr (1 - k)) | apply dist2_nonneg].
      fold (dist (x, y, z) (cx, cy, cz)). fold n.
      replace ((1 - k) * (1 - k)) with (Rsqr (1 - k)) by reflexivity. rewrite sqrt_Rsqr_abs.
      replace (n - rad) with ((1 - k) * n) by (unfold k; field; lra).
      rewrite Rabs_mult, (Rabs_pos_eq n) by lra. reflexivity.
Qed.

(* squared form, for completeness *)
Corollary sphere_dist2_lower p c rad q : dist q c = rad ->
  (dist p c - rad) * (dist p c - rad) <= dist2 p q.
Proof.
  intros H. pose proof (sphere_dist_lower p c rad q H) as L. rewrite <- dist_sqr.
  pose proof (dist_nonneg p q). revert L. generalize (dist p c - rad). intros d.
  unfold Rabs; destruct (Rcase_abs d); nra.
Qed.

(* ------------------------------------------------------------------ *)
(* rectangles in the plane (2D analogue, points are pairs)             *)
(* ------------------------------------------------------------------ *)
Definition pt2 : Type := (R * R)%type.
Definition dist2_2 (p q : pt2) : R :=
  (fst p - fst q) * (fst p - fst q) + (snd p - snd q) * (snd p - snd q).
Definition in_open_rect (c h p : pt2) : Prop :=
  Rabs (fst p - fst c) < fst h /\ Rabs (snd p - snd c) < snd h.
Definition in_closed_rect (c h p : pt2) : Prop :=
  Rabs (fst p - fst c) <= fst h /\ Rabs (snd p - snd c) <= snd h.
Definition rdist (c h p : pt2) : R :=
  rectfield (exc (fst c) (fst h) (fst p)) (exc (snd c) (snd h) (snd p)).

Lemma rectfield_inside_val dx dy : dx < 0 -> dy < 0 -> rectfield dx dy = Rmax dx dy.
Proof.
  intros Hx Hy. unfold rectfield.
  rewrite (Rmax_right dx 0), (Rmax_right dy 0) by lra.
  replace (0 * 0 + 0 * 0) with 0 by ring. rewrite sqrt_0.
  unfold Rmin, Rmax; repeat destruct (Rle_dec _ _); lra.
Qed.
Lemma rectfield_outside_val dx dy : ~ (dx < 0 /\ dy < 0) ->
  rectfield dx dy = sqrt (Rmax dx 0 * Rmax dx 0 + Rmax dy 0 * Rmax dy 0).
Proof.
  intros H. unfold rectfield.
  assert (E : Rmin (Rmax dx dy) 0 = 0); [|rewrite E; ring].
  unfold Rmin, Rmax; repeat destruct (Rle_dec _ _); lra.
Qed.

Theorem rdist_outside c h p : 0 <= fst h -> 0 <= snd h -> ~ in_open_rect c h p ->
  0 <= rdist c h p /\
  (exists q, in_closed_rect c h q /\ dist2_2 p q = rdist c h p * rdist c h p) /\
  (forall q, in_closed_rect c h q -> rdist c h p * rdist c h p <= dist2_2 p q).
Proof.
  intros Hx Hy Hout. destruct p as [x y], c as [cx cy], h as [hx hy].
  unfold in_open_rect, in_closed_rect, rdist, dist2_2 in *; cbn [fst snd] in *.
  rewrite rectfield_outside_val by (unfold exc; lra).
  split; [apply sqrt_pos|]. rewrite sqrt_sqrt by nra. unfold exc.
  destruct (coord_near x cx hx Hx) as [Bx Ex]. destruct (coord_near y cy hy Hy) as [By Ey].
  split.
  - exists (clamp x cx hx, clamp y cy hy); cbn [fst snd]. split; [tauto|]. rewrite Ex, Ey; reflexivity.
  - intros [qx qy] [Qx Qy]; cbn [fst snd] in *.
    pose proof (coord_far x cx hx qx Hx Qx). pose proof (coord_far y cy hy qy Hy Qy). lra.
Qed.

Theorem rdist_inside c h p : in_open_rect c h p ->
  rdist c h p = Rmax (exc (fst c) (fst h) (fst p)) (exc (snd c) (snd h) (snd p)) /\
  rdist c h p < 0 /\
  (forall q, ~ in_open_rect c h q -> rdist c h p * rdist c h p <= dist2_2 p q) /\
  (exists q, in_closed_rect c h q /\ ~ in_open_rect c h q /\ dist2_2 p q = rdist c h p * rdist c h p).
Proof.
  destruct p as [x y], c as [cx cy], h as [hx hy].
  unfold in_open_rect, in_closed_rect, rdist, dist2_2; cbn [fst snd]. intros [Ix Iy].
  assert (Hx : exc cx hx x < 0) by (unfold exc; lra). assert (Hy : exc cy hy y < 0) by (unfold exc; lra).
  rewrite rectfield_inside_val by assumption.
  split; [reflexivity|]. split; [unfold Rmax; destruct (Rle_dec _ _); lra|]. split.
  - intros [qx qy] Hq; cbn [fst snd] in *.
    assert (Hq' : hx <= Rabs (qx - cx) \/ hy <= Rabs (qy - cy)) by lra.
    pose proof (Rle_0_sqr (x - qx)) as Sx. pose proof (Rle_0_sqr (y - qy)) as Sy. unfold Rsqr in *.
    destruct Hq' as [Q|Q].
    + pose proof (coord_escape _ _ _ _ Ix Q) as E. fold (exc cx hx x) in E.
      unfold Rmax; destruct (Rle_dec _ _); nra.
    + pose proof (coord_escape _ _ _ _ Iy Q) as E. fold (exc cy hy y) in E.
      unfold Rmax; destruct (Rle_dec _ _); nra.
  - set (face := fun (pc cc hh : R) => if Rle_dec cc pc then cc + hh else cc - hh).
    assert (Hface : forall pc cc hh, Rabs (pc - cc) < hh ->
               Rabs (face pc cc hh - cc) = hh /\
               (pc - face pc cc hh) * (pc - face pc cc hh) = exc cc hh pc * exc cc hh pc).
    { intros pc cc hh. unfold face, exc, Rabs.
      destruct (Rle_dec cc pc), (Rcase_abs (pc - cc)); intros;
        repeat match goal with |- context [Rcase_abs ?x] => destruct (Rcase_abs x) end; split; nra. }
    destruct (Hface _ _ _ Ix) as [Fx Gx], (Hface _ _ _ Iy) as [Fy Gy]. clear Hface.
    set (M := Rmax (exc cx hx x) (exc cy hy y)).
    assert (HM : M = exc cx hx x \/ M = exc cy hy y) by (unfold M, Rmax; destruct (Rle_dec _ _); auto).
    destruct HM as [HM|HM]; rewrite HM.
    + exists (face x cx hx, y); cbn [fst snd]. split; [lra|]. split; [lra|]. rewrite <- Gx. ring.
    + exists (x, face y cy hy); cbn [fst snd]. split; [lra|]. split; [lra|]. rewrite <- Gy. ring.
Qed.

(* ------------------------------------------------------------------ *)
(* B4: the generated exact shapes are these distance functions         *)
(* ------------------------------------------------------------------ *)
Section StdGeomR.
  Variable osem : nat -> R -> R -> R -> R.
  Variable a : arena R.
  Notation env := (env R).
  Notation D := (denote RD osem a).
  Notation inside := (inside osem a).
  Notation indep := (indep osem a).

  (* centre / half-extent points of the two box forms *)
  Definition bc_centered (c1 c2 c3 : sx R) (r : env) : pt := (D c1 r, D c2 r, D c3 r).
  Definition bh_centered (s1 s2 s3 : sx R) (r : env) : pt := (D s1 r / 2, D s2 r / 2, D s3 r / 2).

  Theorem box_exact_centered_dist s1 s2 s3 c1 c2 c3 r :
    D (s_box_exact_centered RD (V3 s1 s2 s3) (V3 c1 c2 c3)) r =
    bdist (bc_centered c1 c2 c3 r) (bh_centered s1 s2 s3 r) (pos r).
  Proof. rewrite box_exact_centered_sem. reflexivity. Qed.

  Lemma box_exact_centered_inside_open s1 s2 s3 c1 c2 c3 r :
    inside (s_box_exact_centered RD (V3 s1 s2 s3) (V3 c1 c2 c3)) r <->
    in_open_box (bc_centered c1 c2 c3 r) (bh_centered s1 s2 s3 r) (pos r).
  Proof. rewrite box_exact_centered_inside. reflexivity. Qed.

  (* outside or on the boundary: Euclidean distance to the closed box *)
  Theorem box_exact_centered_outside s1 s2 s3 c1 c2 c3 r :
    0 <= D s1 r -> 0 <= D s2 r -> 0 <= D s3 r ->
    ~ inside (s_box_exact_centered RD (V3 s1 s2 s3) (V3 c1 c2 c3)) r ->
    let v := D (s_box_exact_centered RD (V3 s1 s2 s3) (V3 c1 c2 c3)) r in
    let c := bc_centered c1 c2 c3 r in let h := bh_centered s1 s2 s3 r in
    0 <= v /\
    (exists q, in_closed_box c h q /\ dist2 (pos r) q = v * v) /\
    (forall q, in_closed_box c h q -> v * v <= dist2 (pos r) q).
  Proof.
    intros H1 H2 H3 Hout. cbv zeta. rewrite box_exact_centered_inside_open in Hout.
    rewrite box_exact_centered_dist. apply bdist_outside; auto;
      unfold bh_centered, px, py, pz; cbn [fst snd]; lra.
  Qed.

  (* strictly inside: minus the distance to the nearest face = minus the distance to
     the complement of the open box *)
  Theorem box_exact_centered_inside_dist s1 s2 s3 c1 c2 c3 r :
    inside (s_box_exact_centered RD (V3 s1 s2 s3) (V3 c1 c2 c3)) r ->
    let v := D (s_box_exact_centered RD (V3 s1 s2 s3) (V3 c1 c2 c3)) r in
    let c := bc_centered c1 c2 c3 r in let h := bh_centered s1 s2 s3 r in
    v = Rmax (Rabs (ex r - D c1 r) - D s1 r / 2)
             (Rmax (Rabs (ey r - D c2 r) - D s2 r / 2) (Rabs (ez r - D c3 r) - D s3 r / 2)) /\
    v = - Rmin (Rmin (D s1 r / 2 - (ex r - D c1 r)) (D s1 r / 2 + (ex r - D c1 r)))
               (Rmin (Rmin (D s2 r / 2 - (ey r - D c2 r)) (D s2 r / 2 + (ey r - D c2 r)))
                     (Rmin (D s3 r / 2 - (ez r - D c3 r)) (D s3 r / 2 + (ez r - D c3 r)))) /\
    v < 0 /\
    (forall q, ~ in_open_box c h q -> v * v <= dist2 (pos r) q) /\
    (exists q, in_closed_box c h q /\ ~ in_open_box c h q /\ dist2 (pos r) q = v * v).
  Proof.
    intros Hin. cbv zeta. rewrite box_exact_centered_inside_open in Hin.
    rewrite box_exact_centered_dist. exact (bdist_inside _ _ _ Hin).
  Qed.

  (* the corner form: centre (a+b)/2, half extents (b-a)/2 *)
  Definition bc_corner (a1 a2 a3 b1 b2 b3 : sx R) (r : env) : pt :=
    ((D a1 r + D b1 r) / 2, (D a2 r + D b2 r) / 2, (D a3 r + D b3 r) / 2).
  Definition bh_corner (a1 a2 a3 b1 b2 b3 : sx R) (r : env) : pt :=
    ((D b1 r - D a1 r) / 2, (D b2 r - D a2 r) / 2, (D b3 r - D a3 r) / 2).

  Theorem box_exact_dist a1 a2 a3 b1 b2 b3 r :
    D (s_box_exact RD (V3 a1 a2 a3) (V3 b1 b2 b3)) r =
    bdist (bc_corner a1 a2 a3 b1 b2 b3 r) (bh_corner a1 a2 a3 b1 b2 b3 r) (pos r).
  Proof. rewrite box_exact_sem. reflexivity. Qed.

  Lemma closed_box_corner a1 a2 a3 b1 b2 b3 r q :
    in_closed_box (bc_corner a1 a2 a3 b1 b2 b3 r) (bh_corner a1 a2 a3 b1 b2 b3 r) q <->
    D a1 r <= px q <= D b1 r /\ D a2 r <= py q <= D b2 r /\ D a3 r <= pz q <= D b3 r.
  Proof.
    destruct q as [[qx qy] qz]. unfold in_closed_box, bc_corner, bh_corner, px, py, pz; cbn [fst snd].
    unfold Rabs; repeat destruct (Rcase_abs _); lra.
  Qed.
  Lemma open_box_corner a1 a2 a3 b1 b2 b3 r q :
    in_open_box (bc_corner a1 a2 a3 b1 b2 b3 r) (bh_corner a1 a2 a3 b1 b2 b3 r) q <->
    D a1 r < px q < D b1 r /\ D a2 r < py q < D b2 r /\ D a3 r < pz q < D b3 r.
  Proof.
    destruct q as [[qx qy] qz]. unfold in_open_box, bc_corner, bh_corner, px, py, pz; cbn [fst snd].
    unfold Rabs; repeat destruct (Rcase_abs _); lra.
  Qed.

  Theorem box_exact_outside a1 a2 a3 b1 b2 b3 r :
    D a1 r <= D b1 r -> D a2 r <= D b2 r -> D a3 r <= D b3 r ->
    ~ inside (s_box_exact RD (V3 a1 a2 a3) (V3 b1 b2 b3)) r ->
    let v := D (s_box_exact RD (V3 a1 a2 a3) (V3 b1 b2 b3)) r in
    let inbox q := D a1 r <= px q <= D b1 r /\ D a2 r <= py q <= D b2 r /\ D a3 r <= pz q <= D b3 r in
    0 <= v /\
    (exists q, inbox q /\ dist2 (pos r) q = v * v) /\
    (forall q, inbox q -> v * v <= dist2 (pos r) q).
  Proof.
    intros H1 H2 H3 Hout. cbv zeta.
    assert (Ho : ~ in_open_box (bc_corner a1 a2 a3 b1 b2 b3 r) (bh_corner a1 a2 a3 b1 b2 b3 r) (pos r)).
    { rewrite open_box_corner. rewrite box_exact_inside in Hout. exact Hout. }
    rewrite box_exact_dist.
    assert (Gx : 0 <= px (bh_corner a1 a2 a3 b1 b2 b3 r)) by (unfold bh_corner, px; cbn [fst snd]; lra).
    assert (Gy : 0 <= py (bh_corner a1 a2 a3 b1 b2 b3 r)) by (unfold bh_corner, py; cbn [fst snd]; lra).
    assert (Gz : 0 <= pz (bh_corner a1 a2 a3 b1 b2 b3 r)) by (unfold bh_corner, pz; cbn [fst snd]; lra).
    destruct (bdist_outside _ _ _ Gx Gy Gz Ho) as (P & (q & Q1 & Q2) & L).
    split; [exact P|]. split.
    - exists q. rewrite closed_box_corner in Q1. tauto.
    - intros q' Hq'. apply L. rewrite closed_box_corner. exact Hq'.
  Qed.

  Theorem box_exact_inside_dist a1 a2 a3 b1 b2 b3 r :
    inside (s_box_exact RD (V3 a1 a2 a3) (V3 b1 b2 b3)) r ->
    let v := D (s_box_exact RD (V3 a1 a2 a3) (V3 b1 b2 b3)) r in
    let inopen q := D a1 r < px q < D b1 r /\ D a2 r < py q < D b2 r /\ D a3 r < pz q < D b3 r in
    let inclosed q := D a1 r <= px q <= D b1 r /\ D a2 r <= py q <= D b2 r /\ D a3 r <= pz q <= D b3 r in
    v = - Rmin (Rmin (ex r - D a1 r) (D b1 r - ex r))
               (Rmin (Rmin (ey r - D a2 r) (D b2 r - ey r)) (Rmin (ez r - D a3 r) (D b3 r - ez r))) /\
    v < 0 /\
    (forall q, ~ inopen q -> v * v <= dist2 (pos r) q) /\
    (exists q, inclosed q /\ ~ inopen q /\ dist2 (pos r) q = v * v).
  Proof.
    intros Hin. cbv zeta. rewrite box_exact_inside in Hin.
    assert (Ho : in_open_box (bc_corner a1 a2 a3 b1 b2 b3 r) (bh_corner a1 a2 a3 b1 b2 b3 r) (pos r))
      by (rewrite open_box_corner; exact Hin).
    rewrite box_exact_dist.
    destruct (bdist_inside _ _ _ Ho) as (_ & E & N & L & (q & Q1 & Q2 & Q3)).
    split.
    { rewrite E. unfold bc_corner, bh_corner, pos, px, py, pz; cbn [fst snd].
      f_equal. f_equal; [|f_equal]; (rewrite Rmin_comm; f_equal; field). }
    split; [exact N|]. split.
    - intros q' Hq'. apply L. rewrite open_box_corner. exact Hq'.
    - exists q. rewrite closed_box_corner in Q1. rewrite open_box_corner in Q2. tauto.
  Qed.

  (* sphere: |value| is the Euclidean distance to the sphere of radius rad about c *)
  Theorem sphere_dist_sem rad cx cy cz r : indep rad ->
    D (s_sphere rad (V3 cx cy cz)) r = dist (pos r) (D cx r, D cy r, D cz r) - D rad r.
  Proof.
    intros H. rewrite sphere_sem by exact H. unfold dist, dist2, pos, px, py, pz; cbn [fst snd].
    f_equal. f_equal. ring.
  Qed.
  Theorem sphere_exact_lower rad cx cy cz r q : indep rad ->
    dist q (D cx r, D cy r, D cz r) = D rad r ->
    Rabs (D (s_sphere rad (V3 cx cy cz)) r) <= dist (pos r) q.
  Proof. intros H Hq. rewrite sphere_dist_sem by exact H. apply sphere_dist_lower; exact Hq. Qed.
  Theorem sphere_exact_attained rad cx cy cz r : indep rad -> 0 <= D rad r ->
    exists q, dist q (D cx r, D cy r, D cz r) = D rad r /\
              dist (pos r) q = Rabs (D (s_sphere rad (V3 cx cy cz)) r).
  Proof. intros H Hr. rewrite sphere_dist_sem by exact H. apply sphere_dist_attained; exact Hr. Qed.

  (* 2D: rectangle_centered_exact / rectangle_exact *)
  Theorem rectangle_centered_exact_dist s1 s2 c1 c2 r : indep s1 -> indep s2 ->
    D (s_rectangle_centered_exact RD (V2 s1 s2) (V2 c1 c2)) r =
    rdist (D c1 r, D c2 r) (D s1 r / 2, D s2 r / 2) (ex r, ey r).
  Proof. intros. rewrite rectangle_centered_exact_sem by assumption. reflexivity. Qed.
  Theorem rectangle_exact_dist a1 a2 b1 b2 r : indep a1 -> indep a2 -> indep b1 -> indep b2 ->
    D (s_rectangle_exact RD (V2 a1 a2) (V2 b1 b2)) r =
    rdist ((D a1 r + D b1 r) / 2, (D a2 r + D b2 r) / 2) ((D b1 r - D a1 r) / 2, (D b2 r - D a2 r) / 2)
          (ex r, ey r).
  Proof. intros. rewrite rectangle_exact_sem by assumption. reflexivity. Qed.

  Theorem rectangle_centered_exact_outside s1 s2 c1 c2 r : indep s1 -> indep s2 ->
    0 <= D s1 r -> 0 <= D s2 r ->
    ~ inside (s_rectangle_centered_exact RD (V2 s1 s2) (V2 c1 c2)) r ->
    let v := D (s_rectangle_centered_exact RD (V2 s1 s2) (V2 c1 c2)) r in
    let c := (D c1 r, D c2 r) in let h := (D s1 r / 2, D s2 r / 2) in
    0 <= v /\
    (exists q, in_closed_rect c h q /\ dist2_2 (ex r, ey r) q = v * v) /\
    (forall q, in_closed_rect c h q -> v * v <= dist2_2 (ex r, ey r) q).
  Proof.
    intros I1 I2 H1 H2 Hout. cbv zeta.
    rewrite rectangle_centered_exact_inside in Hout by assumption.
    rewrite rectangle_centered_exact_dist by assumption.
    apply rdist_outside; cbn [fst snd]; try lra. exact Hout.
  Qed.
  Theorem rectangle_centered_exact_inside_dist s1 s2 c1 c2 r : indep s1 -> indep s2 ->
    inside (s_rectangle_centered_exact RD (V2 s1 s2) (V2 c1 c2)) r ->
    let v := D (s_rectangle_centered_exact RD (V2 s1 s2) (V2 c1 c2)) r in
    let c := (D c1 r, D c2 r) in let h := (D s1 r / 2, D s2 r / 2) in
    v = Rmax (Rabs (ex r - D c1 r) - D s1 r / 2) (Rabs (ey r - D c2 r) - D s2 r / 2) /\
    v < 0 /\
    (forall q, ~ in_open_rect c h q -> v * v <= dist2_2 (ex r, ey r) q) /\
    (exists q, in_closed_rect c h q /\ ~ in_open_rect c h q /\ dist2_2 (ex r, ey r) q = v * v).
  Proof.
    intros I1 I2 Hin. cbv zeta.
    rewrite rectangle_centered_exact_inside in Hin by assumption.
    rewrite rectangle_centered_exact_dist by assumption.
    apply rdist_inside. exact Hin.
  Qed.
End StdGeomR.
