(* Solver::findRoot (solve/solver.cpp), both overloads, control flow exactly as
   written (after the three fixes: non-finite step, gas = 0, a step that underflowed to zero).  The evaluator is
   abstract: [value] and [gradient] are functions of the evaluator's current
   variable assignment (position and tape are fixed during a call).  Parametric
   in the number type. *)
From Coq Require Import List Arith Bool.
Import ListNotations.

Section Solver.
  Context {num : Type}.
  Record sops := {
    s_zero : num; s_eps : num; s_half : num;          (* 0, 1e-6f, 0.5 *)
    s_fabs : num -> num;
    s_ltb : num -> num -> bool;                         (* <  *)
    s_geb : num -> num -> bool;                         (* >= *)
    s_isfinite : num -> bool;
    s_iszero : num -> bool;                             (* step == 0 *)
    s_add : num -> num -> num; s_sub : num -> num -> num;
    s_mul : num -> num -> num; s_div : num -> num -> num;
    s_sq : num -> num;                                  (* powf(x, 2.0f) *)
    s_halve : num -> num;                               (* step /= 2 *)
    s_mul_d : num -> num -> num;                        (* slope * 0.5 (in double) *)
  }.
  Variable SO : sops.

  Definition assign := list (nat * num).
  Fixpoint aget (m : assign) (k : nat) : option num :=
    match m with [] => None | (j, x) :: r => if Nat.eqb k j then Some x else aget r k end.
  (* JacobianEvaluator::setVar: only variables known to the deck are stored *)
  Fixpoint aset (m : assign) (k : nat) (x : num) : assign :=
    match m with
    | [] => []
    | (j, y) :: r => if Nat.eqb k j then (j, x) :: r else (j, y) :: aset r k x
    end.
  Definition dget (ds : assign) (k : nat) : num :=
    match aget ds k with Some x => x | None => s_zero SO end.

  Variable value : assign -> num.                 (* e.value(pos, tape) *)
  Variable gradient : assign -> assign.           (* e.gradient(pos, tape) *)

  Definition trial (vars ds : assign) (step : num) : assign :=
    map (fun v => (fst v, s_sub SO (snd v) (s_mul SO step (dget ds (fst v))))) vars.
  Definition set_all (ev : assign) (vs : assign) : assign :=
    fold_left (fun e v => aset e (fst v) (snd v)) vs ev.

  Inductive ls_result :=
  | LS_accept (ev vars : assign) (r : num) (converged : bool)
  | LS_giveup (ev : assign)         (* non-finite or zero step: evaluator restored to [vars] *)
  | LS_out_of_fuel.

  (* the backtracking loop  for (step = r / slope; true; step /= 2) *)
  Fixpoint line_search (fuel : nat) (ev vars ds : assign) (r slope step : num) : ls_result :=
    match fuel with
    | 0 => LS_out_of_fuel
    | S f =>
        (* "if (!std::isfinite(step) || step == 0) { for (v : vars) e.setVar(v.first, v.second); ... }" *)
        if negb (s_isfinite SO step) || s_iszero SO step then LS_giveup (set_all ev vars)
        else
          let tv := trial vars ds step in
          let ev' := set_all ev tv in
          let r' := value ev' in
          let diff := s_sub SO r r' in
          if s_geb SO (s_div SO diff step) (s_mul_d SO slope (s_half SO))
             || s_ltb SO (s_fabs SO diff) (s_eps SO)
             || s_ltb SO slope (s_eps SO)
             || s_ltb SO r' (s_eps SO)
          then LS_accept ev' tv r' (s_ltb SO (s_fabs SO diff) (s_eps SO))
          else line_search f ev' vars ds r slope (s_halve SO step)
    end.

  Inductive result :=
  | Done (r : num) (vars : assign) (ev : assign) (grad_evals : nat)
  | OutOfFuel.

  (* while (!converged && fabs(r) >= EPSILON && gas && --gas) *)
  Fixpoint outer (ofuel lsfuel : nat) (gas : nat) (ev vars ds : assign) (r : num)
                 (converged : bool) (nevals : nat) : result :=
    match ofuel with
    | 0 => OutOfFuel
    | S f =>
        if converged || negb (s_geb SO (s_fabs SO r) (s_eps SO)) then Done r vars ev nevals
        else match gas with
        | 0 => Done r vars ev nevals
        | S g =>
            if Nat.eqb g 0 then Done r vars ev nevals        (* --gas reached zero *)
            else
              let gr := gradient ev in
              let ds' := fold_left (fun d p => aset d (fst p) (snd p)) gr ds in
              if forallb (fun p => s_ltb SO (s_fabs SO (snd p)) (s_eps SO)) ds'
              then Done r vars ev (S nevals)
              else
                let slope := fold_left (fun acc p => s_add SO acc (s_sq SO (snd p))) ds' (s_zero SO) in
                match line_search lsfuel ev vars ds' r slope (s_div SO r slope) with
                | LS_out_of_fuel => OutOfFuel
                | LS_giveup ev' => Done r vars ev' (S nevals)
                | LS_accept ev' vars' r' conv => outer f lsfuel g ev' vars' ds' r' conv (S nevals)
                end
        end
    end.

  (* the public overload: load every initial value, drop the masked variables *)
  Definition find_root (ofuel lsfuel gas : nat) (ev0 : assign) (vars : assign) (mask : list nat) : result :=
    let ev := set_all ev0 vars in
    let vars' := filter (fun v => negb (existsb (Nat.eqb (fst v)) mask)) vars in
    let ds := map (fun v => (fst v, s_zero SO)) vars' in
    outer ofuel lsfuel gas ev vars' ds (value ev) false 0.

End Solver.
