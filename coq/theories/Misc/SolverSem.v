(* Semantic properties of the root-finder model [LF.Misc.Solver]
   (Solver::findRoot, solve/solver.cpp).  Everything is parametric in the number
   type, the arithmetic record [sops], and the abstract evaluator
   ([value], [gradient]).

   Main results
     residual_consistent     (1)  r = value ev, ev agrees with the returned vars
     masked_untouched        (2)  keys of the result = unmasked input keys
     absent_untouched        (3)  variables with no derivative keep their value
     outer_bounded           (4)  at most gas-1 gradient evaluations
     inner_terminates,
     find_root_terminates    (5)  termination under "halving reaches zero", for
                                  every value / gradient function
     old_line_search_refuted (5') without the zero-step exit the loop diverges
                                  on a signed zero (sign-magnitude integers)
     Example_*               (6)  non-vacuity over Q and over a Z fixed-point toy *)
From Coq Require Import List Arith Bool Lia ZArith QArith Qabs Qreduction.
From LF Require Import Misc.Solver.
Import ListNotations.
Local Open Scope nat_scope.

Section SolverSem.
  Context {num : Type}.
  Variable SO : @sops num.
  Variable value : @assign num -> num.
  Variable gradient : @assign num -> @assign num.

  Notation keys := (map (@fst nat num)).
  Notation assign := (@assign num).

  (* ------------------------------------------------------------------ *)
  (** * aget / aset *)

  Lemma keys_aset (m : assign) k x : keys (aset m k x) = keys m.
  Proof.
    induction m as [|[j y] m IH]; cbn; [reflexivity|].
    destruct (Nat.eqb k j); cbn; [reflexivity|now rewrite IH].
  Qed.

  Lemma aget_aset_same (m : assign) k x :
    In k (keys m) -> aget (aset m k x) k = Some x.
  Proof.
    induction m as [|[j y] m IH]; cbn; intros H; [contradiction|].
    destruct (Nat.eqb k j) eqn:E; cbn; rewrite E; [reflexivity|].
    apply IH. destruct H as [H|H]; [|exact H].
    subst. rewrite Nat.eqb_refl in E. discriminate.
  Qed.

  Lemma aget_aset_other (m : assign) k j x :
    j <> k -> aget (aset m k x) j = aget m j.
  Proof.
    intros N. induction m as [|[i y] m IH]; cbn; [reflexivity|].
    destruct (Nat.eqb k i) eqn:E; cbn.
    - apply Nat.eqb_eq in E. subst i.
      destruct (Nat.eqb j k) eqn:E2; [|reflexivity].
      apply Nat.eqb_eq in E2. contradiction.
    - rewrite IH. reflexivity.
  Qed.

  Lemma aget_None_iff (m : assign) k : aget m k = None <-> ~ In k (keys m).
  Proof.
    induction m as [|[j y] m IH]; cbn; [tauto|].
    destruct (Nat.eqb k j) eqn:E.
    - apply Nat.eqb_eq in E. subst. split; [discriminate|]. intros H. exfalso. apply H. now left.
    - apply Nat.eqb_neq in E. rewrite IH. split.
      + intros H [H1|H1]; [congruence|contradiction].
      + intros H H1. apply H. now right.
  Qed.

  Lemma aget_Some_In (m : assign) k x : aget m k = Some x -> In (k, x) m.
  Proof.
    induction m as [|[j y] m IH]; cbn; [discriminate|].
    destruct (Nat.eqb k j) eqn:E.
    - apply Nat.eqb_eq in E. subst. intros H. inversion H. now left.
    - intros H. right. now apply IH.
  Qed.

  Lemma In_keys (m : assign) k x : In (k, x) m -> In k (keys m).
  Proof. intros H. apply (in_map fst) in H. exact H. Qed.

  Lemma NoDup_In_aget (m : assign) k x :
    NoDup (keys m) -> In (k, x) m -> aget m k = Some x.
  Proof.
    induction m as [|[j y] m IH]; cbn; intros ND H; [contradiction|].
    inversion ND as [|? ? Hn ND']; subst.
    destruct H as [H|H].
    - inversion H; subst. now rewrite Nat.eqb_refl.
    - destruct (Nat.eqb k j) eqn:E; [|now apply IH].
      apply Nat.eqb_eq in E. subst. exfalso. apply Hn. eapply In_keys; eauto.
  Qed.

  Lemma aset_id (m : assign) k x : aget m k = Some x -> aset m k x = m.
  Proof.
    induction m as [|[j y] m IH]; cbn; [reflexivity|].
    destruct (Nat.eqb k j); intros H; [now inversion H|].
    now rewrite IH.
  Qed.

  Lemma aset_absent (m : assign) k x : ~ In k (keys m) -> aset m k x = m.
  Proof.
    induction m as [|[j y] m IH]; cbn; [reflexivity|]. intros H.
    destruct (Nat.eqb k j) eqn:E.
    - apply Nat.eqb_eq in E. subst. exfalso. apply H. now left.
    - rewrite IH; [reflexivity|]. intros H1. apply H. now right.
  Qed.

  Lemma aset_aset_same (m : assign) k x y : aset (aset m k x) k y = aset m k y.
  Proof.
    induction m as [|[j z] m IH]; cbn; [reflexivity|].
    destruct (Nat.eqb k j) eqn:E; cbn; rewrite E; [reflexivity|now rewrite IH].
  Qed.

  Lemma aset_aset_comm (m : assign) k j x y :
    k <> j -> aset (aset m k x) j y = aset (aset m j y) k x.
  Proof.
    intros N. induction m as [|[i z] m IH]; cbn; [reflexivity|].
    destruct (Nat.eqb k i) eqn:E1; destruct (Nat.eqb j i) eqn:E2; cbn;
      rewrite ?E1, ?E2; try reflexivity.
    - apply Nat.eqb_eq in E1. apply Nat.eqb_eq in E2. congruence.
    - now rewrite IH.
  Qed.

  (* ------------------------------------------------------------------ *)
  (** * set_all *)

  Lemma set_all_cons (ev : assign) v vs :
    set_all ev (v :: vs) = set_all (aset ev (fst v) (snd v)) vs.
  Proof. reflexivity. Qed.

  Lemma keys_set_all (vs ev : assign) : keys (set_all ev vs) = keys ev.
  Proof.
    revert ev. induction vs as [|v vs IH]; intros ev; [reflexivity|].
    rewrite set_all_cons, IH. apply keys_aset.
  Qed.

  Lemma aget_set_all_other (vs ev : assign) k :
    ~ In k (keys vs) -> aget (set_all ev vs) k = aget ev k.
  Proof.
    revert ev. induction vs as [|[j y] vs IH]; intros ev H; [reflexivity|].
    rewrite set_all_cons. cbn [fst snd]. cbn in H.
    rewrite IH by tauto. apply aget_aset_other. intros ->. tauto.
  Qed.

  Lemma aget_set_all_in (vs ev : assign) k x :
    NoDup (keys vs) -> In (k, x) vs -> In k (keys ev) ->
    aget (set_all ev vs) k = Some x.
  Proof.
    revert ev. induction vs as [|[j y] vs IH]; intros ev ND H Hk; [contradiction|].
    rewrite set_all_cons. cbn [fst snd].
    inversion ND as [|? ? Hn ND']; subst.
    destruct H as [H|H].
    - inversion H; subst. rewrite aget_set_all_other by exact Hn.
      now apply aget_aset_same.
    - apply IH; auto. now rewrite keys_aset.
  Qed.

  (** [ev] agrees with [vars] on the variables it stores *)
  Definition agrees (ev vars : assign) : Prop :=
    forall k x, In (k, x) vars -> In k (keys ev) -> aget ev k = Some x.

  Lemma set_all_agrees (vars ev : assign) : agrees ev vars -> set_all ev vars = ev.
  Proof.
    induction vars as [|[k x] vars IH]; intros A; [reflexivity|].
    rewrite set_all_cons. cbn [fst snd].
    assert (E : aset ev k x = ev).
    { destruct (in_dec Nat.eq_dec k (keys ev)) as [Hi|Hn].
      - apply aset_id. apply A; [now left|exact Hi].
      - now apply aset_absent. }
    rewrite E. apply IH. intros k' x' H. apply A. now right.
  Qed.

  Lemma agrees_set_all (evc tv : assign) :
    NoDup (keys tv) -> agrees (set_all evc tv) tv.
  Proof.
    intros ND k x H Hk. rewrite keys_set_all in Hk. now apply aget_set_all_in.
  Qed.

  Lemma aset_set_all_comm (a e : assign) k y :
    ~ In k (keys a) -> aset (set_all e a) k y = set_all (aset e k y) a.
  Proof.
    revert e. induction a as [|[j x] a IH]; intros e H; [reflexivity|].
    rewrite !set_all_cons. cbn [fst snd]. cbn in H.
    rewrite IH by tauto. rewrite (aset_aset_comm e j k) by tauto. reflexivity.
  Qed.

  (** overwriting the same variables twice: the first write is forgotten *)
  Lemma set_all_set_all (a b e : assign) :
    NoDup (keys a) -> keys a = keys b -> set_all (set_all e a) b = set_all e b.
  Proof.
    revert b e. induction a as [|[k x] a IH]; intros [|[k' y] b] e ND HK;
      try discriminate; [reflexivity|].
    cbn in HK. inversion HK; subst k'.
    inversion ND as [|? ? Hn ND']; subst.
    rewrite (set_all_cons e (k, y)), (set_all_cons _ (k, y)), (set_all_cons e (k, x)).
    cbn [fst snd].
    rewrite aset_set_all_comm by exact Hn. rewrite aset_aset_same.
    now apply IH.
  Qed.

  (* ------------------------------------------------------------------ *)
  (** * trial, filter *)

  Lemma keys_trial (vars ds : assign) st : keys (trial SO vars ds st) = keys vars.
  Proof. unfold trial. rewrite map_map. apply map_ext. reflexivity. Qed.

  Lemma keys_filter (p : nat -> bool) (l : assign) :
    keys (filter (fun v => p (fst v)) l) = filter p (keys l).
  Proof.
    induction l as [|[k x] l IH]; cbn; [reflexivity|].
    destruct (p k); cbn; now rewrite IH.
  Qed.

  Lemma NoDup_filter' (p : nat -> bool) (l : list nat) : NoDup l -> NoDup (filter p l).
  Proof.
    induction l as [|k l IH]; cbn; intros ND; [constructor|].
    inversion ND; subst. destruct (p k); [|auto].
    constructor; [|auto]. intros H. apply filter_In in H. tauto.
  Qed.

  Definition unmasked (mask : list nat) (k : nat) : bool :=
    negb (existsb (Nat.eqb k) mask).

  Lemma unmasked_true mask k : unmasked mask k = true <-> ~ In k mask.
  Proof.
    unfold unmasked. rewrite negb_true_iff. split.
    - intros H Hi. assert (existsb (Nat.eqb k) mask = true); [|congruence].
      apply existsb_exists. exists k. split; [exact Hi|apply Nat.eqb_refl].
    - intros H. destruct (existsb (Nat.eqb k) mask) eqn:E; [|reflexivity].
      apply existsb_exists in E. destruct E as (j & Hj & E). apply Nat.eqb_eq in E.
      subst. contradiction.
  Qed.

  (* ------------------------------------------------------------------ *)
  (** * The line search *)

  (** [trialed ev vars evc]: [evc] is [ev] after any number of trial points for
      [vars] have been loaded into it.  Only the variables of [vars] can differ,
      so loading one more full assignment of these variables forgets the
      trials. *)
  Definition trialed (ev vars evc : assign) : Prop :=
    keys evc = keys ev /\
    (forall k, ~ In k (keys vars) -> aget evc k = aget ev k) /\
    (forall b, NoDup (keys b) -> keys b = keys vars -> set_all evc b = set_all ev b).

  Lemma trialed_refl (ev vars : assign) : trialed ev vars ev.
  Proof. unfold trialed. auto. Qed.

  Lemma trialed_trial (ev vars tv evc : assign) :
    keys tv = keys vars -> trialed (set_all ev tv) vars evc -> trialed ev vars evc.
  Proof.
    intros KT (Hk & Ho & Hs). repeat split.
    - rewrite Hk. apply keys_set_all.
    - intros k Hn. rewrite Ho by exact Hn. apply aget_set_all_other. now rewrite KT.
    - intros b NDb Kb. rewrite Hs by assumption. apply set_all_set_all.
      + rewrite KT, <- Kb. exact NDb.
      + congruence.
  Qed.

  Lemma ls_test_false step :
    negb (s_isfinite SO step) || s_iszero SO step = false ->
    s_isfinite SO step = true /\ s_iszero SO step = false.
  Proof.
    intros T. apply orb_false_elim in T. destruct T as [T1 T2].
    apply negb_false_iff in T1. now split.
  Qed.

  (** What an accepted step looks like: the new variables are a trial point for
      some finite, non-zero step, and the evaluator has been loaded with exactly
      them. *)
  Lemma line_search_accept fuel : forall ev vars ds r slope step ev' vars' r' c,
    line_search SO value fuel ev vars ds r slope step = LS_accept ev' vars' r' c ->
    exists evc st,
      s_isfinite SO st = true /\
      s_iszero SO st = false /\
      vars' = trial SO vars ds st /\
      ev' = set_all evc vars' /\
      r' = value ev' /\
      trialed ev vars evc.
  Proof.
    induction fuel as [|f IH]; intros ev vars ds r slope step ev' vars' r' c H;
      cbn [line_search] in H; [discriminate|].
    destruct (negb (s_isfinite SO step) || s_iszero SO step) eqn:T; [discriminate|].
    apply ls_test_false in T. destruct T as [Fin NZ].
    match type of H with (if ?c then _ else _) = _ => destruct c end.
    - inversion H; subst. exists ev, step. repeat (split; [auto|]). apply trialed_refl.
    - apply IH in H. destruct H as (evc & st & F & Z & Hv & He & Hr & HT).
      exists evc, st. repeat (split; [assumption|]).
      exact (trialed_trial ev vars _ evc (keys_trial vars ds step) HT).
  Qed.

  (** When the search gives up (non-finite or zero step), it hands back the
      evaluator, after all its trials, re-loaded with the current [vars]. *)
  Lemma line_search_giveup fuel : forall ev vars ds r slope step ev',
    line_search SO value fuel ev vars ds r slope step = LS_giveup ev' ->
    exists evc, ev' = set_all evc vars /\ trialed ev vars evc.
  Proof.
    induction fuel as [|f IH]; intros ev vars ds r slope step ev' H;
      cbn [line_search] in H; [discriminate|].
    destruct (negb (s_isfinite SO step) || s_iszero SO step) eqn:T.
    - inversion H; subst. exists ev. split; [reflexivity|apply trialed_refl].
    - match type of H with (if ?c then _ else _) = _ => destruct c end; [discriminate|].
      apply IH in H. destruct H as (evc & He & HT). exists evc. split; [exact He|].
      exact (trialed_trial ev vars _ evc (keys_trial vars ds step) HT).
  Qed.

  (** The restore makes the give-up path transparent: whatever trial points
      were loaded on the way, the evaluator handed back is, as a list, the one
      the search started from (as soon as that one agreed with [vars]). *)
  Lemma trialed_restore (ev vars evc : assign) :
    NoDup (keys vars) -> agrees ev vars -> trialed ev vars evc ->
    set_all evc vars = ev.
  Proof.
    intros ND A (_ & _ & Hs). rewrite Hs by auto. now apply set_all_agrees.
  Qed.

  Lemma line_search_giveup_restores fuel ev vars ds r slope step ev' :
    NoDup (keys vars) -> agrees ev vars ->
    line_search SO value fuel ev vars ds r slope step = LS_giveup ev' ->
    ev' = ev.
  Proof.
    intros ND A H. apply line_search_giveup in H. destruct H as (evc & -> & HT).
    now apply trialed_restore.
  Qed.

  (* ------------------------------------------------------------------ *)
  (** * An invariant rule for [outer] *)

  Section Rule.
    Variable I : assign -> assign -> assign -> num -> Prop.   (* ev vars ds r *)
    Hypothesis I_grad : forall ev vars ds r,
      I ev vars ds r -> I ev vars (set_all ds (gradient ev)) r.
    Hypothesis I_step : forall ev vars ds r evc st,
      I ev vars ds r -> s_isfinite SO st = true ->
      trialed ev vars evc ->
      let tv := trial SO vars ds st in
      I (set_all evc tv) tv ds (value (set_all evc tv)).
    Hypothesis I_giveup : forall ev vars ds r evc,
      I ev vars ds r -> trialed ev vars evc -> I (set_all evc vars) vars ds r.

    Lemma outer_rule ofuel : forall lsfuel gas ev vars ds r c n r' vars' ev' n',
      outer SO value gradient ofuel lsfuel gas ev vars ds r c n = Done r' vars' ev' n' ->
      I ev vars ds r -> exists ds', I ev' vars' ds' r'.
    Proof.
      induction ofuel as [|f IH]; intros lsfuel gas ev vars ds r c n r' vars' ev' n' H HI;
        cbn [outer] in H; [discriminate|].
      match type of H with (if ?c then _ else _) = _ => destruct c end.
      { inversion H; subst. eauto. }
      destruct gas as [|g]; [inversion H; subst; eauto|].
      destruct (Nat.eqb g 0); [inversion H; subst; eauto|].
      change (fold_left (fun d p => aset d (fst p) (snd p)) (gradient ev) ds)
        with (set_all ds (gradient ev)) in H.
      set (ds' := set_all ds (gradient ev)) in *.
      destruct (forallb _ ds').
      { inversion H; subst. exists ds'. now apply I_grad. }
      match type of H with
        match ?ls with _ => _ end = _ => destruct ls eqn:LS
      end.
      - apply line_search_accept in LS.
        destruct LS as (evc & st & F & Z & Hv & He & Hr & HT). subst.
        eapply IH; [exact H|]. apply (I_step ev vars ds' r); auto. now apply I_grad.
      - apply line_search_giveup in LS. destruct LS as (evc & He & HT).
        inversion H; subst. exists ds'. apply (I_giveup ev); [now apply I_grad|exact HT].
      - discriminate.
    Qed.
  End Rule.

  (* ------------------------------------------------------------------ *)
  (** * 1, 2: the residual, the evaluator state and the key set *)

  Definition inv1 (ev0 vars0 : assign) (ev vars ds : assign) (r : num) : Prop :=
    r = value ev /\ agrees ev vars /\ NoDup (keys vars) /\
    keys ev = keys ev0 /\ keys vars = keys vars0 /\
    (forall k, ~ In k (keys vars0) -> aget ev k = aget ev0 k).

  Lemma outer_inv1 ofuel lsfuel gas ev0 vars0 ds r c n r' vars' ev' n' :
    outer SO value gradient ofuel lsfuel gas ev0 vars0 ds r c n = Done r' vars' ev' n' ->
    r = value ev0 -> agrees ev0 vars0 -> NoDup (keys vars0) ->
    r' = value ev' /\ agrees ev' vars' /\ NoDup (keys vars') /\
    keys ev' = keys ev0 /\ keys vars' = keys vars0 /\
    (forall k, ~ In k (keys vars0) -> aget ev' k = aget ev0 k).
  Proof.
    intros H Hr Ha Hn.
    assert (G : forall ev vars ds r, inv1 ev0 vars0 ev vars ds r ->
                inv1 ev0 vars0 ev vars (set_all ds (gradient ev)) r).
    { unfold inv1. tauto. }
    assert (S : forall ev vars ds r evc st,
      inv1 ev0 vars0 ev vars ds r -> s_isfinite SO st = true ->
      trialed ev vars evc ->
      let tv := trial SO vars ds st in
      inv1 ev0 vars0 (set_all evc tv) tv ds (value (set_all evc tv))).
    { intros ev vars ds1 r1 evc st (R & A & ND & KE & KV & O) F (Hk & Ho & _) tv. unfold inv1.
      assert (KT : keys tv = keys vars) by apply keys_trial.
      repeat split.
      + apply agrees_set_all. now rewrite KT.
      + now rewrite KT.
      + rewrite keys_set_all. congruence.
      + congruence.
      + intros k Hk0. rewrite aget_set_all_other by (rewrite KT, KV; exact Hk0).
        rewrite Ho by (rewrite KV; exact Hk0). now apply O. }
    assert (U : forall ev vars ds r evc,
      inv1 ev0 vars0 ev vars ds r -> trialed ev vars evc ->
      inv1 ev0 vars0 (set_all evc vars) vars ds r).
    { intros ev vars ds1 r1 evc HI HT. pose proof HI as (R & A & ND & _).
      rewrite (trialed_restore ev vars evc ND A HT). exact HI. }
    destruct (outer_rule _ G S U _ _ _ _ _ _ _ _ _ _ _ _ _ H) as (ds' & HI).
    - unfold inv1. repeat split; auto.
    - exact HI.
  Qed.

  (** 1. The returned residual is the expression evaluated at the evaluator's
      final assignment, and that assignment is: the returned solution on the
      solved variables, the loaded input value on the masked variables, and
      the evaluator's previous content elsewhere. *)
  Theorem residual_consistent ofuel lsfuel gas ev0 vars mask r vars' ev n :
    NoDup (keys vars) ->
    find_root SO value gradient ofuel lsfuel gas ev0 vars mask = Done r vars' ev n ->
    r = value ev /\
    keys ev = keys ev0 /\
    (forall k x, In (k, x) vars' -> In k (keys ev0) -> aget ev k = Some x) /\
    (forall k x, In k mask -> In (k, x) vars -> In k (keys ev0) -> aget ev k = Some x) /\
    (forall k, ~ In k (keys vars) -> aget ev k = aget ev0 k).
  Proof.
    intros ND H. unfold find_root in H.
    change (fun v : nat * num => negb (existsb (Nat.eqb (fst v)) mask))
      with (fun v : nat * num => unmasked mask (fst v)) in H.
    set (fv := filter (fun v : nat * num => unmasked mask (fst v)) vars) in *.
    assert (KF : keys fv = filter (unmasked mask) (keys vars)) by apply keys_filter.
    assert (NDF : NoDup (keys fv)) by (rewrite KF; now apply NoDup_filter').
    apply outer_inv1 in H; auto.
    - destruct H as (R & A & _ & KE & KV & O).
      rewrite keys_set_all in KE.
      repeat split; auto.
      + intros k x Hi Hk. apply A; [exact Hi|]. now rewrite KE.
      + intros k x Hm Hi Hk. rewrite O.
        * now apply aget_set_all_in.
        * rewrite KF. intros Hf. apply filter_In in Hf.
          destruct Hf as [_ Hf]. apply unmasked_true in Hf. contradiction.
      + intros k Hk. rewrite O.
        * now apply aget_set_all_other.
        * rewrite KF. intros Hf. apply filter_In in Hf. tauto.
    - intros k x Hi Hk. rewrite keys_set_all in Hk.
      apply aget_set_all_in; auto. unfold fv in Hi. apply filter_In in Hi. tauto.
  Qed.

  (** key set of the result of [outer]: no hypothesis needed *)
  Lemma outer_keys ofuel lsfuel gas ev vars ds r c n r' vars' ev' n' :
    outer SO value gradient ofuel lsfuel gas ev vars ds r c n = Done r' vars' ev' n' ->
    keys vars' = keys vars.
  Proof.
    intros H.
    destruct (outer_rule (fun _ vs _ _ => keys vs = keys vars)) with (4 := H) as (_ & HI);
      auto.
    intros ? vs d ? ? st HK _ _ tv. unfold tv. rewrite keys_trial. exact HK.
  Qed.

  (** 2. The solver never adds or drops a variable: the keys of the result are
      the unmasked keys of the input, in the same order. *)
  Theorem masked_untouched ofuel lsfuel gas ev0 vars mask r vars' ev n :
    find_root SO value gradient ofuel lsfuel gas ev0 vars mask = Done r vars' ev n ->
    keys vars' = filter (unmasked mask) (keys vars) /\
    (forall k, In k mask -> ~ In k (keys vars')) /\
    (forall k, In k (keys vars) -> ~ In k mask -> In k (keys vars')).
  Proof.
    intros H. unfold find_root in H. apply outer_keys in H.
    change (fun v : nat * num => negb (existsb (Nat.eqb (fst v)) mask))
      with (fun v : nat * num => unmasked mask (fst v)) in H.
    rewrite keys_filter in H. rewrite H. split; [reflexivity|]. split.
    - intros k Hm Hf. apply filter_In in Hf. destruct Hf as [_ Hf].
      apply unmasked_true in Hf. contradiction.
    - intros k Hk Hm. apply filter_In. split; [exact Hk|]. now apply unmasked_true.
  Qed.

  (* ------------------------------------------------------------------ *)
  (** * 3: variables without a derivative are not moved *)

  Lemma dget_zero_map (l : assign) k :
    dget SO (map (fun v => (fst v, s_zero SO)) l) k = s_zero SO.
  Proof.
    unfold dget. induction l as [|[j y] l IH]; [reflexivity|].
    cbn [map fst aget]. destruct (Nat.eqb k j); [reflexivity|exact IH].
  Qed.

  Section Absent.
    Hypothesis zero_step_absorbed : forall s x,
      s_isfinite SO s = true -> s_sub SO x (s_mul SO s (s_zero SO)) = x.
    Variable k : nat.
    Hypothesis no_derivative : forall e, aget (gradient e) k = None.

    Lemma outer_absent ofuel lsfuel gas ev vars ds r c n r' vars' ev' n' x :
      outer SO value gradient ofuel lsfuel gas ev vars ds r c n = Done r' vars' ev' n' ->
      dget SO ds k = s_zero SO -> In (k, x) vars -> In (k, x) vars'.
    Proof.
      intros H Hd Hi.
      destruct (outer_rule (fun _ vs d _ => dget SO d k = s_zero SO /\ In (k, x) vs))
        with (4 := H) as (ds' & _ & HI); auto.
      - intros ? ? d ? [D V]. split; [|exact V]. unfold dget in *.
        rewrite aget_set_all_other; [exact D|]. apply aget_None_iff. apply no_derivative.
      - intros ? vs d ? ? st [D V] F _ tv. split; [exact D|]. unfold tv.
        unfold trial. apply in_map_iff. exists (k, x). split; [|exact V].
        cbn [fst snd]. rewrite D. now rewrite zero_step_absorbed.
    Qed.

    Theorem absent_untouched ofuel lsfuel gas ev0 vars mask r vars' ev n x :
      In (k, x) vars -> ~ In k mask ->
      find_root SO value gradient ofuel lsfuel gas ev0 vars mask = Done r vars' ev n ->
      In (k, x) vars'.
    Proof.
      intros Hi Hm H. unfold find_root in H. eapply outer_absent; [exact H| |].
      - apply dget_zero_map.
      - apply filter_In. split; [exact Hi|]. cbn [fst]. now apply unmasked_true.
    Qed.

    (** with unique keys this pins the looked-up value *)
    Corollary absent_untouched_aget ofuel lsfuel gas ev0 vars mask r vars' ev n x :
      NoDup (keys vars) -> In (k, x) vars -> ~ In k mask ->
      find_root SO value gradient ofuel lsfuel gas ev0 vars mask = Done r vars' ev n ->
      aget vars' k = Some x.
    Proof.
      intros ND Hi Hm H. apply NoDup_In_aget.
      - apply masked_untouched in H. destruct H as [H _]. rewrite H. now apply NoDup_filter'.
      - eapply absent_untouched; eauto.
    Qed.
  End Absent.

  (* ------------------------------------------------------------------ *)
  (** * 4: the gas bounds the number of gradient evaluations *)

  Lemma outer_evals ofuel : forall lsfuel gas ev vars ds r c n r' vars' ev' n',
    outer SO value gradient ofuel lsfuel gas ev vars ds r c n = Done r' vars' ev' n' ->
    n <= n' <= n + (gas - 1).
  Proof.
    induction ofuel as [|f IH]; intros lsfuel gas ev vars ds r c n r' vars' ev' n' H;
      cbn [outer] in H; [discriminate|].
    match type of H with (if ?c then _ else _) = _ => destruct c end.
    { inversion H; subst. lia. }
    destruct gas as [|g]; [inversion H; subst; lia|].
    destruct (Nat.eqb g 0) eqn:G; [inversion H; subst; lia|].
    apply Nat.eqb_neq in G.
    match type of H with (if ?c then _ else _) = _ => destruct c end.
    { inversion H; subst. lia. }
    match type of H with
      match ?ls with _ => _ end = _ => destruct ls eqn:LS
    end.
    - apply IH in H. lia.
    - inversion H; subst. lia.
    - discriminate.
  Qed.

  Theorem outer_bounded ofuel lsfuel gas ev0 vars mask r vars' ev n :
    find_root SO value gradient ofuel lsfuel gas ev0 vars mask = Done r vars' ev n ->
    n <= gas - 1.
  Proof. intros H. unfold find_root in H. apply outer_evals in H. lia. Qed.

  (* ------------------------------------------------------------------ *)
  (** * 5: termination *)

  Lemma iter_succ_r {A} (f : A -> A) n x : Nat.iter (S n) f x = Nat.iter n f (f x).
  Proof. induction n as [|n IH]; [reflexivity|]. cbn in *. now rewrite IH. Qed.

  (** The loop as it was before the zero-step exit was added: only a
      non-finite step made it give up (and nothing was restored). *)
  Fixpoint line_search_old (fuel : nat) (ev vars ds : assign) (r slope step : num)
    : @ls_result num :=
    match fuel with
    | 0 => LS_out_of_fuel
    | S f =>
        if negb (s_isfinite SO step) then LS_giveup ev
        else
          let tv := trial SO vars ds step in
          let ev' := set_all ev tv in
          let r' := value ev' in
          let diff := s_sub SO r r' in
          if s_geb SO (s_div SO diff step) (s_mul_d SO slope (s_half SO))
             || s_ltb SO (s_fabs SO diff) (s_eps SO)
             || s_ltb SO slope (s_eps SO)
             || s_ltb SO r' (s_eps SO)
          then LS_accept ev' tv r' (s_ltb SO (s_fabs SO diff) (s_eps SO))
          else line_search_old f ev' vars ds r slope (s_halve SO step)
    end.

  Section Termination.
    Variable K : nat.
    (** The only arithmetic fact needed: after at most [K] halvings a finite
        step is zero (binary32: underflow, K = 300 is plenty).  Nothing is
        assumed about [trial], [s_sub], the comparisons, [value] or
        [gradient]. *)
    Hypothesis halving_reaches_zero : forall s,
      s_isfinite SO s = true ->
      exists k, k <= K /\ s_iszero SO (Nat.iter k (s_halve SO) s) = true.

    Lemma ls_no_oof (vars ds : assign) r slope :
      forall k fuel ev step,
        k < fuel ->
        s_iszero SO (Nat.iter k (s_halve SO) step) = true ->
        line_search SO value fuel ev vars ds r slope step <> LS_out_of_fuel.
    Proof.
      induction k as [|k IH]; intros fuel ev step Hf Hz;
        (destruct fuel as [|f]; [lia|]); cbn [line_search].
      - change (s_iszero SO step = true) in Hz. rewrite Hz, orb_true_r. discriminate.
      - destruct (negb (s_isfinite SO step) || s_iszero SO step); [discriminate|].
        match goal with |- (if ?c then _ else _) <> _ => destruct c end; [discriminate|].
        apply IH; [lia|]. rewrite <- iter_succ_r. exact Hz.
    Qed.

    (** The backtracking loop always exits by itself when given more than [K]
        iterations: from any evaluator state, for any residual, slope and
        step. *)
    Theorem inner_terminates fuel (ev vars ds : assign) r slope step :
      K < fuel ->
      line_search SO value fuel ev vars ds r slope step <> LS_out_of_fuel.
    Proof.
      intros Hf.
      destruct (s_isfinite SO step) eqn:F.
      - destruct (halving_reaches_zero step F) as (k & Hk & Hz).
        apply ls_no_oof with (k := k); [lia|exact Hz].
      - destruct fuel as [|f]; [lia|]. cbn [line_search]. rewrite F. cbn [negb orb].
        discriminate.
    Qed.

    Lemma outer_no_oof ofuel : forall lsfuel gas ev vars ds r c n,
      K < lsfuel -> 1 <= ofuel -> gas <= ofuel ->
      outer SO value gradient ofuel lsfuel gas ev vars ds r c n <> OutOfFuel.
    Proof.
      induction ofuel as [|f IH]; intros lsfuel gas ev vars ds r c n HK H1 Hg;
        [lia|]. cbn [outer].
      match goal with |- (if ?c then _ else _) <> _ => destruct c end; [discriminate|].
      destruct gas as [|g]; [discriminate|].
      destruct (Nat.eqb g 0) eqn:G; [discriminate|]. apply Nat.eqb_neq in G.
      match goal with |- (if ?c then _ else _) <> _ => destruct c end; [discriminate|].
      match goal with
        |- match ?ls with _ => _ end <> _ => destruct ls eqn:LS
      end.
      - apply IH; lia.
      - discriminate.
      - exfalso. revert LS. now apply inner_terminates.
    Qed.

    (** [find_root] is total once the fuels cover the bounds, for every
        evaluator, initial assignment (duplicated keys included) and mask.
        ([1 <= ofuel] is needed: [outer 0 ...] is [OutOfFuel] even for
        [gas = 0].) *)
    Theorem find_root_terminates ofuel lsfuel gas ev0 vars mask :
      K < lsfuel -> 1 <= ofuel -> gas <= ofuel ->
      find_root SO value gradient ofuel lsfuel gas ev0 vars mask <> OutOfFuel.
    Proof.
      intros HK H1 Hg. unfold find_root. now apply outer_no_oof.
    Qed.
  End Termination.

  (* ------------------------------------------------------------------ *)
  (** * Remarks on the model *)

  (** [1 <= ofuel] cannot be dropped from [find_root_terminates], even for
      [gas = 0]: the outer fuel is tested before the loop condition. *)
  Remark find_root_no_fuel lsfuel gas ev0 vars mask :
    find_root SO value gradient 0 lsfuel gas ev0 vars mask = OutOfFuel.
  Proof. reflexivity. Qed.

  (** A zero step is never accepted: the search gives up on it before trying
      it.  (With the old loop a zero step was tried, and [trial] with a zero
      step need not return [vars]: -0 - (0 * d) is +0 for d < 0.) *)
  Remark line_search_zero_step fuel ev vars ds r slope step :
    s_iszero SO step = true ->
    line_search SO value (S fuel) ev vars ds r slope step = LS_giveup (set_all ev vars).
  Proof. intros Z. cbn [line_search]. now rewrite Z, orb_true_r. Qed.

  (** As long as no step is zero the two loops take the same decisions; they
      differ only in what they do with a zero step (and in the restore). *)
  Lemma line_search_old_accept fuel : forall ev vars ds r slope step ev' vars' r' c,
    line_search SO value fuel ev vars ds r slope step = LS_accept ev' vars' r' c ->
    line_search_old fuel ev vars ds r slope step = LS_accept ev' vars' r' c.
  Proof.
    induction fuel as [|f IH]; intros ev vars ds r slope step ev' vars' r' c H;
      cbn [line_search] in H; [discriminate|]. cbn [line_search_old].
    destruct (negb (s_isfinite SO step) || s_iszero SO step) eqn:T; [discriminate|].
    apply ls_test_false in T. destruct T as [Fin _]. rewrite Fin. cbn [negb].
    match type of H with (if ?c then _ else _) = _ => destruct c end; [exact H|].
    now apply IH.
  Qed.

End SolverSem.

(* ---------------------------------------------------------------------- *)
(** * 6: non-vacuity *)

(** ** Exact rationals *)
Module QExample.
  Local Open Scope Q_scope.

  Definition QSO : @sops Q := {|
    s_zero := 0; s_eps := 1 # 1000; s_half := 1 # 2;
    s_fabs := Qabs;
    s_ltb := fun a b => negb (Qle_bool b a);
    s_geb := fun a b => Qle_bool b a;
    s_isfinite := fun _ => true;
    s_iszero := fun a => Qeq_bool a 0;
    s_add := fun a b => Qred (a + b); s_sub := fun a b => Qred (a - b);
    s_mul := fun a b => Qred (a * b); s_div := fun a b => Qred (a / b);
    s_sq := fun a => Qred (a * a);
    s_halve := fun a => Qred (a / 2);
    s_mul_d := fun a b => Qred (a * b) |}.

  Definition var0 (ev : @assign Q) : Q :=
    match aget ev 0%nat with Some v => v | None => 0 end.

  (** f(v) = v - 3, one variable, one Newton step lands on the root *)
  Definition value1 (ev : @assign Q) : Q := Qred (var0 ev - 3).
  Definition gradient1 (ev : @assign Q) : @assign Q := [(0%nat, 1)].

  Example Example_linear :
    find_root QSO value1 gradient1 10 10 10 [(0%nat, 0)] [(0%nat, 5)] [] =
    Done 0 [(0%nat, 3)] [(0%nat, 3)] 1.
  Proof. vm_compute. reflexivity. Qed.

  (** f(v) = g(|v|) with g(a) = 4a for a <= 1 and a + 3 otherwise: concave in
      |v|, so the first full step from v = 2 overshoots (to v = -3, residual 6 >
      5) and the line search has to halve it once.  Variable 1 is in the
      expression but masked; variable 2 is solved for but not in the expression. *)
  Definition value2 (ev : @assign Q) : Q :=
    let a := Qabs (var0 ev) in
    Qred (if Qle_bool a 1 then 4 * a else a + 3).
  Definition gradient2 (ev : @assign Q) : @assign Q :=
    let v := var0 ev in
    let s := if Qle_bool 0 v then 1 else -1 in
    [(0%nat, Qred (s * (if Qle_bool (Qabs v) 1 then 4 else 1))); (1%nat, 0)].

  Definition ev0 : @assign Q := [(0%nat, 0); (1%nat, 0)].
  Definition vars0 : @assign Q := [(0%nat, 2); (1%nat, 7); (2%nat, 9)].

  Example Example_backtrack :
    find_root QSO value2 gradient2 10 10 10 ev0 vars0 [1%nat] =
    Done 0 [(0%nat, 0); (2%nat, 9)] [(0%nat, 0); (1%nat, 7)] 2.
  Proof. vm_compute. reflexivity. Qed.

  (** the first line search really backtracks: one iteration is not enough, two are *)
  Example Example_backtrack_once :
    let ev := set_all ev0 vars0 in
    let vars := [(0%nat, 2); (2%nat, 9)] in
    let ds := [(0%nat, 1); (2%nat, 0)] in
    line_search QSO value2 1 ev vars ds 5 1 5 = LS_out_of_fuel /\
    line_search QSO value2 2 ev vars ds 5 1 5 =
      LS_accept [(0%nat, -1 # 2); (1%nat, 7)] [(0%nat, -1 # 2); (2%nat, 9)] 2 false.
  Proof. vm_compute. split; reflexivity. Qed.

  (** residual within eps, by the solver's own comparison *)
  Example Example_residual_small :
    match find_root QSO value2 gradient2 10 10 10 ev0 vars0 [1%nat] with
    | Done r _ _ _ => s_ltb QSO (s_fabs QSO r) (s_eps QSO) = true
    | OutOfFuel => False
    end.
  Proof. vm_compute. reflexivity. Qed.

  (** gas = 2 allows a single gradient evaluation: the solver stops after the
      first accepted step with residual 2 *)
  Example Example_gas :
    find_root QSO value2 gradient2 10 10 2 ev0 vars0 [1%nat] =
    Done 2 [(0%nat, -1 # 2); (2%nat, 9)] [(0%nat, -1 # 2); (1%nat, 7)] 1.
  Proof. vm_compute. reflexivity. Qed.

  (** [NoDup] is necessary in [residual_consistent]: with a duplicated key (not
      possible in a std::map) the evaluator keeps the last binding while the
      returned list still contains the first one. *)
  Example Example_nodup_needed :
    find_root QSO value1 gradient1 1 1 0 [(0%nat, 0)] [(0%nat, 1); (0%nat, 2)] [] =
    Done (-1) [(0%nat, 1); (0%nat, 2)] [(0%nat, 2)] 0.
  Proof. vm_compute. reflexivity. Qed.
End QExample.

(** ** A bounded integer arithmetic in which every hypothesis of 3 and 5 holds

    Steps are integers, "finite" means |s| < 2^10, halving truncates towards
    zero (as a float underflows to 0).  With this arithmetic, and for ANY
    evaluator, the termination theorem applies with K = 10. *)
Module ZExample.
  Local Open Scope Z_scope.

  Definition ZSO : @sops Z := {|
    s_zero := 0; s_eps := 1; s_half := 0;
    s_fabs := Z.abs;
    s_ltb := Z.ltb; s_geb := Z.geb;
    s_isfinite := fun s => Z.abs s <? 2 ^ 10;
    s_iszero := fun s => s =? 0;
    s_add := Z.add; s_sub := Z.sub; s_mul := Z.mul; s_div := Z.quot;
    s_sq := fun a => a * a;
    s_halve := fun a => Z.quot a 2;
    s_mul_d := fun a _ => Z.quot a 2 |}.

  Lemma halvings_vanish (n : nat) : forall z,
    Z.abs z < 2 ^ Z.of_nat n -> Nat.iter n (fun a => Z.quot a 2) z = 0.
  Proof.
    induction n as [|n IH]; intros z H.
    - cbn in *. lia.
    - rewrite iter_succ_r. apply IH.
      rewrite Nat2Z.inj_succ, Z.pow_succ_r in H by lia.
      assert (0 < 2 ^ Z.of_nat n) by (apply Z.pow_pos_nonneg; lia).
      Z.to_euclidean_division_equations. lia.
  Qed.

  (** In Z a zero step does not move the point.  (This is what fails for
      floats with a signed zero, see [SignedZero] below; the termination
      theorem no longer needs it.) *)
  Lemma trial_zero (vars ds : @assign Z) : trial ZSO vars ds 0 = vars.
  Proof.
    unfold trial. induction vars as [|[k x] vars IH]; [reflexivity|].
    cbn [map fst snd]. rewrite IH. cbn [s_sub s_mul ZSO]. f_equal. f_equal. lia.
  Qed.

  Lemma Z_halving_reaches_zero : forall s,
    s_isfinite ZSO s = true ->
    exists k, (k <= 10)%nat /\ s_iszero ZSO (Nat.iter k (s_halve ZSO) s) = true.
  Proof.
    intros s F. exists 10%nat. split; [lia|].
    cbn [s_isfinite s_halve s_iszero ZSO] in *. apply Z.ltb_lt in F.
    rewrite (halvings_vanish 10 s F). reflexivity.
  Qed.

  Lemma Z_zero_step_absorbed : forall s x,
    s_isfinite ZSO s = true -> s_sub ZSO x (s_mul ZSO s (s_zero ZSO)) = x.
  Proof. intros s x _. cbn [s_sub s_mul s_zero ZSO]. lia. Qed.

  (** the termination theorem, with all its hypotheses discharged *)
  Theorem Z_find_root_total (value : @assign Z -> Z) (gradient : @assign Z -> @assign Z)
      gas ev0 vars mask :
    find_root ZSO value gradient (S gas) 11 gas ev0 vars mask <> OutOfFuel.
  Proof.
    apply (find_root_terminates ZSO value gradient 10 Z_halving_reaches_zero); lia.
  Qed.

  (** and the "absent variable" theorem likewise *)
  Theorem Z_absent_untouched (value : @assign Z -> Z) (gradient : @assign Z -> @assign Z)
      k ofuel lsfuel gas ev0 vars mask r vars' ev n x :
    (forall e, aget (gradient e) k = None) ->
    In (k, x) vars -> ~ In k mask ->
    find_root ZSO value gradient ofuel lsfuel gas ev0 vars mask = Done r vars' ev n ->
    In (k, x) vars'.
  Proof. intros G. apply (absent_untouched ZSO value gradient Z_zero_step_absorbed k G). Qed.

  (** f(v) = |v - 40| from v = 0, plus an unrelated variable 1 *)
  Definition valueZ (ev : @assign Z) : Z :=
    match aget ev 0%nat with Some v => Z.abs (v - 40) | None => 0 end.
  Definition gradientZ (ev : @assign Z) : @assign Z :=
    match aget ev 0%nat with
    | Some v => [(0%nat, if v <? 40 then -1 else 1)]
    | None => []
    end.
  Example Example_Z :
    find_root ZSO valueZ gradientZ 5 11 4 [(0%nat, 0)] [(0%nat, 0); (1%nat, 17)] [] =
    Done 0 [(0%nat, 40); (1%nat, 17)] [(0%nat, 40)] 1.
  Proof. vm_compute. reflexivity. Qed.

  (** The give-up path after several trials.  f = 100 at v = 0 and 300 anywhere
      else: no step is ever accepted, the step 100 is halved down to 0 (seven
      trial points are loaded into the evaluator on the way), the search gives
      up and the evaluator is handed back at v = 0, where f is the returned
      residual 100. *)
  Definition valueJ (ev : @assign Z) : Z :=
    match aget ev 0%nat with Some 0 => 100 | _ => 300 end.
  Definition gradientJ (_ : @assign Z) : @assign Z := [(0%nat, 1)].
  Example Example_giveup_restores :
    find_root ZSO valueJ gradientJ 5 11 4 [(0%nat, 9)] [(0%nat, 0)] [] =
      Done 100 [(0%nat, 0)] [(0%nat, 0)] 1 /\
    (* the evaluator just before the restore holds the last trial point *)
    line_search ZSO valueJ 7 [(0%nat, 0)] [(0%nat, 0)] [(0%nat, 1)] 100 1 100 =
      LS_out_of_fuel /\
    line_search ZSO valueJ 8 [(0%nat, 0)] [(0%nat, 0)] [(0%nat, 1)] 100 1 100 =
      LS_giveup [(0%nat, 0)] /\
    line_search_old ZSO valueJ 7 [(0%nat, 0)] [(0%nat, 0)] [(0%nat, 1)] 100 1 100 =
      LS_out_of_fuel.
  Proof. vm_compute. repeat split; reflexivity. Qed.
End ZExample.

(** ** Sign-magnitude integers: an arithmetic with two zeros

    [(s, m)] is (-1)^s * m; [(false, 0)] is +0 and [(true, 0)] is -0.  The sign
    rules are the IEEE ones: a product or quotient carries the xor of the
    signs, x + (-x) = +0, (-0) + (-0) = -0, comparisons do not see the sign of
    a zero, x / 0 is an infinity (here: a magnitude that is not finite).
    "Finite" means m < 2^10 and halving truncates, so that halving a finite
    step reaches a zero within 10 halvings: the hypothesis of the termination
    theorem holds.

    The value function looks at the sign of a zero (as atan2(v, -1) does): with
    the OLD loop, the step underflows to zero, the trial point for step 0 is
    -0 - (+0 * -1) = -0 - (-0) = +0, not the current point -0, the residual
    there differs, no exit test fires, and halving zero gives zero: the loop
    never ends.  The repaired loop gives up on the zero step. *)
Module SignedZero.
  Local Open Scope Z_scope.
  Definition sz := (bool * Z)%type.
  Definition pz : sz := (false, 0).
  Definition nz : sz := (true, 0).
  Definition of_Z (z : Z) : sz := (z <? 0, Z.abs z).
  Definition to_Z (a : sz) : Z := if fst a then - snd a else snd a.
  Definition sz_neg (a : sz) : sz := (negb (fst a), snd a).
  Definition sz_add (a b : sz) : sz :=
    if Bool.eqb (fst a) (fst b) then (fst a, snd a + snd b)
    else if snd b <? snd a then (fst a, snd a - snd b)
    else if snd a <? snd b then (fst b, snd b - snd a)
    else pz.
  Definition sz_mul (a b : sz) : sz := (xorb (fst a) (fst b), snd a * snd b).
  Definition sz_div (a b : sz) : sz :=
    (xorb (fst a) (fst b), if snd b =? 0 then 2 ^ 20 else Z.quot (snd a) (snd b)).
  Definition sz_halve (a : sz) : sz := (fst a, Z.quot (snd a) 2).

  Definition SZO : @sops sz := {|
    s_zero := pz; s_eps := of_Z 1; s_half := pz;
    s_fabs := fun a => (false, snd a);
    s_ltb := fun a b => to_Z a <? to_Z b;
    s_geb := fun a b => to_Z a >=? to_Z b;
    s_isfinite := fun a => Z.abs (snd a) <? 2 ^ 10;
    s_iszero := fun a => snd a =? 0;
    s_add := sz_add; s_sub := fun a b => sz_add a (sz_neg b);
    s_mul := sz_mul; s_div := sz_div;
    s_sq := fun a => sz_mul a a;
    s_halve := sz_halve;
    s_mul_d := fun a _ => sz_halve a |}.

  Lemma iter_halve (n : nat) s m :
    Nat.iter n sz_halve (s, m) = (s, Nat.iter n (fun a => Z.quot a 2) m).
  Proof.
    induction n as [|n IH]; [reflexivity|].
    change (Nat.iter (S n) sz_halve (s, m)) with (sz_halve (Nat.iter n sz_halve (s, m))).
    rewrite IH. reflexivity.
  Qed.

  (** the hypothesis of [find_root_terminates] holds, with K = 10 *)
  Lemma SZ_halving_reaches_zero : forall s,
    s_isfinite SZO s = true ->
    exists k, (k <= 10)%nat /\ s_iszero SZO (Nat.iter k (s_halve SZO) s) = true.
  Proof.
    intros [s m] F. exists 10%nat. split; [lia|].
    cbn [s_isfinite s_halve s_iszero SZO snd] in *. apply Z.ltb_lt in F.
    rewrite iter_halve. cbn [snd]. rewrite (ZExample.halvings_vanish 10 m F). reflexivity.
  Qed.

  (** 2 at -0, 5 everywhere else (+0 included) *)
  Definition valueS (ev : @assign sz) : sz :=
    match aget ev 0%nat with
    | Some (true, 0) => of_Z 2
    | _ => of_Z 5
    end.
  Definition gradientS (_ : @assign sz) : @assign sz := [(0%nat, of_Z (-1))].

  Definition varsS : @assign sz := [(0%nat, nz)].
  Definition dsS : @assign sz := [(0%nat, of_Z (-1))].

  (** the trial point for a zero step is not the current point *)
  Example trial_zero_step_moves :
    trial SZO varsS dsS pz = [(0%nat, pz)] /\ trial SZO varsS dsS pz <> varsS.
  Proof. split; [reflexivity|discriminate]. Qed.

  Lemma old_loop_spins fuel : forall x,
    line_search_old SZO valueS fuel [(0%nat, x)] varsS dsS (of_Z 2) (of_Z 1) pz
    = LS_out_of_fuel.
  Proof.
    induction fuel as [|f IH]; intros x; [reflexivity|].
    transitivity (line_search_old SZO valueS f [(0%nat, pz)] varsS dsS (of_Z 2) (of_Z 1) pz);
      [reflexivity|apply IH].
  Qed.

  (** The old loop, called as [outer] calls it (r = f(-0) = 2, slope = 1,
      first step r / slope = 2), runs out of ANY fuel: steps 2, 1, 0, 0, ... *)
  Theorem old_line_search_refuted : forall fuel,
    line_search_old SZO valueS fuel varsS varsS dsS (of_Z 2) (of_Z 1) (of_Z 2)
    = LS_out_of_fuel.
  Proof.
    intros [|[|[|f]]]; try reflexivity.
    transitivity (line_search_old SZO valueS (S f) [(0%nat, of_Z 1)] varsS dsS
                    (of_Z 2) (of_Z 1) pz); [reflexivity|apply old_loop_spins].
  Qed.

  (** the repaired loop gives up at the zero step and restores -0 *)
  Example new_line_search_gives_up :
    line_search SZO valueS 3 varsS varsS dsS (of_Z 2) (of_Z 1) (of_Z 2) = LS_giveup varsS.
  Proof. vm_compute. reflexivity. Qed.

  (** and the whole call returns, reporting the residual at the point it is at *)
  Example Example_signed_zero :
    find_root SZO valueS gradientS 5 11 4 [(0%nat, pz)] varsS [] =
    Done (of_Z 2) varsS varsS 1.
  Proof. vm_compute. reflexivity. Qed.

  Theorem SZ_find_root_total (value : @assign sz -> sz) (gradient : @assign sz -> @assign sz)
      gas ev0 vars mask :
    find_root SZO value gradient (S gas) 11 gas ev0 vars mask <> OutOfFuel.
  Proof.
    apply (find_root_terminates SZO value gradient 10 SZ_halving_reaches_zero); lia.
  Qed.
End SignedZero.

Notation old_line_search_refuted := SignedZero.old_line_search_refuted.

Print Assumptions residual_consistent.
Print Assumptions masked_untouched.
Print Assumptions absent_untouched.
Print Assumptions outer_bounded.
Print Assumptions inner_terminates.
Print Assumptions find_root_terminates.
Print Assumptions ZExample.Z_find_root_total.
Print Assumptions SignedZero.SZ_halving_reaches_zero.
Print Assumptions SignedZero.old_line_search_refuted.
Print Assumptions SignedZero.SZ_find_root_total.
