(* C04 on a uniform grid: the dual-contouring mesh of Render/DCGrid.v IS the boundary of the set
   of inside lattice points, at lattice resolution, and it lies within one cell of the zero set
   of any field that is continuous along lattice edges and has the signs [ins] at the lattice
   points.

   PART A (combinatorial, over Z^3)
   quad_empty, quad_shape   [quad ins d A p] is [] when the lattice edge (A, p) does not change
                            sign, and otherwise the two triangles [quad_of ...] over the four
                            vertices [hv ins A p o], o = q + r, r, q, 0: one vertex in each of the
                            four cells p - bits o around the edge.
   quad_nonempty_iff        quad <> [] <-> sign_change.
   quad_length              2 triangles when the edge changes sign, 0 otherwise.
   quad_vertices_cells      every vertex of an emitted triangle is [hv ins A p o] for one of the
                            four o: its cell is p - bits o and its patch index is >= 0.
   quad_uses_four_cells     and each of the four is used.
   mesh_size                length (dc_mesh ins diag E) = 2 * #(sign-changing edges of E).
   mesh_size_exact          = 2 * length E when E lists sign-changing edges only.
   mesh_size_finite         = 2 * length (edges_of S) for a finite solid S.
   covers_allows_spare_edges  [covers] alone does not give 2 * length E (it allows E to list
                            edges without sign change): a concrete E.
   crossings_parity         DISCRETE SEPARATION: along any lattice path the number of steps whose
                            lattice edge changes sign is odd iff the two ends differ in [ins].
   crossings_are_quads      these steps are exactly the steps whose lattice edge carries a quad
                            of the mesh, and under [covers] that edge is listed in E.
   inside_outside_separated, same_side_even
                            corollaries: a path from an inside to an outside point crosses an
                            odd number (so at least one) of quads; a path between points on the
                            same side, in particular a closed path, an even number.
   quad_orientation         ORIENTATION: with o_k the cell origins of a triangle (a, b, c),
                            (o_b - o_a) x (o_c - o_a) = + bits A when the inside end of the edge
                            is p (outside end p + A), and - bits A when the inside end is p + A:
                            for both triangles and both diagonals.  The triangles are wound
                            counter-clockwise seen from OUTSIDE, i.e. right-hand normals point
                            from the filled to the empty lattice point (the direction in which
                            f increases: libfive's outward normals).
   winding_sign_quad        the same as a sign: +1 / -1.

   PART B (geometric, over R^3, grid origin og, spacing h)
   sign_change_has_zero     IVT on a lattice edge.
   edge_in_cells            the whole lattice edge lies in each of the four closed cells
                            around it.
   quad_cells_meet_surface  one zero of f lies in the cells of all vertices of the quad.
   cell_diameter            two points of one cell are at Euclidean distance <= sqrt 3 * h.
   vertices_near_surface    a quad vertex placed inside its own cell (hypothesis, = C19 for the
                            simplex / hybrid meshers; NOT guaranteed by dual contouring) is
                            within sqrt 3 * h (Euclidean) of a zero of f.
   thin_feature_invisible   a ball of radius 1/4 centred in a unit cell: continuous field, f < 0
                            at the centre, zeros inside the cell, all lattice points outside,
                            empty mesh.  Corner signs cannot give a converse; interval pruning
                            (Render/Pruning.v) is what bounds the surface from the other side.

   mesh_vertices_near_surface  the same for every vertex of a whole mesh [dc_mesh ins diag E].
   sphere_signs, sphere_example  the hypotheses of part B hold for the ball of radius 1/2 on the
                            unit grid ([one_ins], 12 triangles): non-vacuity with surface present.
   (Render/DCBoundaryCont.v: [ball_f] is continuous on R^3 in Coquelicot's sense, and every
   field continuous on R^3 satisfies [edge_continuous] on every lattice edge.)

   PART C  computed examples on [block_S], [diag_S] of DCGridSem.v: edge / triangle counts,
   paths with 1, 2 and 4 crossings, normals of two opposite quads of the block.

   quads_are_boundary_edges, dc_separates, dc_orientation   the statements of part A bundled as
   quoted by Props/Properties_C04.v. *)
From Coq Require Import List ZArith Bool Lia Permutation.
From LF Require Import Gen.MarchTables_gen Render.DCGrid Render.DCGridSem.
Import ListNotations.
Local Open Scope Z_scope.

(* ================================================================== *)
(* PART A                                                              *)
(* ================================================================== *)

(* ------------------------------------------------------------------ *)
(* A1. the quad of a lattice edge                                      *)
(* ------------------------------------------------------------------ *)

(* the two triangles over v0 .. v3 (cells p-Q-R, p-R, p-Q, p), D = inside end first *)
Definition quad_of (D d : bool) (v0 v1 v2 v3 : vertex) : list tri :=
  let '(w1, w2) := if D then (v1, v2) else (v2, v1) in
  if d then [(v0, w1, w2); (w2, w1, v3)] else [(v0, w1, v3); (v0, v3, w2)].

Lemma sign_change_eqb ins A p :
  sign_change ins (A, p) = negb (Bool.eqb (ins p) (ins (padd p (bits A)))).
Proof. reflexivity. Qed.

Lemma quad_empty ins d A p : sign_change ins (A, p) = false -> quad ins d A p = [].
Proof.
  rewrite sign_change_eqb. intros HS. unfold quad. cbv zeta.
  destruct (Bool.eqb (ins p) (ins (padd p (bits A)))); [|discriminate].
  match goal with |- context [if ?b then _ else _] => destruct b end; reflexivity.
Qed.

Lemma psub2_bits A p : is_axis A = true ->
  psub (psub p (bits (Qax A))) (bits (Rax A)) = psub p (bits (Qax A + Rax A)).
Proof. intros HA. destruct (is_axis_cases A HA) as [-> | [-> | ->]]; pt_eq. Qed.

Theorem quad_shape ins d A p :
  is_axis A = true -> sign_change ins (A, p) = true ->
  quad ins d A p =
  quad_of (ins p) d (hv ins A p (Qax A + Rax A)) (hv ins A p (Rax A)) (hv ins A p (Qax A))
          (hv ins A p 0).
Proof.
  intros HA HS.
  assert (Amb : forall o, In o [0; Qax A; Rax A; Qax A + Rax A] ->
                          ambiguous ins (psub p (bits o)) = true)
    by (intros o Ho; apply (sign_change_ambiguous ins A p o HA Ho HS)).
  pose proof (Amb 0) as A3. rewrite psub_bits0 in A3.
  pose proof (Amb (Qax A)) as A2. pose proof (Amb (Rax A)) as A1.
  pose proof (Amb (Qax A + Rax A)) as A0. rewrite <- (psub2_bits A p HA) in A0.
  unfold quad. cbv zeta.
  rewrite A0, A1, A2, A3 by (cbn [In]; tauto).
  cbn [andb negb].
  rewrite sign_change_eqb in HS.
  destruct (Bool.eqb (ins p) (ins (padd p (bits A)))); [discriminate|].
  unfold quad_of, hv, dirE. rewrite psub_bits0, (psub2_bits A p HA).
  cbn [map nth fst snd].
  destruct (is_axis_cases A HA) as [-> | [-> | ->]]; cbn [Qax Rax Z.eqb Pos.eqb Z.add Pos.add];
    destruct (ins p); destruct d; reflexivity.
Qed.

Lemma quad_of_length D d v0 v1 v2 v3 : length (quad_of D d v0 v1 v2 v3) = 2%nat.
Proof. destruct D, d; reflexivity. Qed.

Theorem quad_length ins d A p : is_axis A = true ->
  length (quad ins d A p) = if sign_change ins (A, p) then 2%nat else 0%nat.
Proof.
  intros HA. destruct (sign_change ins (A, p)) eqn:HS.
  - rewrite quad_shape by assumption. apply quad_of_length.
  - rewrite quad_empty by assumption. reflexivity.
Qed.

Theorem quad_nonempty_iff ins d A p : is_axis A = true ->
  (quad ins d A p <> [] <-> sign_change ins (A, p) = true).
Proof.
  intros HA. pose proof (quad_length ins d A p HA) as L.
  destruct (sign_change ins (A, p)); split; intros H; try reflexivity.
  - intros E. rewrite E in L. discriminate.
  - destruct (quad ins d A p); [elim H; reflexivity | discriminate].
  - discriminate.
Qed.

Definition tri_verts (t : tri) : list vertex := let '(a, b, c) := t in [a; b; c].
Definition mesh_verts (m : list tri) : list vertex := flat_map tri_verts m.
Definition around (A : Z) : list Z := [0; Qax A; Rax A; Qax A + Rax A].

Lemma hv_cell ins A p o : fst (hv ins A p o) = psub p (bits o).
Proof. reflexivity. Qed.

(* every vertex of the quad is the vertex [hv] of one of the four cells around the edge, with a
   valid patch index *)
Theorem quad_vertices_cells ins d A p v :
  is_axis A = true -> In v (mesh_verts (quad ins d A p)) ->
  sign_change ins (A, p) = true /\
  exists o, In o (around A) /\ v = hv ins A p o /\ fst v = psub p (bits o) /\ 0 <= snd v.
Proof.
  intros HA Hv.
  destruct (sign_change ins (A, p)) eqn:HS.
  2:{ rewrite quad_empty in Hv by assumption. destruct Hv. }
  split; [reflexivity|].
  rewrite quad_shape in Hv by assumption.
  assert (K : forall o, In o (around A) -> v = hv ins A p o ->
                        exists o, In o (around A) /\ v = hv ins A p o /\ fst v = psub p (bits o) /\ 0 <= snd v).
  { intros o Ho ->. exists o. split; [exact Ho|]. split; [reflexivity|]. split; [reflexivity|].
    apply hv_patch_valid; assumption. }
  unfold quad_of, mesh_verts in Hv.
  destruct (ins p), d; cbn [flat_map tri_verts app In] in Hv;
    repeat (destruct Hv as [Hv | Hv]; [symmetry in Hv; revert Hv; apply K; unfold around; cbn [In]; tauto|]);
    destruct Hv.
Qed.

(* and each of the four cells contributes its vertex *)
Theorem quad_uses_four_cells ins d A p o :
  is_axis A = true -> sign_change ins (A, p) = true -> In o (around A) ->
  In (hv ins A p o) (mesh_verts (quad ins d A p)).
Proof.
  intros HA HS Ho. rewrite quad_shape by assumption.
  unfold around in Ho. cbn [In] in Ho.
  unfold quad_of, mesh_verts.
  destruct Ho as [<- | [<- | [<- | [<- | []]]]];
    destruct (ins p), d; cbn [flat_map tri_verts app In]; tauto.
Qed.

(* ------------------------------------------------------------------ *)
(* A2. two triangles per boundary edge                                 *)
(* ------------------------------------------------------------------ *)

Theorem mesh_size ins diag E :
  (forall e, In e E -> is_axis (fst e) = true) ->
  length (dc_mesh ins diag E) = (2 * length (filter (sign_change ins) E))%nat.
Proof.
  unfold dc_mesh. induction E as [|[A p] E IH]; intros HE; [reflexivity|].
  cbn [flat_map filter fst snd]. rewrite app_length, IH by (intros e He; apply HE; right; exact He).
  rewrite quad_length by (apply (HE (A, p)); left; reflexivity).
  destruct (sign_change ins (A, p)); cbn [length]; lia.
Qed.

Lemma filter_all {X : Type} (f : X -> bool) l : (forall x, In x l -> f x = true) -> filter f l = l.
Proof.
  induction l as [|a l IH]; intros H; [reflexivity|].
  cbn [filter]. rewrite (H a (or_introl eq_refl)), IH; [reflexivity|].
  intros x Hx. apply H. right. exact Hx.
Qed.

Theorem mesh_size_exact ins diag E :
  covers ins E -> (forall e, In e E -> sign_change ins e = true) ->
  length (dc_mesh ins diag E) = (2 * length E)%nat.
Proof.
  intros [_ [HAx _]] HS. rewrite mesh_size by exact HAx. rewrite filter_all by exact HS. reflexivity.
Qed.

Lemma edges_of_sign_change S e : In e (edges_of S) -> sign_change (ins_of S) e = true.
Proof. unfold edges_of. intros H. apply nodup_In in H. apply filter_In in H. tauto. Qed.

Theorem mesh_size_finite S diag :
  length (dc_mesh (ins_of S) diag (edges_of S)) = (2 * length (edges_of S))%nat.
Proof. apply mesh_size_exact; [apply edges_of_covers | apply edges_of_sign_change]. Qed.

(* [covers] asks that every sign-changing edge be listed, not that only those be: a spare edge
   contributes no triangle *)
Lemma covers_spare ins E A p :
  covers ins E -> is_axis A = true -> ~ In (A, p) E -> covers ins ((A, p) :: E).
Proof.
  intros [ND [HAx HC]] HA HN. split; [constructor; assumption|]. split.
  - intros e [<- | He]; [exact HA | apply HAx; exact He].
  - intros A' p' HA' HS. right. apply HC; assumption.
Qed.

Lemma covers_allows_spare_edges :
  let E := (1, (5, 5, 5)) :: one_E in
  covers one_ins E /\ forall diag, length (dc_mesh one_ins diag E) <> (2 * length E)%nat.
Proof.
  split.
  - apply covers_spare; [exact one_covers | reflexivity |].
    unfold one_E. cbn [In]. intros H.
    repeat (destruct H as [H | H]; [discriminate H|]). exact H.
  - intros diag. change (dc_mesh one_ins diag ((1, (5, 5, 5)) :: one_E))
      with (quad one_ins (diag (1, (5, 5, 5))) 1 (5, 5, 5) ++ dc_mesh one_ins diag one_E).
    rewrite quad_empty by reflexivity. cbn [app]. rewrite one_mesh_size. discriminate.
Qed.

(* ------------------------------------------------------------------ *)
(* A3. discrete separation                                             *)
(* ------------------------------------------------------------------ *)

(* a lattice path: a start point and unit steps (axis, forward?) *)
Definition step := (Z * bool)%type.
Definition move (p : pt3) (s : step) : pt3 :=
  if snd s then padd p (bits (fst s)) else psub p (bits (fst s)).
(* the lattice edge a step runs along *)
Definition step_edge (p : pt3) (s : step) : ledge :=
  if snd s then (fst s, p) else (fst s, psub p (bits (fst s))).

Fixpoint path_end (p : pt3) (l : list step) : pt3 :=
  match l with [] => p | s :: l => path_end (move p s) l end.
Fixpoint path_edges (p : pt3) (l : list step) : list ledge :=
  match l with [] => [] | s :: l => step_edge p s :: path_edges (move p s) l end.
Fixpoint path_points (p : pt3) (l : list step) : list pt3 :=
  p :: match l with [] => [] | s :: l => path_points (move p s) l end.

Definition valid_path (l : list step) : Prop := forall s, In s l -> is_axis (fst s) = true.

(* number of steps whose two ends differ in [ins] *)
Definition crossings (ins : pt3 -> bool) (p : pt3) (l : list step) : nat :=
  length (filter (sign_change ins) (path_edges p l)).

(* number of steps whose lattice edge carries a (non-empty) quad of the mesh *)
Definition nonempty {X : Type} (l : list X) : bool := match l with [] => false | _ => true end.
Definition quads_crossed (ins : pt3 -> bool) (diag : ledge -> bool) (p : pt3) (l : list step) : nat :=
  length (filter (fun e => nonempty (quad ins (diag e) (fst e) (snd e))) (path_edges p l)).

Lemma padd_psub p t : padd (psub p t) t = p.
Proof. pt_eq. Qed.

Lemma step_sign_change ins p s :
  sign_change ins (step_edge p s) = xorb (ins p) (ins (move p s)).
Proof.
  destruct s as [A dir]. unfold step_edge, move, sign_change. cbn [fst snd].
  destruct dir; cbn [fst snd].
  - destruct (ins p), (ins (padd p (bits A))); reflexivity.
  - rewrite padd_psub. destruct (ins p), (ins (psub p (bits A))); reflexivity.
Qed.

Lemma crossings_cons ins p s l :
  crossings ins p (s :: l) =
  ((if xorb (ins p) (ins (move p s)) then 1 else 0) + crossings ins (move p s) l)%nat.
Proof.
  unfold crossings. cbn [path_edges filter]. rewrite step_sign_change.
  destruct (xorb (ins p) (ins (move p s))); reflexivity.
Qed.

(* DISCRETE SEPARATION (Jordan, at lattice resolution) *)
Theorem crossings_parity ins p l :
  Nat.odd (crossings ins p l) = xorb (ins p) (ins (path_end p l)).
Proof.
  revert p. induction l as [|s l IH]; intros p.
  - cbn. rewrite xorb_nilpotent. reflexivity.
  - rewrite crossings_cons. cbn [path_end].
    specialize (IH (move p s)).
    destruct (xorb (ins p) (ins (move p s))) eqn:X.
    + change (1 + crossings ins (move p s) l)%nat with (S (crossings ins (move p s) l)).
      rewrite Nat.odd_succ, <- Nat.negb_odd, IH.
      destruct (ins p), (ins (move p s)), (ins (path_end (move p s) l)); try reflexivity; discriminate.
    + cbn [Nat.add]. rewrite IH.
      destruct (ins p), (ins (move p s)), (ins (path_end (move p s) l)); try reflexivity; discriminate.
Qed.

Lemma path_edges_axis p l e : valid_path l -> In e (path_edges p l) -> is_axis (fst e) = true.
Proof.
  revert p e. induction l as [|s l IH]; intros p e HV; [intros []|].
  cbn [path_edges In]. intros [<- | He].
  - destruct s as [A dir]. unfold step_edge. cbn [fst snd].
    destruct dir; [apply (HV (A, true)) | apply (HV (A, false))]; left; reflexivity.
  - apply (IH (move p s)); [|exact He]. intros s' Hs'. apply HV. right. exact Hs'.
Qed.

Lemma filter_ext_in_len {X : Type} (f g : X -> bool) l :
  (forall x, In x l -> f x = g x) -> length (filter f l) = length (filter g l).
Proof. intros H. rewrite (filter_ext_in f g l H). reflexivity. Qed.

(* the counted steps are those that pass through a quad of the mesh *)
Theorem crossings_are_quads ins diag p l :
  valid_path l -> crossings ins p l = quads_crossed ins diag p l.
Proof.
  intros HV. unfold crossings, quads_crossed. apply filter_ext_in_len.
  intros [A q] He. cbn [fst snd].
  pose proof (path_edges_axis p l _ HV He) as HA. cbn [fst] in HA.
  pose proof (quad_length ins (diag (A, q)) A q HA) as L.
  destruct (sign_change ins (A, q)); destruct (quad ins (diag (A, q)) A q); try reflexivity; discriminate.
Qed.

(* and the crossed quads belong to the mesh: their lattice edges are listed in E *)
Theorem crossed_edges_in_mesh ins E p l e :
  covers ins E -> valid_path l -> In e (path_edges p l) -> sign_change ins e = true ->
  In e E /\ forall diag t, In t (quad ins (diag e) (fst e) (snd e)) -> In t (dc_mesh ins diag E).
Proof.
  intros [_ [_ HC]] HV He HS. destruct e as [A q].
  pose proof (path_edges_axis p l _ HV He) as HA. cbn [fst] in HA.
  assert (I : In (A, q) E) by (apply HC; assumption).
  split; [exact I|]. intros diag t Ht. unfold dc_mesh. apply in_flat_map.
  exists (A, q). split; assumption.
Qed.

Corollary inside_outside_separated ins diag p l :
  valid_path l -> ins p = true -> ins (path_end p l) = false ->
  Nat.odd (quads_crossed ins diag p l) = true /\ (1 <= quads_crossed ins diag p l)%nat.
Proof.
  intros HV H1 H2. rewrite <- (crossings_are_quads ins diag p l HV).
  pose proof (crossings_parity ins p l) as H. rewrite H1, H2 in H. cbn in H.
  split; [exact H|]. destruct (crossings ins p l); [discriminate | lia].
Qed.

Corollary same_side_even ins diag p l :
  valid_path l -> ins (path_end p l) = ins p -> Nat.even (quads_crossed ins diag p l) = true.
Proof.
  intros HV H1. rewrite <- (crossings_are_quads ins diag p l HV).
  pose proof (crossings_parity ins p l) as H. rewrite H1, xorb_nilpotent in H.
  rewrite <- Nat.negb_odd, H. reflexivity.
Qed.

Corollary closed_path_even ins diag p l :
  valid_path l -> path_end p l = p -> Nat.even (quads_crossed ins diag p l) = true.
Proof. intros HV H. apply same_side_even; [exact HV | rewrite H; reflexivity]. Qed.

(* ------------------------------------------------------------------ *)
(* A4. orientation                                                     *)
(* ------------------------------------------------------------------ *)

Definition cross (u v : pt3) : pt3 :=
  let '(a, b, c) := u in let '(x, y, z) := v in (b * z - c * y, c * x - a * z, a * y - b * x).
Definition comp (A : Z) (u : pt3) : Z :=
  let '(a, b, c) := u in if A =? 1 then a else if A =? 2 then b else c.
Definition pneg (u : pt3) : pt3 := let '(a, b, c) := u in (- a, - b, - c).

(* right-hand normal (twice the area vector) of the triangle of CELL ORIGINS of t *)
Definition tri_normal (t : tri) : pt3 :=
  let '(a, b, c) := t in cross (psub (fst b) (fst a)) (psub (fst c) (fst a)).
Definition winding_sign (A : Z) (t : tri) : Z := Z.sgn (comp A (tri_normal t)).

Lemma quad_of_normal D d A p k0 k1 k2 k3 t :
  is_axis A = true ->
  In t (quad_of D d (psub p (bits (Qax A + Rax A)), k0) (psub p (bits (Rax A)), k1)
                    (psub p (bits (Qax A)), k2) (psub p (bits 0), k3)) ->
  tri_normal t = if D then bits A else pneg (bits A).
Proof.
  intros HA. destruct p as [[x y] z].
  destruct (is_axis_cases A HA) as [-> | [-> | ->]]; cbn [Qax Rax Z.eqb Pos.eqb Z.add Pos.add];
    repeat match goal with
           | |- context [bits ?k] => let v := eval vm_compute in (bits k) in change (bits k) with v
           end;
    unfold quad_of; destruct D, d; cbn [In];
    intros [<- | [<- | []]]; unfold tri_normal, cross, pneg; cbn [fst snd psub];
    (apply (f_equal2 (@pair (Z * Z) Z)); [apply (f_equal2 (@pair Z Z))|]; ring).
Qed.

(* ORIENTATION *)
Theorem quad_orientation ins d A p t :
  is_axis A = true -> In t (quad ins d A p) ->
  tri_normal t = if ins p then bits A else pneg (bits A).
Proof.
  intros HA Ht.
  destruct (sign_change ins (A, p)) eqn:HS.
  2:{ rewrite quad_empty in Ht by assumption. destruct Ht. }
  rewrite quad_shape in Ht by assumption. unfold hv in Ht.
  exact (quad_of_normal _ _ _ _ _ _ _ _ _ HA Ht).
Qed.

Theorem winding_sign_quad ins d A p t :
  is_axis A = true -> In t (quad ins d A p) ->
  winding_sign A t = if ins p then 1 else -1.
Proof.
  intros HA Ht. unfold winding_sign. rewrite (quad_orientation ins d A p t HA Ht).
  destruct (is_axis_cases A HA) as [-> | [-> | ->]]; destruct (ins p); reflexivity.
Qed.

(* the inside end of a sign-changing edge *)
Lemma inside_end ins A p : sign_change ins (A, p) = true ->
  (ins p = true /\ ins (padd p (bits A)) = false) \/ (ins p = false /\ ins (padd p (bits A)) = true).
Proof.
  rewrite sign_change_eqb. destruct (ins p), (ins (padd p (bits A))); cbn; intros H;
    try discriminate; tauto.
Qed.

(* ================================================================== *)
(* PART B: the lattice embedded in R^3                                 *)
(* ================================================================== *)
From Coq Require Import Reals Lra Ranalysis5.
Local Open Scope R_scope.

Definition R3 := (R * R * R)%type.
Definition radd (x y : R3) : R3 :=
  let '(a, b, c) := x in let '(u, v, w) := y in (a + u, b + v, c + w).
Definition rscale (k : R) (x : R3) : R3 := let '(a, b, c) := x in (k * a, k * b, k * c).
Definition IZR3 (p : pt3) : R3 := let '(a, b, c) := p in (IZR a, IZR b, IZR c).

(* position of the lattice point p: grid origin og, spacing h *)
Definition pos (h : R) (og : R3) (p : pt3) : R3 := radd og (rscale h (IZR3 p)).
(* the point at parameter t in [0, 1] on the lattice edge (A, p): pos p + t h e_A *)
Definition edge_pt (h : R) (og : R3) (A : Z) (p : pt3) (t : R) : R3 :=
  radd (pos h og p) (rscale (t * h) (IZR3 (bits A))).
(* the closed cell with origin c: the cube [pos c, pos (c + (1,1,1))] *)
Definition in_cell (h : R) (og : R3) (c : pt3) (x : R3) : Prop :=
  let '(l1, l2, l3) := pos h og c in
  let '(u1, u2, u3) := pos h og (padd c (1, 1, 1)%Z) in
  let '(x1, x2, x3) := x in
  l1 <= x1 <= u1 /\ l2 <= x2 <= u2 /\ l3 <= x3 <= u3.
Definition dist (x y : R3) : R :=
  let '(a, b, c) := x in let '(u, v, w) := y in
  sqrt ((a - u) * (a - u) + (b - v) * (b - v) + (c - w) * (c - w)).

Ltac r3_eq := apply (f_equal2 (@pair (R * R) R)); [apply (f_equal2 (@pair R R))|].
Ltac bits_compute :=
  repeat match goal with
         | |- context [bits ?k] => let v := eval vm_compute in (bits k) in change (bits k) with v
         end.

Lemma edge_pt_0 h og A p : edge_pt h og A p 0 = pos h og p.
Proof.
  unfold edge_pt, pos. destruct og as [[o1 o2] o3], p as [[a b] c].
  destruct (IZR3 (bits A)) as [[e1 e2] e3]. cbn [IZR3 radd rscale]. r3_eq; ring.
Qed.

Lemma edge_pt_1 h og A p : is_axis A = true -> edge_pt h og A p 1 = pos h og (padd p (bits A)).
Proof.
  intros HA. unfold edge_pt, pos. destruct og as [[o1 o2] o3], p as [[a b] c].
  destruct (is_axis_cases A HA) as [-> | [-> | ->]]; bits_compute;
    cbn [IZR3 radd rscale padd]; rewrite !plus_IZR; r3_eq; ring.
Qed.

Definition edge_continuous (f : R3 -> R) (h : R) (og : R3) (A : Z) (p : pt3) : Prop :=
  forall t, 0 <= t <= 1 -> continuity_pt (fun s => f (edge_pt h og A p s)) t.

(* B5.  IVT on a lattice edge *)
Theorem sign_change_has_zero (f : R3 -> R) h og A p :
  is_axis A = true -> edge_continuous f h og A p ->
  (f (pos h og p) < 0 < f (pos h og (padd p (bits A))) \/
   f (pos h og (padd p (bits A))) < 0 < f (pos h og p)) ->
  exists t, 0 <= t <= 1 /\ f (edge_pt h og A p t) = 0.
Proof.
  intros HA HC HS. rewrite <- (edge_pt_0 h og A p), <- (edge_pt_1 h og A p HA) in HS.
  destruct HS as [[H0 H1] | [H1 H0]].
  - destruct (IVT_interv (fun s => f (edge_pt h og A p s)) 0 1 HC) as [z [Hz Ez]];
      [lra | exact H0 | exact H1 |].
    exists z. split; assumption.
  - destruct (IVT_interv (fun s => - f (edge_pt h og A p s)) 0 1) as [z [Hz Ez]].
    + intros a Ha. apply (continuity_pt_opp (fun s => f (edge_pt h og A p s))). apply HC. exact Ha.
    + lra.
    + lra.
    + lra.
    + exists z. split; [exact Hz | lra].
Qed.

(* the sign data of the mesher at a lattice point, strictly: FILLED means f < 0, EMPTY 0 < f.
   (libfive decides f = 0 at a corner by a separate isInside test; such corners are excluded) *)
Definition sign_at (ins : pt3 -> bool) (f : R3 -> R) h og (p : pt3) : Prop :=
  if ins p then f (pos h og p) < 0 else 0 < f (pos h og p).

Theorem sign_change_edge_has_zero ins (f : R3 -> R) h og A p :
  is_axis A = true -> edge_continuous f h og A p ->
  sign_at ins f h og p -> sign_at ins f h og (padd p (bits A)) ->
  sign_change ins (A, p) = true ->
  exists t, 0 <= t <= 1 /\ f (edge_pt h og A p t) = 0.
Proof.
  intros HA HC S0 S1 HS. apply sign_change_has_zero; [exact HA | exact HC |].
  unfold sign_at in S0, S1.
  destruct (inside_end ins A p HS) as [[E0 E1] | [E0 E1]]; rewrite E0 in S0; rewrite E1 in S1;
    [left | right]; split; assumption.
Qed.

(* B6.  the edge lies in each of the four closed cells around it *)
Theorem edge_in_cells h og A p o t :
  0 <= h -> is_axis A = true -> In o (around A) -> 0 <= t <= 1 ->
  in_cell h og (psub p (bits o)) (edge_pt h og A p t).
Proof.
  intros Hh HA Ho Ht. unfold around in Ho.
  assert (T : 0 <= t * h <= h) by nra.
  unfold in_cell, edge_pt, pos. destruct og as [[o1 o2] o3], p as [[a b] c].
  destruct (is_axis_cases A HA) as [-> | [-> | ->]]; cbn [In Qax Rax Z.eqb Pos.eqb Z.add Pos.add] in Ho;
    destruct Ho as [<- | [<- | [<- | [<- | []]]]]; bits_compute;
    cbn [IZR3 radd rscale padd psub]; rewrite ?plus_IZR, ?minus_IZR;
    generalize dependent (t * h); intros th T; repeat split; nra.
Qed.

(* one zero of f lies in the cells of all the vertices of the quad *)
Theorem quad_cells_meet_surface ins (f : R3 -> R) h og d A p :
  0 <= h -> is_axis A = true -> edge_continuous f h og A p ->
  sign_at ins f h og p -> sign_at ins f h og (padd p (bits A)) ->
  quad ins d A p <> [] ->
  exists z, f z = 0 /\ (exists t, 0 <= t <= 1 /\ z = edge_pt h og A p t) /\
            forall v, In v (mesh_verts (quad ins d A p)) -> in_cell h og (fst v) z.
Proof.
  intros Hh HA HC S0 S1 HQ. apply quad_nonempty_iff in HQ; [|exact HA].
  destruct (sign_change_edge_has_zero ins f h og A p HA HC S0 S1 HQ) as [t [Ht Hz]].
  exists (edge_pt h og A p t). split; [exact Hz|]. split; [exists t; split; [exact Ht | reflexivity]|].
  intros v Hv. destruct (quad_vertices_cells ins d A p v HA Hv) as [_ [o [Ho [_ [Hc _]]]]].
  rewrite Hc. apply edge_in_cells; assumption.
Qed.

Lemma sq_le_of_bounds l x y h : 0 <= h -> l <= x <= l + h -> l <= y <= l + h -> (x - y) * (x - y) <= h * h.
Proof. intros. nra. Qed.

(* Euclidean diameter of a cell *)
Theorem cell_diameter h og c x y :
  0 <= h -> in_cell h og c x -> in_cell h og c y -> dist x y <= sqrt 3 * h.
Proof.
  intros Hh. unfold in_cell, pos, dist.
  destruct og as [[o1 o2] o3], c as [[a b] c], x as [[x1 x2] x3], y as [[y1 y2] y3].
  cbn [IZR3 radd rscale padd]. rewrite !plus_IZR.
  replace (o1 + h * (IZR a + 1)) with (o1 + h * IZR a + h) by ring.
  replace (o2 + h * (IZR b + 1)) with (o2 + h * IZR b + h) by ring.
  replace (o3 + h * (IZR c + 1)) with (o3 + h * IZR c + h) by ring.
  intros [X1 [X2 X3]] [Y1 [Y2 Y3]].
  pose proof (sq_le_of_bounds _ _ _ _ Hh X1 Y1) as B1.
  pose proof (sq_le_of_bounds _ _ _ _ Hh X2 Y2) as B2.
  pose proof (sq_le_of_bounds _ _ _ _ Hh X3 Y3) as B3.
  replace (sqrt 3 * h) with (sqrt (3 * (h * h)))
    by (rewrite sqrt_mult by nra; rewrite (sqrt_square h Hh); reflexivity).
  apply sqrt_le_1_alt. lra.
Qed.

(* a vertex placed inside its cell is within one cell diagonal of a zero of f *)
Theorem vertices_near_surface ins (f : R3 -> R) h og d A p (vpos : vertex -> R3) :
  0 <= h -> is_axis A = true -> edge_continuous f h og A p ->
  sign_at ins f h og p -> sign_at ins f h og (padd p (bits A)) ->
  quad ins d A p <> [] ->
  exists z, f z = 0 /\
    forall v, In v (mesh_verts (quad ins d A p)) -> in_cell h og (fst v) (vpos v) ->
              dist (vpos v) z <= sqrt 3 * h.
Proof.
  intros Hh HA HC S0 S1 HQ.
  destruct (quad_cells_meet_surface ins f h og d A p Hh HA HC S0 S1 HQ) as [z [Hz [_ Hc]]].
  exists z. split; [exact Hz|]. intros v Hv Hin. apply (cell_diameter h og (fst v)); auto.
Qed.

(* the same for a whole mesh *)
Theorem mesh_vertices_near_surface ins (f : R3 -> R) h og diag E (vpos : vertex -> R3) :
  0 <= h -> (forall e, In e E -> is_axis (fst e) = true) ->
  (forall A p, is_axis A = true -> edge_continuous f h og A p) ->
  (forall p, sign_at ins f h og p) ->
  forall v, In v (mesh_verts (dc_mesh ins diag E)) -> in_cell h og (fst v) (vpos v) ->
    exists z, f z = 0 /\ in_cell h og (fst v) z /\ dist (vpos v) z <= sqrt 3 * h.
Proof.
  intros Hh HAx HC HS v Hv Hin.
  unfold mesh_verts, dc_mesh in Hv. apply in_flat_map in Hv. destruct Hv as [t [Ht Hv]].
  apply in_flat_map in Ht. destruct Ht as [[A p] [He Ht]]. cbn [fst snd] in Ht.
  pose proof (HAx _ He) as HA. cbn [fst] in HA.
  assert (HQ : quad ins (diag (A, p)) A p <> []) by (intros E0; rewrite E0 in Ht; destruct Ht).
  destruct (quad_cells_meet_surface ins f h og (diag (A, p)) A p Hh HA (HC A p HA) (HS p) (HS _) HQ)
    as [z [Hz [_ Hc]]].
  assert (Hv' : In v (mesh_verts (quad ins (diag (A, p)) A p)))
    by (unfold mesh_verts; apply in_flat_map; exists t; split; assumption).
  exists z. split; [exact Hz|]. split; [apply Hc; exact Hv'|].
  apply (cell_diameter h og (fst v)); auto.
Qed.

(* ------------------------------------------------------------------ *)
(* B7. no converse from corner signs: a feature thinner than the grid  *)
(* ------------------------------------------------------------------ *)

Definition O3R : R3 := (0, 0, 0).

(* the ball of radius 1/4 centred at (1/2, 1/2, 1/2), the centre of the unit cell at the origin *)
Definition ball_f (x : R3) : R :=
  let '(a, b, c) := x in
  (a - / 2) * (a - / 2) + (b - / 2) * (b - / 2) + (c - / 2) * (c - / 2) - / 16.
(* the corner classification the mesher would compute for it on the unit grid *)
Definition ball_ins (p : pt3) : bool := if Rlt_dec (ball_f (pos 1 O3R p)) 0 then true else false.

Lemma half_int_sq (a : Z) : / 4 <= (IZR a - / 2) * (IZR a - / 2).
Proof.
  destruct (Z_le_gt_dec a 0) as [H | H].
  - apply IZR_le in H. nra.
  - assert (H' : (1 <= a)%Z) by lia. apply IZR_le in H'. nra.
Qed.

Lemma ball_lattice_outside p : 0 < ball_f (pos 1 O3R p).
Proof.
  destruct p as [[a b] c]. unfold ball_f, pos, O3R. cbn [IZR3 radd rscale].
  pose proof (half_int_sq a). pose proof (half_int_sq b). pose proof (half_int_sq c).
  replace (0 + 1 * IZR a) with (IZR a) by ring. replace (0 + 1 * IZR b) with (IZR b) by ring.
  replace (0 + 1 * IZR c) with (IZR c) by ring. lra.
Qed.

Lemma ball_ins_false p : ball_ins p = false.
Proof.
  unfold ball_ins. destruct (Rlt_dec (ball_f (pos 1 O3R p)) 0) as [H | H]; [|reflexivity].
  pose proof (ball_lattice_outside p). lra.
Qed.

Lemma ball_line_continuous x v : continuity (fun t => ball_f (radd x (rscale t v))).
Proof.
  destruct x as [[x1 x2] x3], v as [[v1 v2] v3]. unfold ball_f. cbn [radd rscale]. reg.
Qed.

Lemma ball_edge_continuity h og A p : continuity (fun s => ball_f (edge_pt h og A p s)).
Proof.
  unfold edge_pt, pos. destruct og as [[o1 o2] o3], p as [[a b] c], (IZR3 (bits A)) as [[e1 e2] e3].
  unfold ball_f. cbn [IZR3 radd rscale]. reg.
Qed.

Theorem thin_feature_invisible :
  (* continuous along every line, in particular along every lattice edge of every grid *)
  (forall x v, continuity (fun t => ball_f (radd x (rscale t v)))) /\
  (forall h og A p, edge_continuous ball_f h og A p) /\
  (* a solid region and a piece of surface inside the unit cell at the origin *)
  in_cell 1 O3R (0, 0, 0)%Z (/ 2, / 2, / 2) /\ ball_f (/ 2, / 2, / 2) < 0 /\
  in_cell 1 O3R (0, 0, 0)%Z (3 / 4, / 2, / 2) /\ ball_f (3 / 4, / 2, / 2) = 0 /\
  (* yet every lattice point is strictly outside, no lattice edge changes sign, no triangle *)
  (forall p, 0 < ball_f (pos 1 O3R p)) /\ (forall p, sign_at ball_ins ball_f 1 O3R p) /\
  (forall e, sign_change ball_ins e = false) /\
  (forall diag E, dc_mesh ball_ins diag E = []).
Proof.
  split; [exact ball_line_continuous|].
  split.
  { intros h og A p t _. apply ball_edge_continuity. }
  split; [unfold in_cell, pos, O3R; cbn [IZR3 radd rscale padd Z.add]; lra|].
  split; [unfold ball_f; lra|].
  split; [unfold in_cell, pos, O3R; cbn [IZR3 radd rscale padd Z.add]; lra|].
  split; [unfold ball_f; lra|].
  split; [exact ball_lattice_outside|].
  split; [intros p; unfold sign_at; rewrite ball_ins_false; apply ball_lattice_outside|].
  split; [intros [A p]; unfold sign_change; cbn [fst snd]; rewrite !ball_ins_false; reflexivity|].
  intros diag E. unfold dc_mesh. induction E as [|[A p] E IH]; [reflexivity|].
  cbn [flat_map fst snd]. rewrite IH, quad_empty; [reflexivity|].
  unfold sign_change. cbn [fst snd]. rewrite !ball_ins_false. reflexivity.
Qed.

(* ------------------------------------------------------------------ *)
(* B8. the hypotheses of part B are satisfiable with surface present   *)
(* ------------------------------------------------------------------ *)

(* the ball of radius 1/2 about the origin on the unit grid: exactly one lattice point inside
   ([one_ins] of DCGridSem.v), 6 sign-changing edges, 12 triangles *)
Definition sphere_f (x : R3) : R := let '(a, b, c) := x in a * a + b * b + c * c - / 4.
Definition centre (c : pt3) : R3 := radd (pos 1 O3R c) (/ 2, / 2, / 2).

Lemma nonzero_int_sq (a : Z) : a <> 0%Z -> 1 <= IZR a * IZR a.
Proof.
  intros H. destruct (Z_le_gt_dec a 0) as [H1 | H1].
  - assert (H' : (a <= -1)%Z) by lia. apply IZR_le in H'. nra.
  - assert (H' : (1 <= a)%Z) by lia. apply IZR_le in H'. nra.
Qed.

Lemma sphere_signs p : sign_at one_ins sphere_f 1 O3R p.
Proof.
  destruct p as [[a b] c]. unfold sign_at, one_ins, sphere_f, pos, O3R. cbn [IZR3 radd rscale].
  replace (0 + 1 * IZR a) with (IZR a) by ring. replace (0 + 1 * IZR b) with (IZR b) by ring.
  replace (0 + 1 * IZR c) with (IZR c) by ring.
  pose proof (Rle_0_sqr (IZR a)) as Qa. pose proof (Rle_0_sqr (IZR b)) as Qb.
  pose proof (Rle_0_sqr (IZR c)) as Qc. unfold Rsqr in Qa, Qb, Qc.
  destruct (Z.eqb_spec a 0) as [-> | Na]; [|pose proof (nonzero_int_sq a Na); cbn [andb]; lra].
  destruct (Z.eqb_spec b 0) as [-> | Nb]; [|pose proof (nonzero_int_sq b Nb); cbn [andb]; lra].
  destruct (Z.eqb_spec c 0) as [-> | Nc]; [|pose proof (nonzero_int_sq c Nc); cbn [andb]; lra].
  cbn [andb]. lra.
Qed.

Lemma sphere_edge_continuous h og A p : edge_continuous sphere_f h og A p.
Proof.
  intros t _. revert t. change (continuity (fun s => sphere_f (edge_pt h og A p s))).
  unfold edge_pt, pos. destruct og as [[o1 o2] o3], p as [[a b] c], (IZR3 (bits A)) as [[e1 e2] e3].
  unfold sphere_f. cbn [IZR3 radd rscale]. reg.
Qed.

Lemma centre_in_cell c : in_cell 1 O3R c (centre c).
Proof.
  destruct c as [[a b] c]. unfold in_cell, centre, pos, O3R. cbn [IZR3 radd rscale padd].
  rewrite !plus_IZR. lra.
Qed.

(* every vertex of the 12-triangle mesh around the ball, placed at the centre of its cell, is
   within sqrt 3 of a point of the sphere that lies in the same cell *)
Theorem sphere_example diag v :
  In v (mesh_verts (dc_mesh one_ins diag one_E)) ->
  exists z, sphere_f z = 0 /\ in_cell 1 O3R (fst v) z /\ dist (centre (fst v)) z <= sqrt 3.
Proof.
  intros Hv.
  destruct (mesh_vertices_near_surface one_ins sphere_f 1 O3R diag one_E (fun v => centre (fst v)))
    with (v := v) as [z [Hz [Hc Hd]]].
  - lra.
  - destruct one_covers as [_ [H _]]. exact H.
  - intros A p _. apply sphere_edge_continuous.
  - exact sphere_signs.
  - exact Hv.
  - apply centre_in_cell.
  - exists z. rewrite Rmult_1_r in Hd. auto.
Qed.

Local Close Scope R_scope.

(* ================================================================== *)
(* PART C: computed examples                                           *)
(* ================================================================== *)

(* two triangles per boundary edge: the 2 x 1 x 1 block has 10 boundary edges, the diagonal pair 12 *)
Lemma block_boundary_edges :
  length (edges_of block_S) = 10%nat /\
  forall d, length (dc_mesh (ins_of block_S) (fun _ => d) (edges_of block_S)) = (2 * length (edges_of block_S))%nat.
Proof. split; [vm_compute; reflexivity | intros []; vm_compute; reflexivity]. Qed.

Lemma diag_boundary_edges :
  length (edges_of diag_S) = 12%nat /\
  forall d, length (dc_mesh (ins_of diag_S) (fun _ => d) (edges_of diag_S)) = (2 * length (edges_of diag_S))%nat.
Proof. split; [vm_compute; reflexivity | intros []; vm_compute; reflexivity]. Qed.

(* a path from the inside point (0,0,0) of the block through (1,0,0) (inside) to (2,0,0) (outside)
   and on to (3,0,0): one crossing, through one quad *)
Definition out_path : list step := [(1, true); (1, true); (1, true)].
Lemma out_path_crossings :
  valid_path out_path /\
  ins_of block_S (0, 0, 0) = true /\ path_end (0, 0, 0) out_path = (3, 0, 0) /\
  ins_of block_S (3, 0, 0) = false /\
  crossings (ins_of block_S) (0, 0, 0) out_path = 1%nat /\
  forall d, quads_crossed (ins_of block_S) (fun _ => d) (0, 0, 0) out_path = 1%nat.
Proof.
  split; [intros s H; cbn [out_path In] in H; destruct H as [<- | [<- | [<- | []]]]; reflexivity|].
  repeat split; try (vm_compute; reflexivity). intros []; vm_compute; reflexivity.
Qed.

(* a path through the block from outside to outside: (-1,0,0) -> (2,0,0), two crossings *)
Definition through_path : list step := [(1, true); (1, true); (1, true)].
Lemma through_path_crossings :
  ins_of block_S (-1, 0, 0) = false /\ path_end (-1, 0, 0) through_path = (2, 0, 0) /\
  ins_of block_S (2, 0, 0) = false /\
  crossings (ins_of block_S) (-1, 0, 0) through_path = 2%nat.
Proof. repeat split; vm_compute; reflexivity. Qed.

(* a closed path: a loop that leaves the diagonal pair at (0,0,0), enters its other point
   (1,1,0), and comes back another way: 4 crossings *)
Definition loop_path : list step :=
  [(1, true); (2, true); (4, true); (1, false); (2, false); (4, false)].
Lemma loop_path_crossings :
  valid_path loop_path /\ path_end (0, 0, 0) loop_path = (0, 0, 0) /\
  path_points (0, 0, 0) loop_path =
    [(0, 0, 0); (1, 0, 0); (1, 1, 0); (1, 1, 1); (0, 1, 1); (0, 0, 1); (0, 0, 0)] /\
  crossings (ins_of diag_S) (0, 0, 0) loop_path = 4%nat /\
  forall d, quads_crossed (ins_of diag_S) (fun _ => d) (0, 0, 0) loop_path = 4%nat.
Proof.
  split; [intros s H; cbn [loop_path In] in H;
          destruct H as [<- | [<- | [<- | [<- | [<- | [<- | []]]]]]]; reflexivity|].
  repeat split; try (vm_compute; reflexivity). intros []; vm_compute; reflexivity.
Qed.

(* orientation on an example: the quad of the edge X from the inside point (1,0,0) of the block
   to the outside point (2,0,0) has normal +X, that of the edge from (-1,0,0) (outside) to
   (0,0,0) (inside) has normal -X *)
Lemma block_orientation_example :
  forall d, map tri_normal (quad (ins_of block_S) d 1 (1, 0, 0)) = [(1, 0, 0); (1, 0, 0)] /\
            map tri_normal (quad (ins_of block_S) d 1 (-1, 0, 0)) = [(-1, 0, 0); (-1, 0, 0)].
Proof. intros []; split; vm_compute; reflexivity. Qed.

(* ================================================================== *)
(* Summary statements (quoted by Props/Properties_C04.v)               *)
(* ================================================================== *)

Theorem quads_are_boundary_edges :
  (forall ins d A p, is_axis A = true ->
     (quad ins d A p <> [] <-> sign_change ins (A, p) = true) /\
     length (quad ins d A p) = (if sign_change ins (A, p) then 2 else 0)%nat /\
     (forall v, In v (mesh_verts (quad ins d A p)) ->
        exists o, In o [0; Qax A; Rax A; Qax A + Rax A] /\ fst v = psub p (bits o) /\ 0 <= snd v) /\
     (sign_change ins (A, p) = true ->
        forall o, In o [0; Qax A; Rax A; Qax A + Rax A] ->
        exists k, 0 <= k /\ In (psub p (bits o), k) (mesh_verts (quad ins d A p)))) /\
  (forall ins diag E, (forall e, In e E -> is_axis (fst e) = true) ->
     length (dc_mesh ins diag E) = (2 * length (filter (sign_change ins) E))%nat) /\
  (forall ins diag E, covers ins E -> (forall e, In e E -> sign_change ins e = true) ->
     length (dc_mesh ins diag E) = (2 * length E)%nat) /\
  (forall S diag, length (dc_mesh (ins_of S) diag (edges_of S)) = (2 * length (edges_of S))%nat).
Proof.
  split; [|split; [exact mesh_size | split; [exact mesh_size_exact | exact mesh_size_finite]]].
  intros ins d A p HA.
  split; [apply quad_nonempty_iff; exact HA|]. split; [apply quad_length; exact HA|]. split.
  - intros v Hv. destruct (quad_vertices_cells ins d A p v HA Hv) as [_ [o [Ho [_ [Hc Hk]]]]].
    exists o. auto.
  - intros HS o Ho. exists (snd (hv ins A p o)). split; [apply hv_patch_valid; assumption|].
    apply (quad_uses_four_cells ins d A p o HA HS Ho).
Qed.

Theorem dc_separates :
  (forall ins diag p l, valid_path l ->
     crossings ins p l = quads_crossed ins diag p l /\
     Nat.odd (quads_crossed ins diag p l) = xorb (ins p) (ins (path_end p l)) /\
     (ins p = true -> ins (path_end p l) = false -> (1 <= quads_crossed ins diag p l)%nat) /\
     (path_end p l = p -> Nat.even (quads_crossed ins diag p l) = true)) /\
  (forall ins E p l e, covers ins E -> valid_path l ->
     In e (path_edges p l) -> sign_change ins e = true ->
     In e E /\ forall diag t, In t (quad ins (diag e) (fst e) (snd e)) -> In t (dc_mesh ins diag E)).
Proof.
  split; [|exact crossed_edges_in_mesh].
  intros ins diag p l HV.
  split; [apply crossings_are_quads; exact HV|].
  split; [rewrite <- (crossings_are_quads ins diag p l HV); apply crossings_parity|].
  split.
  - intros H1 H2. apply (inside_outside_separated ins diag p l HV H1 H2).
  - apply closed_path_even. exact HV.
Qed.

Theorem dc_orientation ins d A p t :
  is_axis A = true -> In t (quad ins d A p) ->
  (ins p = true /\ ins (padd p (bits A)) = false /\ tri_normal t = bits A /\ winding_sign A t = 1) \/
  (ins p = false /\ ins (padd p (bits A)) = true /\ tri_normal t = pneg (bits A) /\ winding_sign A t = -1).
Proof.
  intros HA Ht.
  assert (HS : sign_change ins (A, p) = true).
  { apply (quad_nonempty_iff ins d A p HA). intros E. rewrite E in Ht. destruct Ht. }
  pose proof (quad_orientation ins d A p t HA Ht) as N.
  pose proof (winding_sign_quad ins d A p t HA Ht) as W.
  destruct (inside_end ins A p HS) as [[E0 E1] | [E0 E1]]; rewrite E0 in N, W; [left | right]; auto.
Qed.
