(* C04 (adaptive octrees): placed cells, leaves, minimal lattice edges of the leaf subdivision.
   Definitions and basic geometry shared by Render/OctTreeSep.v. *)
From Coq Require Import List ZArith Bool Lia Arith.
From LF Require Import Gen.MarchTables_gen Gen.ManifoldTables_gen Render.DCGrid Render.DCGridSem
                       Render.OctTree Render.OctTreeGeom Render.OctTreeNet Render.OctTreeFace Render.OctTreeSem.
Import ListNotations.
Local Open Scope Z_scope.

(* a cell together with where it lies: tree, path, lower corner, level *)
Record pcell3 := PC3 { c_t : otree; c_p : opath; c_o : pt3; c_k : nat }.
Definition c_cell (a : pcell3) : ocell := (c_t a, c_p a).

(* the non-branching cells below (t, p, o, k) *)
Fixpoint oleaves (t : otree) (p : opath) (o : pt3) (k : nat) : list pcell3 :=
  match t with
  | OB c0 c1 c2 c3 c4 c5 c6 c7 =>
      oleaves c0 (0 :: p) (ochild_org o k 0) (pred k) ++ oleaves c1 (1 :: p) (ochild_org o k 1) (pred k) ++
      oleaves c2 (2 :: p) (ochild_org o k 2) (pred k) ++ oleaves c3 (3 :: p) (ochild_org o k 3) (pred k) ++
      oleaves c4 (4 :: p) (ochild_org o k 4) (pred k) ++ oleaves c5 (5 :: p) (ochild_org o k 5) (pred k) ++
      oleaves c6 (6 :: p) (ochild_org o k 6) (pred k) ++ oleaves c7 (7 :: p) (ochild_org o k 7) (pred k)
  | _ => [PC3 t p o k]
  end.
Definition pleaves3 (c : pcell3) : list pcell3 := oleaves (c_t c) (c_p c) (c_o c) (c_k c).

(* XTree::child with positions *)
Definition pchild3 (c : pcell3) (i : Z) : pcell3 :=
  if o_is_branch (c_t c)
  then PC3 (osub (c_t c) i) (i :: c_p c) (ochild_org (c_o c) (c_k c) i) (pred (c_k c)) else c.

Lemma c_cell_pchild3 c i : c_cell (pchild3 c i) = ochild (c_cell c) i.
Proof. unfold pchild3, ochild, c_cell. cbn [fst snd]. destruct (o_is_branch (c_t c)); reflexivity. Qed.

(* the cube with lower corner [c] and side 2^k lies in the box with lower corner [o] and side 2^kt *)
Definition box_in (c : pt3) (k : nat) (o : pt3) (kt : nat) : Prop :=
  let '(x, y, z) := c in let '(ox, oy, oz) := o in
  ox <= x /\ x + osize k <= ox + osize kt /\ oy <= y /\ y + osize k <= oy + osize kt /\
  oz <= z /\ z + osize k <= oz + osize kt.
Definition cube_in (c : pt3) (k : nat) (a : pcell3) : Prop := box_in c k (c_o a) (c_k a).

(* quadrant [cn] (0, Qax A, Rax A or Qax A + Rax A: the corner of an exact cell at which the edge starts)
   has its Q bit / R bit set: the cell lies on the LOW side of the edge in that direction *)
Definition hasq (A cn : Z) : bool := (cn =? Qax A) || (cn =? Qax A + Rax A).
Definition hasr (A cn : Z) : bool := (cn =? Rax A) || (cn =? Qax A + Rax A).

(* lower corner of the cube of side 2^k that touches the lattice edge [s, s + 2^k] of axis A in quadrant cn *)
Definition qcube (A cn : Z) (s : pt3) (k : nat) : pt3 :=
  ostep (Rax A) (ostep (Qax A) s (if hasq A cn then - osize k else 0)) (if hasr A cn then - osize k else 0).

(* [around3 A cn a s k]: the placed cell a contains the cube of side 2^k that touches the lattice edge
   [s, s + 2^k] of axis A in quadrant cn *)
Definition around3 (A cn : Z) (a : pcell3) (s : pt3) (k : nat) : Prop :=
  (k <= c_k a)%nat /\ cube_in (qcube A cn s k) k a.

(* [min_edge3 A a b c d s k]: a, b, c, d (in the order of the arguments of edge3 / load3: quadrants Q|R, R,
   Q, 0) surround the lattice edge [s, s + 2^k] of axis A, and the edge is a whole edge of the smallest
   of them: a minimal edge of the leaf subdivision.  Two of the four may be the same (larger) leaf. *)
Definition min_edge3 (A : Z) (a b c d : pcell3) (s : pt3) (k : nat) : Prop :=
  around3 A (Qax A + Rax A) a s k /\ around3 A (Rax A) b s k /\ around3 A (Qax A) c s k /\ around3 A 0 d s k /\
  (c_k a = k \/ c_k b = k \/ c_k c = k \/ c_k d = k).

Lemma osize_le k k' : (k <= k')%nat -> osize k <= osize k'.
Proof. intros H. unfold osize. apply Z.pow_le_mono_r; lia. Qed.

Lemma oleaves_nonbranch t p o k : o_is_branch t = false -> oleaves t p o k = [PC3 t p o k].
Proof. destruct t; try discriminate; reflexivity. Qed.

Lemma pleaves3_self c : o_is_branch (c_t c) = false -> pleaves3 c = [c].
Proof. intros NB. unfold pleaves3. rewrite oleaves_nonbranch by exact NB. destruct c; reflexivity. Qed.

Lemma pchild3_leaf c i : o_is_branch (c_t c) = false -> pchild3 c i = c.
Proof. unfold pchild3. intros ->. reflexivity. Qed.

Ltac in_app8 H :=
  apply in_app_or in H; destruct H as [H|H]; [|
  apply in_app_or in H; destruct H as [H|H]; [|
  apply in_app_or in H; destruct H as [H|H]; [|
  apply in_app_or in H; destruct H as [H|H]; [|
  apply in_app_or in H; destruct H as [H|H]; [|
  apply in_app_or in H; destruct H as [H|H]; [|
  apply in_app_or in H; destruct H as [H|H]]]]]]].

(* a leaf below a consistent cell lies in its box and is consistent itself *)
Lemma oleaves_inside ins : forall t p o k a,
  oconsistent ins t o k -> In a (oleaves t p o k) ->
  (c_k a <= k)%nat /\ box_in (c_o a) (c_k a) o k /\
  oconsistent ins (c_t a) (c_o a) (c_k a) /\ o_is_branch (c_t a) = false.
Proof.
  induction t as [| |l m mf|c0 IH0 c1 IH1 c2 IH2 c3 IH3 c4 IH4 c5 IH5 c6 IH6 c7 IH7]; intros p o k a C Ha;
    try (cbn [oleaves] in Ha; destruct Ha as [<-|[]]; cbn [c_k c_o c_t]; destruct o as [[x y] z];
         split; [lia|]; split; [unfold box_in; lia|]; split; [exact C|reflexivity]).
  destruct (oconsistent_branch _ _ _ _ _ _ _ _ _ _ _ C) as [k' [-> [C0 [C1 [C2 [C3 [C4 [C5 [C6 C7]]]]]]]]].
  cbn [oleaves pred] in Ha. rewrite !ochild_org_S in Ha.
  destruct o as [[x y] z]. pose proof (osize_S k') as HS. pose proof (osize_pos k') as Hp.
  assert (K : forall o', (c_k a <= k')%nat /\ box_in (c_o a) (c_k a) o' k' /\
                         oconsistent ins (c_t a) (c_o a) (c_k a) /\ o_is_branch (c_t a) = false ->
                         box_in o' k' (x, y, z) (S k') ->
              (c_k a <= S k')%nat /\ box_in (c_o a) (c_k a) (x, y, z) (S k') /\
              oconsistent ins (c_t a) (c_o a) (c_k a) /\ o_is_branch (c_t a) = false).
  { intros [[x' y'] z'] [H1 [H2 H3]] H4. split; [lia|]. split; [|exact H3].
    destruct (c_o a) as [[ax ay] az]. unfold box_in in *. lia. }
  in_app8 Ha;
    [ apply (K _ (IH0 _ _ _ _ C0 Ha)) | apply (K _ (IH1 _ _ _ _ C1 Ha)) | apply (K _ (IH2 _ _ _ _ C2 Ha))
    | apply (K _ (IH3 _ _ _ _ C3 Ha)) | apply (K _ (IH4 _ _ _ _ C4 Ha)) | apply (K _ (IH5 _ _ _ _ C5 Ha))
    | apply (K _ (IH6 _ _ _ _ C6 Ha)) | apply (K _ (IH7 _ _ _ _ C7 Ha)) ];
    corner_pts; unfold box_in; lia.
Qed.

(* the leaves of a child are leaves of the parent *)
Lemma pleaves3_pchild3 c i : In i corners8 -> incl (pleaves3 (pchild3 c i)) (pleaves3 c).
Proof.
  intros Hi a Ha. unfold pchild3 in Ha. destruct c as [t p o k]. cbn [c_t c_p c_o c_k] in Ha.
  destruct t as [| | |c0 c1 c2 c3 c4 c5 c6 c7]; cbn [o_is_branch] in Ha; try exact Ha.
  unfold pleaves3 in *. cbn [c_t c_p c_o c_k] in *. cbn [oleaves].
  apply in_corners8 in Hi.
  destruct Hi as [-> | [-> | [-> | [-> | [-> | [-> | [-> | ->]]]]]]]; cbn [osub Z.eqb Pos.eqb] in Ha;
    rewrite !in_app_iff; tauto.
Qed.
