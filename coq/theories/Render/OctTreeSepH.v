(* C04 (adaptive octrees): completeness of the whole dual walk and the full theorems
   (axis cases in OctTreeSepH1.v, H2.v, H4.v; face recursion in OctTreeSepE.v; edge recursion in OctTreeSepA.v). *)
From Coq Require Import List ZArith Bool Lia Arith.
From LF Require Import Render.DCGrid Render.OctTree Render.OctTreeGeom Render.OctTreeNet Render.OctTreeFace Render.OctTreeSem
                       Render.OctTreeSep Render.OctTreeSepC Render.OctTreeSepE
                       Render.OctTreeSepH1 Render.OctTreeSepH2 Render.OctTreeSepH4.
Import ListNotations.
Local Open Scope Z_scope.

(** The dual walk is complete: the load3 call of EVERY quadruple of leaves of a consistent tree around a minimal
    lattice edge is reached by walk3.  No sign information is used. *)
Theorem walk3_complete ins diag A : oaxis A -> forall f t p o k0 a b c d s k,
  oconsistent ins t o k0 -> (oheight t < f)%nat ->
  In a (oleaves t p o k0) -> In b (oleaves t p o k0) -> In c (oleaves t p o k0) -> In d (oleaves t p o k0) ->
  min_edge3 A a b c d s k ->
  incl (load3 diag A (c_cell a) (c_cell b) (c_cell c) (c_cell d)) (walk3 diag f t p).
Proof.
  intros [-> | [-> | ->]].
  - exact (walk3_complete_axis1 ins diag).
  - exact (walk3_complete_axis2 ins diag).
  - exact (walk3_complete_axis4 ins diag).
Qed.

(** 1. Completeness: every minimal lattice edge of the leaf subdivision whose end points differ in ins has four
    ambiguous leaves around it, load3 on them is the quad of load3_spec3 (non-empty under distinct3), and all its
    triangles are in the mesh. *)
Theorem adaptive_sign_changes_give_triangles ins diag t k0 A a b c d s k :
  oconsistent ins t (0, 0, 0) k0 -> oaxis A ->
  In a (oleaves t [] (0, 0, 0) k0) -> In b (oleaves t [] (0, 0, 0) k0) ->
  In c (oleaves t [] (0, 0, 0) k0) -> In d (oleaves t [] (0, 0, 0) k0) ->
  min_edge3 A a b c d s k -> ins s <> ins (ostep A s (osize k)) ->
  o_is_ambig (c_t a) = true /\ o_is_ambig (c_t b) = true /\ o_is_ambig (c_t c) = true /\ o_is_ambig (c_t d) = true /\
  load3 diag A (c_cell a) (c_cell b) (c_cell c) (c_cell d) =
    quad3 diag (ins s) (vtx3 (ins s) A a 0) (vtx3 (ins s) A b 1) (vtx3 (ins s) A c 2) (vtx3 (ins s) A d 3) /\
  (distinct3 a b c d -> load3 diag A (c_cell a) (c_cell b) (c_cell c) (c_cell d) <> []) /\
  incl (load3 diag A (c_cell a) (c_cell b) (c_cell c) (c_cell d)) (mesh_walk diag t).
Proof.
  intros C HA Ia Ib Ic Id ME Hs.
  pose proof (pleaves3_leaf_ok ins (PC3 t [] (0, 0, 0) k0) a C Ia) as Oa.
  pose proof (pleaves3_leaf_ok ins (PC3 t [] (0, 0, 0) k0) b C Ib) as Ob.
  pose proof (pleaves3_leaf_ok ins (PC3 t [] (0, 0, 0) k0) c C Ic) as Oc.
  pose proof (pleaves3_leaf_ok ins (PC3 t [] (0, 0, 0) k0) d C Id) as Od.
  assert (Cr : crosses3 ins A s k = true).
  { unfold crosses3. destruct (ins s), (ins (ostep A s (osize k))); try reflexivity; congruence. }
  destruct (min_edge3_ambig ins A a b c d s k HA Oa Ob Oc Od ME Cr) as [Aa [Ab [Ac Ad]]].
  split; [exact Aa|]. split; [exact Ab|]. split; [exact Ac|]. split; [exact Ad|].
  split; [rewrite (load3_cases ins diag A a b c d s k HA Oa Ob Oc Od ME), Cr; reflexivity|].
  split; [intros Hd; exact (load3_nonempty ins diag A a b c d s k HA Oa Ob Oc Od ME Cr Hd)|].
  unfold mesh_walk.
  exact (walk3_complete ins diag A HA (S (oheight t)) t [] (0, 0, 0) k0 a b c d s k C (Nat.lt_succ_diag_r _) Ia Ib Ic Id ME).
Qed.

(* the four cells of a step are leaves of the tree *)
Definition step3_in (t : otree) (k0 : nat) (e : step3) : Prop :=
  In (s3_a e) (oleaves t [] (0, 0, 0) k0) /\ In (s3_b e) (oleaves t [] (0, 0, 0) k0) /\
  In (s3_c e) (oleaves t [] (0, 0, 0) k0) /\ In (s3_d e) (oleaves t [] (0, 0, 0) k0).

(** 2. Crossing parity: along any path of minimal edges from p to q the number of steps whose load3 call emits
    triangles is odd iff ins p <> ins q, and for steps between leaves of the tree these triangles are in the mesh. *)
Theorem adaptive_mesh_separates ins diag t k0 l p q :
  oconsistent ins t (0, 0, 0) k0 ->
  Forall (step3_ok ins) l -> Forall s3_distinct l -> joins3 p l q ->
  Nat.odd (length (emitting3 diag l)) = xorb (ins p) (ins q) /\
  (forall e, In e l -> step3_in t k0 e -> incl (s3_load diag e) (mesh_walk diag t)).
Proof.
  intros C Hok Hd J. split; [exact (adaptive_surface_separates3 ins diag l p q Hok Hd J)|].
  intros e He [Ia [Ib [Ic Id]]].
  rewrite Forall_forall in Hok. destruct (Hok e He) as [HA [_ [_ [_ [_ ME]]]]].
  unfold s3_load, mesh_walk.
  exact (walk3_complete ins diag _ HA (S (oheight t)) t [] (0, 0, 0) k0 _ _ _ _ _ _ C (Nat.lt_succ_diag_r _) Ia Ib Ic Id ME).
Qed.

Print Assumptions walk3_complete.
Print Assumptions adaptive_sign_changes_give_triangles.
Print Assumptions adaptive_mesh_separates.
