(* C03 (simplex mesher) on a uniform grid: Dual<3>::walk + SimplexMesher::load<A>
   (simplex_mesher.cpp), with the tables libfive compiles in (Gen/TetTable_gen.v:
   gen_cell_vertices, gen_tet_vertices, gen_tet_table, re-read from the C++ on every run).
   MODEL ONLY, executable, no proofs (Render/SimplexGridSem.v has them).

   Lattice points are Z^3 (as in Render/DCGrid.v: pt3, bits, Qax, Rax); the cell with origin c is
   [c, c + 1]^3.  Every cell is a leaf of the same level (no collapsing, no merging).

   SUBSPACE VERTICES.  A cell has 27 subspaces (corners, edges, faces, the cell itself), named by a
   NeighborIndex = 3 ternary digits (dx, dy, dz), digit 0 = low, 1 = high, 2 = spanning.  We place
   the subspace (dx, dy, dz) of the cell c at the point 2 c + (0 | 2 | 1 per axis) of the DOUBLED
   lattice: corners have 0 odd coordinates, edges 1, faces 2, cells 3.  Two cells name the same
   subspace iff they give the same doubled point, which is how SimplexTree's assignIndices makes
   the index of a shared subspace vertex globally unique.

   For the lattice edge (axis A, start point p) the walk calls load<A> with ts[0] = p - Q - R,
   ts[1] = p - R, ts[2] = p - Q, ts[3] = p (edge3 in dual.hpp; the same four cells as
   DCGrid.quad).  On a uniform grid all leaf levels are equal, so
     - std::min_element returns the FIRST minimum: index = 0, and
       corner_index_a = CornerIndex(Q | R), corner_index_b = corner_index_a ^ A, both taken in
       ts[0] = p - Q - R: subvs[1] is the corner at p (the START of the lattice edge), subvs[2] the
       corner at p + A (its END), subvs[0] the edge itself;
     - each face pair {a, b, axis} falls in the last branch ("pick the second"):
       saveSubspaceVertex(p.b, CornerIndex(0).neighbor() | CornerIndex(7 ^ axis).neighbor());
     - next_shared / prev_shared are false (four distinct cells).
   load<A> returns early when no cell is AMBIGUOUS and skips cells that are EMPTY / FILLED; such
   cells have all their subspace vertices of one sign (interval arithmetic proved the sign on the
   whole cell), so the tets inside them have mask 0 or 15 and emit nothing
   ([MarchTet.march] of row 0 / row 15 is []): the model emits ALWAYS. *)
From Coq Require Import List ZArith Bool Lia.
From LF Require Import Gen.TetTable_gen Render.DCGrid Render.MarchTet.
Import ListNotations.
Local Open Scope Z_scope.

Definition O3 : pt3 := (0, 0, 0).
Definition dbl (p : pt3) : pt3 := let '(x, y, z) := p in (2 * x, 2 * y, 2 * z).

(* ---- NeighborIndex / CornerIndex (indexes.hpp), as digit triples ---- *)
(* CornerIndex(i).neighbor(): ternary digit k = bit k of i *)
Definition corner_nb (i : Z) : pt3 := bits i.
(* NeighborIndex::operator| : per digit, equal digits stay, different digits become 2 (spanning) *)
Definition dig_or (a b : Z) : Z := if a =? b then a else 2.
Definition nb_or (a b : pt3) : pt3 :=
  let '(a1, a2, a3) := a in let '(b1, b2, b3) := b in (dig_or a1 b1, dig_or a2 b2, dig_or a3 b3).
(* NeighborIndex(ipow(3, 3) - 1) = 222 in ternary: the cell itself *)
Definition nb_cell : pt3 := (2, 2, 2).
(* position of a digit in doubled coordinates: low 0, high 2, spanning 1 *)
Definition dig_off (d : Z) : Z := if d =? 0 then 0 else if d =? 1 then 2 else 1.
(* the subspace vertex  ts.at(index)->leaf->sub[s.i]  as a point of the doubled lattice *)
Definition sub_pt (c : pt3) (s : pt3) : pt3 :=
  let '(d1, d2, d3) := s in padd (dbl c) (dig_off d1, dig_off d2, dig_off d3).

(* ---- SimplexMesher::load<A>: the 11 subspace vertices ---- *)
Definition cells4 (A : Z) (p : pt3) : list pt3 :=
  let q := Qax A in let r := Rax A in
  [psub (psub p (bits q)) (bits r); psub p (bits r); psub p (bits q); p].
Definition cell_at (A : Z) (p : pt3) (i : nat) : pt3 := nth i (cells4 A p) O3.

Definition subvs (A : Z) (p : pt3) : list pt3 :=
  let q := Qax A in let r := Rax A in
  let index := 0%nat in                                  (* first minimum of equal levels *)
  let ca := Z.lor q r in                                 (* ((index & 1) ? 0 : Q) | ((index & 2) ? 0 : R) *)
  let cb := Z.lxor ca A in
  let face_pairs := [(0%nat, 1%nat, q); (1%nat, 3%nat, r); (2%nat, 3%nat, q); (0%nat, 2%nat, r)] in
  [ sub_pt (cell_at A p index) (nb_or (corner_nb ca) (corner_nb cb));     (* 0: the edge *)
    sub_pt (cell_at A p index) (corner_nb ca);                            (* 1: corner a *)
    sub_pt (cell_at A p index) (corner_nb cb) ]                           (* 2: corner b *)
  ++ map (fun fp => let '(_, b, ax) := fp in                              (* 3..6: faces, from p.b *)
            sub_pt (cell_at A p b) (nb_or (corner_nb 0) (corner_nb (Z.lxor 7 ax)))) face_pairs
  ++ map (fun i => sub_pt (cell_at A p i) nb_cell) [0; 1; 3; 2]%nat.      (* 7..10: cells 0, 1, 3, 2 *)

(* ---- the 16 tets, in the order of the C++ loops ---- *)
Definition gtet := (pt3 * pt3 * pt3 * pt3)%type.
(* "const std::array<unsigned, 4> order = {{0, 1, 3, 2}}" *)
Definition cell_order : list nat := [0; 1; 3; 2]%nat.
(* for each cell i of [order], vs = cell_vertices[i]; for each row tet of tet_vertices the tet is
   (subvs[vs[tet[0]]], ..., subvs[vs[tet[3]]]) - the order in which the mask bits are set and in
   which tet_table's edge numbers are read *)
Definition tets_of (sv : list pt3) : list gtet :=
  flat_map (fun i =>
    let vs := nth i gen_cell_vertices [] in
    map (fun tv =>
           let g := fun j : nat => nth (nth (nth j tv 0%nat) vs 0%nat) sv O3 in
           (g 0%nat, g 1%nat, g 2%nat, g 3%nat)) gen_tet_vertices) cell_order.
Definition simplex_gtets (A : Z) (p : pt3) : list gtet := tets_of (subvs A p).

(* ---- global vertex ids: an encoding of the doubled points of the box of n^3 cells ---- *)
(* cells c in [0, n)^3, doubled points in [0, 2 n]^3; injective there (SimplexGridSem.enc_inj) *)
Definition enc (n : nat) (v : pt3) : vid :=
  let M := 2 * Z.of_nat n + 1 in
  let '(x, y, z) := v in Z.to_nat (x + M * (y + M * z)).
Definition enc_tet (n : nat) (t : gtet) : tet :=
  let '(a, b, c, d) := t in (enc n a, enc n b, enc n c, enc n d).

Definition simplex_tets (n : nat) (A : Z) (p : pt3) : list tet := map (enc_tet n) (simplex_gtets A p).
Definition simplex_complex (n : nat) (E : list ledge) : list tet :=
  flat_map (fun e => simplex_tets n (fst e) (snd e)) E.

(* ---- every lattice edge of the box whose four cells lie in the box ---- *)
Definition zrange (n : nat) : list Z := map Z.of_nat (seq 0 n).
Definition grid3 (n : nat) : list pt3 :=
  flat_map (fun x => flat_map (fun y => map (fun z => (x, y, z)) (zrange n)) (zrange n)) (zrange n).
Definition cell_in (n : nat) (c : pt3) : bool :=
  let N := Z.of_nat n in let '(x, y, z) := c in
  (0 <=? x) && (x <? N) && (0 <=? y) && (y <? N) && (0 <=? z) && (z <? N).
Definition edge_in (n : nat) (e : ledge) : bool := forallb (cell_in n) (cells4 (fst e) (snd e)).
Definition all_edges (n : nat) : list ledge :=
  filter (edge_in n) (flat_map (fun A => map (fun p => (A, p)) (grid3 n)) [1; 2; 4]).

(* the whole pipeline: the triangles of the simplex mesher on the n^3 box *)
Definition simplex_mesh (n : nat) (ins : vid -> bool) : list tri :=
  mesh ins (simplex_complex n (all_edges n)).
