(* C10: semantics of Contours::collect (model: Render/Contours.v).

   Definitions
     out_deg v segs / in_deg v segs : number of segments leaving / entering v.
     manifold segs : every vertex has out-degree <= 1 and in-degree <= 1
                     (manifold_NoDup: <-> NoDup (map fst segs) /\ NoDup (map snd segs)).
     loops segs    : manifold, and out_deg = in_deg at every vertex, i.e. the soup is a
                     disjoint union of directed cycles
                     (loops_perm: map fst segs is a permutation of map snd segs).

   Main theorems
     collect_pairs_perm_any : Permutation (flat_map pairs (collect segs)) segs
         -- for EVERY soup: each input segment is a consecutive pair of exactly one output
            polyline exactly once, and no pair is invented.  The requested statement
            collect_pairs_perm (with the hypothesis [manifold segs]) is a corollary; the
            hypothesis turned out not to be needed: the one-directional invariant
            "every heads/tails entry points to a chain with that first/last vertex"
            (inv0) survives non-manifold input, and phase 2 emits every chain exactly once
            whatever the fuel.
     collect_closed_loops   : loops segs -> forall l, In l (collect segs) -> closed l
         -- on a soup of cycles every returned polyline is closed.  collect_closed is the
            requested form with the (unneeded, vacuous for []) hypothesis segs <> [].
     collect_nonempty       : In l (collect segs) -> 2 <= length l        (every soup).
     collect_vertices_any   : In l (collect segs) -> In v l ->
                              In v (map fst segs) \/ In v (map snd segs)   (every soup;
            collect_vertices is the requested form under [manifold]).
     collect_path_any       : In l (collect segs) -> incl (pairs l) segs   (every soup;
            collect_path is the requested form under [manifold]).

   Hypotheses that cannot be dropped (refutations by vm_compute)
     collect_closed_manifold_refuted : [(3,4);(1,2);(2,3)] is manifold but comes back as
            [[3;4];[1;2;3]] (collect_open_example): an open path may be fragmented and is
            of course not closed; [loops] cannot be weakened to [manifold].
     collect_closed_balanced_refuted : star3 = three 2-cycles through vertex 0 has
            out_deg = in_deg everywhere but is not manifold, and comes back as the two
            open pieces [[3;0;2;0];[0;1;0;3]]; [loops] cannot be weakened to balanced
            degrees.
   Branching input (collect_branching_example_out / _in / _eight / _star): the
   Permutation of theorem 1 still holds (it always does); only closedness can fail.

   Self-loop segments (a,a): no hypothesis excluding them is needed.  Under [manifold]
   the vertex a is isolated, the segment opens the new chain [a;a] whose head and tail
   are both a, and phase 2 emits the closed polyline [a;a] (collect_selfloop_example).
   Without [manifold], (a,a) is appended/prepended like any other segment
   (collect_selfloop_branching_example) and theorem 1 still holds.

   Proof structure
     inv0 (any input): chains partition the segments read so far, all chains have >= 2
       vertices, heads/tails entries are sound.  inv0_step / inv0_build.
     weld_perm / weld_all_perm: each chain is marked processed exactly when it is
       concatenated; pairs_join: dropping the duplicated joint vertex preserves pairs.
     inv1 (manifold input): heads/tails are complete (every chain is registered under its
       first and last vertex), hence chain ends are pairwise distinct.  inv1_step.
     loops_hd_last: on a cycle soup the chain ends are a permutation of the chain starts,
       so "successor chain" is a total injective function.
     weld_closed / weld_all_closed: the processed set stays closed under predecessors, so
       a walk can only stop by returning to its own start; the fuel (number of chains)
       never runs out before that (pigeonhole via NoDup_length_incl). *)
From Coq Require Import List Arith Bool Lia Permutation.
Import ListNotations.
From LF Require Import Render.Contours.


(* ------------------------------------------------------------------------- *)
(** * Degrees, manifold soups, cycle soups *)

Definition out_deg (v : nat) (segs : list seg) : nat :=
  length (filter (fun s => Nat.eqb (fst s) v) segs).
Definition in_deg (v : nat) (segs : list seg) : nat :=
  length (filter (fun s => Nat.eqb (snd s) v) segs).

Definition manifold (segs : list seg) : Prop :=
  forall v, out_deg v segs <= 1 /\ in_deg v segs <= 1.
Definition loops (segs : list seg) : Prop :=
  manifold segs /\ forall v, out_deg v segs = in_deg v segs.

Lemma out_deg_count v segs : out_deg v segs = count_occ Nat.eq_dec (map fst segs) v.
Proof.
  unfold out_deg. induction segs as [|[a b] r IH]; simpl; auto.
  destruct (Nat.eq_dec a v), (Nat.eqb_spec a v); simpl; try congruence; lia.
Qed.

Lemma in_deg_count v segs : in_deg v segs = count_occ Nat.eq_dec (map snd segs) v.
Proof.
  unfold in_deg. induction segs as [|[a b] r IH]; simpl; auto.
  destruct (Nat.eq_dec b v), (Nat.eqb_spec b v); simpl; try congruence; lia.
Qed.

Lemma manifold_NoDup segs :
  manifold segs <-> NoDup (map fst segs) /\ NoDup (map snd segs).
Proof.
  unfold manifold. rewrite !(NoDup_count_occ Nat.eq_dec). split.
  - intros H; split; intros v; destruct (H v) as [H1 H2];
      rewrite out_deg_count in H1; rewrite in_deg_count in H2; auto.
  - intros [H1 H2] v. rewrite out_deg_count, in_deg_count. auto.
Qed.

Lemma loops_perm segs : loops segs -> Permutation (map fst segs) (map snd segs).
Proof.
  intros [M E]. apply manifold_NoDup in M. destruct M as [M1 M2].
  apply NoDup_Permutation; auto. intros v.
  rewrite !(count_occ_In Nat.eq_dec). specialize (E v).
  rewrite out_deg_count, in_deg_count in E. lia.
Qed.

(* ------------------------------------------------------------------------- *)
(** * Association lists *)

Lemma mfind_merase k k' m :
  mfind k (merase k' m) = if Nat.eqb k k' then None else mfind k m.
Proof.
  unfold merase. induction m as [|[k0 v] m IH]; simpl.
  - destruct (Nat.eqb k k'); auto.
  - destruct (Nat.eqb_spec k' k0); simpl.
    + subst. rewrite IH. destruct (Nat.eqb_spec k k0); auto.
    + rewrite IH. destruct (Nat.eqb_spec k k0); auto.
      subst. destruct (Nat.eqb_spec k0 k'); congruence.
Qed.

Lemma mfind_minsert k k' v m :
  mfind k' m = None ->
  mfind k (minsert k' v m) = if Nat.eqb k k' then Some v else mfind k m.
Proof. intros H. unfold minsert. rewrite H. reflexivity. Qed.

Lemma mfind_minsert_weak k k' v m x :
  mfind k (minsert k' v m) = Some x -> mfind k m = Some x \/ (k = k' /\ x = v /\ mfind k' m = None).
Proof.
  unfold minsert. destruct (mfind k' m) eqn:E; auto.
  simpl. destruct (Nat.eqb_spec k k'); auto. intros [= <-]. auto.
Qed.

Lemma mfind_mset k k' v m :
  mfind k (mset k' v m) = if Nat.eqb k k' then Some v else mfind k m.
Proof.
  unfold mset. simpl. rewrite mfind_merase. destruct (Nat.eqb k k'); auto.
Qed.

(* ------------------------------------------------------------------------- *)
(** * Lists: upd_nth, hd / last, pairs *)

Lemma length_upd_nth A t (f : A -> A) l : length (upd_nth t f l) = length l.
Proof. revert t; induction l; intros [|t]; simpl; auto. Qed.

Lemma nth_upd_nth_eq A t (f : A -> A) l d :
  t < length l -> nth t (upd_nth t f l) d = f (nth t l d).
Proof.
  revert t; induction l; intros [|t]; simpl; intros; try lia; auto.
  apply IHl. lia.
Qed.

Lemma nth_upd_nth_neq A k t (f : A -> A) l d :
  k <> t -> nth k (upd_nth t f l) d = nth k l d.
Proof.
  revert k t; induction l; intros [|k] [|t]; simpl; intros; try lia; auto.
Qed.

Lemma Forall_upd_nth A (P : A -> Prop) t f l :
  Forall P l -> (forall x, P x -> P (f x)) -> Forall P (upd_nth t f l).
Proof.
  intros H Hf. revert t. induction H; intros [|t]; simpl; constructor; auto.
Qed.

Lemma flat_map_upd_nth A B (g : A -> list B) t f l d e :
  t < length l ->
  Permutation (g (f (nth t l d))) (g (nth t l d) ++ e) ->
  Permutation (flat_map g (upd_nth t f l)) (flat_map g l ++ e).
Proof.
  revert t; induction l; intros [|t]; simpl; intros Hlt Hp; try lia.
  - rewrite Hp. rewrite <- !app_assoc. apply Permutation_app_head.
    apply Permutation_app_comm.
  - rewrite <- app_assoc. apply Permutation_app_head. apply IHl; auto. lia.
Qed.

Lemma hd_app A (d : A) c l : c <> [] -> hd d (c ++ l) = hd d c.
Proof. destruct c; simpl; congruence. Qed.

Lemma last_cons A (d a : A) c : c <> [] -> last (a :: c) d = last c d.
Proof. destruct c; simpl; congruence. Qed.

Lemma last_app_ne A (d : A) l c : c <> [] -> last (l ++ c) d = last c d.
Proof.
  intros H. induction l; simpl; auto.
  rewrite <- IHl. destruct (l ++ c) eqn:E; auto.
  apply app_eq_nil in E. tauto.
Qed.

Lemma len2_ne (c : list nat) : 2 <= length c -> c <> [].
Proof. destruct c; simpl; intros; [lia|congruence]. Qed.

Lemma pairs_app_mid l1 x l2 :
  pairs (l1 ++ x :: l2) = pairs (l1 ++ [x]) ++ pairs (x :: l2).
Proof.
  induction l1 as [|a l1 IH]; auto.
  destruct l1 as [|a' l1].
  - simpl. destruct l2; auto.
  - change (pairs ((a :: a' :: l1) ++ x :: l2))
      with ((a, a') :: pairs ((a' :: l1) ++ x :: l2)).
    change (pairs ((a :: a' :: l1) ++ [x]))
      with ((a, a') :: pairs ((a' :: l1) ++ [x])).
    rewrite IH. reflexivity.
Qed.

Lemma pairs_snoc c b : c <> [] -> pairs (c ++ [b]) = pairs c ++ [(last c 0, b)].
Proof.
  intros H. destruct (exists_last H) as [c' [z ->]].
  rewrite <- app_assoc. simpl. rewrite pairs_app_mid. rewrite last_last. reflexivity.
Qed.

Lemma pairs_cons a c : c <> [] -> pairs (a :: c) = (a, hd 0 c) :: pairs c.
Proof. destruct c; simpl; congruence. Qed.

Lemma map_fst_pairs l : map fst (pairs l) = removelast l.
Proof.
  induction l as [|a [|b r] IH]; auto.
  change (pairs (a :: b :: r)) with ((a, b) :: pairs (b :: r)).
  change (removelast (a :: b :: r)) with (a :: removelast (b :: r)).
  rewrite map_cons, IH. reflexivity.
Qed.

Lemma map_snd_pairs l : map snd (pairs l) = tl l.
Proof.
  induction l as [|a [|b r] IH]; auto.
  change (pairs (a :: b :: r)) with ((a, b) :: pairs (b :: r)).
  rewrite map_cons, IH. reflexivity.
Qed.

(* joining a polyline with the next chain: the duplicated joint vertex is dropped and
   exactly the pairs of the two pieces survive *)
Lemma pairs_join acc c :
  acc <> [] -> c <> [] -> last acc 0 = hd 0 c ->
  pairs (removelast acc ++ c) = pairs acc ++ pairs c.
Proof.
  intros Ha Hc E. destruct c as [|y c]; [congruence|]. simpl in E.
  rewrite pairs_app_mid. rewrite <- E. rewrite <- app_removelast_last; auto.
Qed.

(* ------------------------------------------------------------------------- *)
(** * Phase 1, for arbitrary input: the chains partition the segments read so far,
      and every [heads]/[tails] entry points to a chain with that first/last vertex. *)

Definition chain (st : cstate) (k : nat) : list nat := nth k (chains st) [].
Definition nchains (st : cstate) : nat := length (chains st).

Record inv0 (st : cstate) (done : list seg) : Prop := {
  i_perm : Permutation (flat_map pairs (chains st)) done;
  i_len : Forall (fun c => 2 <= length c) (chains st);
  i_heads : forall v k, mfind v (heads st) = Some k ->
                        k < nchains st /\ hd 0 (chain st k) = v;
  i_tails : forall v k, mfind v (tails st) = Some k ->
                        k < nchains st /\ last (chain st k) 0 = v }.

Lemma inv0_chain_len st done k :
  inv0 st done -> k < nchains st -> 2 <= length (chain st k).
Proof.
  intros I Hk. destruct I as [_ L _ _]. rewrite Forall_forall in L.
  apply L. apply nth_In. exact Hk.
Qed.

Lemma inv0_init : inv0 cinit [].
Proof.
  constructor; simpl; auto; intros; discriminate.
Qed.

Lemma inv0_step st done a b :
  inv0 st done -> inv0 (cstep st (a, b)) (done ++ [(a, b)]).
Proof.
  intros I. assert (CL : forall k, k < nchains st -> 2 <= length (chain st k))
    by (intros; eapply inv0_chain_len; eauto).
  destruct I as [P L H T]. unfold cstep.
  destruct (mfind a (tails st)) as [t|] eqn:Ht;
    [|destruct (mfind b (heads st)) as [h|] eqn:Hh].
  - (* append to chain t *)
    destruct (T _ _ Ht) as [Htn Hta]. unfold chain, nchains in *.
    assert (Hne : nth t (chains st) [] <> []) by (apply len2_ne; auto).
    constructor; unfold chain, nchains; cbn [heads tails chains].
    + rewrite (flat_map_upd_nth _ _ pairs _ (fun c => c ++ [b]) (chains st) [] [(a, b)]); auto.
      * apply Permutation_app_tail; auto.
      * rewrite pairs_snoc; auto. rewrite Hta. reflexivity.
    + apply Forall_upd_nth; auto. intros x Hx. rewrite app_length. simpl. lia.
    + intros v k Hv. rewrite length_upd_nth. destruct (H _ _ Hv) as [Hk Hhd].
      split; auto. destruct (Nat.eq_dec k t) as [->|Hne'].
      * rewrite nth_upd_nth_eq; auto. rewrite hd_app; auto.
      * rewrite nth_upd_nth_neq; auto.
    + intros v k Hv. rewrite length_upd_nth.
      rewrite mfind_merase in Hv. destruct (Nat.eqb_spec v a) as [|Hva]; [discriminate|].
      apply mfind_minsert_weak in Hv. destruct Hv as [Hv|(-> & -> & _)].
      * destruct (T _ _ Hv) as [Hk Hl]. split; auto.
        destruct (Nat.eq_dec k t) as [->|Hne'].
        -- congruence.
        -- rewrite nth_upd_nth_neq; auto.
      * split; auto. rewrite nth_upd_nth_eq; auto. apply last_last.
  - (* prepend to chain h *)
    destruct (H _ _ Hh) as [Hhn Hhb]. unfold chain, nchains in *.
    assert (Hne : nth h (chains st) [] <> []) by (apply len2_ne; auto).
    constructor; unfold chain, nchains; cbn [heads tails chains].
    + rewrite (flat_map_upd_nth _ _ pairs _ (fun c => a :: c) (chains st) [] [(a, b)]); auto.
      * apply Permutation_app_tail; auto.
      * rewrite pairs_cons; auto. rewrite Hhb.
        change ((a, b) :: pairs (nth h (chains st) [])) with ([(a, b)] ++ pairs (nth h (chains st) [])).
        apply Permutation_app_comm.
    + apply Forall_upd_nth; auto. intros x Hx. simpl. lia.
    + intros v k Hv. rewrite length_upd_nth.
      rewrite mfind_merase in Hv. destruct (Nat.eqb_spec v b) as [|Hvb]; [discriminate|].
      apply mfind_minsert_weak in Hv. destruct Hv as [Hv|(-> & -> & _)].
      * destruct (H _ _ Hv) as [Hk Hl]. split; auto.
        destruct (Nat.eq_dec k h) as [->|Hne'].
        -- congruence.
        -- rewrite nth_upd_nth_neq; auto.
      * split; auto. rewrite nth_upd_nth_eq; auto.
    + intros v k Hv. rewrite length_upd_nth. destruct (T _ _ Hv) as [Hk Hl].
      split; auto. destruct (Nat.eq_dec k h) as [->|Hne'].
      * rewrite nth_upd_nth_eq; auto. rewrite last_cons; auto.
      * rewrite nth_upd_nth_neq; auto.
  - (* new chain *)
    unfold chain, nchains in *.
    constructor; unfold chain, nchains; cbn [heads tails chains].
    + rewrite flat_map_app. simpl. apply Permutation_app_tail; auto.
    + apply Forall_app; split; auto.
    + intros v k Hv. rewrite app_length; simpl. rewrite mfind_mset in Hv.
      destruct (Nat.eqb_spec v a) as [->|Hva].
      * injection Hv as <-. split; [lia|]. rewrite app_nth2, Nat.sub_diag; auto.
      * destruct (H _ _ Hv) as [Hk Hl]. split; [lia|]. rewrite app_nth1; auto.
    + intros v k Hv. rewrite app_length; simpl. rewrite mfind_mset in Hv.
      destruct (Nat.eqb_spec v b) as [->|Hvb].
      * injection Hv as <-. split; [lia|]. rewrite app_nth2, Nat.sub_diag; auto.
      * destruct (T _ _ Hv) as [Hk Hl]. split; [lia|]. rewrite app_nth1; auto.
Qed.

Lemma inv0_fold rest : forall st done,
  inv0 st done -> inv0 (fold_left cstep rest st) (done ++ rest).
Proof.
  induction rest as [|[a b] rest IH]; intros st done I; simpl.
  - rewrite app_nil_r. auto.
  - change ((a, b) :: rest) with ([(a, b)] ++ rest). rewrite app_assoc.
    apply IH. apply inv0_step. auto.
Qed.

Lemma inv0_build segs : inv0 (build_chains segs) segs.
Proof. apply (inv0_fold segs _ _ inv0_init). Qed.

(* ------------------------------------------------------------------------- *)
(** * Phase 2, for arbitrary input: every chain is emitted exactly once *)

Lemma existsb_eqb_In h l : existsb (Nat.eqb h) l = true <-> In h l.
Proof.
  rewrite existsb_exists. split.
  - intros [x [Hx E]]. apply Nat.eqb_eq in E. subst; auto.
  - intros Hx. exists h. split; auto. apply Nat.eqb_refl.
Qed.

Lemma existsb_eqb_nIn h l : existsb (Nat.eqb h) l = false <-> ~ In h l.
Proof.
  rewrite <- existsb_eqb_In. destruct (existsb (Nat.eqb h) l); split; congruence.
Qed.

Lemma NoDup_app_intro A (l1 l2 : list A) :
  NoDup l1 -> NoDup l2 -> (forall x, In x l1 -> ~ In x l2) -> NoDup (l1 ++ l2).
Proof.
  induction 1; simpl; intros H2 Hd; auto.
  constructor.
  - rewrite in_app_iff. intros [?|?]; [tauto|]. eapply Hd; eauto.
  - apply IHNoDup; auto.
Qed.

Lemma map_nth_seq A (l : list A) d : map (fun k => nth k l d) (seq 0 (length l)) = l.
Proof.
  induction l; simpl; f_equal. rewrite <- seq_shift, map_map. exact IHl.
Qed.

Lemma weld_S f st P target acc :
  weld (S f) st P target acc =
  match mfind (last (nth target (chains st) []) 0) (heads st) with
  | Some h =>
      if existsb (Nat.eqb h) (target :: P)
      then (acc ++ nth target (chains st) [], target :: P)
      else weld f st (target :: P) h (removelast (acc ++ nth target (chains st) []))
  | None => (acc ++ nth target (chains st) [], target :: P)
  end.
Proof. reflexivity. Qed.

Lemma weld_0 st P target acc :
  weld 0 st P target acc = (acc ++ nth target (chains st) [], target :: P).
Proof. reflexivity. Qed.

Section Phase2.
  Variable st : cstate.
  Variable done : list seg.
  Hypothesis I : inv0 st done.

  Let n := nchains st.
  Let pchain (P : list nat) : list seg := flat_map pairs (map (chain st) P).

  Lemma weld_perm fuel : forall P target acc poly P',
    target < n -> ~ In target P ->
    weld fuel st P target acc = (poly, P') ->
    exists new, P' = new ++ P /\ NoDup new /\ In target new /\
      (forall k, In k new -> k < n /\ ~ In k P) /\
      Permutation (pairs poly)
                  (pairs (acc ++ [hd 0 (chain st target)]) ++ pchain new) /\
      2 <= length poly.
  Proof.
    induction fuel as [|f IH]; intros P target acc poly P' Ht HnP W.
    all: assert (Hstop : (poly, P') = (acc ++ chain st target, target :: P) ->
      exists new, P' = new ++ P /\ NoDup new /\ In target new /\
      (forall k, In k new -> k < n /\ ~ In k P) /\
      Permutation (pairs poly)
                  (pairs (acc ++ [hd 0 (chain st target)]) ++ pchain new) /\
      2 <= length poly)
      by (intros [= -> ->]; exists [target];
          pose proof (inv0_chain_len _ _ _ I Ht) as L;
          split; [reflexivity|]; split; [constructor; [simpl; tauto|constructor]|];
          split; [left; reflexivity|];
          split; [intros k [<-|[]]; auto|];
          split; [|rewrite app_length; lia];
          unfold pchain; simpl; rewrite app_nil_r;
          destruct (chain st target) as [|x c'] eqn:E; [simpl in L; lia|];
          simpl hd; rewrite pairs_app_mid; reflexivity).
    - apply Hstop. symmetry. exact W.
    - rewrite weld_S in W. fold (chain st target) in W.
      destruct (mfind (last (chain st target) 0) (heads st)) as [h|] eqn:Hh;
        [|apply Hstop; symmetry; exact W].
      destruct (existsb (Nat.eqb h) (target :: P)) eqn:Ex;
        [apply Hstop; symmetry; exact W|].
      apply existsb_eqb_nIn in Ex.
      destruct (i_heads _ _ I _ _ Hh) as [Hhn Hhd]. fold n in Hhn.
      destruct (IH _ _ _ _ _ Hhn Ex W) as (new' & -> & ND & Hin & Hall & Pp & Len).
      pose proof (inv0_chain_len _ _ _ I Ht) as L.
      assert (Hc : chain st target <> []) by (apply len2_ne; auto).
      exists (new' ++ [target]). repeat split.
      + rewrite <- app_assoc. reflexivity.
      + apply NoDup_app_intro; auto.
        * constructor; [simpl; tauto|constructor].
        * intros x Hx [<-|[]]. destruct (Hall _ Hx) as [_ Hn]. apply Hn. left; auto.
      + apply in_or_app. right. left. auto.
      + apply in_app_or in H. destruct H as [H|[<-|[]]]; auto.
        destruct (Hall _ H); auto.
      + apply in_app_or in H. destruct H as [H|[<-|[]]]; auto.
        destruct (Hall _ H) as [_ Hn]. intros Hk. apply Hn. right. auto.
      + rewrite Pp. rewrite Hhd.
        replace (last (chain st target) 0) with (last (acc ++ chain st target) 0)
          by (apply last_app_ne; auto).
        rewrite <- app_removelast_last
          by (intros E; apply app_eq_nil in E; tauto).
        unfold pchain. rewrite map_app, flat_map_app. simpl. rewrite app_nil_r.
        destruct (chain st target) as [|x c'] eqn:E; [congruence|].
        simpl hd. rewrite (pairs_app_mid acc x c').
        rewrite <- !app_assoc. apply Permutation_app_head. apply Permutation_app_comm.
      + exact Len.
  Qed.

  Lemma weld_all_perm is : forall P out,
    (forall i, In i is -> i < n) ->
    NoDup P -> (forall k, In k P -> k < n) ->
    Permutation (flat_map pairs out) (pchain P) ->
    Forall (fun l => 2 <= length l) out ->
    exists P', incl is P' /\ incl P P' /\ NoDup P' /\ (forall k, In k P' -> k < n) /\
      Permutation (flat_map pairs (weld_all st is P out)) (pchain P') /\
      Forall (fun l => 2 <= length l) (weld_all st is P out).
  Proof.
    induction is as [|i r IH]; intros P out His ND HP Pp Len; simpl.
    - exists P. repeat split; auto using incl_refl. intros x [].
    - destruct (existsb (Nat.eqb i) P) eqn:Ex.
      + apply existsb_eqb_In in Ex.
        destruct (IH P out) as (P' & H1 & H2 & H3 & H4 & H5 & H6); auto.
        { intros; apply His; right; auto. }
        exists P'. repeat split; auto. intros x [<-|Hx]; auto.
      + apply existsb_eqb_nIn in Ex. change (length (chains st)) with n.
        destruct (weld n st P i []) as [poly P1] eqn:W.
        assert (Hi : i < n) by (apply His; left; auto).
        destruct (weld_perm _ _ _ _ _ _ Hi Ex W) as (new & -> & NDn & Hin & Hall & Ppoly & Lp).
        destruct (IH (new ++ P) (out ++ [poly])) as (P' & H1 & H2 & H3 & H4 & H5 & H6).
        * intros; apply His; right; auto.
        * apply NoDup_app_intro; auto. intros x Hx. apply (Hall _ Hx).
        * intros k Hk. apply in_app_or in Hk. destruct Hk as [Hk|Hk]; auto.
          apply (Hall _ Hk).
        * rewrite flat_map_app. simpl. rewrite app_nil_r.
          unfold pchain. rewrite map_app, flat_map_app.
          rewrite Ppoly. simpl. fold (pchain new). fold (pchain P).
          rewrite Pp. apply Permutation_app_comm.
        * apply Forall_app; split; auto.
        * exists P'. repeat split; auto.
          -- intros x [<-|Hx]; auto. apply H2. apply in_or_app; auto.
          -- intros x Hx. apply H2. apply in_or_app; auto.
  Qed.
End Phase2.

Lemma collect_spec segs :
  Permutation (flat_map pairs (collect segs)) segs /\
  Forall (fun l => 2 <= length l) (collect segs).
Proof.
  unfold collect. set (st := build_chains segs).
  pose proof (inv0_build segs) as I. fold st in I.
  destruct (weld_all_perm st segs I (seq 0 (length (chains st))) [] [])
    as (P' & H1 & _ & H3 & H4 & H5 & H6); auto.
  - intros i Hi. apply in_seq in Hi. unfold nchains. lia.
  - constructor.
  - intros k [].
  - split; auto. rewrite H5.
    assert (Pm : Permutation P' (seq 0 (length (chains st)))).
    { apply NoDup_Permutation; auto using seq_NoDup.
      intros x; split; intros Hx; auto.
      apply in_seq. specialize (H4 _ Hx). unfold nchains in H4. lia. }
    rewrite Pm. unfold chain. rewrite map_nth_seq. apply (i_perm _ _ I).
Qed.

(** Theorem 1 (holds for arbitrary soups; the [manifold] hypothesis is not needed). *)
Theorem collect_pairs_perm_any segs : Permutation (flat_map pairs (collect segs)) segs.
Proof. apply collect_spec. Qed.

Theorem collect_pairs_perm segs :
  manifold segs -> Permutation (flat_map pairs (collect segs)) segs.
Proof. intros _. apply collect_pairs_perm_any. Qed.

(** Theorem 3 (arbitrary soups). *)
Theorem collect_nonempty segs : forall l, In l (collect segs) -> 2 <= length l.
Proof.
  pose proof (proj2 (collect_spec segs)) as H. rewrite Forall_forall in H. exact H.
Qed.

(** Theorem 4: no vertex is invented (arbitrary soups; [manifold] not needed). *)
Lemma in_poly_pairs (l : list nat) v :
  2 <= length l -> In v l -> In v (map fst (pairs l)) \/ In v (map snd (pairs l)).
Proof.
  rewrite map_fst_pairs, map_snd_pairs.
  destruct l as [|x [|y r]]; simpl length; try lia. intros _ [<-|H].
  - left. left. reflexivity.
  - right. exact H.
Qed.

Theorem collect_vertices_any segs : forall l v,
  In l (collect segs) -> In v l -> In v (map fst segs) \/ In v (map snd segs).
Proof.
  intros l v Hl Hv.
  assert (Hp : forall p, In p (pairs l) -> In p segs).
  { intros p Hp. apply (Permutation_in _ (collect_pairs_perm_any segs)).
    apply in_flat_map. exists l. auto. }
  destruct (in_poly_pairs _ _ (collect_nonempty _ _ Hl) Hv) as [H|H];
    apply in_map_iff in H; destruct H as [p [<- Hin]]; [left|right];
    apply in_map; auto.
Qed.

Theorem collect_vertices segs :
  manifold segs -> forall l v,
  In l (collect segs) -> In v l -> In v (map fst segs) \/ In v (map snd segs).
Proof. intros _. apply collect_vertices_any. Qed.

(** Theorem 6b: every polyline is a path of the soup. *)
Theorem collect_path_any segs : forall l, In l (collect segs) -> incl (pairs l) segs.
Proof.
  intros l Hl p Hp. apply (Permutation_in _ (collect_pairs_perm_any segs)).
  apply in_flat_map. exists l. auto.
Qed.

Theorem collect_path segs :
  manifold segs -> forall l, In l (collect segs) -> incl (pairs l) segs.
Proof. intros _. apply collect_path_any. Qed.

(* ------------------------------------------------------------------------- *)
(** * Phase 1 on manifold input: [heads]/[tails] are complete, i.e. every chain is
      registered under its first and its last vertex. *)

Record inv1 (st : cstate) : Prop := {
  c_heads : forall k, k < nchains st -> mfind (hd 0 (chain st k)) (heads st) = Some k;
  c_tails : forall k, k < nchains st -> mfind (last (chain st k) 0) (tails st) = Some k }.

Lemma in_pairs_done st done k p :
  inv0 st done -> k < nchains st -> In p (pairs (chain st k)) -> In p done.
Proof.
  intros I Hk Hp. apply (Permutation_in _ (i_perm _ _ I)).
  apply in_flat_map. exists (chain st k). split; auto. apply nth_In. exact Hk.
Qed.

Lemma hd_in_done st done k :
  inv0 st done -> k < nchains st -> In (hd 0 (chain st k)) (map fst done).
Proof.
  intros I Hk. pose proof (inv0_chain_len _ _ _ I Hk) as L.
  destruct (chain st k) as [|x [|y r]] eqn:E; simpl in L; try lia.
  change (hd 0 (x :: y :: r)) with (fst (x, y)). apply in_map.
  eapply in_pairs_done; eauto. rewrite E. left. reflexivity.
Qed.

Lemma last_in_tl (c : list nat) : 2 <= length c -> In (last c 0) (tl c).
Proof.
  destruct c as [|x r]; simpl length; [lia|]. intros L.
  assert (Hr : r <> []) by (destruct r; simpl in L; [lia|congruence]).
  rewrite last_cons; auto. simpl.
  rewrite (app_removelast_last 0 Hr) at 2. apply in_or_app. right. left. auto.
Qed.

Lemma last_in_done st done k :
  inv0 st done -> k < nchains st -> In (last (chain st k) 0) (map snd done).
Proof.
  intros I Hk. pose proof (last_in_tl _ (inv0_chain_len _ _ _ I Hk)) as H.
  rewrite <- map_snd_pairs in H. apply in_map_iff in H. destruct H as [p [<- Hp]].
  apply in_map. eapply in_pairs_done; eauto.
Qed.

Lemma inv1_init : inv1 cinit.
Proof. constructor; unfold nchains; simpl; intros; lia. Qed.

Lemma inv1_step st done a b :
  inv0 st done -> inv1 st ->
  ~ In a (map fst done) -> ~ In b (map snd done) ->
  inv1 (cstep st (a, b)).
Proof.
  intros I [CH CT] Ha Hb.
  assert (CL : forall k, k < nchains st -> chain st k <> [])
    by (intros; apply len2_ne; eapply inv0_chain_len; eauto).
  assert (Hna : mfind a (heads st) = None).
  { destruct (mfind a (heads st)) as [k|] eqn:E; auto.
    destruct (i_heads _ _ I _ _ E) as [Hk <-]. exfalso. apply Ha. eapply hd_in_done; eauto. }
  assert (Hnb : mfind b (tails st) = None).
  { destruct (mfind b (tails st)) as [k|] eqn:E; auto.
    destruct (i_tails _ _ I _ _ E) as [Hk <-]. exfalso. apply Hb. eapply last_in_done; eauto. }
  unfold cstep.
  destruct (mfind a (tails st)) as [t|] eqn:Ht;
    [|destruct (mfind b (heads st)) as [h|] eqn:Hh].
  - destruct (i_tails _ _ I _ _ Ht) as [Htn Hta].
    assert (Hab : a <> b) by congruence.
    constructor; unfold chain, nchains in *; cbn [heads tails chains];
      rewrite length_upd_nth; intros k Hk.
    + destruct (Nat.eq_dec k t) as [->|Hne].
      * rewrite nth_upd_nth_eq; auto. rewrite hd_app; auto.
      * rewrite nth_upd_nth_neq; auto.
    + rewrite mfind_merase, mfind_minsert; auto.
      destruct (Nat.eq_dec k t) as [->|Hne].
      * rewrite nth_upd_nth_eq; auto. rewrite last_last.
        destruct (Nat.eqb_spec b a); [congruence|]. rewrite Nat.eqb_refl. reflexivity.
      * rewrite nth_upd_nth_neq; auto. specialize (CT _ Hk).
        destruct (Nat.eqb_spec (last (nth k (chains st) []) 0) a) as [E|_];
          [rewrite E in CT; congruence|].
        destruct (Nat.eqb_spec (last (nth k (chains st) []) 0) b) as [E|_];
          [rewrite E in CT; congruence|]. exact CT.
  - destruct (i_heads _ _ I _ _ Hh) as [Hhn Hhb].
    assert (Hab : a <> b) by congruence.
    constructor; unfold chain, nchains in *; cbn [heads tails chains];
      rewrite length_upd_nth; intros k Hk.
    + rewrite mfind_merase, mfind_minsert; auto.
      destruct (Nat.eq_dec k h) as [->|Hne].
      * rewrite nth_upd_nth_eq; auto. simpl hd.
        destruct (Nat.eqb_spec a b); [congruence|]. rewrite Nat.eqb_refl. reflexivity.
      * rewrite nth_upd_nth_neq; auto. specialize (CH _ Hk).
        destruct (Nat.eqb_spec (hd 0 (nth k (chains st) [])) b) as [E|_];
          [rewrite E in CH; congruence|].
        destruct (Nat.eqb_spec (hd 0 (nth k (chains st) [])) a) as [E|_];
          [rewrite E in CH; congruence|]. exact CH.
    + destruct (Nat.eq_dec k h) as [->|Hne].
      * rewrite nth_upd_nth_eq; auto. rewrite last_cons; auto.
      * rewrite nth_upd_nth_neq; auto.
  - constructor; unfold chain, nchains in *; cbn [heads tails chains];
      rewrite app_length; simpl length; intros k Hk; rewrite mfind_mset.
    + destruct (Nat.eq_dec k (length (chains st))) as [->|Hne].
      * rewrite app_nth2, Nat.sub_diag; auto. simpl. rewrite Nat.eqb_refl. reflexivity.
      * assert (Hk' : k < length (chains st)) by lia.
        rewrite app_nth1; auto. specialize (CH _ Hk').
        destruct (Nat.eqb_spec (hd 0 (nth k (chains st) [])) a) as [E|_];
          [rewrite E in CH; congruence|]. exact CH.
    + destruct (Nat.eq_dec k (length (chains st))) as [->|Hne].
      * rewrite app_nth2, Nat.sub_diag; auto. simpl. rewrite Nat.eqb_refl. reflexivity.
      * assert (Hk' : k < length (chains st)) by lia.
        rewrite app_nth1; auto. specialize (CT _ Hk').
        destruct (Nat.eqb_spec (last (nth k (chains st) []) 0) b) as [E|_];
          [rewrite E in CT; congruence|]. exact CT.
Qed.

Lemma inv1_fold rest : forall st done,
  inv0 st done -> inv1 st ->
  NoDup (map fst (done ++ rest)) -> NoDup (map snd (done ++ rest)) ->
  inv1 (fold_left cstep rest st).
Proof.
  induction rest as [|[a b] rest IH]; intros st done I C N1 N2; simpl; auto.
  apply (IH _ (done ++ [(a, b)])).
  - apply inv0_step; auto.
  - rewrite map_app in N1, N2. simpl in N1, N2.
    apply NoDup_remove_2 in N1. apply NoDup_remove_2 in N2.
    eapply inv1_step; eauto.
    + intros H. apply N1. apply in_or_app; auto.
    + intros H. apply N2. apply in_or_app; auto.
  - rewrite <- app_assoc. exact N1.
  - rewrite <- app_assoc. exact N2.
Qed.

Lemma inv1_build segs : manifold segs -> inv1 (build_chains segs).
Proof.
  intros M. apply manifold_NoDup in M. destruct M as [M1 M2].
  apply (inv1_fold segs cinit []); auto using inv0_init, inv1_init.
Qed.

(* ------------------------------------------------------------------------- *)
(** * Cycle soups: the chain ends are the chain starts *)

Definition mid (c : list nat) : list nat := removelast (tl c).

Lemma map_flat_map A B C (f : B -> C) (g : A -> list B) l :
  map f (flat_map g l) = flat_map (fun x => map f (g x)) l.
Proof. induction l; simpl; auto. rewrite map_app, IHl. reflexivity. Qed.

Lemma flat_removelast_perm cs :
  Forall (fun c : list nat => 2 <= length c) cs ->
  Permutation (flat_map (@removelast nat) cs) (map (hd 0) cs ++ flat_map mid cs).
Proof.
  induction 1 as [|c cs L _ IH]; simpl; auto.
  destruct c as [|x [|y r]]; simpl in L; try lia.
  change (removelast (x :: y :: r)) with (x :: removelast (y :: r)).
  change (mid (x :: y :: r)) with (removelast (y :: r)).
  simpl hd. rewrite IH. simpl. apply perm_skip. apply Permutation_app_swap_app.
Qed.

Lemma flat_tl_perm cs :
  Forall (fun c : list nat => 2 <= length c) cs ->
  Permutation (flat_map (@tl nat) cs) (flat_map mid cs ++ map (fun c => last c 0) cs).
Proof.
  induction 1 as [|c cs L _ IH]; simpl; auto.
  destruct c as [|x [|y r]]; simpl in L; try lia.
  change (mid (x :: y :: r)) with (removelast (y :: r)).
  rewrite last_cons by congruence. simpl tl. rewrite IH.
  rewrite (app_removelast_last 0 (l := y :: r)) at 1 by congruence.
  rewrite <- !app_assoc. apply Permutation_app_head. simpl.
  apply Permutation_middle.
Qed.

Lemma loops_hd_last st segs :
  inv0 st segs -> loops segs ->
  Permutation (map (hd 0) (chains st)) (map (fun c => last c 0) (chains st)).
Proof.
  intros I Lp. pose proof (i_perm _ _ I) as P. pose proof (i_len _ _ I) as L.
  apply (Permutation_app_inv_r (flat_map mid (chains st))).
  rewrite <- flat_removelast_perm by auto.
  rewrite (Permutation_app_comm (map _ _) _), <- flat_tl_perm by auto.
  transitivity (map fst segs).
  - rewrite <- P. rewrite map_flat_map.
    rewrite (flat_map_ext _ _ map_fst_pairs). reflexivity.
  - rewrite (loops_perm _ Lp). rewrite <- P. rewrite map_flat_map.
    rewrite (flat_map_ext _ _ map_snd_pairs). reflexivity.
Qed.

(* ------------------------------------------------------------------------- *)
(** * Phase 2 on a cycle soup: every walk returns to its starting chain *)

Lemma hd_removelast_app (d : nat) X Y :
  2 <= length X -> hd d (removelast X ++ Y) = hd d X.
Proof. destruct X as [|x [|y r]]; simpl length; try lia. reflexivity. Qed.

Section Phase2Loops.
  Variable st : cstate.
  Let n := nchains st.
  Definition succ_ch (k h : nat) : Prop := mfind (last (chain st k) 0) (heads st) = Some h.
  Definition predclosed (P : list nat) : Prop :=
    forall k h, k < n -> succ_ch k h -> In h P -> In k P.

  Hypothesis HL : forall k, k < n -> 2 <= length (chain st k).
  Hypothesis HH : forall v h, mfind v (heads st) = Some h -> h < n /\ hd 0 (chain st h) = v.
  Hypothesis Hinj : forall k k', k < n -> k' < n ->
    last (chain st k) 0 = last (chain st k') 0 -> k = k'.
  Hypothesis Htot : forall k, k < n -> exists h, succ_ch k h.

  Lemma succ_inj k k' h : k < n -> k' < n -> succ_ch k h -> succ_ch k' h -> k = k'.
  Proof.
    intros Hk Hk' S1 S2. apply Hinj; auto.
    destruct (HH _ _ S1) as [_ <-]. destruct (HH _ _ S2) as [_ E]. auto.
  Qed.

  Variable start : nat.

  Definition linked (walk : list nat) (target : nat) : Prop :=
    forall x, In x (target :: walk) ->
              x = start \/ exists k, In k walk /\ k < n /\ succ_ch k x.

  Lemma stop_closed P0 walk target acc h :
    target < n -> ~ In target (walk ++ P0) -> predclosed P0 ->
    linked walk target ->
    hd 0 (acc ++ chain st target) = hd 0 (chain st start) ->
    succ_ch target h -> In h (target :: walk ++ P0) ->
    closed (acc ++ chain st target) /\ predclosed (target :: walk ++ P0).
  Proof.
    intros Ht Hn PC Lk Hhd Sh Hin.
    assert (Hs : h = start).
    { change (target :: walk ++ P0) with ((target :: walk) ++ P0) in Hin.
      apply in_app_or in Hin. destruct Hin as [Hin|Hin].
      - destruct (Lk _ Hin) as [|[k [Hk [Hkn Sk]]]]; auto.
        exfalso. apply Hn. apply in_or_app. left.
        rewrite <- (succ_inj _ _ _ Hkn Ht Sk Sh). exact Hk.
      - exfalso. apply Hn. apply in_or_app. right. eapply PC; eauto. }
    subst h. split.
    - pose proof (HL _ Ht) as L. split.
      + rewrite app_length. lia.
      + rewrite Hhd. rewrite last_app_ne by (apply len2_ne; auto).
        destruct (HH _ _ Sh) as [_ E]. exact E.
    - intros k x Hk Sk Hx.
      change (target :: walk ++ P0) with ((target :: walk) ++ P0) in *.
      apply in_app_or in Hx. apply in_or_app. destruct Hx as [Hx|Hx].
      + left. destruct (Lk _ Hx) as [->|[k' [Hk' [Hkn' Sk']]]].
        * left. apply (succ_inj _ _ _ Ht Hk Sh Sk).
        * right. rewrite (succ_inj _ _ _ Hk Hkn' Sk Sk'). exact Hk'.
      + right. eapply PC; eauto.
  Qed.

  Lemma weld_closed fuel : forall P0 walk target acc poly P',
    target < n -> ~ In target (walk ++ P0) ->
    NoDup (walk ++ P0) -> (forall k, In k (walk ++ P0) -> k < n) ->
    n <= length (walk ++ P0) + fuel + 1 ->
    predclosed P0 -> linked walk target ->
    hd 0 (acc ++ chain st target) = hd 0 (chain st start) ->
    weld fuel st (walk ++ P0) target acc = (poly, P') ->
    closed poly /\ NoDup P' /\ (forall k, In k P' -> k < n) /\ predclosed P'.
  Proof.
    induction fuel as [|f IH]; intros P0 walk target acc poly P' Ht Hn ND All Fu PC Lk Hhd W.
    all: destruct (Htot _ Ht) as [h Sh].
    all: assert (ND' : NoDup (target :: walk ++ P0)) by (constructor; auto).
    all: assert (All' : forall k, In k (target :: walk ++ P0) -> k < n)
      by (intros k [<-|Hk]; auto).
    - rewrite weld_0 in W. fold (chain st target) in W. injection W as <- <-.
      assert (Hin : In h (target :: walk ++ P0)).
      { apply (NoDup_length_incl ND' (l' := seq 0 n)).
        - rewrite seq_length. simpl. lia.
        - intros k Hk. apply in_seq. specialize (All' _ Hk). lia.
        - apply in_seq. destruct (HH _ _ Sh). lia. }
      destruct (stop_closed _ _ _ _ _ Ht Hn PC Lk Hhd Sh Hin) as [C PC']. auto.
    - rewrite weld_S in W. fold (chain st target) in W.
      unfold succ_ch in Sh. rewrite Sh in W. fold (succ_ch target h) in Sh.
      destruct (existsb (Nat.eqb h) (target :: walk ++ P0)) eqn:Ex.
      + injection W as <- <-. apply existsb_eqb_In in Ex.
        destruct (stop_closed _ _ _ _ _ Ht Hn PC Lk Hhd Sh Ex) as [C PC']. auto.
      + apply existsb_eqb_nIn in Ex. destruct (HH _ _ Sh) as [Hhn _].
        apply (IH P0 (target :: walk) h (removelast (acc ++ chain st target))); auto.
        * simpl. simpl in Fu. lia.
        * intros x [<-|Hx].
          -- right. exists target. split; [left; auto|]. auto.
          -- destruct (Lk _ Hx) as [|[k [Hk [Hkn Sk]]]]; auto.
             right. exists k. split; [right; auto|]. auto.
        * rewrite hd_removelast_app; auto. pose proof (HL _ Ht). rewrite app_length. lia.
  Qed.
End Phase2Loops.

Section Phase2LoopsAll.
  Variable st : cstate.
  Let n := nchains st.
  Hypothesis HL : forall k, k < n -> 2 <= length (chain st k).
  Hypothesis HH : forall v h, mfind v (heads st) = Some h -> h < n /\ hd 0 (chain st h) = v.
  Hypothesis Hinj : forall k k', k < n -> k' < n ->
    last (chain st k) 0 = last (chain st k') 0 -> k = k'.
  Hypothesis Htot : forall k, k < n -> exists h, succ_ch st k h.

  Lemma weld_all_closed is : forall P out,
    (forall i, In i is -> i < n) ->
    NoDup P -> (forall k, In k P -> k < n) -> predclosed st P ->
    (forall l, In l out -> closed l) ->
    forall l, In l (weld_all st is P out) -> closed l.
  Proof.
    induction is as [|i r IH]; intros P out His ND All PC Hout; simpl; auto.
    destruct (existsb (Nat.eqb i) P) eqn:Ex.
    - apply IH; auto. intros; apply His; right; auto.
    - apply existsb_eqb_nIn in Ex. change (length (chains st)) with n.
      destruct (weld n st P i []) as [poly P1] eqn:W.
      assert (Hi : i < n) by (apply His; left; auto).
      destruct (weld_closed st HL HH Hinj Htot i n P [] i [] poly P1) as (C & ND1 & All1 & PC1); auto.
      + simpl. lia.
      + intros x [<-|[]]. left. reflexivity.
      + apply IH; auto.
        * intros; apply His; right; auto.
        * intros l Hl. apply in_app_or in Hl. destruct Hl as [Hl|[<-|[]]]; auto.
  Qed.
End Phase2LoopsAll.

(** Theorem 2. *)
Theorem collect_closed_loops segs :
  loops segs -> forall l, In l (collect segs) -> closed l.
Proof.
  intros Lp. unfold collect. set (st := build_chains segs).
  pose proof (inv0_build segs) as I. pose proof (inv1_build segs (proj1 Lp)) as C.
  fold st in I, C.
  apply (weld_all_closed st).
  - intros k Hk. eapply inv0_chain_len; eauto.
  - apply (i_heads _ _ I).
  - intros k k' Hk Hk' E. pose proof (c_tails _ C _ Hk) as T1.
    pose proof (c_tails _ C _ Hk') as T2. rewrite E in T1. congruence.
  - intros k Hk. pose proof (loops_hd_last _ _ I Lp) as P.
    assert (Hin : In (last (chain st k) 0) (map (fun c => last c 0) (chains st))).
    { apply (in_map (fun c => last c 0)). apply nth_In. exact Hk. }
    apply (Permutation_in _ (Permutation_sym P)) in Hin.
    apply in_map_iff in Hin. destruct Hin as [c [E Hc]].
    destruct (In_nth _ _ [] Hc) as [j [Hj Ej]].
    exists j. unfold succ_ch. rewrite <- E, <- Ej. apply (c_heads _ C _ Hj).
  - intros i Hi. apply in_seq in Hi. unfold nchains. lia.
  - constructor.
  - intros k [].
  - intros k h _ _ [].
  - intros l [].
Qed.

Theorem collect_closed segs :
  loops segs -> segs <> [] -> forall l, In l (collect segs) -> closed l.
Proof. intros Lp _. apply collect_closed_loops; auto. Qed.

(* ------------------------------------------------------------------------- *)
(** * Concrete soups *)

(* 5. branching (non-manifold) input: two segments leave vertex 1 / enter vertex 2.
   Nothing is lost or invented (as guaranteed by [collect_pairs_perm_any]). *)
Example collect_branching_example_out :
  collect [(1,2);(1,3)] = [[1;2];[1;3]] /\
  Permutation (flat_map pairs (collect [(1,2);(1,3)])) [(1,2);(1,3)].
Proof. split; [vm_compute; reflexivity | apply collect_pairs_perm_any]. Qed.

Example collect_branching_example_in :
  collect [(1,2);(3,2)] = [[1;2];[3;2]] /\
  Permutation (flat_map pairs (collect [(1,2);(3,2)])) [(1,2);(3,2)].
Proof. split; [vm_compute; reflexivity | apply collect_pairs_perm_any]. Qed.

(* a figure eight through vertex 1 happens to come back as one closed tour ... *)
Example collect_branching_example_eight :
  collect [(1,2);(2,1);(1,3);(3,1)] = [[1;2;1;3;1]].
Proof. vm_compute; reflexivity. Qed.

(* ... but balanced degrees without [manifold] do not give closed polylines: three
   2-cycles through vertex 0 come back as two open pieces of one closed tour. *)
Definition star3 : list seg := [(3,0);(2,0);(1,0);(0,3);(0,2);(0,1)].

Example collect_branching_example_star :
  collect star3 = [[3;0;2;0];[0;1;0;3]] /\
  Permutation (flat_map pairs (collect star3)) star3.
Proof. split; [vm_compute; reflexivity | apply collect_pairs_perm_any]. Qed.

Lemma collect_closed_balanced_refuted :
  (forall v, out_deg v star3 = in_deg v star3) /\
  ~ (forall l, In l (collect star3) -> closed l).
Proof.
  split.
  - intros [|[|[|[|v]]]]; reflexivity.
  - intros H. destruct (H [3;0;2;0]) as [_ E].
    + vm_compute. left. reflexivity.
    + vm_compute in E. discriminate.
Qed.

(* 6. an open path (manifold, not loops) can come back fragmented, and [closed] fails:
   the hypothesis [loops] of [collect_closed] cannot be weakened to [manifold]. *)
Example collect_open_example : collect [(3,4);(1,2);(2,3)] = [[3;4];[1;2;3]].
Proof. vm_compute; reflexivity. Qed.

Lemma collect_closed_manifold_refuted :
  manifold [(3,4);(1,2);(2,3)] /\
  ~ (forall l, In l (collect [(3,4);(1,2);(2,3)]) -> closed l).
Proof.
  split.
  - apply manifold_NoDup. split; simpl; repeat constructor; simpl; intuition lia.
  - intros H. destruct (H [3;4]) as [_ E].
    + vm_compute. left. reflexivity.
    + vm_compute in E. discriminate.
Qed.

(* self-loop segments (a,a): under [manifold] such a vertex is isolated and comes back as
   the closed polyline [a;a]; no extra hypothesis is needed anywhere. *)
Example collect_selfloop_example :
  collect [(5,5);(1,2);(2,1)] = [[5;5];[1;2;1]] /\ loops [(5,5);(1,2);(2,1)].
Proof.
  split; [vm_compute; reflexivity|]. split.
  - apply manifold_NoDup. split; simpl; repeat constructor; simpl; intuition lia.
  - intros [|[|[|[|[|[|v]]]]]]; reflexivity.
Qed.

Example collect_selfloop_branching_example : collect [(1,1);(1,2)] = [[1;1;2]].
Proof. vm_compute; reflexivity. Qed.

(* a cycle given in scrambled order is welded into a single closed polyline *)
Example collect_cycle_example : collect [(2,3);(4,1);(1,2);(3,4)] = [[2;3;4;1;2]].
Proof. vm_compute; reflexivity. Qed.
