(* C10: Contours::collect (contours.cpp): welding directed segments into polylines.

   Vertices are indices (nat); a segment is (from, to).  std::map is an association list
   with the three operations the code uses: find, insert (does NOT overwrite an existing
   key), erase by key, and operator[] assignment (overwrites). *)
From Coq Require Import List Arith Bool Lia.
Import ListNotations.

Definition seg := (nat * nat)%type.
Definition amap := list (nat * nat).

Fixpoint mfind (k : nat) (m : amap) : option nat :=
  match m with
  | [] => None
  | (k', v) :: r => if Nat.eqb k k' then Some v else mfind k r
  end.
Definition merase (k : nat) (m : amap) : amap := filter (fun kv => negb (Nat.eqb k (fst kv))) m.
Definition minsert (k v : nat) (m : amap) : amap :=
  match mfind k m with Some _ => m | None => (k, v) :: m end.
Definition mset (k v : nat) (m : amap) : amap := (k, v) :: merase k m.

Fixpoint upd_nth {A} (n : nat) (f : A -> A) (l : list A) : list A :=
  match l, n with
  | [], _ => []
  | x :: r, 0 => f x :: r
  | x :: r, S n' => x :: upd_nth n' f r
  end.

Record cstate := { heads : amap; tails : amap; chains : list (list nat) }.
Definition cinit : cstate := {| heads := []; tails := []; chains := [] |}.

(* the body of "for (auto& s : segs.branes)" *)
Definition cstep (st : cstate) (s : seg) : cstate :=
  let (a, b) := s in
  match mfind a (tails st) with
  | Some t =>
      (* attach to the back of the chain whose tail is a *)
      {| heads := heads st;
         tails := merase a (minsert b t (tails st));
         chains := upd_nth t (fun c => c ++ [b]) (chains st) |}
  | None =>
      match mfind b (heads st) with
      | Some h =>
          (* prepend to the chain whose head is b *)
          {| heads := merase b (minsert a h (heads st));
             tails := tails st;
             chains := upd_nth h (fun c => a :: c) (chains st) |}
      | None =>
          let n := length (chains st) in
          {| heads := mset a n (heads st); tails := mset b n (tails st);
             chains := chains st ++ [[a; b]] |}
      end
  end.

Definition build_chains (segs : list seg) : cstate := fold_left cstep segs cinit.

(* the inner "while (true)" of the welding pass: follow heads from the back of [target] *)
Fixpoint weld (fuel : nat) (st : cstate) (processed : list nat) (target : nat) (acc : list nat)
  : list nat * list nat :=
  let c := nth target (chains st) [] in
  let acc' := acc ++ c in
  let processed' := target :: processed in
  match fuel with
  | 0 => (acc', processed')
  | S f =>
      match mfind (last c 0) (heads st) with
      | Some h =>
          if existsb (Nat.eqb h) processed' then (acc', processed')
          else weld f st processed' h (removelast acc')
      | None => (acc', processed')
      end
  end.

(* the outer "for (i < contours.size())" *)
Fixpoint weld_all (st : cstate) (is : list nat) (processed : list nat) (out : list (list nat))
  : list (list nat) :=
  match is with
  | [] => out
  | i :: r =>
      if existsb (Nat.eqb i) processed then weld_all st r processed out
      else
        let (poly, processed') := weld (length (chains st)) st processed i [] in
        weld_all st r processed' (out ++ [poly])
  end.

Definition collect (segs : list seg) : list (list nat) :=
  let st := build_chains segs in
  weld_all st (seq 0 (length (chains st))) [] [].

(* consecutive pairs of a polyline *)
Fixpoint pairs (l : list nat) : list seg :=
  match l with
  | a :: ((b :: _) as r) => (a, b) :: pairs r
  | _ => []
  end.
Definition closed (l : list nat) : Prop := 2 <= length l /\ hd 0 l = last l 0.
