(* C04 (adaptive octrees): towards completeness of the face recursion face3 (continuation of OctTreeSepA.v). *)
From Coq Require Import List ZArith Bool Lia Arith.
From LF Require Import Gen.MarchTables_gen Gen.ManifoldTables_gen Render.DCGrid Render.DCGridSem
                       Render.OctTree Render.OctTreeGeom Render.OctTreeCollect Render.OctTreeNet Render.OctTreeFace Render.OctTreeSem
                       Render.OctTreeSepDefs Render.OctTreeSepA Render.OctTreeSepB.
Import ListNotations.
Local Open Scope Z_scope.

Definition pffits3 (ins : pt3 -> bool) (N : Z) (hi : bool) (c : pcell3) (s : pt3) (k : nat) : Prop :=
  ffits ins N hi (c_t c) (c_o c) (c_k c) s k.

(* the third axis: the one across the edge of axis A inside a face of normal N *)
Definition third (N A : Z) : Z := if A =? Qax N then Rax N else Qax N.

(* the lattice edge (s, k) of axis A lies in the square face (sf, k0) of normal N: inside along A, STRICTLY inside across *)
Definition inface (N : Z) (sf : pt3) (k0 : nat) (A : Z) (s : pt3) (k : nat) : Prop :=
  oco N s = oco N sf /\ oco A sf <= oco A s /\ oco A s + osize k <= oco A sf + osize k0 /\
  oco (third N A) sf < oco (third N A) s < oco (third N A) sf + osize k0.

Lemma pffits3_split ins N hi c s k : oaxis N -> pffits3 ins N hi c s (S k) ->
  let q := Qax N in let r := Rax N in let a := if hi then 0 else N in let h := osize k in
  pffits3 ins N hi (pchild3 c (0 + a)) s k /\ pffits3 ins N hi (pchild3 c (q + a)) (ostep q s h) k /\
  pffits3 ins N hi (pchild3 c (r + a)) (ostep r s h) k /\
  pffits3 ins N hi (pchild3 c (q + r + a)) (ostep r (ostep q s h) h) k.
Proof.
  intros HN F q r a h. destruct c as [t p o kt]. unfold pffits3, pchild3 in *. cbn [c_t c_p c_o c_k] in *.
  destruct (o_is_branch t) eqn:B; cbn [c_t c_p c_o c_k].
  - pose proof F as [C [_ [E [_ [_ Es]]]]]. specialize (E B). subst kt. specialize (Es eq_refl). subst s.
    rewrite !ochild_org_S. cbn [pred]. exact (ffits_branch_children ins N hi t o k HN C B).
  - exact (ffits_leaf_split ins N hi t o kt s k HN F B).
Qed.

Lemma pffits3_edges ins N hi c s k : oaxis N -> pffits3 ins N hi c s k ->
  let q := Qax N in let r := Rax N in let a := if hi then 0 else N in
  pfits3 ins q a c s k /\ pfits3 ins q (r + a) c (ostep r s (osize k)) k /\
  pfits3 ins r a c s k /\ pfits3 ins r (a + q) c (ostep q s (osize k)) k.
Proof. intros HN F. exact (ffits_edges ins N hi _ _ _ _ _ HN F). Qed.

(* what a branching host of a face knows *)
Lemma host_facts ins N hi X sf k0' : pffits3 ins N hi X sf (S k0') -> o_is_branch (c_t X) = true ->
  oconsistent ins (c_t X) (c_o X) (c_k X) /\ c_k X = S k0' /\
  sf = ocorner_pt (c_o X) (S k0') (if hi then 0 else N) /\
  forall i, c_o (pchild3 X i) = ocorner_pt (c_o X) k0' i /\ c_k (pchild3 X i) = k0'.
Proof.
  intros [C [_ [E [_ [_ Es]]]]] B. specialize (E B). split; [exact C|]. split; [exact E|]. split; [exact (Es E)|].
  intros i. unfold pchild3. rewrite B. cbn [c_o c_k]. rewrite E, ochild_org_S. split; reflexivity.
Qed.

Lemma pffits3_consistent ins N hi X sf k : pffits3 ins N hi X sf k -> oconsistent ins (c_t X) (c_o X) (c_k X) /\ (k <= c_k X)%nat.
Proof. intros [C [H _]]. split; assumption. Qed.

(* leaf_in_child also for hosts that are leaves *)
Lemma leaf_in_child' ins X i x cc kc :
  oconsistent ins (c_t X) (c_o X) (c_k X) -> In i corners8 ->
  In x (pleaves3 X) -> cube_in cc kc x -> (o_is_branch (c_t X) = true -> cube_in cc kc (pchild3 X i)) ->
  In x (pleaves3 (pchild3 X i)).
Proof.
  intros C Hi Hx Cx Ci. destruct (o_is_branch (c_t X)) eqn:B.
  - apply (leaf_in_child ins X i x cc kc B C Hi Hx Cx (Ci eq_refl)).
  - rewrite pchild3_leaf by exact B. exact Hx.
Qed.

(* a cube inside a leaf of a branch lies, in every direction, inside one half of the branch *)
Lemma cube_halves ins X k' x cc kc :
  o_is_branch (c_t X) = true -> oconsistent ins (c_t X) (c_o X) (c_k X) -> c_k X = S k' ->
  In x (pleaves3 X) -> cube_in cc kc x ->
  let '(cx, cy, cz) := cc in let '(ox, oy, oz) := c_o X in
  (cx + osize kc <= ox + osize k' \/ ox + osize k' <= cx) /\
  (cy + osize kc <= oy + osize k' \/ oy + osize k' <= cy) /\
  (cz + osize kc <= oz + osize k' \/ oz + osize k' <= cz).
Proof.
  intros B C Ek Hx Cx. destruct X as [t p o kt]. cbn [c_t c_p c_o c_k] in *. subst kt.
  destruct t as [| | |c0 c1 c2 c3 c4 c5 c6 c7]; try discriminate.
  destruct (oconsistent_branch _ _ _ _ _ _ _ _ _ _ _ C) as [k0 [Ek [C0 [C1 [C2 [C3 [C4 [C5 [C6 C7]]]]]]]]].
  injection Ek as <-.
  unfold pleaves3 in Hx. cbn [c_t c_p c_o c_k oleaves pred] in Hx. rewrite !ochild_org_S in Hx.
  unfold cube_in in Cx. destruct (c_o x) as [[ax ay] az] eqn:Eo.
  destruct o as [[ox oy] oz], cc as [[cx cy] cz].
  pose proof (osize_pos kc) as Hp. pose proof (osize_pos k') as Hp'. pose proof (osize_S k') as HS.
  unfold box_in in Cx.
  in_app8 Hx;
    [ pose proof (oleaves_inside ins _ _ _ _ _ C0 Hx) as [_ [L _]] | pose proof (oleaves_inside ins _ _ _ _ _ C1 Hx) as [_ [L _]]
    | pose proof (oleaves_inside ins _ _ _ _ _ C2 Hx) as [_ [L _]] | pose proof (oleaves_inside ins _ _ _ _ _ C3 Hx) as [_ [L _]]
    | pose proof (oleaves_inside ins _ _ _ _ _ C4 Hx) as [_ [L _]] | pose proof (oleaves_inside ins _ _ _ _ _ C5 Hx) as [_ [L _]]
    | pose proof (oleaves_inside ins _ _ _ _ _ C6 Hx) as [_ [L _]] | pose proof (oleaves_inside ins _ _ _ _ _ C7 Hx) as [_ [L _]] ];
    rewrite Eo in L; corner_pts_in L; unfold box_in in L; lia.
Qed.

(* a leaf that surrounds the edge in two different quadrants is larger than the edge *)
Lemma two_roles_larger A cn cn' x s k : oaxis A -> quadrant A cn -> quadrant A cn' -> cn <> cn' ->
  around3 A cn x s k -> around3 A cn' x s k -> c_k x <> k.
Proof.
  intros HA Q1 Q2 Hne [_ C1] [_ C2] E. unfold cube_in in *. rewrite E in *.
  destruct (c_o x) as [[ox oy] oz], s as [[sx sy] sz]. pose proof (osize_pos k) as Hp.
  revert C1 C2 Hne. unfold qcube, hasq, hasr.
  destruct HA as [-> | [-> | ->]]; cbn [Qax Rax Z.eqb Pos.eqb] in Q1, Q2;
    destruct Q1 as [-> | [-> | [-> | ->]]]; destruct Q2 as [-> | [-> | [-> | ->]]];
    cbn [Qax Rax Z.eqb Pos.eqb]; zsums; cbn [Z.eqb Pos.eqb orb]; osteps; unfold box_in; intros C1 C2 Hne;
    first [congruence | lia].
Qed.

(* base case of face3 (it returns [] when neither host branches): then no quadruple of leaves below the two
   hosts (two below each) surrounds a MINIMAL edge -- each host would fill two quadrants, so be larger *)
Lemma face3_base A c0 c1 a b c d s k (sel : bool) : oaxis A ->
  o_is_branch (c_t c0) = false -> o_is_branch (c_t c1) = false ->
  In a (pleaves3 c0) -> In d (pleaves3 c1) ->
  In b (pleaves3 (if sel then c0 else c1)) -> In c (pleaves3 (if sel then c1 else c0)) ->
  min_edge3 A a b c d s k -> False.
Proof.
  intros HA B0 B1 Ia Id Ib Ic [Aa [Ab [Ac [Ad Hm]]]].
  assert (Q0 : quadrant A (Qax A + Rax A)) by (unfold quadrant; tauto).
  assert (Q1 : quadrant A (Rax A)) by (unfold quadrant; tauto).
  assert (Q2 : quadrant A (Qax A)) by (unfold quadrant; tauto).
  assert (Q3 : quadrant A 0) by (unfold quadrant; tauto).
  assert (NE : Qax A + Rax A <> Rax A /\ Qax A + Rax A <> Qax A /\ Rax A <> 0 /\ Qax A <> 0).
  { destruct HA as [-> | [-> | ->]]; cbn; repeat split; discriminate. }
  destruct NE as [N1 [N2 [N3 N4]]].
  rewrite pleaves3_self in Ia, Id by assumption. destruct Ia as [<-|[]]. destruct Id as [<-|[]].
  destruct sel; rewrite pleaves3_self in Ib, Ic by assumption; destruct Ib as [<-|[]]; destruct Ic as [<-|[]].
  - pose proof (two_roles_larger A _ _ c0 s k HA Q0 Q1 N1 Aa Ab) as K0.
    pose proof (two_roles_larger A _ _ c1 s k HA Q2 Q3 N4 Ac Ad) as K1. tauto.
  - pose proof (two_roles_larger A _ _ c0 s k HA Q0 Q2 N2 Aa Ac) as K0.
    pose proof (two_roles_larger A _ _ c1 s k HA Q1 Q3 N3 Ab Ad) as K1. tauto.
Qed.

Print Assumptions pffits3_split.
Print Assumptions cube_halves.
Print Assumptions leaf_in_child'.
Print Assumptions two_roles_larger.
Print Assumptions face3_base.

(* NOT PROVED: face3_complete, statement intended (N normal, A = Qax N or Rax N, c0 below / c1 above the face):
     pffits3 ins N false c0 sf k0 -> pffits3 ins N true c1 sf k0 -> heights < f ->
     In a (pleaves3 c0) -> In d (pleaves3 c1) ->
     In b (pleaves3 (if A =? Qax N then c0 else c1)) -> In c (pleaves3 (if A =? Qax N then c1 else c0)) ->
     min_edge3 A a b c d s k -> inface N sf k0 A s k ->
     incl (load3 diag A (c_cell a) (c_cell b) (c_cell c) (c_cell d)) (face3 diag f N (c_cell c0) (c_cell c1)).
   Base case (no host branches): face3_base above.  Step (k0 = S k0'), from the pieces above:
   positions from cube_halves on a branching host (it hosts one cube on each side across, so
   s_T + 2^k <= mid \/ s_T = mid \/ mid + 2^k <= s_T, and the half along A); targets into children by
   leaf_in_child' (child index = (N if host below) + (T if high across) + (A if high along)); children fit the
   quarter faces by pffits3_split (-> induction, inface of the quarter) or, when s_T = mid, their edges fit the
   mid line by pffits3_edges (-> edge3_complete of OctTreeSepA.v, online from inface).
   NOT PROVED: walk3_complete and the full adaptive_sign_changes_give_triangles / adaptive_mesh_separates. *)
