(* C11: Mesh::render's phase skeleton, per algorithm, as the source states it (Gen/RenderSkeleton_gen.v, regenerated from
   mesh.cpp on every run by translate/gen_render.py: every `cancel` test and every `return` of the function is one of the
   recognised events) interpreted on a run of Render/Cancel.v: the repaired function returns nothing or a complete mesh. *)
From Coq Require Import List String Bool.
From LF Require Import Render.Cancel Render.CancelSem Gen.RenderSkeleton_gen.
Import ListNotations.

(* state while the function body runs: has it returned, and with what; outcomes of the phases executed so far
   (a phase the algorithm does not have counts as complete) *)
Record rst := { ret : option result; built : bool; s_assign : outcome; s_walk : outcome }.
Definition rst0 : rst := {| ret := None; built := false; s_assign := Complete; s_walk := Complete |}.

Definition rstep (r : run) (s : rst) (e : rev) : rst :=
  match ret s with
  | Some _ => s
  | None =>
      match e with
      | EvBuild => {| ret := None; built := true; s_assign := s_assign s; s_walk := s_walk s |}
      | EvCheckAfterBuild =>
          (* `settings.cancel.load() || t.get() == nullptr`: build() hands back an empty Root when it was cancelled *)
          if r_flag_after_build r || match r_build r with Partial => true | Complete => false end
          then {| ret := Some NoMesh; built := built s; s_assign := s_assign s; s_walk := s_walk s |} else s
      | EvAssign => {| ret := None; built := built s; s_assign := r_assign r; s_walk := s_walk s |}
      | EvWalk => {| ret := None; built := built s; s_assign := s_assign s; s_walk := r_walk r |}
      | EvFinalCheck =>
          if r_flag_final r then {| ret := Some NoMesh; built := built s; s_assign := s_assign s; s_walk := s_walk s |} else s
      | EvReturn => {| ret := Some (MeshOf (s_assign s) (s_walk s)); built := built s; s_assign := s_assign s; s_walk := s_walk s |}
      end
  end.
Definition interp (evs : list rev) (r : run) : option result := ret (fold_left (rstep r) evs rst0).

(* a run of an algorithm WITHOUT an index-assignment phase has nothing partial to report for it *)
Definition no_assign (r : run) : run :=
  {| r_build := r_build r; r_assign := Complete; r_walk := r_walk r;
     r_flag_after_build := r_flag_after_build r; r_flag_final := r_flag_final r |}.

Definition has_assign (evs : list rev) : bool := existsb (fun e => match e with EvAssign => true | _ => false end) evs.

(* the skeleton of every algorithm IS the model's repaired render *)
Lemma skeleton_is_render_new :
  forall alg evs, In (alg, evs) render_skeleton_gen ->
  forall r, interp evs r = Some (render_new (if has_assign evs then r else no_assign r)).
Proof.
  intros alg evs Hin r. cbn in Hin.
  repeat (destruct Hin as [E|Hin]; [inversion E; subst; clear E|]); try contradiction;
    unfold interp, render_new, no_assign; cbn;
    destruct r as [b a w f1 f2]; cbn;
    destruct f1, b, f2; cbn; reflexivity.
Qed.

(* hence: nothing or a complete mesh, for every algorithm and every run the code can produce *)
Theorem skeleton_all_or_nothing :
  forall alg evs, In (alg, evs) render_skeleton_gen ->
  forall r, run_ok r -> exists x, interp evs r = Some x /\ all_or_nothing x.
Proof.
  intros alg evs Hin r Hok. rewrite (skeleton_is_render_new alg evs Hin r).
  eexists. split; [reflexivity|].
  destruct (has_assign evs).
  - apply render_new_all_or_nothing. exact Hok.
  - apply render_new_all_or_nothing. destruct Hok as (H1 & H2 & H3 & H4). unfold run_ok, no_assign; cbn.
    repeat split; auto. discriminate.
Qed.

(* the final check is needed: the same skeleton without it (the code before the repair) returns a partial mesh *)
Theorem skeleton_without_final_check_refuted :
  exists r, run_ok r /\
    interp [EvBuild; EvCheckAfterBuild; EvWalk; EvReturn] r = Some (MeshOf Complete Partial).
Proof.
  exists {| r_build := Complete; r_assign := Complete; r_walk := Partial; r_flag_after_build := false; r_flag_final := true |}.
  split; [unfold run_ok; cbn; repeat split; auto; discriminate | reflexivity].
Qed.

Definition skeleton_shape : Prop :=
  map fst render_skeleton_gen = ["DUAL_CONTOURING"; "ISO_SIMPLEX"; "HYBRID"]%string /\
  forall alg evs, In (alg, evs) render_skeleton_gen ->
    In EvBuild evs /\ In EvCheckAfterBuild evs /\ In EvWalk evs /\ In EvFinalCheck evs /\ last evs EvBuild = EvReturn.
Lemma skeleton_shape_ok : skeleton_shape.
Proof.
  split; [reflexivity|]. intros alg evs Hin. cbn in Hin.
  repeat (destruct Hin as [E|Hin]; [inversion E; subst; clear E|]); try contradiction; cbn; repeat split; auto 10.
Qed.
