(* C20: tick accounting of a progress-tracked render, and the handler's finish protocol.

   worker_pool.inl   phase "build": announces T(L) = number of cells of the full 2^N-ary tree of
                     depth L; every cell is credited exactly once: a leaf-level cell 1, a cell
                     that is unambiguous above the leaf level the whole sub-tree it prunes, an
                     ambiguous cell 1 when collectChildren sees its last child arrive
   dual.hpp          phase "walk": announces (live cells of the final tree); a non-branch
                     non-singleton cell ticks 1, a branch ticks 1 when its pending counter,
                     initialised by resetPending to 2^N - 1 - #singleton children, is found at 0
   object_pool.inl   phase "reset": announces the number of blocks of all nested pools; worker i
                     frees blocks i, i + w, i + 2w, ... and ticks once per block
   progress.cpp      the reported value, and finish() *)
From Coq Require Import List Arith Lia Bool QArith.
Import ListNotations.
Local Open Scope nat_scope.

(* ---------------- build phase ---------------- *)
Fixpoint total_ticks (N L : nat) : nat :=
  match L with 0 => 1 | S l => 1 + 2 ^ N * total_ticks N l end.

(* the loop "for (i < level) ticks = (ticks + 1) * (1 << N)" of build() and run() *)
Fixpoint loop_ticks (N L : nat) : nat :=
  match L with 0 => 0 | S l => (loop_ticks N l + 1) * 2 ^ N end.
Definition announced (N L : nat) : nat := loop_ticks N L + 1.

(* what happened to a cell during the build *)
Inductive cell : Type :=
| CLeaf                        (* level 0: evalLeaf, tick(1) *)
| CTerm                        (* level > 0, empty / filled (by interval or vol tree): tick(sub-tree) *)
| CAmb (kids : list cell).     (* level > 0, ambiguous: 2^N children; tick() in collectChildren *)

Fixpoint sum (l : list nat) : nat := match l with [] => 0 | x :: r => x + sum r end.

Fixpoint build_ticks (N L : nat) (c : cell) : nat :=
  match c with
  | CLeaf => 1
  | CTerm => announced N L
  | CAmb kids => 1 + sum (map (build_ticks N (pred L)) kids)
  end.

Fixpoint wf_cell (N L : nat) (c : cell) : Prop :=
  match c with
  | CLeaf => L = 0
  | CTerm => 0 < L
  | CAmb kids => 0 < L /\ length kids = 2 ^ N /\
                 (fix all (l : list cell) : Prop :=
                    match l with [] => True | k :: r => wf_cell N (pred L) k /\ all r end) kids
  end.

(* the pending counter of an ambiguous cell: [arrive p] is one atomic decrement; it reports
   "last" when it finds the counter at [last_at] *)
Definition arrive (p : nat) : nat * bool := (pred p, Nat.eqb p 0).
(* k arrivals starting from counter value p: the flags they observe, in arrival order *)
Fixpoint arrivals (k p : nat) : list bool :=
  match k with 0 => [] | S k' => snd (arrive p) :: arrivals k' (fst (arrive p)) end.

(* ---------------- walk phase ---------------- *)
Inductive fcell : Type :=
| FLeaf                        (* non-branch cell of the final tree *)
| FSing                        (* shared singleton (DC empty / filled): never ticked *)
| FBranch (kids : list fcell).

Fixpoint live (c : fcell) : nat :=
  match c with
  | FLeaf => 1 | FSing => 0
  | FBranch kids => 1 + sum (map live kids)
  end.
Definition is_sing (c : fcell) : bool := match c with FSing => true | _ => false end.
Definition count_sing (kids : list fcell) : nat := length (filter is_sing kids).
(* resetPending *)
Definition pending_init (N : nat) (kids : list fcell) : nat := 2 ^ N - 1 - count_sing kids.
(* ticks of Dual::run over the whole tree: a branch is ticked by the arrival that finds pending = 0 *)
Fixpoint walk_ticks (N : nat) (c : fcell) : nat :=
  match c with
  | FLeaf => 1 | FSing => 0
  | FBranch kids =>
      sum (map (walk_ticks N) kids)
      + length (filter (fun b => b) (arrivals (length kids - count_sing kids) (pending_init N kids)))
  end.
Fixpoint wf_fcell (N : nat) (c : fcell) : Prop :=
  match c with
  | FLeaf | FSing => True
  | FBranch kids => length kids = 2 ^ N /\ count_sing kids < 2 ^ N /\
                    (fix all (l : list fcell) : Prop :=
                       match l with [] => True | k :: r => wf_fcell N k /\ all r end) kids
  end.

(* ---------------- reset phase ---------------- *)
(* block indices freed by worker i of w: i, i + w, ... below n (the two loops of reset) *)
Fixpoint stride_from (fuel i w n : nat) : list nat :=
  match fuel with
  | 0 => []
  | S f => if i <? n then i :: stride_from f (i + w) w n else []
  end.
Definition worker_blocks (i w n : nat) : list nat := stride_from (S n) i w n.
(* ObjectPool::reset on one pool with [na] allocated and [nf] fresh blocks, asked for [w] workers *)
Definition clamp_workers (w na nf : nat) : nat := if Nat.max na nf <? w then Nat.max na nf else w.
Definition pool_ticks (w na nf : nat) : nat :=
  let w' := clamp_workers w na nf in
  sum (map (fun i => length (worker_blocks i w' na) + length (worker_blocks i w' nf)) (seq 0 w')).
(* nested pools: (na, nf) per level; the REPAIRED code passes the requested count down *)
Fixpoint reset_ticks (w : nat) (pools : list (nat * nat)) : nat :=
  match pools with [] => 0 | (na, nf) :: r => pool_ticks w na nf + reset_ticks w r end.
(* the code before the repair passed the clamped count down *)
Fixpoint reset_ticks_old (w : nat) (pools : list (nat * nat)) : nat :=
  match pools with
  | [] => 0
  | (na, nf) :: r => pool_ticks w na nf + reset_ticks_old (clamp_workers w na nf) r
  end.
Definition num_blocks (pools : list (nat * nat)) : nat := sum (map (fun p => fst p + snd p) pools).

(* ---------------- reported value ---------------- *)
Record phase := { ph_weight : nat; ph_total : nat; ph_counter : nat }.
(* run(): sum over the phases up to and including the current one, skipping total = 0 *)
Definition phase_term (p : phase) : Q :=
  if Nat.eqb (ph_total p) 0 then 0%Q
  else (inject_Z (Z.of_nat (ph_weight p)) * inject_Z (Z.of_nat (ph_counter p)) / inject_Z (Z.of_nat (ph_total p)))%Q.
Fixpoint qsum (l : list Q) : Q := match l with [] => 0%Q | x :: r => (x + qsum r)%Q end.
Definition total_weight (ps : list phase) : nat := sum (map ph_weight ps).
Definition reported (ps : list phase) (cur : nat) : Q :=
  if Nat.eqb (total_weight ps) 0 then 0%Q
  else (qsum (map phase_term (firstn (S cur) ps)) / inject_Z (Z.of_nat (total_weight ps)))%Q.

(* ---------------- finish protocol ---------------- *)
Record hstate := { h_future_valid : bool;    (* std::future::valid() *)
                   h_mutex_locked : bool;    (* timed_mut, locked by the constructor *)
                   h_done : bool;
                   h_thread_running : bool;
                   h_ub : bool }.            (* an unlock of an unlocked mutex happened *)
Definition h_init : hstate :=
  {| h_future_valid := false; h_mutex_locked := true; h_done := false; h_thread_running := false; h_ub := false |}.
(* nextPhase on the first call launches the reporting thread *)
Definition h_launch (s : hstate) : hstate :=
  if h_future_valid s then s
  else {| h_future_valid := true; h_mutex_locked := h_mutex_locked s; h_done := h_done s;
          h_thread_running := true; h_ub := h_ub s |}.
(* finish(): [get_invalidates] = true is the repaired code (future.get()), false the old one (wait()) *)
Definition h_finish (get_invalidates : bool) (s : hstate) : hstate :=
  if h_future_valid s then
    {| h_future_valid := negb get_invalidates;
       h_mutex_locked := false;
       h_done := true;
       h_thread_running := false;                  (* the thread sees done and returns; wait()/get() joins it *)
       h_ub := h_ub s || negb (h_mutex_locked s) |}
  else s.
