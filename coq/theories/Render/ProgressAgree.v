(* ProgressHandler::finish as the source states it (Gen/ProgressFinish_gen.v, regenerated from progress.cpp on every run by
   translate/gen_progress.py) IS the repaired [h_finish true] of the model (Render/Progress.v) that the C20 finish-protocol
   theorems are about; with `future.wait()` in place of `future.get()` - the code before the repair 1e07ca0 - it is the old
   [h_finish false], whose second call unlocks an unlocked mutex. *)
From Coq Require Import Bool.
From LF Require Import Render.Progress Gen.ProgressFinish_gen.

Lemma finish_gen_eq : forall s, finish_gen s = h_finish true s.
Proof.
  intros s. unfold finish_gen, h_finish, future_get, unlock_timed, set_done. cbn.
  destruct (h_future_valid s); reflexivity.
Qed.

Lemma finish_with_wait_is_old : forall s,
  (fun s => if h_future_valid s then future_wait (unlock_timed (set_done s)) else s) s = h_finish false s.
Proof.
  intros s. unfold h_finish, future_wait, unlock_timed, set_done. cbn.
  destruct (h_future_valid s) eqn:E; cbn; rewrite ?E; reflexivity.
Qed.
