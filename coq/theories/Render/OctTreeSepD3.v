(* C04 (adaptive octrees): completeness of the face recursion face3 (continuation of OctTreeSepC.v). *)
From Coq Require Import List ZArith Bool Lia Arith.
From LF Require Import Gen.MarchTables_gen Gen.ManifoldTables_gen Render.DCGrid Render.DCGridSem
                       Render.OctTree Render.OctTreeGeom Render.OctTreeCollect Render.OctTreeNet Render.OctTreeFace Render.OctTreeSem
                       Render.OctTreeSepDefs Render.OctTreeSepA Render.OctTreeSepB Render.OctTreeSepC Render.OctTreeSepD.
Import ListNotations.
Local Open Scope Z_scope.

Section FaceC.
Variable ins : pt3 -> bool.
Variable diag : overtex -> overtex -> overtex -> overtex -> bool.

Notation L3 A a b c d := (load3 diag A (c_cell a) (c_cell b) (c_cell c) (c_cell d)).

Ltac edges N axN F :=
  let E1 := fresh "E" in let E2 := fresh "E" in let E3 := fresh "E" in let E4 := fresh "E" in
  pose proof (pffits3_edges ins N _ _ _ _ axN F) as [E1 [E2 [E3 E4]]];
  cbv zeta in E1, E2, E3, E4; cbn [Qax Rax Z.eqb Pos.eqb] in E1, E2, E3, E4;
  zsums_in E1; zsums_in E2; zsums_in E3; zsums_in E4.

Ltac nav tac :=
  lazymatch goal with
  | |- incl _ (_ ++ _) => first [apply incl_appl; nav tac | apply incl_appr; nav tac]
  | _ => tac
  end.

Ltac hgt := first [ apply pchild3_height; assumption | apply Nat.lt_lt_succ_r; apply pchild3_height; assumption ].

Ltac inch C0 C1 F0 F1 Ia Ib Ic Id Ca Cb Cc Cd :=
  match goal with
  | |- In ?x (pleaves3 (pchild3 ?X ?i)) =>
    first [ apply (leaf_in_child' ins X i x _ _ C0 ltac:(in8) Ia Ca) | apply (leaf_in_child' ins X i x _ _ C0 ltac:(in8) Ib Cb)
          | apply (leaf_in_child' ins X i x _ _ C0 ltac:(in8) Ic Cc) | apply (leaf_in_child' ins X i x _ _ C0 ltac:(in8) Id Cd)
          | apply (leaf_in_child' ins X i x _ _ C1 ltac:(in8) Ia Ca) | apply (leaf_in_child' ins X i x _ _ C1 ltac:(in8) Ib Cb)
          | apply (leaf_in_child' ins X i x _ _ C1 ltac:(in8) Ic Cc) | apply (leaf_in_child' ins X i x _ _ C1 ltac:(in8) Id Cd) ];
    let B' := fresh "B'" in let Es := fresh "Es" in let Ech := fresh "Ech" in
    let Eo := fresh "Eo" in let Ekk := fresh "Ekk" in let Ek := fresh "Ek" in
    intros B';
    first [ destruct (host_facts ins _ _ _ _ _ F0 B') as [_ [Ek [Es Ech]]]
          | destruct (host_facts ins _ _ _ _ _ F1 B') as [_ [Ek [Es Ech]]] ];
    unfold cube_in; destruct (Ech i) as [Eo Ekk]; rewrite Eo, Ekk; clear Ech Eo Ekk; rewrite ?Ek in *;
    destruct (c_o X) as [[? ?] ?]; cbv beta iota in Es; corner_pts_in Es; corner_pts;
    injection Es as ? ? ?; unfold cube_in, box_in in *; lia
  end.

Ltac hexs HexAll :=
  let E := fresh "E" in
  destruct HexAll as [E|E];
  first [left; apply E | right; left; apply E | right; right; left; apply E | right; right; right; apply E].
Lemma face3_complete_41 : face3_stmt ins diag 4 1.
Proof.
  unfold face3_stmt. cbn [Qax Rax Z.eqb Pos.eqb].
  pose proof (edge3_complete ins diag 1 ax1) as EC. cbn [Qax Rax Z.eqb Pos.eqb] in EC. zsums_in EC.
  induction f as [|f IH]; intros c0 c1 sf k0 a b c d s k F0 F1 H0 H1 Ia Id Ib Ic ME IF; [lia|].
  cbn [face3]. change (fst (c_cell c0)) with (c_t c0). change (fst (c_cell c1)) with (c_t c1).
  destruct (o_is_branch (c_t c0) || o_is_branch (c_t c1)) eqn:BB.
  2:{ exfalso. apply orb_false_iff in BB. destruct BB as [B0 B1].
      exact (face3_base 1 c0 c1 a b c d s k true ax1 B0 B1 Ia Id Ib Ic ME). }
  assert (BB' : o_is_branch (c_t c0) = true \/ o_is_branch (c_t c1) = true) by (apply orb_true_iff; exact BB).
  assert (Hk : k0 <> O /\ (1 <= f)%nat).
  { destruct BB' as [B|B].
    - destruct F0 as [C [_ [E _]]]. specialize (E B). split;
        [rewrite <- E; exact (obranch_level ins _ _ _ C B)|apply obranch_height in B; lia].
    - destruct F1 as [C [_ [E _]]]. specialize (E B). split;
        [rewrite <- E; exact (obranch_level ins _ _ _ C B)|apply obranch_height in B; lia]. }
  destruct Hk as [Hk Hf]. destruct k0 as [|k0']; [congruence|].
  destruct (pffits3_consistent ins _ _ _ _ _ F0) as [C0 _]. destruct (pffits3_consistent ins _ _ _ _ _ F1) as [C1 _].
  pose proof (pffits3_split ins 4 false c0 sf k0' ax4 F0) as [F00 [F0q [F0r F0qr]]].
  pose proof (pffits3_split ins 4 true c1 sf k0' ax4 F1) as [F10 [F1q [F1r F1qr]]].
  cbv zeta in F00, F0q, F0r, F0qr, F10, F1q, F1r, F1qr.
  cbn [Qax Rax Z.eqb Pos.eqb] in F00, F0q, F0r, F0qr, F10, F1q, F1r, F1qr.
  zsums_in F00; zsums_in F0q; zsums_in F0r; zsums_in F0qr; zsums_in F10; zsums_in F1q; zsums_in F1r; zsums_in F1qr.
  edges 4 ax4 F00; edges 4 ax4 F0q; edges 4 ax4 F0r; edges 4 ax4 F0qr.
  edges 4 ax4 F10; edges 4 ax4 F1q; edges 4 ax4 F1r; edges 4 ax4 F1qr.
  assert (HexAll : (forall i, c_k (pchild3 c0 i) = k0') \/ (forall i, c_k (pchild3 c1 i) = k0')).
  { destruct BB' as [B|B]; [left|right]; intros i;
      [exact (proj2 (proj2 (proj2 (proj2 (host_facts ins _ _ _ _ _ F0 B))) i))
      |exact (proj2 (proj2 (proj2 (proj2 (host_facts ins _ _ _ _ _ F1 B))) i))]. }
  pose proof ME as [Aa [Ab [Ac [Ad Hm]]]].
  pose proof Aa as [_ Ca]. pose proof Ab as [_ Cb]. pose proof Ac as [_ Cc]. pose proof Ad as [_ Cd].
  destruct sf as [[fx fy] fz], s as [[sx sy] sz].
  unfold qcube, hasq, hasr in Ca, Cb, Cc, Cd. cbn [Qax Rax Z.eqb Pos.eqb] in Ca, Cb, Cc, Cd.
  zsums_in Ca; zsums_in Cb; zsums_in Cc; zsums_in Cd. cbn [Z.eqb Pos.eqb orb] in Ca, Cb, Cc, Cd.
  osteps_in Ca; osteps_in Cb; osteps_in Cc; osteps_in Cd.
  unfold inface, third, oco in IF. cbn [Qax Rax Z.eqb Pos.eqb] in IF.
  pose proof (osize_pos k) as Hp. pose proof (osize_pos k0') as Hp'. pose proof (osize_S k0') as HS.
  assert (Pos : (oco 1 (sx, sy, sz) + osize k <= oco 1 (fx, fy, fz) + osize k0' \/
                 oco 1 (fx, fy, fz) + osize k0' <= oco 1 (sx, sy, sz)) /\
                (oco 2 (sx, sy, sz) + osize k <= oco 2 (fx, fy, fz) + osize k0' \/
                 oco 2 (sx, sy, sz) = oco 2 (fx, fy, fz) + osize k0' \/
                 oco 2 (fx, fy, fz) + osize k0' + osize k <= oco 2 (sx, sy, sz))).
  { unfold oco. cbn [Z.eqb Pos.eqb].
    destruct BB' as [B|B].
    - destruct (host_facts ins _ _ _ _ _ F0 B) as [_ [Ek [Es _]]].
      pose proof (cube_halves ins c0 k0' a _ _ B C0 Ek Ia Ca) as G1.
      first [ pose proof (cube_halves ins c0 k0' b _ _ B C0 Ek Ib Cb) as G2
            | pose proof (cube_halves ins c0 k0' c _ _ B C0 Ek Ic Cc) as G2 ].
      destruct (c_o c0) as [[x0 y0] z0]. cbv beta iota in G1, G2, Es. corner_pts_in Es. injection Es as Ex Ey Ez. lia.
    - destruct (host_facts ins _ _ _ _ _ F1 B) as [_ [Ek [Es _]]].
      pose proof (cube_halves ins c1 k0' d _ _ B C1 Ek Id Cd) as G1.
      first [ pose proof (cube_halves ins c1 k0' b _ _ B C1 Ek Ib Cb) as G2
            | pose proof (cube_halves ins c1 k0' c _ _ B C1 Ek Ic Cc) as G2 ].
      destruct (c_o c1) as [[x1 y1] z1]. cbv beta iota in G1, G2, Es. corner_pts_in Es. injection Es as Ex Ey Ez. lia. }
  unfold oco in Pos. cbn [Z.eqb Pos.eqb] in Pos.
  pose proof (cube_in_host ins c0 a _ _ C0 Ia Ca) as Oa. pose proof (cube_in_host ins c1 d _ _ C1 Id Cd) as Od.
  first [ pose proof (cube_in_host ins c0 b _ _ C0 Ib Cb) as Ob | pose proof (cube_in_host ins c1 b _ _ C1 Ib Cb) as Ob ].
  first [ pose proof (cube_in_host ins c0 c _ _ C0 Ic Cc) as Oc | pose proof (cube_in_host ins c1 c _ _ C1 Ic Cc) as Oc ].
  cbv zeta. cbn [Qax Rax Z.eqb Pos.eqb flat_map]. zsums. rewrite ?app_nil_r. rewrite <- !c_cell_pchild3.
  destruct Pos as [[Lo|Up] [Tl|[Tm|Th]]];
    nav ltac:(first
      [ eapply (IH _ _ _ k0' a b c d (sx, sy, sz) k);
        [ eassumption | eassumption | hgt | hgt
        | inch C0 C1 F0 F1 Ia Ib Ic Id Ca Cb Cc Cd | inch C0 C1 F0 F1 Ia Ib Ic Id Ca Cb Cc Cd
        | inch C0 C1 F0 F1 Ia Ib Ic Id Ca Cb Cc Cd | inch C0 C1 F0 F1 Ia Ib Ic Id Ca Cb Cc Cd
        | exact ME
        | unfold inface, third, oco; osteps; cbn [Qax Rax Z.eqb Pos.eqb]; lia ]
      | eapply (EC (S f) _ _ _ _ _ k0' a b c d (sx, sy, sz) k);
        [ eassumption | eassumption | eassumption | eassumption
        | hexs HexAll | hgt | hgt | hgt | hgt
        | inch C0 C1 F0 F1 Ia Ib Ic Id Ca Cb Cc Cd | inch C0 C1 F0 F1 Ia Ib Ic Id Ca Cb Cc Cd
        | inch C0 C1 F0 F1 Ia Ib Ic Id Ca Cb Cc Cd | inch C0 C1 F0 F1 Ia Ib Ic Id Ca Cb Cc Cd
        | exact ME
        | unfold online, oco; osteps; cbn [Qax Rax Z.eqb Pos.eqb]; lia ] ]).
Qed.

Lemma face3_complete_42 : face3_stmt ins diag 4 2.
Proof.
  unfold face3_stmt. cbn [Qax Rax Z.eqb Pos.eqb].
  pose proof (edge3_complete ins diag 2 ax2) as EC. cbn [Qax Rax Z.eqb Pos.eqb] in EC. zsums_in EC.
  induction f as [|f IH]; intros c0 c1 sf k0 a b c d s k F0 F1 H0 H1 Ia Id Ib Ic ME IF; [lia|].
  cbn [face3]. change (fst (c_cell c0)) with (c_t c0). change (fst (c_cell c1)) with (c_t c1).
  destruct (o_is_branch (c_t c0) || o_is_branch (c_t c1)) eqn:BB.
  2:{ exfalso. apply orb_false_iff in BB. destruct BB as [B0 B1].
      exact (face3_base 2 c0 c1 a b c d s k false ax2 B0 B1 Ia Id Ib Ic ME). }
  assert (BB' : o_is_branch (c_t c0) = true \/ o_is_branch (c_t c1) = true) by (apply orb_true_iff; exact BB).
  assert (Hk : k0 <> O /\ (1 <= f)%nat).
  { destruct BB' as [B|B].
    - destruct F0 as [C [_ [E _]]]. specialize (E B). split;
        [rewrite <- E; exact (obranch_level ins _ _ _ C B)|apply obranch_height in B; lia].
    - destruct F1 as [C [_ [E _]]]. specialize (E B). split;
        [rewrite <- E; exact (obranch_level ins _ _ _ C B)|apply obranch_height in B; lia]. }
  destruct Hk as [Hk Hf]. destruct k0 as [|k0']; [congruence|].
  destruct (pffits3_consistent ins _ _ _ _ _ F0) as [C0 _]. destruct (pffits3_consistent ins _ _ _ _ _ F1) as [C1 _].
  pose proof (pffits3_split ins 4 false c0 sf k0' ax4 F0) as [F00 [F0q [F0r F0qr]]].
  pose proof (pffits3_split ins 4 true c1 sf k0' ax4 F1) as [F10 [F1q [F1r F1qr]]].
  cbv zeta in F00, F0q, F0r, F0qr, F10, F1q, F1r, F1qr.
  cbn [Qax Rax Z.eqb Pos.eqb] in F00, F0q, F0r, F0qr, F10, F1q, F1r, F1qr.
  zsums_in F00; zsums_in F0q; zsums_in F0r; zsums_in F0qr; zsums_in F10; zsums_in F1q; zsums_in F1r; zsums_in F1qr.
  edges 4 ax4 F00; edges 4 ax4 F0q; edges 4 ax4 F0r; edges 4 ax4 F0qr.
  edges 4 ax4 F10; edges 4 ax4 F1q; edges 4 ax4 F1r; edges 4 ax4 F1qr.
  assert (HexAll : (forall i, c_k (pchild3 c0 i) = k0') \/ (forall i, c_k (pchild3 c1 i) = k0')).
  { destruct BB' as [B|B]; [left|right]; intros i;
      [exact (proj2 (proj2 (proj2 (proj2 (host_facts ins _ _ _ _ _ F0 B))) i))
      |exact (proj2 (proj2 (proj2 (proj2 (host_facts ins _ _ _ _ _ F1 B))) i))]. }
  pose proof ME as [Aa [Ab [Ac [Ad Hm]]]].
  pose proof Aa as [_ Ca]. pose proof Ab as [_ Cb]. pose proof Ac as [_ Cc]. pose proof Ad as [_ Cd].
  destruct sf as [[fx fy] fz], s as [[sx sy] sz].
  unfold qcube, hasq, hasr in Ca, Cb, Cc, Cd. cbn [Qax Rax Z.eqb Pos.eqb] in Ca, Cb, Cc, Cd.
  zsums_in Ca; zsums_in Cb; zsums_in Cc; zsums_in Cd. cbn [Z.eqb Pos.eqb orb] in Ca, Cb, Cc, Cd.
  osteps_in Ca; osteps_in Cb; osteps_in Cc; osteps_in Cd.
  unfold inface, third, oco in IF. cbn [Qax Rax Z.eqb Pos.eqb] in IF.
  pose proof (osize_pos k) as Hp. pose proof (osize_pos k0') as Hp'. pose proof (osize_S k0') as HS.
  assert (Pos : (oco 2 (sx, sy, sz) + osize k <= oco 2 (fx, fy, fz) + osize k0' \/
                 oco 2 (fx, fy, fz) + osize k0' <= oco 2 (sx, sy, sz)) /\
                (oco 1 (sx, sy, sz) + osize k <= oco 1 (fx, fy, fz) + osize k0' \/
                 oco 1 (sx, sy, sz) = oco 1 (fx, fy, fz) + osize k0' \/
                 oco 1 (fx, fy, fz) + osize k0' + osize k <= oco 1 (sx, sy, sz))).
  { unfold oco. cbn [Z.eqb Pos.eqb].
    destruct BB' as [B|B].
    - destruct (host_facts ins _ _ _ _ _ F0 B) as [_ [Ek [Es _]]].
      pose proof (cube_halves ins c0 k0' a _ _ B C0 Ek Ia Ca) as G1.
      first [ pose proof (cube_halves ins c0 k0' b _ _ B C0 Ek Ib Cb) as G2
            | pose proof (cube_halves ins c0 k0' c _ _ B C0 Ek Ic Cc) as G2 ].
      destruct (c_o c0) as [[x0 y0] z0]. cbv beta iota in G1, G2, Es. corner_pts_in Es. injection Es as Ex Ey Ez. lia.
    - destruct (host_facts ins _ _ _ _ _ F1 B) as [_ [Ek [Es _]]].
      pose proof (cube_halves ins c1 k0' d _ _ B C1 Ek Id Cd) as G1.
      first [ pose proof (cube_halves ins c1 k0' b _ _ B C1 Ek Ib Cb) as G2
            | pose proof (cube_halves ins c1 k0' c _ _ B C1 Ek Ic Cc) as G2 ].
      destruct (c_o c1) as [[x1 y1] z1]. cbv beta iota in G1, G2, Es. corner_pts_in Es. injection Es as Ex Ey Ez. lia. }
  unfold oco in Pos. cbn [Z.eqb Pos.eqb] in Pos.
  pose proof (cube_in_host ins c0 a _ _ C0 Ia Ca) as Oa. pose proof (cube_in_host ins c1 d _ _ C1 Id Cd) as Od.
  first [ pose proof (cube_in_host ins c0 b _ _ C0 Ib Cb) as Ob | pose proof (cube_in_host ins c1 b _ _ C1 Ib Cb) as Ob ].
  first [ pose proof (cube_in_host ins c0 c _ _ C0 Ic Cc) as Oc | pose proof (cube_in_host ins c1 c _ _ C1 Ic Cc) as Oc ].
  cbv zeta. cbn [Qax Rax Z.eqb Pos.eqb flat_map]. zsums. rewrite ?app_nil_r. rewrite <- !c_cell_pchild3.
  destruct Pos as [[Lo|Up] [Tl|[Tm|Th]]];
    nav ltac:(first
      [ eapply (IH _ _ _ k0' a b c d (sx, sy, sz) k);
        [ eassumption | eassumption | hgt | hgt
        | inch C0 C1 F0 F1 Ia Ib Ic Id Ca Cb Cc Cd | inch C0 C1 F0 F1 Ia Ib Ic Id Ca Cb Cc Cd
        | inch C0 C1 F0 F1 Ia Ib Ic Id Ca Cb Cc Cd | inch C0 C1 F0 F1 Ia Ib Ic Id Ca Cb Cc Cd
        | exact ME
        | unfold inface, third, oco; osteps; cbn [Qax Rax Z.eqb Pos.eqb]; lia ]
      | eapply (EC (S f) _ _ _ _ _ k0' a b c d (sx, sy, sz) k);
        [ eassumption | eassumption | eassumption | eassumption
        | hexs HexAll | hgt | hgt | hgt | hgt
        | inch C0 C1 F0 F1 Ia Ib Ic Id Ca Cb Cc Cd | inch C0 C1 F0 F1 Ia Ib Ic Id Ca Cb Cc Cd
        | inch C0 C1 F0 F1 Ia Ib Ic Id Ca Cb Cc Cd | inch C0 C1 F0 F1 Ia Ib Ic Id Ca Cb Cc Cd
        | exact ME
        | unfold online, oco; osteps; cbn [Qax Rax Z.eqb Pos.eqb]; lia ] ]).
Qed.

End FaceC.
