(* The topology-safety tests of the collapse as the C++ source states them (Gen/LeafsManifold_gen.v, regenerated from
   DCTree<2>::leafsAreManifold / DCTree<3>::leafsAreManifold on every run) ARE the tests of the hand-written collapse models
   Render/QuadTree.v / Render/OctTree.v: which child's which corner is compared with which corners of the parent. *)
From Coq Require Import ZArith Bool.
From LF Require Import Render.QuadTree Render.OctTree Gen.LeafsManifold_gen.
Local Open Scope Z_scope.

Lemma leafs_manifold2_gen_eq (cs : Z -> qtree) (k : Z -> bool) :
  leafs_manifold2_gen cs k = leafs_manifold (cs 0) (cs 1) (cs 2) (cs 3) (k 0) (k 1) (k 2) (k 3).
Proof. reflexivity. Qed.

Lemma leafs_manifold3_gen_eq (cs : Z -> otree) (k : Z -> bool) :
  leafs_manifold3_gen cs k = oleafs_manifold cs k.
Proof. reflexivity. Qed.

(* the 2D corner table of dc_tree2.cpp is the closed form the quadtree model uses *)
From Coq Require Import List.
From LF Require Import Gen.ManifoldTables_gen.
Lemma corners_manifold2_table m : 0 <= m < 16 -> corners_manifold m = nth (Z.to_nat m) gen_corner2 false.
Proof.
  intros H.
  assert (E : forallb (fun i => Bool.eqb (corners_manifold (Z.of_nat i)) (nth i gen_corner2 false)) (seq 0 16) = true)
    by (vm_compute; reflexivity).
  rewrite forallb_forall in E.
  specialize (E (Z.to_nat m)). rewrite Z2Nat.id in E by (destruct H; assumption).
  apply eqb_prop. apply E. apply in_seq. split; [apply Nat.le_0_l|].
  change (0 + 16)%nat with (Z.to_nat 16). apply Z2Nat.inj_lt; destruct H; auto with zarith.
Qed.
