(* C03 (simplex / hybrid meshers): marching tetrahedra with the table read from
   simplex_mesher.cpp (Gen/TetTable_gen.v, gen_tet_table) is watertight and consistently
   oriented over every closed, consistently oriented tetrahedral complex.

   Everything below is about [march] / [mesh] of Render/MarchTet.v, which look triangles up
   in [gen_tet_table]; the per-tet facts are proved by evaluating that very table for the
   16 inside-masks, so a changed table breaks the proofs.

   THEOREMS (one-line readings)

   table_sanity          the table has 16 rows; row m has 0/1/2 triangles for 0,4 / 1,3 / 2
                         inside vertices; every triangle has three corners, each on a tet
                         edge joining an inside to an outside vertex of mask m.
   fseg_rot, fseg_flip   the canonical surface segment [fseg] of an oriented face does not
                         depend on the rotation of the face, and the oppositely oriented face
                         carries the reversed segment.
   fseg_nonmixed         a face that is not mixed carries no segment.
   march_decomp          LOCAL BOUNDARY LEMMA (no hypothesis on the tet): as multisets, the
                         directed edges of the triangles of one tet are exactly the segments
                         of its four oriented faces plus, in the 2-2 case, the interior
                         diagonal once in each direction ([diag]).
   march_local_net       hence the net count (e minus reverse e) of a tet equals the net count
                         of its four face segments.
   mesh_count_decomp     GLOBAL REGROUPING (no hypothesis): a directed edge is used by the mesh
                         as often as it is a segment of a face of the complex plus as often as
                         it is an interior diagonal of a tet.
   face_pairing_cancel   a rotation-invariant, flip-antisymmetric weight on faces sums to zero
                         over a list in which every face of non-zero weight has exactly one
                         oppositely oriented partner.
   march_closed_weak     watertight + consistently oriented already when every mixed face has
                         exactly one oppositely oriented partner (distinctness of the tet
                         vertices and the count_same half of complex_closed are not needed).
   march_closed          MAIN THEOREM: complex_closed ins ts -> closed_mesh (mesh ins ts).
   two_tet_gluing        two tets meeting in a face with opposite orientations: the surface
                         segments on that face cancel (net count zero).
   march_manifold        complex_closed ins ts -> simplicial ts -> manifold_mesh (mesh ins ts):
                         every directed mesh edge is used at most once, provided no two tets
                         of the list have the same vertex set ([simplicial]).
   double_tet_closed / double_tet_not_manifold
                         the hypothesis [simplicial] cannot be dropped: two tets glued along
                         all four faces form a complex_closed complex whose mesh is closed
                         but uses a diagonal edge twice.
   simplex4_closed, simplex4_simplicial, simplex4_mesh_nonempty,
   simplex4_mesh_closed, simplex4_mesh_manifold
                         NON-VACUITY: the boundary of the 4-simplex (5 tets on vertices 0..4)
                         with vertices 0 and 1 inside satisfies every hypothesis, has mixed
                         faces and an 8-triangle mesh, which is therefore closed and manifold. *)
From Coq Require Import List Arith Bool Lia ZArith.
From LF Require Import Gen.TetTable_gen Render.MarchTet.
Import ListNotations.

Local Arguments mk_key : simpl never.

(* ------------------------------------------------------------------ *)
(* 1. table sanity, by evaluation of gen_tet_table                     *)
(* ------------------------------------------------------------------ *)

Definition popcount4 (m : nat) : nat :=
  (if Nat.testbit m 0 then 1 else 0) + (if Nat.testbit m 1 then 1 else 0) +
  (if Nat.testbit m 2 then 1 else 0) + (if Nat.testbit m 3 then 1 else 0).
Definition expected_tris (m : nat) : nat :=
  match popcount4 m with 1 => 1 | 2 => 2 | 3 => 1 | _ => 0 end.
Definition sign_change (m : nat) (e : nat * nat) : bool :=
  (fst e <? 4) && (snd e <? 4) && negb (Bool.eqb (Nat.testbit m (fst e)) (Nat.testbit m (snd e))).
Definition row_ok (m : nat) : bool :=
  let row := nth m gen_tet_table [] in
  (length row =? expected_tris m) &&
  forallb (fun es => (length es =? 3) && forallb (sign_change m) es) row.

Theorem table_sanity :
  length gen_tet_table = 16 /\
  forall m, m < 16 ->
    length (nth m gen_tet_table []) = expected_tris m /\
    forall es, In es (nth m gen_tet_table []) ->
      length es = 3 /\ forall e, In e es -> sign_change m e = true.
Proof.
  split; [reflexivity|].
  assert (H : forallb row_ok (seq 0 16) = true) by (vm_compute; reflexivity).
  intros m Hm. rewrite forallb_forall in H.
  specialize (H m). rewrite in_seq in H. specialize (H ltac:(lia)).
  unfold row_ok in H. rewrite andb_true_iff, Nat.eqb_eq, forallb_forall in H.
  destruct H as [H1 H2]. split; [exact H1|].
  intros es Hes. specialize (H2 es Hes).
  rewrite andb_true_iff, Nat.eqb_eq, forallb_forall in H2. exact H2.
Qed.

(* ------------------------------------------------------------------ *)
(* basic facts on keys, directed edges, counting and sums              *)
(* ------------------------------------------------------------------ *)

Lemma key_eqb_eq k1 k2 : key_eqb k1 k2 = true <-> k1 = k2.
Proof.
  destruct k1 as [a b], k2 as [c d]; unfold key_eqb; cbn.
  rewrite andb_true_iff, !Nat.eqb_eq. split.
  - intros [-> ->]; reflexivity.
  - intros [= -> ->]; split; reflexivity.
Qed.

Lemma dedge_eqb_eq e f : dedge_eqb e f = true <-> e = f.
Proof.
  destruct e as [a b], f as [c d]; unfold dedge_eqb; cbn.
  rewrite andb_true_iff, !key_eqb_eq. split.
  - intros [-> ->]; reflexivity.
  - intros [= -> ->]; split; reflexivity.
Qed.

Lemma dedge_eqb_rev e x y : dedge_eqb (rev_dedge e) (x, y) = dedge_eqb e (y, x).
Proof. unfold dedge_eqb, rev_dedge; cbn. apply andb_comm. Qed.

Lemma mk_key_comm a b : mk_key a b = mk_key b a.
Proof. unfold mk_key. rewrite Nat.min_comm, Nat.max_comm. reflexivity. Qed.

Lemma mk_key_eq a b c d : mk_key a b = mk_key c d -> (a = c /\ b = d) \/ (a = d /\ b = c).
Proof. unfold mk_key. intros [= H1 H2]. lia. Qed.

Definition b2n (b : bool) : nat := if b then 1 else 0.

Lemma count_nil e : count_dedge e [] = 0.
Proof. reflexivity. Qed.
Lemma count_cons e x l : count_dedge e (x :: l) = b2n (dedge_eqb e x) + count_dedge e l.
Proof. unfold count_dedge; cbn. destruct (dedge_eqb e x); reflexivity. Qed.
Lemma count_app e l1 l2 : count_dedge e (l1 ++ l2) = count_dedge e l1 + count_dedge e l2.
Proof. unfold count_dedge. rewrite filter_app, app_length. reflexivity. Qed.
Lemma count_le_length e l : count_dedge e l <= length l.
Proof.
  induction l as [|x l IH]; [apply le_n|].
  rewrite count_cons. cbn [length]. destruct (dedge_eqb e x); cbn [b2n]; lia.
Qed.
Lemma count_pos_In e l : count_dedge e l <> 0 -> In e l.
Proof.
  induction l as [|x l IH]; [intros H; elim H; reflexivity|].
  rewrite count_cons. destruct (dedge_eqb e x) eqn:E.
  - apply dedge_eqb_eq in E. subst. intros _. left; reflexivity.
  - cbn [b2n]. intros H. right. apply IH. lia.
Qed.

Fixpoint sumf {A} (g : A -> nat) (l : list A) : nat :=
  match l with [] => 0 | x :: r => g x + sumf g r end.

Lemma sumf_app {A} (g : A -> nat) l1 l2 : sumf g (l1 ++ l2) = sumf g l1 + sumf g l2.
Proof. induction l1 as [|x l1 IH]; cbn; [reflexivity|rewrite IH; lia]. Qed.
Lemma sumf_flat_map {A B} (g : B -> nat) (h : A -> list B) l :
  sumf g (flat_map h l) = sumf (fun x => sumf g (h x)) l.
Proof. induction l as [|x l IH]; cbn; [reflexivity|]. rewrite sumf_app, IH. reflexivity. Qed.
Lemma sumf_add {A} (g1 g2 : A -> nat) l :
  sumf (fun x => g1 x + g2 x) l = sumf g1 l + sumf g2 l.
Proof. induction l as [|x l IH]; cbn; [reflexivity|rewrite IH; lia]. Qed.
Lemma sumf_ext_in {A} (g1 g2 : A -> nat) l :
  (forall x, In x l -> g1 x = g2 x) -> sumf g1 l = sumf g2 l.
Proof.
  induction l as [|x l IH]; cbn; [reflexivity|]. intros H.
  rewrite (H x), IH; auto.
Qed.
Lemma sumf_le_in {A} (g1 g2 : A -> nat) l :
  (forall x, In x l -> g1 x <= g2 x) -> sumf g1 l <= sumf g2 l.
Proof.
  induction l as [|x l IH]; cbn; [intros; apply le_n|]. intros H.
  specialize (IH (fun y Hy => H y (or_intror Hy))). specialize (H x (or_introl eq_refl)). lia.
Qed.
Lemma sumf_zero_in {A} (g : A -> nat) l : (forall x, In x l -> g x = 0) -> sumf g l = 0.
Proof.
  induction l as [|x l IH]; cbn; [reflexivity|]. intros H.
  rewrite (H x), IH; auto.
Qed.
Lemma sumf_zero_or_witness {A} (g : A -> nat) l :
  sumf g l = 0 \/ exists x, In x l /\ g x <> 0.
Proof.
  induction l as [|x l IH]; cbn; [left; reflexivity|].
  destruct (Nat.eq_dec (g x) 0) as [E|E].
  - destruct IH as [IH|[y [Hy1 Hy2]]]; [left; lia|right; exists y; auto].
  - right; exists x; auto.
Qed.
Lemma length_filter_sumf {A} (p : A -> bool) l :
  length (filter p l) = sumf (fun x => b2n (p x)) l.
Proof.
  induction l as [|x l IH]; cbn; [reflexivity|].
  destruct (p x); cbn; rewrite IH; reflexivity.
Qed.

Lemma count_flat_map {A} e (h : A -> list (key * key)) l :
  count_dedge e (flat_map h l) = sumf (fun x => count_dedge e (h x)) l.
Proof.
  induction l as [|x l IH]; [reflexivity|].
  cbn [flat_map sumf]. rewrite count_app, IH. reflexivity.
Qed.

Lemma dedges_app m1 m2 : dedges (m1 ++ m2) = dedges m1 ++ dedges m2.
Proof. unfold dedges. apply flat_map_app. Qed.

Lemma mesh_count ins ts e :
  count_dedge e (dedges (mesh ins ts)) = sumf (fun t => count_dedge e (dedges (march ins t))) ts.
Proof.
  induction ts as [|t ts IH]; [reflexivity|].
  unfold mesh in *. cbn [flat_map sumf].
  rewrite dedges_app, count_app, IH. reflexivity.
Qed.

(* ------------------------------------------------------------------ *)
(* 2. the canonical segment of an oriented face and the local lemma    *)
(* ------------------------------------------------------------------ *)

(* [p] is the apex of (p, q, r) when its sign differs from both others; the segment then joins
   the surface vertices on pq and pr, and its direction is the one the table produces *)
Definition fseg1 (ins : vid -> bool) (f : face) : list (key * key) :=
  let '(p, q, r) := f in
  if negb (Bool.eqb (ins p) (ins q)) && negb (Bool.eqb (ins p) (ins r))
  then [if ins p then (mk_key p r, mk_key p q) else (mk_key p q, mk_key p r)]
  else [].
Definition fseg (ins : vid -> bool) (f : face) : list (key * key) :=
  fseg1 ins f ++ fseg1 ins (face_rot f) ++ fseg1 ins (face_rot (face_rot f)).

(* the interior diagonal of the two-triangle patch (2 inside, 2 outside), in both directions *)
Definition diag (ins : vid -> bool) (t : tet) : list (key * key) :=
  let '(a, b, c, d) := t in
  if Bool.eqb (ins a) (ins b) && Bool.eqb (ins c) (ins d) && negb (Bool.eqb (ins a) (ins c))
  then [(mk_key a c, mk_key b d); (mk_key b d, mk_key a c)]
  else if negb (Bool.eqb (ins a) (ins b)) && negb (Bool.eqb (ins c) (ins d))
  then [(mk_key a b, mk_key c d); (mk_key c d, mk_key a b)]
  else [].

Lemma fseg_rot ins f : fseg ins (face_rot f) = fseg ins f.
Proof.
  destruct f as [[p q] r]. unfold fseg, fseg1, face_rot.
  destruct (ins p), (ins q), (ins r); reflexivity.
Qed.

Lemma fseg_cases ins f : fseg ins f = [] \/ exists x y, fseg ins f = [(x, y)].
Proof.
  destruct f as [[p q] r]. unfold fseg, fseg1, face_rot.
  destruct (ins p), (ins q), (ins r); cbn; eauto.
Qed.

(* the oppositely oriented face carries the reversed segment *)
Lemma fseg_flip ins f : fseg ins (face_flip f) = map rev_dedge (fseg ins f).
Proof.
  destruct f as [[p q] r]. unfold fseg, fseg1, face_rot, face_flip.
  destruct (ins p), (ins q), (ins r); cbn; unfold rev_dedge; cbn;
    rewrite ?(mk_key_comm q p), ?(mk_key_comm r p), ?(mk_key_comm r q); reflexivity.
Qed.

Lemma fseg_nonmixed ins f : face_mixed ins f = false -> fseg ins f = [].
Proof.
  destruct f as [[p q] r]. unfold fseg, fseg1, face_rot, face_mixed.
  destruct (ins p), (ins q), (ins r); cbn; intros H; try discriminate H; reflexivity.
Qed.

Definition count_eq3 (l1 l2 l3 : list (key * key)) : Prop :=
  forall e, count_dedge e l1 = count_dedge e l2 + count_dedge e l3.

(* LOCAL BOUNDARY LEMMA: no hypothesis on the tet or on ins *)
Lemma march_decomp_aux ins t :
  count_eq3 (dedges (march ins t)) (flat_map (fseg ins) (tet_faces t)) (diag ins t).
Proof.
  destruct t as [[[a b] c] d].
  unfold march, mask_of, tet_faces, diag, tet_nth.
  cbn [flat_map]. unfold fseg, fseg1, face_rot.
  cbv beta iota zeta.
  destruct (ins a), (ins b), (ins c), (ins d);
    cbv -[mk_key count_eq3]; intros e;
    rewrite ?(mk_key_comm b a), ?(mk_key_comm c a), ?(mk_key_comm d a),
            ?(mk_key_comm c b), ?(mk_key_comm d b), ?(mk_key_comm d c);
    repeat rewrite count_cons; rewrite ?count_nil; lia.
Qed.

Theorem march_decomp ins t e :
  count_dedge e (dedges (march ins t)) =
  count_dedge e (flat_map (fseg ins) (tet_faces t)) + count_dedge e (diag ins t).
Proof. apply march_decomp_aux. Qed.

Lemma diag_rev ins t e : count_dedge (rev_dedge e) (diag ins t) = count_dedge e (diag ins t).
Proof.
  destruct t as [[[a b] c] d]. unfold diag.
  destruct (_ && _ && _); [|destruct (_ && _)];
    repeat rewrite count_cons; rewrite ?count_nil, ?dedge_eqb_rev; lia.
Qed.

Lemma count_rev_map e l : count_dedge (rev_dedge e) l = count_dedge e (map rev_dedge l).
Proof.
  induction l as [|[x y] l IH]; [reflexivity|].
  cbn [map]. rewrite !count_cons, IH, dedge_eqb_rev. reflexivity.
Qed.

(* net count into Z *)
Definition net (e : key * key) (l : list (key * key)) : Z :=
  Z.of_nat (count_dedge e l) - Z.of_nat (count_dedge (rev_dedge e) l).

Theorem march_local_net ins t e :
  net e (dedges (march ins t)) = net e (flat_map (fseg ins) (tet_faces t)).
Proof. unfold net. rewrite !march_decomp, diag_rev. lia. Qed.

(* GLOBAL REGROUPING: no hypothesis *)
Theorem mesh_count_decomp ins ts e :
  count_dedge e (dedges (mesh ins ts)) =
  sumf (fun f => count_dedge e (fseg ins f)) (all_faces ts) +
  sumf (fun t => count_dedge e (diag ins t)) ts.
Proof.
  rewrite mesh_count. unfold all_faces. rewrite sumf_flat_map, <- sumf_add.
  apply sumf_ext_in. intros t _. rewrite march_decomp, count_flat_map. reflexivity.
Qed.

(* ------------------------------------------------------------------ *)
(* 3. oriented faces: same / opposite orientation                      *)
(* ------------------------------------------------------------------ *)

Lemma face_eqb_eq f g : face_eqb f g = true <-> f = g.
Proof.
  destruct f as [[a b] c], g as [[x y] z]. unfold face_eqb.
  rewrite !andb_true_iff, !Nat.eqb_eq. split.
  - intros [[-> ->] ->]; reflexivity.
  - intros [= -> -> ->]; auto.
Qed.

Lemma same_oriented_spec f g :
  same_oriented f g = true <-> g = f \/ g = face_rot f \/ g = face_rot (face_rot f).
Proof.
  unfold same_oriented. rewrite !orb_true_iff, !face_eqb_eq.
  split; [intros [[H|H]|H]|intros [H|[H|H]]]; auto.
Qed.

Lemma face_rot3 f : face_rot (face_rot (face_rot f)) = f.
Proof. destruct f as [[a b] c]; reflexivity. Qed.

Lemma same_oriented_refl f : same_oriented f f = true.
Proof. apply same_oriented_spec; auto. Qed.
Lemma same_oriented_sym f g : same_oriented f g = true -> same_oriented g f = true.
Proof.
  rewrite !same_oriented_spec. intros [H|[H|H]]; subst g; rewrite ?face_rot3; auto.
Qed.
Lemma same_oriented_trans f g h :
  same_oriented f g = true -> same_oriented g h = true -> same_oriented f h = true.
Proof.
  rewrite !same_oriented_spec.
  intros [H|[H|H]] [H'|[H'|H']]; subst g h; rewrite ?face_rot3; auto.
Qed.

Lemma opposite_oriented_sym f g : opposite_oriented f g = opposite_oriented g f.
Proof.
  apply eq_true_iff_eq. unfold opposite_oriented. rewrite !same_oriented_spec.
  destruct f as [[a b] c], g as [[x y] z]. cbn.
  split; intros [H|[H|H]]; inversion H; subst; auto.
Qed.

Lemma fseg_same ins f g : same_oriented f g = true -> fseg ins g = fseg ins f.
Proof.
  rewrite same_oriented_spec. intros [H|[H|H]]; subst g; rewrite ?fseg_rot; reflexivity.
Qed.

Lemma fseg_opposite ins f g :
  opposite_oriented f g = true -> fseg ins g = map rev_dedge (fseg ins f).
Proof.
  unfold opposite_oriented. intros H. rewrite (fseg_same _ _ _ H). apply fseg_flip.
Qed.

(* ------------------------------------------------------------------ *)
(* 4. pairing of oppositely oriented faces                             *)
(* ------------------------------------------------------------------ *)

Fixpoint sumz {A} (g : A -> Z) (l : list A) : Z :=
  match l with [] => 0%Z | x :: r => (g x + sumz g r)%Z end.

Lemma sumz_ext_in {A} (g1 g2 : A -> Z) l :
  (forall x, In x l -> g1 x = g2 x) -> sumz g1 l = sumz g2 l.
Proof.
  induction l as [|x l IH]; cbn; [reflexivity|]. intros H.
  rewrite (H x), IH; auto.
Qed.
Lemma sumz_add {A} (g1 g2 : A -> Z) l :
  sumz (fun x => (g1 x + g2 x)%Z) l = (sumz g1 l + sumz g2 l)%Z.
Proof. induction l as [|x l IH]; cbn; [reflexivity|rewrite IH; lia]. Qed.
Lemma sumz_zero {A} (l : list A) : sumz (fun _ => 0%Z) l = 0%Z.
Proof. induction l as [|x l IH]; cbn; [reflexivity|rewrite IH; reflexivity]. Qed.
Lemma sumz_opp {A} (g : A -> Z) l : sumz (fun x => (- g x)%Z) l = (- sumz g l)%Z.
Proof. induction l as [|x l IH]; cbn; [reflexivity|rewrite IH; lia]. Qed.
Lemma sumz_scal {A} (c : Z) (g : A -> Z) l : sumz (fun x => (c * g x)%Z) l = (c * sumz g l)%Z.
Proof. induction l as [|x l IH]; cbn; [lia|rewrite IH; lia]. Qed.
Lemma sumz_swap {A B} (h : A -> B -> Z) l1 l2 :
  sumz (fun x => sumz (fun y => h x y) l2) l1 = sumz (fun y => sumz (fun x => h x y) l1) l2.
Proof.
  induction l1 as [|x l1 IH]; cbn.
  - rewrite sumz_zero. reflexivity.
  - rewrite IH, sumz_add. reflexivity.
Qed.
Lemma sumz_of_sumf {A} (g : A -> nat) l : Z.of_nat (sumf g l) = sumz (fun x => Z.of_nat (g x)) l.
Proof. induction l as [|x l IH]; cbn [sumf sumz]; [reflexivity|]. rewrite Nat2Z.inj_add, IH. reflexivity. Qed.

Definition b2z (b : bool) : Z := if b then 1%Z else 0%Z.

Lemma count_opp_sumz f F : Z.of_nat (count_opp f F) = sumz (fun f' => b2z (opposite_oriented f f')) F.
Proof.
  unfold count_opp. rewrite length_filter_sumf, sumz_of_sumf.
  apply sumz_ext_in. intros x _. destruct (opposite_oriented f x); reflexivity.
Qed.

Theorem face_pairing_cancel (g : face -> Z) (F : list face) :
  (forall f f', opposite_oriented f f' = true -> g f' = (- g f)%Z) ->
  (forall f, In f F -> g f <> 0%Z -> count_opp f F = 1) ->
  sumz g F = 0%Z.
Proof.
  intros Hanti Hone.
  set (T := sumz (fun f => sumz (fun f' => (g f * b2z (opposite_oriented f f'))%Z) F) F).
  assert (E1 : sumz g F = T).
  { unfold T. apply sumz_ext_in. intros f Hf.
    rewrite sumz_scal, <- count_opp_sumz.
    destruct (Z.eq_dec (g f) 0) as [E|E]; [rewrite E; lia|].
    rewrite (Hone f Hf E). lia. }
  assert (E2 : T = (- T)%Z).
  { unfold T at 1. rewrite sumz_swap. unfold T. rewrite <- sumz_opp.
    apply sumz_ext_in. intros f _. rewrite <- sumz_opp.
    apply sumz_ext_in. intros f' _.
    rewrite (opposite_oriented_sym f' f).
    destruct (opposite_oriented f f') eqn:E; cbn [b2z]; [|lia].
    rewrite (Hanti f f' E). lia. }
  lia.
Qed.

(* ------------------------------------------------------------------ *)
(* MAIN THEOREM                                                        *)
(* ------------------------------------------------------------------ *)

Theorem march_closed_weak ins ts :
  (forall f, In f (all_faces ts) -> face_mixed ins f = true -> count_opp f (all_faces ts) = 1) ->
  closed_mesh (mesh ins ts).
Proof.
  intros Hc e.
  rewrite !mesh_count_decomp.
  rewrite (sumf_ext_in (fun t => count_dedge (rev_dedge e) (diag ins t))
                       (fun t => count_dedge e (diag ins t)) ts)
    by (intros; apply diag_rev).
  assert (H : sumz (fun f => net e (fseg ins f)) (all_faces ts) = 0%Z).
  { apply face_pairing_cancel.
    - intros f f' Hop. unfold net. rewrite (fseg_opposite _ _ _ Hop).
      rewrite <- !count_rev_map.
      replace (rev_dedge (rev_dedge e)) with e by (destruct e; reflexivity). lia.
    - intros f Hf Hne. apply Hc; [exact Hf|].
      destruct (face_mixed ins f) eqn:E; [reflexivity|].
      rewrite (fseg_nonmixed _ _ E) in Hne. elim Hne. reflexivity. }
  unfold net in H.
  rewrite (sumz_add (fun f => Z.of_nat (count_dedge e (fseg ins f)))
                    (fun f => (- Z.of_nat (count_dedge (rev_dedge e) (fseg ins f)))%Z)) in H.
  rewrite sumz_opp, <- !sumz_of_sumf in H. lia.
Qed.

Theorem march_closed : forall ins ts, complex_closed ins ts -> closed_mesh (mesh ins ts).
Proof.
  intros ins ts [_ H]. apply march_closed_weak. intros f Hf Hm. apply (H f Hf Hm).
Qed.

(* two tets glued along a face: the segments on the shared face cancel *)
Theorem two_tet_gluing ins f f' e :
  opposite_oriented f f' = true -> (net e (fseg ins f) + net e (fseg ins f') = 0)%Z.
Proof.
  intros Hop. unfold net. rewrite (fseg_opposite _ _ _ Hop), <- !count_rev_map.
  replace (rev_dedge (rev_dedge e)) with e by (destruct e; reflexivity). lia.
Qed.

(* ------------------------------------------------------------------ *)
(* 5. edge-manifoldness                                                *)
(* ------------------------------------------------------------------ *)

Definition tverts (t : tet) : list vid := let '(a, b, c, d) := t in [a; b; c; d].
(* the two tets have the same vertex set *)
Definition vsame (t t' : tet) : bool :=
  forallb (fun v => existsb (Nat.eqb v) (tverts t')) (tverts t) &&
  forallb (fun v => existsb (Nat.eqb v) (tverts t)) (tverts t').
Definition count_vsame (t : tet) (ts : list tet) : nat := length (filter (vsame t) ts).
(* a tet of the list is determined by its vertex set (no second tet on the same four vertices) *)
Definition simplicial (ts : list tet) : Prop := forall t, In t ts -> count_vsame t ts = 1.

Lemma vsame_spec t t' :
  vsame t t' = true <-> (forall v, In v (tverts t) <-> In v (tverts t')).
Proof.
  unfold vsame. rewrite andb_true_iff, !forallb_forall. split.
  - intros [H1 H2] v; split; intros Hv; [apply H1 in Hv|apply H2 in Hv];
      apply existsb_exists in Hv; destruct Hv as [x [Hx E]];
      apply Nat.eqb_eq in E; subst; exact Hx.
  - intros H; split; intros v Hv; apply existsb_exists; exists v;
      (split; [apply H; exact Hv|apply Nat.eqb_refl]).
Qed.

Lemma tet_distinct_neq a b c d :
  tet_distinct (a, b, c, d) -> a <> b /\ a <> c /\ a <> d /\ b <> c /\ b <> d /\ c <> d.
Proof.
  unfold tet_distinct. intros H.
  inversion H as [|? ? H1 H2]; subst. inversion H2 as [|? ? H3 H4]; subst.
  inversion H4 as [|? ? H5 H6]; subst. cbn in H1, H3, H5.
  repeat split; intros E; subst; tauto.
Qed.

Definition face_distinct (f : face) : Prop := let '(p, q, r) := f in p <> q /\ q <> r /\ p <> r.

Lemma tet_faces_distinct t f : tet_distinct t -> In f (tet_faces t) -> face_distinct f.
Proof.
  destruct t as [[[a b] c] d]. intros H. apply tet_distinct_neq in H.
  cbn. intros [<-|[<-|[<-|[<-|[]]]]]; cbn; repeat split; intros E; subst; tauto.
Qed.

Lemma all_faces_distinct ts :
  (forall t, In t ts -> tet_distinct t) -> forall f, In f (all_faces ts) -> face_distinct f.
Proof.
  intros H f Hf. unfold all_faces in Hf. apply in_flat_map in Hf.
  destruct Hf as [t [Ht Hf]]. exact (tet_faces_distinct t f (H t Ht) Hf).
Qed.

Lemma fseg_single ins f e : count_dedge e (fseg ins f) <> 0 -> fseg ins f = [e].
Proof.
  destruct (fseg_cases ins f) as [E|[x [y E]]]; rewrite E.
  - intros H; elim H; reflexivity.
  - rewrite count_cons, count_nil. destruct (dedge_eqb e (x, y)) eqn:E1.
    + apply dedge_eqb_eq in E1. subst. reflexivity.
    + intros H; elim H; reflexivity.
Qed.

Lemma fseg_count_le1 ins f e : count_dedge e (fseg ins f) <= 1.
Proof.
  pose proof (count_le_length e (fseg ins f)) as H.
  destruct (fseg_cases ins f) as [E|[x [y E]]]; rewrite E in *; cbn [length] in H; lia.
Qed.

Lemma fseg_mixed ins f e : fseg ins f = [e] -> face_mixed ins f = true.
Proof.
  intros H. destruct (face_mixed ins f) eqn:E; [reflexivity|].
  rewrite (fseg_nonmixed _ _ E) in H. discriminate H.
Qed.

Lemma sing_pair_inj {A B} (x x' : A) (y y' : B) : [(x, y)] = [(x', y')] -> x = x' /\ y = y'.
Proof. intros [= -> ->]; split; reflexivity. Qed.

(* a segment determines its oriented face (vertices of each face pairwise distinct) *)
Lemma fseg_determines_face ins f f' e :
  face_distinct f -> face_distinct f' ->
  fseg ins f = [e] -> fseg ins f' = [e] -> same_oriented f f' = true.
Proof.
  destruct f as [[p q] r], f' as [[p' q'] r'].
  intros (D1 & D2 & D3) (D1' & D2' & D3') H H'.
  apply same_oriented_spec. unfold face_rot.
  unfold fseg, fseg1, face_rot in H, H'.
  destruct (ins p) eqn:Ip, (ins q) eqn:Iq, (ins r) eqn:Ir;
    cbn in H; try discriminate H; injection H as <-;
    destruct (ins p') eqn:Ip', (ins q') eqn:Iq', (ins r') eqn:Ir';
    cbn in H'; try discriminate H';
    apply sing_pair_inj in H'; destruct H' as [E1 E2];
    apply mk_key_eq in E1; apply mk_key_eq in E2;
    destruct E1 as [[? ?]|[? ?]]; destruct E2 as [[? ?]|[? ?]]; subst;
    try congruence; auto.
Qed.

Theorem segs_at_most_once ins F e :
  (forall f, In f F -> face_distinct f) ->
  (forall f, In f F -> face_mixed ins f = true -> count_same f F = 1) ->
  sumf (fun f => count_dedge e (fseg ins f)) F <= 1.
Proof.
  intros Hd Hs.
  destruct (sumf_zero_or_witness (fun f => count_dedge e (fseg ins f)) F)
    as [E|[f0 [Hf0 Hne]]]; [lia|].
  pose proof (fseg_single _ _ _ Hne) as E0.
  rewrite <- (Hs f0 Hf0 (fseg_mixed _ _ _ E0)).
  unfold count_same. rewrite length_filter_sumf.
  apply sumf_le_in. intros f Hf.
  destruct (Nat.eq_dec (count_dedge e (fseg ins f)) 0) as [Z|NZ]; [lia|].
  pose proof (fseg_single _ _ _ NZ) as E1.
  rewrite (fseg_determines_face ins f0 f e (Hd _ Hf0) (Hd _ Hf) E0 E1).
  apply fseg_count_le1.
Qed.

(* diagonals *)
Definition everts (e : key * key) : list vid :=
  [fst (fst e); snd (fst e); fst (snd e); snd (snd e)].

Lemma diag_In_verts ins t e :
  In e (diag ins t) -> forall v, In v (everts e) <-> In v (tverts t).
Proof.
  destruct t as [[[a b] c] d]. unfold diag.
  destruct (_ && _ && _); [|destruct (_ && _)]; cbn [In];
    intros H v; (destruct H as [<-|[<-|[]]] || destruct H);
    unfold everts, tverts, mk_key; cbn [fst snd In]; lia.
Qed.

Lemma diag_count_le1 ins t e : tet_distinct t -> count_dedge e (diag ins t) <= 1.
Proof.
  destruct t as [[[a b] c] d]. intros H. apply tet_distinct_neq in H.
  destruct H as (Hab & Hac & Had & Hbc & Hbd & Hcd). unfold diag.
  destruct (_ && _ && _); [|destruct (_ && _)];
    repeat rewrite count_cons; rewrite ?count_nil; try lia.
  - destruct (dedge_eqb e (mk_key a c, mk_key b d)) eqn:E1,
             (dedge_eqb e (mk_key b d, mk_key a c)) eqn:E2; cbn [b2n]; try lia.
    apply dedge_eqb_eq in E1, E2. rewrite E1 in E2. apply pair_equal_spec in E2. destruct E2 as [E2 _].
    apply mk_key_eq in E2. lia.
  - destruct (dedge_eqb e (mk_key a b, mk_key c d)) eqn:E1,
             (dedge_eqb e (mk_key c d, mk_key a b)) eqn:E2; cbn [b2n]; try lia.
    apply dedge_eqb_eq in E1, E2. rewrite E1 in E2. apply pair_equal_spec in E2. destruct E2 as [E2 _].
    apply mk_key_eq in E2. lia.
Qed.

(* the two keys of a directed edge have an end vertex in common *)
Definition eshare (e : key * key) : Prop :=
  exists v, (v = fst (fst e) \/ v = snd (fst e)) /\ (v = fst (snd e) \/ v = snd (snd e)).

Lemma fseg_share ins f e : fseg ins f = [e] -> eshare e.
Proof.
  destruct f as [[p q] r]. unfold fseg, fseg1, face_rot.
  destruct (ins p), (ins q), (ins r); cbn; intros H; try discriminate H;
    injection H as <-; unfold eshare, mk_key; cbn [fst snd];
    first [exists p; lia|exists q; lia|exists r; lia].
Qed.

Lemma diag_noshare ins t e : tet_distinct t -> In e (diag ins t) -> ~ eshare e.
Proof.
  destruct t as [[[a b] c] d]. intros H. apply tet_distinct_neq in H.
  destruct H as (Hab & Hac & Had & Hbc & Hbd & Hcd). unfold diag.
  destruct (_ && _ && _); [|destruct (_ && _)]; cbn [In];
    intros H; (destruct H as [<-|[<-|[]]] || destruct H);
    intros [v Hv]; unfold mk_key in Hv; cbn [fst snd] in Hv; lia.
Qed.

Theorem diags_at_most_once ins ts e :
  (forall t, In t ts -> tet_distinct t) -> simplicial ts ->
  sumf (fun t => count_dedge e (diag ins t)) ts <= 1.
Proof.
  intros Hd Hs.
  destruct (sumf_zero_or_witness (fun t => count_dedge e (diag ins t)) ts)
    as [E|[t0 [Ht0 Hne]]]; [lia|].
  rewrite <- (Hs t0 Ht0). unfold count_vsame. rewrite length_filter_sumf.
  apply sumf_le_in. intros t Ht.
  destruct (Nat.eq_dec (count_dedge e (diag ins t)) 0) as [Z|NZ]; [lia|].
  assert (V : vsame t0 t = true).
  { apply vsame_spec. intros v.
    rewrite <- (diag_In_verts ins t0 e (count_pos_In _ _ Hne) v).
    apply (diag_In_verts ins t e (count_pos_In _ _ NZ) v). }
  rewrite V. apply diag_count_le1. apply Hd, Ht.
Qed.

Theorem march_manifold : forall ins ts,
  complex_closed ins ts -> simplicial ts -> manifold_mesh (mesh ins ts).
Proof.
  intros ins ts [Hd Hc] Hs e. rewrite mesh_count_decomp.
  pose proof (segs_at_most_once ins (all_faces ts) e (all_faces_distinct ts Hd)
                (fun f Hf Hm => proj1 (Hc f Hf Hm))) as HA.
  pose proof (diags_at_most_once ins ts e Hd Hs) as HB.
  destruct (sumf_zero_or_witness (fun f => count_dedge e (fseg ins f)) (all_faces ts))
    as [E|[f0 [Hf0 Hne]]]; [lia|].
  pose proof (fseg_share _ _ _ (fseg_single _ _ _ Hne)) as Hsh.
  rewrite (sumf_zero_in (fun t => count_dedge e (diag ins t)) ts); [lia|].
  intros t Ht. destruct (Nat.eq_dec (count_dedge e (diag ins t)) 0) as [Z|NZ]; [exact Z|].
  elim (diag_noshare ins t e (Hd t Ht) (count_pos_In _ _ NZ) Hsh).
Qed.

(* ------------------------------------------------------------------ *)
(* 6. decision procedures for the hypotheses, examples                 *)
(* ------------------------------------------------------------------ *)

Definition tet_distinctb (t : tet) : bool :=
  let '(a, b, c, d) := t in
  negb (a =? b) && negb (a =? c) && negb (a =? d) &&
  negb (b =? c) && negb (b =? d) && negb (c =? d).

Definition complex_closedb (ins : vid -> bool) (ts : list tet) : bool :=
  forallb tet_distinctb ts &&
  forallb (fun f => implb (face_mixed ins f)
                          ((count_same f (all_faces ts) =? 1) && (count_opp f (all_faces ts) =? 1)))
          (all_faces ts).

Definition simplicialb (ts : list tet) : bool := forallb (fun t => count_vsame t ts =? 1) ts.

Lemma tet_distinctb_ok t : tet_distinctb t = true -> tet_distinct t.
Proof.
  destruct t as [[[a b] c] d]. unfold tet_distinctb, tet_distinct.
  rewrite !andb_true_iff, !negb_true_iff, !Nat.eqb_neq.
  intros [[[[[H1 H2] H3] H4] H5] H6].
  repeat constructor; cbn; intuition congruence.
Qed.

Lemma complex_closedb_ok ins ts : complex_closedb ins ts = true -> complex_closed ins ts.
Proof.
  unfold complex_closedb, complex_closed.
  rewrite andb_true_iff, !forallb_forall. intros [H1 H2]. split.
  - intros t Ht. apply tet_distinctb_ok, H1, Ht.
  - intros f Hf Hm. specialize (H2 f Hf). rewrite Hm in H2. cbn in H2.
    rewrite andb_true_iff, !Nat.eqb_eq in H2. exact H2.
Qed.

Lemma simplicialb_ok ts : simplicialb ts = true -> simplicial ts.
Proof.
  unfold simplicialb, simplicial. rewrite forallb_forall.
  intros H t Ht. apply Nat.eqb_eq, H, Ht.
Qed.

(* NON-VACUITY: the boundary of the 4-simplex on the vertices 0..4, each tet oriented as in the
   simplicial boundary operator; vertices 0 and 1 inside *)
Definition simplex4 : list tet :=
  [(1, 2, 3, 4); (2, 0, 3, 4); (0, 1, 3, 4); (1, 0, 2, 4); (0, 1, 2, 3)].
Definition ins01 (v : vid) : bool := v <? 2.

Theorem simplex4_closed : complex_closed ins01 simplex4.
Proof. apply complex_closedb_ok. vm_compute. reflexivity. Qed.
Theorem simplex4_simplicial : simplicial simplex4.
Proof. apply simplicialb_ok. vm_compute. reflexivity. Qed.
Theorem simplex4_has_mixed_faces :
  length (filter (face_mixed ins01) (all_faces simplex4)) = 18.
Proof. vm_compute. reflexivity. Qed.
Theorem simplex4_mesh_nonempty : length (mesh ins01 simplex4) = 8.
Proof. vm_compute. reflexivity. Qed.
Theorem simplex4_mesh_closed : closed_mesh (mesh ins01 simplex4).
Proof. apply march_closed, simplex4_closed. Qed.
Theorem simplex4_mesh_manifold : manifold_mesh (mesh ins01 simplex4).
Proof. apply march_manifold; [apply simplex4_closed|apply simplex4_simplicial]. Qed.

(* the hypothesis [simplicial] of march_manifold cannot be dropped: two tets on the same four
   vertices, glued along all four faces, choose the same diagonal *)
Definition double_tet : list tet := [(0, 1, 2, 3); (0, 2, 1, 3)].

Theorem double_tet_closed : complex_closed ins01 double_tet.
Proof. apply complex_closedb_ok. vm_compute. reflexivity. Qed.
Theorem double_tet_mesh_closed : closed_mesh (mesh ins01 double_tet).
Proof. apply march_closed, double_tet_closed. Qed.
Theorem double_tet_not_manifold : ~ manifold_mesh (mesh ins01 double_tet).
Proof.
  intros H. specialize (H ((0, 2), (1, 3))). vm_compute in H. lia.
Qed.
