(* Semantics of the QEF model (Render/Qef.v):

   Part B (first in the file, parametric in [num]):
     - an exact characterisation of [sub_pass], [dim_pass], [bounded_search]
       ([sub_pass_spec], [dim_pass_spec], [search_returns_candidate]);
     - [bounded_in_box]: with comparable corner errors the result is in the box;
     - [zero_sample_failure]: with NaN errors the dummy origin is returned,
       outside the box, with error +inf;
     - [dummy_inside_box_returned]: the comparability of the corners alone does
       NOT force the result to be a candidate (n = 2, NaN edges, 0 in the box);
     - [descend_example]: a concrete n = 2 run descending from edges to corners.

   Part A (over the reals):
     - [error_is_sum_of_squares], [error_nonneg];
     - [insert_perm_eq] (the accumulated matrices are *equal* for permuted
       sample lists, no shape hypothesis), [insert_perm]. *)
From Coq Require Import List Arith Bool Lia Permutation ZArith.
From Coq Require Import Reals Lra.
From LF Require Import Render.Qef.
Import ListNotations.

(* ====================================================================== *)
(* Part B : the descending-dimension search                                *)
(* ====================================================================== *)

(* ---- digits / dimension ---- *)

Lemma digits_S : forall k i, digits (S k) i = (i mod 3) :: digits k (i / 3).
Proof. reflexivity. Qed.

Lemma digits_length : forall n i, length (digits n i) = n.
Proof.
  induction n as [|k IH]; intro i.
  - reflexivity.
  - rewrite digits_S. cbn [length]. now rewrite IH.
Qed.

Lemma digits_lt3 : forall n i a, a < n -> nth a (digits n i) 2 < 3.
Proof.
  induction n as [|k IH]; intros i a Ha.
  - lia.
  - rewrite digits_S. destruct a as [|a]; cbn [nth].
    + apply Nat.mod_upper_bound. lia.
    + apply IH. lia.
Qed.

Lemma filter_length0_nth :
  forall (A : Type) (f : A -> bool) (l : list A) (d : A) (a : nat),
    length (filter f l) = 0 -> a < length l -> f (nth a l d) = false.
Proof.
  intros A f l d. induction l as [|x t IH]; intros a H Ha.
  - cbn in Ha. lia.
  - cbn [filter] in H. destruct (f x) eqn:E.
    + cbn in H. lia.
    + destruct a as [|a]; cbn [nth].
      * exact E.
      * apply IH; [exact H | cbn in Ha; lia].
Qed.

Lemma dimension0_digits :
  forall n i a, dimension n i = 0 -> a < n ->
    nth a (digits n i) 2 = 0 \/ nth a (digits n i) 2 = 1.
Proof.
  intros n i a Hd Ha.
  pose proof (digits_lt3 n i a Ha) as Hlt.
  unfold dimension in Hd.
  pose proof (filter_length0_nth nat (Nat.eqb 2) (digits n i) 2 a Hd) as Hf.
  rewrite digits_length in Hf. specialize (Hf Ha).
  apply Nat.eqb_neq in Hf. lia.
Qed.

Lemma digits_0 : forall n, digits n 0 = repeat 0 n.
Proof.
  induction n as [|k IH].
  - reflexivity.
  - rewrite digits_S. rewrite Nat.mod_0_l by lia. rewrite Nat.div_0_l by lia.
    rewrite IH. reflexivity.
Qed.

Lemma filter_repeat_false :
  forall (A : Type) (f : A -> bool) (x : A) (n : nat),
    f x = false -> filter f (repeat x n) = [].
Proof.
  intros A f x n H. induction n as [|k IH]; cbn [repeat filter].
  - reflexivity.
  - rewrite H. exact IH.
Qed.

Lemma filter_repeat_true :
  forall (A : Type) (f : A -> bool) (x : A) (n : nat),
    f x = true -> filter f (repeat x n) = repeat x n.
Proof.
  intros A f x n H. induction n as [|k IH]; cbn [repeat filter].
  - reflexivity.
  - rewrite H. now rewrite IH.
Qed.

Lemma dimension_0 : forall n, dimension n 0 = 0.
Proof.
  intro n. unfold dimension. rewrite digits_0.
  rewrite filter_repeat_false by reflexivity. reflexivity.
Qed.

Lemma pow3_pos : forall n, 0 < 3 ^ n.
Proof. intro n. pose proof (Nat.pow_nonzero 3 n). lia. Qed.

(* the all-free index 3^k - 1, and an (n-1)-dimensional face index 3^n - 3 *)
Lemma digits_all_free : forall k, digits k (3 ^ k - 1) = repeat 2 k.
Proof.
  induction k as [|k IH].
  - reflexivity.
  - rewrite digits_S.
    assert (E : 3 ^ S k - 1 = 2 + (3 ^ k - 1) * 3).
    { pose proof (pow3_pos k). rewrite Nat.pow_succ_r'. lia. }
    rewrite E. rewrite Nat.mod_add by lia. rewrite Nat.div_add by lia.
    change (2 mod 3) with 2. change (2 / 3) with 0. cbn [Nat.add].
    rewrite IH. reflexivity.
Qed.

Lemma digits_face : forall k, digits (S k) (3 ^ S k - 3) = 0 :: repeat 2 k.
Proof.
  intro k. rewrite digits_S.
  assert (E : 3 ^ S k - 3 = 0 + (3 ^ k - 1) * 3).
  { pose proof (pow3_pos k). rewrite Nat.pow_succ_r'. lia. }
  rewrite E. rewrite Nat.mod_add by lia. rewrite Nat.div_add by lia.
  change (0 mod 3) with 0. change (0 / 3) with 0. cbn [Nat.add].
  rewrite digits_all_free. reflexivity.
Qed.

Lemma dimension_face : forall k, dimension (S k) (3 ^ S k - 3) = k.
Proof.
  intro k. unfold dimension. rewrite digits_face.
  cbn [filter]. change (Nat.eqb 2 0) with false. cbv iota.
  rewrite filter_repeat_true by reflexivity. apply repeat_length.
Qed.

Section Search.
  Context {num : Type}.
  Variable Q : @qops num.
  Variables (lo hi : @vec num) (cands : nat -> @cand num).

  (* the only order fact that is needed in general form *)
  Record order_facts : Prop := { of_leb_refl : forall a : num, q_leb Q a a = true }.

  (* the bounds are ordered and are comparable with themselves (not NaN) *)
  Definition box_ok (n : nat) : Prop :=
    forall a, a < n ->
      q_leb Q (nth a lo (q_zero Q)) (nth a lo (q_zero Q)) = true /\
      q_leb Q (nth a lo (q_zero Q)) (nth a hi (q_zero Q)) = true /\
      q_leb Q (nth a hi (q_zero Q)) (nth a hi (q_zero Q)) = true.

  Definition dummy (n : nat) : cand :=
    {| c_pos := repeat (q_zero Q) n; c_err := q_inf Q; c_tag := 3 ^ n |}.
  Definition reset (c : @cand num) : cand :=
    {| c_pos := c_pos c; c_err := q_inf Q; c_tag := c_tag c |}.

  Lemma reset_inf : forall c, c_err c = q_inf Q -> reset c = c.
  Proof. intros [p e t] H. cbn in H. subst e. reflexivity. Qed.

  Lemma bounded_search_eq :
    forall n, 1 <= n ->
      bounded_search Q n lo hi cands = dim_pass Q n lo hi cands (n - 1) (dummy n).
  Proof.
    intros n Hn. destruct n as [|m]; [lia|].
    unfold bounded_search, dummy. replace (S m - 1) with m by lia. reflexivity.
  Qed.

  Lemma dim_pass_eq :
    forall n d out,
      dim_pass Q n lo hi cands d out =
      let out1 := sub_pass Q n d lo hi cands (3 ^ n) out in
      if contains Q lo hi (c_pos out1) then out1
      else match d with
           | 0 => reset out1
           | S d' => dim_pass Q n lo hi cands d' (reset out1)
           end.
  Proof. intros n d out. destruct d; reflexivity. Qed.

  Lemma sub_pass_S :
    forall n d j out,
      sub_pass Q n d lo hi cands (S j) out =
      sub_pass Q n d lo hi cands j
        (if Nat.eqb (dimension n j) d
         then (if improves Q lo hi (cands j) out then cands j else out)
         else out).
  Proof. reflexivity. Qed.

  (* ---- exact characterisation of one dimension pass ---- *)
  Lemma sub_pass_spec :
    forall n d k out,
      (sub_pass Q n d lo hi cands k out = out /\
       forall j, j < k -> dimension n j = d -> improves Q lo hi (cands j) out = false)
      \/
      (exists j, j < k /\ dimension n j = d /\ sub_pass Q n d lo hi cands k out = cands j).
  Proof.
    intros n d k. induction k as [|j IH]; intro out.
    - left. split; [reflexivity | intros j Hj; lia].
    - rewrite sub_pass_S.
      destruct (Nat.eqb (dimension n j) d) eqn:Ed.
      + apply Nat.eqb_eq in Ed.
        destruct (improves Q lo hi (cands j) out) eqn:Ei.
        * right. destruct (IH (cands j)) as [[Hr _] | [j' [Hj' [Hd' Hr]]]].
          -- exists j. repeat split; [lia | exact Ed | exact Hr].
          -- exists j'. repeat split; [lia | exact Hd' | exact Hr].
        * destruct (IH out) as [[Hr Hn] | [j' [Hj' [Hd' Hr]]]].
          -- left. split; [exact Hr|].
             intros j' Hj' Hd'.
             destruct (Nat.eq_dec j' j) as [->|Hne]; [exact Ei|].
             apply Hn; [lia | exact Hd'].
          -- right. exists j'. repeat split; [lia | exact Hd' | exact Hr].
      + apply Nat.eqb_neq in Ed.
        destruct (IH out) as [[Hr Hn] | [j' [Hj' [Hd' Hr]]]].
        * left. split; [exact Hr|].
          intros j' Hj' Hd'.
          destruct (Nat.eq_dec j' j) as [->|Hne]; [contradiction|].
          apply Hn; [lia | exact Hd'].
        * right. exists j'. repeat split; [lia | exact Hd' | exact Hr].
  Qed.

  (* ---- exact characterisation of the dimension loop, entered with error +inf ---- *)
  Definition never_improved (n d : nat) (out : @cand num) : Prop :=
    (forall j, j < 3 ^ n -> dimension n j = d -> improves Q lo hi (cands j) out = false) /\
    (contains Q lo hi (c_pos out) = false ->
     forall j, j < 3 ^ n -> dimension n j <= d -> improves Q lo hi (cands j) out = false).

  Definition from_candidate (n d : nat) (r : @cand num) : Prop :=
    exists j, j < 3 ^ n /\ dimension n j <= d /\
      ((r = cands j /\ contains Q lo hi (c_pos (cands j)) = true)
       \/
       (r = reset (cands j) /\ contains Q lo hi (c_pos (cands j)) = false /\
        forall j', j' < 3 ^ n -> dimension n j' < dimension n j ->
                   improves Q lo hi (cands j') (reset (cands j)) = false)).

  Lemma dim_pass_spec :
    forall n d out,
      c_err out = q_inf Q ->
      (dim_pass Q n lo hi cands d out = out /\ never_improved n d out)
      \/ from_candidate n d (dim_pass Q n lo hi cands d out).
  Proof.
    intros n d. induction d as [|d' IH]; intros out Hinf.
    - rewrite dim_pass_eq. cbv zeta.
      destruct (sub_pass_spec n 0 (3 ^ n) out) as [[Hr Hn] | [j [Hj [Hd Hr]]]]; rewrite Hr.
      + left. split.
        * destruct (contains Q lo hi (c_pos out)); [reflexivity | apply reset_inf; exact Hinf].
        * split; [exact Hn|]. intros _ j Hj Hd. apply Hn; [exact Hj | lia].
      + right. exists j. split; [exact Hj|]. split; [lia|].
        destruct (contains Q lo hi (c_pos (cands j))) eqn:Ec.
        * left. split; reflexivity.
        * right. split; [reflexivity|]. split; [reflexivity|].
          intros j' _ Hlt. lia.
    - rewrite dim_pass_eq. cbv zeta.
      destruct (sub_pass_spec n (S d') (3 ^ n) out) as [[Hr Hn] | [j [Hj [Hd Hr]]]]; rewrite Hr.
      + destruct (contains Q lo hi (c_pos out)) eqn:Ec.
        * left. split; [reflexivity|]. split; [exact Hn|]. intro Hc; congruence.
        * rewrite (reset_inf out Hinf).
          destruct (IH out Hinf) as [[Hr' [Hn1 Hn2]] | [j [Hj [Hd Hc]]]].
          -- left. split; [exact Hr'|]. split; [exact Hn|].
             intros _ j Hj Hd.
             destruct (Nat.eq_dec (dimension n j) (S d')) as [E|E].
             ++ apply Hn; assumption.
             ++ apply Hn2; [exact Ec | exact Hj | lia].
          -- right. exists j. split; [exact Hj|]. split; [lia | exact Hc].
      + right.
        destruct (contains Q lo hi (c_pos (cands j))) eqn:Ec.
        * exists j. split; [exact Hj|]. split; [lia|]. left. split; [reflexivity | exact Ec].
        * destruct (IH (reset (cands j)) eq_refl) as [[Hr' [Hn1 Hn2]] | [j' [Hj' [Hd' Hc']]]].
          -- exists j. split; [exact Hj|]. split; [lia|]. right.
             split; [exact Hr'|]. split; [exact Ec|].
             intros j' Hj' Hlt. apply Hn2; [exact Ec | exact Hj' | lia].
          -- exists j'. split; [exact Hj'|]. split; [lia | exact Hc'].
  Qed.

  (* ---- Goal 4 : the result is the dummy or (a reset copy of) a candidate ---- *)
  Theorem search_returns_candidate :
    forall n, 1 <= n ->
      let r := bounded_search Q n lo hi cands in
      (r = dummy n /\ never_improved n (n - 1) (dummy n))
      \/ from_candidate n (n - 1) r.
  Proof.
    intros n Hn r. unfold r. rewrite (bounded_search_eq n Hn).
    apply dim_pass_spec. reflexivity.
  Qed.

  (* weaker, easier to read form: position and tag always come from the dummy or from
     one candidate of dimension <= n-1; the error is the candidate's or +inf *)
  Corollary search_returns_candidate_fields :
    forall n, 1 <= n ->
      let r := bounded_search Q n lo hi cands in
      r = dummy n \/
      exists j, j < 3 ^ n /\ dimension n j <= n - 1 /\
        c_pos r = c_pos (cands j) /\ c_tag r = c_tag (cands j) /\
        (c_err r = c_err (cands j) \/ c_err r = q_inf Q).
  Proof.
    intros n Hn r. subst r.
    destruct (search_returns_candidate n Hn) as [[Hr _] | [j [Hj [Hd Hc]]]].
    - left. exact Hr.
    - right. exists j. split; [exact Hj|]. split; [exact Hd|].
      destruct Hc as [[Hr _] | [Hr _]]; rewrite Hr.
      + repeat split. left. reflexivity.
      + repeat split. right. reflexivity.
  Qed.

  (* ---- corners are inside the box ---- *)
  Lemma contains_nth :
    forall (l h p : @vec num) n,
      length l = n -> length h = n -> length p = n ->
      (forall a, a < n ->
         q_leb Q (nth a l (q_zero Q)) (nth a p (q_zero Q)) = true /\
         q_leb Q (nth a p (q_zero Q)) (nth a h (q_zero Q)) = true) ->
      contains Q l h p = true.
  Proof.
    induction l as [|x l IH]; intros h p n Hl Hh Hp H.
    - reflexivity.
    - destruct h as [|y h]; [cbn in *; lia|].
      destruct p as [|z p]; [cbn in *; lia|].
      destruct n as [|n]; [cbn in *; lia|].
      unfold contains. cbn [combine forallb fst snd].
      destruct (H 0 ltac:(lia)) as [H1 H2]. cbn [nth] in H1, H2.
      rewrite H1, H2. cbn [andb].
      apply (IH h p n); cbn in *; try lia.
      intros a Ha. apply (H (S a)). lia.
  Qed.

  Lemma corner_contained :
    forall n j p,
      length lo = n -> length hi = n -> box_ok n ->
      pinned_ok Q n lo hi j p -> dimension n j = 0 ->
      contains Q lo hi p = true.
  Proof.
    intros n j p Hlo Hhi Hbox [Hlen Hpin] Hdim.
    apply (contains_nth lo hi p n Hlo Hhi Hlen).
    intros a Ha.
    destruct (Hbox a Ha) as [Hll [Hlh Hhh]].
    destruct (Hpin a Ha) as [H0 H1].
    destruct (dimension0_digits n j a Hdim Ha) as [E|E].
    - rewrite (H0 E). split; assumption.
    - rewrite (H1 E). split; assumption.
  Qed.

  (* ---- Goal 3 ---- *)
  Section InBox.
    Variable n : nat.
    Hypothesis Hn : 1 <= n.
    Hypothesis Hlo : length lo = n.
    Hypothesis Hhi : length hi = n.
    Hypothesis Hbox : box_ok n.
    Hypothesis Hpin : forall j, j < 3 ^ n -> pinned_ok Q n lo hi j (c_pos (cands j)).
    (* the corner errors are comparable: strictly below +inf (in particular not NaN) *)
    Hypothesis Hcorner :
      forall j, j < 3 ^ n -> dimension n j = 0 ->
        q_ltb Q (c_err (cands j)) (q_inf Q) = true.

    Lemma corner0_improves :
      forall out, c_err out = q_inf Q -> improves Q lo hi (cands 0) out = true.
    Proof.
      intros out Hinf. unfold improves. rewrite Hinf.
      rewrite (Hcorner 0 (pow3_pos n) (dimension_0 n)). reflexivity.
    Qed.

    (* in the situation of Goal 3 the result is the (contained) dummy, which no
       (n-1)-dimensional candidate improved, or exactly a contained candidate *)
    Theorem search_returns_candidate_in_box :
      let r := bounded_search Q n lo hi cands in
      (r = dummy n /\ contains Q lo hi (c_pos (dummy n)) = true /\
       forall j, j < 3 ^ n -> dimension n j = n - 1 ->
                 improves Q lo hi (cands j) (dummy n) = false)
      \/
      (exists j, j < 3 ^ n /\ dimension n j <= n - 1 /\ r = cands j /\
                 pinned_ok Q n lo hi j (c_pos r) /\ contains Q lo hi (c_pos r) = true).
    Proof.
      intro r. subst r.
      destruct (search_returns_candidate n Hn) as [[Hr [Hn1 Hn2]] | [j [Hj [Hd Hc]]]].
      - left. split; [exact Hr|].
        destruct (contains Q lo hi (c_pos (dummy n))) eqn:Ec.
        + split; [reflexivity | exact Hn1].
        + exfalso.
          pose proof (Hn2 eq_refl 0 (pow3_pos n) ltac:(rewrite dimension_0; lia)) as Hf.
          rewrite (corner0_improves (dummy n) eq_refl) in Hf. discriminate Hf.
      - right. destruct Hc as [[Hr Hc] | [Hr [Hc Hno]]].
        + exists j. rewrite Hr.
          split; [exact Hj|]. split; [exact Hd|]. split; [reflexivity|].
          split; [apply Hpin; exact Hj | exact Hc].
        + exfalso.
          destruct (Nat.eq_dec (dimension n j) 0) as [E|E].
          * rewrite (corner_contained n j _ Hlo Hhi Hbox (Hpin j Hj) E) in Hc.
            discriminate Hc.
          * pose proof (Hno 0 (pow3_pos n) ltac:(rewrite dimension_0; lia)) as Hf.
            rewrite (corner0_improves (reset (cands j)) eq_refl) in Hf. discriminate Hf.
    Qed.

    Theorem bounded_in_box :
      contains Q lo hi (c_pos (bounded_search Q n lo hi cands)) = true.
    Proof.
      destruct search_returns_candidate_in_box as [[Hr [Hc _]] | [j [_ [_ [_ [_ Hc]]]]]].
      - rewrite Hr. exact Hc.
      - exact Hc.
    Qed.

    (* if moreover one (n-1)-dimensional candidate has a comparable error (here:
       the face with index 3^n - 3; any other would do), the dummy is never returned *)
    Theorem search_returns_true_candidate :
      forall j0, j0 < 3 ^ n -> dimension n j0 = n - 1 ->
        q_ltb Q (c_err (cands j0)) (q_inf Q) = true ->
        exists j, j < 3 ^ n /\ dimension n j <= n - 1 /\
          bounded_search Q n lo hi cands = cands j /\
          pinned_ok Q n lo hi j (c_pos (cands j)) /\
          contains Q lo hi (c_pos (cands j)) = true.
    Proof.
      intros j0 Hj0 Hd0 Hlt.
      destruct search_returns_candidate_in_box as [[_ [_ Hno]] | [j [Hj [Hd [Hr [Hp Hc]]]]]].
      - exfalso. pose proof (Hno j0 Hj0 Hd0) as Hf.
        unfold improves in Hf. cbn [dummy c_err] in Hf. rewrite Hlt in Hf. discriminate Hf.
      - exists j. rewrite Hr in Hp, Hc.
        split; [exact Hj|]. split; [exact Hd|]. split; [exact Hr|]. split; assumption.
    Qed.
  End InBox.

  (* record form of the hypotheses: q_leb reflexive + lo <= hi componentwise *)
  Corollary bounded_in_box_refl :
    forall n, order_facts -> 1 <= n -> length lo = n -> length hi = n ->
      (forall a, a < n -> q_leb Q (nth a lo (q_zero Q)) (nth a hi (q_zero Q)) = true) ->
      (forall j, j < 3 ^ n -> pinned_ok Q n lo hi j (c_pos (cands j))) ->
      (forall j, j < 3 ^ n -> dimension n j = 0 ->
                 q_ltb Q (c_err (cands j)) (q_inf Q) = true) ->
      contains Q lo hi (c_pos (bounded_search Q n lo hi cands)) = true.
  Proof.
    intros n [Hrefl] Hn Hlo Hhi Hle Hpin Hc.
    apply bounded_in_box; try assumption.
    intros a Ha. repeat split; [apply Hrefl | apply Hle; exact Ha | apply Hrefl].
  Qed.

End Search.

(* ====================================================================== *)
(* Concrete instances: a 3-valued toy number type with NaN and +inf        *)
(* ====================================================================== *)

Inductive tnum : Type := TNaN | TInf | TFin (z : Z).

Definition t_add (a b : tnum) : tnum :=
  match a, b with
  | TFin x, TFin y => TFin (x + y)
  | TNaN, _ | _, TNaN => TNaN
  | _, _ => TInf
  end.
Definition t_sub (a b : tnum) : tnum :=
  match a, b with
  | TFin x, TFin y => TFin (x - y)
  | TInf, TFin _ => TInf
  | _, _ => TNaN
  end.
Definition t_mul (a b : tnum) : tnum :=
  match a, b with
  | TFin x, TFin y => TFin (x * y)
  | TNaN, _ | _, TNaN => TNaN
  | _, _ => TInf
  end.
(* every comparison involving NaN is false, as for IEEE doubles *)
Definition t_ltb (a b : tnum) : bool :=
  match a, b with
  | TFin x, TFin y => Z.ltb x y
  | TFin _, TInf => true
  | _, _ => false
  end.
Definition t_leb (a b : tnum) : bool :=
  match a, b with
  | TFin x, TFin y => Z.leb x y
  | TFin _, TInf => true
  | TInf, TInf => true
  | _, _ => false
  end.
Definition t_eqb (a b : tnum) : bool :=
  match a, b with
  | TFin x, TFin y => Z.eqb x y
  | TInf, TInf => true
  | _, _ => false
  end.

Definition TQ : @qops tnum :=
  Build_qops (TFin 0) (TFin 1) (TFin (-1)) (TFin 2) TInf t_add t_sub t_mul t_ltb t_leb t_eqb.

Lemma TQ_nan_incomparable :
  forall a, q_ltb TQ TNaN a = false /\ q_ltb TQ a TNaN = false /\
            q_eqb TQ TNaN a = false /\ q_eqb TQ a TNaN = false /\
            q_leb TQ TNaN a = false /\ q_leb TQ a TNaN = false.
Proof. intros [| |z]; repeat split; reflexivity. Qed.

Ltac pin_tac :=
  split;
  [ reflexivity
  | let a := fresh "a" in let Ha := fresh "Ha" in let H := fresh "H" in
    intros a Ha;
    repeat (destruct a as [|a];
            [ vm_compute; split; intro H; (reflexivity || discriminate H)
            | try (exfalso; lia) ]) ].

(* ---- Goal 5 : all candidate errors NaN (what a QEF with zero samples produces):
        the search returns the dummy origin, outside the box, with error +inf.
        Every premise of [bounded_in_box] holds except the comparability of the
        corner errors. ---- *)
Definition zs_lo : @vec tnum := [TFin 1].
Definition zs_hi : @vec tnum := [TFin 2].
Definition zs_cands (j : nat) : @cand tnum :=
  match j with
  | 0 => {| c_pos := [TFin 1]; c_err := TNaN; c_tag := 0 |}
  | 1 => {| c_pos := [TFin 2]; c_err := TNaN; c_tag := 1 |}
  | _ => {| c_pos := [TFin 5]; c_err := TNaN; c_tag := j |}
  end.

Theorem zero_sample_failure :
  let r := bounded_search TQ 1 zs_lo zs_hi zs_cands in
  (* premises of bounded_in_box, except comparability *)
  1 <= 1 /\ length zs_lo = 1 /\ length zs_hi = 1 /\
  box_ok TQ zs_lo zs_hi 1 /\
  (forall j, j < 3 ^ 1 -> pinned_ok TQ 1 zs_lo zs_hi j (c_pos (zs_cands j))) /\
  (forall j, c_err (zs_cands j) = TNaN) /\
  (* conclusion fails *)
  r = dummy TQ 1 /\
  c_pos r = [TFin 0] /\ c_err r = TInf /\
  contains TQ zs_lo zs_hi (c_pos r) = false.
Proof.
  cbv zeta. split; [lia|]. split; [reflexivity|]. split; [reflexivity|].
  split.
  { intros a Ha. destruct a as [|a]; [|exfalso; lia]. vm_compute. repeat split. }
  split.
  { intros j Hj. change (3 ^ 1) with 3 in Hj.
    do 3 (destruct j as [|j]; [pin_tac|]). exfalso; lia. }
  split.
  { intro j. do 2 (destruct j as [|j]; [reflexivity|]). reflexivity. }
  vm_compute. repeat split.
Qed.

(* ---- Goal 6 : n = 2, box [0,10]^2; the four edge candidates escape the box, the
        best of them (index 2) is rejected, the search descends to the corners and
        returns the best corner (index 1, position (10,0), error 5). ---- *)
Definition de_lo : @vec tnum := [TFin 0; TFin 0].
Definition de_hi : @vec tnum := [TFin 10; TFin 10].
Definition de_cands (j : nat) : @cand tnum :=
  match j with
  | 0 => {| c_pos := [TFin 0;  TFin 0];  c_err := TFin 7; c_tag := 0 |}
  | 1 => {| c_pos := [TFin 10; TFin 0];  c_err := TFin 5; c_tag := 1 |}
  | 2 => {| c_pos := [TFin 15; TFin 0];  c_err := TFin 1; c_tag := 2 |}
  | 3 => {| c_pos := [TFin 0;  TFin 10]; c_err := TFin 6; c_tag := 3 |}
  | 4 => {| c_pos := [TFin 10; TFin 10]; c_err := TFin 9; c_tag := 4 |}
  | 5 => {| c_pos := [TFin (-3); TFin 10]; c_err := TFin 2; c_tag := 5 |}
  | 6 => {| c_pos := [TFin 0;  TFin 12]; c_err := TFin 3; c_tag := 6 |}
  | 7 => {| c_pos := [TFin 10; TFin (-1)]; c_err := TFin 4; c_tag := 7 |}
  | _ => {| c_pos := [TFin 20; TFin 20]; c_err := TFin 0; c_tag := j |}
  end.

Lemma de_pinned : forall j, j < 3 ^ 2 -> pinned_ok TQ 2 de_lo de_hi j (c_pos (de_cands j)).
Proof.
  intros j Hj. change (3 ^ 2) with 9 in Hj.
  do 9 (destruct j as [|j]; [pin_tac|]). exfalso; lia.
Qed.

Theorem descend_example :
  (* the edge pass picks candidate 2, which is outside the box *)
  sub_pass TQ 2 1 de_lo de_hi de_cands (3 ^ 2) (dummy TQ 2) = de_cands 2 /\
  dimension 2 2 = 1 /\
  contains TQ de_lo de_hi (c_pos (de_cands 2)) = false /\
  (* the result is the corner 1 *)
  bounded_search TQ 2 de_lo de_hi de_cands = de_cands 1 /\
  dimension 2 1 = 0 /\
  contains TQ de_lo de_hi (c_pos (de_cands 1)) = true.
Proof. vm_compute. repeat split. Qed.

(* the hypotheses of bounded_in_box hold for this example (non-vacuity) *)
Theorem descend_example_hyps :
  1 <= 2 /\ length de_lo = 2 /\ length de_hi = 2 /\ box_ok TQ de_lo de_hi 2 /\
  (forall j, j < 3 ^ 2 -> pinned_ok TQ 2 de_lo de_hi j (c_pos (de_cands j))) /\
  (forall j, j < 3 ^ 2 -> dimension 2 j = 0 ->
             q_ltb TQ (c_err (de_cands j)) (q_inf TQ) = true).
Proof.
  split; [lia|]. split; [reflexivity|]. split; [reflexivity|].
  split.
  { intros a Ha. do 2 (destruct a as [|a]; [vm_compute; repeat split|]). exfalso; lia. }
  split; [exact de_pinned|].
  intros j Hj _. change (3 ^ 2) with 9 in Hj.
  do 9 (destruct j as [|j]; [reflexivity|]). exfalso; lia.
Qed.

(* ---- the first disjunct of [search_returns_candidate_in_box] is reachable:
        n = 2, box [-1,1]^2 containing the origin, NaN errors on the four edges,
        finite errors on the corners: all hypotheses of [bounded_in_box] hold, the
        result is inside the box, but it is the dummy origin with error +inf, not a
        candidate (the C++ assert(!isinf(out.error)) would fire). ---- *)
Definition di_lo : @vec tnum := [TFin (-1); TFin (-1)].
Definition di_hi : @vec tnum := [TFin 1; TFin 1].
Definition di_cands (j : nat) : @cand tnum :=
  match j with
  | 0 => {| c_pos := [TFin (-1); TFin (-1)]; c_err := TFin 7; c_tag := 0 |}
  | 1 => {| c_pos := [TFin 1;  TFin (-1)];  c_err := TFin 5; c_tag := 1 |}
  | 2 => {| c_pos := [TFin 0;  TFin (-1)];  c_err := TNaN; c_tag := 2 |}
  | 3 => {| c_pos := [TFin (-1); TFin 1]; c_err := TFin 6; c_tag := 3 |}
  | 4 => {| c_pos := [TFin 1; TFin 1]; c_err := TFin 9; c_tag := 4 |}
  | 5 => {| c_pos := [TFin 0; TFin 1]; c_err := TNaN; c_tag := 5 |}
  | 6 => {| c_pos := [TFin (-1);  TFin 0]; c_err := TNaN; c_tag := 6 |}
  | 7 => {| c_pos := [TFin 1; TFin 0]; c_err := TNaN; c_tag := 7 |}
  | _ => {| c_pos := [TFin 20; TFin 20]; c_err := TFin 0; c_tag := j |}
  end.

Theorem dummy_inside_box_returned :
  1 <= 2 /\ length di_lo = 2 /\ length di_hi = 2 /\ box_ok TQ di_lo di_hi 2 /\
  (forall j, j < 3 ^ 2 -> pinned_ok TQ 2 di_lo di_hi j (c_pos (di_cands j))) /\
  (forall j, j < 3 ^ 2 -> dimension 2 j = 0 ->
             q_ltb TQ (c_err (di_cands j)) (q_inf TQ) = true) /\
  bounded_search TQ 2 di_lo di_hi di_cands = dummy TQ 2 /\
  c_err (bounded_search TQ 2 di_lo di_hi di_cands) = TInf /\
  c_tag (bounded_search TQ 2 di_lo di_hi di_cands) = 9.
Proof.
  split; [lia|]. split; [reflexivity|]. split; [reflexivity|].
  split.
  { intros a Ha. do 2 (destruct a as [|a]; [vm_compute; repeat split|]). exfalso; lia. }
  split.
  { intros j Hj. change (3 ^ 2) with 9 in Hj.
    do 9 (destruct j as [|j]; [pin_tac|]). exfalso; lia. }
  split.
  { intros j Hj Hd. change (3 ^ 2) with 9 in Hj.
    do 9 (destruct j as [|j]; [first [reflexivity | vm_compute in Hd; discriminate Hd]|]).
    exfalso; lia. }
  vm_compute. repeat split.
Qed.

(* ====================================================================== *)
(* Part A : algebra of the accumulated QEF over the reals                  *)
(* ====================================================================== *)

Section RealAlgebra.
  Local Open Scope R_scope.

  (* the reals have no +inf; the algebra below is independent of the stand-in *)
  Variable rinf : R.

  Definition Rltb (a b : R) : bool := if Rlt_dec a b then true else false.
  Definition Rleb (a b : R) : bool := if Rle_dec a b then true else false.
  Definition Reqb (a b : R) : bool := if Req_EM_T a b then true else false.

  Definition RQ : @qops R :=
    Build_qops 0 1 (-1) 2 rinf Rplus Rminus Rmult Rltb Rleb Reqb.

  Notation rvec := (list R).
  Notation rmat := (list (list R)).

  (* ---- clean recursive sum / dot ---- *)
  Fixpoint rsum (l : rvec) : R :=
    match l with [] => 0 | x :: t => x + rsum t end.
  Fixpoint rdot (a b : rvec) : R :=
    match a, b with
    | x :: a', y :: b' => x * y + rdot a' b'
    | _, _ => 0
    end.

  Lemma fold_left_Rplus : forall l a, fold_left Rplus l a = a + rsum l.
  Proof.
    induction l as [|x t IH]; intro a; cbn [fold_left rsum].
    - ring.
    - rewrite IH. ring.
  Qed.

  Lemma vsum_rsum : forall l, vsum RQ l = rsum l.
  Proof.
    intro l. change (fold_left Rplus l 0 = rsum l). rewrite fold_left_Rplus. ring.
  Qed.

  Lemma rsum_mulcombine :
    forall a b, rsum (map (fun t => fst t * snd t) (combine a b)) = rdot a b.
  Proof.
    induction a as [|x a IH]; intros [|y b]; cbn [combine map rsum rdot fst snd];
      try reflexivity.
    rewrite IH. reflexivity.
  Qed.

  Lemma dot_rdot : forall a b, dot RQ a b = rdot a b.
  Proof.
    intros a b. unfold dot. rewrite vsum_rsum.
    change (rsum (map (fun t => fst t * snd t) (combine a b)) = rdot a b).
    apply rsum_mulcombine.
  Qed.

  Lemma rdot_nil_r : forall a, rdot a [] = 0.
  Proof. intros [|x a]; reflexivity. Qed.

  Lemma rdot_comm : forall a b, rdot a b = rdot b a.
  Proof.
    induction a as [|x a IH]; intros [|y b]; cbn [rdot]; try reflexivity.
    rewrite IH. ring.
  Qed.

  Lemma rdot_app :
    forall a b c d, length a = length b ->
      rdot (a ++ c) (b ++ d) = rdot a b + rdot c d.
  Proof.
    induction a as [|x a IH]; intros [|y b] c d H; cbn in H; try discriminate H.
    - cbn [app rdot]. ring.
    - cbn [app rdot]. rewrite IH by (injection H; auto). ring.
  Qed.

  Lemma rdot_scale_l :
    forall c b y, rdot (map (fun t => c * t) b) y = c * rdot b y.
  Proof.
    intros c. induction b as [|x b IH]; intros [|y0 y]; cbn [map rdot]; try ring.
    rewrite IH. ring.
  Qed.

  Lemma rdot_map_scale_r :
    forall c x a, rdot x (map (fun t => t * c) a) = rdot x a * c.
  Proof.
    intros c. induction x as [|x0 x IH]; intros [|a0 a]; cbn [map rdot]; try ring.
    rewrite IH. ring.
  Qed.

  Lemma rdot_repeat0_l : forall k y, rdot (repeat 0 k) y = 0.
  Proof.
    induction k as [|k IH]; intros [|y0 y]; cbn [repeat rdot]; try reflexivity.
    rewrite IH. ring.
  Qed.

  Lemma rdot_repeat0_r : forall k x, rdot x (repeat 0 k) = 0.
  Proof. intros k x. rewrite rdot_comm. apply rdot_repeat0_l. Qed.

  Lemma ones_S : forall N, ones RQ (S N) = 1 :: ones RQ N.
  Proof. reflexivity. Qed.

  Lemma rdot_ones_r : forall l N, length l = N -> rdot l (ones RQ N) = rsum l.
  Proof.
    induction l as [|x l IH]; intros N H.
    - reflexivity.
    - destruct N as [|N]; [cbn in H; discriminate H|].
      rewrite ones_S. cbn [rdot rsum]. rewrite (IH N) by (cbn in H; lia). ring.
  Qed.

  (* ---- vadd / madd / outer / mvec ---- *)
  Lemma vadd_cons :
    forall x a y b, vadd RQ (x :: a) (y :: b) = (x + y) :: vadd RQ a b.
  Proof. reflexivity. Qed.

  Lemma vadd_length : forall a b, length (vadd RQ a b) = Nat.min (length a) (length b).
  Proof. intros a b. unfold vadd. rewrite map_length. apply combine_length. Qed.

  Lemma madd_cons :
    forall r A s B, madd RQ (r :: A) (s :: B) = vadd RQ r s :: madd RQ A B.
  Proof. reflexivity. Qed.

  Lemma madd_length : forall A B, length (madd RQ A B) = Nat.min (length A) (length B).
  Proof. intros A B. unfold madd. rewrite map_length. apply combine_length. Qed.

  Lemma mvec_cons :
    forall r A y, mvec RQ (r :: A) y = rdot r y :: mvec RQ A y.
  Proof. intros r A y. unfold mvec. cbn [map]. rewrite dot_rdot. reflexivity. Qed.

  Lemma mvec_length : forall A y, length (mvec RQ A y) = length A.
  Proof. intros A y. unfold mvec. apply map_length. Qed.

  Lemma outer_cons :
    forall x a b, outer RQ (x :: a) b = map (fun t => x * t) b :: outer RQ a b.
  Proof. reflexivity. Qed.

  Lemma outer_length : forall a b, length (outer RQ a b) = length a.
  Proof. intros a b. unfold outer. apply map_length. Qed.

  Lemma rdot_vadd_r :
    forall x u w, length u = length w ->
      rdot x (vadd RQ u w) = rdot x u + rdot x w.
  Proof.
    induction x as [|x0 x IH]; intros u w H.
    - cbn [rdot]. ring.
    - destruct u as [|u0 u]; destruct w as [|w0 w]; cbn in H; try discriminate H.
      + change (vadd RQ [] []) with (@nil R). cbn [rdot]. ring.
      + rewrite vadd_cons. cbn [rdot]. rewrite IH by (injection H; auto). ring.
  Qed.

  Lemma rdot_vadd_l :
    forall x u w, length u = length w ->
      rdot (vadd RQ u w) x = rdot u x + rdot w x.
  Proof.
    intros x u w H. rewrite rdot_comm, (rdot_comm u), (rdot_comm w).
    apply rdot_vadd_r. exact H.
  Qed.

  Lemma mvec_madd :
    forall A B y,
      Forall2 (fun r s : rvec => length r = length s) A B ->
      mvec RQ (madd RQ A B) y = vadd RQ (mvec RQ A y) (mvec RQ B y).
  Proof.
    intros A B y H. induction H as [|r s A B Hrs _ IH].
    - reflexivity.
    - rewrite madd_cons, !mvec_cons, vadd_cons, IH.
      rewrite rdot_vadd_l by exact Hrs. reflexivity.
  Qed.

  Lemma mvec_outer :
    forall a b y, mvec RQ (outer RQ a b) y = map (fun t => t * rdot b y) a.
  Proof.
    induction a as [|x a IH]; intros b y.
    - reflexivity.
    - rewrite outer_cons, mvec_cons, IH. cbn [map]. rewrite rdot_scale_l. reflexivity.
  Qed.

  (* ---- shapes ---- *)
  Definition rows_len (N : nat) (M : rmat) : Prop := Forall (fun r => length r = N) M.
  Definition shape (N : nat) (M : rmat) : Prop := length M = N /\ rows_len N M.

  Lemma rows_Forall2 :
    forall N A B, length A = length B -> rows_len N A -> rows_len N B ->
      Forall2 (fun r s : rvec => length r = length s) A B.
  Proof.
    intros N. induction A as [|r A IH]; intros [|s B] HL HA HB; cbn in HL;
      try discriminate HL.
    - constructor.
    - constructor.
      + pose proof (Forall_inv HA) as H1. pose proof (Forall_inv HB) as H2.
        cbv beta in H1, H2. congruence.
      + apply IH; [injection HL; auto | exact (Forall_inv_tail HA) | exact (Forall_inv_tail HB)].
  Qed.

  Lemma rows_madd :
    forall N A B, rows_len N A -> rows_len N B -> rows_len N (madd RQ A B).
  Proof.
    intros N. induction A as [|r A IH]; intros [|s B] HA HB; try constructor.
    - rewrite vadd_length.
      pose proof (Forall_inv HA) as H1. pose proof (Forall_inv HB) as H2.
      cbv beta in H1, H2. cbn [fst snd]. rewrite H1, H2. apply Nat.min_id.
    - apply IH; [exact (Forall_inv_tail HA) | exact (Forall_inv_tail HB)].
  Qed.

  Lemma shape_madd :
    forall N A B, shape N A -> shape N B -> shape N (madd RQ A B).
  Proof.
    intros N A B [LA RA] [LB RB]. split.
    - rewrite madd_length. cbv beta delta [vec] in *. rewrite LA, LB. apply Nat.min_id.
    - apply rows_madd; assumption.
  Qed.

  Lemma shape_outer :
    forall N a b, length a = N -> length b = N -> shape N (outer RQ a b).
  Proof.
    intros N a b Ha Hb. split.
    - rewrite outer_length. exact Ha.
    - unfold rows_len, outer. apply Forall_forall. intros r Hr.
      apply in_map_iff in Hr. destruct Hr as [x [<- _]]. rewrite map_length. exact Hb.
  Qed.

  Lemma shape_mzero : forall N, shape N (mzero RQ N).
  Proof.
    intro N. unfold mzero. split.
    - apply repeat_length.
    - apply Forall_forall. intros r Hr. apply repeat_spec in Hr. subst r.
      apply repeat_length.
  Qed.

  (* x^T (A + a b^T) y = x^T A y + (x.a)(b.y) *)
  Lemma bil_madd_outer :
    forall N A a b x y,
      shape N A -> length a = N -> length b = N ->
      rdot x (mvec RQ (madd RQ A (outer RQ a b)) y)
      = rdot x (mvec RQ A y) + rdot x a * rdot b y.
  Proof.
    intros N A a b x y [LA RA] Ha Hb.
    destruct (shape_outer N a b Ha Hb) as [LO RO].
    rewrite mvec_madd
      by (apply (rows_Forall2 N);
          [cbv beta delta [vec mat] in *; congruence | assumption | assumption]).
    rewrite rdot_vadd_r
      by (rewrite !mvec_length; cbv beta delta [vec mat] in *; congruence).
    rewrite mvec_outer, rdot_map_scale_r. reflexivity.
  Qed.

  Lemma mvec_mzero_gen :
    forall k m y, mvec RQ (repeat (repeat 0 m) k) y = repeat 0 k.
  Proof.
    induction k as [|k IH]; intros m y.
    - reflexivity.
    - cbn [repeat]. rewrite mvec_cons, IH, rdot_repeat0_l. reflexivity.
  Qed.

  (* ---- the QEF ---- *)
  Definition wf (N : nat) (q : @qef R) : Prop :=
    shape N (AtA q) /\ shape N (AtBp q) /\ shape N (BptBp q).

  Definition nI (nrm : rvec) : rvec := nrm ++ [-1].
  Definition bP (p nrm : rvec) (v : R) : rvec :=
    map (fun t => fst t * snd t) (combine (nrm ++ [-1]) (p ++ [v])).

  Lemma insert_R :
    forall q p nrm v,
      insert RQ q p nrm v =
      {| AtA := madd RQ (AtA q) (outer RQ (nI nrm) (nI nrm));
         AtBp := madd RQ (AtBp q) (outer RQ (nI nrm) (bP p nrm v));
         BptBp := madd RQ (BptBp q) (outer RQ (bP p nrm v) (bP p nrm v)) |}.
  Proof. reflexivity. Qed.

  Lemma nI_length : forall n nrm, length nrm = n -> length (nI nrm) = S n.
  Proof. intros n nrm H. unfold nI. rewrite app_length, H. cbn. lia. Qed.

  Lemma bP_length :
    forall n p nrm v, length p = n -> length nrm = n -> length (bP p nrm v) = S n.
  Proof.
    intros n p nrm v Hp Hn. unfold bP.
    rewrite map_length, combine_length, !app_length, Hp, Hn. cbn. lia.
  Qed.

  Lemma wf_qef0 : forall n, wf (S n) (qef0 RQ n).
  Proof. intro n. repeat split; apply shape_mzero. Qed.

  Lemma wf_insert :
    forall n q p nrm v, length p = n -> length nrm = n ->
      wf (S n) q -> wf (S n) (insert RQ q p nrm v).
  Proof.
    intros n q p nrm v Hp Hn [HA [HB HC]]. rewrite insert_R.
    pose proof (nI_length n nrm Hn). pose proof (bP_length n p nrm v Hp Hn).
    split; [|split]; cbn [AtA AtBp BptBp]; apply shape_madd; try assumption;
      apply shape_outer; assumption.
  Qed.

  Lemma qerror_R :
    forall q pos value,
      qerror RQ q pos value =
      let x := pos ++ [value] in
      let one := ones RQ (length x) in
      rdot x (mvec RQ (AtA q) x) - 2 * rdot x (mvec RQ (AtBp q) one)
      + rdot one (mvec RQ (BptBp q) one).
  Proof.
    intros q pos value. unfold qerror. cbv zeta. rewrite !dot_rdot. reflexivity.
  Qed.

  Definition sq (t : R) : R := t * t.

  (* residual of the sample (p, nrm, v) at (pos, value):
       (nrm.pos - value) - (nrm.p - v)                                        *)
  Definition resid (pos : rvec) (value : R) (p nrm : rvec) (v : R) : R :=
    dot RQ nrm pos - value - (dot RQ nrm p - v).

  Lemma insert_step :
    forall n q p nrm v pos value,
      wf (S n) q -> length p = n -> length nrm = n -> length pos = n ->
      qerror RQ (insert RQ q p nrm v) pos value
      = qerror RQ q pos value + sq (resid pos value p nrm v).
  Proof.
    intros n q p nrm v pos value [HA [HB HC]] Hp Hn Hpos.
    rewrite !qerror_R, insert_R. cbv zeta. cbn [AtA AtBp BptBp].
    assert (HL : length (pos ++ [value]) = S n) by (rewrite app_length, Hpos; cbn; lia).
    rewrite HL.
    pose proof (nI_length n nrm Hn) as HnI.
    pose proof (bP_length n p nrm v Hp Hn) as HbP.
    rewrite (bil_madd_outer (S n)) by assumption.
    rewrite (bil_madd_outer (S n)) by assumption.
    rewrite (bil_madd_outer (S n)) by assumption.
    assert (E1 : rdot (pos ++ [value]) (nI nrm) = rdot nrm pos - value).
    { unfold nI. rewrite rdot_app by congruence. cbn [rdot]. rewrite (rdot_comm pos). ring. }
    assert (E2 : rdot (bP p nrm v) (ones RQ (S n)) = rdot nrm p - v).
    { rewrite rdot_ones_r by exact HbP. unfold bP. rewrite rsum_mulcombine.
      rewrite rdot_app by congruence. cbn [rdot]. ring. }
    rewrite (rdot_comm (nI nrm) (pos ++ [value])).
    rewrite (rdot_comm (ones RQ (S n)) (bP p nrm v)).
    rewrite E1, E2. unfold sq, resid. rewrite !dot_rdot. ring.
  Qed.

  Lemma qerror_qef0 : forall n pos value, qerror RQ (qef0 RQ n) pos value = 0.
  Proof.
    intros n pos value. rewrite qerror_R. cbv zeta.
    unfold qef0. cbn [AtA AtBp BptBp]. unfold mzero.
    change (q_zero RQ) with 0.
    rewrite !mvec_mzero_gen, !rdot_repeat0_r. ring.
  Qed.

  (* ---- samples ---- *)
  Definition sample : Type := (rvec * rvec * R)%type.   (* position, normal, value *)
  Definition s_pos (s : sample) : rvec := fst (fst s).
  Definition s_nrm (s : sample) : rvec := snd (fst s).
  Definition s_val (s : sample) : R := snd s.

  Definition ins (q : @qef R) (s : sample) : qef :=
    insert RQ q (s_pos s) (s_nrm s) (s_val s).
  Definition accum (ss : list sample) (q : @qef R) : qef := fold_left ins ss q.

  Definition sample_dim (n : nat) (s : sample) : Prop :=
    length (s_pos s) = n /\ length (s_nrm s) = n.

  (* sum over the samples of the squared residuals *)
  Definition SS (ss : list sample) (pos : rvec) (value : R) : R :=
    fold_right (fun s acc => sq (resid pos value (s_pos s) (s_nrm s) (s_val s)) + acc) 0 ss.

  Lemma accum_error :
    forall n ss q pos value,
      Forall (sample_dim n) ss -> wf (S n) q -> length pos = n ->
      qerror RQ (accum ss q) pos value = qerror RQ q pos value + SS ss pos value.
  Proof.
    intros n ss. induction ss as [|s ss IH]; intros q pos value Hss Hq Hpos.
    - cbn [accum fold_left SS fold_right]. ring.
    - destruct (Forall_inv Hss) as [Hsp Hsn]. pose proof (Forall_inv_tail Hss) as Hss'.
      change (accum (s :: ss) q) with (accum ss (ins q s)).
      rewrite IH; [| assumption | apply wf_insert; assumption | assumption].
      unfold ins. rewrite (insert_step n) by assumption.
      cbn [SS fold_right]. fold (SS ss pos value). ring.
  Qed.

  (* ---- Goal 1 ---- *)
  Theorem error_is_sum_of_squares :
    forall n ss pos value,
      Forall (sample_dim n) ss -> length pos = n ->
      qerror RQ (accum ss (qef0 RQ n)) pos value = SS ss pos value.
  Proof.
    intros n ss pos value Hss Hpos.
    rewrite (accum_error n) by (try assumption; apply wf_qef0).
    rewrite qerror_qef0. ring.
  Qed.

  Lemma SS_nonneg : forall ss pos value, 0 <= SS ss pos value.
  Proof.
    induction ss as [|s ss IH]; intros pos value; cbn [SS fold_right].
    - lra.
    - fold (SS ss pos value). specialize (IH pos value).
      pose proof (Rle_0_sqr (resid pos value (s_pos s) (s_nrm s) (s_val s))) as H.
      unfold Rsqr in H. unfold sq. lra.
  Qed.

  Theorem error_nonneg :
    forall n ss pos value,
      Forall (sample_dim n) ss -> length pos = n ->
      0 <= qerror RQ (accum ss (qef0 RQ n)) pos value.
  Proof.
    intros n ss pos value Hss Hpos.
    rewrite (error_is_sum_of_squares n) by assumption. apply SS_nonneg.
  Qed.

  (* ---- Goal 2 : order independence, as an equality of the matrices ---- *)
  Lemma vadd_swap :
    forall a x y, vadd RQ (vadd RQ a x) y = vadd RQ (vadd RQ a y) x.
  Proof.
    induction a as [|a0 a IH]; intros [|x0 x] [|y0 y]; try reflexivity.
    rewrite !vadd_cons. f_equal; [ring | apply IH].
  Qed.

  Lemma madd_swap :
    forall A X Y, madd RQ (madd RQ A X) Y = madd RQ (madd RQ A Y) X.
  Proof.
    induction A as [|r A IH]; intros [|x X] [|y Y]; try reflexivity.
    rewrite !madd_cons. f_equal; [apply vadd_swap | apply IH].
  Qed.

  Lemma ins_swap : forall q s t, ins (ins q s) t = ins (ins q t) s.
  Proof.
    intros q s t. unfold ins. rewrite !insert_R. cbn [AtA AtBp BptBp].
    f_equal; apply madd_swap.
  Qed.

  Theorem insert_perm_eq :
    forall ss ss', Permutation ss ss' -> forall q, accum ss q = accum ss' q.
  Proof.
    intros ss ss' H. induction H as [|s l l' _ IH|s t l|l l' l'' _ IH1 _ IH2]; intro q.
    - reflexivity.
    - unfold accum in *. cbn [fold_left]. apply IH.
    - unfold accum. cbn [fold_left]. rewrite ins_swap. reflexivity.
    - rewrite IH1. apply IH2.
  Qed.

  (* entrywise form *)
  Corollary insert_perm_entries :
    forall n ss ss' i j, Permutation ss ss' ->
      nth j (nth i (AtA (accum ss (qef0 RQ n))) []) 0
        = nth j (nth i (AtA (accum ss' (qef0 RQ n))) []) 0 /\
      nth j (nth i (AtBp (accum ss (qef0 RQ n))) []) 0
        = nth j (nth i (AtBp (accum ss' (qef0 RQ n))) []) 0 /\
      nth j (nth i (BptBp (accum ss (qef0 RQ n))) []) 0
        = nth j (nth i (BptBp (accum ss' (qef0 RQ n))) []) 0.
  Proof.
    intros n ss ss' i j H. rewrite (insert_perm_eq ss ss' H). repeat split.
  Qed.

  Theorem insert_perm :
    forall n ss ss' pos value, Permutation ss ss' ->
      qerror RQ (accum ss (qef0 RQ n)) pos value
      = qerror RQ (accum ss' (qef0 RQ n)) pos value.
  Proof.
    intros n ss ss' pos value H. rewrite (insert_perm_eq ss ss' H). reflexivity.
  Qed.

  (* the sum of squares itself is permutation invariant (consistency with Goal 1) *)
  Lemma SS_perm :
    forall ss ss' pos value, Permutation ss ss' -> SS ss pos value = SS ss' pos value.
  Proof.
    intros ss ss' pos value H.
    induction H as [|s l l' _ IH|s t l|l l' l'' _ IH1 _ IH2]; cbn [SS fold_right].
    - reflexivity.
    - fold (SS l pos value). fold (SS l' pos value). rewrite IH. reflexivity.
    - fold (SS l pos value). ring.
    - congruence.
  Qed.

  (* the accumulation written literally as in the specification *)
  Lemma accum_literal :
    forall ss q,
      fold_left (fun q (s : sample) => let '(p, nrm, v) := s in insert RQ q p nrm v) ss q
      = accum ss q.
  Proof.
    induction ss as [|s ss IH]; intro q.
    - reflexivity.
    - cbn [fold_left accum]. destruct s as [[p nrm] v]. apply IH.
  Qed.

  Corollary error_is_sum_of_squares_literal :
    forall n ss pos value,
      Forall (sample_dim n) ss -> length pos = n ->
      qerror RQ
        (fold_left (fun q (s : sample) => let '(p, nrm, v) := s in insert RQ q p nrm v)
                   ss (qef0 RQ n)) pos value
      = fold_right (fun (s : sample) acc =>
                      let '(p, nrm, v) := s in
                      (dot RQ nrm pos - value - (dot RQ nrm p - v)) *
                      (dot RQ nrm pos - value - (dot RQ nrm p - v)) + acc) 0 ss.
  Proof.
    intros n ss pos value Hss Hpos.
    rewrite accum_literal, (error_is_sum_of_squares n) by assumption.
    clear Hss. induction ss as [|[[p nrm] v] ss IH]; cbn [SS fold_right].
    - reflexivity.
    - fold (SS ss pos value). rewrite IH. reflexivity.
  Qed.

  (* q_leb on the reals is reflexive: [order_facts] is satisfiable (it is not for
     [TQ], where NaN is incomparable with itself) *)
  Lemma RQ_order_facts : order_facts RQ.
  Proof.
    constructor. intro a. change (Rleb a a = true). unfold Rleb.
    destruct (Rle_dec a a) as [_|H]; [reflexivity | exfalso; apply H; lra].
  Qed.

End RealAlgebra.

Lemma TQ_not_order_facts : ~ order_facts TQ.
Proof. intros [H]. specialize (H TNaN). discriminate H. Qed.

(* [search_returns_true_candidate] with the concrete (n-1)-face index 3^n - 3
   (digits 0,2,...,2): its hypothesis on j0 is satisfiable for every n >= 1 *)
Corollary search_returns_true_candidate_face :
  forall (num : Type) (Q : @qops num) (lo hi : @vec num) (cands : nat -> @cand num) n,
    1 <= n -> length lo = n -> length hi = n -> box_ok Q lo hi n ->
    (forall j, j < 3 ^ n -> pinned_ok Q n lo hi j (c_pos (cands j))) ->
    (forall j, j < 3 ^ n -> dimension n j = 0 ->
               q_ltb Q (c_err (cands j)) (q_inf Q) = true) ->
    q_ltb Q (c_err (cands (3 ^ n - 3))) (q_inf Q) = true ->
    exists j, j < 3 ^ n /\ dimension n j <= n - 1 /\
      bounded_search Q n lo hi cands = cands j /\
      pinned_ok Q n lo hi j (c_pos (cands j)) /\
      contains Q lo hi (c_pos (cands j)) = true.
Proof.
  intros num Q lo hi cands n Hn Hlo Hhi Hbox Hpin Hc Hf.
  apply (search_returns_true_candidate Q lo hi cands n Hn Hlo Hhi Hbox Hpin Hc (3 ^ n - 3)).
  - pose proof (pow3_pos n). lia.
  - destruct n as [|k]; [lia|]. rewrite dimension_face. lia.
  - exact Hf.
Qed.
