(* The thin-feature field [ball_f] of Render/DCBoundary.v is continuous as a function on R^3
   (product topology, Coquelicot's [continuous]), not only along lines. *)
From Coq Require Import Reals Lra.
From Coquelicot Require Import Coquelicot.
From LF Require Import Render.DCBoundary.
Local Open Scope R_scope.

Definition R3U : UniformSpace :=
  prod_UniformSpace (prod_UniformSpace R_UniformSpace R_UniformSpace) R_UniformSpace.

(* continuity on R^3 with the product topology *)
Definition continuous_R3 (f : R3 -> R) : Prop := forall x : R3U, continuous (f : R3U -> R) x.

Lemma sq_shift_continuous (g : R3U -> R) (x : R3U) :
  continuous g x -> continuous (fun y => (g y - / 2) * (g y - / 2)) x.
Proof.
  intros H.
  assert (H1 : continuous (fun y : R3U => minus (g y) (/ 2)) x)
    by (apply (continuous_minus (K := R_AbsRing) (V := R_NormedModule)); [exact H | apply continuous_const]).
  exact (continuous_mult (K := R_AbsRing) _ _ x H1 H1).
Qed.

Theorem ball_f_continuous : continuous_R3 ball_f.
Proof.
  intros x. destruct x as [[a b] c].
  assert (C1 : continuous (fun y : R3U => fst (fst y)) (a, b, c)).
  { apply (continuous_comp (U := R3U) (fun y : R3U => fst y) (fun z => fst z)).
    - apply (continuous_fst (U := prod_UniformSpace R_UniformSpace R_UniformSpace) (V := R_UniformSpace)).
    - apply (continuous_fst (U := R_UniformSpace) (V := R_UniformSpace)). }
  assert (C2 : continuous (fun y : R3U => snd (fst y)) (a, b, c)).
  { apply (continuous_comp (U := R3U) (fun y : R3U => fst y) (fun z => snd z)).
    - apply (continuous_fst (U := prod_UniformSpace R_UniformSpace R_UniformSpace) (V := R_UniformSpace)).
    - apply (continuous_snd (U := R_UniformSpace) (V := R_UniformSpace)). }
  assert (C3 : continuous (fun y : R3U => snd y) (a, b, c))
    by apply (continuous_snd (U := prod_UniformSpace R_UniformSpace R_UniformSpace) (V := R_UniformSpace)).
  apply (continuous_ext (fun y : R3U =>
    minus (plus (plus ((fst (fst y) - / 2) * (fst (fst y) - / 2)) ((snd (fst y) - / 2) * (snd (fst y) - / 2)))
                ((snd y - / 2) * (snd y - / 2))) (/ 16))).
  - intros [[u v] w]. reflexivity.
  - apply (continuous_minus (K := R_AbsRing) (V := R_NormedModule)); [|apply continuous_const].
    apply (continuous_plus (K := R_AbsRing) (V := R_NormedModule)).
    + apply (continuous_plus (K := R_AbsRing) (V := R_NormedModule)).
      * exact (sq_shift_continuous _ _ C1).
      * exact (sq_shift_continuous _ _ C2).
    + exact (sq_shift_continuous _ _ C3).
Qed.

(* a field continuous on R^3 satisfies the hypothesis [edge_continuous] of the theorems of
   DCBoundary.v on every lattice edge of every grid *)
Lemma affine_continuous (a b : R) (t : R) : continuous (fun s : R => a + s * b) t.
Proof.
  apply continuity_pt_filterlim. revert t. change (continuity (fun s : R => a + s * b)). reg.
Qed.

Theorem continuous_edge_continuous (f : R3 -> R) :
  continuous_R3 f -> forall h og A p, edge_continuous f h og A p.
Proof.
  unfold continuous_R3. intros Hf h og A p t _. apply continuity_pt_filterlim.
  change (continuous (fun s : R => f (edge_pt h og A p s)) t).
  unfold edge_pt, pos.
  destruct og as [[o1 o2] o3], (IZR3 p) as [[a b] c], (IZR3 (DCGrid.bits A)) as [[e1 e2] e3].
  cbn [radd rscale].
  apply (continuous_ext (fun s : R =>
    f ((o1 + h * a + s * (h * e1), o2 + h * b + s * (h * e2)), o3 + h * c + s * (h * e3)))).
  { intros s. f_equal. f_equal; [f_equal|]; ring. }
  set (g1 := fun s : R => o1 + h * a + s * (h * e1)).
  set (g2 := fun s : R => o2 + h * b + s * (h * e2)).
  set (g3 := fun s : R => o3 + h * c + s * (h * e3)).
  assert (G1 : continuous g1 t) by apply affine_continuous.
  assert (G2 : continuous g2 t) by apply affine_continuous.
  assert (G3 : continuous g3 t) by apply affine_continuous.
  assert (G12 : continuous (fun s : R => (g1 s, g2 s) : prod_UniformSpace R_UniformSpace R_UniformSpace) t).
  { apply (continuous_comp_2 (U := R_UniformSpace) (V := R_UniformSpace) (W := R_UniformSpace)
             (X := prod_UniformSpace R_UniformSpace R_UniformSpace) g1 g2 (fun v w => (v, w)) t G1 G2).
    apply (continuous_ext (fun x : prod_UniformSpace R_UniformSpace R_UniformSpace => x)).
    - intros [u v]. reflexivity.
    - apply continuous_id. }
  apply (continuous_comp_2 (U := R_UniformSpace) (V := prod_UniformSpace R_UniformSpace R_UniformSpace)
           (W := R_UniformSpace) (X := R_UniformSpace)
           (fun s : R => (g1 s, g2 s)) g3 (fun v w => f (v, w)) t G12 G3).
  apply (continuous_ext f).
  - intros [u v]. reflexivity.
  - apply Hf.
Qed.

Corollary ball_f_edge_continuous h og A p : edge_continuous ball_f h og A p.
Proof. apply (continuous_edge_continuous ball_f ball_f_continuous). Qed.
