(* C10 (adaptive quadtrees): semantics of collectChildren + the dual walk on quadtrees whose leaves
   have different sizes (model: Render/QuadTree.v; tables: Gen/MarchTables_gen.v through
   Render/DCGrid2.v; welding: Render/Contours.v + Render/ContoursSem.v).

   No axioms (Print Assumptions at the end: closed under the global context).  The only
   table-dependent step is the 16-mask sweep of DCGrid2Sem (local_bits_lemma), reused for the
   leaves of level 0; collapsed leaves need a 14-case boolean sweep (qloc_ok).  Every theorem is
   unbounded in the size and depth of the tree and holds for every numerical oracle [ok].

   MAIN THEOREMS
   1. collect_consistent : consistent ins t o k -> consistent ins (collect ok k p t) o k
        -- the three topology tests of collectChildren imply the invariant of the collapsed leaf:
           mask = signs of its own corners, mask <> 0 / 15 (else the children would have merged as
           EMPTY / FILLED), cornersAreManifold, and no a, b, a pattern along any side
           (leafsAreManifold at the midpoint + the two children's own sides: mono_join).
           The hypothesis [uncollapsed t] of the request is NOT needed and was dropped
           (collect_consistent_uncollapsed is the literal requested form).
      collect_height : height (collect ok k p t) <= height t.
   2. walk_balanced : consistent ins t (0,0) k -> boundary_clear ins k ->
        forall v, qout_deg v (contour_walk t) = qin_deg v (contour_walk t) /\
                  qout_deg v (contour_walk t) <= 1
        -- exactly as requested: on ANY consistent adaptive quadtree every contour vertex is left
           exactly as often as it is entered, and at most once.
   3. adaptive_contours_closed : uncollapsed pre -> consistent ins pre (0,0) k -> boundary_clear ins k ->
        let soup := contour_walk (QuadTree.collect ok k [] pre) in qinj_on idx soup ->
        forall l, In l (Contours.collect (qrenum idx soup)) -> closed l
        -- as requested; adaptive_contours_closed_any is the same without the (unused) hypothesis
           [uncollapsed pre]; adaptive_contours_closed_canon discharges [qinj_on] with the
           first-occurrence numbering (qcanon_idx_inj).
   4. consistentb_sound, boundary_clearb_sound (and monotone_runb_sound, sides_monotoneb_sound).
   5. build_consistent / build_uncollapsed : the pruned, fully subdivided tree [build ins k o] of
        EVERY sign function satisfies the hypotheses, hence adaptive_pipeline_closed: for every
        ins with a clear boundary, every depth k and every oracle, prune + collapse + walk + weld
        yields a soup of cycles and closed contours.
      notch_* (5a): 16 x 16 lattice, rectangle with a one-point notch; height 4; after collapse
        leaves of levels 3, 2, 1, 0 are neighbours, the 11-segment soup joins a level-1 and a
        level-2 collapsed leaf to level-0 leaves, and welds into one closed polyline.
      collapse_tests_needed (5b): a cell collapsed although leafsAreManifold fails (a filled,
        empty, filled side): the tree is not consistent and its vertex has out-degree 2 and
        in-degree 2.  boundary_clear_needed: a solid touching the region boundary leaves an open
        segment.

   PROOF ARCHITECTURE (a potential / telescoping argument rather than an enumeration of pairs)
     qhalf l m a b A side : what a leaf (level l, mask m) sees of a lattice interval of axis A with
       end signs a, b lying on its low (side = true, the leaf is ts[1]) or high side; at level 0 it
       is DCGrid2Sem.half (qhalf_0), above it names vertex 0.
     load_deg : the degree of v in one call of load is the sum of the two leaves' qhalf entries
       (no distinctness of the two paths is needed when stated as a sum).
     sidec ins o v A hi t p s k : contribution of the interval [s, s + 2^k] to the o-degree of v seen
       from tree t on one side; its recursion is that of edge2 on one argument (a branch splits,
       a leaf stays).  fits: the consistent cell has that interval on its side; a branch exactly,
       a leaf possibly a larger one.
     fits_split : one recursion step on one argument; for a leaf larger than the interval the
       identity sidec [s,e] = sidec [s,m] + sidec [m,e] is the telescoping step: the midpoint agrees
       with one end (sides_monotone when the ends agree, booleans otherwise) (qhalf_tele).
     (a) edge2_deg : qdeg o v (edge2 f A a b) = sidec (high side of a) + sidec (low side of b)
         for fuel > heights; base case load_fits (min-level rule: the smaller leaf fits exactly and
         its corners are the interval's ends; a pruned neighbour is uniform so both ends agree).
     (b) walk_inv : qdeg o v (walk f t p) + bdry t = total t, where bdry is the sum of sidec over
         the four sides of the cell and total the sum over the leaves of their four qhalf lists
         (qloc): the 8 inner half-sides of a branch are paid by the 4 edge2 calls of work.
     bdry_root : boundary_clear makes the four sides of the root owe nothing (sidec_const).
     (c) qloc_ok / leaf_total_ok : per leaf, out = in <= 1: level 0 by local_bits_lemma (tables),
         level > 0 by cornersAreManifold; total_under / total_le1: leaves have distinct paths. *)
From Coq Require Import List ZArith Bool Lia Arith Permutation.
From LF Require Import Gen.MarchTables_gen Render.DCGrid2 Render.Contours Render.ContoursSem Render.DCGrid2Sem
                       Render.QuadTree.
Import ListNotations.
Local Open Scope Z_scope.

(* ------------------------------------------------------------------------- *)
(** * Cell sizes and corner points *)

Lemma csize_S k : csize (S k) = 2 * csize k.
Proof. unfold csize. rewrite Nat2Z.inj_succ, Z.pow_succ_r by lia. reflexivity. Qed.
Lemma csize_pos k : 0 < csize k.
Proof. unfold csize. apply Z.pow_pos_nonneg; lia. Qed.
Lemma csize_0 : csize 0 = 1.
Proof. reflexivity. Qed.
Lemma csize_mono j k : (j <= k)%nat -> csize j <= csize k.
Proof. unfold csize. intros H. apply Z.pow_le_mono_r; lia. Qed.

Lemma corner_pt_0 x y k : corner_pt (x, y) k 0 = (x, y).
Proof. unfold corner_pt. cbn [fst snd]. change (Z.land 0 1) with 0. change (Z.land (Z.shiftr 0 1) 1) with 0. f_equal; lia. Qed.
Lemma corner_pt_1 x y k : corner_pt (x, y) k 1 = (x + csize k, y).
Proof. unfold corner_pt. cbn [fst snd]. change (Z.land 1 1) with 1. change (Z.land (Z.shiftr 1 1) 1) with 0. f_equal; lia. Qed.
Lemma corner_pt_2 x y k : corner_pt (x, y) k 2 = (x, y + csize k).
Proof. unfold corner_pt. cbn [fst snd]. change (Z.land 2 1) with 0. change (Z.land (Z.shiftr 2 1) 1) with 1. f_equal; lia. Qed.
Lemma corner_pt_3 x y k : corner_pt (x, y) k 3 = (x + csize k, y + csize k).
Proof. unfold corner_pt. cbn [fst snd]. change (Z.land 3 1) with 1. change (Z.land (Z.shiftr 3 1) 1) with 1. f_equal; lia. Qed.

Lemma testbit_build_mask_0 a b c d : Z.testbit (build_mask a b c d) 0 = a.
Proof. destruct a, b, c, d; reflexivity. Qed.
Lemma testbit_build_mask_1 a b c d : Z.testbit (build_mask a b c d) 1 = b.
Proof. destruct a, b, c, d; reflexivity. Qed.
Lemma testbit_build_mask_2 a b c d : Z.testbit (build_mask a b c d) 2 = c.
Proof. destruct a, b, c, d; reflexivity. Qed.
Lemma testbit_build_mask_3 a b c d : Z.testbit (build_mask a b c d) 3 = d.
Proof. destruct a, b, c, d; reflexivity. Qed.

(* the four corners of a cell, in coordinates *)
Lemma mask_of_xy ins x y k :
  mask_of ins (x, y) k =
  build_mask (ins (x, y)) (ins (x + csize k, y)) (ins (x, y + csize k)) (ins (x + csize k, y + csize k)).
Proof. unfold mask_of. rewrite corner_pt_0, corner_pt_1, corner_pt_2, corner_pt_3. reflexivity. Qed.

Lemma in_closed_xy x y k qx qy :
  in_closed (x, y) k (qx, qy) <-> (x <= qx <= x + csize k /\ y <= qy <= y + csize k).
Proof. unfold in_closed. cbn [fst snd]. tauto. Qed.

(* ------------------------------------------------------------------------- *)
(** * Runs of booleans without an a, b, a pattern *)

Definition mono (g : Z -> bool) (n : Z) : Prop :=
  forall i j l, 0 <= i <= j -> j <= l <= n -> g i = g l -> g j = g i.

Lemma mono_const g n c : (forall i, 0 <= i <= n -> g i = c) -> mono g n.
Proof. intros H i j l Hi Hl _. rewrite !H by lia. reflexivity. Qed.

Lemma mono_one g : mono g 1.
Proof.
  intros i j l Hi Hl E. assert (j = i \/ j = l) as [-> | ->] by lia; congruence.
Qed.

Lemma mono_all g n : mono g n -> g 0 = g n -> forall i, 0 <= i <= n -> g i = g 0.
Proof. intros M E i Hi. apply (M 0 i n); auto; lia. Qed.

Lemma mono_sub g n a m : mono g n -> 0 <= a -> a + m <= n -> mono (fun i => g (a + i)) m.
Proof. intros M Ha Hm i j l Hi Hl E. apply (M (a + i) (a + j) (a + l)); auto; lia. Qed.

(* two runs joined at a point that agrees with one of the far ends *)
Lemma mono_join g h :
  0 <= h -> mono g h -> mono (fun i => g (h + i)) h ->
  (g h = g 0 \/ g h = g (h + h)) -> mono g (h + h).
Proof.
  intros Hh M1 M2 Hmid i j l Hi Hl E.
  destruct (Z_le_gt_dec l h) as [Ll|Ll].
  { apply (M1 i j l); auto; lia. }
  destruct (Z_le_gt_dec h i) as [Li|Li].
  { specialize (M2 (i - h) (j - h) (l - h)).
    cbn beta in M2. replace (h + (i - h)) with i in M2 by lia.
    replace (h + (j - h)) with j in M2 by lia. replace (h + (l - h)) with l in M2 by lia.
    apply M2; auto; lia. }
  (* i < h < l *)
  assert (A2 : forall a b, 0 <= a <= b -> b <= h -> g (h + a) = g (h + b) ->
                 forall x, a <= x <= b -> g (h + x) = g (h + a)).
  { intros a b Ha Hb Eab x Hx. apply (M2 a x b); auto; lia. }
  destruct Hmid as [Hm|Hm].
  - (* first half constant *)
    assert (C1 : forall x, 0 <= x <= h -> g x = g 0) by (apply mono_all; auto).
    assert (Eh : g h = g l) by (rewrite Hm, <- (C1 i) by lia; exact E).
    destruct (Z_le_gt_dec j h) as [Lj|Lj].
    + rewrite (C1 j), (C1 i) by lia. reflexivity.
    + specialize (A2 0 (l - h)). rewrite Z.add_0_r in A2. replace (h + (l - h)) with l in A2 by lia.
      specialize (A2 ltac:(lia) ltac:(lia) Eh (j - h) ltac:(lia)).
      replace (h + (j - h)) with j in A2 by lia. rewrite A2, (C1 i), Hm by lia. reflexivity.
  - (* second half constant *)
    assert (C2 : forall x, h <= x <= h + h -> g x = g h).
    { intros x Hx. specialize (A2 0 h). rewrite Z.add_0_r in A2.
      specialize (A2 ltac:(lia) ltac:(lia) Hm (x - h) ltac:(lia)).
      replace (h + (x - h)) with x in A2 by lia. exact A2. }
    assert (Eh : g i = g h) by (rewrite E; apply C2; lia).
    destruct (Z_le_gt_dec j h) as [Lj|Lj].
    + apply (M1 i j h); auto; lia.
    + rewrite (C2 j) by lia. congruence.
Qed.

(* ------------------------------------------------------------------------- *)
(** * monotone_run in coordinates *)

Lemma monotone_run_X ins x y n :
  monotone_run ins (x, y) (1, 0) n <-> mono (fun i => ins (x + i, y)) n.
Proof.
  unfold monotone_run, mono. cbn [fst snd].
  split; intros H i j l Hi Hl.
  - specialize (H i j l Hi Hl). rewrite !Z.mul_1_r, !Z.mul_0_r, !Z.add_0_r in H. exact H.
  - rewrite !Z.mul_1_r, !Z.mul_0_r, !Z.add_0_r. apply H; auto.
Qed.
Lemma monotone_run_Y ins x y n :
  monotone_run ins (x, y) (0, 1) n <-> mono (fun i => ins (x, y + i)) n.
Proof.
  unfold monotone_run, mono. cbn [fst snd].
  split; intros H i j l Hi Hl.
  - specialize (H i j l Hi Hl). rewrite !Z.mul_1_r, !Z.mul_0_r, !Z.add_0_r in H. exact H.
  - rewrite !Z.mul_1_r, !Z.mul_0_r, !Z.add_0_r. apply H; auto.
Qed.

Lemma sides_monotone_xy ins x y k :
  sides_monotone ins (x, y) k <->
  (mono (fun i => ins (x + i, y)) (csize k) /\ mono (fun i => ins (x, y + i)) (csize k) /\
   mono (fun i => ins (x + i, y + csize k)) (csize k) /\ mono (fun i => ins (x + csize k, y + i)) (csize k)).
Proof.
  unfold sides_monotone. rewrite corner_pt_2, corner_pt_1.
  rewrite !monotone_run_X, !monotone_run_Y. tauto.
Qed.

Lemma mono_ext g g' n : (forall i, g i = g' i) -> mono g n -> mono g' n.
Proof. intros E M i j l Hi Hl H. rewrite <- !E in *. apply (M i j l); auto. Qed.

(* ------------------------------------------------------------------------- *)
(** * What a consistent non-branching cell says about the lattice *)

Lemma corner_state_consistent ins t x y k :
  consistent ins t (x, y) k -> is_branch t = false ->
  corner_state t 0 = ins (x, y) /\ corner_state t 1 = ins (x + csize k, y) /\
  corner_state t 2 = ins (x, y + csize k) /\ corner_state t 3 = ins (x + csize k, y + csize k).
Proof.
  intros C NB. pose proof (csize_pos k) as Hp. destruct t as [| |l m mf|]; try discriminate; cbn [consistent corner_state] in *.
  - repeat split; symmetry; apply C; apply in_closed_xy; lia.
  - repeat split; symmetry; apply C; apply in_closed_xy; lia.
  - destruct C as [_ [-> _]]. rewrite mask_of_xy.
    rewrite testbit_build_mask_0, testbit_build_mask_1, testbit_build_mask_2, testbit_build_mask_3. auto.
Qed.

Lemma leaf_sides_mono ins t x y k :
  consistent ins t (x, y) k -> is_branch t = false ->
  mono (fun i => ins (x + i, y)) (csize k) /\ mono (fun i => ins (x, y + i)) (csize k) /\
  mono (fun i => ins (x + i, y + csize k)) (csize k) /\ mono (fun i => ins (x + csize k, y + i)) (csize k).
Proof.
  intros C NB. pose proof (csize_pos k) as Hp. destruct t as [| |l m mf|]; try discriminate; cbn [consistent] in *.
  - repeat split; apply (mono_const _ _ false); intros i Hi; apply C; apply in_closed_xy; lia.
  - repeat split; apply (mono_const _ _ true); intros i Hi; apply C; apply in_closed_xy; lia.
  - destruct C as [_ [_ [_ [_ [_ C]]]]]. destruct k as [|k'].
    + rewrite csize_0. repeat split; apply mono_one.
    + destruct C as [_ [_ C]]; [discriminate|]. apply sides_monotone_xy. exact C.
Qed.

Lemma nonbranch_all_false ins t o k :
  consistent ins t o k -> is_branch t = false ->
  corner_state t 0 = false -> corner_state t 1 = false -> corner_state t 2 = false -> corner_state t 3 = false ->
  t = QE.
Proof.
  destruct o as [x y]. intros C NB H0 H1 H2 H3.
  destruct (corner_state_consistent ins t x y k C NB) as [E0 [E1 [E2 E3]]].
  destruct t as [| |l m mf|]; try discriminate; auto. exfalso.
  cbn [consistent] in C. destruct C as [_ [Em [N0 _]]]. apply N0. rewrite Em, mask_of_xy.
  rewrite <- E0, <- E1, <- E2, <- E3, H0, H1, H2, H3. reflexivity.
Qed.

Lemma nonbranch_all_true ins t o k :
  consistent ins t o k -> is_branch t = false ->
  corner_state t 0 = true -> corner_state t 1 = true -> corner_state t 2 = true -> corner_state t 3 = true ->
  t = QF.
Proof.
  destruct o as [x y]. intros C NB H0 H1 H2 H3.
  destruct (corner_state_consistent ins t x y k C NB) as [E0 [E1 [E2 E3]]].
  destruct t as [| |l m mf|]; try discriminate; auto. exfalso.
  cbn [consistent] in C. destruct C as [_ [Em [_ [N15 _]]]]. apply N15. rewrite Em, mask_of_xy.
  rewrite <- E0, <- E1, <- E2, <- E3, H0, H1, H2, H3. reflexivity.
Qed.

Lemma child_org_xy x y k :
  child_org (x, y) (S k) 0 = (x, y) /\ child_org (x, y) (S k) 1 = (x + csize k, y) /\
  child_org (x, y) (S k) 2 = (x, y + csize k) /\ child_org (x, y) (S k) 3 = (x + csize k, y + csize k).
Proof. unfold child_org. cbn [pred]. rewrite corner_pt_0, corner_pt_1, corner_pt_2, corner_pt_3. auto. Qed.

(* the children cover the parent *)
Lemma closed_split x y k qx qy :
  in_closed (x, y) (S k) (qx, qy) ->
  in_closed (x, y) k (qx, qy) \/ in_closed (x + csize k, y) k (qx, qy) \/
  in_closed (x, y + csize k) k (qx, qy) \/ in_closed (x + csize k, y + csize k) k (qx, qy).
Proof. rewrite !in_closed_xy, csize_S. lia. Qed.

Lemma eqb_or a b c : Bool.eqb a b || Bool.eqb a c = true -> a = b \/ a = c.
Proof. destruct a, b, c; simpl; auto. Qed.

Lemma is_QE_eq t : is_QE t = true -> t = QE.
Proof. destruct t; simpl; congruence. Qed.
Lemma is_QF_eq t : is_QF t = true -> t = QF.
Proof. destruct t; simpl; congruence. Qed.

(* ------------------------------------------------------------------------- *)
(** * One call of collectChildren preserves the invariant *)

Lemma collect1_consistent ins okb x y k c0 c1 c2 c3 :
  consistent ins c0 (x, y) k -> consistent ins c1 (x + csize k, y) k ->
  consistent ins c2 (x, y + csize k) k -> consistent ins c3 (x + csize k, y + csize k) k ->
  consistent ins (collect1 okb (S k) c0 c1 c2 c3) (x, y) (S k).
Proof.
  intros C0 C1 C2 C3.
  assert (CB : consistent ins (QB c0 c1 c2 c3) (x, y) (S k)).
  { cbn [consistent]. destruct (child_org_xy x y k) as [-> [-> [-> ->]]]. cbn [pred]. auto. }
  unfold collect1.
  destruct (is_branch c0 || is_branch c1 || is_branch c2 || is_branch c3) eqn:EB; [exact CB|].
  apply orb_false_iff in EB. destruct EB as [EB B3]. apply orb_false_iff in EB. destruct EB as [EB B2].
  apply orb_false_iff in EB. destruct EB as [B0 B1].
  destruct (is_QE c0 && is_QE c1 && is_QE c2 && is_QE c3) eqn:EE.
  { apply andb_true_iff in EE. destruct EE as [EE E3]. apply andb_true_iff in EE. destruct EE as [EE E2].
    apply andb_true_iff in EE. destruct EE as [E0 E1].
    apply is_QE_eq in E0, E1, E2, E3. subst. cbn [consistent] in *.
    intros [qx qy] Hq. destruct (closed_split _ _ _ _ _ Hq) as [H|[H|[H|H]]]; auto. }
  destruct (is_QF c0 && is_QF c1 && is_QF c2 && is_QF c3) eqn:EF.
  { apply andb_true_iff in EF. destruct EF as [EF E3]. apply andb_true_iff in EF. destruct EF as [EF E2].
    apply andb_true_iff in EF. destruct EF as [E0 E1].
    apply is_QF_eq in E0, E1, E2, E3. subst. cbn [consistent] in *.
    intros [qx qy] Hq. destruct (closed_split _ _ _ _ _ Hq) as [H|[H|[H|H]]]; auto. }
  cbv zeta.
  match goal with |- consistent _ (if ?c then _ else _) _ _ => destruct c eqn:ET end; [|exact CB].
  apply andb_true_iff in ET. destruct ET as [ET _]. apply andb_true_iff in ET. destruct ET as [ET LM].
  apply andb_true_iff in ET. destruct ET as [CM _].
  (* everything in terms of the nine lattice values *)
  destruct (corner_state_consistent ins c0 _ _ _ C0 B0) as [S00 [S01 [S02 S03]]].
  destruct (corner_state_consistent ins c1 _ _ _ C1 B1) as [S10 [S11 [S12 S13]]].
  destruct (corner_state_consistent ins c2 _ _ _ C2 B2) as [S20 [S21 [S22 S23]]].
  destruct (corner_state_consistent ins c3 _ _ _ C3 B3) as [S30 [S31 [S32 S33]]].
  destruct (leaf_sides_mono ins c0 _ _ _ C0 B0) as [M0b [M0l [M0t M0r]]].
  destruct (leaf_sides_mono ins c1 _ _ _ C1 B1) as [M1b [M1l [M1t M1r]]].
  destruct (leaf_sides_mono ins c2 _ _ _ C2 B2) as [M2b [M2l [M2t M2r]]].
  destruct (leaf_sides_mono ins c3 _ _ _ C3 B3) as [M3b [M3l [M3t M3r]]].
  unfold leafs_manifold in LM. cbv zeta in LM.
  apply andb_true_iff in LM. destruct LM as [LE LF].
  apply andb_true_iff in LE. destruct LE as [LE L4]. apply andb_true_iff in LE. destruct LE as [LE L3].
  apply andb_true_iff in LE. destruct LE as [L1 L2].
  apply eqb_or in L1, L2, L3, L4.
  pose proof (csize_pos k) as Hp.
  assert (Emask : build_mask (corner_state c0 0) (corner_state c1 1) (corner_state c2 2) (corner_state c3 3)
                  = mask_of ins (x, y) (S k)).
  { rewrite mask_of_xy, S00, S11, S22, S33, csize_S.
    repeat (f_equal; try lia). }
  cbn [consistent]. split; [reflexivity|]. split; [exact Emask|].
  split; [|split; [|split; [intros; discriminate|]]].
  - (* mask <> 0 *)
    intros Z0. apply not_true_iff_false in EE. apply EE.
    assert (K : corner_state c0 0 = false /\ corner_state c1 1 = false /\
                corner_state c2 2 = false /\ corner_state c3 3 = false).
    { revert Z0. destruct (corner_state c0 0), (corner_state c1 1), (corner_state c2 2), (corner_state c3 3);
        vm_compute; intros; try discriminate; auto. }
    destruct K as [K0 [K1 [K2 K3]]]. rewrite K0, K1, K2, K3 in *.
    assert (P10 : corner_state c0 1 = false) by (destruct L1; auto).
    assert (P01 : corner_state c0 2 = false) by (destruct L2; auto).
    assert (P21 : corner_state c1 3 = false) by (destruct L3; auto).
    assert (P12 : corner_state c2 3 = false) by (destruct L4; auto).
    assert (P11 : corner_state c0 3 = false).
    { destruct (corner_state c0 3); auto. }
    rewrite (nonbranch_all_false ins c0 _ _ C0 B0), (nonbranch_all_false ins c1 _ _ C1 B1),
            (nonbranch_all_false ins c2 _ _ C2 B2), (nonbranch_all_false ins c3 _ _ C3 B3); auto; congruence.
  - (* mask <> 15 *)
    intros Z0. apply not_true_iff_false in EF. apply EF.
    assert (K : corner_state c0 0 = true /\ corner_state c1 1 = true /\
                corner_state c2 2 = true /\ corner_state c3 3 = true).
    { revert Z0. destruct (corner_state c0 0), (corner_state c1 1), (corner_state c2 2), (corner_state c3 3);
        vm_compute; intros; try discriminate; auto. }
    destruct K as [K0 [K1 [K2 K3]]]. rewrite K0, K1, K2, K3 in *.
    assert (P10 : corner_state c0 1 = true) by (destruct L1; auto).
    assert (P01 : corner_state c0 2 = true) by (destruct L2; auto).
    assert (P21 : corner_state c1 3 = true) by (destruct L3; auto).
    assert (P12 : corner_state c2 3 = true) by (destruct L4; auto).
    assert (P11 : corner_state c0 3 = true).
    { destruct (corner_state c0 3); auto. }
    rewrite (nonbranch_all_true ins c0 _ _ C0 B0), (nonbranch_all_true ins c1 _ _ C1 B1),
            (nonbranch_all_true ins c2 _ _ C2 B2), (nonbranch_all_true ins c3 _ _ C3 B3); auto; congruence.
  - intros _. split; [reflexivity|]. split; [exact CM|].
    apply sides_monotone_xy. rewrite csize_S.
    replace (2 * csize k) with (csize k + csize k) by lia.
    split; [|split; [|split]].
    + (* bottom *)
      apply mono_join; [lia|exact M0b| |].
      * eapply mono_ext; [|exact M1b]. intros i. cbn beta. f_equal. f_equal. lia.
      * rewrite S01, S00, S11 in L1. cbn beta. rewrite Z.add_0_r.
        replace (x + (csize k + csize k)) with (x + csize k + csize k) by lia. exact L1.
    + (* left *)
      apply mono_join; [lia|exact M0l| |].
      * eapply mono_ext; [|exact M2l]. intros i. cbn beta. f_equal. f_equal. lia.
      * rewrite S02, S00, S22 in L2. cbn beta. rewrite Z.add_0_r.
        replace (y + (csize k + csize k)) with (y + csize k + csize k) by lia. exact L2.
    + (* top *)
      apply mono_join; [lia| | |].
      * eapply mono_ext; [|exact M2t]. intros i. cbn beta. f_equal. f_equal. lia.
      * eapply mono_ext; [|exact M3t]. intros i. cbn beta. f_equal. f_equal; lia.
      * rewrite S23, S22, S33 in L4. cbn beta. rewrite Z.add_0_r.
        replace (x + (csize k + csize k)) with (x + csize k + csize k) by lia.
        replace (y + (csize k + csize k)) with (y + csize k + csize k) by lia. exact L4.
    + (* right *)
      apply mono_join; [lia| | |].
      * eapply mono_ext; [|exact M1r]. intros i. cbn beta. f_equal. f_equal. lia.
      * eapply mono_ext; [|exact M3r]. intros i. cbn beta. f_equal. f_equal; lia.
      * rewrite S13, S11, S33 in L3. cbn beta. rewrite Z.add_0_r.
        replace (x + (csize k + csize k)) with (x + csize k + csize k) by lia.
        replace (y + (csize k + csize k)) with (y + csize k + csize k) by lia. exact L3.
Qed.

(** 1. collectChildren preserves the invariant, for every oracle; the hypothesis [uncollapsed]
       is not needed. *)
Lemma collect_consistent_ind ins ok : forall t o k p,
  consistent ins t o k -> consistent ins (collect ok k p t) o k.
Proof.
  induction t as [| |l m mf|c0 IH0 c1 IH1 c2 IH2 c3 IH3]; intros o k p C; try exact C.
  cbn [collect]. cbn [consistent] in C. destruct C as [Hk [C0 [C1 [C2 C3]]]].
  destruct k as [|k]; [congruence|]. cbn [pred] in *. destruct o as [x y].
  destruct (child_org_xy x y k) as [E0 [E1 [E2 E3]]]. rewrite E0, E1, E2, E3 in *.
  apply collect1_consistent; auto.
Qed.

Theorem collect_consistent : forall ins ok t o k p,
  consistent ins t o k -> consistent ins (collect ok k p t) o k.
Proof. intros ins ok t o k p. apply collect_consistent_ind. Qed.

(* the statement as first requested, with the (unused) hypothesis *)
Corollary collect_consistent_uncollapsed : forall ins ok t o k p,
  uncollapsed t -> consistent ins t o k -> consistent ins (collect ok k p t) o k.
Proof. intros ins ok t o k p _. apply collect_consistent. Qed.

Lemma collect1_height okb k c0 c1 c2 c3 :
  (height (collect1 okb k c0 c1 c2 c3) <= height (QB c0 c1 c2 c3))%nat.
Proof.
  unfold collect1.
  repeat match goal with |- context [if ?c then _ else _] => destruct c end; cbn [height]; lia.
Qed.

Theorem collect_height ok : forall t k p, (height (collect ok k p t) <= height t)%nat.
Proof.
  induction t as [| |l m mf|c0 IH0 c1 IH1 c2 IH2 c3 IH3]; intros k p; cbn [collect]; try lia.
  etransitivity; [apply collect1_height|]. cbn [height].
  specialize (IH0 (pred k) (0 :: p)). specialize (IH1 (pred k) (1 :: p)).
  specialize (IH2 (pred k) (2 :: p)). specialize (IH3 (pred k) (3 :: p)). lia.
Qed.

(* ------------------------------------------------------------------------- *)
(** * Degrees, uniformly in the direction *)

Definition qsel (o : bool) : qseg -> qvertex := if o then fst else snd.
Definition qdeg (o : bool) (v : qvertex) (s : list qseg) : nat :=
  length (filter (fun x => qvertex_eqb (qsel o x) v) s).

Lemma qout_deg_qdeg v s : qout_deg v s = qdeg true v s.
Proof. reflexivity. Qed.
Lemma qin_deg_qdeg v s : qin_deg v s = qdeg false v s.
Proof. reflexivity. Qed.
Lemma qdeg_app o v s t : qdeg o v (s ++ t) = (qdeg o v s + qdeg o v t)%nat.
Proof. unfold qdeg. rewrite filter_app, app_length. reflexivity. Qed.
Lemma qdeg_nil o v : qdeg o v [] = 0%nat.
Proof. reflexivity. Qed.

(* ------------------------------------------------------------------------- *)
(** * What one leaf sees of one (piece of a) side *)

(* [qhalf l m a b A side]: the end, in a leaf of level [l] and corner mask [m], of the segment
   emitted for a lattice interval of axis [A] whose ends have signs [a], [b]; [side = true] when
   the leaf is ts[1] (the interval lies on its bottom / left side), [false] when it is ts[0]
   (top / right side).  (true, i): a segment LEAVING vertex i of the leaf; (false, i): ENTERING. *)
Definition qhalf (l : nat) (m : Z) (a b : bool) (A : Z) (side : bool) : list (bool * Z) :=
  if Bool.eqb a b then []
  else
    let D := negb ((a && (A =? 2)) || (b && (A =? 1))) in
    let '(es0, es1) := if xorb D (A =? 1) then (e2 3 (3 - A), e2 A 0) else (e2 (3 - A) 3, e2 0 A) in
    if side then [(negb D, if Nat.ltb 0 l then 0 else p2 m es1)]
    else [(D, if Nat.ltb 0 l then 0 else p2 m es0)].

Definition qloc (l : nat) (m : Z) (b0 b1 b2 b3 : bool) : list (bool * Z) :=
  qhalf l m b0 b1 1 true ++ qhalf l m b2 b3 1 false ++ qhalf l m b0 b2 2 true ++ qhalf l m b1 b3 2 false.

Definition leafc (o : bool) (v : qvertex) (p : path) (l : list (bool * Z)) : nat :=
  if path_eqb p (fst v) then cnt o (snd v) l else 0%nat.

Lemma qhalf_0 m a b A side : A = 1 \/ A = 2 -> qhalf 0 m a b A side = half m a b A side.
Proof. intros [-> | ->]; destruct a, b, side; reflexivity. Qed.

Lemma qloc_0 m b0 b1 b2 b3 : qloc 0 m b0 b1 b2 b3 = loc m b0 b1 b2 b3.
Proof. unfold qloc, loc. rewrite !qhalf_0 by auto. reflexivity. Qed.

Lemma qhalf_same l m a A side : qhalf l m a a A side = [].
Proof. unfold qhalf. rewrite eqb_reflx. reflexivity. Qed.

(* a piece of a side of a collapsed leaf splits at any point that agrees with one of its ends *)
Lemma qhalf_tele o i l m x y z A side :
  A = 1 \/ A = 2 -> (0 < l)%nat -> (x = z -> y = x) ->
  cnt o i (qhalf l m x z A side) = (cnt o i (qhalf l m x y A side) + cnt o i (qhalf l m y z A side))%nat.
Proof.
  intros HA Hl Hm. unfold qhalf. apply Nat.ltb_lt in Hl. rewrite Hl.
  destruct x, y, z; try (specialize (Hm eq_refl); discriminate);
    destruct HA as [-> | ->]; destruct side; cbn -[e2 p2]; lia.
Qed.

(** One call of load: the degree of a vertex is read off the two leaves separately. *)
Lemma load_deg o v A la ma fa pa lb mb fb pb x y : A = 1 \/ A = 2 ->
  corner_state (if Nat.ltb lb la then QA lb mb fb else QA la ma fa) (if Nat.ltb lb la then 0 else 3 - A) = x ->
  corner_state (if Nat.ltb lb la then QA lb mb fb else QA la ma fa)
               (Z.lor (if Nat.ltb lb la then 0 else 3 - A) A) = y ->
  qdeg o v (load A (QA la ma fa, pa) (QA lb mb fb, pb)) =
  (leafc o v pa (qhalf la ma x y A false) + leafc o v pb (qhalf lb mb x y A true))%nat.
Proof.
  intros HA Hx Hy. unfold load. cbn [fst snd]. cbv zeta. rewrite Hx, Hy.
  unfold qhalf, leafc, qdeg, cnt, qvertex_eqb.
  destruct v as [pv iv]. cbn [fst snd].
  destruct x, y; destruct HA as [-> | ->]; destruct o; cbn -[e2 p2 Nat.ltb path_eqb];
    repeat match goal with |- context [path_eqb ?a ?b] => destruct (path_eqb a b) end;
    cbn -[e2 p2 Nat.ltb];
    repeat match goal with |- context [?a =? iv] => destruct (a =? iv) end; reflexivity.
Qed.

(* ------------------------------------------------------------------------- *)
(** * Sides of cells, and the contribution of a side to the degree of a vertex *)

(* moving along axis A *)
Definition adv (A : Z) (s : pt2) (n : Z) : pt2 :=
  if A =? 1 then (fst s + n, snd s) else (fst s, snd s + n).
(* the side of axis A of the cell (o, k): the low one starts at o, the high one at corner 3 - A *)
Definition side_start (A : Z) (hi : bool) (o : pt2) (k : nat) : pt2 :=
  if hi then corner_pt o k (3 - A) else o.

(* [sidec ins o v A hi t p s k]: what the interval [s, s + 2^k] (axis A) contributes to the
   o-degree of v, seen from the tree [t] (path [p]) lying on its [hi] / low side.  The recursion
   is that of edge2 on one of its two arguments: a branch is split, a leaf stays. *)
Fixpoint sidec (ins : pt2 -> bool) (o : bool) (v : qvertex) (A : Z) (hi : bool)
               (t : qtree) (p : path) (s : pt2) (k : nat) {struct t} : nat :=
  match t with
  | QB c0 c1 c2 c3 =>
      let c := if hi then 3 - A else 0 in
      (sidec ins o v A hi (sub (QB c0 c1 c2 c3) c) (c :: p) s (pred k) +
       sidec ins o v A hi (sub (QB c0 c1 c2 c3) (Z.lor A c)) (Z.lor A c :: p) (adv A s (csize (pred k))) (pred k))%nat
  | QA l m _ => leafc o v p (qhalf l m (ins s) (ins (adv A s (csize k))) A (negb hi))
  | _ => 0%nat
  end.

Lemma adv_adv A s n m : adv A (adv A s n) m = adv A s (n + m).
Proof. unfold adv. destruct (A =? 1); cbn [fst snd]; f_equal; lia. Qed.
Lemma adv_0 A s : adv A s 0 = s.
Proof. destruct s. unfold adv. destruct (A =? 1); cbn [fst snd]; f_equal; lia. Qed.
Lemma adv_1 x y n : adv 1 (x, y) n = (x + n, y).
Proof. reflexivity. Qed.
Lemma adv_2 x y n : adv 2 (x, y) n = (x, y + n).
Proof. reflexivity. Qed.

Lemma leafc_nil o v p : leafc o v p [] = 0%nat.
Proof. unfold leafc. destruct (path_eqb p (fst v)); reflexivity. Qed.

Lemma side_start_lo A o k : side_start A false o k = o.
Proof. reflexivity. Qed.
Lemma side_start_hi1 x y k : side_start 1 true (x, y) k = (x, y + csize k).
Proof. unfold side_start. change (3 - 1) with 2. apply corner_pt_2. Qed.
Lemma side_start_hi2 x y k : side_start 2 true (x, y) k = (x + csize k, y).
Proof. unfold side_start. change (3 - 2) with 1. apply corner_pt_1. Qed.

(* [fits ins A hi t org kt s k]: the consistent cell (t, org, kt) has the interval [s, s + 2^k] of
   axis A on its [hi] / low side; a branch has exactly that side, a leaf may be larger. *)
Definition fits (ins : pt2 -> bool) (A : Z) (hi : bool) (t : qtree) (org : pt2) (kt : nat) (s : pt2) (k : nat) : Prop :=
  consistent ins t org kt /\ (k <= kt)%nat /\ (is_branch t = true -> kt = k) /\
  exists j, 0 <= j /\ j + csize k <= csize kt /\ s = adv A (side_start A hi org kt) j.

Lemma fits_exact_j ins A hi t org k s : fits ins A hi t org k s k -> s = side_start A hi org k.
Proof.
  intros [_ [_ [_ [j [Hj [Hj' ->]]]]]]. assert (j = 0) as -> by lia. apply adv_0.
Qed.

(* both ends of the interval are lattice points of the cell *)
Lemma fits_in_closed ins A hi t org kt s k : A = 1 \/ A = 2 ->
  fits ins A hi t org kt s k -> in_closed org kt s /\ in_closed org kt (adv A s (csize k)).
Proof.
  intros HA [_ [_ [_ [j [Hj [Hj' ->]]]]]]. rewrite adv_adv. destruct org as [x y].
  pose proof (csize_pos k). pose proof (csize_pos kt).
  destruct HA as [-> | ->]; destruct hi;
    rewrite ?side_start_lo, ?side_start_hi1, ?side_start_hi2, ?adv_1, ?adv_2, !in_closed_xy; lia.
Qed.

(* the corner signs load reads in an exactly fitting ambiguous leaf *)
Lemma exact_lo ins A l m f org k : A = 1 \/ A = 2 -> consistent ins (QA l m f) org k ->
  Z.testbit m 0 = ins org /\ Z.testbit m (Z.lor 0 A) = ins (adv A org (csize k)).
Proof.
  intros HA C. destruct org as [x y].
  destruct (corner_state_consistent ins _ x y k C eq_refl) as [E0 [E1 [E2 E3]]]. cbn [corner_state] in *.
  destruct HA as [-> | ->]; rewrite ?adv_1, ?adv_2; auto.
Qed.
Lemma exact_hi ins A l m f org k : A = 1 \/ A = 2 -> consistent ins (QA l m f) org k ->
  Z.testbit m (3 - A) = ins (side_start A true org k) /\
  Z.testbit m (Z.lor (3 - A) A) = ins (adv A (side_start A true org k) (csize k)).
Proof.
  intros HA C. destruct org as [x y].
  destruct (corner_state_consistent ins _ x y k C eq_refl) as [E0 [E1 [E2 E3]]]. cbn [corner_state] in *.
  destruct HA as [-> | ->]; rewrite ?side_start_hi1, ?side_start_hi2, ?adv_1, ?adv_2; auto.
Qed.

Lemma sidec_leaf_same ins o v A hi t p s k :
  is_branch t = false -> ins s = ins (adv A s (csize k)) -> sidec ins o v A hi t p s k = 0%nat.
Proof.
  intros NB E. destruct t; try discriminate; cbn [sidec]; auto.
  rewrite E, qhalf_same. apply leafc_nil.
Qed.

Lemma uniform_ends ins t org kt (q1 q2 : pt2) :
  is_ambig_leaf t = false -> is_branch t = false -> consistent ins t org kt ->
  in_closed org kt q1 -> in_closed org kt q2 -> ins q1 = ins q2.
Proof.
  intros NA NB C H1 H2. destruct t; try discriminate; cbn [consistent] in C; rewrite (C _ H1), (C _ H2); reflexivity.
Qed.

Lemma load_nonambig_l A a b : is_ambig_leaf (fst a) = false -> load A a b = [].
Proof. unfold load. destruct (fst a); try discriminate; reflexivity. Qed.
Lemma load_nonambig_r A a b : is_ambig_leaf (fst b) = false -> load A a b = [].
Proof. unfold load. destruct (fst a), (fst b); try discriminate; reflexivity. Qed.

(** Base case of edge2: two non-branching cells. *)
Lemma load_fits ins o v A ta pa oa ka tb pb ob kb s k : A = 1 \/ A = 2 ->
  fits ins A true ta oa ka s k -> fits ins A false tb ob kb s k -> (ka = k \/ kb = k) ->
  is_branch ta = false -> is_branch tb = false ->
  qdeg o v (load A (ta, pa) (tb, pb)) =
  (sidec ins o v A true ta pa s k + sidec ins o v A false tb pb s k)%nat.
Proof.
  intros HA Fa Fb Hex Ba Bb.
  destruct (fits_in_closed _ _ _ _ _ _ _ _ HA Fa) as [Ia1 Ia2].
  destruct (fits_in_closed _ _ _ _ _ _ _ _ HA Fb) as [Ib1 Ib2].
  pose proof Fa as [Ca [Ka _]]. pose proof Fb as [Cb [Kb _]].
  destruct (is_ambig_leaf ta) eqn:Aa.
  2:{ rewrite load_nonambig_l by exact Aa.
      pose proof (uniform_ends ins ta oa ka _ _ Aa Ba Ca Ia1 Ia2) as E.
      rewrite !sidec_leaf_same by auto. reflexivity. }
  destruct (is_ambig_leaf tb) eqn:Ab.
  2:{ rewrite load_nonambig_r by exact Ab.
      pose proof (uniform_ends ins tb ob kb _ _ Ab Bb Cb Ib1 Ib2) as E.
      rewrite !sidec_leaf_same by auto. reflexivity. }
  destruct ta as [| |la ma fa|]; try discriminate. destruct tb as [| |lb mb fb|]; try discriminate.
  cbn [sidec negb]. 
  assert (La : la = ka) by (cbn [consistent] in Ca; tauto).
  assert (Lb : lb = kb) by (cbn [consistent] in Cb; tauto).
  subst la lb.
  apply load_deg; auto.
  - destruct (Nat.ltb kb ka) eqn:Lt.
    + apply Nat.ltb_lt in Lt. assert (k = kb) by lia. subst k.
      rewrite (fits_exact_j _ _ _ _ _ _ _ Fb), side_start_lo.
      cbn [corner_state]. apply (exact_lo ins A kb mb fb ob kb HA Cb).
    + apply Nat.ltb_ge in Lt. assert (k = ka) by lia. subst k.
      rewrite (fits_exact_j _ _ _ _ _ _ _ Fa).
      cbn [corner_state]. apply (exact_hi ins A ka ma fa oa ka HA Ca).
  - destruct (Nat.ltb kb ka) eqn:Lt.
    + apply Nat.ltb_lt in Lt. assert (k = kb) by lia. subst k.
      rewrite (fits_exact_j _ _ _ _ _ _ _ Fb), side_start_lo.
      cbn [corner_state]. apply (exact_lo ins A kb mb fb ob kb HA Cb).
    + apply Nat.ltb_ge in Lt. assert (k = ka) by lia. subst k.
      rewrite (fits_exact_j _ _ _ _ _ _ _ Fa).
      cbn [corner_state]. apply (exact_hi ins A ka ma fa oa ka HA Ca).
Qed.

Lemma side_mono ins A hi x y kt : A = 1 \/ A = 2 ->
  sides_monotone ins (x, y) kt -> mono (fun i => ins (adv A (side_start A hi (x, y) kt) i)) (csize kt).
Proof.
  intros HA SM. apply sides_monotone_xy in SM. destruct SM as [M1 [M2 [M3 M4]]].
  destruct HA as [-> | ->]; destruct hi; rewrite ?side_start_lo, ?side_start_hi1, ?side_start_hi2; assumption.
Qed.

Lemma child_branch c0 c1 c2 c3 (p : path) i :
  child (QB c0 c1 c2 c3, p) i = @pair qtree path (sub (QB c0 c1 c2 c3) i) (i :: p).
Proof. reflexivity. Qed.
Lemma child_leaf t p i : is_branch t = false -> child (t, p) i = (t, p).
Proof. unfold child. cbn [fst snd]. intros ->. reflexivity. Qed.

(** One step of the recursion of edge2, seen from one of its two arguments. *)
Lemma fits_split ins A hi t p org kt s k : A = 1 \/ A = 2 ->
  fits ins A hi t org kt s (S k) ->
  let c := if hi then 3 - A else 0 in
  let ch1 := child (t, p) c in
  let ch2 := child (t, p) (Z.lor A c) in
  exists o1 k1 o2 k2,
    fits ins A hi (fst ch1) o1 k1 s k /\
    fits ins A hi (fst ch2) o2 k2 (adv A s (csize k)) k /\
    (is_branch t = true -> k1 = k /\ k2 = k) /\
    (forall o v, sidec ins o v A hi t p s (S k) =
       (sidec ins o v A hi (fst ch1) (snd ch1) s k +
        sidec ins o v A hi (fst ch2) (snd ch2) (adv A s (csize k)) k)%nat) /\
    (height (fst ch1) <= pred (height t))%nat /\ (height (fst ch2) <= pred (height t))%nat.
Proof.
  intros HA F c ch1 ch2. pose proof (csize_S k) as HS. pose proof (csize_pos k) as Hp.
  destruct (is_branch t) eqn:BT.
  - (* a branch: exact fit *)
    destruct t as [| | |c0 c1 c2 c3]; try discriminate.
    assert (kt = S k) as -> by (apply F; reflexivity).
    pose proof (fits_exact_j _ _ _ _ _ _ _ F) as Es.
    destruct F as [C _]. cbn [consistent pred] in C. destruct C as [_ [C0 [C1 [C2 C3]]]].
    destruct org as [x y]. destruct (child_org_xy x y k) as [E0 [E1 [E2 E3]]].
    rewrite E0 in C0. rewrite E1 in C1. rewrite E2 in C2. rewrite E3 in C3.
    subst ch1 ch2 c. rewrite !child_branch. cbn [fst snd].
    assert (G : forall tt oo ss, consistent ins tt oo k -> ss = side_start A hi oo k -> fits ins A hi tt oo k ss k).
    { intros tt oo ss Ct Ess. split; [exact Ct|]. split; [lia|]. split; [auto|].
      exists 0. split; [lia|]. split; [lia|]. rewrite adv_0. exact Ess. }
    destruct HA as [-> | ->]; destruct hi;
      change (3 - 1) with 2; change (3 - 2) with 1; change (Z.lor 1 2) with 3; change (Z.lor 2 1) with 3;
      change (Z.lor 1 0) with 1; change (Z.lor 2 0) with 2; cbn [sub Z.eqb Pos.eqb];
      rewrite ?side_start_lo, ?side_start_hi1, ?side_start_hi2 in Es; subst s.
    + exists (x, y + csize k), k, (x + csize k, y + csize k), k.
      split; [apply G; auto; rewrite side_start_hi1; f_equal; lia|].
      split; [apply G; auto; rewrite side_start_hi1, adv_1; f_equal; lia|].
      split; [auto|]. split; [intros; reflexivity|]. cbn [height]. lia.
    + exists (x, y), k, (x + csize k, y), k.
      split; [apply G; auto|]. split; [apply G; auto|].
      split; [auto|]. split; [intros; reflexivity|]. cbn [height]. lia.
    + exists (x + csize k, y), k, (x + csize k, y + csize k), k.
      split; [apply G; auto; rewrite side_start_hi2; f_equal; lia|].
      split; [apply G; auto; rewrite side_start_hi2, adv_2; f_equal; lia|].
      split; [auto|]. split; [intros; reflexivity|]. cbn [height]. lia.
    + exists (x, y), k, (x, y + csize k), k.
      split; [apply G; auto|]. split; [apply G; auto|].
      split; [auto|]. split; [intros; reflexivity|]. cbn [height]. lia.
  - (* a leaf: it stays *)
    subst ch1 ch2. rewrite !child_leaf by exact BT. cbn [fst snd].
    destruct F as [C [Kk [_ [j [Hj [Hj' Es]]]]]].
    exists org, kt, org, kt.
    split; [|split; [|split; [discriminate|split; [|destruct t; try discriminate; cbn [height]; lia]]]].
    + split; [exact C|]. split; [lia|]. split; [congruence|]. exists j. repeat split; auto; lia.
    + split; [exact C|]. split; [lia|]. split; [congruence|]. exists (j + csize k).
      split; [lia|]. split; [lia|]. rewrite Es, adv_adv. reflexivity.
    + intros o v. destruct t as [| |l m f|]; try discriminate; try reflexivity.
      cbn [sidec]. unfold leafc. destruct (path_eqb p (fst v)); [|reflexivity].
      rewrite adv_adv. replace (csize k + csize k) with (csize (S k)) by lia.
      cbn [consistent] in C. destruct C as [El [_ [_ [_ [_ C]]]]].
      destruct C as [_ [_ SM]]; [lia|].
      destruct org as [x y]. pose proof (side_mono ins A hi x y kt HA SM) as M.
      apply qhalf_tele; [exact HA|lia|].
      rewrite Es, !adv_adv. intros E. apply (M j (j + csize k) (j + csize (S k))); auto; lia.
Qed.

Lemma branch_height t : is_branch t = true -> (1 <= height t)%nat.
Proof. destruct t; try discriminate. intros _. cbn [height]. lia. Qed.
Lemma fits_branch_level ins A hi t org kt s k : fits ins A hi t org kt s k -> is_branch t = true -> k <> O.
Proof.
  intros [C [_ [E _]]] B. rewrite <- (E B). destruct t; try discriminate. cbn [consistent] in C. tauto.
Qed.

(** (a) edge2 on two cells facing each other across the interval [s, s + 2^k]: the degree of
    every vertex is the sum of what the two sides contribute. *)
Lemma edge2_deg ins o v A : A = 1 \/ A = 2 -> forall f ta pa oa ka tb pb ob kb s k,
  fits ins A true ta oa ka s k -> fits ins A false tb ob kb s k -> (ka = k \/ kb = k) ->
  (height ta < f)%nat -> (height tb < f)%nat ->
  qdeg o v (edge2 f A (ta, pa) (tb, pb)) =
  (sidec ins o v A true ta pa s k + sidec ins o v A false tb pb s k)%nat.
Proof.
  intros HA. induction f as [|f IH]; intros ta pa oa ka tb pb ob kb s k Fa Fb Hex Ha Hb; [lia|].
  cbn [edge2 fst].
  destruct (is_branch ta || is_branch tb) eqn:BB.
  2:{ apply orb_false_iff in BB. destruct BB. eapply load_fits; eauto. }
  assert (Hk : k <> O).
  { apply orb_true_iff in BB. destruct BB as [B|B];
      [eapply fits_branch_level; [exact Fa|exact B] | eapply fits_branch_level; [exact Fb|exact B]]. }
  destruct k as [|k]; [congruence|].
  assert (Hf : (1 <= f)%nat).
  { apply orb_true_iff in BB. destruct BB as [B|B]; apply branch_height in B; lia. }
  destruct (fits_split ins A true ta pa oa ka s k HA Fa) as [oa1 [ka1 [oa2 [ka2 [Fa1 [Fa2 [Ea [Sa [Ha1 Ha2]]]]]]]]].
  destruct (fits_split ins A false tb pb ob kb s k HA Fb) as [ob1 [kb1 [ob2 [kb2 [Fb1 [Fb2 [Eb [Sb [Hb1 Hb2]]]]]]]]].
  cbv zeta in *.
  replace (Z.lor A 0) with A in * by (destruct HA as [-> | ->]; reflexivity).
  rewrite qdeg_app, Sa, Sb.
  destruct (child (ta, pa) (3 - A)) as [ta1 pa1] eqn:Eca1.
  destruct (child (ta, pa) (Z.lor A (3 - A))) as [ta2 pa2] eqn:Eca2.
  destruct (child (tb, pb) 0) as [tb1 pb1] eqn:Ecb1.
  destruct (child (tb, pb) A) as [tb2 pb2] eqn:Ecb2.
  cbn [fst snd] in *.
  assert (Hex' : (ka1 = k /\ ka2 = k) \/ (kb1 = k /\ kb2 = k)).
  { apply orb_true_iff in BB. destruct BB as [B|B]; auto. }
  rewrite (IH ta1 pa1 oa1 ka1 tb1 pb1 ob1 kb1 s k), (IH ta2 pa2 oa2 ka2 tb2 pb2 ob2 kb2 (adv A s (csize k)) k);
    auto; try lia; tauto.
Qed.

(* ------------------------------------------------------------------------- *)
(** * (b) The walk: every leaf collects the contributions of its four sides *)

Fixpoint total (ins : pt2 -> bool) (o : bool) (v : qvertex) (t : qtree) (p : path) (org : pt2) (k : nat) : nat :=
  match t with
  | QB c0 c1 c2 c3 =>
      (total ins o v c0 (0%Z :: p) (child_org org k 0%Z) (pred k) + total ins o v c1 (1%Z :: p) (child_org org k 1%Z) (pred k) +
       total ins o v c2 (2%Z :: p) (child_org org k 2%Z) (pred k) + total ins o v c3 (3%Z :: p) (child_org org k 3%Z) (pred k))%nat
  | QA l m _ =>
      leafc o v p (qloc l m (ins (corner_pt org k 0)) (ins (corner_pt org k 1))
                            (ins (corner_pt org k 2)) (ins (corner_pt org k 3)))
  | _ => 0%nat
  end.

(* what the four sides of the cell still owe *)
Definition bdry (ins : pt2 -> bool) (o : bool) (v : qvertex) (t : qtree) (p : path) (org : pt2) (k : nat) : nat :=
  (sidec ins o v 1 false t p org k + sidec ins o v 1 true t p (side_start 1 true org k) k +
   sidec ins o v 2 false t p org k + sidec ins o v 2 true t p (side_start 2 true org k) k)%nat.

Lemma leafc_app o v p l1 l2 : leafc o v p (l1 ++ l2) = (leafc o v p l1 + leafc o v p l2)%nat.
Proof. unfold leafc. destruct (path_eqb p (fst v)); [apply cnt_app|reflexivity]. Qed.

Lemma fits_exact ins A hi t oo k ss :
  consistent ins t oo k -> ss = side_start A hi oo k -> fits ins A hi t oo k ss k.
Proof.
  intros Ct Ess. split; [exact Ct|]. split; [lia|]. split; [auto|].
  exists 0. split; [lia|]. split; [lia|]. rewrite adv_0. exact Ess.
Qed.

Lemma walk_inv ins o v f : forall t p org k,
  consistent ins t org k -> (height t < f)%nat ->
  (qdeg o v (walk f t p) + bdry ins o v t p org k)%nat = total ins o v t p org k.
Proof.
  induction t as [| |l m mf|c0 IH0 c1 IH1 c2 IH2 c3 IH3]; intros p [x y] k C Hf.
  - reflexivity.
  - reflexivity.
  - cbn [walk total]. rewrite qdeg_nil. unfold bdry. cbn [sidec negb].
    rewrite side_start_hi1, side_start_hi2, corner_pt_0, corner_pt_1, corner_pt_2, corner_pt_3, !adv_1, !adv_2.
    unfold qloc. rewrite !leafc_app. lia.
  - cbn [consistent] in C. destruct C as [Hk [C0 [C1 [C2 C3]]]].
    destruct k as [|k]; [congruence|]. cbn [pred] in *.
    cbn [height] in Hf.
    cbn [walk total]. cbn [pred].
    destruct (child_org_xy x y k) as [E0 [E1 [E2 E3]]]. rewrite E0, E1, E2, E3 in *.
    specialize (IH0 (0 :: p) _ _ C0 ltac:(lia)). specialize (IH1 (1 :: p) _ _ C1 ltac:(lia)).
    specialize (IH2 (2 :: p) _ _ C2 ltac:(lia)). specialize (IH3 (3 :: p) _ _ C3 ltac:(lia)).
    rewrite <- IH0, <- IH1, <- IH2, <- IH3. clear IH0 IH1 IH2 IH3.
    unfold work. rewrite !child_branch. cbn [sub Z.eqb Pos.eqb]. rewrite !qdeg_app.
    rewrite (edge2_deg ins o v 2 (or_intror eq_refl) f c0 (0 :: p) (x, y) k c1 (1 :: p) (x + csize k, y) k (x + csize k, y) k);
      [|apply fits_exact; [exact C0|rewrite side_start_hi2; reflexivity]|apply fits_exact; [exact C1|reflexivity]|auto|lia|lia].
    rewrite (edge2_deg ins o v 2 (or_intror eq_refl) f c2 (2 :: p) (x, y + csize k) k c3 (3 :: p) (x + csize k, y + csize k) k
                       (x + csize k, y + csize k) k);
      [|apply fits_exact; [exact C2|rewrite side_start_hi2; reflexivity]|apply fits_exact; [exact C3|reflexivity]|auto|lia|lia].
    rewrite (edge2_deg ins o v 1 (or_introl eq_refl) f c0 (0 :: p) (x, y) k c2 (2 :: p) (x, y + csize k) k (x, y + csize k) k);
      [|apply fits_exact; [exact C0|rewrite side_start_hi1; reflexivity]|apply fits_exact; [exact C2|reflexivity]|auto|lia|lia].
    rewrite (edge2_deg ins o v 1 (or_introl eq_refl) f c1 (1 :: p) (x + csize k, y) k c3 (3 :: p) (x + csize k, y + csize k) k
                       (x + csize k, y + csize k) k);
      [|apply fits_exact; [exact C1|rewrite side_start_hi1; reflexivity]|apply fits_exact; [exact C3|reflexivity]|auto|lia|lia].
    unfold bdry. cbn [sidec pred].
    change (3 - 1) with 2; change (3 - 2) with 1; change (Z.lor 1 2) with 3; change (Z.lor 2 1) with 3;
      change (Z.lor 1 0) with 1; change (Z.lor 2 0) with 2. cbn [sub Z.eqb Pos.eqb].
    rewrite !side_start_hi1, !side_start_hi2, !adv_1, !adv_2, csize_S.
    replace (2 * csize k) with (csize k + csize k) by lia. rewrite !Z.add_assoc.
    lia.
Qed.

(* ------------------------------------------------------------------------- *)
(** * The region boundary owes nothing *)

Lemma sidec_const ins o v A hi c : A = 1 \/ A = 2 -> forall t p org k s,
  consistent ins t org k -> (forall i, 0 <= i <= csize k -> ins (adv A s i) = c) ->
  sidec ins o v A hi t p s k = 0%nat.
Proof.
  intros HA. induction t as [| |l m mf|c0 IH0 c1 IH1 c2 IH2 c3 IH3]; intros p org k s C U; try reflexivity.
  - cbn [sidec]. pose proof (csize_pos k).
    rewrite <- (adv_0 A s) at 1. rewrite !U by lia. rewrite qhalf_same. apply leafc_nil.
  - cbn [consistent] in C. destruct C as [Hk [C0 [C1 [C2 C3]]]].
    destruct k as [|k]; [congruence|]. cbn [pred] in *.
    pose proof (csize_pos k) as Hp. pose proof (csize_S k) as HS.
    assert (U1 : forall i, 0 <= i <= csize k -> ins (adv A s i) = c) by (intros; apply U; lia).
    assert (U2 : forall i, 0 <= i <= csize k -> ins (adv A (adv A s (csize k)) i) = c)
      by (intros; rewrite adv_adv; apply U; lia).
    cbn [sidec pred].
    destruct HA as [-> | ->]; destruct hi;
      change (3 - 1) with 2; change (3 - 2) with 1; change (Z.lor 1 2) with 3; change (Z.lor 2 1) with 3;
      change (Z.lor 1 0) with 1; change (Z.lor 2 0) with 2; cbn [sub Z.eqb Pos.eqb].
    + rewrite (IH2 _ _ _ _ C2 U1), (IH3 _ _ _ _ C3 U2). reflexivity.
    + rewrite (IH0 _ _ _ _ C0 U1), (IH1 _ _ _ _ C1 U2). reflexivity.
    + rewrite (IH1 _ _ _ _ C1 U1), (IH3 _ _ _ _ C3 U2). reflexivity.
    + rewrite (IH0 _ _ _ _ C0 U1), (IH2 _ _ _ _ C2 U2). reflexivity.
Qed.

Lemma bdry_root ins o v t p k :
  consistent ins t (0, 0) k -> boundary_clear ins k -> bdry ins o v t p (0, 0) k = 0%nat.
Proof.
  intros C BC. unfold bdry. rewrite side_start_hi1, side_start_hi2. pose proof (csize_pos k).
  assert (K : forall A hi s, A = 1 \/ A = 2 ->
             (forall i, 0 <= i <= csize k -> ins (adv A s i) = false) -> sidec ins o v A hi t p s k = 0%nat).
  { intros A hi s HA U. apply (sidec_const ins o v A hi false HA t p (0, 0) k s C U). }
  rewrite !K; auto; intros i Hi; rewrite ?adv_1, ?adv_2;
    apply BC; try (apply in_closed_xy; lia); cbn [fst snd]; lia.
Qed.

(* ------------------------------------------------------------------------- *)
(** * (c) Per-leaf accounting *)

Lemma path_eqb_eq p q : path_eqb p q = true <-> p = q.
Proof.
  revert q. induction p as [|x p IH]; intros [|y q]; cbn [path_eqb]; split; try congruence; try discriminate.
  - rewrite andb_true_iff, Z.eqb_eq, IH. intros [-> ->]. reflexivity.
  - intros E. inversion E. subst. rewrite Z.eqb_refl. apply IH. reflexivity.
Qed.

Lemma qvertex_eqb_eq u v : qvertex_eqb u v = true <-> u = v.
Proof.
  destruct u as [p i], v as [q j]. unfold qvertex_eqb. cbn [fst snd].
  rewrite andb_true_iff, path_eqb_eq, Z.eqb_eq. split; [intros [-> ->]; reflexivity|intros E; inversion E; auto].
Qed.

(** The local lemma for a leaf of any level: level 0 against the tables (all 16 masks, as on the
    uniform grid), a collapsed leaf (single vertex 0) for the 14 manifold masks. *)
Lemma qloc_ok l m b0 b1 b2 b3 i :
  m = build_mask b0 b1 b2 b3 -> (l = O \/ corners_manifold m = true) ->
  cnt true i (qloc l m b0 b1 b2 b3) = cnt false i (qloc l m b0 b1 b2 b3) /\
  (cnt true i (qloc l m b0 b1 b2 b3) <= 1)%nat.
Proof.
  intros Em Hl. destruct l as [|l].
  - rewrite qloc_0. subst m. apply (local_bits_lemma b0 b1 b2 b3).
  - destruct Hl as [Hl|Hl]; [discriminate|]. subst m.
    unfold qloc, qhalf. cbn [Nat.ltb Nat.leb].
    destruct b0, b1, b2, b3; try discriminate Hl; destruct i; cbn -[e2 p2]; lia.
Qed.

Lemma leaf_total_ok ins l m mf p x y k v :
  consistent ins (QA l m mf) (x, y) k ->
  total ins true v (QA l m mf) p (x, y) k = total ins false v (QA l m mf) p (x, y) k /\
  (total ins true v (QA l m mf) p (x, y) k <= 1)%nat.
Proof.
  intros C. cbn [total]. unfold leafc. destruct (path_eqb p (fst v)); [|split; lia].
  cbn [consistent] in C. destruct C as [El [Em [_ [_ [_ Ck]]]]].
  apply qloc_ok.
  - rewrite Em. reflexivity.
  - destruct k as [|k]; [left; congruence|right]. apply Ck. discriminate.
Qed.

Lemma total_balanced ins v : forall t p org k, consistent ins t org k ->
  total ins true v t p org k = total ins false v t p org k.
Proof.
  induction t as [| |l m mf|c0 IH0 c1 IH1 c2 IH2 c3 IH3]; intros p [x y] k C; try reflexivity.
  - apply leaf_total_ok; auto.
  - cbn [consistent] in C. destruct C as [Hk [C0 [C1 [C2 C3]]]]. cbn [total].
    rewrite (IH0 _ _ _ C0), (IH1 _ _ _ C1), (IH2 _ _ _ C2), (IH3 _ _ _ C3). reflexivity.
Qed.

Lemma total_under ins o v : forall t p org k,
  total ins o v t p org k <> 0%nat -> exists xs, fst v = xs ++ p.
Proof.
  induction t as [| |l m mf|c0 IH0 c1 IH1 c2 IH2 c3 IH3]; intros p org k H; cbn [total] in H; try congruence.
  - unfold leafc in H. destruct (path_eqb p (fst v)) eqn:E; [|congruence].
    apply path_eqb_eq in E. exists []. rewrite E. reflexivity.
  - assert (K : forall i t' o' k', (forall p org k, total ins o v t' p org k <> 0%nat -> exists xs, fst v = xs ++ p) ->
                  total ins o v t' (i :: p) o' k' <> 0%nat -> exists xs, fst v = xs ++ p).
    { intros i t' o' k' IH N. destruct (IH _ _ _ N) as [xs E]. exists (xs ++ [i]). rewrite <- app_assoc. exact E. }
    destruct (Nat.eq_dec (total ins o v c0 (0 :: p) (child_org org k 0) (pred k)) 0) as [Z0|N0]; [|exact (K 0 c0 _ _ IH0 N0)].
    destruct (Nat.eq_dec (total ins o v c1 (1 :: p) (child_org org k 1) (pred k)) 0) as [Z1|N1]; [|exact (K 1 c1 _ _ IH1 N1)].
    destruct (Nat.eq_dec (total ins o v c2 (2 :: p) (child_org org k 2) (pred k)) 0) as [Z2|N2]; [|exact (K 2 c2 _ _ IH2 N2)].
    destruct (Nat.eq_dec (total ins o v c3 (3 :: p) (child_org org k 3) (pred k)) 0) as [Z3|N3]; [|exact (K 3 c3 _ _ IH3 N3)].
    lia.
Qed.

Lemma suffix_unique (xs ys : list Z) i j p : xs ++ i :: p = ys ++ j :: p -> i = j.
Proof.
  intros E. change (i :: p) with ([i] ++ p) in E. change (j :: p) with ([j] ++ p) in E.
  rewrite !app_assoc in E. apply app_inv_tail in E. apply app_inj_tail in E. tauto.
Qed.

Lemma total_le1 ins v : forall t p org k, consistent ins t org k ->
  (total ins true v t p org k <= 1)%nat.
Proof.
  induction t as [| |l m mf|c0 IH0 c1 IH1 c2 IH2 c3 IH3]; intros p [x y] k C; try (cbn [total]; lia).
  - apply leaf_total_ok; auto.
  - cbn [consistent] in C. destruct C as [Hk [C0 [C1 [C2 C3]]]]. cbn [total].
    specialize (IH0 (0 :: p) _ _ C0). specialize (IH1 (1 :: p) _ _ C1).
    specialize (IH2 (2 :: p) _ _ C2). specialize (IH3 (3 :: p) _ _ C3).
    assert (X : forall i j t1 t2 o1 o2 k1 k2, i <> j ->
              total ins true v t1 (i :: p) o1 k1 <> 0%nat -> total ins true v t2 (j :: p) o2 k2 <> 0%nat -> False).
    { intros i j t1 t2 o1 o2 k1 k2 Hij N1 N2.
      destruct (total_under _ _ _ _ _ _ _ N1) as [xs E1]. destruct (total_under _ _ _ _ _ _ _ N2) as [ys E2].
      rewrite E1 in E2. apply suffix_unique in E2. contradiction. }
    destruct (Nat.eq_dec (total ins true v c0 (0 :: p) (child_org (x, y) k 0) (pred k)) 0) as [Z0|N0];
    destruct (Nat.eq_dec (total ins true v c1 (1 :: p) (child_org (x, y) k 1) (pred k)) 0) as [Z1|N1];
    destruct (Nat.eq_dec (total ins true v c2 (2 :: p) (child_org (x, y) k 2) (pred k)) 0) as [Z2|N2];
    destruct (Nat.eq_dec (total ins true v c3 (3 :: p) (child_org (x, y) k 3) (pred k)) 0) as [Z3|N3];
    try lia; exfalso;
    first [ exact (X 0 1 _ _ _ _ _ _ ltac:(lia) N0 N1) | exact (X 0 2 _ _ _ _ _ _ ltac:(lia) N0 N2)
          | exact (X 0 3 _ _ _ _ _ _ ltac:(lia) N0 N3) | exact (X 1 2 _ _ _ _ _ _ ltac:(lia) N1 N2)
          | exact (X 1 3 _ _ _ _ _ _ ltac:(lia) N1 N3) | exact (X 2 3 _ _ _ _ _ _ ltac:(lia) N2 N3) ].
Qed.

(* ------------------------------------------------------------------------- *)
(** * MAIN THEOREM *)

Theorem walk_balanced : forall ins t k, consistent ins t (0, 0) k -> boundary_clear ins k ->
  forall v, qout_deg v (contour_walk t) = qin_deg v (contour_walk t) /\
            (qout_deg v (contour_walk t) <= 1)%nat.
Proof.
  intros ins t k C BC v. rewrite qout_deg_qdeg, qin_deg_qdeg. unfold contour_walk.
  pose proof (walk_inv ins true v (S (height t)) t [] (0, 0) k C ltac:(lia)) as Ht.
  pose proof (walk_inv ins false v (S (height t)) t [] (0, 0) k C ltac:(lia)) as Hf.
  rewrite bdry_root in Ht, Hf by auto. rewrite Nat.add_0_r in Ht, Hf. rewrite Ht, Hf.
  split; [apply total_balanced; auto|apply total_le1; auto].
Qed.

(* ------------------------------------------------------------------------- *)
(** * Bridge to the welding theorem (Contours.v / ContoursSem.v) *)

Definition qverts (s : list qseg) : list qvertex := map fst s ++ map snd s.
Definition qrenum (idx : qvertex -> nat) (s : list qseg) : list seg :=
  map (fun x => (idx (fst x), idx (snd x))) s.
Definition qinj_on (idx : qvertex -> nat) (s : list qseg) : Prop :=
  forall u v, In u (qverts s) -> In v (qverts s) -> idx u = idx v -> u = v.

Lemma in_qverts o x s : In x s -> In (qsel o x) (qverts s).
Proof.
  intros H. unfold qverts. apply in_or_app.
  destruct o; [left|right]; simpl; apply in_map; exact H.
Qed.

Lemma out_deg_qrenum idx s n :
  out_deg n (qrenum idx s) = length (filter (fun x => Nat.eqb (idx (qsel true x)) n) s).
Proof. unfold out_deg, qrenum. rewrite length_filter_map. reflexivity. Qed.
Lemma in_deg_qrenum idx s n :
  in_deg n (qrenum idx s) = length (filter (fun x => Nat.eqb (idx (qsel false x)) n) s).
Proof. unfold in_deg, qrenum. rewrite length_filter_map. reflexivity. Qed.

Lemma deg_qrenum_vertex o idx s v :
  qinj_on idx s -> In v (qverts s) ->
  length (filter (fun x => Nat.eqb (idx (qsel o x)) (idx v)) s) = qdeg o v s.
Proof.
  intros Hinj Hv. unfold qdeg. f_equal. apply filter_ext_in. intros x Hx.
  destruct (qvertex_eqb (qsel o x) v) eqn:E.
  - apply qvertex_eqb_eq in E. rewrite E. apply Nat.eqb_refl.
  - apply Nat.eqb_neq. intros C. apply Hinj in C; auto using in_qverts.
    apply qvertex_eqb_eq in C. congruence.
Qed.

Lemma loops_qrenum idx s :
  qinj_on idx s ->
  (forall v, qout_deg v s = qin_deg v s /\ (qout_deg v s <= 1)%nat) ->
  loops (qrenum idx s).
Proof.
  intros Hinj Hdeg.
  assert (K : forall n, out_deg n (qrenum idx s) = in_deg n (qrenum idx s) /\
                        (out_deg n (qrenum idx s) <= 1)%nat).
  { intros n. rewrite out_deg_qrenum, in_deg_qrenum.
    destruct (existsb (fun v => Nat.eqb (idx v) n) (qverts s)) eqn:Ex.
    - apply existsb_exists in Ex. destruct Ex as [v [Hv E]]. apply Nat.eqb_eq in E. subst n.
      rewrite !deg_qrenum_vertex by auto. apply Hdeg.
    - assert (N : forall o x, In x s -> Nat.eqb (idx (qsel o x)) n = false).
      { intros o x Hx. destruct (Nat.eqb (idx (qsel o x)) n) eqn:E; auto.
        assert (existsb (fun v => Nat.eqb (idx v) n) (qverts s) = true) as C.
        { apply existsb_exists. exists (qsel o x). split; auto using in_qverts. }
        congruence. }
      rewrite !filter_none; [simpl; auto| |]; intros x Hx; apply N; auto. }
  split.
  - intros n. destruct (K n) as [E L]. split; [exact L|]. rewrite <- E. exact L.
  - intros n. apply K.
Qed.

(** 3. collectChildren followed by the dual walk followed by Contours::collect: every contour
       of an adaptive quadtree is a closed polyline.  ([uncollapsed pre] is not used.) *)
Theorem adaptive_contours_closed_any : forall ins ok pre k idx,
  consistent ins pre (0, 0) k -> boundary_clear ins k ->
  let soup := contour_walk (QuadTree.collect ok k [] pre) in
  qinj_on idx soup ->
  forall l, In l (Contours.collect (qrenum idx soup)) -> closed l.
Proof.
  intros ins ok pre k idx C BC soup Hinj. apply collect_closed_loops. apply loops_qrenum; auto.
  apply (walk_balanced ins _ k); auto. apply collect_consistent; auto.
Qed.

Theorem adaptive_contours_closed : forall ins ok pre k idx,
  uncollapsed pre -> consistent ins pre (0, 0) k -> boundary_clear ins k ->
  let soup := contour_walk (QuadTree.collect ok k [] pre) in
  qinj_on idx soup ->
  forall l, In l (Contours.collect (qrenum idx soup)) -> closed l.
Proof. intros ins ok pre k idx _. apply (adaptive_contours_closed_any ins). Qed.

(* an injective numbering always exists: position of first occurrence *)
Fixpoint qindex_of (v : qvertex) (l : list qvertex) : nat :=
  match l with
  | [] => 0
  | u :: r => if qvertex_eqb u v then 0 else S (qindex_of v r)
  end.
Definition qcanon_idx (s : list qseg) (v : qvertex) : nat := qindex_of v (qverts s).

Lemma qveqb_refl v : qvertex_eqb v v = true.
Proof. apply qvertex_eqb_eq. reflexivity. Qed.

Lemma qindex_of_inj l : forall u v, In u l -> In v l -> qindex_of u l = qindex_of v l -> u = v.
Proof.
  induction l as [|w r IH]; simpl; intros u v Hu Hv E; [contradiction|].
  destruct (qvertex_eqb w u) eqn:Eu, (qvertex_eqb w v) eqn:Ev; try discriminate.
  - apply qvertex_eqb_eq in Eu, Ev. congruence.
  - destruct Hu as [<-|Hu]; [rewrite qveqb_refl in Eu; discriminate|].
    destruct Hv as [<-|Hv]; [rewrite qveqb_refl in Ev; discriminate|].
    injection E as E. auto.
Qed.

Lemma qcanon_idx_inj s : qinj_on (qcanon_idx s) s.
Proof. intros u v Hu Hv E. eapply qindex_of_inj; eauto. Qed.

Corollary adaptive_contours_closed_canon ins ok pre k :
  consistent ins pre (0, 0) k -> boundary_clear ins k ->
  let soup := contour_walk (QuadTree.collect ok k [] pre) in
  forall l, In l (Contours.collect (qrenum (qcanon_idx soup) soup)) -> closed l.
Proof. intros C BC soup. apply (adaptive_contours_closed_any ins); auto. apply qcanon_idx_inj. Qed.

(* ------------------------------------------------------------------------- *)
(** * 4. Soundness of the executable checkers *)

Lemma in_zrange i n : 0 <= i < n -> In i (zrange n).
Proof.
  intros H. unfold zrange. rewrite <- (Z2Nat.id i) by lia. apply in_map. apply in_seq. lia.
Qed.

Lemma in_closed_pts o k q : in_closed o k q -> In q (closed_pts o k).
Proof.
  intros [Hx Hy]. unfold closed_pts. apply in_flat_map. exists (fst q - fst o). split.
  - apply in_zrange. lia.
  - apply in_map_iff. exists (snd q - snd o). split.
    + destruct q as [qx qy]. cbn [fst snd]. f_equal; lia.
    + apply in_zrange. lia.
Qed.

Lemma in_run_pts q0 d n i : 0 <= i <= n ->
  In (fst q0 + i * fst d, snd q0 + i * snd d) (run_pts q0 d n).
Proof.
  intros H. unfold run_pts. apply in_map_iff. exists i. split; [reflexivity|]. apply in_zrange. lia.
Qed.

Lemma nth_S_cons (a : bool) l n : nth (S n) (a :: l) false = nth n l false.
Proof. reflexivity. Qed.
Lemma nth_0_cons (a : bool) l : nth 0 (a :: l) false = a.
Proof. reflexivity. Qed.

Lemma changes_cons2 a b r : changes (a :: b :: r) = ((if Bool.eqb a b then 0 else 1) + changes (b :: r))%nat.
Proof. reflexivity. Qed.

Lemma changes_zero l : changes l = 0%nat -> forall i, (i < length l)%nat -> nth i l false = nth 0 l false.
Proof.
  induction l as [|a r IH]; intros H i Hi; [destruct i; reflexivity|].
  destruct r as [|b r'].
  - cbn [length] in Hi. assert (i = 0)%nat as -> by lia. reflexivity.
  - rewrite changes_cons2 in H. destruct (Bool.eqb a b) eqn:E; [|discriminate].
    apply eqb_prop in E. subst b. destruct i as [|i]; [reflexivity|].
    rewrite nth_S_cons, nth_0_cons. cbn [length] in Hi. rewrite (IH H i) by (cbn [length]; lia). reflexivity.
Qed.

Lemma changes_mono l : (changes l <= 1)%nat ->
  forall i j k, (i <= j <= k)%nat -> (k < length l)%nat -> nth i l false = nth k l false -> nth j l false = nth i l false.
Proof.
  induction l as [|a r IH]; intros H i j k Hij Hk E; [cbn [length] in Hk; lia|].
  destruct r as [|b r'].
  - cbn [length] in Hk. assert (i = 0 /\ j = 0)%nat as [-> ->] by lia. reflexivity.
  - rewrite changes_cons2 in H. destruct i as [|i].
    + destruct j as [|j]; [reflexivity|]. destruct k as [|k]; [lia|].
      rewrite nth_S_cons, nth_0_cons in E. rewrite nth_S_cons, nth_0_cons. cbn [length] in Hk.
      destruct (Bool.eqb a b) eqn:Eab.
      * apply eqb_prop in Eab. subst b. rewrite <- (nth_0_cons a r') in E at 1.
        rewrite (IH ltac:(lia) 0%nat j k ltac:(lia) ltac:(cbn [length]; lia) E). reflexivity.
      * exfalso. assert (Hz : changes (b :: r') = 0%nat) by lia.
        rewrite (changes_zero _ Hz k) in E by (cbn [length]; lia). rewrite nth_0_cons in E. subst b.
        rewrite eqb_reflx in Eab. discriminate.
    + destruct j as [|j]; [lia|]. destruct k as [|k]; [lia|].
      rewrite !nth_S_cons in E. rewrite !nth_S_cons. cbn [length] in Hk.
      apply (IH ltac:(destruct (Bool.eqb a b); lia) i j k); auto; try lia. cbn [length]. lia.
Qed.

Lemma nth_map_seq (f : nat -> bool) N m : (m < N)%nat -> nth m (map f (seq 0 N)) false = f m.
Proof.
  intros H. rewrite (nth_indep _ false (f 0%nat)) by (rewrite map_length, seq_length; exact H).
  rewrite map_nth, seq_nth by exact H. reflexivity.
Qed.

Lemma monotone_runb_sound ins q0 d n : 0 <= n ->
  monotone_runb ins q0 d n = true -> monotone_run ins q0 d n.
Proof.
  intros Hn H. unfold monotone_runb in H. apply Nat.leb_le in H.
  unfold run_pts, zrange in H. rewrite !map_map in H.
  set (g := fun x : nat => ins (fst q0 + Z.of_nat x * fst d, snd q0 + Z.of_nat x * snd d)) in H.
  intros i j l Hi Hl E.
  pose proof (changes_mono _ H (Z.to_nat i) (Z.to_nat j) (Z.to_nat l)) as M.
  rewrite map_length, seq_length in M.
  rewrite !nth_map_seq in M by lia. unfold g in M. rewrite !Z2Nat.id in M by lia.
  apply M; auto; lia.
Qed.

Lemma sides_monotoneb_sound ins o k : sides_monotoneb ins o k = true -> sides_monotone ins o k.
Proof.
  unfold sides_monotoneb, sides_monotone. rewrite !andb_true_iff. pose proof (csize_pos k).
  intros [[[H1 H2] H3] H4]. repeat split; apply monotone_runb_sound; auto; lia.
Qed.

Theorem consistentb_sound ins : forall t o k, consistentb ins t o k = true -> consistent ins t o k.
Proof.
  induction t as [| |l m mf|c0 IH0 c1 IH1 c2 IH2 c3 IH3]; intros o k H; cbn [consistentb consistent] in *.
  - rewrite forallb_forall in H. intros q Hq. apply negb_true_iff. apply H. apply in_closed_pts. exact Hq.
  - rewrite forallb_forall in H. intros q Hq. apply H. apply in_closed_pts. exact Hq.
  - rewrite !andb_true_iff in H. destruct H as [[[[H1 H2] H3] H4] H5].
    apply Nat.eqb_eq in H1. apply Z.eqb_eq in H2. apply negb_true_iff in H3, H4.
    apply Z.eqb_neq in H3, H4.
    split; [exact H1|]. split; [exact H2|]. split; [exact H3|]. split; [exact H4|]. split.
    + intros ->. cbn [Nat.eqb] in H5. apply eqb_prop in H5. exact H5.
    + intros Hk. destruct k; [congruence|]. cbn [Nat.eqb] in H5. rewrite !andb_true_iff in H5.
      destruct H5 as [[H5 H6] H7]. split; [exact H5|]. split; [exact H6|].
      apply sides_monotoneb_sound. exact H7.
  - rewrite !andb_true_iff in H. destruct H as [[[[H1 H2] H3] H4] H5].
    apply negb_true_iff in H1. apply Nat.eqb_neq in H1.
    split; [exact H1|]. split; [apply IH0; exact H2|]. split; [apply IH1; exact H3|]. split; [apply IH2; exact H4|apply IH3; exact H5].
Qed.

Theorem boundary_clearb_sound ins k : boundary_clearb ins k = true -> boundary_clear ins k.
Proof.
  unfold boundary_clearb, boundary_clear. rewrite forallb_forall. intros H [qx qy] Hq Hb.
  apply (proj1 (in_closed_xy 0 0 k qx qy)) in Hq. cbn [fst snd] in Hb. apply negb_true_iff. apply H.
  rewrite !in_app_iff.
  destruct Hb as [-> | [-> | [-> | ->]]].
  - right; left. replace (0, qy) with (fst (0, 0) + qy * fst (0, 1), snd (0, 0) + qy * snd (0, 1)) by (cbn [fst snd]; f_equal; lia).
    apply in_run_pts. lia.
  - right; right; right.
    replace (csize k, qy) with (fst (csize k, 0) + qy * fst (0, 1), snd (csize k, 0) + qy * snd (0, 1)) by (cbn [fst snd]; f_equal; lia).
    apply in_run_pts. lia.
  - left. replace (qx, 0) with (fst (0, 0) + qx * fst (1, 0), snd (0, 0) + qx * snd (1, 0)) by (cbn [fst snd]; f_equal; lia).
    apply in_run_pts. lia.
  - right; right; left.
    replace (qx, csize k) with (fst (0, csize k) + qx * fst (1, 0), snd (0, csize k) + qx * snd (1, 0)) by (cbn [fst snd]; f_equal; lia).
    apply in_run_pts. lia.
Qed.

(* ------------------------------------------------------------------------- *)
(** * 5. Non-vacuity: the hypotheses hold for the pruned tree of EVERY sign function *)

(* the tree before any collapse: prune uniform cells, subdivide the others down to level 0 *)
Fixpoint build (ins : pt2 -> bool) (k : nat) (o : pt2) {struct k} : qtree :=
  if forallb (fun q => negb (ins q)) (closed_pts o k) then QE
  else if forallb ins (closed_pts o k) then QF
  else match k with
       | O => let m := mask_of ins o 0 in QA 0 m (corners_manifold m)
       | S k' => QB (build ins k' (child_org o k 0)) (build ins k' (child_org o k 1))
                    (build ins k' (child_org o k 2)) (build ins k' (child_org o k 3))
       end.

Lemma build_uncollapsed ins : forall k o, uncollapsed (build ins k o).
Proof.
  induction k as [|k IH]; intros o; cbn [build];
    destruct (forallb _ _); try exact I; destruct (forallb _ _); try exact I; cbn [uncollapsed]; auto.
Qed.

Lemma closed_pts_0 x y : closed_pts (x, y) 0 = [(x + 0, y + 0); (x + 0, y + 1); (x + 1, y + 0); (x + 1, y + 1)].
Proof. reflexivity. Qed.

Lemma build_consistent ins : forall k o, consistent ins (build ins k o) o k.
Proof.
  induction k as [|k IH]; intros o; cbn [build].
  - destruct (forallb (fun q => negb (ins q)) (closed_pts o 0)) eqn:E1.
    { cbn [consistent]. rewrite forallb_forall in E1. intros q Hq. apply negb_true_iff. apply E1.
      apply in_closed_pts. exact Hq. }
    destruct (forallb ins (closed_pts o 0)) eqn:E2.
    { cbn [consistent]. rewrite forallb_forall in E2. intros q Hq. apply E2. apply in_closed_pts. exact Hq. }
    cbv zeta. cbn [consistent]. destruct o as [x y].
    rewrite closed_pts_0 in E1, E2. cbn [forallb] in E1, E2. rewrite !Z.add_0_r in E1, E2.
    rewrite mask_of_xy. rewrite csize_0.
    split; [reflexivity|]. split; [reflexivity|]. split; [|split; [|split; [reflexivity|congruence]]].
    + intros Hm. destruct (ins (x, y)), (ins (x + 1, y)), (ins (x, y + 1)), (ins (x + 1, y + 1));
        try discriminate Hm; discriminate E1.
    + intros Hm. destruct (ins (x, y)), (ins (x + 1, y)), (ins (x, y + 1)), (ins (x + 1, y + 1));
        try discriminate Hm; discriminate E2.
  - destruct (forallb (fun q => negb (ins q)) (closed_pts o (S k))) eqn:E1.
    { cbn [consistent]. rewrite forallb_forall in E1. intros q Hq. apply negb_true_iff. apply E1.
      apply in_closed_pts. exact Hq. }
    destruct (forallb ins (closed_pts o (S k))) eqn:E2.
    { cbn [consistent]. rewrite forallb_forall in E2. intros q Hq. apply E2. apply in_closed_pts. exact Hq. }
    cbn [consistent pred]. split; [discriminate|]. auto.
Qed.

(** The whole pipeline, for every sign function with a clear boundary, every depth and every
    numerical oracle: prune, collapse (collectChildren), walk, weld -- every contour is closed. *)
Corollary adaptive_pipeline_closed ins ok k :
  boundary_clear ins k ->
  let soup := contour_walk (QuadTree.collect ok k [] (build ins k (0, 0))) in
  (forall v, qout_deg v soup = qin_deg v soup /\ (qout_deg v soup <= 1)%nat) /\
  (forall l, In l (Contours.collect (qrenum (qcanon_idx soup) soup)) -> closed l).
Proof.
  intros BC soup. split.
  - apply (walk_balanced ins _ k); auto. apply collect_consistent. apply build_consistent.
  - apply (adaptive_contours_closed_canon ins); auto. apply build_consistent.
Qed.

(* ------------------------------------------------------------------------- *)
(** * 5a. A concrete adaptive tree: 16 x 16 lattice, a rectangle with a one-point notch *)

Definition ins_notch (q : pt2) : bool :=
  ((3 <=? fst q) && (fst q <=? 12) && (3 <=? snd q) && (snd q <=? 8)) &&
  negb ((fst q =? 5) && (snd q =? 8)).
Definition pre_notch : qtree := build ins_notch 4 (0, 0).
Definition post_notch : qtree := QuadTree.collect (fun _ => true) 4 [] pre_notch.

Example notch_pre_ok :
  uncollapsed pre_notch /\ height pre_notch = 4%nat /\
  consistentb ins_notch pre_notch (0, 0) 4 = true /\ boundary_clearb ins_notch 4 = true.
Proof. split; [apply build_uncollapsed|]. vm_compute. auto. Qed.

(* leaves of levels 3, 2, 1 and 0 side by side: the cell [2; 1] (children order: 0 1 2 3) keeps its
   level-0 leaves next to the collapsed leaves QA 1 3 and QA 2 2 *)
Example notch_post :
  post_notch =
  QB (QB (QA 2 8 true) (QA 2 12 true) (QA 2 10 true)
         (QB QF QF (QB QF QF (QA 0 7 true) (QA 0 11 true)) QF))
     (QA 3 4 true)
     (QB (QA 2 2 true)
         (QB (QB (QA 0 1 true) (QA 0 2 true) QE QE) (QA 1 3 true) QE QE)
         QE QE)
     (QA 3 1 true).
Proof. vm_compute. reflexivity. Qed.

Example notch_post_consistent : consistentb ins_notch post_notch (0, 0) 4 = true.
Proof. vm_compute. reflexivity. Qed.

(* 11 segments; ([1;1;2],0) -> ([1;0;1;2],0) joins the level-1 leaf QA 1 3 to the level-0 leaf QA 0 2,
   ([0;0;1;2],0) -> ([0;2],0) joins the level-0 leaf QA 0 1 to the level-2 leaf QA 2 2 *)
Example notch_soup :
  contour_walk post_notch =
  [([3; 2; 3; 0], 0, ([2; 2; 3; 0], 0)); ([0; 0], 0, ([1; 0], 0));
   ([2; 0], 0, ([0; 0], 0)); ([1; 1; 2], 0, ([1; 0; 1; 2], 0));
   ([0; 0; 1; 2], 0, ([0; 2], 0)); ([1; 0], 0, ([1], 0));
   ([3], 0, ([1; 1; 2], 0)); ([0; 2], 0, ([2; 0], 0));
   ([2; 2; 3; 0], 0, ([0; 0; 1; 2], 0));
   ([1; 0; 1; 2], 0, ([3; 2; 3; 0], 0)); ([1], 0, ([3], 0))].
Proof. vm_compute. reflexivity. Qed.

(* one closed polyline through all 11 vertices *)
Example notch_contours :
  let s := contour_walk post_notch in
  Contours.collect (qrenum (qcanon_idx s) s) = [[0; 8; 4; 7; 2; 1; 5; 10; 6; 3; 9; 0]]%nat.
Proof. vm_compute. reflexivity. Qed.

Example notch_closed :
  let s := contour_walk post_notch in
  forall l, In l (Contours.collect (qrenum (qcanon_idx s) s)) -> closed l.
Proof.
  apply (adaptive_contours_closed ins_notch (fun _ => true) pre_notch 4).
  - apply build_uncollapsed.
  - apply consistentb_sound. vm_compute. reflexivity.
  - apply boundary_clearb_sound. vm_compute. reflexivity.
  - apply qcanon_idx_inj.
Qed.

(* ------------------------------------------------------------------------- *)
(** * 5b. The collapse tests are needed *)

Fixpoint graft (t : qtree) (rp : list Z) (new : qtree) : qtree :=
  match rp with
  | [] => new
  | i :: r =>
      match t with
      | QB c0 c1 c2 c3 =>
          if i =? 0 then QB (graft c0 r new) c1 c2 c3
          else if i =? 1 then QB c0 (graft c1 r new) c2 c3
          else if i =? 2 then QB c0 c1 (graft c2 r new) c3
          else QB c0 c1 c2 (graft c3 r new)
      | _ => t
      end
  end.

(* 8 x 8 lattice, two filled points (4,2) and (4,4) with the empty point (4,3) between them *)
Definition ins_two (q : pt2) : bool := (fst q =? 4) && ((snd q =? 2) || (snd q =? 4)).
Definition post_two : qtree := QuadTree.collect (fun _ => true) 3 [] (build ins_two 3 (0, 0)).
(* the cell [2,4] x [2,4] (child 3 of child 0) collapsed although leafsAreManifold fails on its
   right side: (4,2) filled, (4,3) empty, (4,4) filled *)
Definition bad_two : qtree := graft post_two [0; 3] (QA 1 10 true).

Example collapse_tests_needed :
  (* the honest tree keeps the cell as a branch, is consistent, and every vertex has degree 1/1 *)
  sub (sub post_two 0) 3 = QB QE (QA 0 2 true) QE (QA 0 8 true) /\
  consistentb ins_two post_two (0, 0) 3 = true /\ boundary_clearb ins_two 3 = true /\
  (* only leafsAreManifold objects to the collapse *)
  corners_manifold 10 = true /\
  leafs_manifold QE (QA 0 2 true) QE (QA 0 8 true) false true false true = false /\
  (* with the cell collapsed anyway the tree is no longer consistent ... *)
  consistentb ins_two bad_two (0, 0) 3 = false /\
  (* ... and its vertex is left twice and entered twice *)
  qout_deg ([3; 0], 0) (contour_walk bad_two) = 2%nat /\
  qin_deg ([3; 0], 0) (contour_walk bad_two) = 2%nat /\
  (* the welded "contour" passes three times through it *)
  (let s := contour_walk bad_two in
   Contours.collect (qrenum (qcanon_idx s) s) = [[0; 2; 1; 3; 0; 7; 5; 6; 0]]%nat).
Proof. vm_compute. repeat split; reflexivity. Qed.

(* boundary_clear is needed as well: a solid touching the region boundary leaves open ends *)
Definition ins_edge (q : pt2) : bool := (fst q =? 0) && (snd q =? 1).
Example boundary_clear_needed :
  let t := build ins_edge 1 (0, 0) in
  consistentb ins_edge t (0, 0) 1 = true /\ boundary_clearb ins_edge 1 = false /\
  contour_walk t = [([0], 0, ([2], 0))].
Proof. vm_compute. repeat split; reflexivity. Qed.

(* ------------------------------------------------------------------------- *)
Print Assumptions collect_consistent.
Print Assumptions collect_height.
Print Assumptions walk_balanced.
Print Assumptions adaptive_contours_closed.
Print Assumptions adaptive_contours_closed_any.
Print Assumptions consistentb_sound.
Print Assumptions boundary_clearb_sound.
Print Assumptions adaptive_pipeline_closed.
Print Assumptions collapse_tests_needed.
