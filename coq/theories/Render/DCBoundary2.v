(* C10 on a uniform grid, the "bound" half: the contour soup of Render/DCGrid2.v IS the boundary
   of the set of inside lattice points, at lattice resolution; every segment is directed with the
   solid on its LEFT; and the contour lies within one cell of the zero set of any field that is
   continuous along lattice edges and has the signs [ins] at the lattice points.
   (2D analogue of Render/DCBoundary.v, which does the same for the 3D mesher / property C04.)

   PART A (combinatorial, over Z^2)
   emit2_empty, emit2_shape   [emit2 ins A p] is [] when the lattice edge (A, p) does not change
                            sign, and otherwise the single segment [seg_of ins A p] between the
                            vertices [v_lo] (cell p - perp) and [v_hi] (cell p).
   emit2_nonempty_iff       emit2 <> [] <-> sign_change2.
   emit2_length             1 segment when the edge changes sign, 0 otherwise.
   emit2_segment            an emitted segment is the only one of its edge, joins one vertex of
                            cell p - perp to one vertex of cell p, both patch indices are >= 0.
   soup_size                length (contour_soup ins E) = #(sign-changing edges of E).
   soup_size_exact          = length E when E lists sign-changing edges only.
   soup_size_finite         = length (edges_of F) for a finite solid F.
   covers2_allows_spare_edges  [covers2] alone does not give length E: a concrete E.
   crossings2_parity        DISCRETE SEPARATION: along any lattice path the number of steps whose
                            lattice edge changes sign is odd iff the two ends differ in [ins].
   crossings2_are_segments  these steps are exactly the steps whose lattice edge carries a segment.
   crossed_edges_in_soup    under [covers2] that edge is listed in E and its segment is in the soup.
   inside_outside_separated2, same_side_even2, closed_path_even2   corollaries.
   seg_orientation          ORIENTATION: with o_from, o_to the cell origins of the two ends of the
                            segment emitted for (A, p) and n the unit vector from the OUTSIDE end
                            of the lattice edge to its INSIDE end,
                               o_to - o_from = rot_cw n    and    (o_to - o_from) x n = +1
                            for both axes and both sign configurations: n is the direction of
                            travel turned a quarter turn counter-clockwise, i.e. THE SOLID IS ON
                            THE LEFT of the direction of travel.  In the usual frame (x to the
                            right, y upwards; filled = f < 0) libfive's contours run
                            COUNTER-CLOCKWISE around filled regions and clockwise around holes.
   inside_left_outside_right  the same with positions: relative to the directed line through the
                            centres of the two cells, the inside end of the lattice edge is
                            strictly to the left and the outside end strictly to the right.
   contours_wind_consistently  every segment of a whole soup.

   PART B (geometric, over R^2, grid origin og, spacing h)
   ivt_01                   1D IVT on [0, 1], either sign order (DCBoundary.sign_change_has_zero is
                            stated for R^3 lattice edges, so the 1D core is restated here).
   sign_change_edge_has_zero2  a sign-changing lattice edge contains a zero of f.
   edge_in_cells2           the whole lattice edge lies in both closed cells adjacent to it.
   seg_cells_meet_curve     one zero of f lies in the cells of both vertices of the segment.
   cell_diameter2           two points of one cell are at Euclidean distance <= sqrt 2 * h.
   vertices_near_curve, contour_vertices_near_curve
                            a contour vertex placed inside its own cell (HYPOTHESIS: the 2D
                            contourer's QEF solve is not clamped to the cell, see the recorded
                            finding) is within sqrt 2 * h of a zero of f that lies in that cell.
   disc_example             the hypotheses hold for the disc of radius 1/2 on the unit grid
                            ([F_point], 4 segments).

   PART C  computed examples on [F_block], [F_saddle], [F_saddle'], [F_ring] (a solid with a hole).

   segments_are_boundary_edges, contours_separate, contours_orientation,
   boundary2_examples       the statements bundled as quoted by Props/Properties_C10.v. *)
From Coq Require Import List ZArith Bool Lia.
From LF Require Import Gen.MarchTables_gen Render.DCGrid2 Render.DCGrid2Sem.
Import ListNotations.
Local Open Scope Z_scope.

(* ================================================================== *)
(* PART A                                                              *)
(* ================================================================== *)

(* ------------------------------------------------------------------ *)
(* A1. the segment of a lattice edge                                   *)
(* ------------------------------------------------------------------ *)

(* the template argument D of load<A, D> *)
Definition dir_of (ins : pt2 -> bool) (A : Z) (p : pt2) : bool :=
  negb ((ins p && (A =? 2)) || (ins (padd2 p (bits2 A)) && (A =? 1))).
(* es[0], es[1] *)
Definition es_of (D : bool) (A : Z) : Z * Z :=
  if xorb D (A =? 1) then (e2 3 (3 - A), e2 A 0) else (e2 (3 - A) 3, e2 0 A).
(* ts[0]: the cell below (A = X) / to the left of (A = Y) the lattice edge; ts[1] is p itself *)
Definition cell_lo (A : Z) (p : pt2) : pt2 := psub2 p (bits2 (3 - A)).
Definition v_lo (ins : pt2 -> bool) (A : Z) (p : pt2) : vertex2 :=
  (cell_lo A p, p2 (mask2 ins (cell_lo A p)) (fst (es_of (dir_of ins A p) A))).
Definition v_hi (ins : pt2 -> bool) (A : Z) (p : pt2) : vertex2 :=
  (p, p2 (mask2 ins p) (snd (es_of (dir_of ins A p) A))).
Definition seg_of (ins : pt2 -> bool) (A : Z) (p : pt2) : seg2 :=
  if dir_of ins A p then (v_lo ins A p, v_hi ins A p) else (v_hi ins A p, v_lo ins A p).

Lemma sign_change2_eqb ins A p :
  sign_change2 ins (A, p) = negb (Bool.eqb (ins p) (ins (padd2 p (bits2 A)))).
Proof. reflexivity. Qed.

Lemma emit2_empty ins A p : sign_change2 ins (A, p) = false -> emit2 ins A p = [].
Proof. apply emit2_nil. Qed.

Theorem emit2_shape ins A p :
  is_axis2 A = true -> sign_change2 ins (A, p) = true -> emit2 ins A p = [seg_of ins A p].
Proof.
  intros HA HS. rewrite emit2_core by exact HA. rewrite sign_change2_eqb in HS.
  unfold emit_core, seg_of, v_lo, v_hi, es_of, dir_of, cell_lo.
  destruct (is_axis2_cases _ HA) as [-> | ->];
    destruct (ins p), (ins (padd2 p (bits2 _))); try discriminate HS;
    cbn [Bool.eqb andb orb negb xorb Z.eqb Pos.eqb fst snd]; reflexivity.
Qed.

Theorem emit2_length ins A p : is_axis2 A = true ->
  length (emit2 ins A p) = if sign_change2 ins (A, p) then 1%nat else 0%nat.
Proof.
  intros HA. destruct (sign_change2 ins (A, p)) eqn:HS.
  - rewrite emit2_shape by assumption. reflexivity.
  - rewrite emit2_empty by assumption. reflexivity.
Qed.

Theorem emit2_nonempty_iff ins A p : is_axis2 A = true ->
  (emit2 ins A p <> [] <-> sign_change2 ins (A, p) = true).
Proof.
  intros HA. pose proof (emit2_length ins A p HA) as L.
  destruct (sign_change2 ins (A, p)); split; intros H; try reflexivity.
  - intros E. rewrite E in L. discriminate.
  - destruct (emit2 ins A p); [elim H; reflexivity | discriminate].
  - discriminate.
Qed.

Definition seg_verts (s : seg2) : list vertex2 := [fst s; snd s].
Definition soup_verts (l : list seg2) : list vertex2 := flat_map seg_verts l.

(* the inside end of a sign-changing edge *)
Lemma inside_end2 ins A p : sign_change2 ins (A, p) = true ->
  (ins p = true /\ ins (padd2 p (bits2 A)) = false) \/ (ins p = false /\ ins (padd2 p (bits2 A)) = true).
Proof.
  rewrite sign_change2_eqb. destruct (ins p), (ins (padd2 p (bits2 A))); cbn; intros H;
    try discriminate; tauto.
Qed.

(* the patch indices: the sweep over the 16 masks restricted to those that have the sign change *)
Lemma v_hi_valid ins A p :
  is_axis2 A = true -> sign_change2 ins (A, p) = true -> 0 <= snd (v_hi ins A p).
Proof.
  intros HA HS. rewrite sign_change2_eqb in HS.
  unfold v_hi, es_of, dir_of. cbn [snd]. rewrite mask2_bits, corner2_0.
  destruct (is_axis2_cases _ HA) as [-> | ->].
  - change (corner2 p 1) with (padd2 p (bits2 1)).
    destruct (ins p), (ins (padd2 p (bits2 1))), (ins (corner2 p 2)), (ins (corner2 p 3));
      try discriminate HS; apply Z.leb_le; vm_compute; reflexivity.
  - change (corner2 p 2) with (padd2 p (bits2 2)).
    destruct (ins p), (ins (padd2 p (bits2 2))), (ins (corner2 p 1)), (ins (corner2 p 3));
      try discriminate HS; apply Z.leb_le; vm_compute; reflexivity.
Qed.

Lemma v_lo_valid ins A p :
  is_axis2 A = true -> sign_change2 ins (A, p) = true -> 0 <= snd (v_lo ins A p).
Proof.
  intros HA HS. rewrite sign_change2_eqb in HS.
  unfold v_lo, es_of, dir_of, cell_lo. cbn [snd]. rewrite mask2_bits.
  destruct (is_axis2_cases _ HA) as [-> | ->].
  - change (3 - 1) with 2. rewrite c0X_2, c0X_3.
    destruct (ins p), (ins (padd2 p (bits2 1))),
      (ins (corner2 (psub2 p (bits2 2)) 0)), (ins (corner2 (psub2 p (bits2 2)) 1));
      try discriminate HS; apply Z.leb_le; vm_compute; reflexivity.
  - change (3 - 2) with 1. rewrite c0Y_1, c0Y_3.
    destruct (ins p), (ins (padd2 p (bits2 2))),
      (ins (corner2 (psub2 p (bits2 1)) 0)), (ins (corner2 (psub2 p (bits2 1)) 2));
      try discriminate HS; apply Z.leb_le; vm_compute; reflexivity.
Qed.

Lemma cell_lo_neq A p : is_axis2 A = true -> cell_lo A p <> p.
Proof.
  intros HA. destruct p as [x y]. unfold cell_lo.
  destruct (is_axis2_cases _ HA) as [-> | ->].
  - change (3 - 1) with 2. rewrite bits2_2. unfold psub2. cbn [fst snd]. intros E. inversion E. lia.
  - change (3 - 2) with 1. rewrite bits2_1. unfold psub2. cbn [fst snd]. intros E. inversion E. lia.
Qed.

(* an emitted segment: the only one of its lattice edge; one end in each of the two cells on
   either side of the edge (which end is which is [dir_of]); valid patch indices *)
Theorem emit2_segment ins A p s :
  is_axis2 A = true -> In s (emit2 ins A p) ->
  sign_change2 ins (A, p) = true /\ emit2 ins A p = [s] /\ s = seg_of ins A p /\
  ((dir_of ins A p = true /\ fst s = v_lo ins A p /\ snd s = v_hi ins A p /\
    fst (fst s) = cell_lo A p /\ fst (snd s) = p) \/
   (dir_of ins A p = false /\ fst s = v_hi ins A p /\ snd s = v_lo ins A p /\
    fst (fst s) = p /\ fst (snd s) = cell_lo A p)) /\
  0 <= snd (fst s) /\ 0 <= snd (snd s).
Proof.
  intros HA Hs.
  destruct (sign_change2 ins (A, p)) eqn:HS.
  2:{ rewrite emit2_empty in Hs by assumption. destruct Hs. }
  split; [reflexivity|].
  pose proof (v_lo_valid ins A p HA HS) as Vl. pose proof (v_hi_valid ins A p HA HS) as Vh.
  rewrite emit2_shape in * by assumption. destruct Hs as [<- | []].
  split; [reflexivity|]. split; [reflexivity|].
  unfold seg_of. destruct (dir_of ins A p); cbn [fst snd]; (split; [|split; assumption]);
    [left | right]; repeat split; reflexivity.
Qed.

(* both cells are used: for a sign-changing edge the cell below/left and the cell p each carry
   one vertex of the segment *)
Theorem emit2_uses_both_cells ins A p :
  is_axis2 A = true -> sign_change2 ins (A, p) = true ->
  In (v_lo ins A p) (soup_verts (emit2 ins A p)) /\ In (v_hi ins A p) (soup_verts (emit2 ins A p)) /\
  fst (v_lo ins A p) = cell_lo A p /\ fst (v_hi ins A p) = p /\ cell_lo A p <> p.
Proof.
  intros HA HS. rewrite emit2_shape by assumption. unfold seg_of, soup_verts.
  split; [|split; [|split; [reflexivity | split; [reflexivity | apply cell_lo_neq; exact HA]]]];
    destruct (dir_of ins A p); cbn [flat_map seg_verts app In fst snd]; tauto.
Qed.

Theorem emit2_vertices_cells ins A p v :
  is_axis2 A = true -> In v (soup_verts (emit2 ins A p)) ->
  sign_change2 ins (A, p) = true /\ (fst v = cell_lo A p \/ fst v = p) /\ 0 <= snd v.
Proof.
  intros HA Hv. unfold soup_verts in Hv. apply in_flat_map in Hv. destruct Hv as [s [Hs Hv]].
  destruct (emit2_segment ins A p s HA Hs) as [HS [_ [_ [Hc [V0 V1]]]]].
  split; [exact HS|]. unfold seg_verts in Hv. cbn [In] in Hv.
  destruct Hv as [<- | [<- | []]]; (split; [|assumption]);
    destruct Hc as [[_ [_ [_ [C0 C1]]]] | [_ [_ [_ [C0 C1]]]]]; auto.
Qed.

(* ------------------------------------------------------------------ *)
(* A2. one segment per boundary edge                                   *)
(* ------------------------------------------------------------------ *)

Theorem soup_size ins E :
  (forall e, In e E -> is_axis2 (fst e) = true) ->
  length (contour_soup ins E) = length (filter (sign_change2 ins) E).
Proof.
  unfold contour_soup. induction E as [|[A p] E IH]; intros HE; [reflexivity|].
  cbn [flat_map filter fst snd]. rewrite app_length, IH by (intros e He; apply HE; right; exact He).
  rewrite emit2_length by (apply (HE (A, p)); left; reflexivity).
  destruct (sign_change2 ins (A, p)); cbn [length]; lia.
Qed.

Lemma filter_all2 {X : Type} (f : X -> bool) l : (forall x, In x l -> f x = true) -> filter f l = l.
Proof.
  induction l as [|a l IH]; intros H; [reflexivity|].
  cbn [filter]. rewrite (H a (or_introl eq_refl)), IH; [reflexivity|].
  intros x Hx. apply H. right. exact Hx.
Qed.

Theorem soup_size_exact ins E :
  covers2 ins E -> (forall e, In e E -> sign_change2 ins e = true) ->
  length (contour_soup ins E) = length E.
Proof.
  intros [_ [HAx _]] HS. rewrite soup_size by exact HAx. rewrite filter_all2 by exact HS. reflexivity.
Qed.

Lemma edges_of_sign_change2 F e : In e (edges_of F) -> sign_change2 (filled_in F) e = true.
Proof. unfold edges_of. intros H. apply filter_In in H. tauto. Qed.

(* [edges_of F] lists exactly the sign-changing edges of [filled_in F], each once *)
Theorem edges_of_exact F A p : is_axis2 A = true ->
  (In (A, p) (edges_of F) <-> sign_change2 (filled_in F) (A, p) = true).
Proof.
  intros HA. split; [apply edges_of_sign_change2|].
  destruct (covers2_edges_of F) as [_ [_ HC]]. apply HC. exact HA.
Qed.

Theorem soup_size_finite F :
  length (contour_soup (filled_in F) (edges_of F)) = length (edges_of F).
Proof. apply soup_size_exact; [apply covers2_edges_of | apply edges_of_sign_change2]. Qed.

(* [covers2] asks that every sign-changing edge be listed, not that only those be *)
Lemma covers2_spare ins E A p :
  covers2 ins E -> is_axis2 A = true -> ~ In (A, p) E -> covers2 ins ((A, p) :: E).
Proof.
  intros [ND [HAx HC]] HA HN. split; [constructor; assumption|]. split.
  - intros e [<- | He]; [exact HA | apply HAx; exact He].
  - intros A' p' HA' HS. right. apply HC; assumption.
Qed.

Lemma covers2_allows_spare_edges :
  let E := (1, (5, 5)) :: edges_of F_point in
  covers2 (filled_in F_point) E /\ length (contour_soup (filled_in F_point) E) <> length E.
Proof.
  split.
  - apply covers2_spare; [apply covers2_edges_of | reflexivity |].
    rewrite point_edges. cbn [In]. intros H.
    repeat (destruct H as [H | H]; [discriminate H|]). exact H.
  - vm_compute. discriminate.
Qed.

(* ------------------------------------------------------------------ *)
(* A3. discrete separation                                             *)
(* ------------------------------------------------------------------ *)

(* a lattice path: a start point and unit steps (axis, forward?) *)
Definition step2 := (Z * bool)%type.
Definition move2 (p : pt2) (s : step2) : pt2 :=
  if snd s then padd2 p (bits2 (fst s)) else psub2 p (bits2 (fst s)).
(* the lattice edge a step runs along *)
Definition step_edge2 (p : pt2) (s : step2) : ledge2 :=
  if snd s then (fst s, p) else (fst s, psub2 p (bits2 (fst s))).

Fixpoint path_end2 (p : pt2) (l : list step2) : pt2 :=
  match l with [] => p | s :: l => path_end2 (move2 p s) l end.
Fixpoint path_edges2 (p : pt2) (l : list step2) : list ledge2 :=
  match l with [] => [] | s :: l => step_edge2 p s :: path_edges2 (move2 p s) l end.
Fixpoint path_points2 (p : pt2) (l : list step2) : list pt2 :=
  p :: match l with [] => [] | s :: l => path_points2 (move2 p s) l end.

Definition valid_path2 (l : list step2) : Prop := forall s, In s l -> is_axis2 (fst s) = true.

(* number of steps whose two ends differ in [ins] *)
Definition crossings2 (ins : pt2 -> bool) (p : pt2) (l : list step2) : nat :=
  length (filter (sign_change2 ins) (path_edges2 p l)).

(* number of steps whose lattice edge carries a segment of the contour *)
Definition nonempty2 {X : Type} (l : list X) : bool := match l with [] => false | _ => true end.
Definition segs_crossed (ins : pt2 -> bool) (p : pt2) (l : list step2) : nat :=
  length (filter (fun e => nonempty2 (emit2 ins (fst e) (snd e))) (path_edges2 p l)).

Lemma padd2_psub2 p t : padd2 (psub2 p t) t = p.
Proof. destruct p, t. unfold psub2, padd2. cbn [fst snd]. f_equal; lia. Qed.

Lemma step_sign_change2 ins p s :
  sign_change2 ins (step_edge2 p s) = xorb (ins p) (ins (move2 p s)).
Proof.
  destruct s as [A dir]. unfold step_edge2, move2, sign_change2. cbn [fst snd].
  destruct dir; cbn [fst snd].
  - destruct (ins p), (ins (padd2 p (bits2 A))); reflexivity.
  - rewrite padd2_psub2. destruct (ins p), (ins (psub2 p (bits2 A))); reflexivity.
Qed.

Lemma crossings2_cons ins p s l :
  crossings2 ins p (s :: l) =
  ((if xorb (ins p) (ins (move2 p s)) then 1 else 0) + crossings2 ins (move2 p s) l)%nat.
Proof.
  unfold crossings2. cbn [path_edges2 filter]. rewrite step_sign_change2.
  destruct (xorb (ins p) (ins (move2 p s))); reflexivity.
Qed.

(* DISCRETE SEPARATION (Jordan, at lattice resolution) *)
Theorem crossings2_parity ins p l :
  Nat.odd (crossings2 ins p l) = xorb (ins p) (ins (path_end2 p l)).
Proof.
  revert p. induction l as [|s l IH]; intros p.
  - cbn. rewrite xorb_nilpotent. reflexivity.
  - rewrite crossings2_cons. cbn [path_end2].
    specialize (IH (move2 p s)).
    destruct (xorb (ins p) (ins (move2 p s))) eqn:X.
    + change (1 + crossings2 ins (move2 p s) l)%nat with (S (crossings2 ins (move2 p s) l)).
      rewrite Nat.odd_succ, <- Nat.negb_odd, IH.
      destruct (ins p), (ins (move2 p s)), (ins (path_end2 (move2 p s) l)); try reflexivity; discriminate.
    + cbn [Nat.add]. rewrite IH.
      destruct (ins p), (ins (move2 p s)), (ins (path_end2 (move2 p s) l)); try reflexivity; discriminate.
Qed.

Lemma path_edges2_axis p l e : valid_path2 l -> In e (path_edges2 p l) -> is_axis2 (fst e) = true.
Proof.
  revert p e. induction l as [|s l IH]; intros p e HV; [intros []|].
  cbn [path_edges2 In]. intros [<- | He].
  - destruct s as [A dir]. unfold step_edge2. cbn [fst snd].
    destruct dir; [apply (HV (A, true)) | apply (HV (A, false))]; left; reflexivity.
  - apply (IH (move2 p s)); [|exact He]. intros s' Hs'. apply HV. right. exact Hs'.
Qed.

Lemma filter_ext_in_len2 {X : Type} (f g : X -> bool) l :
  (forall x, In x l -> f x = g x) -> length (filter f l) = length (filter g l).
Proof. intros H. rewrite (filter_ext_in f g l H). reflexivity. Qed.

(* the counted steps are those that pass through a segment of the contour *)
Theorem crossings2_are_segments ins p l :
  valid_path2 l -> crossings2 ins p l = segs_crossed ins p l.
Proof.
  intros HV. unfold crossings2, segs_crossed. apply filter_ext_in_len2.
  intros [A q] He. cbn [fst snd].
  pose proof (path_edges2_axis p l _ HV He) as HA. cbn [fst] in HA.
  pose proof (emit2_length ins A q HA) as L.
  destruct (sign_change2 ins (A, q)); destruct (emit2 ins A q); try reflexivity; discriminate.
Qed.

(* and the crossed segments belong to the soup: their lattice edges are listed in E *)
Theorem crossed_edges_in_soup ins E p l e :
  covers2 ins E -> valid_path2 l -> In e (path_edges2 p l) -> sign_change2 ins e = true ->
  In e E /\ emit2 ins (fst e) (snd e) = [seg_of ins (fst e) (snd e)] /\
  In (seg_of ins (fst e) (snd e)) (contour_soup ins E).
Proof.
  intros [_ [_ HC]] HV He HS. destruct e as [A q].
  pose proof (path_edges2_axis p l _ HV He) as HA. cbn [fst snd] in *.
  assert (I : In (A, q) E) by (apply HC; assumption).
  split; [exact I|]. split; [apply emit2_shape; assumption|].
  unfold contour_soup. apply in_flat_map.
  exists (A, q). split; [exact I|]. cbn [fst snd]. rewrite emit2_shape by assumption. left. reflexivity.
Qed.

Corollary inside_outside_separated2 ins p l :
  valid_path2 l -> ins p = true -> ins (path_end2 p l) = false ->
  Nat.odd (segs_crossed ins p l) = true /\ (1 <= segs_crossed ins p l)%nat.
Proof.
  intros HV H1 H2. rewrite <- (crossings2_are_segments ins p l HV).
  pose proof (crossings2_parity ins p l) as H. rewrite H1, H2 in H. cbn in H.
  split; [exact H|]. destruct (crossings2 ins p l); [discriminate | lia].
Qed.

Lemma filter_nonempty_in {X : Type} (f : X -> bool) l :
  (1 <= length (filter f l))%nat -> exists x, In x l /\ f x = true.
Proof.
  destruct (filter f l) as [|x r] eqn:E; cbn [length]; [lia|]. intros _.
  assert (H : In x (filter f l)) by (rewrite E; left; reflexivity).
  apply filter_In in H. exists x. exact H.
Qed.

(* the separating segment, named: a path that starts inside and ends outside (or the other way
   round) runs along a sign-changing lattice edge whose segment is in the soup *)
Corollary separating_segment ins E p l :
  covers2 ins E -> valid_path2 l -> ins p <> ins (path_end2 p l) ->
  exists e, In e (path_edges2 p l) /\ In e E /\ sign_change2 ins e = true /\
            In (seg_of ins (fst e) (snd e)) (contour_soup ins E).
Proof.
  intros HC HV Hne.
  pose proof (crossings2_parity ins p l) as H.
  assert (X : xorb (ins p) (ins (path_end2 p l)) = true)
    by (destruct (ins p), (ins (path_end2 p l)); try reflexivity; elim Hne; reflexivity).
  rewrite X in H.
  assert (L : (1 <= crossings2 ins p l)%nat) by (destruct (crossings2 ins p l); [discriminate | lia]).
  destruct (filter_nonempty_in _ _ L) as [e [He HS]].
  destruct (crossed_edges_in_soup ins E p l e HC HV He HS) as [I [_ I']].
  exists e. auto.
Qed.

Corollary same_side_even2 ins p l :
  valid_path2 l -> ins (path_end2 p l) = ins p -> Nat.even (segs_crossed ins p l) = true.
Proof.
  intros HV H1. rewrite <- (crossings2_are_segments ins p l HV).
  pose proof (crossings2_parity ins p l) as H. rewrite H1, xorb_nilpotent in H.
  rewrite <- Nat.negb_odd, H. reflexivity.
Qed.

Corollary closed_path_even2 ins p l :
  valid_path2 l -> path_end2 p l = p -> Nat.even (segs_crossed ins p l) = true.
Proof. intros HV H. apply same_side_even2; [exact HV | rewrite H; reflexivity]. Qed.

(* ------------------------------------------------------------------ *)
(* A4. orientation                                                     *)
(* ------------------------------------------------------------------ *)

Definition cross2 (u v : pt2) : Z := fst u * snd v - snd u * fst v.
Definition pneg2 (u : pt2) : pt2 := (- fst u, - snd u).
(* a quarter turn clockwise / counter-clockwise (x to the right, y upwards) *)
Definition rot_cw (u : pt2) : pt2 := (snd u, - fst u).
Definition rot_ccw (u : pt2) : pt2 := (- snd u, fst u).
(* direction of travel of a segment, on CELL ORIGINS: o_to - o_from *)
Definition seg_dir (s : seg2) : pt2 := psub2 (fst (snd s)) (fst (fst s)).
(* the unit vector from the OUTSIDE end of the sign-changing edge (A, p) to its INSIDE end *)
Definition inward (ins : pt2 -> bool) (A : Z) (p : pt2) : pt2 :=
  if ins p then pneg2 (bits2 A) else bits2 A.
Definition inside_pt (ins : pt2 -> bool) (A : Z) (p : pt2) : pt2 :=
  if ins p then p else padd2 p (bits2 A).
Definition outside_pt (ins : pt2 -> bool) (A : Z) (p : pt2) : pt2 :=
  if ins p then padd2 p (bits2 A) else p.

Lemma inside_outside_pts ins A p : sign_change2 ins (A, p) = true ->
  ins (inside_pt ins A p) = true /\ ins (outside_pt ins A p) = false /\
  psub2 (inside_pt ins A p) (outside_pt ins A p) = inward ins A p.
Proof.
  intros HS. unfold inside_pt, outside_pt, inward.
  destruct (inside_end2 ins A p HS) as [[E0 E1] | [E0 E1]]; rewrite E0;
    (split; [assumption|]); (split; [assumption|]);
    destruct p as [x y], (bits2 A) as [u v]; unfold psub2, padd2, pneg2; cbn [fst snd];
    f_equal; lia.
Qed.

Lemma rot_ccw_cw u : rot_ccw (rot_cw u) = u.
Proof. destruct u as [a b]. unfold rot_ccw, rot_cw. cbn [fst snd]. f_equal; lia. Qed.

Lemma seg_of_dir ins A p :
  is_axis2 A = true -> sign_change2 ins (A, p) = true ->
  seg_dir (seg_of ins A p) = rot_cw (inward ins A p).
Proof.
  intros HA HS. rewrite sign_change2_eqb in HS. destruct p as [x y].
  unfold seg_dir, seg_of, dir_of, v_lo, v_hi, cell_lo, inward.
  destruct (is_axis2_cases _ HA) as [-> | ->];
    destruct (ins (x, y)), (ins (padd2 (x, y) (bits2 _))); try discriminate HS;
    cbn [andb orb negb Z.eqb Pos.eqb fst snd];
    [change (3 - 1) with 2 | change (3 - 1) with 2 | change (3 - 2) with 1 | change (3 - 2) with 1];
    rewrite ?bits2_1, ?bits2_2; unfold rot_cw, pneg2, psub2; cbn [fst snd]; f_equal; lia.
Qed.

(* ORIENTATION *)
Theorem seg_orientation ins A p s :
  is_axis2 A = true -> In s (emit2 ins A p) ->
  seg_dir s = rot_cw (inward ins A p) /\ inward ins A p = rot_ccw (seg_dir s) /\
  cross2 (seg_dir s) (inward ins A p) = 1.
Proof.
  intros HA Hs. destruct (emit2_segment ins A p s HA Hs) as [HS [_ [-> _]]].
  pose proof (seg_of_dir ins A p HA HS) as Hd. rewrite Hd.
  split; [reflexivity|]. split; [rewrite rot_ccw_cw; reflexivity|].
  unfold inward. destruct (is_axis2_cases _ HA) as [-> | ->]; rewrite ?bits2_1, ?bits2_2;
    destruct (ins p); reflexivity.
Qed.

(* the same with positions, in half-cell units: the centre of the cell with origin o is
   o + (1/2, 1/2), i.e. 2 o + (1, 1) after doubling.  Relative to the directed line through the
   centres of the two cells, the inside end of the lattice edge is strictly to the left and the
   outside end strictly to the right. *)
Definition centre2x (o : pt2) : pt2 := (2 * fst o + 1, 2 * snd o + 1).
Definition dbl (q : pt2) : pt2 := (2 * fst q, 2 * snd q).

Theorem inside_left_outside_right ins A p s :
  is_axis2 A = true -> In s (emit2 ins A p) ->
  cross2 (seg_dir s) (psub2 (dbl (inside_pt ins A p)) (centre2x (fst (fst s)))) = 1 /\
  cross2 (seg_dir s) (psub2 (dbl (outside_pt ins A p)) (centre2x (fst (fst s)))) = -1.
Proof.
  intros HA Hs. destruct (emit2_segment ins A p s HA Hs) as [HS [_ [-> _]]].
  rewrite sign_change2_eqb in HS. destruct p as [x y].
  unfold seg_dir, seg_of, dir_of, v_lo, v_hi, cell_lo, inside_pt, outside_pt.
  destruct (is_axis2_cases _ HA) as [-> | ->];
    destruct (ins (x, y)), (ins (padd2 (x, y) (bits2 _))); try discriminate HS;
    cbn [andb orb negb Z.eqb Pos.eqb fst snd];
    [change (3 - 1) with 2 | change (3 - 1) with 2 | change (3 - 2) with 1 | change (3 - 2) with 1];
    rewrite ?bits2_1, ?bits2_2; unfold cross2, centre2x, dbl, psub2, padd2; cbn [fst snd]; split; ring.
Qed.

(* every segment of a whole soup has the inside point of its lattice edge on its left *)
Theorem contours_wind_consistently ins E s :
  (forall e, In e E -> is_axis2 (fst e) = true) -> In s (contour_soup ins E) ->
  exists A p, In (A, p) E /\ sign_change2 ins (A, p) = true /\ emit2 ins A p = [s] /\
              ins (inside_pt ins A p) = true /\ ins (outside_pt ins A p) = false /\
              psub2 (inside_pt ins A p) (outside_pt ins A p) = inward ins A p /\
              seg_dir s = rot_cw (inward ins A p) /\
              cross2 (seg_dir s) (inward ins A p) = 1.
Proof.
  intros HAx Hs. unfold contour_soup in Hs. apply in_flat_map in Hs.
  destruct Hs as [[A p] [He Hs]]. cbn [fst snd] in Hs.
  pose proof (HAx _ He) as HA. cbn [fst] in HA.
  destruct (emit2_segment ins A p s HA Hs) as [HS [H1 _]].
  destruct (inside_outside_pts ins A p HS) as [I [O D]].
  destruct (seg_orientation ins A p s HA Hs) as [Hd [_ Hx]].
  exists A, p. repeat split; assumption.
Qed.

(* ================================================================== *)
(* PART B: the lattice embedded in R^2                                 *)
(* ================================================================== *)
From Coq Require Import Reals Lra Ranalysis5.
Local Open Scope R_scope.

Definition R2 := (R * R)%type.
(* position of the lattice point p: grid origin og, spacing h *)
Definition pos2 (h : R) (og : R2) (p : pt2) : R2 :=
  (fst og + h * IZR (fst p), snd og + h * IZR (snd p)).
(* the point at parameter t in [0, 1] on the lattice edge (A, p): pos p + t h e_A *)
Definition edge_pt2 (h : R) (og : R2) (A : Z) (p : pt2) (t : R) : R2 :=
  (fst (pos2 h og p) + t * h * IZR (fst (bits2 A)), snd (pos2 h og p) + t * h * IZR (snd (bits2 A))).
(* the closed cell with origin c: the square [pos c, pos (c + (1,1))] *)
Definition in_cell2 (h : R) (og : R2) (c : pt2) (x : R2) : Prop :=
  (fst (pos2 h og c) <= fst x <= fst (pos2 h og (padd2 c (1, 1)%Z))) /\
  (snd (pos2 h og c) <= snd x <= snd (pos2 h og (padd2 c (1, 1)%Z))).
Definition dist2 (x y : R2) : R :=
  sqrt ((fst x - fst y) * (fst x - fst y) + (snd x - snd y) * (snd x - snd y)).

Lemma edge_pt2_0 h og A p : edge_pt2 h og A p 0 = pos2 h og p.
Proof.
  unfold edge_pt2. destruct (pos2 h og p) as [a b]. cbn [fst snd]. f_equal; ring.
Qed.

Lemma edge_pt2_1 h og A p : is_axis2 A = true -> edge_pt2 h og A p 1 = pos2 h og (padd2 p (bits2 A)).
Proof.
  intros HA. unfold edge_pt2, pos2, padd2. destruct og as [o1 o2], p as [a b].
  destruct (is_axis2_cases _ HA) as [-> | ->]; rewrite ?bits2_1, ?bits2_2; cbn [fst snd];
    rewrite !plus_IZR; f_equal; ring.
Qed.

Definition edge_continuous2 (f : R2 -> R) (h : R) (og : R2) (A : Z) (p : pt2) : Prop :=
  forall t, 0 <= t <= 1 -> continuity_pt (fun s => f (edge_pt2 h og A p s)) t.

(* the 1D intermediate value theorem on [0, 1], either order of the signs *)
Lemma ivt_01 (g : R -> R) :
  (forall t, 0 <= t <= 1 -> continuity_pt g t) ->
  (g 0 < 0 < g 1 \/ g 1 < 0 < g 0) -> exists t, 0 <= t <= 1 /\ g t = 0.
Proof.
  intros HC [[H0 H1] | [H1 H0]].
  - destruct (IVT_interv g 0 1 HC) as [z [Hz Ez]]; [lra | exact H0 | exact H1 |].
    exists z. split; assumption.
  - destruct (IVT_interv (fun s => - g s) 0 1) as [z [Hz Ez]].
    + intros a Ha. apply (continuity_pt_opp g). apply HC. exact Ha.
    + lra.
    + lra.
    + lra.
    + exists z. split; [exact Hz | lra].
Qed.

Theorem sign_change_has_zero2 (f : R2 -> R) h og A p :
  is_axis2 A = true -> edge_continuous2 f h og A p ->
  (f (pos2 h og p) < 0 < f (pos2 h og (padd2 p (bits2 A))) \/
   f (pos2 h og (padd2 p (bits2 A))) < 0 < f (pos2 h og p)) ->
  exists t, 0 <= t <= 1 /\ f (edge_pt2 h og A p t) = 0.
Proof.
  intros HA HC HS. rewrite <- (edge_pt2_0 h og A p), <- (edge_pt2_1 h og A p HA) in HS.
  exact (ivt_01 (fun s => f (edge_pt2 h og A p s)) HC HS).
Qed.

(* the sign data of the contourer at a lattice point, strictly: FILLED means f < 0, EMPTY 0 < f *)
Definition sign_at2 (ins : pt2 -> bool) (f : R2 -> R) h og (p : pt2) : Prop :=
  if ins p then f (pos2 h og p) < 0 else 0 < f (pos2 h og p).

Theorem sign_change_edge_has_zero2 ins (f : R2 -> R) h og A p :
  is_axis2 A = true -> edge_continuous2 f h og A p ->
  sign_at2 ins f h og p -> sign_at2 ins f h og (padd2 p (bits2 A)) ->
  sign_change2 ins (A, p) = true ->
  exists t, 0 <= t <= 1 /\ f (edge_pt2 h og A p t) = 0.
Proof.
  intros HA HC S0 S1 HS. apply sign_change_has_zero2; [exact HA | exact HC |].
  unfold sign_at2 in S0, S1.
  destruct (inside_end2 ins A p HS) as [[E0 E1] | [E0 E1]]; rewrite E0 in S0; rewrite E1 in S1;
    [left | right]; split; assumption.
Qed.

(* the edge lies in both closed cells adjacent to it *)
Theorem edge_in_cells2 h og A p t :
  0 <= h -> is_axis2 A = true -> 0 <= t <= 1 ->
  in_cell2 h og (cell_lo A p) (edge_pt2 h og A p t) /\ in_cell2 h og p (edge_pt2 h og A p t).
Proof.
  intros Hh HA Ht.
  assert (T : 0 <= t * h <= h) by nra.
  unfold in_cell2, edge_pt2, pos2, cell_lo, padd2, psub2. destruct og as [o1 o2], p as [a b].
  destruct (is_axis2_cases _ HA) as [-> | ->];
    [change (3 - 1)%Z with 2%Z | change (3 - 2)%Z with 1%Z];
    rewrite ?bits2_1, ?bits2_2; cbn [fst snd]; rewrite ?plus_IZR, ?minus_IZR;
    generalize dependent (t * h); intros th T; repeat split; nra.
Qed.

(* one zero of f lies in the cells of both vertices of the segment *)
Theorem seg_cells_meet_curve ins (f : R2 -> R) h og A p :
  0 <= h -> is_axis2 A = true -> edge_continuous2 f h og A p ->
  sign_at2 ins f h og p -> sign_at2 ins f h og (padd2 p (bits2 A)) ->
  emit2 ins A p <> [] ->
  exists z, f z = 0 /\ (exists t, 0 <= t <= 1 /\ z = edge_pt2 h og A p t) /\
            forall v, In v (soup_verts (emit2 ins A p)) -> in_cell2 h og (fst v) z.
Proof.
  intros Hh HA HC S0 S1 HQ. apply emit2_nonempty_iff in HQ; [|exact HA].
  destruct (sign_change_edge_has_zero2 ins f h og A p HA HC S0 S1 HQ) as [t [Ht Hz]].
  exists (edge_pt2 h og A p t). split; [exact Hz|]. split; [exists t; split; [exact Ht | reflexivity]|].
  intros v Hv. destruct (emit2_vertices_cells ins A p v HA Hv) as [_ [Hc _]].
  destruct (edge_in_cells2 h og A p t Hh HA Ht) as [I0 I1].
  destruct Hc as [-> | ->]; assumption.
Qed.

Lemma sq_le_of_bounds2 l x y h : 0 <= h -> l <= x <= l + h -> l <= y <= l + h -> (x - y) * (x - y) <= h * h.
Proof. intros. nra. Qed.

(* Euclidean diameter of a cell *)
Theorem cell_diameter2 h og c x y :
  0 <= h -> in_cell2 h og c x -> in_cell2 h og c y -> dist2 x y <= sqrt 2 * h.
Proof.
  intros Hh. unfold in_cell2, pos2, dist2, padd2.
  destruct og as [o1 o2], c as [a b], x as [x1 x2], y as [y1 y2].
  cbn [fst snd]. rewrite !plus_IZR.
  replace (o1 + h * (IZR a + 1)) with (o1 + h * IZR a + h) by ring.
  replace (o2 + h * (IZR b + 1)) with (o2 + h * IZR b + h) by ring.
  intros [X1 X2] [Y1 Y2].
  pose proof (sq_le_of_bounds2 _ _ _ _ Hh X1 Y1) as B1.
  pose proof (sq_le_of_bounds2 _ _ _ _ Hh X2 Y2) as B2.
  replace (sqrt 2 * h) with (sqrt (2 * (h * h)))
    by (rewrite sqrt_mult by nra; rewrite (sqrt_square h Hh); reflexivity).
  apply sqrt_le_1_alt. lra.
Qed.

(* a vertex placed inside its cell is within one cell diagonal of a zero of f *)
Theorem vertices_near_curve ins (f : R2 -> R) h og A p (vpos : vertex2 -> R2) :
  0 <= h -> is_axis2 A = true -> edge_continuous2 f h og A p ->
  sign_at2 ins f h og p -> sign_at2 ins f h og (padd2 p (bits2 A)) ->
  emit2 ins A p <> [] ->
  exists z, f z = 0 /\
    forall v, In v (soup_verts (emit2 ins A p)) -> in_cell2 h og (fst v) (vpos v) ->
              in_cell2 h og (fst v) z /\ dist2 (vpos v) z <= sqrt 2 * h.
Proof.
  intros Hh HA HC S0 S1 HQ.
  destruct (seg_cells_meet_curve ins f h og A p Hh HA HC S0 S1 HQ) as [z [Hz [_ Hc]]].
  exists z. split; [exact Hz|]. intros v Hv Hin. split; [apply Hc; exact Hv|].
  apply (cell_diameter2 h og (fst v)); auto.
Qed.

(* the same for a whole contour soup *)
Theorem contour_vertices_near_curve ins (f : R2 -> R) h og E (vpos : vertex2 -> R2) :
  0 <= h -> (forall e, In e E -> is_axis2 (fst e) = true) ->
  (forall A p, is_axis2 A = true -> edge_continuous2 f h og A p) ->
  (forall p, sign_at2 ins f h og p) ->
  forall v, In v (soup_verts (contour_soup ins E)) -> in_cell2 h og (fst v) (vpos v) ->
    exists z, f z = 0 /\ in_cell2 h og (fst v) z /\ dist2 (vpos v) z <= sqrt 2 * h.
Proof.
  intros Hh HAx HC HS v Hv Hin.
  unfold soup_verts, contour_soup in Hv. apply in_flat_map in Hv. destruct Hv as [s [Hs Hv]].
  apply in_flat_map in Hs. destruct Hs as [[A p] [He Hs]]. cbn [fst snd] in Hs.
  pose proof (HAx _ He) as HA. cbn [fst] in HA.
  assert (HQ : emit2 ins A p <> []) by (intros E0; rewrite E0 in Hs; destruct Hs).
  destruct (seg_cells_meet_curve ins f h og A p Hh HA (HC A p HA) (HS p) (HS _) HQ)
    as [z [Hz [_ Hc]]].
  assert (Hv' : In v (soup_verts (emit2 ins A p)))
    by (unfold soup_verts; apply in_flat_map; exists s; split; assumption).
  exists z. split; [exact Hz|]. split; [apply Hc; exact Hv'|].
  apply (cell_diameter2 h og (fst v)); auto.
Qed.

(* ------------------------------------------------------------------ *)
(* B'. no converse from corner signs: a feature thinner than the grid  *)
(* ------------------------------------------------------------------ *)

Definition O2R : R2 := (0, 0).

(* the disc of radius 1/4 centred at (1/2, 1/2), the centre of the unit cell at the origin *)
Definition small_disc_f (x : R2) : R :=
  (fst x - / 2) * (fst x - / 2) + (snd x - / 2) * (snd x - / 2) - / 16.

Lemma half_int_sq2 (a : Z) : / 4 <= (IZR a - / 2) * (IZR a - / 2).
Proof.
  destruct (Z_le_gt_dec a 0) as [H | H].
  - apply IZR_le in H. nra.
  - assert (H' : (1 <= a)%Z) by lia. apply IZR_le in H'. nra.
Qed.

Lemma small_disc_lattice_outside p : 0 < small_disc_f (pos2 1 O2R p).
Proof.
  destruct p as [a b]. unfold small_disc_f, pos2, O2R. cbn [fst snd].
  pose proof (half_int_sq2 a). pose proof (half_int_sq2 b).
  replace (0 + 1 * IZR a) with (IZR a) by ring. replace (0 + 1 * IZR b) with (IZR b) by ring. lra.
Qed.

Lemma small_disc_edge_continuous h og A p : edge_continuous2 small_disc_f h og A p.
Proof.
  intros t _. revert t. change (continuity (fun s => small_disc_f (edge_pt2 h og A p s))).
  unfold edge_pt2, pos2, small_disc_f. destruct og as [o1 o2], p as [a b], (bits2 A) as [e1 e2].
  cbn [fst snd]. reg.
Qed.

(* a filled region and a piece of its boundary curve inside one cell, every lattice point
   strictly outside: no lattice edge changes sign and the contour is empty.  Corner signs
   cannot give a converse of [contour_vertices_near_curve]. *)
Theorem thin_feature_invisible2 :
  (forall h og A p, edge_continuous2 small_disc_f h og A p) /\
  in_cell2 1 O2R (0, 0)%Z (/ 2, / 2) /\ small_disc_f (/ 2, / 2) < 0 /\
  in_cell2 1 O2R (0, 0)%Z (3 / 4, / 2) /\ small_disc_f (3 / 4, / 2) = 0 /\
  (forall p, sign_at2 (fun _ => false) small_disc_f 1 O2R p) /\
  (forall e, sign_change2 (fun _ => false) e = false) /\
  (forall E, contour_soup (fun _ => false) E = []).
Proof.
  split; [exact small_disc_edge_continuous|].
  split; [unfold in_cell2, pos2, O2R, padd2; cbn [fst snd Z.add]; lra|].
  split; [unfold small_disc_f; cbn [fst snd]; lra|].
  split; [unfold in_cell2, pos2, O2R, padd2; cbn [fst snd Z.add]; lra|].
  split; [unfold small_disc_f; cbn [fst snd]; lra|].
  split; [intros p; unfold sign_at2; apply small_disc_lattice_outside|].
  split; [intros [A p]; reflexivity|].
  intros E. unfold contour_soup. induction E as [|[A p] E IH]; [reflexivity|].
  cbn [flat_map fst snd]. rewrite IH, emit2_empty; reflexivity.
Qed.

(* ------------------------------------------------------------------ *)
(* B''. the hypotheses of part B are satisfiable with a curve present  *)
(* ------------------------------------------------------------------ *)

(* the disc of radius 1/2 about the origin on the unit grid: exactly one lattice point inside
   ([F_point] of DCGrid2Sem.v), 4 sign-changing edges, 4 segments *)
Definition disc_f (x : R2) : R := fst x * fst x + snd x * snd x - / 4.
Definition centre2 (c : pt2) : R2 := (fst (pos2 1 O2R c) + / 2, snd (pos2 1 O2R c) + / 2).

Lemma nonzero_int_sq2 (a : Z) : a <> 0%Z -> 1 <= IZR a * IZR a.
Proof.
  intros H. destruct (Z_le_gt_dec a 0) as [H1 | H1].
  - assert (H' : (a <= -1)%Z) by lia. apply IZR_le in H'. nra.
  - assert (H' : (1 <= a)%Z) by lia. apply IZR_le in H'. nra.
Qed.

Lemma disc_signs p : sign_at2 (filled_in F_point) disc_f 1 O2R p.
Proof.
  destruct p as [a b]. unfold sign_at2, filled_in, F_point, pt2_eqb, disc_f, pos2, O2R.
  cbn [existsb fst snd]. rewrite orb_false_r.
  replace (0 + 1 * IZR a) with (IZR a) by ring. replace (0 + 1 * IZR b) with (IZR b) by ring.
  pose proof (Rle_0_sqr (IZR a)) as Qa. pose proof (Rle_0_sqr (IZR b)) as Qb.
  unfold Rsqr in Qa, Qb.
  destruct (Z.eqb_spec a 0) as [-> | Na]; [|pose proof (nonzero_int_sq2 a Na); cbn [andb]; lra].
  destruct (Z.eqb_spec b 0) as [-> | Nb]; [|pose proof (nonzero_int_sq2 b Nb); cbn [andb]; lra].
  cbn [andb]. lra.
Qed.

Lemma disc_edge_continuous h og A p : edge_continuous2 disc_f h og A p.
Proof.
  intros t _. revert t. change (continuity (fun s => disc_f (edge_pt2 h og A p s))).
  unfold edge_pt2, pos2, disc_f. destruct og as [o1 o2], p as [a b], (bits2 A) as [e1 e2].
  cbn [fst snd]. reg.
Qed.

Lemma centre2_in_cell c : in_cell2 1 O2R c (centre2 c).
Proof.
  destruct c as [a b]. unfold in_cell2, centre2, pos2, O2R, padd2. cbn [fst snd].
  rewrite !plus_IZR. lra.
Qed.

(* every vertex of the 4-segment contour around the disc, placed at the centre of its cell, is
   within sqrt 2 of a point of the circle that lies in the same cell *)
Theorem disc_example v :
  In v (soup_verts (contour_soup (filled_in F_point) (edges_of F_point))) ->
  exists z, disc_f z = 0 /\ in_cell2 1 O2R (fst v) z /\ dist2 (centre2 (fst v)) z <= sqrt 2.
Proof.
  intros Hv.
  destruct (contour_vertices_near_curve (filled_in F_point) disc_f 1 O2R (edges_of F_point)
              (fun v => centre2 (fst v)))
    with (v := v) as [z [Hz [Hc Hd]]].
  - lra.
  - destruct (covers2_edges_of F_point) as [_ [H _]]. exact H.
  - intros A p _. apply disc_edge_continuous.
  - exact disc_signs.
  - exact Hv.
  - apply centre2_in_cell.
  - exists z. rewrite Rmult_1_r in Hd. auto.
Qed.

Local Close Scope R_scope.

(* ================================================================== *)
(* PART C: computed examples                                           *)
(* ================================================================== *)

(* a solid with a hole: the 3 x 3 block without its centre (1, 1) *)
Definition F_ring : list pt2 := [(0, 0); (1, 0); (2, 0); (0, 1); (2, 1); (0, 2); (1, 2); (2, 2)].

(* one segment per boundary edge *)
Lemma example_soup_sizes :
  (length (edges_of F_block) = 16%nat /\ length (soup_of F_block) = length (edges_of F_block)) /\
  (length (edges_of F_saddle) = 8%nat /\ length (soup_of F_saddle) = length (edges_of F_saddle)) /\
  (length (edges_of F_saddle') = 8%nat /\ length (soup_of F_saddle') = length (edges_of F_saddle')) /\
  (length (edges_of F_ring) = 16%nat /\ length (soup_of F_ring) = length (edges_of F_ring)).
Proof. repeat split; vm_compute; reflexivity. Qed.

Ltac valid_path_tac :=
  let s := fresh "s" in let H := fresh "H" in
  intros s H; cbn [In] in H;
  repeat (destruct H as [<- | H]; [reflexivity|]); destruct H.

(* from the inside point (0,0) of the block through (1,0) (inside) to (2,0), (3,0) (outside): one
   crossing, through one segment of the contour *)
Definition out_path2 : list step2 := [(1, true); (1, true); (1, true)].
Lemma out_path2_crossings :
  valid_path2 out_path2 /\
  filled_in F_block (0, 0) = true /\ path_end2 (0, 0) out_path2 = (3, 0) /\
  filled_in F_block (3, 0) = false /\
  crossings2 (filled_in F_block) (0, 0) out_path2 = 1%nat /\
  segs_crossed (filled_in F_block) (0, 0) out_path2 = 1%nat.
Proof. split; [unfold out_path2; valid_path_tac|]. repeat split; vm_compute; reflexivity. Qed.

(* across the ambiguous saddle cell (mask 9): (0,0) inside -> (1,0) outside -> (1,1) inside, two
   crossings; and all the way round that cell, a closed path with four *)
Definition saddle_path : list step2 := [(1, true); (2, true)].
Definition saddle_loop : list step2 := [(1, true); (2, true); (1, false); (2, false)].
Lemma saddle_path_crossings :
  valid_path2 saddle_loop /\
  path_points2 (0, 0) saddle_path = [(0, 0); (1, 0); (1, 1)] /\
  map (filled_in F_saddle) (path_points2 (0, 0) saddle_path) = [true; false; true] /\
  crossings2 (filled_in F_saddle) (0, 0) saddle_path = 2%nat /\
  segs_crossed (filled_in F_saddle) (0, 0) saddle_path = 2%nat /\
  path_end2 (0, 0) saddle_loop = (0, 0) /\
  path_points2 (0, 0) saddle_loop = [(0, 0); (1, 0); (1, 1); (0, 1); (0, 0)] /\
  crossings2 (filled_in F_saddle) (0, 0) saddle_loop = 4%nat /\
  segs_crossed (filled_in F_saddle) (0, 0) saddle_loop = 4%nat.
Proof. split; [unfold saddle_loop; valid_path_tac|]. repeat split; vm_compute; reflexivity. Qed.

(* from the hole (1,1) of the ring into the solid (2,1): one crossing; on to (3,1) outside: two *)
Lemma ring_path_crossings :
  filled_in F_ring (1, 1) = false /\ filled_in F_ring (2, 1) = true /\ filled_in F_ring (3, 1) = false /\
  segs_crossed (filled_in F_ring) (1, 1) [(1, true)] = 1%nat /\
  segs_crossed (filled_in F_ring) (1, 1) [(1, true); (1, true)] = 2%nat.
Proof. repeat split; vm_compute; reflexivity. Qed.

(* orientation, checked segment by segment *)
Definition wind_ok (ins : pt2 -> bool) (E : list ledge2) : bool :=
  forallb (fun e => forallb (fun s => cross2 (seg_dir s) (inward ins (fst e) (snd e)) =? 1)
                            (emit2 ins (fst e) (snd e))) E.

Lemma example_orientations :
  wind_ok (filled_in F_point) (edges_of F_point) = true /\
  wind_ok (filled_in F_saddle) (edges_of F_saddle) = true /\
  wind_ok (filled_in F_saddle') (edges_of F_saddle') = true /\
  wind_ok (filled_in F_block) (edges_of F_block) = true /\
  wind_ok (filled_in F_ring) (edges_of F_ring) = true.
Proof. repeat split; vm_compute; reflexivity. Qed.

(* the segment of the edge X from the inside point (1,0) of the block to the outside point (2,0)
   runs upwards (+Y, solid to the left = -X); that of the edge from (-1,0) (outside) to (0,0)
   (inside) runs downwards *)
Lemma block_orientation_example :
  map seg_dir (emit2 (filled_in F_block) 1 (1, 0)) = [(0, 1)] /\
  inward (filled_in F_block) 1 (1, 0) = (-1, 0) /\
  map seg_dir (emit2 (filled_in F_block) 1 (-1, 0)) = [(0, -1)] /\
  inward (filled_in F_block) 1 (-1, 0) = (1, 0).
Proof. repeat split; vm_compute; reflexivity. Qed.

(* twice the signed area enclosed by a soup of closed polygons on cell origins (shoelace formula);
   positive = counter-clockwise *)
Definition shoelace (l : list seg2) : Z :=
  fold_right (fun s acc => cross2 (fst (fst s)) (fst (snd s)) + acc) 0 l.

(* point: one unit square, counter-clockwise.  saddles: two.  block: a 2 x 2 square and two unit
   squares.  ring: the 3 x 3 outer square counter-clockwise MINUS the unit square around the hole,
   which is traversed clockwise (the solid is still on its left). *)
Lemma example_signed_areas :
  shoelace (soup_of F_point) = 2 /\ shoelace (soup_of F_saddle) = 4 /\
  shoelace (soup_of F_saddle') = 4 /\ shoelace (soup_of F_block) = 12 /\
  shoelace (soup_of F_ring) = 16 /\
  (forall e, In e (incident (1, 1)) -> In e (edges_of F_ring)) /\
  shoelace (contour_soup (filled_in F_ring) (incident (1, 1))) = -2.
Proof.
  repeat split; try (vm_compute; reflexivity).
  intros e He. cbn [incident In] in He.
  repeat (destruct He as [<- | He]; [vm_compute; tauto|]). destruct He.
Qed.

(* ================================================================== *)
(* Summary statements (quoted by Props/Properties_C10.v)               *)
(* ================================================================== *)

Theorem segments_are_boundary_edges :
  (forall ins A p, is_axis2 A = true ->
     (emit2 ins A p <> [] <-> sign_change2 ins (A, p) = true) /\
     length (emit2 ins A p) = (if sign_change2 ins (A, p) then 1 else 0)%nat /\
     (forall s, In s (emit2 ins A p) ->
        emit2 ins A p = [s] /\
        ((fst (fst s) = psub2 p (bits2 (3 - A)) /\ fst (snd s) = p) \/
         (fst (fst s) = p /\ fst (snd s) = psub2 p (bits2 (3 - A)))) /\
        psub2 p (bits2 (3 - A)) <> p /\ 0 <= snd (fst s) /\ 0 <= snd (snd s))) /\
  (forall ins E, (forall e, In e E -> is_axis2 (fst e) = true) ->
     length (contour_soup ins E) = length (filter (sign_change2 ins) E)) /\
  (forall ins E, covers2 ins E -> (forall e, In e E -> sign_change2 ins e = true) ->
     length (contour_soup ins E) = length E) /\
  (forall F A p, is_axis2 A = true ->
     (In (A, p) (edges_of F) <-> sign_change2 (filled_in F) (A, p) = true)) /\
  (forall F, length (contour_soup (filled_in F) (edges_of F)) = length (edges_of F)).
Proof.
  split; [|split; [exact soup_size | split; [exact soup_size_exact |
           split; [exact edges_of_exact | exact soup_size_finite]]]].
  intros ins A p HA.
  split; [apply emit2_nonempty_iff; exact HA|]. split; [apply emit2_length; exact HA|].
  intros s Hs. destruct (emit2_segment ins A p s HA Hs) as [_ [H1 [_ [Hc [V0 V1]]]]].
  split; [exact H1|]. split; [|split; [apply (cell_lo_neq A p HA) | split; assumption]].
  unfold cell_lo in Hc.
  destruct Hc as [[_ [_ [_ [C0 C1]]]] | [_ [_ [_ [C0 C1]]]]]; [left | right]; split; assumption.
Qed.

Theorem contours_separate :
  (forall ins p l, valid_path2 l ->
     crossings2 ins p l = segs_crossed ins p l /\
     Nat.odd (segs_crossed ins p l) = xorb (ins p) (ins (path_end2 p l)) /\
     (ins p = true -> ins (path_end2 p l) = false -> (1 <= segs_crossed ins p l)%nat) /\
     (path_end2 p l = p -> Nat.even (segs_crossed ins p l) = true)) /\
  (forall ins E p l, covers2 ins E -> valid_path2 l -> ins p <> ins (path_end2 p l) ->
     exists e s, In e (path_edges2 p l) /\ In e E /\ sign_change2 ins e = true /\
                 emit2 ins (fst e) (snd e) = [s] /\ In s (contour_soup ins E)).
Proof.
  split.
  - intros ins p l HV.
    split; [apply crossings2_are_segments; exact HV|].
    split; [rewrite <- (crossings2_are_segments ins p l HV); apply crossings2_parity|].
    split.
    + intros H1 H2. apply (inside_outside_separated2 ins p l HV H1 H2).
    + apply closed_path_even2. exact HV.
  - intros ins E p l HC HV Hne.
    destruct (separating_segment ins E p l HC HV Hne) as [e [He [I [HS I']]]].
    exists e, (seg_of ins (fst e) (snd e)). repeat split; try assumption.
    destruct e as [A q]. cbn [fst snd]. apply emit2_shape; [|exact HS].
    exact (path_edges2_axis p l _ HV He).
Qed.

Theorem contours_orientation ins A p s :
  is_axis2 A = true -> In s (emit2 ins A p) ->
  (ins p = true /\ ins (padd2 p (bits2 A)) = false /\
   seg_dir s = rot_cw (pneg2 (bits2 A)) /\ cross2 (seg_dir s) (pneg2 (bits2 A)) = 1) \/
  (ins p = false /\ ins (padd2 p (bits2 A)) = true /\
   seg_dir s = rot_cw (bits2 A) /\ cross2 (seg_dir s) (bits2 A) = 1).
Proof.
  intros HA Hs.
  destruct (emit2_segment ins A p s HA Hs) as [HS _].
  destruct (seg_orientation ins A p s HA Hs) as [Hd [_ Hx]].
  unfold inward in Hd, Hx.
  destruct (inside_end2 ins A p HS) as [[E0 E1] | [E0 E1]]; rewrite E0 in Hd, Hx; [left | right]; auto.
Qed.

Theorem boundary2_examples :
  (length (edges_of F_block) = 16%nat /\ length (soup_of F_block) = 16%nat) /\
  (mask2 (filled_in F_saddle) (0, 0) = 9 /\ length (soup_of F_saddle) = 8%nat) /\
  (valid_path2 out_path2 /\ filled_in F_block (0, 0) = true /\
   filled_in F_block (path_end2 (0, 0) out_path2) = false /\
   segs_crossed (filled_in F_block) (0, 0) out_path2 = 1%nat) /\
  (valid_path2 saddle_loop /\ path_end2 (0, 0) saddle_loop = (0, 0) /\
   segs_crossed (filled_in F_saddle) (0, 0) saddle_path = 2%nat /\
   segs_crossed (filled_in F_saddle) (0, 0) saddle_loop = 4%nat) /\
  (wind_ok (filled_in F_saddle) (edges_of F_saddle) = true /\
   wind_ok (filled_in F_saddle') (edges_of F_saddle') = true /\
   wind_ok (filled_in F_block) (edges_of F_block) = true /\
   wind_ok (filled_in F_ring) (edges_of F_ring) = true) /\
  (shoelace (soup_of F_point) = 2 /\ shoelace (soup_of F_block) = 12 /\
   shoelace (soup_of F_ring) = 16 /\
   shoelace (contour_soup (filled_in F_ring) (incident (1, 1))) = -2).
Proof.
  split; [split; vm_compute; reflexivity|].
  split; [split; vm_compute; reflexivity|].
  split; [split; [unfold out_path2; valid_path_tac | repeat split; vm_compute; reflexivity]|].
  split; [split; [unfold saddle_loop; valid_path_tac | repeat split; vm_compute; reflexivity]|].
  split; repeat split; vm_compute; reflexivity.
Qed.
