(* C10 (adaptive quadtrees): the quadtree itself, the topological part of
   DCTree<2>::collectChildren (dc_tree.inl: merging of uniform children, the three topology-safety
   tests of [Ju et al. 2002] -- cornersAreManifold, every child manifold, leafsAreManifold
   (dc_tree2.cpp) -- and the collapse into a leaf of level region.level), the recursive dual walk
   Dual<2>::work / edge2 (dual.hpp) and DCContourer::load<A> / load<A, D> (dc_contourer.cpp) with
   its minimum-level rule, on trees whose leaves have DIFFERENT sizes.

   A tree cell is EMPTY, FILLED, an AMBIGUOUS leaf (leaf->level, leaf->corner_mask, leaf->manifold)
   or a branch with four children indexed by corner number (bit 0 = X, bit 1 = Y).  A cell is
   named by its path from the root (child indices, innermost first); a contour vertex is
   (path of the leaf, patch index).  [child] of a leaf is the leaf itself, as XTree::child.

   The numerical part of collectChildren (QEF error below max_err, vertex inside the region,
   field value at the vertex below max_err) is an arbitrary oracle [ok : path -> bool]: the
   theorems hold for every oracle.  *)
From Coq Require Import List ZArith Bool Lia.
From LF Require Import Gen.MarchTables_gen Render.DCGrid2.
Import ListNotations.
Local Open Scope Z_scope.

Inductive qtree :=
| QE                                              (* type == Interval::EMPTY,  leaf == nullptr *)
| QF                                              (* type == Interval::FILLED, leaf == nullptr *)
| QA (lvl : nat) (mask : Z) (manifold : bool)     (* AMBIGUOUS, not a branch: leaf->level, corner_mask, manifold *)
| QB (c0 c1 c2 c3 : qtree).                       (* isBranch() *)

Definition path := list Z.
Definition cell := (qtree * path)%type.

Definition is_branch (t : qtree) : bool := match t with QB _ _ _ _ => true | _ => false end.
Definition is_ambig_leaf (t : qtree) : bool := match t with QA _ _ _ => true | _ => false end.

(* XTree::child: "returning *this if this isn't a branch" *)
Definition sub (t : qtree) (i : Z) : qtree :=
  match t with
  | QB c0 c1 c2 c3 => if i =? 0 then c0 else if i =? 1 then c1 else if i =? 2 then c2 else c3
  | _ => t
  end.
Definition child (c : cell) (i : Z) : cell :=
  if is_branch (fst c) then (sub (fst c) i, i :: snd c) else c.

(* DCTree<2>::cornerState: true = FILLED *)
Definition corner_state (t : qtree) (i : Z) : bool :=
  match t with
  | QA _ m _ => Z.testbit m i
  | QF => true
  | _ => false
  end.
(* DCTree<2>::isManifold (non-branching cells) *)
Definition cell_manifold (t : qtree) : bool :=
  match t with QA _ _ mf => mf | _ => true end.

(* ------------------------------------------------------------------ *)
(* collectChildren, topological part                                    *)
(* ------------------------------------------------------------------ *)

(* dc_tree2.cpp: corner_table = {1,1,1,1,1,1,0,1,1,0,1,1,1,1,1,1} *)
Definition corners_manifold (m : Z) : bool := negb ((m =? 6) || (m =? 9)).

Definition build_mask (s0 s1 s2 s3 : bool) : Z :=
  (if s0 then 1 else 0) + (if s1 then 2 else 0) + (if s2 then 4 else 0) + (if s3 then 8 else 0).

(* DCTree<2>::leafsAreManifold(cs, corners): every side midpoint agrees with one end of its
   side, the centre with one of the four corners *)
Definition leafs_manifold (c0 c1 c2 c3 : qtree) (k0 k1 k2 k3 : bool) : bool :=
  let eqs := Bool.eqb in
  let edges_safe :=
    (eqs (corner_state c0 1) k0 || eqs (corner_state c0 1) k1) &&
    (eqs (corner_state c0 2) k0 || eqs (corner_state c0 2) k2) &&
    (eqs (corner_state c1 3) k1 || eqs (corner_state c1 3) k3) &&
    (eqs (corner_state c2 3) k2 || eqs (corner_state c2 3) k3) in
  let faces_safe :=
    eqs (corner_state c0 3) k0 || eqs (corner_state c0 3) k2 ||
    eqs (corner_state c0 3) k1 || eqs (corner_state c0 3) k3 in
  edges_safe && faces_safe.

Definition is_QE (t : qtree) : bool := match t with QE => true | _ => false end.
Definition is_QF (t : qtree) : bool := match t with QF => true | _ => false end.

(* one call of collectChildren on a cell of level [k] (= region.level) whose four children are
   finished; [ok] is the verdict of the numerical tests, consulted only where the code reaches them *)
Definition collect1 (ok : bool) (k : nat) (c0 c1 c2 c3 : qtree) : qtree :=
  if is_branch c0 || is_branch c1 || is_branch c2 || is_branch c3 then QB c0 c1 c2 c3
  else if is_QE c0 && is_QE c1 && is_QE c2 && is_QE c3 then QE
  else if is_QF c0 && is_QF c1 && is_QF c2 && is_QF c3 then QF
  else
    let k0 := corner_state c0 0 in let k1 := corner_state c1 1 in
    let k2 := corner_state c2 2 in let k3 := corner_state c3 3 in
    let m := build_mask k0 k1 k2 k3 in
    if corners_manifold m
       && (cell_manifold c0 && cell_manifold c1 && cell_manifold c2 && cell_manifold c3)
       && leafs_manifold c0 c1 c2 c3 k0 k1 k2 k3
       && ok
    then QA k m true
    else QB c0 c1 c2 c3.

(* the whole bottom-up pass: [k] is the level of the cell (root: the depth of the tree), [p] its path *)
Fixpoint collect (ok : path -> bool) (k : nat) (p : path) (t : qtree) : qtree :=
  match t with
  | QB c0 c1 c2 c3 =>
      collect1 (ok p) k (collect ok (pred k) (0 :: p) c0) (collect ok (pred k) (1 :: p) c1)
                        (collect ok (pred k) (2 :: p) c2) (collect ok (pred k) (3 :: p) c3)
  | _ => t
  end.

(* ------------------------------------------------------------------ *)
(* the dual walk                                                        *)
(* ------------------------------------------------------------------ *)
Definition qvertex := (path * Z)%type.
Definition qseg := (qvertex * qvertex)%type.

(* DCContourer::load<A>(ts) followed by load<A, D>(ts); A is 1 (X) or 2 (Y) *)
Definition load (A : Z) (a b : cell) : list qseg :=
  match fst a, fst b with
  | QA la ma _, QA lb mb _ =>
      (* std::min_element over leaf->level: the first of the smallest *)
      let second := Nat.ltb lb la in
      let t := if second then fst b else fst a in
      let perp := 3 - A in
      let c := if second then 0 else perp in              (* corners = {perp, 0} *)
      let sa := corner_state t c in
      let sb := corner_state t (Z.lor c A) in
      if Bool.eqb sa sb then []
      else
        let D := negb ((sa && (A =? 2)) || (sb && (A =? 1))) in
        let '(es0, es1) := if xorb D (A =? 1) then (e2 3 (3 - A), e2 A 0) else (e2 (3 - A) 3, e2 0 A) in
        let vi0 := if Nat.ltb 0 la then 0 else p2 ma es0 in
        let vi1 := if Nat.ltb 0 lb then 0 else p2 mb es1 in
        let v0 := (snd a, vi0) in
        let v1 := (snd b, vi1) in
        if D then [(v0, v1)] else [(v1, v0)]
  | _, _ => []
  end.

(* edge2<T, V, A>; the recursion descends in both trees at once, [fuel] bounds its depth *)
Fixpoint edge2 (fuel : nat) (A : Z) (a b : cell) : list qseg :=
  match fuel with
  | O => []
  | S f =>
      let perp := 3 - A in
      if is_branch (fst a) || is_branch (fst b) then
        edge2 f A (child a perp) (child b 0) ++ edge2 f A (child a (Z.lor A perp)) (child b A)
      else load A a b
  end.

(* Dual<2>::work *)
Definition work (fuel : nat) (c : cell) : list qseg :=
  edge2 fuel 2 (child c 0) (child c 1) ++ edge2 fuel 2 (child c 2) (child c 3) ++
  edge2 fuel 1 (child c 0) (child c 2) ++ edge2 fuel 1 (child c 1) (child c 3).

(* Dual<2>::run calls work once on every branch (bottom-up; the order does not matter for the soup) *)
Fixpoint walk (fuel : nat) (t : qtree) (p : path) : list qseg :=
  match t with
  | QB c0 c1 c2 c3 =>
      walk fuel c0 (0 :: p) ++ walk fuel c1 (1 :: p) ++ walk fuel c2 (2 :: p) ++ walk fuel c3 (3 :: p) ++
      work fuel (t, p)
  | _ => []
  end.

Fixpoint height (t : qtree) : nat :=
  match t with
  | QB c0 c1 c2 c3 => S (Nat.max (Nat.max (height c0) (height c1)) (Nat.max (height c2) (height c3)))
  | _ => O
  end.

Definition contour_walk (t : qtree) : list qseg := walk (S (height t)) t [].

(* ------------------------------------------------------------------ *)
(* geometry: the lattice and what the signs stored in the tree mean     *)
(* ------------------------------------------------------------------ *)
(* the cell of level k with lower corner o covers [o, o + 2^k]^2 of the finest lattice *)
Definition csize (k : nat) : Z := 2 ^ Z.of_nat k.
Definition corner_pt (o : pt2) (k : nat) (i : Z) : pt2 :=
  (fst o + csize k * Z.land i 1, snd o + csize k * Z.land (Z.shiftr i 1) 1).
Definition child_org (o : pt2) (k : nat) (i : Z) : pt2 := corner_pt o (pred k) i.
Definition in_closed (o : pt2) (k : nat) (q : pt2) : Prop :=
  fst o <= fst q <= fst o + csize k /\ snd o <= snd q <= snd o + csize k.

(* no a, b, a pattern along the lattice points q0 + i * d, 0 <= i <= n *)
Definition monotone_run (ins : pt2 -> bool) (q0 d : pt2) (n : Z) : Prop :=
  forall i j l, 0 <= i <= j -> j <= l <= n ->
    ins (fst q0 + i * fst d, snd q0 + i * snd d) = ins (fst q0 + l * fst d, snd q0 + l * snd d) ->
    ins (fst q0 + j * fst d, snd q0 + j * snd d) = ins (fst q0 + i * fst d, snd q0 + i * snd d).
(* the four sides of the cell *)
Definition sides_monotone (ins : pt2 -> bool) (o : pt2) (k : nat) : Prop :=
  monotone_run ins o (1, 0) (csize k) /\ monotone_run ins o (0, 1) (csize k) /\
  monotone_run ins (corner_pt o k 2) (1, 0) (csize k) /\ monotone_run ins (corner_pt o k 1) (0, 1) (csize k).

Definition mask_of (ins : pt2 -> bool) (o : pt2) (k : nat) : Z :=
  build_mask (ins (corner_pt o k 0)) (ins (corner_pt o k 1)) (ins (corner_pt o k 2)) (ins (corner_pt o k 3)).

(* [consistent ins t o k]: the tree describes the lattice signs [ins] on the cell (o, k):
   - pruned cells (interval arithmetic, or merged from pruned children) are uniform on every lattice
     point they contain (soundness of pruning, C02 / C04);
   - an ambiguous leaf sits at the level its size says, stores the signs of its own corners,
     its manifold flag is cornersAreManifold of its mask at level 0 and true above, and a collapsed
     leaf (level > 0) has a manifold mask and no a, b, a pattern along any of its sides;
   - a branch has level k > 0 and consistent children *)
Fixpoint consistent (ins : pt2 -> bool) (t : qtree) (o : pt2) (k : nat) : Prop :=
  match t with
  | QE => forall q, in_closed o k q -> ins q = false
  | QF => forall q, in_closed o k q -> ins q = true
  | QA lvl m mf =>
      lvl = k /\ m = mask_of ins o k /\ m <> 0 /\ m <> 15 /\
      (k = O -> mf = corners_manifold m) /\
      (k <> O -> mf = true /\ corners_manifold m = true /\ sides_monotone ins o k)
  | QB c0 c1 c2 c3 =>
      k <> O /\
      consistent ins c0 (child_org o k 0) (pred k) /\ consistent ins c1 (child_org o k 1) (pred k) /\
      consistent ins c2 (child_org o k 2) (pred k) /\ consistent ins c3 (child_org o k 3) (pred k)
  end.

(* the tree before any collapse: every ambiguous leaf is a finest cell *)
Fixpoint uncollapsed (t : qtree) : Prop :=
  match t with
  | QA lvl _ _ => lvl = O
  | QB c0 c1 c2 c3 => uncollapsed c0 /\ uncollapsed c1 /\ uncollapsed c2 /\ uncollapsed c3
  | _ => True
  end.

(* the solid lies strictly inside the region: no filled lattice point on the boundary of the root *)
Definition boundary_clear (ins : pt2 -> bool) (k : nat) : Prop :=
  forall q, in_closed (0, 0) k q ->
    (fst q = 0 \/ fst q = csize k \/ snd q = 0 \/ snd q = csize k) -> ins q = false.

(* degrees *)
Fixpoint path_eqb (p q : path) : bool :=
  match p, q with
  | [], [] => true
  | x :: p', y :: q' => (x =? y) && path_eqb p' q'
  | _, _ => false
  end.
Definition qvertex_eqb (u v : qvertex) : bool := path_eqb (fst u) (fst v) && (snd u =? snd v).
Definition qout_deg (v : qvertex) (s : list qseg) : nat := length (filter (fun x => qvertex_eqb (fst x) v) s).
Definition qin_deg (v : qvertex) (s : list qseg) : nat := length (filter (fun x => qvertex_eqb (snd x) v) s).

(* ------------------------------------------------------------------ *)
(* executable checkers for the hypotheses (run on the implementation's   *)
(* own trees by the correspondence stage)                               *)
(* ------------------------------------------------------------------ *)
Definition zrange (n : Z) : list Z := map Z.of_nat (seq 0 (Z.to_nat n)).
Definition closed_pts (o : pt2) (k : nat) : list pt2 :=
  flat_map (fun i => map (fun j => (fst o + i, snd o + j)) (zrange (csize k + 1))) (zrange (csize k + 1)).
Definition run_pts (q0 d : pt2) (n : Z) : list pt2 :=
  map (fun i => (fst q0 + i * fst d, snd q0 + i * snd d)) (zrange (n + 1)).
(* number of sign changes along a list of booleans *)
Fixpoint changes (l : list bool) : nat :=
  match l with
  | a :: ((b :: _) as r) => (if Bool.eqb a b then 0 else 1)%nat + changes r
  | _ => O
  end.
Definition monotone_runb (ins : pt2 -> bool) (q0 d : pt2) (n : Z) : bool :=
  Nat.leb (changes (map ins (run_pts q0 d n))) 1.
Definition sides_monotoneb (ins : pt2 -> bool) (o : pt2) (k : nat) : bool :=
  monotone_runb ins o (1, 0) (csize k) && monotone_runb ins o (0, 1) (csize k) &&
  monotone_runb ins (corner_pt o k 2) (1, 0) (csize k) && monotone_runb ins (corner_pt o k 1) (0, 1) (csize k).

Fixpoint consistentb (ins : pt2 -> bool) (t : qtree) (o : pt2) (k : nat) : bool :=
  match t with
  | QE => forallb (fun q => negb (ins q)) (closed_pts o k)
  | QF => forallb ins (closed_pts o k)
  | QA lvl m mf =>
      Nat.eqb lvl k && (m =? mask_of ins o k) && negb (m =? 0) && negb (m =? 15) &&
      (if Nat.eqb k 0 then Bool.eqb mf (corners_manifold m)
       else mf && corners_manifold m && sides_monotoneb ins o k)
  | QB c0 c1 c2 c3 =>
      negb (Nat.eqb k 0) &&
      consistentb ins c0 (child_org o k 0) (pred k) && consistentb ins c1 (child_org o k 1) (pred k) &&
      consistentb ins c2 (child_org o k 2) (pred k) && consistentb ins c3 (child_org o k 3) (pred k)
  end.

Definition boundary_clearb (ins : pt2 -> bool) (k : nat) : bool :=
  forallb (fun q => negb (ins q))
    (run_pts (0, 0) (1, 0) (csize k) ++ run_pts (0, 0) (0, 1) (csize k) ++
     run_pts (0, csize k) (1, 0) (csize k) ++ run_pts (csize k, 0) (0, 1) (csize k)).

Fixpoint qtree_eqb (s t : qtree) : bool :=
  match s, t with
  | QE, QE => true
  | QF, QF => true
  | QA l m f, QA l' m' f' => Nat.eqb l l' && (m =? m') && Bool.eqb f f'
  | QB a b c d, QB a' b' c' d' => qtree_eqb a a' && qtree_eqb b b' && qtree_eqb c c' && qtree_eqb d d'
  | _, _ => false
  end.
