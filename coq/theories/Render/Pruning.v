(* C04, the part that is logic rather than geometry of a particular mesher: pruning never
   discards surface.  A cell gets the type EMPTY / FILLED only from an interval result
   (Interval::state); if interval evaluation is sound on the cell (C02), the cell contains no
   zero of the field and every point of it has the sign of the interval.  Hence every zero of
   the field lies in a cell classified AMBIGUOUS.

   pruned_cells_have_no_surface      a FILLED cell has f < 0 everywhere, an EMPTY one 0 < f.
   surface_only_in_ambiguous_cells   a zero of f in a cell forces the cell to be AMBIGUOUS.
   vol_tree_prune_sound              the same through an acceleration structure: a sub-cell of
                                     an unambiguous cell inherits its sign. *)
From Coq Require Import Reals Lra List.
Local Open Scope R_scope.

Inductive state := Empty | Filled | Ambiguous.

(* Interval::state *)
Definition classify {cell : Type} (lo hi : cell -> R) (c : cell) : state :=
  if Rlt_dec (hi c) 0 then Filled else if Rlt_dec 0 (lo c) then Empty else Ambiguous.

Section Pruning.
  Variable P : Type.                      (* points *)
  Variable f : P -> R.                    (* the field *)
  Variable cell : Type.
  Variable inc : P -> cell -> Prop.       (* point in cell *)
  Variable lo hi : cell -> R.             (* interval result of the cell *)
  Hypothesis sound : forall c p, inc p c -> lo c <= f p <= hi c.     (* C02 for this cell *)

  Lemma pruned_cells_have_no_surface : forall c p, inc p c ->
    (classify lo hi c = Filled -> f p < 0) /\ (classify lo hi c = Empty -> 0 < f p).
  Proof.
    intros c p Hp. pose proof (sound c p Hp) as [H1 H2]. unfold classify.
    destruct (Rlt_dec (hi c) 0); [split; intros; [lra | discriminate]|].
    destruct (Rlt_dec 0 (lo c)); split; intros; try discriminate; lra.
  Qed.

  Lemma surface_only_in_ambiguous_cells : forall c p, inc p c -> f p = 0 -> classify lo hi c = Ambiguous.
  Proof.
    intros c p Hp Hz. destruct (pruned_cells_have_no_surface c p Hp) as [A B].
    destruct (classify lo hi c) eqn:E; [specialize (B eq_refl); lra | specialize (A eq_refl); lra | reflexivity].
  Qed.

  (* a volume tree (acceleration structure) that was built from sound intervals prunes soundly too *)
  Lemma vol_tree_prune_sound : forall (big small : cell),
    (forall p, inc p small -> inc p big) -> classify lo hi big <> Ambiguous ->
    forall p, inc p small ->
      (classify lo hi big = Filled -> f p < 0) /\ (classify lo hi big = Empty -> 0 < f p).
  Proof. intros big small Hsub _ p Hp. apply pruned_cells_have_no_surface. apply Hsub; exact Hp. Qed.
End Pruning.
