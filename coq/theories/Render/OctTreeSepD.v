(* C04 (adaptive octrees): completeness of the face recursion face3 (continuation of OctTreeSepC.v). *)
From Coq Require Import List ZArith Bool Lia Arith.
From LF Require Import Gen.MarchTables_gen Gen.ManifoldTables_gen Render.DCGrid Render.DCGridSem
                       Render.OctTree Render.OctTreeGeom Render.OctTreeCollect Render.OctTreeNet Render.OctTreeFace Render.OctTreeSem
                       Render.OctTreeSepDefs Render.OctTreeSepA Render.OctTreeSepB Render.OctTreeSepC.
Import ListNotations.
Local Open Scope Z_scope.

Lemma cube_in_host ins X x cc kc : oconsistent ins (c_t X) (c_o X) (c_k X) -> In x (pleaves3 X) -> cube_in cc kc x ->
  box_in cc kc (c_o X) (c_k X).
Proof.
  intros C Hx Cx. destruct (oleaves_inside ins _ _ _ _ _ C Hx) as [_ [L _]]. unfold cube_in in Cx.
  destruct cc as [[cx cy] cz], (c_o x) as [[ax ay] az], (c_o X) as [[ox oy] oz]. unfold box_in in *. lia.
Qed.

(** face3 is complete: called on the two placed cells c0 (below) and c1 (above) of the square face (sf, k0) of
    normal N, it reaches the load3 call of every quadruple of leaves (two below each) around a minimal edge
    (s, k) of axis A = Qax N or Rax N lying in the face, strictly inside across. *)
Definition face3_stmt (ins : pt3 -> bool) (diag : overtex -> overtex -> overtex -> overtex -> bool) (N A : Z) : Prop := forall f c0 c1 sf k0 a b c d s k,
  pffits3 ins N false c0 sf k0 -> pffits3 ins N true c1 sf k0 ->
  (oheight (c_t c0) < f)%nat -> (oheight (c_t c1) < f)%nat ->
  In a (pleaves3 c0) -> In d (pleaves3 c1) ->
  In b (pleaves3 (if A =? Qax N then c0 else c1)) -> In c (pleaves3 (if A =? Qax N then c1 else c0)) ->
  min_edge3 A a b c d s k -> inface N sf k0 A s k ->
  incl (load3 diag A (c_cell a) (c_cell b) (c_cell c) (c_cell d)) (face3 diag f N (c_cell c0) (c_cell c1)).

