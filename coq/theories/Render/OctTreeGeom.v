(* C03 / C04 (adaptive octrees): basic facts about the model of Render/OctTree.v used by
   Render/OctTreeCollect.v and Render/OctTreeSem.v: cell sizes, corner points in coordinates, bits of
   corner masks, what a consistent non-branching cell says about the lattice, decidable equalities. *)
From Coq Require Import List ZArith Bool Lia Arith.
From LF Require Import Gen.MarchTables_gen Gen.ManifoldTables_gen Render.DCGrid Render.OctTree.
Import ListNotations.
Local Open Scope Z_scope.

Global Arguments osize : simpl never.
Global Arguments p3 : simpl never.
Global Arguments e3 : simpl never.

(* ------------------------------------------------------------------------- *)
(** * Sizes *)
Lemma osize_S k : osize (S k) = 2 * osize k.
Proof. unfold osize. rewrite Nat2Z.inj_succ, Z.pow_succ_r by lia. reflexivity. Qed.
Lemma osize_pos k : 0 < osize k.
Proof. unfold osize. apply Z.pow_pos_nonneg; lia. Qed.
Lemma osize_0 : osize 0 = 1.
Proof. reflexivity. Qed.

(* ------------------------------------------------------------------------- *)
(** * Corner points in coordinates *)
Ltac red_bits :=
  repeat match goal with
         | |- context [Z.land ?a 1] =>
           let v := eval vm_compute in (Z.land a 1) in change (Z.land a 1) with v
         end.

Lemma ocorner_pt_0 x y z k : ocorner_pt (x, y, z) k 0 = (x, y, z).
Proof. unfold ocorner_pt. red_bits. repeat f_equal; lia. Qed.
Lemma ocorner_pt_1 x y z k : ocorner_pt (x, y, z) k 1 = (x + osize k, y, z).
Proof. unfold ocorner_pt. red_bits. repeat f_equal; lia. Qed.
Lemma ocorner_pt_2 x y z k : ocorner_pt (x, y, z) k 2 = (x, y + osize k, z).
Proof. unfold ocorner_pt. red_bits. repeat f_equal; lia. Qed.
Lemma ocorner_pt_3 x y z k : ocorner_pt (x, y, z) k 3 = (x + osize k, y + osize k, z).
Proof. unfold ocorner_pt. red_bits. repeat f_equal; lia. Qed.
Lemma ocorner_pt_4 x y z k : ocorner_pt (x, y, z) k 4 = (x, y, z + osize k).
Proof. unfold ocorner_pt. red_bits. repeat f_equal; lia. Qed.
Lemma ocorner_pt_5 x y z k : ocorner_pt (x, y, z) k 5 = (x + osize k, y, z + osize k).
Proof. unfold ocorner_pt. red_bits. repeat f_equal; lia. Qed.
Lemma ocorner_pt_6 x y z k : ocorner_pt (x, y, z) k 6 = (x, y + osize k, z + osize k).
Proof. unfold ocorner_pt. red_bits. repeat f_equal; lia. Qed.
Lemma ocorner_pt_7 x y z k : ocorner_pt (x, y, z) k 7 = (x + osize k, y + osize k, z + osize k).
Proof. unfold ocorner_pt. red_bits. repeat f_equal; lia. Qed.

Ltac corner_pts :=
  rewrite ?ocorner_pt_0, ?ocorner_pt_1, ?ocorner_pt_2, ?ocorner_pt_3,
          ?ocorner_pt_4, ?ocorner_pt_5, ?ocorner_pt_6, ?ocorner_pt_7.
Ltac corner_pts_in H :=
  rewrite ?ocorner_pt_0, ?ocorner_pt_1, ?ocorner_pt_2, ?ocorner_pt_3,
          ?ocorner_pt_4, ?ocorner_pt_5, ?ocorner_pt_6, ?ocorner_pt_7 in H.

Lemma in_corners8 i : In i corners8 <-> i = 0 \/ i = 1 \/ i = 2 \/ i = 3 \/ i = 4 \/ i = 5 \/ i = 6 \/ i = 7.
Proof. unfold corners8. cbn [In]. intuition. Qed.

Lemma in_closed3_xyz x y z k a b c :
  in_closed3 (x, y, z) k (a, b, c) <->
  (x <= a <= x + osize k /\ y <= b <= y + osize k /\ z <= c <= z + osize k).
Proof. reflexivity. Qed.

Lemma corner_in_closed o k i : In i corners8 -> in_closed3 o k (ocorner_pt o k i).
Proof.
  destruct o as [[x y] z]. intros H. apply in_corners8 in H. pose proof (osize_pos k).
  destruct H as [-> | [-> | [-> | [-> | [-> | [-> | [-> | ->]]]]]]]; corner_pts; apply in_closed3_xyz; lia.
Qed.

(* ------------------------------------------------------------------------- *)
(** * Bits of corner masks *)
Definition mask8 (b0 b1 b2 b3 b4 b5 b6 b7 : bool) : Z := obuild_mask [b0; b1; b2; b3; b4; b5; b6; b7].

Lemma mask8_testbit b0 b1 b2 b3 b4 b5 b6 b7 :
  let m := mask8 b0 b1 b2 b3 b4 b5 b6 b7 in
  Z.testbit m 0 = b0 /\ Z.testbit m 1 = b1 /\ Z.testbit m 2 = b2 /\ Z.testbit m 3 = b3 /\
  Z.testbit m 4 = b4 /\ Z.testbit m 5 = b5 /\ Z.testbit m 6 = b6 /\ Z.testbit m 7 = b7.
Proof. destruct b0, b1, b2, b3, b4, b5, b6, b7; vm_compute; repeat split; reflexivity. Qed.

Lemma mask8_range b0 b1 b2 b3 b4 b5 b6 b7 : 0 <= mask8 b0 b1 b2 b3 b4 b5 b6 b7 < 256.
Proof. destruct b0, b1, b2, b3, b4, b5, b6, b7; vm_compute; split; congruence. Qed.

Lemma mask8_zero b0 b1 b2 b3 b4 b5 b6 b7 : mask8 b0 b1 b2 b3 b4 b5 b6 b7 = 0 ->
  b0 = false /\ b1 = false /\ b2 = false /\ b3 = false /\ b4 = false /\ b5 = false /\ b6 = false /\ b7 = false.
Proof. destruct b0, b1, b2, b3, b4, b5, b6, b7; vm_compute; intros H; try discriminate H; repeat split; reflexivity. Qed.

Lemma mask8_full b0 b1 b2 b3 b4 b5 b6 b7 : mask8 b0 b1 b2 b3 b4 b5 b6 b7 = 255 ->
  b0 = true /\ b1 = true /\ b2 = true /\ b3 = true /\ b4 = true /\ b5 = true /\ b6 = true /\ b7 = true.
Proof. destruct b0, b1, b2, b3, b4, b5, b6, b7; vm_compute; intros H; try discriminate H; repeat split; reflexivity. Qed.

Lemma omask_of_mask8 ins o k :
  omask_of ins o k =
  mask8 (ins (ocorner_pt o k 0)) (ins (ocorner_pt o k 1)) (ins (ocorner_pt o k 2)) (ins (ocorner_pt o k 3))
        (ins (ocorner_pt o k 4)) (ins (ocorner_pt o k 5)) (ins (ocorner_pt o k 6)) (ins (ocorner_pt o k 7)).
Proof. reflexivity. Qed.

Lemma omask_of_testbit ins o k i : In i corners8 -> Z.testbit (omask_of ins o k) i = ins (ocorner_pt o k i).
Proof.
  intros H. rewrite omask_of_mask8.
  match goal with |- Z.testbit (mask8 ?a0 ?a1 ?a2 ?a3 ?a4 ?a5 ?a6 ?a7) _ = _ =>
    pose proof (mask8_testbit a0 a1 a2 a3 a4 a5 a6 a7) as T end.
  cbv zeta in T. destruct T as [T0 [T1 [T2 [T3 [T4 [T5 [T6 T7]]]]]]].
  apply in_corners8 in H.
  destruct H as [-> | [-> | [-> | [-> | [-> | [-> | [-> | ->]]]]]]]; assumption.
Qed.

Lemma omask_of_range ins o k : 0 <= omask_of ins o k < 256.
Proof. rewrite omask_of_mask8. apply mask8_range. Qed.

(* ------------------------------------------------------------------------- *)
(** * What a consistent non-branching cell says about the lattice *)
Lemma ocorner_state_consistent ins t o k i :
  oconsistent ins t o k -> o_is_branch t = false -> In i corners8 ->
  ocorner_state t i = ins (ocorner_pt o k i).
Proof.
  intros C NB Hi. destruct t as [| |l m mf|]; try discriminate; cbn [oconsistent ocorner_state] in *.
  - symmetry. apply C. apply corner_in_closed. exact Hi.
  - symmetry. apply C. apply corner_in_closed. exact Hi.
  - destruct C as [_ [-> _]]. apply omask_of_testbit. exact Hi.
Qed.

Lemma ouniform ins t o k q1 q2 :
  oconsistent ins t o k -> o_is_branch t = false -> o_is_ambig t = false ->
  in_closed3 o k q1 -> in_closed3 o k q2 -> ins q1 = ins q2.
Proof.
  intros C NB NA H1 H2. destruct t; try discriminate; cbn [oconsistent] in C;
    rewrite (C _ H1), (C _ H2); reflexivity.
Qed.

Lemma oambig_level ins l m mf o k : oconsistent ins (OA l m mf) o k -> l = k.
Proof. cbn [oconsistent]. tauto. Qed.

(* the children of a consistent branch *)
Lemma ochild_org_S o k i : ochild_org o (S k) i = ocorner_pt o k i.
Proof. reflexivity. Qed.

Lemma oconsistent_branch ins c0 c1 c2 c3 c4 c5 c6 c7 o k :
  oconsistent ins (OB c0 c1 c2 c3 c4 c5 c6 c7) o k ->
  exists k', k = S k' /\
    oconsistent ins c0 (ocorner_pt o k' 0) k' /\ oconsistent ins c1 (ocorner_pt o k' 1) k' /\
    oconsistent ins c2 (ocorner_pt o k' 2) k' /\ oconsistent ins c3 (ocorner_pt o k' 3) k' /\
    oconsistent ins c4 (ocorner_pt o k' 4) k' /\ oconsistent ins c5 (ocorner_pt o k' 5) k' /\
    oconsistent ins c6 (ocorner_pt o k' 6) k' /\ oconsistent ins c7 (ocorner_pt o k' 7) k'.
Proof.
  cbn [oconsistent]. intros [Hk C]. destruct k as [|k']; [congruence|]. exists k'. split; [reflexivity|].
  cbn [pred] in C. rewrite !ochild_org_S in C. exact C.
Qed.

Lemma osub_consistent ins t o k i :
  oconsistent ins t o (S k) -> o_is_branch t = true -> In i corners8 ->
  oconsistent ins (osub t i) (ocorner_pt o k i) k.
Proof.
  intros C B Hi. destruct t as [| | |c0 c1 c2 c3 c4 c5 c6 c7]; try discriminate.
  destruct (oconsistent_branch _ _ _ _ _ _ _ _ _ _ _ C) as [k' [E C']]. injection E as <-.
  apply in_corners8 in Hi.
  destruct Hi as [-> | [-> | [-> | [-> | [-> | [-> | [-> | ->]]]]]]]; cbn [osub Z.eqb Pos.eqb]; tauto.
Qed.

Lemma obranch_level ins t o k : oconsistent ins t o k -> o_is_branch t = true -> k <> O.
Proof. destruct t; try discriminate. cbn [oconsistent]. tauto. Qed.

Lemma oheight_sub t i : o_is_branch t = true -> (oheight (osub t i) < oheight t)%nat.
Proof.
  destruct t as [| | |c0 c1 c2 c3 c4 c5 c6 c7]; try discriminate. intros _.
  cbn [osub oheight].
  repeat match goal with |- context [if ?c then _ else _] => destruct c end; lia.
Qed.

Lemma oheight_leaf t : o_is_branch t = false -> oheight t = O.
Proof. destruct t; try discriminate; reflexivity. Qed.

Lemma ochild_branch t p i : o_is_branch t = true -> ochild (t, p) i = (osub t i, i :: p).
Proof. unfold ochild. cbn [fst snd]. intros ->. reflexivity. Qed.
Lemma ochild_leaf t p i : o_is_branch t = false -> ochild (t, p) i = (t, p).
Proof. unfold ochild. cbn [fst snd]. intros ->. reflexivity. Qed.

(* ------------------------------------------------------------------------- *)
(** * Decidable equalities *)
Lemma opath_eqb_eq p q : opath_eqb p q = true <-> p = q.
Proof.
  revert q. induction p as [|x p IH]; intros [|y q]; cbn [opath_eqb]; split; try congruence; try discriminate.
  - rewrite andb_true_iff, Z.eqb_eq, IH. intros [-> ->]. reflexivity.
  - intros E. inversion E. subst. rewrite Z.eqb_refl. apply IH. reflexivity.
Qed.

Lemma overtex_eqb_eq u v : overtex_eqb u v = true <-> u = v.
Proof.
  destruct u as [p i], v as [q j]. unfold overtex_eqb. cbn [fst snd].
  rewrite andb_true_iff, opath_eqb_eq, Z.eqb_eq. split; [intros [-> ->]; reflexivity|intros E; inversion E; auto].
Qed.

Lemma overtex_eqb_refl u : overtex_eqb u u = true.
Proof. apply overtex_eqb_eq. reflexivity. Qed.

Lemma overtex_eqb_sym u v : overtex_eqb u v = overtex_eqb v u.
Proof.
  destruct (overtex_eqb u v) eqn:E1, (overtex_eqb v u) eqn:E2; try reflexivity.
  - apply overtex_eqb_eq in E1. subst. rewrite overtex_eqb_refl in E2. discriminate.
  - apply overtex_eqb_eq in E2. subst. rewrite overtex_eqb_refl in E1. discriminate.
Qed.

Lemma odedge_eqb_eq e f : odedge_eqb e f = true <-> e = f.
Proof.
  destruct e as [a b], f as [c d]. unfold odedge_eqb. cbn [fst snd].
  rewrite andb_true_iff, !overtex_eqb_eq. split; [intros [-> ->]; reflexivity|intros H; inversion H; auto].
Qed.

(* axes *)
Definition oaxis (A : Z) : Prop := A = 1 \/ A = 2 \/ A = 4.
