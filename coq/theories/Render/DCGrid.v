(* C03 (dual contouring) on a uniform grid: Dual<3>::walk + DCMesher::load<A> / load<A, D>
   (dc_mesher.cpp), with the patch tables libfive builds at start-up (Gen/MarchTables_gen.v,
   dumped from the implementation on every run).

   Lattice points are Z^3; the cell with origin c has corner i (bits x = 1, y = 2, z = 4) at
   c + bits i; [ins] tells which lattice points are FILLED.  Every cell is a leaf of level 0
   (no merging), so each cell has one vertex per manifold patch of its corner mask:
   a mesh vertex is (cell origin, patch index).

   For every lattice edge (axis A, start point p) the walk calls load<A> with the four cells
   around it, ts[0] = p - Q - R, ts[1] = p - R, ts[2] = p - Q, ts[3] = p (Q, R the other two
   axes in cyclic order): if the ends differ in sign one quad is emitted, as two triangles; which
   diagonal is used depends on vertex positions (normals) and is a free choice here. *)
From Coq Require Import List ZArith Bool Lia.
From LF Require Import Gen.MarchTables_gen.
Import ListNotations.
Local Open Scope Z_scope.

Definition pt3 := (Z * Z * Z)%type.
Definition padd (p q : pt3) : pt3 :=
  let '(a, b, c) := p in let '(x, y, z) := q in (a + x, b + y, c + z).
Definition psub (p q : pt3) : pt3 :=
  let '(a, b, c) := p in let '(x, y, z) := q in (a - x, b - y, c - z).
(* unit offsets encoded by corner bits *)
Definition bits (i : Z) : pt3 := (Z.land i 1, Z.land (Z.shiftr i 1) 1, Z.land (Z.shiftr i 2) 1).

(* axes as in libfive/render/axes.hpp: X = 1, Y = 2, Z = 4 *)
Definition Qax (a : Z) : Z := if a =? 1 then 2 else if a =? 2 then 4 else 1.
Definition Rax (a : Z) : Z := if a =? 1 then 4 else if a =? 2 then 1 else 2.

Definition corner (c : pt3) (i : Z) : pt3 := padd c (bits i).
(* buildCornerMask *)
Definition mask (ins : pt3 -> bool) (c : pt3) : Z :=
  fold_left (fun m i => if ins (corner c i) then m + 2 ^ i else m) [0; 1; 2; 3; 4; 5; 6; 7] 0.

Definition tab2 (t : list (list Z)) (a b : Z) : Z := nth (Z.to_nat b) (nth (Z.to_nat a) t []) (-1).
Definition e3 (a b : Z) : Z := tab2 gen_e3 a b.        (* MarchingTable<3>::e(a)[b] *)
Definition p3 (m e : Z) : Z := tab2 gen_p3 m e.        (* MarchingTable<3>::p(m)[e] *)

Definition vertex := (pt3 * Z)%type.                   (* cell origin, patch index *)
Definition tri := (vertex * vertex * vertex)%type.

Definition ambiguous (ins : pt3 -> bool) (c : pt3) : bool :=
  negb (mask ins c =? 0) && negb (mask ins c =? 255).

(* DCMesher::load<A> followed by load<A, D> for the lattice edge (A, p) *)
Definition quad (ins : pt3 -> bool) (diag : bool) (A : Z) (p : pt3) : list tri :=
  let q := Qax A in let r := Rax A in
  let c0 := psub (psub p (bits q)) (bits r) in
  let c1 := psub p (bits r) in
  let c2 := psub p (bits q) in
  let c3 := p in
  if negb (ambiguous ins c0 && ambiguous ins c1 && ambiguous ins c2 && ambiguous ins c3) then []
  else
    let a := ins p in let b := ins (padd p (bits A)) in
    if Bool.eqb a b then []
    else
      let D := a in                                    (* D = (a == FILLED) *)
      let ev := [(q + r, q + r + A); (r, r + A); (q, q + A); (0, A)] in
      let es := map (fun fs => if D then e3 (fst fs) (snd fs) else e3 (snd fs) (fst fs)) ev in
      let v := fun (c : pt3) (k : nat) => (c, p3 (mask ins c) (nth k es (-1))) in
      let v0 := v c0 0%nat in let v1 := v c1 1%nat in let v2 := v c2 2%nat in let v3 := v c3 3%nat in
      (* "if (!D) std::swap(vs[1], vs[2])" *)
      let '(w1, w2) := if D then (v1, v2) else (v2, v1) in
      if diag then [(v0, w1, w2); (w2, w1, v3)]
      else [(v0, w1, v3); (v0, v3, w2)].

Definition ledge := (Z * pt3)%type.                    (* axis, start point *)
Definition dc_mesh (ins : pt3 -> bool) (diag : ledge -> bool) (E : list ledge) : list tri :=
  flat_map (fun e => quad ins (diag e) (fst e) (snd e)) E.

(* directed edges and closedness, as in MarchTet.v but over these vertices *)
Definition vertex_eqb (u v : vertex) : bool :=
  let '((a, b, c), k) := u in let '((x, y, z), l) := v in
  (a =? x) && (b =? y) && (c =? z) && (k =? l).
Definition dedge := (vertex * vertex)%type.
Definition dedge_eqb (e f : dedge) : bool := vertex_eqb (fst e) (fst f) && vertex_eqb (snd e) (snd f).
Definition tri_edges (t : tri) : list dedge := let '(a, b, c) := t in [(a, b); (b, c); (c, a)].
Definition dedges (m : list tri) : list dedge := flat_map tri_edges m.
Definition count_dedge (e : dedge) (l : list dedge) : nat := length (filter (dedge_eqb e) l).
Definition rev_dedge (e : dedge) : dedge := (snd e, fst e).
Definition closed_mesh (m : list tri) : Prop :=
  forall e, count_dedge e (dedges m) = count_dedge (rev_dedge e) (dedges m).

(* the lattice edges that change sign *)
Definition sign_change (ins : pt3 -> bool) (e : ledge) : bool :=
  negb (Bool.eqb (ins (snd e)) (ins (padd (snd e) (bits (fst e))))).
Definition is_axis (a : Z) : bool := (a =? 1) || (a =? 2) || (a =? 4).
(* E lists every sign-changing lattice edge exactly once (the solid is bounded: finitely many) *)
Definition covers (ins : pt3 -> bool) (E : list ledge) : Prop :=
  NoDup E /\ (forall e, In e E -> is_axis (fst e) = true) /\
  (forall A p, is_axis A = true -> sign_change ins (A, p) = true -> In (A, p) E).
