(* C10 (emission): Dual<2>::walk + DCContourer::load<A> / load<A, D> (dc_contourer.cpp) on a
   uniform grid, with the 2D patch tables libfive builds at start-up (Gen/MarchTables_gen.v).

   Lattice points are Z^2; the cell with origin c has corner i (bits x = 1, y = 2) at c + bits i.
   A contour vertex is (cell origin, patch index).  For every lattice edge (axis A, start p) the
   walk calls load<A> with ts[0] = p - perp, ts[1] = p (perp the other axis); a sign change
   emits one directed segment between the two cells' vertices. *)
From Coq Require Import List ZArith Bool Lia.
From LF Require Import Gen.MarchTables_gen.
Import ListNotations.
Local Open Scope Z_scope.

Definition pt2 := (Z * Z)%type.
Definition padd2 (p q : pt2) : pt2 := (fst p + fst q, snd p + snd q).
Definition psub2 (p q : pt2) : pt2 := (fst p - fst q, snd p - snd q).
Definition bits2 (i : Z) : pt2 := (Z.land i 1, Z.land (Z.shiftr i 1) 1).
Definition corner2 (c : pt2) (i : Z) : pt2 := padd2 c (bits2 i).
Definition mask2 (ins : pt2 -> bool) (c : pt2) : Z :=
  fold_left (fun m i => if ins (corner2 c i) then m + 2 ^ i else m) [0; 1; 2; 3] 0.

Definition tabz (t : list (list Z)) (a b : Z) : Z := nth (Z.to_nat b) (nth (Z.to_nat a) t []) (-1).
Definition e2 (a b : Z) : Z := tabz gen_e2 a b.        (* MarchingTable<2>::e(a)[b] *)
Definition p2 (m e : Z) : Z := tabz gen_p2 m e.        (* MarchingTable<2>::p(m)[e] *)

Definition vertex2 := (pt2 * Z)%type.
Definition seg2 := (vertex2 * vertex2)%type.

Definition ambiguous2 (ins : pt2 -> bool) (c : pt2) : bool :=
  negb (mask2 ins c =? 0) && negb (mask2 ins c =? 15).

(* A is 1 (X) or 2 (Y) *)
Definition emit2 (ins : pt2 -> bool) (A : Z) (p : pt2) : list seg2 :=
  let perp := 3 - A in                                  (* (X | Y) ^ A *)
  let c0 := psub2 p (bits2 perp) in
  let c1 := p in
  if negb (ambiguous2 ins c0 && ambiguous2 ins c1) then []
  else
    let a := ins p in let b := ins (padd2 p (bits2 A)) in
    if Bool.eqb a b then []
    else
      (* "if ((a == FILLED && A == Y) || (b == FILLED && A == X)) load<A, 0> else load<A, 1>" *)
      let D := negb ((a && (A =? 2)) || (b && (A =? 1))) in
      (* "if (D ^ (A == X))" *)
      let '(es0, es1) := if xorb D (A =? 1) then (e2 3 (3 - A), e2 A 0) else (e2 (3 - A) 3, e2 0 A) in
      let v0 := (c0, p2 (mask2 ins c0) es0) in
      let v1 := (c1, p2 (mask2 ins c1) es1) in
      (* "m.branes.push_back({vs[!D], vs[D]})" *)
      if D then [(v0, v1)] else [(v1, v0)].

Definition ledge2 := (Z * pt2)%type.
Definition contour_soup (ins : pt2 -> bool) (E : list ledge2) : list seg2 :=
  flat_map (fun e => emit2 ins (fst e) (snd e)) E.

Definition vertex2_eqb (u v : vertex2) : bool :=
  (fst (fst u) =? fst (fst v)) && (snd (fst u) =? snd (fst v)) && (snd u =? snd v).
Definition out_deg2 (v : vertex2) (s : list seg2) : nat := length (filter (fun x => vertex2_eqb (fst x) v) s).
Definition in_deg2 (v : vertex2) (s : list seg2) : nat := length (filter (fun x => vertex2_eqb (snd x) v) s).

Definition sign_change2 (ins : pt2 -> bool) (e : ledge2) : bool :=
  negb (Bool.eqb (ins (snd e)) (ins (padd2 (snd e) (bits2 (fst e))))).
Definition is_axis2 (a : Z) : bool := (a =? 1) || (a =? 2).
Definition covers2 (ins : pt2 -> bool) (E : list ledge2) : Prop :=
  NoDup E /\ (forall e, In e E -> is_axis2 (fst e) = true) /\
  (forall A p, is_axis2 A = true -> sign_change2 ins (A, p) = true -> In (A, p) E).
