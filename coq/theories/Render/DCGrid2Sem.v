(* C10 (emission): semantics of the 2D dual-contouring pass on a uniform grid
   (model: Render/DCGrid2.v; tables: Gen/MarchTables_gen.v, generated from libfive's run-time
   MarchingTable<2>; welding: Render/Contours.v + Render/ContoursSem.v).

   No hypothesis beyond the stated ones; no axioms (Print Assumptions: closed under the global
   context).  The only table-dependent steps are two [vm_compute] sweeps over the 16 corner
   masks (all_masks_ok, all_masks_exact), so every theorem below depends on gen_e2 / gen_p2.

   MAIN THEOREM
     emission_loops : covers2 ins E -> forall v,
         out_deg2 v (contour_soup ins E) = in_deg2 v (contour_soup ins E) /\
         out_deg2 v (contour_soup ins E) <= 1
       -- for EVERY filled/empty assignment of the lattice and every list E that contains each
          sign-changing lattice edge exactly once (and only axis-1/axis-2 edges), every contour
          vertex (cell, patch) is left exactly as often as it is entered, and at most once:
          the emitted soup is a disjoint union of directed cycles.  Exactly the requested
          statement; no hypothesis added.

   LOCAL LEMMAS (per corner mask, against the real tables)
     sign_change_ambiguous : is_axis2 A -> sign_change2 ins (A, p) ->
         ambiguous2 ins (p - perp) = true /\ ambiguous2 ins p = true
       -- both cells adjacent to a sign-changing edge contain both signs, so the ambiguity
          test of load<A> never suppresses a segment on a uniform grid (emit2_core).
     local_mask_lemma : 0 <= m < 16 -> forall k,
         cnt true k (loc_mask m) = cnt false k (loc_mask m) /\ cnt true k (loc_mask m) <= 1
       -- in a cell with corner mask m, the sign-changing boundary edges (bottom, top, left,
          right; loc_mask m lists for each one the direction and the patch p(m)[e] it uses)
          leave every patch index exactly as often as they enter it, at most once.
     local_mask_exact : 0 <= m < 16 ->
         (forall k, In k (patches m) -> cnt true k (loc_mask m) = 1 /\ cnt false k (loc_mask m) = 1)
         /\ (forall o k, cnt o k (loc_mask m) <> 0 -> In k (patches m))
         /\ (m <> 0 -> m <> 15 -> patches m <> [])
       -- sharper: each patch of the mask (non-negative entry of row m of gen_p2) has exactly
          one outgoing and one incoming segment, nothing else has any, and a mixed mask has
          at least one patch (masks 6 and 9 have two).
     deg2_soup_local : covers2 ins E ->
         deg2 o ((x, y), k) (contour_soup ins E) = cnt o k (loc m b0 b1 b2 b3)
       -- the degree of a vertex of cell (x, y) in the whole soup is a function of the four
          corner signs of that cell alone (m their mask; o = true: out-degree, false: in-degree).
          No translation lemma is needed: the local checker is formulated on masks.

   BRIDGE TO THE WELDING THEOREM
     emission_loops_renum : covers2 ins E -> inj_on idx (contour_soup ins E) ->
         loops (renum idx (contour_soup ins E))
       -- under any numbering of the vertices by naturals that is injective on the vertices
          occurring in the soup, the soup is a cycle soup in the sense of ContoursSem.loops.
     emission_then_welding_closed : covers2 ins E -> inj_on idx (contour_soup ins E) ->
         forall l, In l (collect (renum idx (contour_soup ins E))) -> closed l
       -- every contour Contours::collect returns for a uniform-grid slice is a closed polyline.
     emission_then_welding_perm : Permutation (flat_map pairs (collect (renum idx soup))) (renum idx soup)
       -- and no segment is lost or invented (restates collect_pairs_perm_any).
     canon_idx_inj / emission_then_welding_closed_canon
       -- an injective numbering always exists (position of first occurrence), so the [inj_on]
          hypothesis is dischargeable for every soup.

   NON-VACUITY
     covers2_edges_of : covers2 (filled_in F) (edges_of F)
       -- for EVERY finite set F of filled lattice points the hypothesis of the main theorem
          holds for the computed list of sign-changing edges.
     finite_solid_loops F : the soup of F is a union of cycles and all its contours are closed.
     point_* (one filled point: one square), saddle_* (opposite corners (0,0), (1,1): the
     mask-9 cell has two vertices, two closed squares), saddle'_* (mask 6), block_* (2x2 block
     plus two points: an octagon and two squares): soups and [collect] outputs by vm_compute.
     covers2_needed : with one sign-changing edge missing from E a vertex has in-degree 1 and
       out-degree 0, so [covers2] cannot be dropped.

   Proof structure
     emit2_core: under a sign change the ambiguity test passes, so emit2 = emit_core (masks of
       the two cells, the two end signs, axis, the two cell origins).
     deg2_core_hi / _lo / _far: the degree of (c, k) in one emission is read off [half] when c
       is ts[1] / ts[0], and is 0 when c is neither.
     sum_supported: a sum over a duplicate-free list only sees the support of the summand;
       with covers2 the sum over E collapses to the 4 boundary edges of the cell
       (deg2_bottom/top/left/right, deg2_elsewhere, emit2_nil). *)
From Coq Require Import List ZArith Bool Lia Arith Permutation.
From LF Require Import Gen.MarchTables_gen Render.DCGrid2 Render.Contours Render.ContoursSem.
Import ListNotations.
Local Open Scope Z_scope.

(* ------------------------------------------------------------------------- *)
(** * Degrees, uniformly in the direction *)

Definition sel_of (o : bool) : seg2 -> vertex2 := if o then fst else snd.
Definition deg2 (o : bool) (v : vertex2) (s : list seg2) : nat :=
  length (filter (fun x => vertex2_eqb (sel_of o x) v) s).

Lemma out_deg2_deg2 v s : out_deg2 v s = deg2 true v s.
Proof. reflexivity. Qed.
Lemma in_deg2_deg2 v s : in_deg2 v s = deg2 false v s.
Proof. reflexivity. Qed.

Lemma deg2_app o v s t : deg2 o v (s ++ t) = (deg2 o v s + deg2 o v t)%nat.
Proof. unfold deg2. rewrite filter_app, app_length. reflexivity. Qed.

Lemma deg2_flat_map o v (f : ledge2 -> list seg2) E :
  deg2 o v (flat_map f E) = list_sum (map (fun e => deg2 o v (f e)) E).
Proof. induction E; simpl; [reflexivity|]. rewrite deg2_app, IHE. reflexivity. Qed.

Lemma vertex2_eqb_eq u v : vertex2_eqb u v = true <-> u = v.
Proof.
  destruct u as [[a b] k], v as [[x y] l]. unfold vertex2_eqb; simpl.
  rewrite !andb_true_iff, !Z.eqb_eq. split.
  - intros [[-> ->] ->]; reflexivity.
  - intros H; inversion H; auto.
Qed.

Lemma veqb_same c z k : vertex2_eqb (c, z) (c, k) = (z =? k).
Proof. unfold vertex2_eqb; simpl. rewrite !Z.eqb_refl. reflexivity. Qed.

Lemma veqb_diff c0 c z k : c0 <> c -> vertex2_eqb (c0, z) (c, k) = false.
Proof.
  intros H. destruct (vertex2_eqb (c0, z) (c, k)) eqn:E; auto.
  apply vertex2_eqb_eq in E. congruence.
Qed.

(* ------------------------------------------------------------------------- *)
(** * Sums over duplicate-free edge lists *)

Lemma list_sum_zero A (g : A -> nat) L :
  (forall e, In e L -> g e = 0%nat) -> list_sum (map g L) = 0%nat.
Proof.
  induction L as [|a L IH]; simpl; intros H; [reflexivity|].
  rewrite (H a), IH; auto.
Qed.

Lemma sum_supported A (g : A -> nat) E : forall L,
  NoDup E -> NoDup L ->
  (forall e, In e E -> g e <> 0%nat -> In e L) ->
  (forall e, In e L -> g e <> 0%nat -> In e E) ->
  list_sum (map g E) = list_sum (map g L).
Proof.
  induction E as [|a E IH]; intros L NE NL H1 H2.
  - simpl. symmetry. apply list_sum_zero. intros e He.
    destruct (Nat.eq_dec (g e) 0) as [|N]; auto. destruct (H2 e He N).
  - inversion NE as [|? ? Ha NE']; subst. simpl.
    destruct (Nat.eq_dec (g a) 0) as [Z|N].
    + rewrite Z. simpl. apply IH; auto.
      * intros e He. apply H1. right; auto.
      * intros e He Ne. destruct (H2 e He Ne) as [<-|]; auto. contradiction.
    + assert (HaL : In a L) by (apply H1; [left; auto|auto]).
      destruct (in_split _ _ HaL) as [l1 [l2 ->]].
      rewrite map_app, list_sum_app. simpl.
      destruct (NoDup_remove _ _ _ NL) as [NL' NaL].
      rewrite (IH (l1 ++ l2)); auto.
      * rewrite map_app, list_sum_app. lia.
      * intros e He Ne. assert (In e (l1 ++ a :: l2)) as Hin by (apply H1; [right; auto|auto]).
        apply in_app_or in Hin. apply in_or_app. destruct Hin as [|[<-|]]; auto. contradiction.
      * intros e He Ne.
        assert (In e (l1 ++ a :: l2)) as Hin.
        { apply in_app_or in He. apply in_or_app. destruct He; [left|right; right]; auto. }
        destruct (H2 e Hin Ne) as [<-|]; auto. contradiction.
Qed.

(* ------------------------------------------------------------------------- *)
(** * Lattice arithmetic *)

Lemma bits2_0 : bits2 0 = (0, 0). Proof. reflexivity. Qed.
Lemma bits2_1 : bits2 1 = (1, 0). Proof. reflexivity. Qed.
Lemma bits2_2 : bits2 2 = (0, 1). Proof. reflexivity. Qed.
Lemma bits2_3 : bits2 3 = (1, 1). Proof. reflexivity. Qed.

Ltac pt_solve :=
  repeat match goal with p : pt2 |- _ => destruct p end;
  unfold corner2, psub2, padd2; rewrite ?bits2_0, ?bits2_1, ?bits2_2, ?bits2_3;
  cbn [fst snd]; f_equal; lia.

Lemma corner2_0 c : corner2 c 0 = c. Proof. pt_solve. Qed.
Lemma corner2_xy x y i : corner2 (x, y) i = (x + fst (bits2 i), y + snd (bits2 i)).
Proof. reflexivity. Qed.
Lemma c0X_2 p : corner2 (psub2 p (bits2 2)) 2 = p. Proof. pt_solve. Qed.
Lemma c0X_3 p : corner2 (psub2 p (bits2 2)) 3 = padd2 p (bits2 1). Proof. pt_solve. Qed.
Lemma c0Y_1 p : corner2 (psub2 p (bits2 1)) 1 = p. Proof. pt_solve. Qed.
Lemma c0Y_3 p : corner2 (psub2 p (bits2 1)) 3 = padd2 p (bits2 2). Proof. pt_solve. Qed.

Lemma is_axis2_cases A : is_axis2 A = true -> A = 1 \/ A = 2.
Proof. unfold is_axis2. rewrite orb_true_iff, !Z.eqb_eq. auto. Qed.

(* ------------------------------------------------------------------------- *)
(** * Corner masks *)

Definition cellmask (b0 b1 b2 b3 : bool) : Z :=
  (if b0 then 1 else 0) + (if b1 then 2 else 0) + (if b2 then 4 else 0) + (if b3 then 8 else 0).

Lemma mask2_bits ins c :
  mask2 ins c = cellmask (ins (corner2 c 0)) (ins (corner2 c 1)) (ins (corner2 c 2)) (ins (corner2 c 3)).
Proof.
  unfold mask2, cellmask. cbn [fold_left].
  destruct (ins (corner2 c 0)), (ins (corner2 c 1)), (ins (corner2 c 2)), (ins (corner2 c 3)); reflexivity.
Qed.

Lemma ambiguous2_of_diff ins c i j :
  In i [0; 1; 2; 3] -> In j [0; 1; 2; 3] ->
  ins (corner2 c i) <> ins (corner2 c j) -> ambiguous2 ins c = true.
Proof.
  unfold ambiguous2. rewrite mask2_bits. intros Hi Hj.
  simpl in Hi, Hj.
  destruct Hi as [<-|[<-|[<-|[<-|[]]]]], Hj as [<-|[<-|[<-|[<-|[]]]]];
    destruct (ins (corner2 c 0)), (ins (corner2 c 1)), (ins (corner2 c 2)), (ins (corner2 c 3));
    intros H; try reflexivity; exfalso; apply H; reflexivity.
Qed.

(** A cell adjacent to a sign-changing lattice edge contains both signs. *)
Lemma sign_change_ambiguous ins A p :
  is_axis2 A = true -> sign_change2 ins (A, p) = true ->
  ambiguous2 ins (psub2 p (bits2 (3 - A))) = true /\ ambiguous2 ins p = true.
Proof.
  intros HA HS. unfold sign_change2 in HS. cbn [fst snd] in HS.
  assert (Hne : ins p <> ins (padd2 p (bits2 A))).
  { intros E. rewrite <- E in HS. rewrite eqb_reflx in HS. discriminate. }
  destruct (is_axis2_cases _ HA) as [-> | ->].
  - change (3 - 1) with 2. split.
    + apply (ambiguous2_of_diff ins _ 2 3); [simpl; auto|simpl; auto|].
      rewrite c0X_2, c0X_3. exact Hne.
    + apply (ambiguous2_of_diff ins _ 0 1); [simpl; auto|simpl; auto|].
      rewrite corner2_0. exact Hne.
  - change (3 - 2) with 1. split.
    + apply (ambiguous2_of_diff ins _ 1 3); [simpl; auto|simpl; auto|].
      rewrite c0Y_1, c0Y_3. exact Hne.
    + apply (ambiguous2_of_diff ins _ 0 2); [simpl; auto|simpl; auto|].
      rewrite corner2_0. exact Hne.
Qed.

(* ------------------------------------------------------------------------- *)
(** * The emission without the ambiguity test *)

Definition emit_core (m0 m1 : Z) (a b : bool) (A : Z) (c0 c1 : pt2) : list seg2 :=
  if Bool.eqb a b then []
  else
    let D := negb ((a && (A =? 2)) || (b && (A =? 1))) in
    let '(es0, es1) := if xorb D (A =? 1) then (e2 3 (3 - A), e2 A 0) else (e2 (3 - A) 3, e2 0 A) in
    let v0 := (c0, p2 m0 es0) in
    let v1 := (c1, p2 m1 es1) in
    if D then [(v0, v1)] else [(v1, v0)].

Lemma emit2_core ins A p :
  is_axis2 A = true ->
  emit2 ins A p =
  emit_core (mask2 ins (psub2 p (bits2 (3 - A)))) (mask2 ins p)
            (ins p) (ins (padd2 p (bits2 A))) A (psub2 p (bits2 (3 - A))) p.
Proof.
  intros HA. unfold emit2, emit_core. cbv zeta.
  destruct (Bool.eqb (ins p) (ins (padd2 p (bits2 A)))) eqn:Eab.
  - destruct (negb _); reflexivity.
  - destruct (sign_change_ambiguous ins A p HA) as [H0 H1].
    { unfold sign_change2. cbn [fst snd]. rewrite Eab. reflexivity. }
    rewrite H0, H1. reflexivity.
Qed.

Lemma emit2_nil ins A p : sign_change2 ins (A, p) = false -> emit2 ins A p = [].
Proof.
  unfold sign_change2, emit2. cbn [fst snd]. cbv zeta. intros H.
  apply negb_false_iff in H. rewrite H. destruct (negb _); reflexivity.
Qed.

(* ------------------------------------------------------------------------- *)
(** * What one cell sees of a boundary edge *)

(* [half m a b A side]: the end, in a cell with corner mask [m], of the segment emitted for a
   lattice edge of axis [A] whose ends have signs [a], [b]; [side = true] when the cell is
   ts[1] (c1: the edge is its bottom / left edge), [false] when it is ts[0] (c0: top / right).
   An entry (true, k) is a segment LEAVING patch k, (false, k) a segment ENTERING patch k. *)
Definition half (m : Z) (a b : bool) (A : Z) (side : bool) : list (bool * Z) :=
  if Bool.eqb a b then []
  else
    let D := negb ((a && (A =? 2)) || (b && (A =? 1))) in
    let '(es0, es1) := if xorb D (A =? 1) then (e2 3 (3 - A), e2 A 0) else (e2 (3 - A) 3, e2 0 A) in
    if side then [(negb D, p2 m es1)] else [(D, p2 m es0)].

Definition cnt (o : bool) (k : Z) (l : list (bool * Z)) : nat :=
  length (filter (fun x => Bool.eqb (fst x) o && (snd x =? k)) l).

Lemma cnt_app o k l1 l2 : cnt o k (l1 ++ l2) = (cnt o k l1 + cnt o k l2)%nat.
Proof. unfold cnt. rewrite filter_app, app_length. reflexivity. Qed.

Lemma deg2_core_hi o c k m0 m a b A c0 :
  is_axis2 A = true -> c0 <> c ->
  deg2 o (c, k) (emit_core m0 m a b A c0 c) = cnt o k (half m a b A true).
Proof.
  intros HA Hne. unfold emit_core, half, deg2, cnt.
  destruct (is_axis2_cases _ HA) as [-> | ->]; destruct a, b, o; cbn -[p2 e2];
    rewrite ?veqb_same, ?(veqb_diff _ _ _ _ Hne); try reflexivity;
    destruct (_ =? k); reflexivity.
Qed.

Lemma deg2_core_lo o c k m m1 a b A c1 :
  is_axis2 A = true -> c1 <> c ->
  deg2 o (c, k) (emit_core m m1 a b A c c1) = cnt o k (half m a b A false).
Proof.
  intros HA Hne. unfold emit_core, half, deg2, cnt.
  destruct (is_axis2_cases _ HA) as [-> | ->]; destruct a, b, o; cbn -[p2 e2];
    rewrite ?veqb_same, ?(veqb_diff _ _ _ _ Hne); try reflexivity;
    destruct (_ =? k); reflexivity.
Qed.

Lemma deg2_core_far o c k m0 m1 a b A c0 c1 :
  c0 <> c -> c1 <> c -> deg2 o (c, k) (emit_core m0 m1 a b A c0 c1) = 0%nat.
Proof.
  intros H0 H1. unfold emit_core, deg2.
  destruct a, b, (A =? 1), (A =? 2), o; cbn -[p2 e2];
    rewrite ?(veqb_diff _ _ _ _ H0), ?(veqb_diff _ _ _ _ H1); reflexivity.
Qed.

(* ------------------------------------------------------------------------- *)
(** * The 16-mask local lemma, checked against the generated tables *)

(* everything cell c sees: bottom (X, c), top (X, c + y), left (Y, c), right (Y, c + x) *)
Definition loc (m : Z) (b0 b1 b2 b3 : bool) : list (bool * Z) :=
  half m b0 b1 1 true ++ half m b2 b3 1 false ++ half m b0 b2 2 true ++ half m b1 b3 2 false.

Definition loc_mask (m : Z) : list (bool * Z) :=
  loc m (Z.testbit m 0) (Z.testbit m 1) (Z.testbit m 2) (Z.testbit m 3).

(* every patch index that occurs is left exactly as often as it is entered, at most once *)
Definition bal_ok (l : list (bool * Z)) : bool :=
  forallb (fun x => (cnt true (snd x) l =? cnt false (snd x) l)%nat &&
                    (cnt true (snd x) l <=? 1)%nat) l.

Lemma cnt_zero o k l : (forall x, In x l -> snd x <> k) -> cnt o k l = 0%nat.
Proof.
  intros H. unfold cnt. induction l as [|x l IH]; [reflexivity|]. simpl.
  destruct (Z.eqb_spec (snd x) k) as [E|_].
  - destruct (H x (or_introl eq_refl) E).
  - rewrite andb_false_r. apply IH. intros y Hy. apply H. right; auto.
Qed.

Lemma bal_ok_spec l : bal_ok l = true ->
  forall k, cnt true k l = cnt false k l /\ (cnt true k l <= 1)%nat.
Proof.
  intros H k. unfold bal_ok in H. rewrite forallb_forall in H.
  destruct (existsb (fun x => snd x =? k) l) eqn:Ex.
  - apply existsb_exists in Ex. destruct Ex as [x [Hx E]]. apply Z.eqb_eq in E. subst k.
    specialize (H x Hx). apply andb_true_iff in H. destruct H as [H1 H2].
    apply Nat.eqb_eq in H1. apply Nat.leb_le in H2. auto.
  - assert (N : forall x, In x l -> snd x <> k).
    { intros x Hx E. assert (existsb (fun x => snd x =? k) l = true) as C.
      { apply existsb_exists. exists x. split; auto. apply Z.eqb_eq; auto. }
      congruence. }
    rewrite !(cnt_zero _ _ _ N). auto.
Qed.

Definition masks16 : list Z := map Z.of_nat (seq 0 16).

(** The sweep over libfive's table: all 16 corner masks. *)
Lemma all_masks_ok : forallb (fun m => bal_ok (loc_mask m)) masks16 = true.
Proof. vm_compute. reflexivity. Qed.

(* patches of a mask: the non-negative entries of its row of the table *)
Definition patches (m : Z) : list Z := filter (fun k => 0 <=? k) (nth (Z.to_nat m) gen_p2 []).

(* exactness: the indices that occur are exactly the patches of the mask, and an ambiguous mask
   has at least one *)
Definition exact_ok (m : Z) : bool :=
  forallb (fun k => (cnt true k (loc_mask m) =? 1)%nat && (cnt false k (loc_mask m) =? 1)%nat) (patches m) &&
  forallb (fun x => existsb (Z.eqb (snd x)) (patches m)) (loc_mask m) &&
  (if (m =? 0) || (m =? 15) then true else negb (length (patches m) =? 0)%nat).

Lemma all_masks_exact : forallb exact_ok masks16 = true.
Proof. vm_compute. reflexivity. Qed.

Lemma in_masks16 m : 0 <= m < 16 -> In m masks16.
Proof.
  intros H. unfold masks16. rewrite <- (Z2Nat.id m) by lia.
  apply in_map. apply in_seq. lia.
Qed.

(** LOCAL LEMMA (per corner mask, against the real tables): in a cell with corner mask m the
    sign-changing boundary edges leave every patch index exactly as often as they enter it,
    and at most once. *)
Theorem local_mask_lemma m : 0 <= m < 16 ->
  forall k, cnt true k (loc_mask m) = cnt false k (loc_mask m) /\ (cnt true k (loc_mask m) <= 1)%nat.
Proof.
  intros Hm. apply bal_ok_spec.
  pose proof all_masks_ok as H. rewrite forallb_forall in H. apply H. apply in_masks16; auto.
Qed.

(** ... and exactly once for each patch of the mask, never for anything else. *)
Theorem local_mask_exact m : 0 <= m < 16 ->
  (forall k, In k (patches m) -> cnt true k (loc_mask m) = 1%nat /\ cnt false k (loc_mask m) = 1%nat) /\
  (forall o k, cnt o k (loc_mask m) <> 0%nat -> In k (patches m)) /\
  (m <> 0 -> m <> 15 -> patches m <> []).
Proof.
  intros Hm. pose proof all_masks_exact as H. rewrite forallb_forall in H.
  specialize (H m (in_masks16 m Hm)). unfold exact_ok in H.
  rewrite !andb_true_iff in H. destruct H as [[H1 H2] H3].
  rewrite forallb_forall in H1, H2. split; [|split].
  - intros k Hk. specialize (H1 k Hk). apply andb_true_iff in H1.
    rewrite !Nat.eqb_eq in H1. exact H1.
  - intros o k Hc.
    destruct (existsb (fun x => snd x =? k) (loc_mask m)) eqn:Ex.
    + apply existsb_exists in Ex. destruct Ex as [x [Hx E]]. apply Z.eqb_eq in E. subst k.
      specialize (H2 x Hx). apply existsb_exists in H2. destruct H2 as [y [Hy E]].
      apply Z.eqb_eq in E. rewrite E. exact Hy.
    + exfalso. apply Hc. apply cnt_zero. intros x Hx E.
      assert (existsb (fun x => snd x =? k) (loc_mask m) = true) as C.
      { apply existsb_exists. exists x. split; auto. apply Z.eqb_eq; auto. }
      congruence.
  - intros N0 N15. destruct (Z.eqb_spec m 0); [contradiction|].
    destruct (Z.eqb_spec m 15); [contradiction|]. simpl in H3.
    intros E. rewrite E in H3. discriminate.
Qed.

Lemma cellmask_range b0 b1 b2 b3 : 0 <= cellmask b0 b1 b2 b3 < 16.
Proof. destruct b0, b1, b2, b3; vm_compute; split; congruence. Qed.

Lemma loc_cellmask b0 b1 b2 b3 :
  loc (cellmask b0 b1 b2 b3) b0 b1 b2 b3 = loc_mask (cellmask b0 b1 b2 b3).
Proof. unfold loc_mask. destruct b0, b1, b2, b3; reflexivity. Qed.

Lemma local_bits_lemma b0 b1 b2 b3 : let l := loc (cellmask b0 b1 b2 b3) b0 b1 b2 b3 in
  forall k, cnt true k l = cnt false k l /\ (cnt true k l <= 1)%nat.
Proof. intros l. subst l. rewrite loc_cellmask. apply local_mask_lemma. apply cellmask_range. Qed.

(* ------------------------------------------------------------------------- *)
(** * From one cell to the whole soup *)

Ltac zn := repeat first [rewrite Z.add_0_r | rewrite Z.sub_0_r | rewrite Z.add_simpl_r].

Section Cell.
  Variable ins : pt2 -> bool.
  Variables x y : Z.

  Let b0 := ins (x, y).
  Let b1 := ins (x + 1, y).
  Let b2 := ins (x, y + 1).
  Let b3 := ins (x + 1, y + 1).
  Let m := cellmask b0 b1 b2 b3.

  Lemma mask2_xy : mask2 ins (x, y) = m.
  Proof.
    rewrite mask2_bits. rewrite !corner2_xy, bits2_0, bits2_1, bits2_2, bits2_3.
    cbn [fst snd]. zn. reflexivity.
  Qed.

  Lemma pt_neq_y (a b c d : Z) : b <> d -> (a, b) <> (c, d).
  Proof. intros H E. inversion E. contradiction. Qed.
  Lemma pt_neq_x (a b c d : Z) : a <> c -> (a, b) <> (c, d).
  Proof. intros H E. inversion E. contradiction. Qed.

  (* bottom edge: (X, c), c is ts[1] *)
  Lemma deg2_bottom o k :
    deg2 o ((x, y), k) (emit2 ins 1 (x, y)) = cnt o k (half m b0 b1 1 true).
  Proof.
    rewrite emit2_core by reflexivity. change (3 - 1) with 2. rewrite bits2_1, bits2_2.
    unfold psub2, padd2. cbn [fst snd]. zn. rewrite mask2_xy.
    apply deg2_core_hi; [reflexivity|]. apply pt_neq_y. lia.
  Qed.

  (* top edge: (X, c + y), c is ts[0] *)
  Lemma deg2_top o k :
    deg2 o ((x, y), k) (emit2 ins 1 (x, y + 1)) = cnt o k (half m b2 b3 1 false).
  Proof.
    rewrite emit2_core by reflexivity. change (3 - 1) with 2. rewrite bits2_1, bits2_2.
    unfold psub2, padd2. cbn [fst snd]. zn. rewrite mask2_xy.
    apply deg2_core_lo; [reflexivity|]. apply pt_neq_y. lia.
  Qed.

  (* left edge: (Y, c), c is ts[1] *)
  Lemma deg2_left o k :
    deg2 o ((x, y), k) (emit2 ins 2 (x, y)) = cnt o k (half m b0 b2 2 true).
  Proof.
    rewrite emit2_core by reflexivity. change (3 - 2) with 1. rewrite bits2_1, bits2_2.
    unfold psub2, padd2. cbn [fst snd]. zn. rewrite mask2_xy.
    apply deg2_core_hi; [reflexivity|]. apply pt_neq_x. lia.
  Qed.

  (* right edge: (Y, c + x), c is ts[0] *)
  Lemma deg2_right o k :
    deg2 o ((x, y), k) (emit2 ins 2 (x + 1, y)) = cnt o k (half m b1 b3 2 false).
  Proof.
    rewrite emit2_core by reflexivity. change (3 - 2) with 1. rewrite bits2_1, bits2_2.
    unfold psub2, padd2. cbn [fst snd]. zn. rewrite mask2_xy.
    apply deg2_core_lo; [reflexivity|]. apply pt_neq_x. lia.
  Qed.

  Definition boundary : list ledge2 := [(1, (x, y)); (1, (x, y + 1)); (2, (x, y)); (2, (x + 1, y))].

  Lemma boundary_NoDup : NoDup boundary.
  Proof.
    unfold boundary. repeat constructor; simpl; intros H;
      repeat match goal with H : _ \/ _ |- _ => destruct H end;
      try contradiction; try discriminate;
      match goal with H : _ = _ |- _ => inversion H; lia end.
  Qed.

  (* an edge that is not on the boundary of cell (x, y) emits nothing touching its vertices *)
  Lemma deg2_elsewhere o k A p :
    is_axis2 A = true -> ~ In (A, p) boundary -> deg2 o ((x, y), k) (emit2 ins A p) = 0%nat.
  Proof.
    intros HA Hn. rewrite emit2_core by exact HA. destruct p as [px py].
    destruct (is_axis2_cases _ HA) as [-> | ->].
    - change (3 - 1) with 2. rewrite bits2_1, bits2_2. unfold psub2, padd2. cbn [fst snd]. zn.
      apply deg2_core_far.
      + intros E. inversion E. apply Hn. right; left. f_equal. f_equal; lia.
      + intros E. inversion E. apply Hn. left. subst. reflexivity.
    - change (3 - 2) with 1. rewrite bits2_1, bits2_2. unfold psub2, padd2. cbn [fst snd]. zn.
      apply deg2_core_far.
      + intros E. inversion E. apply Hn. right; right; right; left. f_equal. f_equal; lia.
      + intros E. inversion E. apply Hn. right; right; left. subst. reflexivity.
  Qed.

  Lemma ledge2_in_boundary_dec e : In e boundary \/ ~ In e boundary.
  Proof.
    assert (D : forall a b : ledge2, {a = b} + {a <> b}).
    { decide equality; [decide equality; apply Z.eq_dec | apply Z.eq_dec]. }
    destruct (in_dec D e boundary); auto.
  Qed.

  (** The degree of a vertex of cell (x, y) in the whole soup only depends on the corner
      signs of that cell. *)
  Lemma deg2_soup_local o k E :
    covers2 ins E ->
    deg2 o ((x, y), k) (contour_soup ins E) = cnt o k (loc m b0 b1 b2 b3).
  Proof.
    intros [ND [Hax Hcov]]. unfold contour_soup. rewrite deg2_flat_map.
    rewrite (sum_supported _ _ E boundary ND boundary_NoDup).
    - unfold boundary. cbn [map list_sum fold_right fst snd].
      rewrite deg2_bottom, deg2_top, deg2_left, deg2_right.
      unfold loc. rewrite !cnt_app. lia.
    - intros [A p] He Hg. destruct (ledge2_in_boundary_dec (A, p)) as [|Hn]; auto.
      exfalso. apply Hg. cbn [fst snd]. apply deg2_elsewhere; auto. apply (Hax _ He).
    - intros [A p] He Hg. apply Hcov.
      + unfold boundary in He. simpl in He.
        destruct He as [E1|[E1|[E1|[E1|[]]]]]; inversion E1; reflexivity.
      + destruct (sign_change2 ins (A, p)) eqn:S; auto.
        exfalso. apply Hg. cbn [fst snd]. rewrite emit2_nil by exact S. reflexivity.
  Qed.
End Cell.

(* ------------------------------------------------------------------------- *)
(** * MAIN THEOREM *)

Theorem emission_loops : forall ins E, covers2 ins E ->
  forall v, out_deg2 v (contour_soup ins E) = in_deg2 v (contour_soup ins E) /\
            (out_deg2 v (contour_soup ins E) <= 1)%nat.
Proof.
  intros ins E Hc [[x y] k].
  rewrite out_deg2_deg2, in_deg2_deg2, !(deg2_soup_local ins x y _ k E Hc).
  apply local_bits_lemma.
Qed.

(* ------------------------------------------------------------------------- *)
(** * Bridge to the welding theorem (Contours.v / ContoursSem.v) *)

Definition verts (s : list seg2) : list vertex2 := map fst s ++ map snd s.
Definition renum (idx : vertex2 -> nat) (s : list seg2) : list seg :=
  map (fun x => (idx (fst x), idx (snd x))) s.
Definition inj_on (idx : vertex2 -> nat) (s : list seg2) : Prop :=
  forall u v, In u (verts s) -> In v (verts s) -> idx u = idx v -> u = v.

Lemma in_verts o x s : In x s -> In (sel_of o x) (verts s).
Proof.
  intros H. unfold verts. apply in_or_app.
  destruct o; [left|right]; simpl; apply in_map; exact H.
Qed.

Lemma filter_none A (f : A -> bool) l : (forall x, In x l -> f x = false) -> filter f l = [].
Proof.
  induction l as [|a l IH]; intros H; [reflexivity|]. simpl.
  rewrite (H a) by (left; auto). apply IH. intros; apply H; right; auto.
Qed.

Lemma length_filter_map A B (g : A -> B) (f : B -> bool) l :
  length (filter f (map g l)) = length (filter (fun x => f (g x)) l).
Proof. induction l as [|a l IH]; simpl; [reflexivity|]. destruct (f (g a)); simpl; congruence. Qed.

Lemma out_deg_renum idx s n :
  out_deg n (renum idx s) = length (filter (fun x => Nat.eqb (idx (sel_of true x)) n) s).
Proof. unfold out_deg, renum. rewrite length_filter_map. reflexivity. Qed.
Lemma in_deg_renum idx s n :
  in_deg n (renum idx s) = length (filter (fun x => Nat.eqb (idx (sel_of false x)) n) s).
Proof. unfold in_deg, renum. rewrite length_filter_map. reflexivity. Qed.

Lemma deg_renum_vertex o idx s v :
  inj_on idx s -> In v (verts s) ->
  length (filter (fun x => Nat.eqb (idx (sel_of o x)) (idx v)) s) = deg2 o v s.
Proof.
  intros Hinj Hv. unfold deg2. f_equal. apply filter_ext_in. intros x Hx.
  destruct (vertex2_eqb (sel_of o x) v) eqn:E.
  - apply vertex2_eqb_eq in E. rewrite E. apply Nat.eqb_refl.
  - apply Nat.eqb_neq. intros C. apply Hinj in C; auto using in_verts.
    apply vertex2_eqb_eq in C. congruence.
Qed.

Lemma loops_renum idx s :
  inj_on idx s ->
  (forall v, out_deg2 v s = in_deg2 v s /\ (out_deg2 v s <= 1)%nat) ->
  loops (renum idx s).
Proof.
  intros Hinj Hdeg.
  assert (K : forall n, out_deg n (renum idx s) = in_deg n (renum idx s) /\
                        (out_deg n (renum idx s) <= 1)%nat).
  { intros n. rewrite out_deg_renum, in_deg_renum.
    destruct (existsb (fun v => Nat.eqb (idx v) n) (verts s)) eqn:Ex.
    - apply existsb_exists in Ex. destruct Ex as [v [Hv E]]. apply Nat.eqb_eq in E. subst n.
      rewrite !deg_renum_vertex by auto. apply Hdeg.
    - assert (N : forall o x, In x s -> Nat.eqb (idx (sel_of o x)) n = false).
      { intros o x Hx. destruct (Nat.eqb (idx (sel_of o x)) n) eqn:E; auto.
        assert (existsb (fun v => Nat.eqb (idx v) n) (verts s) = true) as C.
        { apply existsb_exists. exists (sel_of o x). split; auto using in_verts. }
        congruence. }
      rewrite !filter_none; [simpl; auto| |]; intros x Hx; apply N; auto. }
  split.
  - intros n. destruct (K n) as [E L]. split; [exact L|]. rewrite <- E. exact L.
  - intros n. apply K.
Qed.

(** The renumbered emission is a soup of cycles in the sense of ContoursSem.v ... *)
Theorem emission_loops_renum ins E idx :
  covers2 ins E -> inj_on idx (contour_soup ins E) ->
  loops (renum idx (contour_soup ins E)).
Proof. intros Hc Hinj. apply loops_renum; auto. apply emission_loops; auto. Qed.

(** ... hence every contour that Contours::collect returns for it is a closed polyline. *)
Theorem emission_then_welding_closed ins E idx :
  covers2 ins E -> inj_on idx (contour_soup ins E) ->
  forall l, In l (collect (renum idx (contour_soup ins E))) -> closed l.
Proof. intros Hc Hinj. apply collect_closed_loops. apply emission_loops_renum; auto. Qed.

(** and no segment is lost or invented on the way (ContoursSem.collect_pairs_perm_any). *)
Theorem emission_then_welding_perm ins E idx :
  Permutation (flat_map pairs (collect (renum idx (contour_soup ins E))))
              (renum idx (contour_soup ins E)).
Proof. apply collect_pairs_perm_any. Qed.

(* A canonical injective numbering always exists: position of first occurrence. *)
Fixpoint index_of (v : vertex2) (l : list vertex2) : nat :=
  match l with
  | [] => 0
  | u :: r => if vertex2_eqb u v then 0 else S (index_of v r)
  end.
Definition canon_idx (s : list seg2) (v : vertex2) : nat := index_of v (verts s).

Lemma veqb_refl v : vertex2_eqb v v = true.
Proof. apply vertex2_eqb_eq. reflexivity. Qed.

Lemma index_of_inj l : forall u v, In u l -> In v l -> index_of u l = index_of v l -> u = v.
Proof.
  induction l as [|w r IH]; simpl; intros u v Hu Hv E; [contradiction|].
  destruct (vertex2_eqb w u) eqn:Eu, (vertex2_eqb w v) eqn:Ev; try discriminate.
  - apply vertex2_eqb_eq in Eu, Ev. congruence.
  - destruct Hu as [<-|Hu]; [rewrite veqb_refl in Eu; discriminate|].
    destruct Hv as [<-|Hv]; [rewrite veqb_refl in Ev; discriminate|].
    injection E as E. auto.
Qed.

Lemma canon_idx_inj s : inj_on (canon_idx s) s.
Proof. intros u v Hu Hv E. eapply index_of_inj; eauto. Qed.

Corollary emission_then_welding_closed_canon ins E :
  covers2 ins E ->
  let s := contour_soup ins E in
  forall l, In l (collect (renum (canon_idx s) s)) -> closed l.
Proof. intros Hc s. apply emission_then_welding_closed; auto. apply canon_idx_inj. Qed.

(* ------------------------------------------------------------------------- *)
(** * The hypothesis [covers2] is satisfiable for every bounded solid *)

Definition pt2_eqb (p q : pt2) : bool := (fst p =? fst q) && (snd p =? snd q).
Definition filled_in (F : list pt2) (p : pt2) : bool := existsb (pt2_eqb p) F.
Definition incident (q : pt2) : list ledge2 :=
  [(1, q); (1, psub2 q (bits2 1)); (2, q); (2, psub2 q (bits2 2))].
Definition ledge2_eq_dec : forall a b : ledge2, {a = b} + {a <> b}.
Proof. decide equality; [decide equality; apply Z.eq_dec | apply Z.eq_dec]. Defined.
Definition edges_of (F : list pt2) : list ledge2 :=
  filter (sign_change2 (filled_in F)) (nodup ledge2_eq_dec (flat_map incident F)).

Lemma pt2_eqb_eq p q : pt2_eqb p q = true <-> p = q.
Proof.
  destruct p, q. unfold pt2_eqb. simpl. rewrite andb_true_iff, !Z.eqb_eq. split.
  - intros [-> ->]; reflexivity.
  - intros H; inversion H; auto.
Qed.

Lemma psub2_padd2 p d : psub2 (padd2 p d) d = p.
Proof. destruct p, d. unfold psub2, padd2. cbn [fst snd]. f_equal; lia. Qed.

Theorem covers2_edges_of F : covers2 (filled_in F) (edges_of F).
Proof.
  unfold covers2, edges_of. split; [|split].
  - apply NoDup_filter. apply NoDup_nodup.
  - intros e He. apply filter_In in He. destruct He as [He _].
    apply nodup_In in He. apply in_flat_map in He. destruct He as [q [_ He]].
    simpl in He. destruct He as [<-|[<-|[<-|[<-|[]]]]]; reflexivity.
  - intros A p HA HS. apply filter_In. split; [|exact HS].
    apply nodup_In. apply in_flat_map.
    unfold sign_change2 in HS. cbn [fst snd] in HS.
    destruct (filled_in F p) eqn:Fp.
    + apply existsb_exists in Fp. destruct Fp as [q [Hq E]]. apply pt2_eqb_eq in E. subst q.
      exists p. split; auto.
      destruct (is_axis2_cases _ HA) as [-> | ->]; simpl; auto.
    + destruct (filled_in F (padd2 p (bits2 A))) eqn:Fq; [|discriminate].
      apply existsb_exists in Fq. destruct Fq as [q [Hq E]]. apply pt2_eqb_eq in E. subst q.
      exists (padd2 p (bits2 A)). split; auto.
      destruct (is_axis2_cases _ HA) as [-> | ->]; simpl; rewrite psub2_padd2; auto.
Qed.

(** Every finite set of filled lattice points: the emitted soup is a union of directed cycles
    and every welded contour is closed. *)
Corollary finite_solid_loops F :
  let s := contour_soup (filled_in F) (edges_of F) in
  (forall v, out_deg2 v s = in_deg2 v s /\ (out_deg2 v s <= 1)%nat) /\
  (forall l, In l (collect (renum (canon_idx s) s)) -> closed l).
Proof.
  intros s. split.
  - apply emission_loops. apply covers2_edges_of.
  - apply emission_then_welding_closed_canon. apply covers2_edges_of.
Qed.

(* ------------------------------------------------------------------------- *)
(** * Non-vacuity: concrete solids, their soups and their welded contours *)

Definition soup_of (F : list pt2) : list seg2 := contour_soup (filled_in F) (edges_of F).
Definition contours_of (F : list pt2) : list (list nat) :=
  collect (renum (canon_idx (soup_of F)) (soup_of F)).

(* 1. a single filled lattice point in an empty plane: the four cells around it have masks
      8, 4, 2, 1; one square contour *)
Definition F_point : list pt2 := [(0, 0)].

Example point_edges : edges_of F_point = [(1, (0, 0)); (1, (-1, 0)); (2, (0, 0)); (2, (0, -1))].
Proof. vm_compute. reflexivity. Qed.
Example point_covers : covers2 (filled_in F_point) (edges_of F_point).
Proof. apply covers2_edges_of. Qed.
Example point_soup :
  soup_of F_point =
  [((0, -1), 0, ((0, 0), 0)); ((-1, 0), 0, ((-1, -1), 0));
   ((0, 0), 0, ((-1, 0), 0)); ((-1, -1), 0, ((0, -1), 0))].
Proof. vm_compute. reflexivity. Qed.
Example point_contours : contours_of F_point = [[0; 2; 1; 3; 0]]%nat.
Proof. vm_compute. reflexivity. Qed.
Example point_closed : forall l, In l (contours_of F_point) -> closed l.
Proof. apply (finite_solid_loops F_point). Qed.

(* 2. the "opposite corners" saddle: (0,0) and (1,1) filled, everything else empty.  The cell
      with origin (0,0) has the ambiguous mask 9 and TWO vertices, ((0,0),0) and ((0,0),1);
      the soup has 8 segments and welds into two closed squares, one around each point. *)
Definition F_saddle : list pt2 := [(0, 0); (1, 1)].

Example saddle_mask : mask2 (filled_in F_saddle) (0, 0) = 9.
Proof. vm_compute. reflexivity. Qed.
Example saddle_covers : covers2 (filled_in F_saddle) (edges_of F_saddle).
Proof. apply covers2_edges_of. Qed.
Example saddle_soup :
  soup_of F_saddle =
  [((0, -1), 0, ((0, 0), 0)); ((-1, 0), 0, ((-1, -1), 0));
   ((0, 0), 0, ((-1, 0), 0)); ((-1, -1), 0, ((0, -1), 0));
   ((1, 0), 0, ((1, 1), 0)); ((0, 1), 0, ((0, 0), 1));
   ((1, 1), 0, ((0, 1), 0)); ((0, 0), 1, ((1, 0), 0))].
Proof. vm_compute. reflexivity. Qed.
Example saddle_contours :
  contours_of F_saddle = [[0; 2; 1; 3; 0]; [4; 6; 5; 7; 4]]%nat.
Proof. vm_compute. reflexivity. Qed.
Example saddle_closed : forall l, In l (contours_of F_saddle) -> closed l.
Proof. apply (finite_solid_loops F_saddle). Qed.

(* the other saddle, mask 6 *)
Definition F_saddle' : list pt2 := [(1, 0); (0, 1)].
Example saddle'_mask : mask2 (filled_in F_saddle') (0, 0) = 6.
Proof. vm_compute. reflexivity. Qed.
Example saddle'_contours :
  contours_of F_saddle' = [[0; 2; 1; 3; 0]; [4; 6; 5; 7; 4]]%nat.
Proof. vm_compute. reflexivity. Qed.

(* 3. a 2x2 block plus two detached points: 16 segments, one octagon and two squares *)
Definition F_block : list pt2 := [(0, 0); (1, 0); (0, 1); (1, 1); (2, 2); (3, 1)].
Example block_soup_len : length (soup_of F_block) = 16%nat.
Proof. vm_compute. reflexivity. Qed.
Example block_contours :
  contours_of F_block =
  [[5; 4; 0; 1; 3; 2; 6; 7; 5]; [8; 10; 9; 11; 8]; [12; 14; 13; 15; 12]]%nat.
Proof. vm_compute. reflexivity. Qed.
Example block_closed : forall l, In l (contours_of F_block) -> closed l.
Proof. apply (finite_solid_loops F_block). Qed.

(* [covers2] cannot be dropped: with one sign-changing edge missing, a vertex is left but
   never entered. *)
Example covers2_needed :
  let E := [(1, (0, 0)); (1, (-1, 0)); (2, (0, 0))] in
  let s := contour_soup (filled_in F_point) E in
  out_deg2 ((-1, -1), 0) s = 0%nat /\ in_deg2 ((-1, -1), 0) s = 1%nat.
Proof. vm_compute. split; reflexivity. Qed.
