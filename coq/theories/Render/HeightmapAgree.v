(* Heightmap::recurse as the C++ source states it (Gen/HeightmapRecurse_gen.v, regenerated from heightmap.cpp on every run by
   translate/gen_heightmap.py) IS the [recurse] of the model (Render/Heightmap.v) that the C09 theorems are about, with the
   model's classification oracle read off the interval result the way the code does: FILLED only when the interval is below
   zero AND cannot be NaN (the defect repaired in 7c541f6 dropped the second test), recursion unless the interval is above
   zero, the higher half of the split first. *)
From Coq Require Import List ZArith Arith Bool.
From LF Require Import Render.Heightmap Gen.HeightmapRecurse_gen.

Section Agree.
  Variable inside : nat -> nat -> nat -> bool.
  Variables filled safe empty : view -> bool.

  Definition classify_of (v : view) : cls :=
    if filled v && safe v then Filled else if negb (empty v) then Ambiguous else Empty.

  Lemma recurse_gen_eq : forall fuel limit v im,
    recurse_gen inside filled safe empty fuel limit v im = recurse inside classify_of fuel limit v im.
  Proof.
    induction fuel as [|f IH]; intros limit v im; cbn [recurse_gen recurse]; [reflexivity|].
    destruct (all_at_top v im); [reflexivity|].
    destruct (voxels v <=? limit); [reflexivity|].
    unfold classify_of.
    destruct (filled v && safe v); [reflexivity|].
    destruct (negb (empty v)); [|reflexivity].
    destruct (split true true true v) as [lo hi]. cbn [fst snd].
    rewrite !IH. reflexivity.
  Qed.
End Agree.
